import CharonV.Model.ConsWrap
import CharonV.Proofs.QbftWire
/-
Helper lemmas for the wrapper-level C03 theorems (`CharonV.Props.C03Wrap`).
-/
namespace CharonV.ConsWrap

open CharonV.QbftWire (Duty Crypto Status VMap Hash Inner)

/-! ### instance map -/

theorem findIO_setIO_same (ios : List IOSt) (i : IOSt) :
    (setIO ios i).find? (fun x => x.duty = i.duty) = some i := by
  induction ios with
  | nil => simp [setIO]
  | cons x xs ih =>
    unfold setIO
    split
    · simp
    · rename_i hne
      rw [List.find?_cons]
      simp [hne, ih]

theorem findIO_setIO_eq (ios : List IOSt) (i : IOSt) (d : Duty) (hd : i.duty = d) :
    (setIO ios i).find? (fun x => x.duty = d) = some i := by
  subst hd; exact findIO_setIO_same ios i

theorem findIO_setIO_other (ios : List IOSt) (i : IOSt) (d : Duty) (hd : d ≠ i.duty) :
    (setIO ios i).find? (fun x => x.duty = d) = ios.find? (fun x => x.duty = d) := by
  induction ios with
  | nil => simp [setIO]; intro h; exact absurd h.symm hd
  | cons x xs ih =>
    unfold setIO
    split
    · rename_i heq
      rw [List.find?_cons, List.find?_cons]
      have h1 : (decide (i.duty = d)) = false := by simp; intro h; exact hd h.symm
      have h2 : (decide (x.duty = d)) = false := by simp; intro h; exact hd (by rw [← h, heq])
      simp [h1, h2]
    · rw [List.find?_cons, List.find?_cons, ih]

theorem setIO_of_find {ios : List IOSt} {i : IOSt} {d : Duty}
    (h : ios.find? (fun x => x.duty = d) = some i) : setIO ios i = ios := by
  induction ios with
  | nil => simp at h
  | cons x xs ih =>
    rw [List.find?_cons] at h
    unfold setIO
    split at h
    · cases h; simp
    · rename_i hx
      have hid : i.duty = d := by simpa using List.find?_some h
      have : ¬ x.duty = i.duty := by rw [hid]; simpa using hx
      simp [this, ih h]

theorem find_filter_other (ios : List IOSt) {d d' : Duty} (hd : d ≠ d') :
    (ios.filter (fun i => i.duty ≠ d')).find? (fun x => x.duty = d) = ios.find? (fun x => x.duty = d) := by
  induction ios with
  | nil => rfl
  | cons x xs ih =>
    by_cases hx : x.duty = d'
    · have hxd : ¬ x.duty = d := fun h => hd (by rw [← h, hx])
      rw [List.filter_cons_of_neg (by simp [hx]), List.find?_cons_of_neg (by simpa using hxd)]
      exact ih
    · rw [List.filter_cons_of_pos (by simp [hx])]
      by_cases hxd : x.duty = d
      · rw [List.find?_cons_of_pos (by simpa using hxd), List.find?_cons_of_pos (by simpa using hxd)]
      · rw [List.find?_cons_of_neg (by simpa using hxd), List.find?_cons_of_neg (by simpa using hxd)]
        exact ih

theorem getIO_duty (s : State) (d : Duty) : (getIO s d).duty = d := by
  unfold getIO findIO
  split
  · rename_i i hi; simpa using List.find?_some hi
  · rfl

/-- the duty's IO is in the map and has `running` set. -/
def isRunning (s : State) (d : Duty) : Prop := ∃ io, findIO s d = some io ∧ io.running = true

def runDuties (s : State) : List Duty := s.runs.map (·.duty)

theorem setRun_duties (runs : List RunSt) (d : Duty) (f : RunSt → RunSt) (hf : ∀ r, (f r).duty = r.duty) :
    (setRun runs d f).map (·.duty) = runs.map (·.duty) := by
  unfold setRun
  rw [List.map_map]
  apply List.map_congr_left
  intro r _
  simp only [Function.comp]
  split
  · exact hf r
  · rfl

/-! ### `runInstance` -/

theorem runInstance_cases (s : State) (io : IOSt) (who : Caller) (dl : Status) :
    (dlStatus s io.duty dl = .scheduled ∧
      runInstance s io who dl =
        ({ s with ios := setIO s.ios io, runs := s.runs ++ [{ duty := io.duty, starter := who }] },
         [.runStarted io.duty, .blocked who io.duty])) ∨
    (dlStatus s io.duty dl ≠ .scheduled ∧
      runInstance s io who dl =
        ({ s with ios := setIO s.ios { io with errCh := some .ok } }, [.skipped io.duty, .ret who io.duty .ok])) := by
  unfold runInstance
  cases h : dlStatus s io.duty dl with
  | scheduled => exact Or.inl ⟨rfl, rfl⟩
  | expired => exact Or.inr ⟨by simp, rfl⟩
  | exempt => exact Or.inr ⟨by simp, rfl⟩

theorem dlStatus_expired {s : State} {d : Duty} {dl : Status} (h : d ∈ s.expired) :
    dlStatus s d dl = .expired := by
  unfold dlStatus
  simp [h]

theorem dlStatus_scheduled {s : State} {d : Duty} {dl : Status} (h : dlStatus s d dl = .scheduled) :
    d ∉ s.expired ∧ dl = .scheduled := by
  unfold dlStatus at h
  split at h
  · cases h
  · rename_i hc; exact ⟨by simpa using hc, h⟩

/-! ### what one step does to the set of runs -/

/-- number of `runStarted d` outputs. -/
def startedIn (outs : List Out) (d : Duty) : Nat := (outs.filter (fun o => o = .runStarted d)).length

/-- A step either leaves the duties of the runs alone and starts nothing, or appends exactly one
run for a duty that is not expired and whose IO was not running, and reports exactly that start. -/
inductive StepRuns (s s' : State) (outs : List Out) : Prop where
  | same (hr : runDuties s' = runDuties s) (hs : ∀ d, startedIn outs d = 0)
  | start (d0 : Duty) (hr : runDuties s' = runDuties s ++ [d0])
      (hs : ∀ d, startedIn outs d = if d = d0 then 1 else 0)
      (hne : d0 ∉ s.expired) (hnr : ¬ isRunning s d0) (hrun : isRunning s' d0)

theorem startedIn_nil (d : Duty) : startedIn [] d = 0 := rfl

theorem runInstance_stepRuns (s : State) (io : IOSt) (who : Caller) (dl : Status)
    (hnr : ¬ isRunning s io.duty) (hrun : io.running = true) :
    StepRuns s (runInstance s io who dl).1 (runInstance s io who dl).2 := by
  rcases runInstance_cases s io who dl with ⟨hs, h⟩ | ⟨_, h⟩
  · rw [h]
    refine .start io.duty ?_ ?_ (dlStatus_scheduled hs).1 hnr ?_
    · simp [runDuties]
    · intro d
      by_cases hd : d = io.duty
      · subst hd; simp [startedIn]
      · have : io.duty ≠ d := fun h => hd h.symm
        simp [startedIn, hd, this]
    · exact ⟨io, findIO_setIO_same s.ios io, hrun⟩
  · rw [h]
    exact .same rfl (fun d => by simp [startedIn])

theorem getIO_not_running_of (s : State) (d : Duty) (h : (getIO s d).running = false) : ¬ isRunning s d := by
  rintro ⟨io, hio, hr⟩
  unfold getIO at h
  rw [hio] at h
  simp only at h
  rw [hr] at h
  cases h

theorem step_stepRuns (C : Crypto) (cfg : Cfg) (s : State) (op : Op) :
    StepRuns s (step C cfg s op).1 (step C cfg s op).2 := by
  cases op with
  | propose d p dl =>
    simp only [step]
    split
    · exact .same rfl (fun d => by simp [startedIn])
    · split
      · exact .same rfl (fun d => by simp [startedIn])
      · split
        · exact .same rfl (fun d => by simp [startedIn])
        · split
          · split
            · exact .same rfl (fun d => by simp [startedIn])
            · refine .same ?_ (fun d => by simp [startedIn])
              simp only [runDuties]
              exact setRun_duties _ _ _ (fun r => rfl)
          · rename_i hrun
            have hnr : ¬ isRunning s d := by
              apply getIO_not_running_of
              simpa using hrun
            refine runInstance_stepRuns s _ _ dl ?_ rfl
            simpa [getIO_duty] using hnr
  | participate d dl =>
    simp only [step]
    split
    · exact .same rfl (fun d => by simp [startedIn])
    · split
      · exact .same rfl (fun d => by simp [startedIn])
      · split
        · exact .same rfl (fun d => by simp [startedIn])
        · rename_i hrun
          have hnr : ¬ isRunning s d := by
            apply getIO_not_running_of
            simpa using hrun
          refine runInstance_stepRuns s _ _ dl ?_ rfl
          simpa [getIO_duty] using hnr
  | message d =>
    simp only [step]
    split <;> exact .same rfl (fun d => by simp [startedIn])
  | decide d h vals =>
    simp only [step]
    split
    · exact .same rfl (fun d => by simp [startedIn])
    · split
      · exact .same rfl (fun d => by simp [startedIn])
      · split
        · exact .same (by simp only [runDuties]; exact setRun_duties _ _ _ (fun r => rfl)) (fun d => by simp [startedIn])
        · split
          · exact .same (by simp only [runDuties]; exact setRun_duties _ _ _ (fun r => rfl)) (fun d => by simp [startedIn])
          · refine .same (by simp only [runDuties]; exact setRun_duties _ _ _ (fun r => rfl)) ?_
            intro d'
            simp [startedIn, subCalls]
  | ends d =>
    simp only [step]
    split
    · exact .same rfl (fun d => by simp [startedIn])
    · rename_i r hr
      have hd : ∀ d', startedIn ([Out.ret r.starter d (if r.decided = true then Ret.ok else Ret.timeout)] ++
          if r.waiter = true then [Out.ret Caller.propose d (if r.decided = true then Ret.ok else Ret.timeout)] else []) d' = 0 := by
        intro d'
        cases r.waiter <;> simp [startedIn]
      split
      · split
        · exact .same (by simp only [runDuties]; exact setRun_duties _ _ _ (fun r => rfl)) hd
        · exact .same (by simp only [runDuties]; exact setRun_duties _ _ _ (fun r => rfl)) hd
      · exact .same (by simp only [runDuties]; exact setRun_duties _ _ _ (fun r => rfl)) hd
  | expire d =>
    simp only [step]
    refine .same ?_ (fun d => by simp [startedIn])
    simp only [runDuties, List.map_map]
    apply List.map_congr_left
    intro r _
    simp only [Function.comp]
    split <;> rfl

/-! ### what one step does to the instance map -/

/-- the IO written back keeps `running` and `proposed` if the duty's IO had them. -/
def KeepsRunning (s : State) (io' : IOSt) : Prop :=
  ∀ io0, findIO s io'.duty = some io0 →
    (io0.running = true → io'.running = true) ∧ (io0.proposed = true → io'.proposed = true)

inductive StepIOs (s s' : State) (op : Op) : Prop where
  | same (he : s'.expired = s.expired) (hi : s'.ios = s.ios)
  | set (io' : IOSt) (he : s'.expired = s.expired) (hi : s'.ios = setIO s.ios io') (hk : KeepsRunning s io')
  | expire (d : Duty) (hop : op = .expire d) (hi : s'.ios = s.ios.filter (fun i => i.duty ≠ d))
      (he : s'.expired = if s.expired.contains d then s.expired else s.expired ++ [d])

theorem keeps_getIO (s : State) (d : Duty) (io' : IOSt) (hd : io'.duty = d)
    (h : (getIO s d).running = true → io'.running = true)
    (hp : (getIO s d).proposed = true → io'.proposed = true) : KeepsRunning s io' := by
  intro io0 hf
  rw [hd] at hf
  have hg : getIO s d = io0 := by unfold getIO; rw [hf]
  rw [hg] at h hp
  exact ⟨h, hp⟩

theorem runInstance_stepIOs (s : State) (io : IOSt) (who : Caller) (dl : Status)
    (op : Op) (hk : KeepsRunning s io) : StepIOs s (runInstance s io who dl).1 op := by
  rcases runInstance_cases s io who dl with ⟨_, h⟩ | ⟨_, h⟩
  · rw [h]; exact .set io rfl rfl hk
  · rw [h]; exact .set { io with errCh := some .ok } rfl rfl hk

theorem step_stepIOs (C : Crypto) (cfg : Cfg) (s : State) (op : Op) : StepIOs s (step C cfg s op).1 op := by
  cases op with
  | propose d p dl =>
    simp only [step]
    split
    · exact .same rfl rfl
    · split
      · exact .set _ rfl rfl (keeps_getIO s d _ (getIO_duty s d) (fun h => h) (fun h => by first | exact h | rfl))
      · split
        · exact .set _ rfl rfl (keeps_getIO s d _ (getIO_duty s d) (fun h => h) (fun h => by first | exact h | rfl))
        · split
          · split
            · exact .set _ rfl rfl (keeps_getIO s d _ (getIO_duty s d) (fun h => h) (fun h => by first | exact h | rfl))
            · exact .set _ rfl rfl (keeps_getIO s d _ (getIO_duty s d) (fun h => h) (fun h => by first | exact h | rfl))
          · exact runInstance_stepIOs s _ _ dl _ (keeps_getIO s d _ (getIO_duty s d) (fun _ => rfl) (fun h => by first | exact h | rfl))
  | participate d dl =>
    simp only [step]
    split
    · exact .same rfl rfl
    · split
      · exact .set _ rfl rfl (keeps_getIO s d _ (getIO_duty s d) (fun h => h) (fun h => by first | exact h | rfl))
      · split
        · exact .set _ rfl rfl (keeps_getIO s d _ (getIO_duty s d) (fun h => h) (fun h => by first | exact h | rfl))
        · exact runInstance_stepIOs s _ _ dl _ (keeps_getIO s d _ (getIO_duty s d) (fun _ => rfl) (fun h => by first | exact h | rfl))
  | message d =>
    simp only [step]
    split
    · exact .same rfl rfl
    · exact .set _ rfl rfl (keeps_getIO s d _ (getIO_duty s d) (fun h => h) (fun h => by first | exact h | rfl))
  | decide d h vals =>
    simp only [step]
    split
    · exact .same rfl rfl
    · split
      · exact .same rfl rfl
      · split
        · exact .same rfl rfl
        · split <;> exact .same rfl rfl
  | ends d =>
    simp only [step]
    split
    · exact .same rfl rfl
    · split
      · split
        · rename_i io hio
          refine .set _ rfl rfl ?_
          intro io0 hf
          have hd : io.duty = d := by simpa using List.find?_some hio
          simp only [hd] at hf
          unfold findIO at hio hf
          rw [hio] at hf
          cases hf
          exact ⟨fun h => h, fun h => h⟩
        · exact .same rfl rfl
      · exact .same rfl rfl
  | expire d =>
    simp only [step]
    exact .expire d rfl rfl rfl

theorem step_expired_mono {C : Crypto} {cfg : Cfg} {s : State} {op : Op} {d : Duty}
    (h : d ∈ s.expired) : d ∈ (step C cfg s op).1.expired := by
  cases step_stepIOs C cfg s op with
  | same he _ => rw [he]; exact h
  | set _ he _ _ => rw [he]; exact h
  | expire d' _ _ he =>
    rw [he]
    split
    · exact h
    · exact List.mem_append_left _ h

theorem step_running_mono {C : Crypto} {cfg : Cfg} {s : State} {op : Op} {d : Duty}
    (h : isRunning s d) : d ∈ (step C cfg s op).1.expired ∨ isRunning (step C cfg s op).1 d := by
  obtain ⟨io, hio, hr⟩ := h
  cases step_stepIOs C cfg s op with
  | same _ hi => exact Or.inr ⟨io, by unfold findIO; rw [hi]; exact hio, hr⟩
  | set io' _ hi hk =>
    right
    by_cases hd : d = io'.duty
    · refine ⟨io', ?_, (hk io (by rw [← hd]; exact hio)).1 hr⟩
      unfold findIO
      rw [hi]
      exact findIO_setIO_eq s.ios io' d hd.symm
    · refine ⟨io, ?_, hr⟩
      unfold findIO
      rw [hi, findIO_setIO_other s.ios io' d hd]
      exact hio
  | expire d' _ hi he =>
    by_cases hd : d = d'
    · left
      rw [he, hd]
      split
      · rename_i hc; simpa using hc
      · simp
    · right
      refine ⟨io, ?_, hr⟩
      unfold findIO
      rw [hi, find_filter_other s.ios hd]
      exact hio

/-! ### invariant: one run per duty -/

structure Inv (s : State) : Prop where
  nodup : (runDuties s).Nodup
  backed : ∀ d ∈ runDuties s, d ∈ s.expired ∨ isRunning s d

theorem inv_init : Inv {} := ⟨by simp [runDuties], by intro d hd; simp [runDuties] at hd⟩

theorem inv_step {C : Crypto} {cfg : Cfg} {s : State} (op : Op) (hi : Inv s) : Inv (step C cfg s op).1 := by
  cases step_stepRuns C cfg s op with
  | same hr _ =>
    refine ⟨by rw [hr]; exact hi.nodup, ?_⟩
    intro d hd
    rw [hr] at hd
    rcases hi.backed d hd with h | h
    · exact Or.inl (step_expired_mono h)
    · exact step_running_mono h
  | start d0 hr _ hne hnr hrun =>
    have hnot : d0 ∉ runDuties s := by
      intro hmem
      rcases hi.backed d0 hmem with h | h
      · exact hne h
      · exact hnr h
    refine ⟨?_, ?_⟩
    · rw [hr]
      exact List.nodup_append.mpr ⟨hi.nodup, by simp, by
        intro a ha b hb
        simp at hb
        subst hb
        intro hab
        subst hab
        exact hnot ha⟩
    · intro d hd
      rw [hr] at hd
      rcases List.mem_append.mp hd with h | h
      · rcases hi.backed d h with h' | h'
        · exact Or.inl (step_expired_mono h')
        · exact step_running_mono h'
      · simp at h
        subst h
        exact Or.inr hrun

theorem inv_trace {C : Crypto} {cfg : Cfg} : ∀ (ops : List Op) {s : State}, Inv s → Inv (trace C cfg s ops).1
  | [], _, h => h
  | o :: os, s, h => by
    simp only [trace]
    exact inv_trace os (inv_step o h)

theorem count_le_one_of_nodup {l : List Duty} (h : l.Nodup) (d : Duty) : l.count d ≤ 1 := by
  induction l with
  | nil => simp
  | cons x xs ih =>
    simp only [List.nodup_cons] at h
    rw [List.count_cons]
    by_cases hx : x = d
    · subst hx
      have : xs.count x = 0 := List.count_eq_zero.mpr h.1
      simp [this]
    · have := ih h.2
      simp [hx]; omega

theorem startedIn_append (a b : List Out) (d : Duty) : startedIn (a ++ b) d = startedIn a d + startedIn b d := by
  simp [startedIn, List.filter_append]

/-- starts reported along a history are exactly the growth of the run list. -/
theorem trace_started {C : Crypto} {cfg : Cfg} (d : Duty) : ∀ (ops : List Op) (s : State),
    startedIn (trace C cfg s ops).2 d + (runDuties s).count d = (runDuties (trace C cfg s ops).1).count d
  | [], s => by simp [trace, startedIn]
  | o :: os, s => by
    simp only [trace]
    rw [startedIn_append]
    have ih := trace_started (C := C) (cfg := cfg) d os (step C cfg s o).1
    cases step_stepRuns C cfg s o with
    | same hr hs => rw [hs d]; rw [hr] at ih; omega
    | start d0 hr hs _ _ _ =>
      rw [hs d]
      rw [hr, List.count_append] at ih
      by_cases hd : d = d0
      · subst hd; simp at ih ⊢; omega
      · have : d0 ≠ d := fun h => hd h.symm
        simp [hd, this] at ih ⊢; omega

theorem step_proposed_persists {C : Crypto} {cfg : Cfg} {s : State} {op : Op} {d : Duty}
    (h : ∃ io, findIO s d = some io ∧ io.proposed = true) (hop : ∀ d', op = .expire d' → d' ≠ d) :
    ∃ io, findIO (step C cfg s op).1 d = some io ∧ io.proposed = true := by
  obtain ⟨io, hio, hp⟩ := h
  cases step_stepIOs C cfg s op with
  | same _ hi => exact ⟨io, by unfold findIO; rw [hi]; exact hio, hp⟩
  | set io' _ hi hk =>
    by_cases hd : d = io'.duty
    · refine ⟨io', ?_, (hk io (by rw [← hd]; exact hio)).2 hp⟩
      unfold findIO
      rw [hi]
      exact findIO_setIO_eq s.ios io' d hd.symm
    · refine ⟨io, ?_, hp⟩
      unfold findIO
      rw [hi, findIO_setIO_other s.ios io' d hd]
      exact hio
  | expire d' hop' hi _ =>
    have hne : d' ≠ d := hop d' hop'
    refine ⟨io, ?_, hp⟩
    unfold findIO
    rw [hi, find_filter_other s.ios (fun h => hne h.symm)]
    exact hio

/-! ### deliveries to subscribers -/

/-- number of calls of subscriber `i` for duty `d`. -/
def subsIn (outs : List Out) (i : Nat) (d : Duty) : Nat :=
  (outs.filter (fun o => match o with | .subCall i' d' _ => decide (i' = i) && decide (d' = d) | _ => false)).length

/-- how many more deliveries duty `d` can still get: none once its (only) run has called `Decide`. -/
def credit (s : State) (d : Duty) : Nat :=
  match s.runs.find? (fun r => r.duty = d) with
  | none => 1
  | some r => if r.decideCalled then 0 else 1

theorem subsIn_append (a b : List Out) (i : Nat) (d : Duty) : subsIn (a ++ b) i d = subsIn a i d + subsIn b i d := by
  simp [subsIn, List.filter_append]

theorem subsIn_subCalls (n : Nat) (d : Duty) (x : Inner) (i : Nat) (d' : Duty) :
    subsIn (subCalls n d x) i d' = if d' = d ∧ i < n then 1 else 0 := by
  induction n with
  | zero => simp [subCalls, subsIn]
  | succ n ih =>
    have : subCalls (n + 1) d x = subCalls n d x ++ [.subCall n d x] := by
      simp [subCalls, List.range_succ]
    rw [this, subsIn_append, ih]
    by_cases hd : d' = d
    · subst hd
      by_cases hi : i = n
      · subst hi; simp [subsIn]
      · have : ¬ n = i := fun h => hi h.symm
        by_cases hlt : i < n
        · simp [subsIn, this, hlt]; omega
        · simp [subsIn, this, hlt]; omega
    · have : ¬ d = d' := fun h => hd h.symm
      simp [subsIn, hd, this]

inductive StepDeliver (s s' : State) (outs : List Out) (op : Op) : Prop where
  | quiet (g : RunSt → RunSt) (hg : ∀ r, (g r).duty = r.duty ∧ (g r).decideCalled = r.decideCalled)
      (hr : s'.runs = s.runs.map g) (ho : ∀ i d, subsIn outs i d = 0)
  | start (new : RunSt) (hn : new.decideCalled = false) (hr : s'.runs = s.runs ++ [new])
      (ho : ∀ i d, subsIn outs i d = 0)
  | decide (d : Duty) (r : RunSt) (hop : ∃ h vals, op = .decide d h vals) (hl : liveRun s d = some r)
      (hc : r.decideCalled = false)
      (g : RunSt → RunSt) (hg : ∀ r, (g r).duty = r.duty ∧ (g r).decideCalled = true)
      (hr : s'.runs = setRun s.runs d g) (ho : ∀ i d', subsIn outs i d' ≤ if d' = d then 1 else 0)

theorem quiet_id {s s' : State} {outs : List Out} {op : Op} (hr : s'.runs = s.runs) (ho : ∀ i d, subsIn outs i d = 0) :
    StepDeliver s s' outs op :=
  .quiet id (fun _ => ⟨rfl, rfl⟩) (by simpa using hr) ho

theorem quiet_setRun {s s' : State} {outs : List Out} {op : Op} (d : Duty) (f : RunSt → RunSt)
    (hf : ∀ r, (f r).duty = r.duty ∧ (f r).decideCalled = r.decideCalled)
    (hr : s'.runs = setRun s.runs d f) (ho : ∀ i d, subsIn outs i d = 0) : StepDeliver s s' outs op :=
  .quiet (fun r => if r.duty = d && r.live then f r else r)
    (fun r => by split; exact hf r; exact ⟨rfl, rfl⟩) hr ho

theorem runInstance_deliver (s : State) (io : IOSt) (who : Caller) (dl : Status) (op : Op) :
    StepDeliver s (runInstance s io who dl).1 (runInstance s io who dl).2 op := by
  rcases runInstance_cases s io who dl with ⟨_, h⟩ | ⟨_, h⟩
  · rw [h]; exact .start _ rfl rfl (fun i d => by simp [subsIn])
  · rw [h]; exact quiet_id rfl (fun i d => by simp [subsIn])

theorem step_deliver (C : Crypto) (cfg : Cfg) (s : State) (op : Op) :
    StepDeliver s (step C cfg s op).1 (step C cfg s op).2 op := by
  cases op with
  | propose d p dl =>
    simp only [step]
    split
    · exact quiet_id rfl (fun i d => by simp [subsIn])
    · split
      · exact quiet_id rfl (fun i d => by simp [subsIn])
      · split
        · exact quiet_id rfl (fun i d => by simp [subsIn])
        · split
          · split
            · exact quiet_id rfl (fun i d => by simp [subsIn])
            · refine quiet_setRun d _ ?_ rfl (fun i d => by simp [subsIn])
              exact fun r => ⟨rfl, rfl⟩
          · exact runInstance_deliver s _ _ dl _
  | participate d dl =>
    simp only [step]
    split
    · exact quiet_id rfl (fun i d => by simp [subsIn])
    · split
      · exact quiet_id rfl (fun i d => by simp [subsIn])
      · split
        · exact quiet_id rfl (fun i d => by simp [subsIn])
        · exact runInstance_deliver s _ _ dl _
  | message d =>
    simp only [step]
    split <;> exact quiet_id rfl (fun i d => by simp [subsIn])
  | decide d h vals =>
    simp only [step]
    split
    · exact quiet_id rfl (fun i d => by simp [subsIn])
    · rename_i r hr
      split
      · exact quiet_id rfl (fun i d => by simp [subsIn])
      · rename_i hdc
        have hdc' : r.decideCalled = false := by simpa using hdc
        split
        · (refine .decide d r ⟨h, vals, rfl⟩ hr hdc' _ ?_ rfl (fun i d' => by simp [subsIn]); exact fun r => ⟨rfl, rfl⟩)
        · split
          · (refine .decide d r ⟨h, vals, rfl⟩ hr hdc' _ ?_ rfl (fun i d' => by simp [subsIn]); exact fun r => ⟨rfl, rfl⟩)
          · refine .decide d r ⟨h, vals, rfl⟩ hr hdc' _ ?_ rfl ?_
            · exact fun r => ⟨rfl, rfl⟩
            intro i d'
            rw [subsIn_subCalls]
            by_cases hd : d' = d
            · simp [hd]; split <;> omega
            · simp [hd]
  | ends d =>
    simp only [step]
    split
    · exact quiet_id rfl (fun i d => by simp [subsIn])
    · rename_i r hr
      have ho : ∀ i d', subsIn ([Out.ret r.starter d (if r.decided = true then Ret.ok else Ret.timeout)] ++
          if r.waiter = true then [Out.ret Caller.propose d (if r.decided = true then Ret.ok else Ret.timeout)] else []) i d' = 0 := by
        intro i d'
        cases r.waiter <;> simp [subsIn]
      split
      · split
        · (refine quiet_setRun d _ ?_ rfl ho; exact fun r => ⟨rfl, rfl⟩)
        · (refine quiet_setRun d _ ?_ rfl ho; exact fun r => ⟨rfl, rfl⟩)
      · (refine quiet_setRun d _ ?_ rfl ho; exact fun r => ⟨rfl, rfl⟩)
  | expire d =>
    simp only [step]
    exact .quiet (fun r => if r.duty = d then { r with attached := false } else r)
      (fun r => by split <;> exact ⟨rfl, rfl⟩) rfl (fun i d => by simp [subsIn])

theorem find_map_duty (runs : List RunSt) (g : RunSt → RunSt) (hg : ∀ r, (g r).duty = r.duty) (d : Duty) :
    (runs.map g).find? (fun r => r.duty = d) = (runs.find? (fun r => r.duty = d)).map g := by
  induction runs with
  | nil => rfl
  | cons x xs ih =>
    simp only [List.map_cons, List.find?_cons, hg x]
    split
    · rfl
    · exact ih

theorem find_duty_unique {runs : List RunSt} {d : Duty} {r0 r : RunSt}
    (hn : (runs.map (·.duty)).Nodup) (h0 : runs.find? (fun r => r.duty = d) = some r0)
    (hr : r ∈ runs) (hd : r.duty = d) : r = r0 := by
  induction runs with
  | nil => cases hr
  | cons x xs ih =>
    simp only [List.map_cons, List.nodup_cons] at hn
    rw [List.find?_cons] at h0
    by_cases hx : x.duty = d
    · simp [hx] at h0
      subst h0
      cases hr with
      | head => rfl
      | tail _ hr' =>
        exfalso
        apply hn.1
        rw [hx, ← hd]
        exact List.mem_map.mpr ⟨r, hr', rfl⟩
    · simp [hx] at h0
      cases hr with
      | head => exact absurd hd hx
      | tail _ hr' => exact ih hn.2 h0 hr'

theorem subsIn_pos_of_mem {outs : List Out} {i : Nat} {d : Duty} {x : Inner}
    (h : Out.subCall i d x ∈ outs) : 0 < subsIn outs i d := by
  unfold subsIn
  apply List.length_pos_of_mem (a := Out.subCall i d x)
  exact List.mem_filter.mpr ⟨h, by simp⟩

theorem credit_le_one (s : State) (d : Duty) : credit s d ≤ 1 := by
  unfold credit
  split
  · omega
  · split <;> omega

theorem step_credit {C : Crypto} {cfg : Cfg} {s : State} (op : Op) (hi : Inv s) (i : Nat) (d : Duty) :
    subsIn (step C cfg s op).2 i d + credit (step C cfg s op).1 d ≤ credit s d := by
  cases step_deliver C cfg s op with
  | quiet g hg hr ho =>
    rw [ho i d]
    have : credit (step C cfg s op).1 d = credit s d := by
      unfold credit
      rw [hr, find_map_duty _ g (fun r => (hg r).1)]
      cases s.runs.find? (fun r => r.duty = d) with
      | none => rfl
      | some r => simp [(hg r).2]
    omega
  | start new hn hr ho =>
    rw [ho i d]
    unfold credit
    rw [hr, List.find?_append]
    cases hf : s.runs.find? (fun r => r.duty = d) with
    | none =>
      simp only [Option.none_or]
      have := credit_le_one { runs := [new] } d
      unfold credit at this
      simpa using this
    | some r => simp
  | decide d0 r _ hl hc g hg hr ho =>
    have hmem : r ∈ s.runs := List.mem_of_find?_eq_some hl
    have hprop : r.duty = d0 ∧ r.live = true := by
      have := List.find?_some hl
      simpa using this
    let g' : RunSt → RunSt := fun r => if r.duty = d0 && r.live then g r else r
    have hg' : ∀ r, (g' r).duty = r.duty := by
      intro r; simp only [g']; split; exact (hg r).1; rfl
    have hruns : (step C cfg s op).1.runs = s.runs.map g' := hr
    by_cases hd : d = d0
    · subst hd
      have hf : ∃ r0, s.runs.find? (fun r => r.duty = d) = some r0 := by
        cases hf : s.runs.find? (fun r => r.duty = d) with
        | some r0 => exact ⟨r0, rfl⟩
        | none =>
          have := List.find?_eq_none.mp hf r hmem
          simp [hprop.1] at this
      obtain ⟨r0, hr0⟩ := hf
      have heq : r = r0 := find_duty_unique hi.nodup hr0 hmem hprop.1
      subst heq
      have h1 : credit s d = 1 := by unfold credit; rw [hr0]; simp [hc]
      have h2 : credit (step C cfg s op).1 d = 0 := by
        unfold credit
        rw [hruns, find_map_duty _ g' hg', hr0]
        simp [g', hprop.1, hprop.2, (hg r).2]
      have := ho i d
      simp at this
      omega
    · have h0 := ho i d
      simp [hd] at h0
      have : credit (step C cfg s op).1 d = credit s d := by
        unfold credit
        rw [hruns, find_map_duty _ g' hg']
        cases hf : s.runs.find? (fun r => r.duty = d) with
        | none => rfl
        | some r1 =>
          have hd1 : r1.duty = d := by simpa using List.find?_some hf
          have : g' r1 = r1 := by
            simp only [g']
            have : ¬ r1.duty = d0 := by rw [hd1]; exact hd
            simp [this]
          simp [this]
      omega

theorem trace_credit {C : Crypto} {cfg : Cfg} (i : Nat) (d : Duty) : ∀ (ops : List Op) (s : State), Inv s →
    subsIn (trace C cfg s ops).2 i d + credit (trace C cfg s ops).1 d ≤ credit s d
  | [], s, _ => by simp [trace, subsIn]
  | o :: os, s, hi => by
    simp only [trace]
    rw [subsIn_append]
    have h1 := step_credit (C := C) (cfg := cfg) o hi i d
    have h2 := trace_credit (C := C) (cfg := cfg) i d os (step C cfg s o).1 (inv_step o hi)
    omega

end CharonV.ConsWrap
