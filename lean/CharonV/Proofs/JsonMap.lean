/-
C12 (JSON codecs as transfer lists) — helper lemmas for `Props/C12JsonMap.lean`:
hex round trip (`decHex_hexOf`), leaf round trip on the domain of a conversion pair (`leaf_rt`), columns
(`ColDom`, `lift_rt`), one field of a record (`FieldDom`, `field_rt`), `find?` under `nodupNat`.
-/
import CharonV.Model.JsonMap
namespace CharonV.JsonMap
open CharonV.Ssz (Bytes hexOf unhex unhexDigit hexDigit)

theorem unhexDigit_hexDigit (n : Nat) (h : n < 16) : unhexDigit (hexDigit n) = some n := by
  have : ∀ k : Fin 16, unhexDigit (hexDigit k.val) = some k.val := by decide
  exact this ⟨n, h⟩

theorem byte_split (x : UInt8) : UInt8.ofNat (x.toNat / 16 * 16 + x.toNat % 16) = x := by
  have : x.toNat / 16 * 16 + x.toNat % 16 = x.toNat := by omega
  rw [this]; simp

theorem unhex_pairs (b : Bytes) :
    unhex (b.flatMap (fun x => [hexDigit (x.toNat / 16), hexDigit (x.toNat % 16)])) = some b := by
  induction b with
  | nil => simp [unhex]
  | cons x r ih =>
    have hx : x.toNat < 256 := x.toNat_lt
    simp only [List.flatMap_cons, List.cons_append, List.nil_append, unhex]
    rw [unhexDigit_hexDigit _ (by omega), unhexDigit_hexDigit _ (by omega), ih]
    show some (UInt8.ofNat (x.toNat / 16 * 16 + x.toNat % 16) :: r) = some (x :: r)
    rw [byte_split]

theorem decHex_hexOf (b : Bytes) : decHex (hexOf b) = some b := by
  unfold decHex hexOf
  cases b with
  | nil => simp [trim0x, unhex]
  | cons x r =>
    simp only [List.isEmpty_cons, Bool.false_eq_true, if_false, trim0x]
    exact unhex_pairs (x :: r)

/-- **leaf round trip** on the domain of the conversion pair. -/
theorem leaf_rt (jk : JKind) (ce cd : Conv) (om : Bool) (v : MVal) (hi : invConv ce cd = true)
    (hne : ce ≠ .computed) (hd : leafDom jk ce cd v = true) : decLeaf jk cd (encLeaf jk ce om v) = some v := by
  cases ce <;> cases cd <;> simp [invConv] at hi hne <;> cases jk <;> cases v <;> simp [leafDom] at hd
  all_goals (simp only [encLeaf])
  all_goals first
    | (split <;> simp_all [decLeaf, decHex_hexOf]; done)
    | (simp [decLeaf]; done)
    | (simp [decLeaf]; omega)
    | skip
  rename_i n b
  by_cases hb : b = []
  · subst hb; cases om <;> simp [decLeaf, hexOf]
  · have hl : b.length = n := by
      rcases hd with h | h
      · exact absurd h hb
      · exact h
    have he : (hexOf b).isEmpty = false := by cases b <;> simp_all [hexOf]
    have hc : (om && b.isEmpty) = false := by cases b <;> simp_all
    simp [hc, decLeaf, he, decHex_hexOf, hl]

theorem optList_map {α β} (f : α → β) (g : β → Option α) (xs : List α) (h : ∀ x ∈ xs, g (f x) = some x) :
    optList ((xs.map f).map g) = some xs := by
  induction xs with
  | nil => rfl
  | cons x r ih =>
    simp only [List.map_cons]
    rw [h x (by simp)]
    show (optList (List.map g (List.map f r))).map (x :: ·) = _
    rw [ih (fun y hy => h y (by simp [hy]))]; rfl

/-- a column of depth `d` all of whose leaves satisfy `P`. -/
def ColDom : Nat → (MVal → Prop) → MVal → Prop
  | 0, P, v => P v
  | d+1, P, .list xs => ∀ x ∈ xs, ColDom d P x
  | _+1, _, _ => False

theorem lift_rt (f : MVal → JVal) (g : JVal → Option MVal) (P : MVal → Prop) (h : ∀ x, P x → g (f x) = some x) :
    ∀ (d : Nat) (v : MVal), ColDom d P v → liftDec g d (liftEnc f d v) = some v := by
  intro d
  induction d with
  | zero => intro v hv; exact h v hv
  | succ d ih =>
    intro v hv
    cases v with
    | list xs =>
      simp only [liftEnc, liftDec]
      rw [optList_map (liftEnc f d) (liftDec g d) xs (fun x hx => ih x (hv x hx))]
      rfl
    | _ => exact absurd hv (by simp [ColDom])


/-! ## record level -/

/-- DOMAIN of field `rd.mid` under the encoder row of the same JSON leaf: every leaf of the column is in
the domain of the conversion pair; a `computed` field holds the recomputed value; `first`/`single`: every
inner list has exactly one element; `common`/`repeat`: the column is `count` copies of one string, `count`
being the value of the count field. -/
def FieldDom (enc : List Row) (rd : Row) (hs m : MRec) : Prop :=
  match findJ enc rd.jid with
  | none => False
  | some re =>
    match re.shape with
    | .plain =>
      if re.conv = .computed then m rd.mid = hs rd.mid ∧ ColDom re.jd (fun x => leafDom re.jk .id .id x = true) (m rd.mid)
      else ColDom re.jd (fun x => leafDom re.jk re.conv rd.conv x = true) (m rd.mid)
    | .first => ColDom re.jd (fun v => ∃ x, v = .list [x] ∧ leafDom re.jk re.conv rd.conv x = true) (m rd.mid)
    | .common => ∃ c rc i s, rd.shape = .repeat c ∧ findJ enc c = some rc ∧ m rc.mid = .int i ∧
        m rd.mid = .list (List.replicate i.toNat (.str s))
    | _ => False

theorem findJ_jid {rows : List Row} {j : Nat} {r : Row} (h : findJ rows j = some r) : r.jid = j := by
  have := List.find?_some h
  simpa using this

theorem findM_mid {rows : List Row} {p : Nat} {r : Row} (h : findM rows p = some r) : r.mid = p := by
  have := List.find?_some h
  simpa using this

theorem encode_at {enc : List Row} {re : Row} (hs m : MRec) (h : findJ enc re.jid = some re) :
    encode enc hs m re.jid = encRow re hs m := by
  simp [encode, h]

theorem pairOk_field {enc dec : List Row} (hp : pairOk enc dec = true) {rd : Row} (hm : rd ∈ dec) (h0 : rd.mid ≠ 0) :
    fieldOk enc rd = true := by
  simp only [pairOk, Bool.and_eq_true, List.all_eq_true] at hp
  have := hp.2 rd hm
  simpa [h0] using this

theorem field_rt (enc : List Row) (hs m : MRec) (rd : Row) (hf : fieldOk enc rd = true)
    (hd : FieldDom enc rd hs m) : decRow rd (encode enc hs m) = some (m rd.mid) := by
  unfold fieldOk at hf
  unfold FieldDom at hd
  cases hre : findJ enc rd.jid with
  | none => simp [hre] at hf
  | some re =>
    simp only [hre, Bool.and_eq_true, beq_iff_eq] at hf hd
    obtain ⟨⟨⟨⟨⟨hmid, hjk⟩, hjd⟩, hom⟩, hinv⟩, hsh⟩ := hf
    have hj : re.jid = rd.jid := findJ_jid hre
    have henc : encode enc hs m rd.jid = encRow re hs m := by rw [← hj]; exact encode_at hs m (by rw [hj]; exact hre)
    unfold decRow
    rw [henc]
    unfold shapeOk at hsh
    cases hse : re.shape with
    | plain =>
      cases hsd : rd.shape <;> simp [hse, hsd] at hsh
      simp only [hse] at hd
      by_cases hc : re.conv = .computed
      · simp only [hc, if_true] at hd
        have hcd : rd.conv = .id := by
          rw [hc] at hinv; cases hx : rd.conv <;> simp [hx, invConv] at hinv; rfl
        simp only [encRow, hc, hcd, ← hjk, ← hjd, hmid]
        rw [← hd.1]
        exact lift_rt _ _ _ (fun x hx => by
          simp only [decShape]
          exact leaf_rt re.jk .id .id re.om x rfl (by simp) hx) re.jd _ hd.2
      · simp only [hc, if_false] at hd
        have hne : encRow re hs m = liftEnc (encShape .plain (zeroM re.jk re.conv) (encLeaf re.jk re.conv re.om)) re.jd (m re.mid) := by
          unfold encRow
          cases hx : re.conv <;> simp [hx, invConv, hse] at hinv hc ⊢
        rw [hne, ← hjk, ← hjd, hmid]
        exact lift_rt _ _ _ (fun x hx => by
          simp only [decShape, encShape]
          exact leaf_rt re.jk re.conv rd.conv re.om x hinv hc hx) re.jd _ hd
    | first =>
      cases hsd : rd.shape <;> simp [hse, hsd] at hsh
      simp only [hse] at hd
      have hne : encRow re hs m = liftEnc (encShape .first (zeroM re.jk re.conv) (encLeaf re.jk re.conv re.om)) re.jd (m re.mid) := by
        unfold encRow
        cases hx : re.conv <;> simp [hx, invConv, hse] at hinv hsh ⊢
      rw [hne, ← hjk, ← hjd, hmid]
      exact lift_rt _ _ _ (fun v hv => by
        obtain ⟨x, rfl, hx⟩ := hv
        simp only [encShape, decShape, List.headD_cons]
        rw [leaf_rt re.jk re.conv rd.conv re.om x hinv hsh hx]; rfl) re.jd _ hd
    | common =>
      cases hsd : rd.shape <;> simp [hse, hsd] at hsh
      rename_i c
      simp only [hse] at hd
      obtain ⟨c', rc, i, s, hc', hrc, hi, hcol'⟩ := hd
      have hcol : m re.mid = .list (List.replicate i.toNat (.str s)) := by rw [hmid]; exact hcol'
      rw [hsd] at hc'
      cases hc'
      obtain ⟨⟨⟨hd0, hstr⟩, hid⟩, hcnt⟩ := hsh
      rw [hrc] at hcnt
      simp only [Bool.and_eq_true, beq_iff_eq, bne_iff_ne] at hcnt
      obtain ⟨⟨⟨⟨hcid, hcint⟩, hcd0⟩, hcpl⟩, _⟩ := hcnt
      have hrcj : rc.jid = c := findJ_jid hrc
      have hcntv : cntOf (encode enc hs m) (.repeat c) = i.toNat := by
        have : encode enc hs m c = .num i := by
          have h1 : encode enc hs m rc.jid = encRow rc hs m := encode_at hs m (by rw [hrcj]; exact hrc)
          rw [hrcj] at h1
          rw [h1]
          simp [encRow, hcid, hcd0, hcpl, liftEnc, encShape, hcint, hi, encLeaf]
        simp [cntOf, this]
      have hcd : rd.conv = .id := by
        rw [hid] at hinv; cases hx : rd.conv <;> simp [hx, invConv] at hinv; rfl
      have hne : encRow re hs m = encLeaf .str .id re.om ((List.replicate i.toNat (MVal.str s)).headD (.str [])) := by
        simp [encRow, hid, hd0, liftEnc, hse, encShape, hstr, hmid, hcol']
      rw [hne, hcntv, ← hjd, hd0, ← hjk, hstr, hcd, hcol']
      simp only [liftDec, decShape]
      cases hn : i.toNat with
      | zero => cases hom' : re.om <;> simp [encLeaf, decLeaf]
      | succ k => 
        simp only [List.replicate_succ, List.headD_cons]
        rw [leaf_rt .str .id .id re.om (.str s) rfl (by simp) rfl]; rfl
    | «repeat» c => simp [hse] at hsh
    | single => simp [hse] at hsh

/-! ## keys without repetition -/

theorem nodupNat_nodup : ∀ (l : List Nat), nodupNat l = true → l.Nodup := by
  intro l
  induction l with
  | nil => intro _; exact List.nodup_nil
  | cons x r ih =>
    intro h
    simp only [nodupNat, Bool.and_eq_true, Bool.not_eq_true', List.contains_eq_mem, decide_eq_false_iff_not] at h
    exact List.nodup_cons.mpr ⟨h.1, ih h.2⟩

theorem findJ_of_mem : ∀ (rows : List Row), nodupNat (rows.map (·.jid)) = true → ∀ r ∈ rows, findJ rows r.jid = some r := by
  intro rows
  induction rows with
  | nil => intro _ r hr; cases hr
  | cons a rest ih =>
    intro h r hr
    simp only [List.map_cons, nodupNat, Bool.and_eq_true, Bool.not_eq_true', List.contains_eq_mem,
      decide_eq_false_iff_not] at h
    rcases List.mem_cons.mp hr with rfl | hr'
    · simp [findJ]
    · have hne : a.jid ≠ r.jid := fun e => h.1 (e ▸ List.mem_map.mpr ⟨r, hr', rfl⟩)
      have := ih h.2 r hr'
      simp only [findJ] at this ⊢
      rw [List.find?_cons]
      have hb : (a.jid == r.jid) = false := by simpa using hne
      simp [hb, this]

theorem findM_isSome_of_mem_fieldSet {dec : List Row} {p : Nat} (h : p ∈ fieldSet dec) :
    ∃ rd, findM dec p = some rd := by
  simp only [fieldSet, List.mem_map, List.mem_filter] at h
  obtain ⟨r, ⟨hr, _⟩, rfl⟩ := h
  cases hf : findM dec r.mid with
  | some rd => exact ⟨rd, rfl⟩
  | none =>
    simp only [findM, List.find?_eq_none] at hf
    exact absurd (hf r hr) (by simp)

theorem encRow_congr (r : Row) (hs m m' : MRec) (h : m r.mid = m' r.mid) : encRow r hs m = encRow r hs m' := by
  unfold encRow
  cases r.conv <;> simp [h]

end CharonV.JsonMap
