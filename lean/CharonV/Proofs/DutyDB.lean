/-
Helper lemmas and invariants for the duty store model (C06).
-/
import CharonV.Model.DutyDB

namespace CharonV.DutyDB

/-! ### association lists -/

theorem lookup_cons (k : Key) (e : Key × Val) (r : List (Key × Val)) :
    lookup k (e :: r) = if e.1 = k then some e.2 else lookup k r := rfl

theorem lookup_mem {k : Key} {v : Val} {l : List (Key × Val)} (h : lookup k l = some v) : (k, v) ∈ l := by
  induction l with
  | nil => simp [lookup] at h
  | cons e r ih =>
    rw [lookup_cons] at h
    by_cases he : e.1 = k
    · rw [if_pos he] at h
      have : e = (k, v) := by
        cases e; simp at he h; simp [he, h]
      simp [this]
    · rw [if_neg he] at h
      exact List.mem_cons_of_mem _ (ih h)

theorem lookup_none_not_mem {k : Key} {l : List (Key × Val)} (h : lookup k l = none) :
    ∀ e ∈ l, e.1 ≠ k := by
  induction l with
  | nil => intro e he; cases he
  | cons a r ih =>
    rw [lookup_cons] at h
    by_cases ha : a.1 = k
    · rw [if_pos ha] at h; cases h
    · rw [if_neg ha] at h
      intro e he
      rcases List.mem_cons.mp he with rfl | he'
      · exact ha
      · exact ih h e he'

theorem lookup_replace (k k' : Key) (v : Val) (l : List (Key × Val)) :
    lookup k' (replace k v l) = if k' = k then (lookup k l).map (fun _ => v) else lookup k' l := by
  induction l with
  | nil => simp [replace, lookup]
  | cons e r ih =>
    by_cases he : e.1 = k
    · simp only [replace, if_pos he, lookup_cons]
      by_cases hk : k' = k
      · subst hk; simp
      · have h1 : ¬ k = k' := fun h => hk h.symm
        have h2 : ¬ e.1 = k' := fun h => hk (h.symm.trans he)
        simp [hk, h1, h2]
    · simp only [replace, if_neg he, lookup_cons]
      by_cases hk : k' = k
      · subst hk; simp [he, ih]
      · by_cases h2 : e.1 = k'
        · simp [h2, hk]
        · simp [h2, hk, ih]

theorem mem_replace {k : Key} {v : Val} {l : List (Key × Val)} {e : Key × Val}
    (h : e ∈ replace k v l) : e ∈ l ∨ e = (k, v) := by
  induction l with
  | nil => simp [replace] at h
  | cons a r ih =>
    by_cases ha : a.1 = k
    · simp only [replace, if_pos ha] at h
      rcases List.mem_cons.mp h with rfl | h'
      · exact Or.inr rfl
      · exact Or.inl (List.mem_cons_of_mem _ h')
    · simp only [replace, if_neg ha] at h
      rcases List.mem_cons.mp h with rfl | h'
      · exact Or.inl (by simp)
      · rcases ih h' with h1 | h1
        · exact Or.inl (List.mem_cons_of_mem _ h1)
        · exact Or.inr h1

theorem lookup_eraseKeys (ks : List Key) (k : Key) (l : List (Key × Val)) :
    lookup k (eraseKeys ks l) = if k ∈ ks then none else lookup k l := by
  induction l with
  | nil => simp [eraseKeys, lookup]
  | cons e r ih =>
    unfold eraseKeys at ih ⊢
    by_cases he : e.1 ∈ ks
    · have : List.filter (fun e => !ks.contains e.1) (e :: r) = List.filter (fun e => !ks.contains e.1) r := by
        simp [he]
      rw [this, ih, lookup_cons]
      by_cases hk : k ∈ ks
      · simp [hk]
      · have : ¬ e.1 = k := by
          intro h; apply hk; rw [← h]; exact he
        simp [hk, this]
    · have hf : List.filter (fun e => !ks.contains e.1) (e :: r) = e :: List.filter (fun e => !ks.contains e.1) r := by
        simp [he]
      rw [hf, lookup_cons, lookup_cons, ih]
      by_cases h1 : e.1 = k
      · have : k ∉ ks := by
          intro h; apply he; rw [h1]; exact h
        simp [h1, this]
      · simp [h1]

theorem mem_eraseKeys {ks : List Key} {l : List (Key × Val)} {e : Key × Val}
    (h : e ∈ eraseKeys ks l) : e ∈ l := by
  unfold eraseKeys at h
  exact (List.mem_filter.mp h).1

/-- keys of a map are pairwise different -/
def KeysNodup (l : List (Key × Val)) : Prop := l.Pairwise (fun a b => a.1 ≠ b.1)

theorem keysNodup_replace {k : Key} {v : Val} {l : List (Key × Val)} (h : KeysNodup l) :
    KeysNodup (replace k v l) := by
  unfold KeysNodup at *
  induction l with
  | nil => simp [replace]
  | cons a r ih =>
    rw [List.pairwise_cons] at h
    by_cases ha : a.1 = k
    · simp only [replace, if_pos ha]
      rw [List.pairwise_cons]
      refine ⟨?_, h.2⟩
      intro b hb
      have := h.1 b hb
      simpa [ha] using this
    · simp only [replace, if_neg ha]
      rw [List.pairwise_cons]
      refine ⟨?_, ih h.2⟩
      intro b hb
      rcases mem_replace hb with h1 | h1
      · exact h.1 b h1
      · subst h1; simpa using ha

/-! ### planned writes -/

/-- aggregate comparison ⇔ aggregate key; the value kind fits the key kind. -/
def Write.wf (w : Write) : Prop := (w.chk = .agg ↔ w.key.kind = .agg)

/-- the write belongs to the duty the `Store` call is made for. -/
def Write.okFor (duty : Duty) (w : Write) : Prop :=
  w.key.duty = duty ∧ ∀ d, w.ik = some d → d = duty

theorem planCon_wf (cfg : Cfg) (slot : Nat) (cs : List ConDatum) :
    ∀ w ∈ (planCon cfg slot cs).1, w.wf := by
  induction cs with
  | nil => intro w hw; simp [planCon] at hw
  | cons c cs ih =>
    intro w hw
    unfold planCon at hw
    split at hw
    · simp at hw
    · simp only [List.mem_cons] at hw
      rcases hw with rfl | hw
      · simp [Write.wf, conWrite, Key.kind]
      · exact ih w hw

theorem plan_wf (cfg : Cfg) (duty : Duty) (dat : Datum) : ∀ w ∈ (plan cfg duty dat).1, w.wf := by
  intro w hw
  unfold plan at hw
  split at hw
  · split at hw
    · simp at hw
    · simp only [attWrites, List.mem_cons, List.not_mem_nil, or_false] at hw
      rcases hw with rfl | rfl | rfl | rfl <;> simp [Write.wf, Key.kind]
  · split at hw
    · simp at hw
    · simp only [List.mem_cons, List.not_mem_nil, or_false] at hw
      subst hw; simp [Write.wf, proWrite, Key.kind]
  · split at hw
    · simp at hw
    · simp only [List.mem_cons, List.not_mem_nil, or_false] at hw
      subst hw; simp [Write.wf, aggWrite, Key.kind]
  · exact planCon_wf cfg _ _ w hw
  · simp at hw

theorem planSet_mem (cfg : Cfg) (duty : Duty) (set : List Datum) :
    ∀ w ∈ (planSet cfg duty set).1, ∃ dat ∈ set, w ∈ (plan cfg duty dat).1 := by
  induction set with
  | nil => intro w hw; simp [planSet] at hw
  | cons d ds ih =>
    intro w hw
    unfold planSet at hw
    split at hw
    · exact ⟨d, by simp, hw⟩
    · simp only [List.mem_append] at hw
      rcases hw with hw | hw
      · exact ⟨d, by simp, hw⟩
      · obtain ⟨dat, hd, hw'⟩ := ih w hw
        exact ⟨dat, List.mem_cons_of_mem _ hd, hw'⟩

theorem planSet_wf (cfg : Cfg) (duty : Duty) (set : List Datum) :
    ∀ w ∈ (planSet cfg duty set).1, w.wf := by
  intro w hw
  obtain ⟨dat, _, h⟩ := planSet_mem cfg duty set w hw
  exact plan_wf cfg duty dat w h

theorem planCon_okFor (cfg : Cfg) (slot : Nat) (cs : List ConDatum)
    (h : cfg.checkSlot = true ∨ cs.all (fun c => c.slot == slot) = true) :
    ∀ w ∈ (planCon cfg slot cs).1, w.okFor ⟨slot, .sync⟩ := by
  induction cs with
  | nil => intro w hw; simp [planCon] at hw
  | cons c cs ih =>
    intro w hw
    unfold planCon at hw
    split at hw
    · simp at hw
    · rename_i hc
      have hslot : c.slot = slot := by
        rcases h with h | h
        · simp [h] at hc; exact hc
        · simp at h; exact h.1
      have h' : cfg.checkSlot = true ∨ cs.all (fun c => c.slot == slot) = true := by
        rcases h with h | h
        · exact Or.inl h
        · right; simp at h ⊢; exact h.2
      simp only [List.mem_cons] at hw
      rcases hw with rfl | hw
      · simp [Write.okFor, conWrite, Key.duty, Key.slot, Key.kind, Kind.dtype, hslot]
      · exact ih h' w hw

theorem plan_okFor (cfg : Cfg) (duty : Duty) (dat : Datum)
    (h : cfg.checkSlot = true ∨ dat.slotOK duty = true) :
    ∀ w ∈ (plan cfg duty dat).1, w.okFor duty := by
  intro w hw
  obtain ⟨slot, ty⟩ := duty
  unfold plan at hw
  split at hw
  · rename_i d hty
    simp only at hty
    subst hty
    split at hw
    · simp at hw
    · rename_i hc
      have hs : d.data.slot = slot ∧ d.dutySlot = slot := by
        rcases h with h | h
        · simp [h] at hc; exact hc
        · simpa [Datum.slotOK] using h
      simp only [attWrites, List.mem_cons, List.not_mem_nil, or_false] at hw
      rcases hw with rfl | rfl | rfl | rfl <;>
        simp [Write.okFor, Key.duty, Key.slot, Key.kind, Kind.dtype, hs.1, hs.2]
  · rename_i d hty
    simp only at hty
    subst hty
    split at hw
    · simp at hw
    · rename_i hc
      have hs : d.slot = slot := by
        rcases h with h | h
        · simp [h] at hc; exact hc
        · simpa [Datum.slotOK] using h
      simp only [List.mem_cons, List.not_mem_nil, or_false] at hw
      subst hw
      simp [Write.okFor, proWrite, Key.duty, Key.slot, Key.kind, Kind.dtype, hs]
  · rename_i d hty
    simp only at hty
    subst hty
    split at hw
    · simp at hw
    · rename_i hc
      have hs : d.slot = slot := by
        rcases h with h | h
        · simp [h] at hc; exact hc
        · simpa [Datum.slotOK] using h
      simp only [List.mem_cons, List.not_mem_nil, or_false] at hw
      subst hw
      simp [Write.okFor, aggWrite, Key.duty, Key.slot, Key.kind, Kind.dtype, hs]
  · rename_i ds hty
    simp only at hty
    subst hty
    refine planCon_okFor cfg slot ds ?_ w hw
    rcases h with h | h
    · exact Or.inl h
    · right; simpa [Datum.slotOK] using h
  · simp at hw

theorem planSet_okFor (cfg : Cfg) (duty : Duty) (set : List Datum)
    (h : cfg.checkSlot = true ∨ set.all (Datum.slotOK duty) = true) :
    ∀ w ∈ (planSet cfg duty set).1, w.okFor duty := by
  intro w hw
  obtain ⟨dat, hd, hw'⟩ := planSet_mem cfg duty set w hw
  refine plan_okFor cfg duty dat ?_ w hw'
  rcases h with h | h
  · exact Or.inl h
  · right
    rw [List.all_eq_true] at h
    exact h dat hd

/-! ### `applyWrite`: the four cases -/

inductive AW (cfg : Cfg) (s : State) (w : Write) : State × Option Err → Prop
  | clash (old : Val) (e : Err) : lookup w.key s.kv = some old → clash w.chk old w.val = some e →
      AW cfg s w (s, some e)
  | keep (old : Val) : lookup w.key s.kv = some old → clash w.chk old w.val = none →
      ¬ (w.chk = .agg ∧ cfg.keepFirstAgg = false) → AW cfg s w (s, none)
  | repl (old : Val) : lookup w.key s.kv = some old → w.chk = .agg → cfg.keepFirstAgg = false →
      AW cfg s w ({ s with kv := replace w.key w.val s.kv, hist := (w.key, w.val) :: s.hist }, none)
  | ins : lookup w.key s.kv = none →
      AW cfg s w ({ s with kv := (w.key, w.val) :: s.kv,
                           idx := match w.ik with
                                  | some d => (d, w.key) :: s.idx
                                  | none => s.idx,
                           hist := (w.key, w.val) :: s.hist }, none)

theorem applyWrite_cases (cfg : Cfg) (s : State) (w : Write) : AW cfg s w (applyWrite cfg s w) := by
  unfold applyWrite
  split
  · rename_i old hl
    split
    · rename_i e hc; exact AW.clash old e hl hc
    · rename_i hc
      split
      · rename_i hr; exact AW.repl old hl hr.1 hr.2
      · rename_i hr; exact AW.keep old hl hc hr
  · rename_i hl; exact AW.ins hl

/-- induction principle for `applyWrites`: a relation between start and end state that is
reflexive, transitive and holds for every single successful or failing write. -/
theorem applyWrites_rel (cfg : Cfg) (R : State → State → Prop) (hrefl : ∀ s, R s s)
    (htrans : ∀ a b c, R a b → R b c → R a c) (ws : List Write)
    (hstep : ∀ s, ∀ w ∈ ws, R s (applyWrite cfg s w).1) :
    ∀ s, R s (applyWrites cfg s ws).1 := by
  induction ws with
  | nil => intro s; exact hrefl s
  | cons w ws ih =>
    intro s
    unfold applyWrites
    split
    · exact hstep s w (by simp)
    · exact htrans _ _ _ (hstep s w (by simp))
        (ih (fun s w' hw' => hstep s w' (List.mem_cons_of_mem _ hw')) _)

theorem applyWrite_err_state {cfg : Cfg} {s : State} {w : Write} {e : Err}
    (h : (applyWrite cfg s w).2 = some e) : (applyWrite cfg s w).1 = s := by
  have := applyWrite_cases cfg s w
  generalize applyWrite cfg s w = r at this h
  cases this <;> simp_all

/-! ### frame: what `Store`'s write phase never touches -/

theorem applyWrite_frame (cfg : Cfg) (s : State) (w : Write) :
    (applyWrite cfg s w).1.pend = s.pend ∧ (applyWrite cfg s w).1.expired = s.expired ∧
    (applyWrite cfg s w).1.chan = s.chan ∧ (applyWrite cfg s w).1.nextQ = s.nextQ ∧
    (applyWrite cfg s w).1.answers = s.answers := by
  have := applyWrite_cases cfg s w
  generalize applyWrite cfg s w = r at this
  cases this <;> simp

theorem applyWrites_frame (cfg : Cfg) (ws : List Write) (s : State) :
    (applyWrites cfg s ws).1.pend = s.pend ∧ (applyWrites cfg s ws).1.expired = s.expired ∧
    (applyWrites cfg s ws).1.chan = s.chan ∧ (applyWrites cfg s ws).1.nextQ = s.nextQ ∧
    (applyWrites cfg s ws).1.answers = s.answers := by
  refine applyWrites_rel cfg (fun a b => b.pend = a.pend ∧ b.expired = a.expired ∧ b.chan = a.chan ∧
    b.nextQ = a.nextQ ∧ b.answers = a.answers) ?_ ?_ ws ?_ s
  · intro s; simp
  · intro a b c h1 h2
    obtain ⟨a1, a2, a3, a4, a5⟩ := h1
    obtain ⟨b1, b2, b3, b4, b5⟩ := h2
    exact ⟨b1.trans a1, b2.trans a2, b3.trans a3, b4.trans a4, b5.trans a5⟩
  · intro s w _; exact applyWrite_frame cfg s w

theorem storeSet_fst (cfg : Cfg) (s : State) (duty : Duty) (set : List Datum) :
    (storeSet cfg s duty set).1 = (applyWrites cfg s (planSet cfg duty set).1).1 := by
  unfold storeSet; split <;> rfl

theorem storeSet_frame (cfg : Cfg) (s : State) (duty : Duty) (set : List Datum) :
    (storeSet cfg s duty set).1.pend = s.pend ∧ (storeSet cfg s duty set).1.expired = s.expired ∧
    (storeSet cfg s duty set).1.chan = s.chan ∧ (storeSet cfg s duty set).1.nextQ = s.nextQ ∧
    (storeSet cfg s duty set).1.answers = s.answers := by
  rw [storeSet_fst]; exact applyWrites_frame cfg _ s

/-! ### stored values are not replaced (except aggregates, as the code is) -/

/-- keys whose value the write phase can never overwrite. -/
def good (cfg : Cfg) (k : Key) : Prop := k.kind ≠ .agg ∨ cfg.keepFirstAgg = true

theorem applyWrite_lookup_pres (cfg : Cfg) (s : State) (w : Write) (hw : w.wf) {k : Key} {v : Val}
    (hl : lookup k s.kv = some v) (hg : good cfg k) : lookup k (applyWrite cfg s w).1.kv = some v := by
  have := applyWrite_cases cfg s w
  generalize applyWrite cfg s w = r at this
  cases this with
  | clash old e _ _ => exact hl
  | keep old _ _ _ => exact hl
  | repl old h1 h2 h3 =>
    have hk : k ≠ w.key := by
      intro h; subst h
      rcases hg with hg | hg
      · exact hg (hw.mp h2)
      · rw [h3] at hg; cases hg
    simp only [lookup_replace, if_neg hk, hl]
  | ins h1 =>
    have hk : ¬ w.key = k := by
      intro h; rw [h] at h1; rw [h1] at hl; cases hl
    simp only [lookup_cons, if_neg hk, hl]

theorem applyWrites_lookup_pres (cfg : Cfg) (ws : List Write) (hw : ∀ w ∈ ws, w.wf) (s : State)
    {k : Key} {v : Val} (hl : lookup k s.kv = some v) (hg : good cfg k) :
    lookup k (applyWrites cfg s ws).1.kv = some v := by
  have := applyWrites_rel cfg (fun a b => lookup k a.kv = some v → lookup k b.kv = some v)
    (fun _ h => h) (fun _ _ _ h1 h2 h => h2 (h1 h)) ws
    (fun s w hmem h => applyWrite_lookup_pres cfg s w (hw w hmem) h hg) s
  exact this hl

/-- a key that appears during the write phase was written by one of the writes. -/
theorem applyWrites_new_key (cfg : Cfg) (ws : List Write) (s : State) {k : Key} {v : Val}
    (h0 : lookup k s.kv = none) (h1 : lookup k (applyWrites cfg s ws).1.kv = some v) :
    ∃ w ∈ ws, w.key = k := by
  induction ws generalizing s with
  | nil => simp [applyWrites] at h1; rw [h0] at h1; cases h1
  | cons w ws ih =>
    by_cases hk : w.key = k
    · exact ⟨w, by simp, hk⟩
    · have hstep : lookup k (applyWrite cfg s w).1.kv = none := by
        have := applyWrite_cases cfg s w
        generalize applyWrite cfg s w = r at this
        cases this with
        | clash => exact h0
        | keep => exact h0
        | repl =>
          have : ¬ k = w.key := fun h => hk h.symm
          simp only [lookup_replace, if_neg this, h0]
        | ins => simp only [lookup_cons, if_neg hk, h0]
      unfold applyWrites at h1
      split at h1
      · rw [hstep] at h1; cases h1
      · obtain ⟨w', hw', hk'⟩ := ih _ hstep h1
        exact ⟨w', List.mem_cons_of_mem _ hw', hk'⟩

/-! ### a conflicting write makes the call fail -/

theorem applyWrite_conflict {cfg : Cfg} {s : State} {w : Write} {old : Val} {e : Err}
    (hl : lookup w.key s.kv = some old) (hc : clash w.chk old w.val = some e) :
    applyWrite cfg s w = (s, some e) := by
  unfold applyWrite; rw [hl]; simp only; rw [hc]

theorem clash_agg_none (old new : Val) : clash .agg old new = none := by
  cases old <;> cases new <;> rfl

theorem applyWrites_conflict (cfg : Cfg) (ws : List Write) (hwf : ∀ w ∈ ws, w.wf) (s : State)
    {w : Write} (hw : w ∈ ws) {old : Val} {e : Err}
    (hl : lookup w.key s.kv = some old) (hc : clash w.chk old w.val = some e) :
    ∃ e', (applyWrites cfg s ws).2 = some e' ∧ lookup w.key (applyWrites cfg s ws).1.kv = some old := by
  have hgood : good cfg w.key := by
    left
    intro hk
    have := (hwf w hw).mpr hk
    rw [this, clash_agg_none] at hc; cases hc
  induction ws generalizing s with
  | nil => cases hw
  | cons w0 ws ih =>
    unfold applyWrites
    split
    · rename_i e0 he0
      refine ⟨e0, rfl, ?_⟩
      simp only
      rw [applyWrite_err_state he0]; exact hl
    · rename_i hnone
      have hl' := applyWrite_lookup_pres cfg s w0 (hwf w0 (by simp)) hl hgood
      rcases List.mem_cons.mp hw with rfl | hw'
      · rw [applyWrite_conflict hl hc] at hnone; cases hnone
      · exact ih (fun w' h' => hwf w' (List.mem_cons_of_mem _ h')) _ hw' hl'

/-- the writes before the failing one are applied, the failing one and everything after it is not. -/
theorem applyWrites_prefix (cfg : Cfg) (ws1 : List Write) (w : Write) (ws2 : List Write) (s : State)
    (h1 : (applyWrites cfg s ws1).2 = none) {e : Err}
    (h2 : (applyWrite cfg (applyWrites cfg s ws1).1 w).2 = some e) :
    applyWrites cfg s (ws1 ++ w :: ws2) = ((applyWrites cfg s ws1).1, some e) := by
  induction ws1 generalizing s with
  | nil =>
    simp only [applyWrites, List.nil_append] at h2 ⊢
    rw [h2, applyWrite_err_state h2]
  | cons a as ih =>
    simp only [List.cons_append]
    unfold applyWrites at h1 h2 ⊢
    split
    · rename_i e0 he0
      rw [he0] at h1; cases h1
    · rename_i hn
      rw [hn] at h1 h2
      exact ih _ h1 h2

/-! ### resolve, delete, drain -/

theorem resolve_kv (kd : Kind) (s : State) : (resolve kd s).1.kv = s.kv := rfl
theorem resolve_idx (kd : Kind) (s : State) : (resolve kd s).1.idx = s.idx := rfl
theorem resolve_expired (kd : Kind) (s : State) : (resolve kd s).1.expired = s.expired := rfl
theorem resolve_chan (kd : Kind) (s : State) : (resolve kd s).1.chan = s.chan := rfl
theorem resolve_hist (kd : Kind) (s : State) : (resolve kd s).1.hist = s.hist := rfl

theorem resolve_answer_mem {kd : Kind} {s : State} {a : Nat × Key × Val}
    (h : a ∈ (resolve kd s).2) :
    ∃ q ∈ s.pend, q.qid = a.1 ∧ q.key = a.2.1 ∧ q.key.kind = kd ∧ q.cancelled = false ∧
      lookup a.2.1 s.kv = some a.2.2 := by
  simp only [resolve, List.mem_filterMap] at h
  obtain ⟨q, hq, hqa⟩ := h
  unfold Query.answer at hqa
  split at hqa
  · rename_i hc
    cases hl : lookup q.key s.kv with
    | none => rw [hl] at hqa; simp at hqa
    | some v =>
      rw [hl] at hqa
      simp at hqa
      subst hqa
      exact ⟨q, hq, rfl, rfl, hc.1, hc.2, hl⟩
  · cases hqa

theorem resolve_answers {kd : Kind} {s : State} {a : Key × Val}
    (h : a ∈ (resolve kd s).1.answers) : a ∈ s.answers ∨ lookup a.1 s.kv = some a.2 := by
  simp only [resolve, List.mem_append, List.mem_map] at h
  rcases h with ⟨b, hb, rfl⟩ | h
  · right
    obtain ⟨q, _, _, _, _, _, hl⟩ := resolve_answer_mem (kd := kd) (s := s) hb
    exact hl
  · exact Or.inl h

theorem resolve_pend_prompt {kd : Kind} {s : State} {q : Query} (h : q ∈ (resolve kd s).1.pend)
    (hk : q.key.kind = kd) (hc : q.cancelled = false) : lookup q.key s.kv = none := by
  simp only [resolve, List.mem_filter] at h
  have := h.2
  unfold Query.keep at this
  rw [if_pos hk, hc] at this
  simpa using this

theorem resolve_not_lost {kd : Kind} {s : State} {q : Query} (h : q ∈ s.pend) (hc : q.cancelled = false) :
    q ∈ (resolve kd s).1.pend ∨ ∃ v, (q.qid, q.key, v) ∈ (resolve kd s).2 := by
  by_cases hk : q.key.kind = kd
  · cases hl : lookup q.key s.kv with
    | none =>
      left
      simp only [resolve, List.mem_filter]
      refine ⟨h, ?_⟩
      unfold Query.keep
      rw [if_pos hk, hc, hl]; rfl
    | some v =>
      right
      refine ⟨v, ?_⟩
      simp only [resolve, List.mem_filterMap]
      refine ⟨q, h, ?_⟩
      unfold Query.answer
      rw [if_pos ⟨hk, hc⟩, hl]; rfl
  · left
    simp only [resolve, List.mem_filter]
    refine ⟨h, ?_⟩
    unfold Query.keep
    rw [if_neg hk]

theorem deleteDuty_cases (s : State) (d : Duty) :
    ((deleteDuty s d).1 = s ∧ (deleteDuty s d).2 ≠ none) ∨
    ((deleteDuty s d).1 = { s with kv := eraseKeys (delKeys d s.idx) s.kv,
                                   idx := s.idx.filter (fun e => !(e.1 = d)) } ∧
      (deleteDuty s d).2 = none) := by
  unfold deleteDuty
  cases d.type <;> simp

theorem deleteDuty_frame (s : State) (d : Duty) :
    (deleteDuty s d).1.pend = s.pend ∧ (deleteDuty s d).1.expired = s.expired ∧
    (deleteDuty s d).1.answers = s.answers ∧ (deleteDuty s d).1.hist = s.hist ∧
    (deleteDuty s d).1.nextQ = s.nextQ ∧ (deleteDuty s d).1.chan = s.chan := by
  rcases deleteDuty_cases s d with ⟨h, _⟩ | ⟨h, _⟩ <;> rw [h] <;> simp

theorem deleteDuty_lookup (s : State) (d : Duty) (k : Key) :
    lookup k (deleteDuty s d).1.kv = lookup k s.kv ∨ lookup k (deleteDuty s d).1.kv = none := by
  rcases deleteDuty_cases s d with ⟨h, _⟩ | ⟨h, _⟩ <;> rw [h]
  · exact Or.inl rfl
  · simp only [lookup_eraseKeys]
    split
    · exact Or.inr rfl
    · exact Or.inl rfl

/-- relation preserved by the drain loop: pending queries, ghost logs and `expired` stay, every key
keeps its value or disappears. -/
def DrainRel (a b : State) : Prop :=
  b.pend = a.pend ∧ b.expired = a.expired ∧ b.answers = a.answers ∧ b.hist = a.hist ∧ b.nextQ = a.nextQ ∧
  (∀ k, lookup k b.kv = lookup k a.kv ∨ lookup k b.kv = none) ∧ (∀ e ∈ b.kv, e ∈ a.kv) ∧
  (KeysNodup a.kv → KeysNodup b.kv) ∧ (∀ e ∈ b.idx, e ∈ a.idx)

theorem DrainRel.refl (a : State) : DrainRel a a :=
  ⟨rfl, rfl, rfl, rfl, rfl, fun _ => Or.inl rfl, fun _ h => h, fun h => h, fun _ h => h⟩

theorem DrainRel.trans {a b c : State} (h1 : DrainRel a b) (h2 : DrainRel b c) : DrainRel a c := by
  obtain ⟨a1, a2, a3, a4, a5, a6, a7, a8, a9⟩ := h1
  obtain ⟨b1, b2, b3, b4, b5, b6, b7, b8, b9⟩ := h2
  refine ⟨b1.trans a1, b2.trans a2, b3.trans a3, b4.trans a4, b5.trans a5, fun k => ?_,
    fun e h => a7 e (b7 e h), fun h => b8 (a8 h), fun e h => a9 e (b9 e h)⟩
  rcases b6 k with h | h
  · rcases a6 k with h' | h'
    · exact Or.inl (h.trans h')
    · exact Or.inr (h.trans h')
  · exact Or.inr h

theorem deleteDuty_rel (s : State) (d : Duty) : DrainRel s (deleteDuty s d).1 := by
  obtain ⟨h1, h2, h3, h4, h5, _⟩ := deleteDuty_frame s d
  refine ⟨h1, h2, h3, h4, h5, deleteDuty_lookup s d, ?_, ?_, ?_⟩
  · rcases deleteDuty_cases s d with ⟨h, _⟩ | ⟨h, _⟩ <;> rw [h]
    · exact fun _ h => h
    · exact fun e he => mem_eraseKeys he
  · rcases deleteDuty_cases s d with ⟨h, _⟩ | ⟨h, _⟩ <;> rw [h]
    · exact fun h => h
    · intro hn
      unfold KeysNodup eraseKeys at *
      exact List.Pairwise.filter _ hn
  · rcases deleteDuty_cases s d with ⟨h, _⟩ | ⟨h, _⟩ <;> rw [h]
    · exact fun _ h => h
    · exact fun e he => (List.mem_filter.mp he).1

theorem drain_rel (s : State) (ds : List Duty) : DrainRel s (drain s ds).1 := by
  induction ds generalizing s with
  | nil => exact ⟨rfl, rfl, rfl, rfl, rfl, fun _ => Or.inl rfl, fun _ h => h, fun h => h, fun _ h => h⟩
  | cons d ds ih =>
    unfold drain
    split
    · have := deleteDuty_rel s d
      obtain ⟨h1, h2, h3, h4, h5, h6, h7, h8, h9⟩ := this
      exact ⟨h1, h2, h3, h4, h5, h6, h7, h8, h9⟩
    · exact (deleteDuty_rel s d).trans (ih _)

theorem drain_chan (s : State) (ds : List Duty) : ∀ d ∈ (drain s ds).1.chan, d ∈ ds := by
  induction ds generalizing s with
  | nil => intro d hd; simp [drain] at hd
  | cons a ds ih =>
    intro d hd
    unfold drain at hd
    split at hd
    · exact List.mem_cons_of_mem _ hd
    · exact List.mem_cons_of_mem _ (ih _ d hd)

/-! ### `Store`: the possible shapes of one call -/

theorem storeOp_cases (cfg : Cfg) (s : State) (duty : Duty) (ex : Bool) (set : List Datum) :
    ((ex = true ∨ duty ∈ s.expired) ∧ storeOp cfg s duty ex set = (s, ⟨.err .expired, []⟩)) ∨
    (¬ (ex = true ∨ duty ∈ s.expired) ∧ ∃ e, storeOp cfg s duty ex set = (s, ⟨.err e, []⟩)) ∨
    (¬ (ex = true ∨ duty ∈ s.expired) ∧ ∃ kd e, duty.type.kind? = some kd ∧ (storeSet cfg s duty set).2 = some e ∧
      storeOp cfg s duty ex set = ((storeSet cfg s duty set).1, ⟨.err e, []⟩)) ∨
    (¬ (ex = true ∨ duty ∈ s.expired) ∧ ∃ kd, duty.type.kind? = some kd ∧ (storeSet cfg s duty set).2 = none ∧
      (storeOp cfg s duty ex set).1 =
        (drain (resolve kd (storeSet cfg s duty set).1).1 (resolve kd (storeSet cfg s duty set).1).1.chan).1 ∧
      (storeOp cfg s duty ex set).2.resolved = (resolve kd (storeSet cfg s duty set).1).2 ∧
      ((storeOp cfg s duty ex set).2.res = .ok ∨ ∃ e, (storeOp cfg s duty ex set).2.res = .err e)) := by
  unfold storeOp
  by_cases hc : ex = true ∨ duty ∈ s.expired
  · left; exact ⟨hc, by rw [if_pos hc]⟩
  · right
    rw [if_neg hc]
    cases hk : duty.type.kind? with
    | none => left; exact ⟨hc, _, rfl⟩
    | some kd =>
      simp only
      split
      · left; exact ⟨hc, _, rfl⟩
      · right
        split
        · rename_i e he
          left; exact ⟨hc, kd, e, rfl, he, rfl⟩
        · rename_i hn
          right
          refine ⟨hc, kd, rfl, hn, ?_⟩
          split
          · exact ⟨rfl, rfl, Or.inr ⟨_, rfl⟩⟩
          · exact ⟨rfl, rfl, Or.inl rfl⟩

/-! ### one value per key -/

theorem applyWrite_keysNodup (cfg : Cfg) (s : State) (w : Write) (h : KeysNodup s.kv) :
    KeysNodup (applyWrite cfg s w).1.kv := by
  have := applyWrite_cases cfg s w
  generalize applyWrite cfg s w = r at this
  cases this with
  | clash => exact h
  | keep => exact h
  | repl => exact keysNodup_replace h
  | ins hl =>
    unfold KeysNodup at *
    simp only [List.pairwise_cons]
    exact ⟨fun b hb => (lookup_none_not_mem hl b hb).symm, h⟩

theorem applyWrites_keysNodup (cfg : Cfg) (ws : List Write) (s : State) (h : KeysNodup s.kv) :
    KeysNodup (applyWrites cfg s ws).1.kv :=
  applyWrites_rel cfg (fun a b => KeysNodup a.kv → KeysNodup b.kv) (fun _ h => h)
    (fun _ _ _ h1 h2 h => h2 (h1 h)) ws (fun s w _ h => applyWrite_keysNodup cfg s w h) s h

theorem step_keysNodup (cfg : Cfg) (s : State) (op : Op) (h : KeysNodup s.kv) :
    KeysNodup (step cfg s op).1.kv := by
  cases op with
  | store duty ex set =>
    simp only [step]
    rcases storeOp_cases cfg s duty ex set with ⟨_, h1⟩ | ⟨_, e, h1⟩ | ⟨_, kd, e, _, _, h1⟩ | ⟨_, kd, _, _, h1, _⟩
    · rw [h1]; exact h
    · rw [h1]; exact h
    · rw [h1, storeSet_fst]; exact applyWrites_keysNodup cfg _ s h
    · rw [h1]
      refine (drain_rel _ _).2.2.2.2.2.2.2.1 ?_
      rw [resolve_kv, storeSet_fst]; exact applyWrites_keysNodup cfg _ s h
  | await k =>
    simp only [step, awaitOp]
    split
    · exact h
    · exact h
  | cancel q => exact h
  | expire d n => exact h
  | pubkey a b c =>
    simp only [step]
    split <;> exact h

/-! ### only stored data is answered -/

/-- everything a `Store` call may write: the (key, value) pairs of its planned writes. -/
def suppliedBy (cfg : Cfg) : Op → List (Key × Val)
  | .store duty _ set => (planSet cfg duty set).1.map (fun w => (w.key, w.val))
  | _ => []

structure Sound (s : State) : Prop where
  kvHist : ∀ e ∈ s.kv, e ∈ s.hist
  ansHist : ∀ a ∈ s.answers, a ∈ s.hist

theorem sound_init : Sound ({} : State) := by
  refine ⟨?_, ?_⟩
  · intro e h; cases h
  · intro e h; cases h

theorem applyWrite_hist (cfg : Cfg) (s : State) (w : Write) :
    (∀ e ∈ (applyWrite cfg s w).1.hist, e ∈ s.hist ∨ e = (w.key, w.val)) ∧
    (∀ e ∈ s.hist, e ∈ (applyWrite cfg s w).1.hist) ∧
    ((∀ e ∈ s.kv, e ∈ s.hist) → ∀ e ∈ (applyWrite cfg s w).1.kv, e ∈ (applyWrite cfg s w).1.hist) := by
  have := applyWrite_cases cfg s w
  generalize applyWrite cfg s w = r at this
  cases this with
  | clash => exact ⟨fun e h => Or.inl h, fun e h => h, fun h => h⟩
  | keep => exact ⟨fun e h => Or.inl h, fun e h => h, fun h => h⟩
  | repl =>
    refine ⟨?_, ?_, ?_⟩
    · intro e he
      rcases List.mem_cons.mp he with h | h
      · exact Or.inr h
      · exact Or.inl h
    · intro e he; exact List.mem_cons_of_mem _ he
    · intro hk e he
      rcases mem_replace he with h | h
      · exact List.mem_cons_of_mem _ (hk e h)
      · rw [h]; exact List.mem_cons_self
  | ins =>
    refine ⟨?_, ?_, ?_⟩
    · intro e he
      rcases List.mem_cons.mp he with h | h
      · exact Or.inr h
      · exact Or.inl h
    · intro e he; exact List.mem_cons_of_mem _ he
    · intro hk e he
      rcases List.mem_cons.mp he with h | h
      · rw [h]; exact List.mem_cons_self
      · exact List.mem_cons_of_mem _ (hk e h)

theorem applyWrites_hist (cfg : Cfg) (ws : List Write) (s : State) :
    (∀ e ∈ (applyWrites cfg s ws).1.hist, e ∈ s.hist ∨ ∃ w ∈ ws, e = (w.key, w.val)) ∧
    (∀ e ∈ s.hist, e ∈ (applyWrites cfg s ws).1.hist) ∧
    ((∀ e ∈ s.kv, e ∈ s.hist) → ∀ e ∈ (applyWrites cfg s ws).1.kv, e ∈ (applyWrites cfg s ws).1.hist) := by
  refine applyWrites_rel cfg (fun a b =>
    (∀ e ∈ b.hist, e ∈ a.hist ∨ ∃ w ∈ ws, e = (w.key, w.val)) ∧ (∀ e ∈ a.hist, e ∈ b.hist) ∧
    ((∀ e ∈ a.kv, e ∈ a.hist) → ∀ e ∈ b.kv, e ∈ b.hist)) ?_ ?_ ws ?_ s
  · intro a; exact ⟨fun e h => Or.inl h, fun e h => h, fun h => h⟩
  · intro a b c ⟨h1, h2, h3⟩ ⟨g1, g2, g3⟩
    refine ⟨?_, fun e h => g2 e (h2 e h), fun h => g3 (h3 h)⟩
    intro e he
    rcases g1 e he with h | h
    · exact h1 e h
    · exact Or.inr h
  · intro a w hw
    obtain ⟨h1, h2, h3⟩ := applyWrite_hist cfg a w
    refine ⟨?_, h2, h3⟩
    intro e he
    rcases h1 e he with h | h
    · exact Or.inl h
    · exact Or.inr ⟨w, hw, h⟩

theorem resolve_sound {kd : Kind} {s : State} (h : Sound s) : Sound (resolve kd s).1 := by
  refine ⟨h.kvHist, ?_⟩
  intro a ha
  rcases resolve_answers ha with h1 | h1
  · exact h.ansHist a h1
  · exact h.kvHist _ (lookup_mem h1)

theorem drainRel_sound {a b : State} (hr : DrainRel a b) (h : Sound a) : Sound b := by
  obtain ⟨_, _, h3, h4, _, _, h7, _, _⟩ := hr
  refine ⟨?_, ?_⟩
  · intro e he; rw [h4]; exact h.kvHist e (h7 e he)
  · intro e he; rw [h4]; rw [h3] at he; exact h.ansHist e he

/-- one step keeps `Sound` and adds to `hist` only pairs the op itself supplies. -/
theorem step_sound (cfg : Cfg) (s : State) (op : Op) (h : Sound s) :
    Sound (step cfg s op).1 ∧ ∀ e ∈ (step cfg s op).1.hist, e ∈ s.hist ∨ e ∈ suppliedBy cfg op := by
  cases op with
  | store duty ex set =>
    simp only [step]
    have hws := applyWrites_hist cfg (planSet cfg duty set).1 s
    have hsup : ∀ e, (∃ w ∈ (planSet cfg duty set).1, e = (w.key, w.val)) → e ∈ suppliedBy cfg (.store duty ex set) := by
      intro e ⟨w, hw, he⟩
      simp only [suppliedBy, List.mem_map]
      exact ⟨w, hw, he.symm⟩
    have hS1 : Sound (storeSet cfg s duty set).1 := by
      rw [storeSet_fst]
      refine ⟨hws.2.2 h.kvHist, ?_⟩
      intro a ha
      rw [(applyWrites_frame cfg _ s).2.2.2.2] at ha
      exact hws.2.1 a (h.ansHist a ha)
    have hH1 : ∀ e ∈ (storeSet cfg s duty set).1.hist, e ∈ s.hist ∨ e ∈ suppliedBy cfg (.store duty ex set) := by
      rw [storeSet_fst]
      intro e he
      rcases hws.1 e he with h1 | h1
      · exact Or.inl h1
      · exact Or.inr (hsup e h1)
    rcases storeOp_cases cfg s duty ex set with ⟨_, h1⟩ | ⟨_, e, h1⟩ | ⟨_, kd, e, _, _, h1⟩ | ⟨_, kd, _, _, h1, _⟩
    · rw [h1]; exact ⟨h, fun e he => Or.inl he⟩
    · rw [h1]; exact ⟨h, fun e he => Or.inl he⟩
    · rw [h1]; exact ⟨hS1, hH1⟩
    · rw [h1]
      have hr := drain_rel (resolve kd (storeSet cfg s duty set).1).1 (resolve kd (storeSet cfg s duty set).1).1.chan
      refine ⟨drainRel_sound hr (resolve_sound hS1), ?_⟩
      intro e he
      rw [hr.2.2.2.1, resolve_hist] at he
      exact hH1 e he
  | await k =>
    simp only [step, awaitOp]
    split
    · exact ⟨h, fun e he => Or.inl he⟩
    · refine ⟨resolve_sound ⟨h.kvHist, h.ansHist⟩, ?_⟩
      intro e he
      rw [resolve_hist] at he
      exact Or.inl he
  | cancel q => exact ⟨⟨h.kvHist, h.ansHist⟩, fun e he => Or.inl he⟩
  | expire d n => exact ⟨⟨h.kvHist, h.ansHist⟩, fun e he => Or.inl he⟩
  | pubkey a b c =>
    simp only [step]
    split
    · rename_i x hx
      refine ⟨⟨h.kvHist, ?_⟩, fun e he => Or.inl he⟩
      intro e he
      rcases List.mem_cons.mp he with h1 | h1
      · rw [h1]; exact h.kvHist _ (lookup_mem hx)
      · exact h.ansHist e h1
    · exact ⟨h, fun e he => Or.inl he⟩

theorem run_sound (cfg : Cfg) (ops : List Op) (s : State) (h : Sound s) :
    Sound (run cfg s ops) ∧
    ∀ e ∈ (run cfg s ops).hist, e ∈ s.hist ∨ ∃ op ∈ ops, e ∈ suppliedBy cfg op := by
  induction ops generalizing s with
  | nil => exact ⟨h, fun e he => Or.inl he⟩
  | cons op ops ih =>
    obtain ⟨h1, h2⟩ := step_sound cfg s op h
    obtain ⟨h3, h4⟩ := ih _ h1
    refine ⟨h3, ?_⟩
    intro e he
    rcases h4 e he with h5 | ⟨op', hop', h5⟩
    · rcases h2 e h5 with h6 | h6
      · exact Or.inl h6
      · exact Or.inr ⟨op, by simp, h6⟩
    · exact Or.inr ⟨op', List.mem_cons_of_mem _ hop', h5⟩

/-! ### answers are unique per key: the invariant -/

structure Inv (cfg : Cfg) (s : State) : Prop where
  kvHist : ∀ e ∈ s.kv, e ∈ s.hist
  ansHist : ∀ a ∈ s.answers, a ∈ s.hist
  /-- every value ever written is the current one, or the key is gone and its duty has expired -/
  histCur : ∀ k v, (k, v) ∈ s.hist →
    (∃ v', lookup k s.kv = some v' ∧ (good cfg k → v' = v)) ∨ (lookup k s.kv = none ∧ k.duty ∈ s.expired)
  histUniq : ∀ k v v', (k, v) ∈ s.hist → (k, v') ∈ s.hist → good cfg k → v = v'
  idxDuty : ∀ e ∈ s.idx, e.2.duty = e.1
  chanExp : ∀ d ∈ s.chan, d ∈ s.expired

theorem inv_init (cfg : Cfg) : Inv cfg {} := by
  refine ⟨?_, ?_, ?_, ?_, ?_, ?_⟩
  · intro e h; cases h
  · intro e h; cases h
  · intro k v h; cases h
  · intro k v v' h; cases h
  · intro e h; cases h
  · intro e h; cases h

theorem applyWrite_inv (cfg : Cfg) (duty : Duty) (s : State) (w : Write) (hwf : w.wf) (hok : w.okFor duty)
    (hne : duty ∉ s.expired) (h : Inv cfg s) : Inv cfg (applyWrite cfg s w).1 := by
  have hc := applyWrite_cases cfg s w
  generalize applyWrite cfg s w = r at hc
  cases hc with
  | clash => exact h
  | keep => exact h
  | repl old hl hchk hkf =>
    have hbad : ¬ good cfg w.key := by
      intro hg
      rcases hg with hg | hg
      · exact hg (hwf.mp hchk)
      · rw [hkf] at hg; cases hg
    refine ⟨?_, ?_, ?_, ?_, h.idxDuty, h.chanExp⟩
    · intro e he
      rcases mem_replace he with h1 | h1
      · exact List.mem_cons_of_mem _ (h.kvHist e h1)
      · rw [h1]; exact List.mem_cons_self
    · intro a ha; exact List.mem_cons_of_mem _ (h.ansHist a ha)
    · intro k v hkv
      by_cases hk : k = w.key
      · subst hk
        left
        refine ⟨w.val, ?_, fun hg => absurd hg hbad⟩
        simp only [lookup_replace, if_true, hl]; rfl
      · have hmem : (k, v) ∈ s.hist := by
          rcases List.mem_cons.mp hkv with h1 | h1
          · exfalso; apply hk; exact (Prod.mk.inj h1).1
          · exact h1
        simp only [lookup_replace, if_neg hk]
        exact h.histCur k v hmem
    · intro k v v' h1 h2 hg
      have hk : k ≠ w.key := fun hk => hbad (hk ▸ hg)
      have m1 : (k, v) ∈ s.hist := by
        rcases List.mem_cons.mp h1 with h | h
        · exfalso; exact hk (Prod.mk.inj h).1
        · exact h
      have m2 : (k, v') ∈ s.hist := by
        rcases List.mem_cons.mp h2 with h | h
        · exfalso; exact hk (Prod.mk.inj h).1
        · exact h
      exact h.histUniq k v v' m1 m2 hg
  | ins hl =>
    -- no earlier value of this key: it would be current (but the key is absent) or its duty expired
    have hfresh : ∀ v, (w.key, v) ∉ s.hist := by
      intro v hv
      rcases h.histCur w.key v hv with ⟨v', h1, _⟩ | ⟨_, h2⟩
      · rw [hl] at h1; cases h1
      · rw [hok.1] at h2; exact hne h2
    refine ⟨?_, ?_, ?_, ?_, ?_, h.chanExp⟩
    · intro e he
      rcases List.mem_cons.mp he with h1 | h1
      · rw [h1]; exact List.mem_cons_self
      · exact List.mem_cons_of_mem _ (h.kvHist e h1)
    · intro a ha; exact List.mem_cons_of_mem _ (h.ansHist a ha)
    · intro k v hkv
      by_cases hk : k = w.key
      · subst hk
        left
        have : v = w.val := by
          rcases List.mem_cons.mp hkv with h1 | h1
          · exact (Prod.mk.inj h1).2
          · exact absurd h1 (hfresh v)
        refine ⟨w.val, ?_, fun _ => this.symm⟩
        simp [lookup_cons]
      · have hmem : (k, v) ∈ s.hist := by
          rcases List.mem_cons.mp hkv with h1 | h1
          · exfalso; exact hk (Prod.mk.inj h1).1
          · exact h1
        have hk' : ¬ w.key = k := fun h => hk h.symm
        simp only [lookup_cons, if_neg hk']
        exact h.histCur k v hmem
    · intro k v v' h1 h2 hg
      by_cases hk : k = w.key
      · subst hk
        have e1 : v = w.val := by
          rcases List.mem_cons.mp h1 with h | h
          · exact (Prod.mk.inj h).2
          · exact absurd h (hfresh v)
        have e2 : v' = w.val := by
          rcases List.mem_cons.mp h2 with h | h
          · exact (Prod.mk.inj h).2
          · exact absurd h (hfresh v')
        rw [e1, e2]
      · have m1 : (k, v) ∈ s.hist := by
          rcases List.mem_cons.mp h1 with h | h
          · exfalso; exact hk (Prod.mk.inj h).1
          · exact h
        have m2 : (k, v') ∈ s.hist := by
          rcases List.mem_cons.mp h2 with h | h
          · exfalso; exact hk (Prod.mk.inj h).1
          · exact h
        exact h.histUniq k v v' m1 m2 hg
    · intro e he
      cases hik : w.ik with
      | none => rw [hik] at he; exact h.idxDuty e he
      | some d =>
        rw [hik] at he
        rcases List.mem_cons.mp he with h1 | h1
        · rw [h1]; simp only; rw [hok.1]; exact (hok.2 d hik).symm
        · exact h.idxDuty e h1

theorem applyWrites_inv (cfg : Cfg) (duty : Duty) (ws : List Write) (hwf : ∀ w ∈ ws, w.wf)
    (hok : ∀ w ∈ ws, w.okFor duty) (s : State) (hne : duty ∉ s.expired) (h : Inv cfg s) :
    Inv cfg (applyWrites cfg s ws).1 := by
  have := applyWrites_rel cfg (fun a b => (duty ∉ a.expired ∧ Inv cfg a) → (duty ∉ b.expired ∧ Inv cfg b))
    (fun _ h => h) (fun _ _ _ h1 h2 h => h2 (h1 h)) ws
    (fun a w hw ⟨h1, h2⟩ => ⟨by rw [(applyWrite_frame cfg a w).2.1]; exact h1,
      applyWrite_inv cfg duty a w (hwf w hw) (hok w hw) h1 h2⟩) s
  exact (this ⟨hne, h⟩).2

theorem resolve_inv {cfg : Cfg} {kd : Kind} {s : State} (h : Inv cfg s) : Inv cfg (resolve kd s).1 := by
  refine ⟨h.kvHist, ?_, h.histCur, h.histUniq, h.idxDuty, h.chanExp⟩
  intro a ha
  rcases resolve_answers ha with h1 | h1
  · exact h.ansHist a h1
  · exact h.kvHist _ (lookup_mem h1)

theorem attOf_duty (k : Key) : (attOf k).duty = k.duty := by
  cases k <;> rfl

theorem delKeys_duty {s : State} {cfg : Cfg} (h : Inv cfg s) (d : Duty) :
    ∀ k ∈ delKeys d s.idx, k.duty = d := by
  have hidx : ∀ k ∈ idxKeys d s.idx, k.duty = d := by
    intro k hk
    simp only [idxKeys, List.mem_map, List.mem_filter] at hk
    obtain ⟨e, ⟨he, hd⟩, rfl⟩ := hk
    have := h.idxDuty e he
    rw [this]; simpa using hd
  intro k hk
  unfold delKeys at hk
  obtain ⟨slot, ty⟩ := d
  cases ty <;> simp only at hk
  · simp only [List.mem_cons, List.not_mem_nil, or_false] at hk
    subst hk; rfl
  · cases hk
  · rcases List.mem_append.mp hk with h1 | h1
    · exact hidx k h1
    · simp only [List.mem_map] at h1
      obtain ⟨k0, hk0, rfl⟩ := h1
      rw [attOf_duty]; exact hidx k0 hk0
  · exact hidx k hk
  · exact hidx k hk
  · cases hk

theorem deleteDuty_inv {cfg : Cfg} {s : State} (h : Inv cfg s) (d : Duty) (hd : d ∈ s.expired) :
    Inv cfg (deleteDuty s d).1 := by
  rcases deleteDuty_cases s d with ⟨h1, _⟩ | ⟨h1, _⟩ <;> rw [h1]
  · exact h
  · refine ⟨?_, h.ansHist, ?_, h.histUniq, ?_, h.chanExp⟩
    · intro e he; exact h.kvHist e (mem_eraseKeys he)
    · intro k v hkv
      simp only [lookup_eraseKeys]
      by_cases hk : k ∈ delKeys d s.idx
      · right
        rw [if_pos hk]
        refine ⟨rfl, ?_⟩
        rw [delKeys_duty h d k hk]; exact hd
      · rw [if_neg hk]; exact h.histCur k v hkv
    · intro e he; exact h.idxDuty e (List.mem_filter.mp he).1

theorem drain_inv {cfg : Cfg} (ds : List Duty) (s : State) (h : Inv cfg s) (hd : ∀ d ∈ ds, d ∈ s.expired) :
    Inv cfg (drain s ds).1 := by
  induction ds generalizing s with
  | nil =>
    simp only [drain]
    exact ⟨h.kvHist, h.ansHist, h.histCur, h.histUniq, h.idxDuty, fun _ hx => by cases hx⟩
  | cons d ds ih =>
    have h1 := deleteDuty_inv h d (hd d (by simp))
    have hexp : (deleteDuty s d).1.expired = s.expired := (deleteDuty_frame s d).2.1
    unfold drain
    split
    · refine ⟨h1.kvHist, h1.ansHist, h1.histCur, h1.histUniq, h1.idxDuty, ?_⟩
      intro x hx
      simp only at hx ⊢
      rw [hexp]; exact hd x (List.mem_cons_of_mem _ hx)
    · refine ih _ h1 ?_
      intro x hx
      rw [hexp]; exact hd x (List.mem_cons_of_mem _ hx)

theorem step_inv (cfg : Cfg) (s : State) (op : Op) (hs : cfg.checkSlot = true ∨ op.slotOK = true)
    (h : Inv cfg s) : Inv cfg (step cfg s op).1 := by
  cases op with
  | store duty ex set =>
    simp only [step]
    have hS : ¬ (ex = true ∨ duty ∈ s.expired) → Inv cfg (storeSet cfg s duty set).1 := by
      intro hc
      rw [storeSet_fst]
      exact applyWrites_inv cfg duty _ (planSet_wf cfg duty set)
        (planSet_okFor cfg duty set (by simpa [Op.slotOK] using hs)) s (fun hm => hc (Or.inr hm)) h
    rcases storeOp_cases cfg s duty ex set with ⟨_, h1⟩ | ⟨_, e, h1⟩ | ⟨hc, kd, e, _, _, h1⟩ | ⟨hc, kd, _, _, h1, _⟩
    · rw [h1]; exact h
    · rw [h1]; exact h
    · rw [h1]; exact hS hc
    · rw [h1]
      have hr : Inv cfg (resolve kd (storeSet cfg s duty set).1).1 := resolve_inv (hS hc)
      exact drain_inv _ _ hr hr.chanExp
  | await k =>
    simp only [step, awaitOp]
    split
    · exact h
    · exact resolve_inv ⟨h.kvHist, h.ansHist, h.histCur, h.histUniq, h.idxDuty, h.chanExp⟩
  | cancel q => exact ⟨h.kvHist, h.ansHist, h.histCur, h.histUniq, h.idxDuty, h.chanExp⟩
  | expire d n =>
    refine ⟨h.kvHist, h.ansHist, ?_, h.histUniq, h.idxDuty, ?_⟩
    · intro k v hkv
      rcases h.histCur k v hkv with h1 | ⟨h1, h2⟩
      · exact Or.inl h1
      · exact Or.inr ⟨h1, List.mem_cons_of_mem _ h2⟩
    · intro x hx
      simp only [step] at hx ⊢
      split at hx
      · rcases List.mem_append.mp hx with h1 | h1
        · exact List.mem_cons_of_mem _ (h.chanExp x h1)
        · simp only [List.mem_cons, List.not_mem_nil, or_false] at h1
          rw [h1]; exact List.mem_cons_self
      · exact List.mem_cons_of_mem _ (h.chanExp x hx)
  | pubkey a b c =>
    simp only [step]
    split
    · rename_i x hx
      refine ⟨h.kvHist, ?_, h.histCur, h.histUniq, h.idxDuty, h.chanExp⟩
      intro e he
      rcases List.mem_cons.mp he with h1 | h1
      · rw [h1]; exact h.kvHist _ (lookup_mem hx)
      · exact h.ansHist e h1
    · exact h

theorem run_inv (cfg : Cfg) (ops : List Op) (hs : cfg.checkSlot = true ∨ ∀ op ∈ ops, op.slotOK = true)
    (s : State) (h : Inv cfg s) : Inv cfg (run cfg s ops) := by
  induction ops generalizing s with
  | nil => exact h
  | cons op ops ih =>
    simp only [run]
    refine ih ?_ _ (step_inv cfg s op ?_ h)
    · rcases hs with hs | hs
      · exact Or.inl hs
      · exact Or.inr (fun o ho => hs o (List.mem_cons_of_mem _ ho))
    · rcases hs with hs | hs
      · exact Or.inl hs
      · exact Or.inr (hs op (by simp))

end CharonV.DutyDB
