/-
Helper lemmas for `Props/C15Head.lean`: the head-event layer (`Model/SchedHead.lean`) over the
scheduler model. Part A: the layer projects onto the base model. Part B: what trims do to the event
bookkeeping. Part C: the system invariant `HInv`.
-/
import CharonV.Model.SchedHead
import CharonV.Proofs.Sched

namespace CharonV.Sched

/-! ## A. projection onto the base model -/

theorem trimH_fst (cfg : Cfg) (s : State) (evt : List Nat) (ep : Nat) : (trimH cfg s evt ep).1 = trim s ep := by
  unfold trimH trim
  split <;> rfl

theorem trimBackH_fst (cfg : Cfg) (s : State) (evt : List Nat) (e : Nat) :
    (trimBackH cfg s evt e).1 = trimBack s e := by
  unfold trimBackH trimBack
  split
  · exact trimH_fst _ _ _ _
  · rfl

theorem resolveDutiesH_fst (bn : BN) (cfg : Cfg) (s : State) (evt : List Nat) (slot : Nat) :
    (resolveDutiesH bn cfg s evt slot).1 = resolveDuties bn cfg s slot := by
  unfold resolveDutiesH resolveDuties
  simp only
  cases activeVals (bn.vals s.nv (slot / cfg.spe)) (slot / cfg.spe) with
  | none => rfl
  | some vals =>
    simp only
    by_cases hemp : vals.isEmpty = true
    · simp only [hemp, if_true]
    · simp only [hemp, Bool.false_eq_true, if_false]
      cases (resolveAtt bn cfg { s with nv := s.nv + 1 } slot vals).2 with
      | false => simp only [Bool.not_false, if_true]
      | true =>
        simp only [Bool.not_true, Bool.false_eq_true, if_false]
        cases (resolvePro bn cfg (resolveAtt bn cfg { s with nv := s.nv + 1 } slot vals).1 slot vals).2 with
        | false => simp only [Bool.not_false, if_true]
        | true =>
          simp only [Bool.not_true, Bool.false_eq_true, if_false]
          cases (resolveSync bn cfg (resolvePro bn cfg (resolveAtt bn cfg { s with nv := s.nv + 1 } slot vals).1 slot vals).1 slot vals).2 with
          | false => simp only [Bool.not_false, if_true]
          | true =>
            simp only [Bool.not_true, Bool.false_eq_true, if_false]
            exact trimBackH_fst _ _ _ _

theorem trigLoopH_fst (bn : BN) (cfg : Cfg) (slot : Nat) :
    ∀ (tys : List Nat) (s : State) (evt : List Nat),
      (trigLoopH bn cfg slot tys s evt).1.1 = (trigLoop bn cfg slot tys s).1 ∧
      (trigLoopH bn cfg slot tys s evt).2 = (trigLoop bn cfg slot tys s).2 := by
  intro tys
  induction tys with
  | nil => intro s evt; exact ⟨rfl, rfl⟩
  | cons ty tys ih =>
    intro s evt
    unfold trigLoopH trigLoop
    cases hg : AMap.get? s.duties ⟨slot, ty⟩ with
    | none => exact ih s evt
    | some ds =>
      simp only
      split
      · rw [resolveDutiesH_fst]
        exact ⟨(ih _ _).1, by rw [(ih _ _).2]⟩
      · exact ⟨(ih _ _).1, by rw [(ih _ _).2]⟩

theorem preResolveH_fst (bn : BN) (cfg : Cfg) (s : State) (evt : List Nat) (slot : Nat) :
    (preResolveH bn cfg s evt slot).1 = preResolve bn cfg s slot := by
  unfold preResolveH preResolve
  split
  · exact resolveDutiesH_fst _ _ _ _ _
  · rfl

theorem scheduleSlotH_fst (bn : BN) (cfg : Cfg) (s : State) (evt : List Nat) (slot : Nat) :
    (scheduleSlotH bn cfg s evt slot).1.1 = (scheduleSlot bn cfg s slot).1 ∧
    (scheduleSlotH bn cfg s evt slot).2 = (scheduleSlot bn cfg s slot).2 := by
  unfold scheduleSlotH scheduleSlot
  simp only
  rw [preResolveH_fst]
  exact trigLoopH_fst bn cfg slot _ _ _

theorem reorgH_fst (cfg : Cfg) (s : State) (evt : List Nat) (ep : Nat) : (reorgH cfg s evt ep).1 = reorg cfg s ep := by
  unfold reorgH reorg
  split
  · split
    · simp only [trimH_fst]
    · rfl
  · rfl

theorem fireT_sys (h : HSys) (t : Trigger) : (h.fireT t).sys = h.sys := by
  unfold HSys.fireT; split <;> rfl

theorem foldl_fireT_sys (ts : List Trigger) : ∀ h : HSys, (ts.foldl HSys.fireT h).sys = h.sys := by
  induction ts with
  | nil => intro h; rfl
  | cons t ts ih => intro h; rw [List.foldl_cons, ih, fireT_sys]

theorem fireDue_sys (h : HSys) : h.fireDue.1.sys = h.sys := foldl_fireT_sys _ _

theorem fire_sys (h : HSys) (slot : Nat) : (h.fire slot).1.sys = h.sys := by
  unfold HSys.fire
  split
  · exact fireT_sys _ _
  · rfl

theorem head_sys (cfg : Cfg) (h : HSys) (slot : Nat) : (h.head cfg slot).1.sys = h.sys := by
  unfold HSys.head
  split
  · rfl
  · split
    · rfl
    · split
      · rfl
      · split <;> rfl

theorem tick_sys (bn : BN) (cfg : Cfg) (h : HSys) (slot next' : Nat) :
    (HSys.tick bn cfg h slot next').1.sys = (Sys.tick bn cfg h.sys slot next').1 ∧
    (HSys.tick bn cfg h slot next').2 = (Sys.tick bn cfg h.sys slot next').2 := by
  unfold HSys.tick Sys.tick
  simp only
  obtain ⟨h1, h2⟩ := scheduleSlotH_fst bn cfg h.sys.st h.evt slot
  rw [h1, h2]
  exact ⟨rfl, rfl⟩

theorem pump_sys (bn : BN) (cfg : Cfg) (eager : Bool) :
    ∀ (fuel : Nat) (h : HSys), (HSys.pump bn cfg eager fuel h).1.sys = (Sys.pump bn cfg fuel h.sys).1 := by
  intro fuel
  induction fuel with
  | zero => intro h; rfl
  | succ n ih =>
    intro h
    unfold HSys.pump Sys.pump
    cases hts : tickerStep cfg.slotDur h.sys.now h.sys.next with
    | none => rfl
    | some p =>
      obtain ⟨slot, next'⟩ := p
      simp only
      rw [ih]
      cases eager with
      | true => simp only [if_true]; rw [fireDue_sys, (tick_sys bn cfg h slot next').1]
      | false => simp only [Bool.false_eq_true, if_false]; rw [(tick_sys bn cfg h slot next').1]

theorem adv_sys (bn : BN) (cfg : Cfg) (h : HSys) (d : Nat) (eager : Bool) :
    (HSys.adv bn cfg h d eager).1.sys = (Sys.step bn cfg h.sys (.adv d)).1 := by
  unfold HSys.adv Sys.step
  simp only
  rw [pump_sys]
  cases eager with
  | true => simp only [if_true]; rw [fireDue_sys]
  | false => rfl

theorem reorg_sys (bn : BN) (cfg : Cfg) (h : HSys) (ep : Nat) : (h.reorg cfg ep).sys = (Sys.step bn cfg h.sys (.reorg ep)).1 := by
  unfold HSys.reorg Sys.step
  simp only [reorgH_fst]

/-- Head events, the firing of parked attester triggers and the feature flags' bookkeeping never
influence the scheduler's own state and the triggers it hands out: the base component of a run is
the base model's run on the clock advances and reorg events alone. -/
theorem run_sys (bn : BN) (cfg : Cfg) : ∀ (es : List HEv) (h : HSys),
    (HSys.run bn cfg h es).sys = Sys.run bn cfg h.sys (eraseEv es) := by
  intro es
  induction es with
  | nil => intro h; rfl
  | cons e es ih =>
    intro h
    cases e with
    | adv d eager =>
      show (HSys.run bn cfg (HSys.adv bn cfg h d eager).1 es).sys = Sys.run bn cfg (Sys.step bn cfg h.sys (.adv d)).1 (eraseEv es)
      rw [ih, adv_sys]
    | fire slot =>
      show (HSys.run bn cfg (h.fire slot).1 es).sys = Sys.run bn cfg h.sys (eraseEv es)
      rw [ih, fire_sys]
    | head slot =>
      show (HSys.run bn cfg (h.head cfg slot).1 es).sys = Sys.run bn cfg h.sys (eraseEv es)
      rw [ih, head_sys]
    | reorg ep =>
      show (HSys.run bn cfg (h.reorg cfg ep) es).sys = Sys.run bn cfg (Sys.step bn cfg h.sys (.reorg ep)).1 (eraseEv es)
      rw [ih, reorg_sys bn]

/-- states reachable from the creation of the ticker by clock advances (eager or not), firings of
parked attester triggers, head events and reorg events, in any order. -/
def HReach (bn : BN) (cfg : Cfg) (h : HSys) : Prop := ∃ t0 es, h = HSys.run bn cfg (HSys.init cfg t0) es

theorem HReach.base {bn : BN} {cfg : Cfg} {h : HSys} (hr : HReach bn cfg h) : Reach bn cfg h.sys := by
  obtain ⟨t0, es, rfl⟩ := hr
  exact ⟨t0, eraseEv es, by rw [run_sys]; rfl⟩

/-! ## B. what trims do to the event bookkeeping -/

/-- `evt'` keeps every entry of `evt` except entries removed by a trim (a flag is on) that lie at
least three epochs before `E`. -/
def KeepRel (cfg : Cfg) (E : Nat) (evt evt' : List Nat) : Prop :=
  ∀ S ∈ evt, S ∉ evt' → earlyFetchOn cfg = true ∧ S / cfg.spe + 3 ≤ E

theorem KeepRel.refl (cfg : Cfg) (E : Nat) (evt : List Nat) : KeepRel cfg E evt evt :=
  fun _ hS hn => absurd hS hn

theorem KeepRel.trans {cfg : Cfg} {E : Nat} {a b c : List Nat} (h1 : KeepRel cfg E a b) (h2 : KeepRel cfg E b c) :
    KeepRel cfg E a c := by
  intro S hS hn
  by_cases hb : S ∈ b
  · exact h2 S hb hn
  · exact h1 S hS hb

theorem KeepRel.mono {cfg : Cfg} {E E' : Nat} {a b : List Nat} (h : KeepRel cfg E a b) (hle : E ≤ E') : KeepRel cfg E' a b :=
  fun S hS hn => ⟨(h S hS hn).1, Nat.le_trans (h S hS hn).2 hle⟩

theorem KeepRel.of_subset {cfg : Cfg} {E : Nat} {a b : List Nat} (h : ∀ S ∈ a, S ∈ b) : KeepRel cfg E a b :=
  fun S hS hn => absurd (h S hS) hn

theorem trimEvt_sublist (cfg : Cfg) (evt : List Nat) (ep : Nat) : (trimEvt cfg evt ep).Sublist evt :=
  List.filter_sublist

theorem mem_trimEvt {cfg : Cfg} {evt : List Nat} {ep S : Nat} : S ∈ trimEvt cfg evt ep ↔ S ∈ evt ∧ (ep + 1) * cfg.spe ≤ S := by
  unfold trimEvt
  simp [List.mem_filter]

theorem trimH_sublist (cfg : Cfg) (s : State) (evt : List Nat) (ep : Nat) : (trimH cfg s evt ep).2.Sublist evt := by
  unfold trimH
  split
  · exact List.Sublist.refl _
  · simp only
    split
    · exact trimEvt_sublist _ _ _
    · exact List.Sublist.refl _

/-- what `trimDuties(ep)` removes from the bookkeeping: only with a flag on, only when duties were
filed under `ep`, and only slots before the first slot of epoch `ep + 1`. -/
theorem trimH_removed {cfg : Cfg} {s : State} {evt : List Nat} {ep S : Nat} (hS : S ∈ evt)
    (hn : S ∉ (trimH cfg s evt ep).2) :
    earlyFetchOn cfg = true ∧ (byEp s ep).isEmpty = false ∧ S < (ep + 1) * cfg.spe := by
  unfold trimH at hn
  split at hn
  · exact absurd hS hn
  · rename_i hne
    simp only at hn
    split at hn
    · rename_i hon
      refine ⟨hon, by simpa using hne, ?_⟩
      have : ¬ (S ∈ evt ∧ (ep + 1) * cfg.spe ≤ S) := fun hc => hn (mem_trimEvt.mpr hc)
      have h2 : ¬ (ep + 1) * cfg.spe ≤ S := fun hc => this ⟨hS, hc⟩
      omega
    · exact absurd hS hn

/-- what remains after an effective `trimDuties(ep)` with a flag on. -/
theorem trimH_kept {cfg : Cfg} {s : State} {evt : List Nat} {ep S : Nat} (hon : earlyFetchOn cfg = true)
    (hne : (byEp s ep).isEmpty = false) (hS : S ∈ (trimH cfg s evt ep).2) : S ∈ evt ∧ (ep + 1) * cfg.spe ≤ S := by
  unfold trimH at hS
  simp only [hne, Bool.false_eq_true, if_false, hon, if_true] at hS
  exact mem_trimEvt.mp hS

theorem old_of_lt {spe S e : Nat} (h3 : 3 ≤ e) (h : S < (e - 3 + 1) * spe) : S / spe + 3 ≤ e := by
  have hspe : 0 < spe := by
    rcases Nat.eq_zero_or_pos spe with h0 | h0
    · subst h0; simp at h
    · exact h0
  have : S / spe < e - 3 + 1 := (Nat.div_lt_iff_lt_mul hspe).mpr h
  omega

theorem trimBackH_sublist (cfg : Cfg) (s : State) (evt : List Nat) (e : Nat) : (trimBackH cfg s evt e).2.Sublist evt := by
  unfold trimBackH
  split
  · exact trimH_sublist _ _ _ _
  · exact List.Sublist.refl _

theorem trimBackH_keep (cfg : Cfg) (s : State) (evt : List Nat) (e : Nat) : KeepRel cfg e evt (trimBackH cfg s evt e).2 := by
  intro S hS hn
  unfold trimBackH at hn
  split at hn
  · rename_i h3
    obtain ⟨h1, _, h2⟩ := trimH_removed hS hn
    exact ⟨h1, old_of_lt h3 h2⟩
  · exact absurd hS hn

theorem resolveDutiesH_snd (bn : BN) (cfg : Cfg) (s : State) (evt : List Nat) (slot : Nat) :
    (resolveDutiesH bn cfg s evt slot).2.Sublist evt ∧ KeepRel cfg (slot / cfg.spe) evt (resolveDutiesH bn cfg s evt slot).2 := by
  unfold resolveDutiesH
  simp only
  cases activeVals (bn.vals s.nv (slot / cfg.spe)) (slot / cfg.spe) with
  | none => exact ⟨List.Sublist.refl _, KeepRel.refl _ _ _⟩
  | some vals =>
    simp only
    by_cases hemp : vals.isEmpty = true
    · simp only [hemp, if_true]; exact ⟨List.Sublist.refl _, KeepRel.refl _ _ _⟩
    · simp only [hemp, Bool.false_eq_true, if_false]
      cases (resolveAtt bn cfg { s with nv := s.nv + 1 } slot vals).2 with
      | false => simp only [Bool.not_false, if_true]; exact ⟨List.Sublist.refl _, KeepRel.refl _ _ _⟩
      | true =>
        simp only [Bool.not_true, Bool.false_eq_true, if_false]
        cases (resolvePro bn cfg (resolveAtt bn cfg { s with nv := s.nv + 1 } slot vals).1 slot vals).2 with
        | false => simp only [Bool.not_false, if_true]; exact ⟨List.Sublist.refl _, KeepRel.refl _ _ _⟩
        | true =>
          simp only [Bool.not_true, Bool.false_eq_true, if_false]
          cases (resolveSync bn cfg (resolvePro bn cfg (resolveAtt bn cfg { s with nv := s.nv + 1 } slot vals).1 slot vals).1 slot vals).2 with
          | false => simp only [Bool.not_false, if_true]; exact ⟨List.Sublist.refl _, KeepRel.refl _ _ _⟩
          | true =>
            simp only [Bool.not_true, Bool.false_eq_true, if_false]
            exact ⟨trimBackH_sublist _ _ _ _, trimBackH_keep _ _ _ _⟩

theorem trigLoopH_snd (bn : BN) (cfg : Cfg) (slot : Nat) :
    ∀ (tys : List Nat) (s : State) (evt : List Nat),
      (trigLoopH bn cfg slot tys s evt).1.2.Sublist evt ∧
      KeepRel cfg ((slot + 1) / cfg.spe) evt (trigLoopH bn cfg slot tys s evt).1.2 := by
  intro tys
  induction tys with
  | nil => intro s evt; exact ⟨List.Sublist.refl _, KeepRel.refl _ _ _⟩
  | cons ty tys ih =>
    intro s evt
    unfold trigLoopH
    cases hg : AMap.get? s.duties ⟨slot, ty⟩ with
    | none => exact ih s evt
    | some ds =>
      simp only
      split
      · obtain ⟨h1, h2⟩ := resolveDutiesH_snd bn cfg s evt (slot + 1)
        obtain ⟨h3, h4⟩ := ih (resolveDutiesH bn cfg s evt (slot + 1)).1 (resolveDutiesH bn cfg s evt (slot + 1)).2
        exact ⟨h3.trans h1, h2.trans h4⟩
      · exact ih s evt

theorem preResolveH_snd (bn : BN) (cfg : Cfg) (s : State) (evt : List Nat) (slot : Nat) :
    (preResolveH bn cfg s evt slot).2.Sublist evt ∧ KeepRel cfg (slot / cfg.spe) evt (preResolveH bn cfg s evt slot).2 := by
  unfold preResolveH
  split
  · exact resolveDutiesH_snd _ _ _ _ _
  · exact ⟨List.Sublist.refl _, KeepRel.refl _ _ _⟩

theorem scheduleSlotH_snd (bn : BN) (cfg : Cfg) (s : State) (evt : List Nat) (slot : Nat) :
    (scheduleSlotH bn cfg s evt slot).1.2.Sublist evt ∧
    KeepRel cfg ((slot + 1) / cfg.spe) evt (scheduleSlotH bn cfg s evt slot).1.2 := by
  unfold scheduleSlotH
  simp only
  obtain ⟨h1, h2⟩ := preResolveH_snd bn cfg s evt slot
  obtain ⟨h3, h4⟩ := trigLoopH_snd bn cfg slot allDutyTypes (preResolveH bn cfg s evt slot).1 (preResolveH bn cfg s evt slot).2
  exact ⟨h3.trans h1, (h2.mono (Nat.div_le_div_right (Nat.le_succ slot))).trans h4⟩

theorem reorgH_sublist (cfg : Cfg) (s : State) (evt : List Nat) (ep : Nat) : (reorgH cfg s evt ep).2.Sublist evt := by
  unfold reorgH
  split
  · split
    · exact trimH_sublist _ _ _ _
    · exact List.Sublist.refl _
  · exact List.Sublist.refl _

/-- a reorg event removes entries only if it is effective, and then only slots up to the end of the
epoch that was resolved (this includes the current slot's entry). -/
theorem reorgH_removed {cfg : Cfg} {s : State} {evt : List Nat} {ep S : Nat} (hS : S ∈ evt) (hn : S ∉ (reorgH cfg s evt ep).2) :
    earlyFetchOn cfg = true ∧ cfg.reorgEnabled = true ∧ ep < s.resolvedEpoch ∧ S < (s.resolvedEpoch + 1) * cfg.spe := by
  unfold reorgH at hn
  split at hn
  · rename_i hre
    split at hn
    · rename_i hlt
      obtain ⟨h1, _, h2⟩ := trimH_removed hS hn
      exact ⟨h1, hre, hlt, h2⟩
    · exact absurd hS hn
  · exact absurd hS hn

/-! ## C. counting, and the invariant of the system with head events -/

theorem count_removed {evt evt' : List Nat} (hnd : evt.Nodup) (S : Nat) :
    (removed evt evt').count S = if S ∈ evt ∧ S ∉ evt' then 1 else 0 := by
  unfold removed
  split
  · rename_i h
    have hm : S ∈ evt.filter (fun sl => !evt'.contains sl) := by
      simp [List.mem_filter, h.1, h.2]
    rw [List.Nodup.count (List.Sublist.nodup List.filter_sublist hnd), if_pos hm]
  · rename_i h
    apply List.count_eq_zero_of_not_mem
    intro hm
    simp [List.mem_filter] at hm
    exact h ⟨hm.1, hm.2⟩

theorem evtStore_nodup {evt : List Nat} (h : evt.Nodup) (S : Nat) : (evtStore evt S).Nodup := by
  unfold evtStore
  split
  · exact h
  · rename_i hc
    exact List.nodup_cons.mpr ⟨by simpa using hc, h⟩

theorem mem_evtStore {evt : List Nat} {S x : Nat} : x ∈ evtStore evt S ↔ x = S ∨ x ∈ evt := by
  unfold evtStore
  split
  · rename_i hc
    have : S ∈ evt := by simpa using hc
    constructor
    · exact Or.inr
    · rintro (rfl | h)
      · exact this
      · exact h
  · simp

structure HInv (bn : BN) (cfg : Cfg) (h : HSys) : Prop where
  base : SInv bn cfg h.sys
  evtNodup : h.evt.Nodup
  cnt : ∀ S, (h.fetches.map Fetch.slot).count S + h.stored.count S = h.trimmed.count S + (if S ∈ h.evt then 1 else 0)
  perm : (h.fired.map Fired.trig ++ h.pend).Perm h.sys.hist
  pendW : ∀ t ∈ h.pend, waits cfg t = true
  firedW : ∀ f ∈ h.fired, f.waited = waits cfg f.trig ∧ (f.waited = true → f.trig.nb ≤ f.clock) ∧ f.clock ≤ h.sys.now
  fetchJ : ∀ f ∈ h.fetches, ∀ pk df, (pk, df) ∈ f.defs → Justified bn cfg h.sys.st ⟨f.slot, tyAttester⟩ pk df
  fetchOn : ∀ f ∈ h.fetches, earlyFetchOn cfg = true ∧ cfg.fetchOnlyRegistered = true ∧ f.clock ≤ h.sys.now
  off : earlyFetchOn cfg = false → h.evt = [] ∧ h.pend = [] ∧ h.fetches = [] ∧ h.stored = [] ∧ h.trimmed = [] ∧
    h.fired.map Fired.trig = h.sys.hist

theorem HInv.init (bn : BN) (cfg : Cfg) (t0 : Nat) : HInv bn cfg (HSys.init cfg t0) where
  base := SInv.init bn cfg t0
  evtNodup := by simp [HSys.init]
  cnt := by intro S; simp [HSys.init]
  perm := by simp [HSys.init, Sys.init]
  pendW := by intro t h; simp [HSys.init] at h
  firedW := by intro t h; simp [HSys.init] at h
  fetchJ := by intro t h; simp [HSys.init] at h
  fetchOn := by intro t h; simp [HSys.init] at h
  off := by intro _; simp [HSys.init, Sys.init]

theorem HInv.fireT {bn : BN} {cfg : Cfg} {h : HSys} (hi : HInv bn cfg h) (t : Trigger) : HInv bn cfg (h.fireT t) := by
  unfold HSys.fireT
  split
  · rename_i hg
    simp only [Bool.and_eq_true, List.contains_iff_mem] at hg
    obtain ⟨hmem, hdue⟩ := hg
    have hdue' : t.nb ≤ h.sys.now := by simpa [due] using hdue
    refine ⟨hi.base, evtStore_nodup hi.evtNodup _, ?_, ?_, ?_, ?_, hi.fetchJ, hi.fetchOn, ?_⟩
    · intro S
      simp only
      have := hi.cnt S
      by_cases hc : t.duty.slot ∈ h.evt
      · have hc' : h.evt.contains t.duty.slot = true := by simpa using hc
        simp only [hc', if_true]
        have : (S ∈ evtStore h.evt t.duty.slot) ↔ S ∈ h.evt := by
          rw [mem_evtStore]
          constructor
          · rintro (rfl | h') <;> assumption
          · exact Or.inr
        simp only [this]
        exact hi.cnt S
      · have hc' : h.evt.contains t.duty.slot = false := by simpa using hc
        simp only [hc', Bool.false_eq_true, if_false, List.count_append]
        by_cases hS : S = t.duty.slot
        · subst hS
          have h1 : t.duty.slot ∈ evtStore h.evt t.duty.slot := mem_evtStore.mpr (Or.inl rfl)
          simp only [h1, if_true, List.count_cons_self, List.count_nil]
          simp only [hc, if_false] at this
          omega
        · have h1 : (S ∈ evtStore h.evt t.duty.slot) ↔ S ∈ h.evt := by
            rw [mem_evtStore]
            constructor
            · rintro (h' | h')
              · exact absurd h' hS
              · exact h'
            · exact Or.inr
          have h2 : List.count S [t.duty.slot] = 0 := by
            apply List.count_eq_zero_of_not_mem
            simp [hS]
          simp only [h1, h2]
          omega
    · simp only [List.map_append, List.map_cons, List.map_nil, List.append_assoc, List.singleton_append]
      exact (List.Perm.append_left _ (List.perm_cons_erase hmem).symm).trans hi.perm
    · intro x hx
      exact hi.pendW x (List.mem_of_mem_erase hx)
    · intro f hf
      simp only [List.mem_append, List.mem_singleton] at hf
      rcases hf with hf | rfl
      · exact hi.firedW f hf
      · exact ⟨(hi.pendW t hmem).symm, fun _ => hdue', Nat.le_refl _⟩
    · intro hoff
      have := (hi.off hoff).2.1
      rw [this] at hmem
      cases hmem
  · exact hi

theorem HInv.foldl_fireT {bn : BN} {cfg : Cfg} (ts : List Trigger) : ∀ {h : HSys}, HInv bn cfg h → HInv bn cfg (ts.foldl HSys.fireT h) := by
  induction ts with
  | nil => intro h hi; exact hi
  | cons t ts ih => intro h hi; exact ih (hi.fireT t)

theorem HInv.fireDue {bn : BN} {cfg : Cfg} {h : HSys} (hi : HInv bn cfg h) : HInv bn cfg h.fireDue.1 :=
  HInv.foldl_fireT _ hi

theorem HInv.fire {bn : BN} {cfg : Cfg} {h : HSys} (hi : HInv bn cfg h) (slot : Nat) : HInv bn cfg (h.fire slot).1 := by
  unfold HSys.fire
  split
  · exact hi.fireT _
  · exact hi

theorem HInv.head {bn : BN} {cfg : Cfg} {h : HSys} (hi : HInv bn cfg h) (slot : Nat) : HInv bn cfg (h.head cfg slot).1 := by
  unfold HSys.head
  split
  · exact hi
  · rename_i hreg
    split
    · exact hi
    · rename_i hon
      split
      · exact hi
      · rename_i ds hg
        split
        · exact hi
        · rename_i hc
          have hc' : slot ∉ h.evt := by simpa using hc
          have hon' : earlyFetchOn cfg = true := by simpa using hon
          have hreg' : cfg.fetchOnlyRegistered = true := by simpa using hreg
          refine ⟨hi.base, List.nodup_cons.mpr ⟨hc', hi.evtNodup⟩, ?_, hi.perm, hi.pendW, hi.firedW, ?_, ?_, ?_⟩
          · intro S
            simp only [List.map_append, List.map_cons, List.map_nil, List.count_append, List.mem_cons]
            have := hi.cnt S
            by_cases hS : S = slot
            · subst hS
              simp only [List.count_cons_self, List.count_nil, true_or, if_true]
              simp only [hc', if_false] at this
              omega
            · have h2 : List.count S [slot] = 0 := by
                apply List.count_eq_zero_of_not_mem
                simp [hS]
              simp only [h2, hS, false_or]
              omega
          · intro f hf pk df hm
            simp only [List.mem_append, List.mem_singleton] at hf
            rcases hf with hf | rfl
            · exact hi.fetchJ f hf pk df hm
            · simp only at hm ⊢
              have hds := get?_duties h.sys.st _ _ hg
              rw [← hds] at hm
              exact hi.base.j _ pk df hm
          · intro f hf
            simp only [List.mem_append, List.mem_singleton] at hf
            rcases hf with hf | rfl
            · exact hi.fetchOn f hf
            · exact ⟨hon', hreg', Nat.le_refl _⟩
          · intro hoff
            rw [hoff] at hon'
            cases hon'

/-- bookkeeping of a trim step (`evt'` a sublist of `evt`, removed entries logged). -/
theorem cnt_trim {fs st tr evt evt' : List Nat} (hnd : evt.Nodup) (hsub : evt'.Sublist evt)
    (hc : ∀ S, fs.count S + st.count S = tr.count S + (if S ∈ evt then 1 else 0)) :
    ∀ S, fs.count S + st.count S = (tr ++ removed evt evt').count S + (if S ∈ evt' then 1 else 0) := by
  intro S
  rw [List.count_append, count_removed hnd]
  have := hc S
  by_cases h1 : S ∈ evt'
  · have h2 : S ∈ evt := hsub.subset h1
    simp only [h1, h2, not_true_eq_false, and_false, if_false, if_true] at this ⊢
    omega
  · by_cases h2 : S ∈ evt
    · simp only [h1, h2, not_false_eq_true, and_self, if_true, if_false] at this ⊢
      omega
    · simp only [h1, h2, false_and, if_false] at this ⊢
      omega

theorem HInv.tick {bn : BN} {cfg : Cfg} {h : HSys} (hi : HInv bn cfg h) {slot : Nat} (hs : h.sys.next ≤ slot) :
    HInv bn cfg (HSys.tick bn cfg h slot (slot + 1)).1 := by
  have hsys := (tick_sys bn cfg h slot (slot + 1)).1
  have hbase : SInv bn cfg (HSys.tick bn cfg h slot (slot + 1)).1.sys := by rw [hsys]; exact hi.base.tick hs
  obtain ⟨hsub, _⟩ := scheduleSlotH_snd bn cfg h.sys.st h.evt slot
  obtain ⟨hst, htr⟩ := scheduleSlotH_fst bn cfg h.sys.st h.evt slot
  have hcnt := scheduleSlot_cntLe bn cfg h.sys.st slot
  refine ⟨hbase, ?_, ?_, ?_, ?_, ?_, ?_, ?_, ?_⟩
  · exact List.Sublist.nodup hsub hi.evtNodup
  · exact cnt_trim hi.evtNodup hsub hi.cnt
  · show ((h.fired ++ _).map Fired.trig ++ (h.pend ++ _)).Perm (h.sys.hist ++ _)
    rw [List.map_append, List.map_map]
    have hid : (List.map (Fired.trig ∘ fun t => (⟨t, h.sys.now, false⟩ : Fired))
        (List.filter (fun t => !waits cfg t) (scheduleSlotH bn cfg h.sys.st h.evt slot).2))
        = List.filter (fun t => !waits cfg t) (scheduleSlotH bn cfg h.sys.st h.evt slot).2 := by
      rw [show (Fired.trig ∘ fun t => (⟨t, h.sys.now, false⟩ : Fired)) = id from rfl, List.map_id]
    rw [hid]
    -- (A ++ N) ++ (P ++ W) ~ (A ++ P) ++ (W ++ N)
    have h1 : (List.map Fired.trig h.fired ++ List.filter (fun t => !waits cfg t) (scheduleSlotH bn cfg h.sys.st h.evt slot).2 ++
        (h.pend ++ List.filter (waits cfg) (scheduleSlotH bn cfg h.sys.st h.evt slot).2)).Perm
        ((List.map Fired.trig h.fired ++ h.pend) ++ (List.filter (waits cfg) (scheduleSlotH bn cfg h.sys.st h.evt slot).2 ++
          List.filter (fun t => !waits cfg t) (scheduleSlotH bn cfg h.sys.st h.evt slot).2)) := by
      simp only [List.append_assoc]
      apply List.Perm.append_left
      exact List.perm_append_comm.trans (by rw [List.append_assoc])
    exact h1.trans (List.Perm.append hi.perm (List.filter_append_perm _ _))
  · intro t ht
    rcases List.mem_append.mp ht with ht | ht
    · exact hi.pendW t ht
    · exact (List.mem_filter.mp ht).2
  · intro f hf
    show _ ∧ _ ∧ f.clock ≤ h.sys.now
    rcases List.mem_append.mp hf with hf | hf
    · exact hi.firedW f hf
    · obtain ⟨t, ht, rfl⟩ := List.mem_map.mp hf
      have := (List.mem_filter.mp ht).2
      refine ⟨?_, fun hw => (by cases hw), Nat.le_refl _⟩
      simp only
      cases hw : waits cfg t with
      | true => rw [hw] at this; cases this
      | false => rfl
  · intro f hf pk df hm
    show Justified bn cfg (scheduleSlotH bn cfg h.sys.st h.evt slot).1.1 _ pk df
    rw [hst]
    exact (hi.fetchJ f hf pk df hm).mono hcnt
  · exact hi.fetchOn
  · intro hoff
    obtain ⟨h1, h2, h3, h4, h5, h6⟩ := hi.off hoff
    have he : (scheduleSlotH bn cfg h.sys.st h.evt slot).1.2 = [] := by
      apply List.eq_nil_iff_forall_not_mem.mpr
      intro a ha
      have := hsub.subset ha
      rw [h1] at this
      cases this
    refine ⟨he, ?_, h3, h4, ?_, ?_⟩
    · show h.pend ++ _ = []
      rw [h2, List.nil_append]
      apply List.filter_eq_nil_iff.mpr
      intro t _
      simp [waits, hoff]
    · show h.trimmed ++ removed h.evt _ = []
      rw [h5, h1]
      rfl
    · show (h.fired ++ _).map Fired.trig = h.sys.hist ++ _
      rw [List.map_append, h6, List.map_map]
      congr 1
      rw [show (Fired.trig ∘ fun t => (⟨t, h.sys.now, false⟩ : Fired)) = id from rfl, List.map_id]
      apply List.filter_eq_self.mpr
      intro t _
      simp [waits, hoff]

theorem HInv.pump {bn : BN} {cfg : Cfg} (hdur : 0 < cfg.slotDur) (eager : Bool) :
    ∀ (fuel : Nat) (h : HSys), HInv bn cfg h → HInv bn cfg (HSys.pump bn cfg eager fuel h).1 := by
  intro fuel
  induction fuel with
  | zero => intro h hi; exact hi
  | succ n ih =>
    intro h hi
    unfold HSys.pump
    cases hts : tickerStep cfg.slotDur h.sys.now h.sys.next with
    | none => exact hi
    | some p =>
      obtain ⟨slot, next'⟩ := p
      obtain ⟨h1, rfl⟩ := tickerStep_some hdur hts
      simp only
      apply ih
      cases eager with
      | true => exact (hi.tick h1).fireDue
      | false => exact hi.tick h1

theorem HInv.clock {bn : BN} {cfg : Cfg} {h : HSys} (hi : HInv bn cfg h) (d : Nat) :
    HInv bn cfg { h with sys := { h.sys with now := h.sys.now + d } } :=
  ⟨⟨hi.base.j, hi.base.histJ, hi.base.histLt, hi.base.histNb, hi.base.nodup, hi.base.tickedLt, hi.base.tickedSorted, hi.base.histTicked⟩,
    hi.evtNodup, hi.cnt, hi.perm, hi.pendW,
    fun f hf => ⟨(hi.firedW f hf).1, (hi.firedW f hf).2.1, Nat.le_trans (hi.firedW f hf).2.2 (Nat.le_add_right _ _)⟩,
    hi.fetchJ, fun f hf => ⟨(hi.fetchOn f hf).1, (hi.fetchOn f hf).2.1, Nat.le_trans (hi.fetchOn f hf).2.2 (Nat.le_add_right _ _)⟩, hi.off⟩

theorem HInv.adv {bn : BN} {cfg : Cfg} (hdur : 0 < cfg.slotDur) {h : HSys} (hi : HInv bn cfg h) (d : Nat) (eager : Bool) :
    HInv bn cfg (HSys.adv bn cfg h d eager).1 := by
  unfold HSys.adv
  simp only
  apply HInv.pump hdur
  cases eager with
  | true => exact (hi.clock d).fireDue
  | false => exact hi.clock d

theorem HInv.reorg {bn : BN} {cfg : Cfg} (hdur : 0 < cfg.slotDur) {h : HSys} (hi : HInv bn cfg h) (ep : Nat) : HInv bn cfg (h.reorg cfg ep) := by
  have hsys : (h.reorg cfg ep).sys = (Sys.step bn cfg h.sys (.reorg ep)).1 := reorg_sys bn cfg h ep
  have hsub := reorgH_sublist cfg h.sys.st h.evt ep
  have hb : SInv bn cfg (h.reorg cfg ep).sys := by rw [hsys]; exact hi.base.step hdur (.reorg ep)
  refine ⟨hb, ?_, ?_, hi.perm, hi.pendW, hi.firedW, ?_, hi.fetchOn, ?_⟩
  · exact List.Sublist.nodup hsub hi.evtNodup
  · exact cnt_trim hi.evtNodup hsub hi.cnt
  · intro f hf pk df hm
    show Justified bn cfg (reorgH cfg h.sys.st h.evt ep).1 _ pk df
    rw [reorgH_fst]
    exact (hi.fetchJ f hf pk df hm).mono (reorg_cnt cfg h.sys.st ep)
  · intro hoff
    obtain ⟨h1, h2, h3, h4, h5, h6⟩ := hi.off hoff
    have he : (reorgH cfg h.sys.st h.evt ep).2 = [] := by
      apply List.eq_nil_iff_forall_not_mem.mpr
      intro a ha
      have := hsub.subset ha
      rw [h1] at this
      cases this
    refine ⟨he, h2, h3, h4, ?_, h6⟩
    show h.trimmed ++ removed h.evt _ = []
    rw [h5, h1]
    rfl

theorem HInv.step {bn : BN} {cfg : Cfg} (hdur : 0 < cfg.slotDur) {h : HSys} (hi : HInv bn cfg h) (e : HEv) :
    HInv bn cfg (HSys.step bn cfg h e) := by
  cases e with
  | adv d eager => exact hi.adv hdur d eager
  | fire slot => exact hi.fire slot
  | head slot => exact hi.head slot
  | reorg ep => exact hi.reorg hdur ep

theorem HInv.run {bn : BN} {cfg : Cfg} (hdur : 0 < cfg.slotDur) :
    ∀ (es : List HEv) (h : HSys), HInv bn cfg h → HInv bn cfg (HSys.run bn cfg h es) := by
  intro es
  induction es with
  | nil => intro h hi; exact hi
  | cons e es ih => intro h hi; exact ih _ (hi.step hdur e)

theorem hreach_inv {bn : BN} {cfg : Cfg} (hdur : 0 < cfg.slotDur) {h : HSys} (hr : HReach bn cfg h) : HInv bn cfg h := by
  obtain ⟨t0, es, rfl⟩ := hr
  exact HInv.run hdur es _ (HInv.init bn cfg t0)

/-! ## D. parked triggers that are due; how long entries are kept -/

theorem nodup_of_map {α β : Type} (f : α → β) {l : List α} (h : (l.map f).Nodup) : l.Nodup :=
  List.Pairwise.of_map f (fun _ _ hab he => hab (by rw [he])) h

theorem HInv.pendNodup {bn : BN} {cfg : Cfg} {h : HSys} (hi : HInv bn cfg h) : h.pend.Nodup := by
  have h1 : h.sys.hist.Nodup := nodup_of_map _ hi.base.nodup
  have h2 := (hi.perm.nodup_iff).mpr h1
  exact (List.nodup_append.mp h2).2.1

theorem HInv.firedNodup {bn : BN} {cfg : Cfg} {h : HSys} (hi : HInv bn cfg h) :
    ((h.fired.map Fired.trig ++ h.pend).map (fun t => t.duty)).Nodup :=
  ((hi.perm.map _).nodup_iff).mpr hi.base.nodup

def NoDue (h : HSys) : Prop := ∀ t ∈ h.pend, due h.sys.now t = false

theorem fireT_pend_subset (h : HSys) (t x : Trigger) (hx : x ∈ (h.fireT t).pend) : x ∈ h.pend := by
  unfold HSys.fireT at hx
  split at hx
  · exact List.mem_of_mem_erase hx
  · exact hx

theorem foldl_fireT_pend_subset (ts : List Trigger) : ∀ (h : HSys) (x : Trigger), x ∈ (ts.foldl HSys.fireT h).pend → x ∈ h.pend := by
  induction ts with
  | nil => intro h x hx; exact hx
  | cons t ts ih => intro h x hx; exact fireT_pend_subset h t x (ih _ x hx)

theorem fireT_pend_nodup (h : HSys) (t : Trigger) (hn : h.pend.Nodup) : (h.fireT t).pend.Nodup := by
  unfold HSys.fireT
  split
  · exact hn.erase _
  · exact hn

theorem foldl_fireT_removes (ts : List Trigger) : ∀ (h : HSys), h.pend.Nodup → ∀ t ∈ ts, due h.sys.now t = true →
    t ∉ (ts.foldl HSys.fireT h).pend := by
  induction ts with
  | nil => intro h _ t ht; cases ht
  | cons a ts ih =>
    intro h hn t ht hd
    rw [List.foldl_cons]
    rcases List.mem_cons.mp ht with rfl | ht
    · intro hc
      have h1 := foldl_fireT_pend_subset ts _ _ hc
      unfold HSys.fireT at h1
      split at h1
      · exact absurd h1 (by rw [hn.mem_erase_iff]; simp)
      · rename_i hg
        simp only [Bool.and_eq_true, List.contains_iff_mem, not_and] at hg
        exact absurd hd (hg h1)
    · exact ih _ (fireT_pend_nodup h a hn) t ht (by rw [fireT_sys]; exact hd)

theorem fireDue_noDue {bn : BN} {cfg : Cfg} {h : HSys} (hi : HInv bn cfg h) : NoDue h.fireDue.1 := by
  intro t ht
  unfold HSys.fireDue at ht
  simp only at ht
  rw [fireDue_sys]
  cases hd : due h.sys.now t with
  | false => rfl
  | true =>
    have h1 := foldl_fireT_pend_subset _ _ _ ht
    have h2 : t ∈ h.pend.filter (due h.sys.now) := List.mem_filter.mpr ⟨h1, hd⟩
    exact absurd ht (foldl_fireT_removes _ h hi.pendNodup t h2 hd)

theorem pump_noDue {bn : BN} {cfg : Cfg} (hdur : 0 < cfg.slotDur) :
    ∀ (fuel : Nat) (h : HSys), HInv bn cfg h → NoDue h → NoDue (HSys.pump bn cfg true fuel h).1 := by
  intro fuel
  induction fuel with
  | zero => intro h _ hn; exact hn
  | succ n ih =>
    intro h hi hn
    unfold HSys.pump
    cases hts : tickerStep cfg.slotDur h.sys.now h.sys.next with
    | none => exact hn
    | some p =>
      obtain ⟨slot, next'⟩ := p
      obtain ⟨h1, rfl⟩ := tickerStep_some hdur hts
      simp only [if_true]
      exact ih _ (hi.tick h1).fireDue (fireDue_noDue (hi.tick h1))

theorem adv_noDue {bn : BN} {cfg : Cfg} (hdur : 0 < cfg.slotDur) {h : HSys} (hi : HInv bn cfg h) (d : Nat) :
    NoDue (HSys.adv bn cfg h d true).1 := by
  unfold HSys.adv
  simp only [if_true]
  exact pump_noDue hdur 3 _ (hi.clock d).fireDue (fireDue_noDue (hi.clock d))

theorem tickerStep_started {dur now next s n' : Nat} (h : tickerStep dur now next = some (s, n')) : s * dur ≤ now := by
  unfold tickerStep at h
  split at h
  · cases h
  · rename_i hlt
    simp only [Option.some.injEq, Prod.mk.injEq] at h
    obtain ⟨h1, _⟩ := h
    split at h1
    · rw [← h1]; exact Nat.div_mul_le_self now dur
    · rw [← h1]; omega

theorem fireT_evt_subset (h : HSys) (t : Trigger) {S : Nat} (hS : S ∈ h.evt) : S ∈ (h.fireT t).evt := by
  unfold HSys.fireT
  split
  · exact mem_evtStore.mpr (Or.inr hS)
  · exact hS

theorem foldl_fireT_evt_subset (ts : List Trigger) : ∀ (h : HSys) {S : Nat}, S ∈ h.evt → S ∈ (ts.foldl HSys.fireT h).evt := by
  induction ts with
  | nil => intro h S hS; exact hS
  | cons t ts ih => intro h S hS; exact ih _ (fireT_evt_subset h t hS)

theorem pump_keep (bn : BN) (cfg : Cfg) (hdur : 0 < cfg.slotDur) (eager : Bool) :
    ∀ (fuel : Nat) (h : HSys),
      KeepRel cfg ((h.sys.now / cfg.slotDur + 1) / cfg.spe) h.evt (HSys.pump bn cfg eager fuel h).1.evt := by
  intro fuel
  induction fuel with
  | zero => intro h; exact KeepRel.refl _ _ _
  | succ n ih =>
    intro h
    unfold HSys.pump
    cases hts : tickerStep cfg.slotDur h.sys.now h.sys.next with
    | none => exact KeepRel.refl _ _ _
    | some p =>
      obtain ⟨slot, next'⟩ := p
      simp only
      have hst := tickerStep_started hts
      have hle : slot ≤ h.sys.now / cfg.slotDur := (Nat.le_div_iff_mul_le hdur).mpr hst
      have hk1 : KeepRel cfg ((h.sys.now / cfg.slotDur + 1) / cfg.spe) h.evt (HSys.tick bn cfg h slot next').1.evt :=
        (scheduleSlotH_snd bn cfg h.sys.st h.evt slot).2.mono (Nat.div_le_div_right (by omega))
      cases eager with
      | true =>
        simp only [if_true]
        have hk2 : KeepRel cfg ((h.sys.now / cfg.slotDur + 1) / cfg.spe) (HSys.tick bn cfg h slot next').1.evt
            (HSys.tick bn cfg h slot next').1.fireDue.1.evt :=
          KeepRel.of_subset (fun S hS => foldl_fireT_evt_subset _ _ hS)
        have hnow : (HSys.tick bn cfg h slot next').1.fireDue.1.sys.now = h.sys.now := by rw [fireDue_sys]; rfl
        have := ih (HSys.tick bn cfg h slot next').1.fireDue.1
        rw [hnow] at this
        exact (hk1.trans hk2).trans this
      | false =>
        simp only [Bool.false_eq_true, if_false]
        have hnow : (HSys.tick bn cfg h slot next').1.sys.now = h.sys.now := rfl
        have := ih (HSys.tick bn cfg h slot next').1
        rw [hnow] at this
        exact hk1.trans this

theorem adv_keep (bn : BN) (cfg : Cfg) (hdur : 0 < cfg.slotDur) (h : HSys) (d : Nat) (eager : Bool) :
    KeepRel cfg (((h.sys.now + d) / cfg.slotDur + 1) / cfg.spe) h.evt (HSys.adv bn cfg h d eager).1.evt := by
  unfold HSys.adv
  simp only
  cases eager with
  | true =>
    simp only [if_true]
    have h1 : KeepRel cfg (((h.sys.now + d) / cfg.slotDur + 1) / cfg.spe) h.evt
        (HSys.fireDue { h with sys := { h.sys with now := h.sys.now + d } }).1.evt :=
      KeepRel.of_subset (fun S hS => foldl_fireT_evt_subset _ _ hS)
    have := pump_keep bn cfg hdur true 3 (HSys.fireDue { h with sys := { h.sys with now := h.sys.now + d } }).1
    rw [fireDue_sys] at this
    exact h1.trans this
  | false =>
    simp only [Bool.false_eq_true, if_false]
    exact pump_keep bn cfg hdur false 3 { h with sys := { h.sys with now := h.sys.now + d } }

theorem head_evt_subset (cfg : Cfg) (h : HSys) (slot : Nat) {S : Nat} (hS : S ∈ h.evt) : S ∈ (h.head cfg slot).1.evt := by
  unfold HSys.head
  split
  · exact hS
  · split
    · exact hS
    · split
      · exact hS
      · split
        · exact hS
        · exact List.mem_cons_of_mem _ hS

theorem fire_evt_subset (h : HSys) (slot : Nat) {S : Nat} (hS : S ∈ h.evt) : S ∈ (h.fire slot).1.evt := by
  unfold HSys.fire
  split
  · exact fireT_evt_subset _ _ hS
  · exact hS

theorem trimBackH_kept {cfg : Cfg} {s : State} {evt : List Nat} {e S : Nat} (h3 : 3 ≤ e) (hon : earlyFetchOn cfg = true)
    (hne : (byEp s (e - 3)).isEmpty = false) (hS : S ∈ (trimBackH cfg s evt e).2) : S ∈ evt ∧ (e - 2) * cfg.spe ≤ S := by
  unfold trimBackH at hS
  simp only [h3, if_true] at hS
  have := trimH_kept hon hne hS
  have he : e - 3 + 1 = e - 2 := by omega
  rw [he] at this
  exact this

end CharonV.Sched
