/-
Helper lemmas for C09 (`CharonV.Model.SigAgg`).
-/
import CharonV.Model.SigAgg

namespace CharonV.SigAgg

open CharonV.Admit (Obj VerifyFn Validator Key Sig ShareIdx Domain Epoch Root domainOf)

/-- the aggregate verifies under group key `gk` for the object's own domain, epoch and signing
root, and is not the zero signature. -/
def GroupValid (verify : VerifyFn) (gk : Option Key) (o : Obj) (σ : Sig) : Prop :=
  ∃ k d e r, gk = some k ∧ domainOf o.ty = some d ∧ o.epoch = some e ∧ o.root = some r ∧ σ ≠ 0 ∧
    verify k d e r σ = true

theorem verifyAgg_none {verify : VerifyFn} {gk : Option Key} {o : Obj} {σ : Sig} :
    verifyAgg verify gk o σ = none ↔ GroupValid verify gk o σ := by
  unfold verifyAgg GroupValid
  cases gk with
  | none => simp
  | some k =>
    cases hd : domainOf o.ty with
    | none => simp
    | some d =>
      cases he : o.epoch with
      | none => simp
      | some e =>
        cases hr : o.root with
        | none => simp
        | some r =>
          by_cases hz : σ = 0
          · simp [hz]
          · by_cases hv : verify k d e r σ = true
            · simp [hz, hv]
            · simp [hz, hv]

theorem mem_lastWins {l : List (ShareIdx × Sig)} {e : ShareIdx × Sig} : e ∈ lastWins l → e ∈ l := by
  induction l with
  | nil => simp [lastWins]
  | cons x xs ih =>
    simp only [lastWins]
    split
    · intro h; exact List.mem_cons_of_mem _ (ih h)
    · intro h
      rcases List.mem_cons.mp h with h | h
      · exact h ▸ List.mem_cons_self
      · exact List.mem_cons_of_mem _ (ih h)

theorem lastWins_length_le (l : List (ShareIdx × Sig)) : (lastWins l).length ≤ l.length := by
  induction l with
  | nil => simp [lastWins]
  | cons x xs ih =>
    simp only [lastWins]
    split
    · simp only [List.length_cons]; omega
    · simp only [List.length_cons]; omega

/-- a repeated share index makes the map strictly smaller than the list of partials. -/
theorem lastWins_length_lt {l : List (ShareIdx × Sig)} (h : ¬ (l.map (·.1)).Nodup) :
    (lastWins l).length < l.length := by
  induction l with
  | nil => simp at h
  | cons x xs ih =>
    simp only [lastWins]
    by_cases hany : xs.any (·.1 = x.1)
    · simp only [hany, if_true, List.length_cons]
      have := lastWins_length_le xs
      omega
    · simp only [hany, List.length_cons]
      have hnot : x.1 ∉ xs.map (·.1) := by
        intro hm
        obtain ⟨y, hy, hyx⟩ := List.mem_map.mp hm
        apply hany
        exact List.any_eq_true.mpr ⟨y, hy, by simpa using hyx⟩
      have hnd : ¬ (xs.map (·.1)).Nodup := by
        intro hn
        apply h
        simp only [List.map_cons]
        exact List.nodup_cons.mpr ⟨hnot, hn⟩
      have := ih hnd
      simp only [Bool.false_eq_true, if_false, List.length_cons]
      omega

theorem mem_sigMap {parts : List Par} {e : ShareIdx × Sig} (h : e ∈ sigMap parts) :
    ∃ p ∈ parts, p.idx = e.1 ∧ p.obj.sig = e.2 := by
  obtain ⟨p, hp, rfl⟩ := List.mem_map.mp (mem_lastWins h)
  exact ⟨p, hp, rfl, rfl⟩

theorem carrierScan_mem {parts : List Par} {c : Par} (h : carrierScan parts = some c) : c ∈ parts := by
  induction parts with
  | nil => simp [carrierScan] at h
  | cons p ps ih =>
    simp only [carrierScan] at h
    split at h
    · cases h
    · split at h
      · cases h; exact List.mem_cons_self
      · exact List.mem_cons_of_mem _ (ih h)

theorem carrier_mem {parts : List Par} {c : Par} (h : carrier parts = some c) : c ∈ parts := by
  unfold carrier at h
  cases hs : carrierScan parts with
  | some p => rw [hs] at h; cases h; exact carrierScan_mem hs
  | none =>
    rw [hs] at h
    cases parts with
    | nil => simp at h
    | cons p ps => simp at h; exact h ▸ List.mem_cons_self

/-- what a successful `aggregate` went through. -/
theorem aggregate_ok {thr : Nat} {combine : CombineFn} {verify : VerifyFn} {gk : Option Key}
    {parts : List Par} {s : Signed} (h : aggregate thr combine verify gk parts = .ok s) :
    thr ≤ parts.length ∧ (∀ p ∈ parts, p.sigLenOk = true) ∧ thr ≤ (sigMap parts).length ∧
      combine (sigMap parts) = some s.sig ∧
      (∃ c, carrier parts = some c ∧ c.setOk = true ∧ s.content = c.obj) ∧
      GroupValid verify gk s.content s.sig := by
  unfold aggregate at h
  by_cases h1 : parts.length < thr
  · simp [h1] at h
  · simp only [h1, if_false] at h
    by_cases h2 : parts.any (fun p => !p.sigLenOk) = true
    · simp [h2] at h
    · simp only [h2, Bool.false_eq_true, if_false] at h
      by_cases h3 : (sigMap parts).length < thr
      · simp [h3] at h
      · simp only [h3, if_false] at h
        cases hc : combine (sigMap parts) with
        | none => simp [hc] at h
        | some σ =>
          simp only [hc] at h
          cases hcar : carrier parts with
          | none => simp [hcar] at h
          | some c =>
            simp only [hcar] at h
            cases hset : c.setOk with
            | false => simp [hset] at h
            | true =>
              simp only [hset, Bool.not_true, Bool.false_eq_true, if_false] at h
              cases hv : verifyAgg verify gk c.obj σ with
              | some e => simp [hv] at h
              | none =>
                simp only [hv] at h
                have hs : s = { content := c.obj, sig := σ } := by
                  cases h; rfl
                subst hs
                refine ⟨by omega, ?_, by omega, rfl, ⟨c, rfl, hset, rfl⟩, verifyAgg_none.mp hv⟩
                intro p hp
                cases hl : p.sigLenOk with
                | true => rfl
                | false =>
                  exfalso; apply h2
                  exact List.any_eq_true.mpr ⟨p, hp, by simp [hl]⟩

theorem verifyAgg_ne_subErr {verify : VerifyFn} {gk : Option Key} {o : Obj} {σ : Sig} {e : Err}
    (h : verifyAgg verify gk o σ = some e) : e ≠ .subErr := by
  unfold verifyAgg at h
  cases gk with
  | none => simp at h; subst h; simp
  | some k =>
    cases hd : domainOf o.ty with
    | none => simp [hd] at h; subst h; simp
    | some d =>
      cases he : o.epoch with
      | none => simp [hd, he] at h; subst h; simp
      | some ep =>
        cases hr : o.root with
        | none => simp [hd, he, hr] at h; subst h; simp
        | some r =>
          simp only [hd, he, hr] at h
          by_cases hz : σ = 0
          · simp [hz] at h; subst h; simp
          · by_cases hv : verify k d ep r σ = true
            · simp [hz, hv] at h
            · simp [hz, hv] at h; subst h; simp

/-- an error produced by `aggregate` is never `subErr`. -/
theorem aggregate_err_ne_subErr {thr : Nat} {combine : CombineFn} {verify : VerifyFn} {gk : Option Key}
    {parts : List Par} {x : Err} (h : aggregate thr combine verify gk parts = .error x) :
    x ≠ .subErr := by
  unfold aggregate at h
  by_cases h1 : parts.length < thr
  · simp [h1] at h; subst h; simp
  · simp only [h1, if_false] at h
    by_cases h2 : parts.any (fun p => !p.sigLenOk) = true
    · simp [h2] at h; subst h; simp
    · simp only [h2, Bool.false_eq_true, if_false] at h
      by_cases h3 : (sigMap parts).length < thr
      · simp [h3] at h; subst h; simp
      · simp only [h3, if_false] at h
        cases hc : combine (sigMap parts) with
        | none => simp [hc] at h; subst h; simp
        | some σ =>
          simp only [hc] at h
          cases hcar : carrier parts with
          | none => simp [hcar] at h; subst h; simp
          | some c =>
            simp only [hcar] at h
            cases hset : c.setOk with
            | false => simp [hset] at h; subst h; simp
            | true =>
              simp only [hset, Bool.not_true, Bool.false_eq_true, if_false] at h
              cases hv : verifyAgg verify gk c.obj σ with
              | some e =>
                simp only [hv] at h
                cases h
                exact verifyAgg_ne_subErr hv
              | none => simp [hv] at h

theorem firstErr_none {l : List (Except Err Signed)} :
    firstErr l = none ↔ ∀ x ∈ l, ∃ s, x = .ok s := by
  induction l with
  | nil => simp [firstErr]
  | cons x xs ih =>
    cases x with
    | error e => simp [firstErr]
    | ok s => simp [firstErr, ih]

theorem firstErr_some_of_mem {l : List (Except Err Signed)} {e : Err} (h : Except.error e ∈ l) :
    ∃ e', firstErr l = some e' := by
  cases hf : firstErr l with
  | some e' => exact ⟨e', rfl⟩
  | none =>
    obtain ⟨s, hs⟩ := firstErr_none.mp hf _ h
    cases hs

theorem mem_okOnes {l : List (Validator × Except Err Signed)} {v : Validator} {s : Signed} :
    (v, s) ∈ okOnes l ↔ (v, Except.ok s) ∈ l := by
  induction l with
  | nil => simp [okOnes]
  | cons x xs ih =>
    obtain ⟨w, r⟩ := x
    cases r with
    | error e => simp [okOnes, ih]
    | ok t =>
      simp only [okOnes, List.mem_cons, ih, Prod.mk.injEq]
      constructor
      · rintro (⟨h1, h2⟩ | h)
        · exact Or.inl ⟨h1, by rw [h2]⟩
        · exact Or.inr h
      · rintro (⟨h1, h2⟩ | h)
        · exact Or.inl ⟨h1, by cases h2; rfl⟩
        · exact Or.inr h

section All
variable {thr : Nat} {combine : CombineFn} {verify : VerifyFn} {gkOf : Validator → Option Key}
  {nsub : Nat} {ord : List (Validator × List Par) → List (Validator × List Par)}
  {failAt : Option Nat} {set : List (Validator × List Par)}

/-- a subscriber call implies that every validator of the input aggregated successfully, and its
payload is exactly the list of those results. -/
theorem aggregateAll_calls {c : Call}
    (h : c ∈ (aggregateAll thr combine verify gkOf nsub ord failAt set).2) :
    (∀ e ∈ set, ∃ s, aggregate thr combine verify (gkOf e.1) e.2 = .ok s) ∧
      c.sub < nsub ∧
      c.out = okOnes (set.map fun e => (e.1, aggregate thr combine verify (gkOf e.1) e.2)) := by
  unfold aggregateAll at h
  by_cases hemp : set.isEmpty = true
  · simp [hemp] at h
  · simp only [hemp, Bool.false_eq_true, if_false] at h
    cases h1 : firstErr ((ord set).map fun e => aggregate thr combine verify (gkOf e.1) e.2) with
    | some e => simp [h1] at h
    | none =>
      simp only [h1] at h
      cases h2 : firstErr (set.map fun e => aggregate thr combine verify (gkOf e.1) e.2) with
      | some e => simp [h2] at h
      | none =>
        simp only [h2] at h
        have hall : ∀ e ∈ set, ∃ s, aggregate thr combine verify (gkOf e.1) e.2 = .ok s := by
          intro e he
          exact firstErr_none.mp h2 _ (List.mem_map_of_mem (f := fun e => aggregate thr combine verify (gkOf e.1) e.2) he)
        have hmem : c ∈ (List.range nsub).map fun s => ({ sub := s, out := okOnes (set.map fun e => (e.1, aggregate thr combine verify (gkOf e.1) e.2)) } : Call) := by
          cases failAt with
          | none => exact h
          | some k =>
            simp only at h
            split at h
            · exact List.mem_of_mem_take h
            · exact h
        obtain ⟨s, hs, rfl⟩ := List.mem_map.mp hmem
        exact ⟨hall, List.mem_range.mp hs, rfl⟩

/-- one failing validator: no subscriber call and an error, for every iteration order. -/
theorem aggregateAll_reject {e : Validator × List Par} (he : e ∈ set) {err : Err}
    (hbad : aggregate thr combine verify (gkOf e.1) e.2 = .error err) :
    (aggregateAll thr combine verify gkOf nsub ord failAt set).2 = [] ∧
    ∃ err', (aggregateAll thr combine verify gkOf nsub ord failAt set).1 = some err' ∧ err' ≠ .subErr := by
  have hnil : (aggregateAll thr combine verify gkOf nsub ord failAt set).2 = [] := by
    apply List.eq_nil_iff_forall_not_mem.mpr
    intro c hc
    obtain ⟨s, hs⟩ := (aggregateAll_calls hc).1 e he
    rw [hbad] at hs; cases hs
  refine ⟨hnil, ?_⟩
  have hne : set.isEmpty = false := by
    cases set with
    | nil => cases he
    | cons _ _ => rfl
  have hagg : ∀ (gk : Option Key) (ps : List Par) (x : Err),
      aggregate thr combine verify gk ps = .error x → x ≠ .subErr :=
    fun gk ps x hx => aggregate_err_ne_subErr hx
  have hfe : ∀ (l : List (Validator × List Par)) (x : Err),
      firstErr (l.map fun e => aggregate thr combine verify (gkOf e.1) e.2) = some x → x ≠ .subErr := by
    intro l x hx
    induction l with
    | nil => simp [firstErr] at hx
    | cons a as ih =>
      simp only [List.map_cons] at hx
      cases ha : aggregate thr combine verify (gkOf a.1) a.2 with
      | error y =>
        rw [ha] at hx; simp only [firstErr, Option.some.injEq] at hx
        subst hx; exact hagg _ _ _ ha
      | ok s => rw [ha] at hx; simp only [firstErr] at hx; exact ih hx
  unfold aggregateAll
  simp only [hne, Bool.false_eq_true, if_false]
  cases h1 : firstErr ((ord set).map fun e => aggregate thr combine verify (gkOf e.1) e.2) with
  | some x => exact ⟨x, rfl, hfe _ _ h1⟩
  | none =>
    simp only
    obtain ⟨x, hx⟩ := firstErr_some_of_mem (l := set.map fun e => aggregate thr combine verify (gkOf e.1) e.2)
      (e := err) (by rw [← hbad]; exact List.mem_map_of_mem (f := fun e => aggregate thr combine verify (gkOf e.1) e.2) he)
    rw [hx]
    exact ⟨x, rfl, hfe _ _ hx⟩

end All

end CharonV.SigAgg
