/-
Lemmas about the helper functions of the QBFT implementation model (`CharonV.Model.Qbft`):
what `filterMsgs`, `getSingleJustifiedPrPv`, `containsJustifiedQrc`, `getFPlus1RoundChanges`,
`nextMinRound`, `getJustifiedQrc`, `flatten` guarantee about their results.
-/
import CharonV.Model.Qbft

namespace CharonV.Qbft

/-! ### filterMsgs -/

theorem optNe_false {o : Option Nat} {x : Nat} (h : optNe o x = false) : ∀ v, o = some v → x = v := by
  intro v hv; subst hv
  simpa [optNe] using h

theorem filterMsgs_go_sound (typ round : Nat) (value pr pv : Option Nat) :
    ∀ (msgs : List Core) (seen : List Nat) (c : Core),
      c ∈ filterMsgs.go typ round value pr pv seen msgs →
      c ∈ msgs ∧ c.typ = typ ∧ c.round = round ∧ (∀ v, value = some v → c.value = v) ∧
      (∀ v, pr = some v → c.pr = v) ∧ (∀ v, pv = some v → c.pv = v) ∧ c.src ∉ seen := by
  intro msgs
  induction msgs with
  | nil => intro seen c h; simp [filterMsgs.go] at h
  | cons m ms ih =>
    intro seen c h
    unfold filterMsgs.go at h
    split at h
    · have := ih seen c h; exact ⟨List.mem_cons_of_mem _ this.1, this.2⟩
    · rename_i h1
      split at h
      · have := ih seen c h; exact ⟨List.mem_cons_of_mem _ this.1, this.2⟩
      · rename_i h2
        split at h
        · have := ih seen c h; exact ⟨List.mem_cons_of_mem _ this.1, this.2⟩
        · rename_i h3
          split at h
          · have := ih seen c h; exact ⟨List.mem_cons_of_mem _ this.1, this.2⟩
          · rename_i h4
            split at h
            · have := ih seen c h; exact ⟨List.mem_cons_of_mem _ this.1, this.2⟩
            · rename_i h5
              rcases List.mem_cons.mp h with rfl | h'
              · have h1' : c.typ = typ ∧ c.round = round := by
                  simp only [not_or, Decidable.not_not] at h1; exact h1
                refine ⟨List.mem_cons_self, h1'.1, h1'.2, ?_, ?_, ?_, h5⟩
                · exact optNe_false (by simpa using h2)
                · exact optNe_false (by simpa using h4)
                · exact optNe_false (by simpa using h3)
              · have := ih (m.src :: seen) c h'
                refine ⟨List.mem_cons_of_mem _ this.1, this.2.1, this.2.2.1, this.2.2.2.1,
                  this.2.2.2.2.1, this.2.2.2.2.2.1, ?_⟩
                intro hs; exact this.2.2.2.2.2.2 (List.mem_cons_of_mem _ hs)

theorem filterMsgs_go_nodup (typ round : Nat) (value pr pv : Option Nat) :
    ∀ (msgs : List Core) (seen : List Nat),
      ((filterMsgs.go typ round value pr pv seen msgs).map (·.src)).Nodup := by
  intro msgs
  induction msgs with
  | nil => intro seen; simp [filterMsgs.go]
  | cons m ms ih =>
    intro seen
    unfold filterMsgs.go
    split
    · exact ih seen
    · split
      · exact ih seen
      · split
        · exact ih seen
        · split
          · exact ih seen
          · split
            · exact ih seen
            · simp only [List.map_cons, List.nodup_cons]
              refine ⟨?_, ih _⟩
              intro hmem
              obtain ⟨c, hc, hsrc⟩ := List.mem_map.mp hmem
              have := (filterMsgs_go_sound typ round value pr pv ms (m.src :: seen) c hc).2.2.2.2.2.2
              exact this (by simp [hsrc])

theorem filterMsgs_sound {msgs : List Core} {typ round : Nat} {value pr pv : Option Nat} {c : Core}
    (h : c ∈ filterMsgs msgs typ round value pr pv) :
    c ∈ msgs ∧ c.typ = typ ∧ c.round = round ∧ (∀ v, value = some v → c.value = v) ∧
      (∀ v, pr = some v → c.pr = v) ∧ (∀ v, pv = some v → c.pv = v) := by
  have := filterMsgs_go_sound typ round value pr pv msgs [] c h
  exact ⟨this.1, this.2.1, this.2.2.1, this.2.2.2.1, this.2.2.2.2.1, this.2.2.2.2.2.1⟩

theorem filterMsgs_nodup (msgs : List Core) (typ round : Nat) (value pr pv : Option Nat) :
    ((filterMsgs msgs typ round value pr pv).map (·.src)).Nodup :=
  filterMsgs_go_nodup typ round value pr pv msgs []

/-! ### getSingleJustifiedPrPv -/

/-- Invariant of the scan: `seen` are the sources of the PREPAREs visited so far, all for (pr,pv). -/
theorem getSingle_go_sound (d : Def) :
    ∀ (msgs : List Core) (seen : List Nat) (pr pv count : Nat) (rpr rpv : Nat),
      getSingleJustifiedPrPv.go d seen pr pv count msgs = (rpr, rpv, true) →
      seen.Nodup → seen.length = count →
      ∃ srcs : List Nat, srcs.Nodup ∧ d.quorum ≤ seen.length + srcs.length ∧
        (∀ j ∈ srcs, j ∉ seen) ∧
        (∀ j ∈ srcs, ∃ c ∈ msgs, c.typ = tPrepare ∧ c.src = j ∧ c.round = rpr ∧ c.value = rpv) ∧
        (0 < count → rpr = pr ∧ rpv = pv) ∧
        (∀ c ∈ msgs, c.typ = tPrepare → c.round = rpr ∧ c.value = rpv) := by
  intro msgs
  induction msgs with
  | nil =>
    intro seen pr pv count rpr rpv h hnd hlen
    simp only [getSingleJustifiedPrPv.go, Prod.mk.injEq, decide_eq_true_eq] at h
    refine ⟨[], List.nodup_nil, by simp; omega, by simp, by simp, ?_, by simp⟩
    intro _; exact ⟨h.1.symm, h.2.1.symm⟩
  | cons m ms ih =>
    intro seen pr pv count rpr rpv h hnd hlen
    unfold getSingleJustifiedPrPv.go at h
    split at h
    · -- not a PREPARE
      rename_i hty
      obtain ⟨srcs, h1, h2, h3, h4, h5, h6⟩ := ih seen pr pv count rpr rpv h hnd hlen
      refine ⟨srcs, h1, h2, h3, ?_, h5, ?_⟩
      · intro j hj; obtain ⟨c, hc, hh⟩ := h4 j hj; exact ⟨c, List.mem_cons_of_mem _ hc, hh⟩
      · intro c hc hct
        rcases List.mem_cons.mp hc with rfl | hc'
        · exact absurd hct hty
        · exact h6 c hc' hct
    · rename_i hty
      have hty' : m.typ = tPrepare := by simpa using hty
      split at h
      · simp at h
      · rename_i hseen
        split at h
        · -- first PREPARE
          rename_i hc0
          subst hc0
          have hlen0 : seen = [] := List.length_eq_zero_iff.mp hlen
          subst hlen0
          obtain ⟨srcs, h1, h2, h3, h4, h5, h6⟩ :=
            ih [m.src] m.round m.value 1 rpr rpv h (by simp) (by simp)
          have h5' := h5 (by omega)
          refine ⟨m.src :: srcs, ?_, ?_, by simp, ?_, by simp, ?_⟩
          · exact List.nodup_cons.mpr ⟨fun hm => h3 _ hm (by simp), h1⟩
          · simp at h2 ⊢; omega
          · intro j hj
            rcases List.mem_cons.mp hj with rfl | hj'
            · exact ⟨m, List.mem_cons_self, hty', rfl, h5'.1.symm, h5'.2.symm⟩
            · obtain ⟨c, hc, hh⟩ := h4 j hj'; exact ⟨c, List.mem_cons_of_mem _ hc, hh⟩
          · intro c hc hct
            rcases List.mem_cons.mp hc with rfl | hc'
            · exact ⟨h5'.1.symm, h5'.2.symm⟩
            · exact h6 c hc' hct
        · rename_i hc0
          split at h
          · simp at h
          · rename_i hsame
            have hsame' : pr = m.round ∧ pv = m.value := by
              simp only [not_or, Decidable.not_not] at hsame; exact hsame
            obtain ⟨srcs, h1, h2, h3, h4, h5, h6⟩ :=
              ih (m.src :: seen) pr pv (count + 1) rpr rpv h
                (List.nodup_cons.mpr ⟨hseen, hnd⟩) (by simp [hlen])
            have h5' := h5 (by omega)
            refine ⟨m.src :: srcs, ?_, ?_, ?_, ?_, fun _ => h5', ?_⟩
            · exact List.nodup_cons.mpr ⟨fun hm => h3 _ hm (by simp), h1⟩
            · simp at h2 ⊢; omega
            · intro j hj
              rcases List.mem_cons.mp hj with rfl | hj'
              · exact hseen
              · intro hs; exact h3 j hj' (List.mem_cons_of_mem _ hs)
            · intro j hj
              rcases List.mem_cons.mp hj with rfl | hj'
              · exact ⟨m, List.mem_cons_self, hty', rfl, by rw [h5'.1]; exact hsame'.1.symm,
                  by rw [h5'.2]; exact hsame'.2.symm⟩
              · obtain ⟨c, hc, hh⟩ := h4 j hj'; exact ⟨c, List.mem_cons_of_mem _ hc, hh⟩
            · intro c hc hct
              rcases List.mem_cons.mp hc with rfl | hc'
              · exact ⟨by rw [h5'.1]; exact hsame'.1.symm, by rw [h5'.2]; exact hsame'.2.symm⟩
              · exact h6 c hc' hct

/-- `getSingleJustifiedPrPv` succeeding means: at least a quorum of PREPAREs from distinct
sources, all for the returned (pr,pv), are in the list. -/
theorem getSingle_sound {d : Def} {msgs : List Core} {pr pv : Nat}
    (h : getSingleJustifiedPrPv d msgs = (pr, pv, true)) :
    ∃ srcs : List Nat, srcs.Nodup ∧ d.quorum ≤ srcs.length ∧
      ∀ j ∈ srcs, ∃ c ∈ msgs, c.typ = tPrepare ∧ c.src = j ∧ c.round = pr ∧ c.value = pv := by
  obtain ⟨srcs, h1, h2, _, h4, _, _⟩ := getSingle_go_sound d msgs [] 0 0 0 pr pv h (by simp) (by simp)
  exact ⟨srcs, h1, by simpa using h2, h4⟩

/-! ### nextMinRound / getFPlus1RoundChanges -/

theorem foldl_min_ge (ms : List Core) (a bound : Nat) (ha : bound < a)
    (h : ∀ x ∈ ms, bound < x.round) :
    bound < ms.foldl (fun acc x => if acc > x.round then x.round else acc) a := by
  induction ms generalizing a with
  | nil => simpa
  | cons x xs ih =>
    simp only [List.foldl_cons]
    apply ih
    · split
      · exact h x List.mem_cons_self
      · exact ha
    · intro y hy; exact h y (List.mem_cons_of_mem _ hy)

/-- `nextMinRound` returns a round strictly above the current one. -/
theorem nextMinRound_gt {d : Def} {frc : List Core} {round nr : Nat}
    (h : nextMinRound d frc round = some nr) : round < nr := by
  unfold nextMinRound at h
  split at h
  · simp at h
  · split at h
    · simp at h
    · rename_i hany
      cases frc with
      | nil => simp at h
      | cons m ms =>
        simp only [Option.some.injEq] at h
        subst h
        have hall : ∀ x ∈ m :: ms, round < x.round := by
          intro x hx
          have := hany
          simp only [List.any_eq_true, not_exists, not_and] at this
          have hx' := this x hx
          simp at hx'
          omega
        exact foldl_min_ge ms m.round round (hall m List.mem_cons_self)
          (fun x hx => hall x (List.mem_cons_of_mem _ hx))

end CharonV.Qbft
