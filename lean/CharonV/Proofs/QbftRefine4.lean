/-
Refinement, part 4: simulation of the rule branches (`onRule`) of a justified message.
-/
import CharonV.Proofs.QbftRefine3

namespace CharonV.QbftSys

open CharonV.Qbft CharonV.QbftSpec

variable {P : Params} {fifo : Nat}

local notation "D" => mkDef P fifo

/-- no PREPARE quorum for the zero value exists in a reachable spec state. -/
theorem no_zero_prepareQuorum (hn : 1 ≤ P.n) (hb : P.byzCount ≤ faulty P.n)
    {t : QbftSpec.State} (hr : QbftSpec.Reach P t) (pr : Nat) : ¬ prepareQuorum P t.hist pr 0 := by
  intro hq
  obtain ⟨j, _, hm⟩ := quorumOf_honest hn hb hq
  have hI := reach_inv hr
  obtain ⟨⟨path, hacc⟩, _⟩ := hI.prepAcc j pr 0 hm
  exact (hI.accOk j pr 0 path hacc).1 rfl

/-- the implementation model's and the spec's `compare` outcomes. -/
def cmpS : Qbft.CmpOut → QbftSpec.CmpOut
  | .ok => .ok
  | .fail => .fail
  | .timeout => .timeout

/-! ### generic wrappers around the spec's transitions -/

/-- expected abstract node / ghost events after accepting PRE-PREPARE (r,v) with outcome `out`. -/
def accNode (a : Node) (r : Nat) : Qbft.CmpOut → Node
  | .ok => { a.enter r with ppDone := true }
  | .fail => { a.enter r with ppDone := true, cfr := r }
  | .timeout => ({ a.enter r with ppDone := true } : Node).enter (r + 1)

def accGhost (a : Node) (p r v : Nat) (path : Path) : Qbft.CmpOut → List Ev
  | .ok => [.accept p r v path, .prepare p r v]
  | .fail => [.accept p r v path, .cmpFail p r]
  | .timeout => [.accept p r v path, .roundChange p (r + 1) (a.enter r).pr (a.enter r).pv]

theorem sim_accept {t : QbftSpec.State} {p : Nat} {n n' : NodeState} {r v : Nat} {path : Path}
    {out : Qbft.CmpOut}
    (hr : QbftSpec.Reach P t) (hp : P.honest p) (heq : t.nodes p = absNode n)
    (hund : (absNode n).decided = none)
    (hround : (absNode n).round ≤ r) (hpp : (absNode n).round = r → (absNode n).ppDone = false)
    (hl : P.leader r < P.n) (hav : avail P t.hist (P.leader r) (.prePrepare (P.leader r) r v))
    (hv : v ≠ 0) (hj : justifiedPP P t.hist (absNode n).cfr r v path)
    (hok : out = .ok → P.cmp p v = true) (hfail : out = .fail → P.cmp p v = false)
    (habs : absNode n' = accNode (absNode n) r out) :
    SimOut P t p n' (accGhost (absNode n) p r v path out) := by
  have hstep := QbftSpec.Step.accept t p r v path (cmpS out) hp (by rw [heq]; exact hund)
    (by rw [heq]; exact hround) (by rw [heq]; exact hpp) hl hav hv (by rw [heq]; exact hj)
    (by intro h; apply hok; cases out <;> simp_all [cmpS])
    (by intro h; apply hfail; cases out <;> simp_all [cmpS])
  refine ⟨_, QbftSpec.Reach.step hr hstep, ?_, ?_, ?_⟩
  · cases out <;> simp [acceptResult, accGhost, setNode, heq, cmpS]
  · intro q hq
    cases out <;> simp [acceptResult, setNode, hq, cmpS]
  · rw [habs]
    cases out <;> simp [acceptResult, setNode, accNode, heq, cmpS] <;> exact nodeRel_refl _

/-! ### UponJustifiedPrePrepare -/

section pp

variable {t : QbftSpec.State} {p : Nat} {n : NodeState} {m : Msg} {B : List (Nat × List Msg)}

/-- state on which `onPrePrepare` runs. -/
abbrev ppState (n : NodeState) (B : List (Nat × List Msg)) (m : Msg) : NodeState :=
  { n with buffer := B, dedup := (uJustifiedPrePrepare, m.core.round) :: n.dedup }

theorem abs_onPrePrepare (hq : n.qCommit = []) (cmp : Qbft.CmpOut) :
    absNode (onPrePrepare (ppState n B m) m cmp).1 = accNode (absNode n) m.core.round cmp := by
  unfold onPrePrepare
  simp only
  by_cases hrd : n.round = m.core.round
  · rw [changeRound_same (by simpa using hrd)]
    have hc2 : ((uJustifiedPrePrepare, m.core.round) :: n.dedup).contains (uQuorumPrepares, m.core.round)
        = n.dedup.contains (uQuorumPrepares, m.core.round) :=
      contains_cons_ne (by simp [uJustifiedPrePrepare, uQuorumPrepares])
    cases cmp
    · simp [absNode, accNode, Node.enter, hrd, hq, uJustifiedPrePrepare, uQuorumPrepares]
    · simp [absNode, accNode, Node.enter, hrd, hq, uJustifiedPrePrepare, uQuorumPrepares]
    · have hne : m.core.round ≠ m.core.round + 1 := by omega
      simp only [hrd]
      rw [changeRound_diff (by simpa using hne)]
      simp [absNode, accNode, Node.enter, hrd, hq]
  · rw [changeRound_diff (by simpa using hrd)]
    have hrd' : ¬ m.core.round = n.round := fun e => hrd e.symm
    cases cmp
    · simp [absNode, accNode, Node.enter, hrd', hq, uJustifiedPrePrepare, uQuorumPrepares]
    · simp [absNode, accNode, Node.enter, hrd', hq, uJustifiedPrePrepare, uQuorumPrepares]
    · have hne : m.core.round ≠ m.core.round + 1 := by omega
      simp only
      rw [changeRound_diff (by simpa using hne)]
      simp [absNode, accNode, Node.enter, hrd', hq]

theorem ghost_onPrePrepare (cmp : Qbft.CmpOut) (cfr : Nat) :
    (Out.rule uJustifiedPrePrepare (ppState n B m).round :: (onPrePrepare (ppState n B m) m cmp).2).flatMap
        (outEv D p cfr (.recv m cmp)) =
      accGhost (absNode n) p m.core.round m.core.value (pathOf D m cfr) cmp := by
  unfold onPrePrepare
  simp only
  by_cases hrd : n.round = m.core.round
  · rw [changeRound_same (by simpa using hrd)]
    cases cmp
    · simp [outEv, accGhost, bcastMsg, tPrepare, tPrePrepare, hrd]
    · simp [outEv, accGhost]
    · have hne : m.core.round ≠ m.core.round + 1 := by omega
      simp only [hrd]
      rw [changeRound_diff (by simpa using hne)]
      simp [outEv, accGhost, bcastRoundChange, tRoundChange, tPrePrepare, tPrepare, tCommit,
        absNode, Node.enter, hrd]
  · rw [changeRound_diff (by simpa using hrd)]
    have hrd' : ¬ m.core.round = n.round := fun e => hrd e.symm
    cases cmp
    · simp [outEv, accGhost, bcastMsg, tPrepare, tPrePrepare]
    · simp [outEv, accGhost]
    · have hne : m.core.round ≠ m.core.round + 1 := by omega
      simp only
      rw [changeRound_diff (by simpa using hne)]
      simp [outEv, accGhost, bcastRoundChange, tRoundChange, tPrePrepare, tPrepare, tCommit,
        absNode, Node.enter, hrd']

theorem onPrePrepare_fields (n1 : NodeState) (m : Msg) (cmp : Qbft.CmpOut) :
    let n' := (onPrePrepare n1 m cmp).1
    n'.proc = n1.proc ∧ n'.buffer = n1.buffer ∧ n'.inputValue = n1.inputValue ∧
      n'.qCommit = n1.qCommit ∧ n'.started = n1.started ∧
      (n'.ppjCache.isSome = true → n1.ppjCache.isSome = true ∧ n'.round = n1.round) := by
  unfold onPrePrepare
  have h1 := changeRound_fields n1 m.core.round uJustifiedPrePrepare
  simp only at h1 ⊢
  cases cmp
  · refine ⟨h1.2.1, h1.2.2.1, h1.2.2.2.1, h1.2.2.2.2.2.2.2.1, h1.2.2.2.2.2.2.2.2.2.2.1, ?_⟩
    intro hc; have := h1.2.2.2.2.2.2.2.2.2.2.2 hc
    exact ⟨this.1, by show (changeRound n1 m.core.round uJustifiedPrePrepare).1.round = _; rw [h1.1]; exact this.2.symm⟩
  · refine ⟨h1.2.1, h1.2.2.1, h1.2.2.2.1, h1.2.2.2.2.2.2.2.1, h1.2.2.2.2.2.2.2.2.2.2.1, ?_⟩
    intro hc; have := h1.2.2.2.2.2.2.2.2.2.2.2 hc
    exact ⟨this.1, by show (changeRound n1 m.core.round uJustifiedPrePrepare).1.round = _; rw [h1.1]; exact this.2.symm⟩
  · simp only
    have hne : (changeRound n1 m.core.round uJustifiedPrePrepare).1.round ≠
        (changeRound n1 m.core.round uJustifiedPrePrepare).1.round + 1 := by omega
    rw [changeRound_diff (by simpa using hne)]
    simp only
    exact ⟨h1.2.1, h1.2.2.1, h1.2.2.2.1, h1.2.2.2.2.2.2.2.1, h1.2.2.2.2.2.2.2.2.2.2.1, by simp⟩

end pp

end CharonV.QbftSys
