/-
More lemmas about the QBFT implementation model: buffers, `flatten`, `classify`,
`getPrepareQuorums`, `getJustifiedQrc`.
-/
import CharonV.Proofs.QbftImpl

namespace CharonV.Qbft

/-- every core (message or attachment) held in a buffer. -/
def inBuf (buf : List (Nat × List Msg)) (c : Core) : Prop :=
  ∃ e ∈ buf, ∃ m ∈ e.2, c = m.core ∨ c ∈ m.just

theorem mem_orderBuffer {ord : List Nat} {buf : List (Nat × List Msg)} {e : Nat × List Msg}
    (h : e ∈ orderBuffer ord buf) : e ∈ buf := by
  unfold orderBuffer at h
  rcases List.mem_append.mp h with h | h
  · obtain ⟨s, _, hs⟩ := List.mem_filterMap.mp h
    exact List.mem_of_find?_eq_some hs
  · exact (List.mem_filter.mp h).1

theorem mem_flatten {ord : List Nat} {buf : List (Nat × List Msg)} {c : Core}
    (h : c ∈ flatten ord buf) : inBuf buf c := by
  unfold flatten at h
  obtain ⟨e, he, hc⟩ := List.mem_flatMap.mp h
  obtain ⟨m, hm, hcm⟩ := List.mem_flatMap.mp hc
  refine ⟨e, mem_orderBuffer he, m, hm, ?_⟩
  rcases List.mem_cons.mp hcm with rfl | h'
  · exact Or.inl rfl
  · exact Or.inr h'

/-- messages in the buffer after `bufferMsg` are old ones or the new one. -/
theorem mem_bufferMsg {fifo : Nat} {buf : List (Nat × List Msg)} {m : Msg} {e : Nat × List Msg}
    {x : Msg} (he : e ∈ bufferMsg fifo buf m) (hx : x ∈ e.2) :
    x = m ∨ ∃ e' ∈ buf, x ∈ e'.2 := by
  unfold bufferMsg at he
  have trim_sub : ∀ l : List Msg, ∀ y, y ∈ (if l.length > fifo then l.drop (l.length - fifo) else l) → y ∈ l := by
    intro l y hy
    split at hy
    · exact List.mem_of_mem_drop hy
    · exact hy
  split at he
  · obtain ⟨e0, he0, rfl⟩ := List.mem_map.mp he
    split at hx
    · have := trim_sub _ x hx
      rcases List.mem_append.mp this with h | h
      · exact Or.inr ⟨e0, he0, h⟩
      · exact Or.inl (by simpa using h)
    · exact Or.inr ⟨e0, he0, hx⟩
  · rcases List.mem_append.mp he with h | h
    · exact Or.inr ⟨e, h, hx⟩
    · simp only [List.mem_singleton] at h; subst h
      have := trim_sub [m] x hx
      exact Or.inl (by simpa using this)

theorem inBuf_bufferMsg {fifo : Nat} {buf : List (Nat × List Msg)} {m : Msg} {c : Core}
    (h : inBuf (bufferMsg fifo buf m) c) : inBuf buf c ∨ c = m.core ∨ c ∈ m.just := by
  obtain ⟨e, he, x, hx, hc⟩ := h
  rcases mem_bufferMsg he hx with rfl | ⟨e', he', hx'⟩
  · exact Or.inr hc
  · exact Or.inl ⟨e', he', x, hx', hc⟩

/-! ### upsert / permK / getPrepareQuorums -/

theorem mem_upsert {α β : Type} [BEq α] {l : List (α × β)} {k : α} {v : β} {e : α × β}
    (h : e ∈ upsert l k v) : e ∈ l ∨ e = (k, v) := by
  unfold upsert at h
  split at h
  · obtain ⟨e0, he0, rfl⟩ := List.mem_map.mp h
    split
    · exact Or.inr rfl
    · exact Or.inl he0
  · rcases List.mem_append.mp h with h | h
    · exact Or.inl h
    · exact Or.inr (by simpa using h)

theorem mem_permKAux {α : Type} : ∀ (fuel k : Nat) (l : List α) (x : α), x ∈ permKAux fuel k l → x ∈ l := by
  intro fuel
  induction fuel with
  | zero => intro k l x h; simpa [permKAux] using h
  | succ n ih =>
    intro k l x h
    unfold permKAux at h
    cases l with
    | nil => simp at h
    | cons a as =>
      simp only at h
      split at h
      · exact h
      · rename_i y hy
        rcases List.mem_cons.mp h with rfl | h'
        · exact List.mem_of_getElem? hy
        · have := ih _ _ _ h'
          exact List.mem_of_mem_eraseIdx this

theorem mem_permK {α : Type} {k : Nat} {l : List α} {x : α} (h : x ∈ permK k l) : x ∈ l :=
  mem_permKAux _ _ _ _ h

/-- cores collected by the fold of `getPrepareQuorums` come from the scanned list. -/
theorem pq_fold_sub (all : List Core) :
    ∀ (acc : List ((Nat × Nat) × List (Nat × Core))) (S : Core → Prop),
      (∀ e ∈ acc, ∀ x ∈ e.2, S x.2) → (∀ c ∈ all, S c) →
      ∀ e ∈ all.foldl (fun acc m =>
          if m.typ ≠ tPrepare then acc
          else
            let key := (m.round, m.value)
            let cur := match acc.find? (fun e => e.1 == key) with
                       | some e => e.2
                       | none => []
            upsert acc key (upsert cur m.src m)) acc,
        ∀ x ∈ e.2, S x.2 := by
  induction all with
  | nil => intro acc S hacc _ e he x hx; exact hacc e he x hx
  | cons m ms ih =>
    intro acc S hacc hall
    simp only [List.foldl_cons]
    apply ih
    · split
      · exact hacc
      · intro e he x hx
        rcases mem_upsert he with he | rfl
        · exact hacc e he x hx
        · simp only at hx
          rcases mem_upsert hx with hx | rfl
          · split at hx
            · rename_i e0 hfind
              exact hacc e0 (List.mem_of_find?_eq_some hfind) x hx
            · cases hx
          · exact hall m List.mem_cons_self
    · intro c hc; exact hall c (List.mem_cons_of_mem _ hc)

theorem mem_getPrepareQuorums {d : Def} {k : Nat} {all : List Core} {q : List Core} {c : Core}
    (hq : q ∈ getPrepareQuorums d k all) (hc : c ∈ q) : c ∈ all := by
  unfold getPrepareQuorums at hq
  have hq' := mem_permK hq
  obtain ⟨e, he, rfl⟩ := List.mem_map.mp hq'
  have he' := (List.mem_filter.mp he).1
  obtain ⟨x, hx, rfl⟩ := List.mem_map.mp hc
  exact pq_fold_sub all [] (fun c => c ∈ all) (by simp) (fun c hc => hc) e he' x hx

theorem tryQ_sub (d : Def) (rcs : List Core) :
    ∀ (qs : List (List Core)) (j : List Core), getJustifiedQrc.tryQ d rcs qs = some j →
      ∀ c ∈ j, c ∈ rcs ∨ ∃ q ∈ qs, c ∈ q := by
  intro qs
  induction qs with
  | nil => intro j h; simp [getJustifiedQrc.tryQ] at h
  | cons q rest ih =>
    intro j h c hc
    unfold getJustifiedQrc.tryQ at h
    cases q with
    | nil =>
      simp only at h
      rcases ih j h c hc with h1 | ⟨q', hq', hcq⟩
      · exact Or.inl h1
      · exact Or.inr ⟨q', List.mem_cons_of_mem _ hq', hcq⟩
    | cons p0 ps =>
      simp only at h
      split at h
      · simp only [Option.some.injEq] at h
        subst h
        rcases List.mem_append.mp hc with h1 | h1
        · exact Or.inl (List.mem_filter.mp h1).1
        · exact Or.inr ⟨p0 :: ps, List.mem_cons_self, h1⟩
      · rcases ih j h c hc with h1 | ⟨q', hq', hcq⟩
        · exact Or.inl h1
        · exact Or.inr ⟨q', List.mem_cons_of_mem _ hq', hcq⟩

/-- everything `getJustifiedQrc` returns was in the flattened buffer. -/
theorem getJustifiedQrc_sub {d : Def} {k : Nat} {all : List Core} {round : Nat} {j : List Core}
    (h : getJustifiedQrc d k all round = some j) : ∀ c ∈ j, c ∈ all := by
  unfold getJustifiedQrc at h
  simp only at h
  split at h
  · simp only [Option.some.injEq] at h
    subst h
    intro c hc
    exact (filterMsgs_sound hc).1
  · intro c hc
    rcases tryQ_sub d _ _ j h c hc with h1 | ⟨q, hq, hcq⟩
    · exact (filterMsgs_sound h1).1
    · exact mem_getPrepareQuorums hq hcq

/-! ### classify -/

/-- What each non-trivial result of `classify` means. -/
theorem classify_cases {d : Def} {o : Oracle} {round proc : Nat} {buf : List (Nat × List Msg)}
    {m : Msg} {rule : Nat} {just : List Core}
    (h : classify d o round proc buf m = some (rule, just)) (hr : rule ≠ uNothing) :
    (rule = uJustifiedDecided ∧ m.core.typ = tDecided ∧ just = m.just) ∨
    (rule = uJustifiedPrePrepare ∧ m.core.typ = tPrePrepare ∧ round ≤ m.core.round) ∨
    (rule = uQuorumPrepares ∧ m.core.typ = tPrepare ∧ m.core.round = round ∧
      just = filterByRoundAndValue (flatten o.srcOrd buf) tPrepare m.core.round m.core.value ∧
      d.quorum ≤ just.length) ∨
    (rule = uQuorumCommits ∧ m.core.typ = tCommit ∧ m.core.round = round ∧
      just = filterByRoundAndValue (flatten o.srcOrd buf) tCommit m.core.round m.core.value ∧
      d.quorum ≤ just.length) ∨
    (rule = uFPlus1RoundChanges ∧ m.core.typ = tRoundChange ∧ round < m.core.round) ∨
    (rule = uUnjustQuorumRoundChanges ∧ m.core.typ = tRoundChange) ∨
    (rule = uQuorumRoundChanges ∧ m.core.typ = tRoundChange ∧ m.core.round = round ∧
      d.leader round = proc ∧
      getJustifiedQrc d o.pqPerm (flatten o.srcOrd buf) m.core.round = some just) := by
  unfold classify at h
  simp only at h
  split at h
  · rename_i ht
    simp only [Option.some.injEq, Prod.mk.injEq] at h
    exact Or.inl ⟨h.1.symm, ht, h.2.symm⟩
  · split at h
    · rename_i ht
      split at h
      · simp only [Option.some.injEq, Prod.mk.injEq] at h; exact absurd h.1.symm hr
      · rename_i hlt
        simp only [Option.some.injEq, Prod.mk.injEq] at h
        exact Or.inr (Or.inl ⟨h.1.symm, ht, by omega⟩)
    · split at h
      · rename_i ht
        split at h
        · simp only [Option.some.injEq, Prod.mk.injEq] at h; exact absurd h.1.symm hr
        · rename_i hrd
          split at h
          · rename_i hq
            simp only [Option.some.injEq, Prod.mk.injEq] at h
            refine Or.inr (Or.inr (Or.inl ⟨h.1.symm, ht, by omega, h.2.symm, ?_⟩))
            rw [← h.2]; exact hq
          · simp only [Option.some.injEq, Prod.mk.injEq] at h; exact absurd h.1.symm hr
      · split at h
        · rename_i ht
          split at h
          · simp only [Option.some.injEq, Prod.mk.injEq] at h; exact absurd h.1.symm hr
          · rename_i hrd
            split at h
            · rename_i hq
              simp only [Option.some.injEq, Prod.mk.injEq] at h
              refine Or.inr (Or.inr (Or.inr (Or.inl ⟨h.1.symm, ht, by omega, h.2.symm, ?_⟩)))
              rw [← h.2]; exact hq
            · simp only [Option.some.injEq, Prod.mk.injEq] at h; exact absurd h.1.symm hr
        · split at h
          · rename_i ht
            split at h
            · simp only [Option.some.injEq, Prod.mk.injEq] at h; exact absurd h.1.symm hr
            · rename_i hge
              split at h
              · rename_i hgt
                split at h
                · simp only [Option.some.injEq, Prod.mk.injEq] at h
                  exact Or.inr (Or.inr (Or.inr (Or.inr (Or.inl ⟨h.1.symm, ht, hgt⟩))))
                · simp only [Option.some.injEq, Prod.mk.injEq] at h; exact absurd h.1.symm hr
              · rename_i hngt
                split at h
                · simp only [Option.some.injEq, Prod.mk.injEq] at h; exact absurd h.1.symm hr
                · split at h
                  · simp only [Option.some.injEq, Prod.mk.injEq] at h
                    exact Or.inr (Or.inr (Or.inr (Or.inr (Or.inr (Or.inl ⟨h.1.symm, ht⟩)))))
                  · rename_i qrc hq
                    split at h
                    · simp only [Option.some.injEq, Prod.mk.injEq] at h; exact absurd h.1.symm hr
                    · rename_i hlead
                      simp only [Option.some.injEq, Prod.mk.injEq] at h
                      have hrd : m.core.round = round := by omega
                      refine Or.inr (Or.inr (Or.inr (Or.inr (Or.inr (Or.inr
                        ⟨h.1.symm, ht, hrd, ?_, ?_⟩)))))
                      · rw [← hrd]; simpa using hlead
                      · rw [← h.2]; exact hq
          · simp at h

end CharonV.Qbft
