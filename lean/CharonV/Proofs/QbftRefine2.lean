/-
Refinement, part 2: the local invariant of an implementation node and the simulation of each
branch of `qbft.Run` by a transition (or a stutter) of the spec.
-/
import CharonV.Proofs.QbftRefine1

namespace CharonV.QbftSys

open CharonV.Qbft CharonV.QbftSpec

variable {P : Params} {fifo : Nat}

/-- Local invariant of member `p`'s implementation state w.r.t. history `H`. -/
structure LInv (P : Params) (H : List Ev) (p : Nat) (n : NodeState) : Prop where
  proc   : n.proc = p
  bufAdm : ∀ c, inBuf n.buffer c → admCore P H c
  input  : n.inputValue = 0 ∨ (n.inputValue = P.input p ∧ n.inputValue ≠ 0)
  cache  : n.ppjCache.isSome = true → P.leader n.round = p
  timer  : n.qCommit.isEmpty = false → n.timerOn = false
  fresh  : n.started = false → n.dead = false → n = { proc := p }

theorem LInv.mono {H H' : List Ev} {p : Nat} {n : NodeState} (h : LInv P H p n)
    (hsub : ∀ e ∈ H, e ∈ H') : LInv P H' p n :=
  { h with bufAdm := fun c hc => admCore_mono hsub (h.bufAdm c hc) }

theorem linv_init (H : List Ev) (p : Nat) : LInv P H p { proc := p } := by
  refine ⟨rfl, ?_, Or.inl rfl, by simp, by simp, fun _ _ => rfl⟩
  intro c hc
  obtain ⟨e, he, _⟩ := hc
  cases he

/-- spec node `a` and abstraction `b` of the implementation node agree. -/
def nodeRel (a b : Node) : Prop := a.decided = b.decided ∧ (b.decided = none → a = b)

theorem nodeRel_refl (a : Node) : nodeRel a a := ⟨rfl, fun _ => rfl⟩

/-- Result of simulating one implementation step of member `p`: a reachable spec state with the
extended history, other members untouched, `p` related to the new implementation state. -/
def SimOut (P : Params) (t : QbftSpec.State) (p : Nat) (n' : NodeState) (ghost : List Ev) : Prop :=
  ∃ t', QbftSpec.Reach P t' ∧ t'.hist = t.hist ++ ghost ∧
    (∀ q, q ≠ p → t'.nodes q = t.nodes q) ∧ nodeRel (t'.nodes p) (absNode n')

/-- stutter: no ghost event and the abstraction of the node is unchanged (or the node was and
stays decided with the same decision). -/
theorem sim_stutter {t : QbftSpec.State} {p : Nat} {n n' : NodeState}
    (hr : QbftSpec.Reach P t) (hrel : nodeRel (t.nodes p) (absNode n))
    (habs : (absNode n').decided = (absNode n).decided ∧
      ((absNode n).decided = none → absNode n' = absNode n)) :
    SimOut P t p n' [] := by
  refine ⟨t, hr, by simp, fun _ _ => rfl, ?_⟩
  refine ⟨by rw [hrel.1, habs.1], ?_⟩
  intro hnone
  rw [habs.1] at hnone
  rw [hrel.2 hnone, habs.2 hnone]

/-! ### abstraction bookkeeping -/

theorem contains_cons_ne {a b : Nat × Nat} {l : List (Nat × Nat)} (h : a ≠ b) :
    (b :: l).contains a = l.contains a := by
  simp [List.contains_cons, h]

@[simp] theorem absNode_buffer (n : NodeState) (b : List (Nat × List Msg)) :
    absNode { n with buffer := b } = absNode n := rfl

@[simp] theorem absNode_timerOn (n : NodeState) (b : Bool) :
    absNode { n with timerOn := b } = absNode n := rfl

@[simp] theorem absNode_started (n : NodeState) (b : Bool) :
    absNode { n with started := b } = absNode n := rfl

@[simp] theorem absNode_dead (n : NodeState) (b : Bool) :
    absNode { n with dead := b } = absNode n := rfl

@[simp] theorem absNode_resends (n : NodeState) (b : List (Nat × Nat × Nat)) :
    absNode { n with resends := b } = absNode n := rfl

@[simp] theorem absNode_cache (n : NodeState) (b : Option (List Core)) :
    absNode { n with ppjCache := b } = absNode n := rfl

/-- recording a rule other than PRE-PREPARE / QUORUM-PREPARES in the dedup table is invisible. -/
theorem absNode_dedup_other (n : NodeState) (rule r : Nat)
    (h1 : rule ≠ uJustifiedPrePrepare) (h2 : rule ≠ uQuorumPrepares) :
    absNode { n with dedup := (rule, r) :: n.dedup } = absNode n := by
  unfold absNode
  simp only
  have e1 : ((rule, r) :: n.dedup).contains (uJustifiedPrePrepare, n.round) = n.dedup.contains (uJustifiedPrePrepare, n.round) :=
    contains_cons_ne (by intro h; injection h with h _; exact h1 h.symm)
  have e2 : ((rule, r) :: n.dedup).contains (uQuorumPrepares, n.round) = n.dedup.contains (uQuorumPrepares, n.round) :=
    contains_cons_ne (by intro h; injection h with h _; exact h2 h.symm)
  rw [e1, e2]

theorem absNode_decided_none {n : NodeState} (h : n.qCommit.isEmpty = true) :
    (absNode n).decided = none := by simp [absNode, h]

theorem absNode_decided_some {n : NodeState} (h : n.qCommit.isEmpty = false) :
    (absNode n).decided = some (n.round, n.qCommitValue) := by simp [absNode, h]

end CharonV.QbftSys
