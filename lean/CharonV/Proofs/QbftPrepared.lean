/-
C04 (liveness core), part 4: a good round decides also when members PREPARED in earlier rounds —
the leader-side rule J2 (`getJustifiedQrc`) and the receiver-side check (`containsJustifiedQrc`)
with a mixed prepared / null ROUND-CHANGE quorum, composed into whole-cluster executions.

`Proofs/QbftGoodRound.lean` covers good rounds reached after rounds in which nothing was delivered
(all ROUND-CHANGEs null, rule J1). Here the members may hold prepared certificates — of one earlier
round or of different earlier rounds — when the good round starts. Same execution model (`phase`,
`deliverAll`, `Env`, `Env.Fair`, `tail3`, `GoodOutcome`), every cluster size, every leader function,
every oracle per step, every arrival order per phase and member.

Structure:
* function level: `mem_permK_of_mem`, `getPrepareQuorums_complete`, `tryQ_complete`,
  `getJustifiedQrc_complete` — the leader-side selection is COMPLETE (the soundness half is
  `getJustifiedQrc_contains` of `QbftLiveFn`); `filterMsgs_mem`;
* `RcOk` / `RCtx` / `RCtx.qrc_some`: in a ROUND-CHANGE phase among honest members the selection never
  fails, whatever mix of null and prepared ROUND-CHANGEs is buffered;
* `step_rc_fire`, `rc_step'`, `rc_run'`: the ROUND-CHANGE phase of one member; the leader fires at its
  quorum-th ROUND-CHANGE with a PRE-PREPARE that every receiver accepts, for the value `ValueSpec`
  describes (own input on a null quorum, otherwise the value prepared in the highest prepared round);
* `PCtx`, `pp_phase'`, `prepare_step'`, `commit_step'`, `*_run'`, `good_tail'`: the PRE-PREPARE / PREPARE /
  COMMIT phases over buffers that hold earlier rounds, tracking the prepared state, without assuming
  that a quorum arrives;
* `Stuck`, `timeouts_run'`, `enter_round`, `stuck_then_good_decides`: the general theorem;
* `partial_round`, `roundStart_ready`, `partialPrepareRound_stuck`, `afterPartialPrepare_decides`: the
  concrete history "rounds lost, a round with partial prepares, rounds lost, a good round".
-/
import CharonV.Proofs.QbftGoodRound

namespace CharonV.Qbft

/-! ### List helpers -/

theorem exists_max_of_ne_nil {α : Type} (f : α → Nat) :
    ∀ (l : List α), l ≠ [] → ∃ a ∈ l, ∀ b ∈ l, f b ≤ f a := by
  intro l
  induction l with
  | nil => intro h; exact absurd rfl h
  | cons x xs ih =>
    intro _
    by_cases hxs : xs = []
    · subst hxs
      exact ⟨x, List.mem_cons_self, by intro b hb; simp at hb; subst hb; exact Nat.le_refl _⟩
    · obtain ⟨a, ha, hmax⟩ := ih hxs
      by_cases hc : f a ≤ f x
      · refine ⟨x, List.mem_cons_self, ?_⟩
        intro b hb
        rcases List.mem_cons.mp hb with rfl | hb
        · exact Nat.le_refl _
        · exact Nat.le_trans (hmax b hb) hc
      · refine ⟨a, List.mem_cons_of_mem _ ha, ?_⟩
        intro b hb
        rcases List.mem_cons.mp hb with rfl | hb
        · omega
        · exact hmax b hb

theorem length_filter_lt_of_mem {α : Type} (p : α → Bool) :
    ∀ (l : List α) (x : α), x ∈ l → p x = false → (l.filter p).length < l.length := by
  intro l
  induction l with
  | nil => intro x hx; cases hx
  | cons a as ih =>
    intro x hx hp
    rcases List.mem_cons.mp hx with rfl | hx
    · simp only [List.filter_cons, hp, Bool.false_eq_true, if_false, List.length_cons]
      have := List.length_filter_le p as
      omega
    · have := ih x hx hp
      simp only [List.filter_cons, List.length_cons]
      split
      · simp only [List.length_cons]; omega
      · omega

theorem mem_eraseIdx_or {α : Type} :
    ∀ (l : List α) (i : Nat) (x y : α), l[i]? = some y → x ∈ l → x = y ∨ x ∈ l.eraseIdx i := by
  intro l
  induction l with
  | nil => intro i x y _ hx; cases hx
  | cons a as ih =>
    intro i x y h hx
    cases i with
    | zero =>
      simp only [List.getElem?_cons_zero, Option.some.injEq] at h
      subst h
      simpa [List.eraseIdx] using hx
    | succ i =>
      simp only [List.getElem?_cons_succ] at h
      rcases List.mem_cons.mp hx with rfl | hx
      · right; simp [List.eraseIdx]
      · rcases ih i x y h hx with h1 | h1
        · exact Or.inl h1
        · right; simp only [List.eraseIdx_cons_succ]; exact List.mem_cons_of_mem _ h1

theorem mem_permKAux_of_mem {α : Type} :
    ∀ (fuel k : Nat) (l : List α) (x : α), l.length ≤ fuel → x ∈ l → x ∈ permKAux fuel k l := by
  intro fuel
  induction fuel with
  | zero =>
    intro k l x hl hx
    cases l with
    | nil => cases hx
    | cons a as => simp at hl
  | succ n ih =>
    intro k l x hl hx
    unfold permKAux
    cases l with
    | nil => cases hx
    | cons a as =>
      simp only
      have hlt : k % (a :: as).length < (a :: as).length := Nat.mod_lt _ (by simp)
      have hget : (a :: as)[k % (a :: as).length]? = some ((a :: as)[k % (a :: as).length]) :=
        List.getElem?_eq_getElem hlt
      split
      · rename_i hnone
        rw [hget] at hnone; cases hnone
      · rename_i y hy
        rcases mem_eraseIdx_or _ _ x y hy hx with rfl | h1
        · exact List.mem_cons_self
        · apply List.mem_cons_of_mem
          apply ih _ _ _ _ h1
          rw [List.length_eraseIdx]
          simp only [hlt, if_true]
          simp only [List.length_cons] at hl ⊢
          omega

theorem mem_permK_of_mem {α : Type} {k : Nat} {l : List α} {x : α} (h : x ∈ l) : x ∈ permK k l :=
  mem_permKAux_of_mem _ _ _ _ (Nat.le_refl _) h

/-! ### upsert: lookups -/

theorem upsert_find_ne {α β : Type} [BEq α] [LawfulBEq α] (l : List (α × β)) (k k' : α) (v : β)
    (h : k ≠ k') : (upsert l k v).find? (fun e => e.1 == k') = l.find? (fun e => e.1 == k') := by
  induction l with
  | nil =>
    have : (k == k') = false := by simpa using h
    simp [upsert, this]
  | cons a as ih =>
    cases ha : a.1 == k with
    | false =>
      rw [upsert_cons_ne a as k v ha, List.find?_cons, List.find?_cons, ih]
    | true =>
      have hak : a.1 = k := eq_of_beq ha
      have hne : (a.1 == k') = false := by rw [hak]; simpa using h
      have hne' : (k == k') = false := by simpa using h
      unfold upsert
      simp only [List.any_cons, ha, Bool.true_or, if_true, List.map_cons, List.find?_cons, hne, hne']
      -- the tail: mapped entries keep their lookup for k'
      have : ∀ (t : List (α × β)),
          (t.map (fun e => if e.1 == k then (k, v) else e)).find? (fun e => e.1 == k') =
            t.find? (fun e => e.1 == k') := by
        intro t
        induction t with
        | nil => rfl
        | cons b bs ihb =>
          simp only [List.map_cons, List.find?_cons]
          cases hb : b.1 == k with
          | true =>
            have hbk : b.1 = k := eq_of_beq hb
            have : (b.1 == k') = false := by rw [hbk]; simpa using h
            simp only [if_true, hne', this, ihb]
          | false =>
            simp only [Bool.false_eq_true, if_false, ihb]
      exact this as

/-! ### getPrepareQuorums: completeness of the fold -/

/-- the step function of the fold in `getPrepareQuorums`. -/
def pqStep (acc : List ((Nat × Nat) × List (Nat × Core))) (m : Core) :
    List ((Nat × Nat) × List (Nat × Core)) :=
  if m.typ ≠ tPrepare then acc
  else
    let key := (m.round, m.value)
    let cur := match acc.find? (fun e => e.1 == key) with
               | some e => e.2
               | none => []
    upsert acc key (upsert cur m.src m)

/-- every PREPARE scanned so far is covered by the entry of its (round, value). -/
def PQCov (acc : List ((Nat × Nat) × List (Nat × Core))) (c : Core) : Prop :=
  ∃ e, acc.find? (fun e => e.1 == (c.round, c.value)) = some e ∧ c.src ∈ e.2.map (·.1)

theorem pqStep_cov (acc : List ((Nat × Nat) × List (Nat × Core))) (m c : Core)
    (h : PQCov acc c) : PQCov (pqStep acc m) c := by
  unfold pqStep
  split
  · exact h
  · obtain ⟨e, he, hs⟩ := h
    by_cases hk : (m.round, m.value) = (c.round, c.value)
    · refine ⟨((m.round, m.value), upsert (match acc.find? (fun e => e.1 == (m.round, m.value)) with
               | some e => e.2
               | none => []) m.src m), ?_, ?_⟩
      · rw [← hk]; exact upsert_find _ _ _
      · apply upsert_keys_mono
        rw [hk, he]
        exact hs
    · refine ⟨e, ?_, hs⟩
      rw [upsert_find_ne _ _ _ _ hk]
      exact he

theorem pqStep_self (acc : List ((Nat × Nat) × List (Nat × Core))) (m : Core)
    (ht : m.typ = tPrepare) : PQCov (pqStep acc m) m := by
  unfold pqStep
  rw [if_neg (by simp [ht])]
  exact ⟨_, upsert_find _ _ _, upsert_key_mem _ _ _⟩

theorem pq_fold_cov (all : List Core) :
    ∀ (acc : List ((Nat × Nat) × List (Nat × Core))) (c : Core), c.typ = tPrepare →
      (c ∈ all ∨ PQCov acc c) → PQCov (all.foldl pqStep acc) c := by
  induction all with
  | nil =>
    intro acc c _ h
    rcases h with h | h
    · cases h
    · exact h
  | cons m ms ih =>
    intro acc c ht h
    simp only [List.foldl_cons]
    apply ih _ c ht
    rcases h with h | h
    · rcases List.mem_cons.mp h with rfl | h
      · exact Or.inr (pqStep_self acc c ht)
      · exact Or.inl h
    · exact Or.inr (pqStep_cov acc m c h)

theorem getPrepareQuorums_eq (d : Def) (k : Nat) (all : List Core) :
    getPrepareQuorums d k all =
      permK k (((all.foldl pqStep []).filter (fun e => decide (e.2.length ≥ d.quorum))).map
        (fun e => e.2.map (·.2))) := rfl

/-- **Completeness of `getPrepareQuorums`.** If PREPAREs for `(ρ, w)` from a duplicate-free list
`S` of at least a quorum of sources are in the scanned list, a candidate quorum for `(ρ, w)` is
returned — for every oracle permutation. -/
theorem getPrepareQuorums_complete (d : Def) (hq1 : 1 ≤ d.quorum) (k : Nat) (all : List Core) (ρ w : Nat)
    (S : List Nat) (hS : S.Nodup) (hlen : d.quorum ≤ S.length)
    (h : ∀ s ∈ S, ∃ c ∈ all, c.typ = tPrepare ∧ c.round = ρ ∧ c.value = w ∧ c.src = s) :
    ∃ p0 ps, (p0 :: ps) ∈ getPrepareQuorums d k all ∧ p0.round = ρ ∧ p0.value = w := by
  -- the entry of the key
  have hS0 : S ≠ [] := by intro h0; rw [h0] at hlen; simp at hlen; omega
  obtain ⟨s0, hs0⟩ := List.exists_mem_of_ne_nil S hS0
  obtain ⟨c0, hc0, ht0, hr0, hv0, _⟩ := h s0 hs0
  obtain ⟨e, he, _⟩ := pq_fold_cov all [] c0 ht0 (Or.inl hc0)
  rw [hr0, hv0] at he
  have hemem := List.mem_of_find?_eq_some he
  have hek : e.1 = (ρ, w) := by
    have := List.find?_some he
    exact eq_of_beq this
  have hok := pq_fold_ok all [] (by simp) e hemem
  have hsub : ∀ s ∈ S, s ∈ e.2.map (·.1) := by
    intro s hs
    obtain ⟨c, hc, ht, hr, hv, hsrc⟩ := h s hs
    obtain ⟨e', he', hs'⟩ := pq_fold_cov all [] c ht (Or.inl hc)
    rw [hr, hv, he] at he'
    simp only [Option.some.injEq] at he'
    subst he'
    rw [← hsrc]; exact hs'
  have hlen' : d.quorum ≤ e.2.length := by
    have := nodup_subset_length S (e.2.map (·.1)) hS hsub
    simp only [List.length_map] at this
    omega
  have hq : e.2.map (·.2) ∈ getPrepareQuorums d k all := by
    rw [getPrepareQuorums_eq]
    apply mem_permK_of_mem
    apply List.mem_map.mpr
    exact ⟨e, List.mem_filter.mpr ⟨hemem, by simpa using hlen'⟩, rfl⟩
  cases h2 : e.2 with
  | nil => rw [h2] at hlen'; simp at hlen'; omega
  | cons x xs =>
    rw [h2] at hq
    refine ⟨x.2, xs.map (·.2), by simpa using hq, ?_, ?_⟩
    · have := (hok.2 x (by rw [h2]; exact List.mem_cons_self)).2.1
      rw [this, hek]
    · have := (hok.2 x (by rw [h2]; exact List.mem_cons_self)).2.2.1
      rw [this, hek]

theorem tryQ_complete (d : Def) (rcs : List Core) :
    ∀ (qs : List (List Core)) (p0 : Core) (ps : List Core), (p0 :: ps) ∈ qs →
      d.quorum ≤ (rcs.filter (fun rc => decide (rc.pr ≤ p0.round))).length →
      (rcs.filter (fun rc => decide (rc.pr ≤ p0.round))).any
        (fun rc => rc.pr == p0.round && rc.pv == p0.value) = true →
      ∃ j, getJustifiedQrc.tryQ d rcs qs = some j := by
  intro qs
  induction qs with
  | nil => intro p0 ps h; cases h
  | cons q rest ih =>
    intro p0 ps hm hl hany
    unfold getJustifiedQrc.tryQ
    cases q with
    | nil =>
      simp only
      rcases List.mem_cons.mp hm with h | h
      · cases h
      · exact ih p0 ps h hl hany
    | cons q0 qs' =>
      simp only
      split
      · exact ⟨_, rfl⟩
      · rename_i hc
        rcases List.mem_cons.mp hm with h | h
        · simp only [List.cons.injEq] at h
          obtain ⟨rfl, rfl⟩ := h
          exact absurd ⟨hl, hany⟩ hc
        · exact ih p0 ps h hl hany

/-- **Completeness of `getJustifiedQrc` (rule J2).** At least a quorum of ROUND-CHANGEs for `round`,
all with prepared round `≤ ρ`, one of them prepared on `(ρ, w)`, and PREPAREs for `(ρ, w)` of a
quorum of distinct sources in the scanned list: a justification is found, for every oracle. -/
theorem getJustifiedQrc_complete (d : Def) (hq1 : 1 ≤ d.quorum) (k : Nat) (all : List Core) (round ρ w : Nat)
    (hlen : d.quorum ≤ (filterRoundChange all round).length)
    (hall : ∀ c ∈ filterRoundChange all round, c.pr ≤ ρ)
    (hmax : ∃ c ∈ filterRoundChange all round, c.pr = ρ ∧ c.pv = w)
    (S : List Nat) (hS : S.Nodup) (hSlen : d.quorum ≤ S.length)
    (hprep : ∀ s ∈ S, ∃ c ∈ all, c.typ = tPrepare ∧ c.round = ρ ∧ c.value = w ∧ c.src = s) :
    ∃ j, getJustifiedQrc d k all round = some j := by
  unfold getJustifiedQrc
  simp only
  split
  · exact ⟨_, rfl⟩
  · obtain ⟨p0, ps, hm, hr, hv⟩ := getPrepareQuorums_complete d hq1 k all ρ w S hS hSlen hprep
    have hfil : (filterRoundChange all round).filter (fun rc => decide (rc.pr ≤ p0.round)) =
        filterRoundChange all round := by
      rw [List.filter_eq_self]
      intro c hc
      rw [hr]
      simpa using hall c hc
    apply tryQ_complete d _ _ p0 ps hm
    · rw [hfil]; exact hlen
    · rw [hfil, List.any_eq_true]
      obtain ⟨c, hc, h1, h2⟩ := hmax
      exact ⟨c, hc, by simp [h1, h2, hr, hv]⟩

/-! ### filterMsgs: a matching core that is the only one of its source is kept -/

theorem filterMsgs_go_mem (typ round : Nat) (value pr pv : Option Nat) (c : Core)
    (hm : Matches typ round value pr pv c) :
    ∀ (l : List Core) (seen : List Nat), c ∈ l → c.src ∉ seen →
      (∀ c' ∈ l, Matches typ round value pr pv c' → c'.src = c.src → c' = c) →
      c ∈ filterMsgs.go typ round value pr pv seen l := by
  intro l
  induction l with
  | nil => intro seen h; cases h
  | cons m ms ih =>
    intro seen hc hs huniq
    have hskip : (¬ Matches typ round value pr pv m ∨ m.src ∈ seen) →
        c ∈ filterMsgs.go typ round value pr pv seen ms := by
      intro h
      apply ih seen _ hs (fun c' hc' => huniq c' (List.mem_cons_of_mem _ hc'))
      rcases List.mem_cons.mp hc with rfl | hc'
      · rcases h with h | h
        · exact absurd hm h
        · exact absurd h hs
      · exact hc'
    unfold filterMsgs.go
    split
    · rename_i h1
      exact hskip (Or.inl (fun hm' => by rcases h1 with h1 | h1; exact h1 hm'.1; exact h1 hm'.2.1))
    · rename_i h1
      split
      · rename_i h2
        apply hskip; left; intro hm'
        cases value with
        | none => simp [optNe] at h2
        | some v => simp [optNe] at h2; exact h2 (hm'.2.2.1 v rfl)
      · rename_i h2
        split
        · rename_i h3
          apply hskip; left; intro hm'
          cases pv with
          | none => simp [optNe] at h3
          | some v => simp [optNe] at h3; exact h3 (hm'.2.2.2.2 v rfl)
        · rename_i h3
          split
          · rename_i h4
            apply hskip; left; intro hm'
            cases pr with
            | none => simp [optNe] at h4
            | some v => simp [optNe] at h4; exact h4 (hm'.2.2.2.1 v rfl)
          · rename_i h4
            split
            · rename_i h5
              exact hskip (Or.inr h5)
            · rename_i h5
              have hmm : Matches typ round value pr pv m := by
                have h1' : m.typ = typ ∧ m.round = round := by
                  simp only [not_or, Decidable.not_not] at h1; exact h1
                exact ⟨h1'.1, h1'.2, optNe_false (by simpa using h2), optNe_false (by simpa using h4),
                  optNe_false (by simpa using h3)⟩
              by_cases hmc : m = c
              · rw [hmc]; exact List.mem_cons_self
              · apply List.mem_cons_of_mem
                have hne : m.src ≠ c.src := fun he => hmc (huniq m List.mem_cons_self hmm he)
                apply ih (m.src :: seen)
                · rcases List.mem_cons.mp hc with rfl | hc'
                  · exact absurd rfl hmc
                  · exact hc'
                · intro hmem
                  rcases List.mem_cons.mp hmem with h | h
                  · exact hne h.symm
                  · exact hs h
                · intro c' hc'; exact huniq c' (List.mem_cons_of_mem _ hc')

theorem filterMsgs_mem {l : List Core} {typ round : Nat} {value pr pv : Option Nat} {c : Core}
    (hc : c ∈ l) (hm : Matches typ round value pr pv c)
    (huniq : ∀ c' ∈ l, Matches typ round value pr pv c' → c'.src = c.src → c' = c) :
    c ∈ filterMsgs l typ round value pr pv :=
  filterMsgs_go_mem typ round value pr pv c hm l [] hc (by simp) huniq

/-! ### ROUND-CHANGEs that may carry a prepared certificate -/

/-- background core of round `r`: a ROUND-CHANGE, or a core of an earlier round. -/
def BG (r : Nat) (c : Core) : Prop := c.typ = tRoundChange ∨ c.round < r

/-- what honest members guarantee about a PREPARE: non-null value, round ≥ 1 (H-buf). -/
def PrepGood (c : Core) : Prop := c.typ = tPrepare → c.value ≠ 0 ∧ 1 ≤ c.round

/-- a prepared certificate for `(pr, pv)`: PREPAREs of a quorum of distinct sources. -/
def Cert (d : Def) (pr pv : Nat) (pj : List Core) : Prop :=
  (pj.map (·.src)).Nodup ∧ d.quorum ≤ pj.length ∧
    ∀ c ∈ pj, c.typ = tPrepare ∧ c.round = pr ∧ c.value = pv

/-- `m` is a ROUND-CHANGE of member `a` for round `r`: null, or carrying the certificate of a
non-null value prepared in an earlier round `≥ 1`. -/
structure RcOk (d : Def) (r : Nat) (m : Msg) (a : Nat) : Prop where
  typ : m.core.typ = tRoundChange
  src : m.core.src = a
  round : m.core.round = r
  cert : (m.core.pr = 0 ∧ m.core.pv = 0 ∧ m.just = []) ∨
         (1 ≤ m.core.pr ∧ m.core.pr < r ∧ m.core.pv ≠ 0 ∧ Cert d m.core.pr m.core.pv m.just)

/-- the ROUND-CHANGE carries no prepared state. -/
def isNullRc (m : Msg) : Bool := m.core.pr == 0 && m.core.pv == 0

theorem RcOk.pr_pos_of_not_null {d : Def} {r : Nat} {m : Msg} {a : Nat} (h : RcOk d r m a)
    (hn : isNullRc m = false) :
    1 ≤ m.core.pr ∧ m.core.pr < r ∧ m.core.pv ≠ 0 ∧ Cert d m.core.pr m.core.pv m.just := by
  rcases h.cert with ⟨h1, h2, _⟩ | h'
  · simp [isNullRc, h1, h2] at hn
  · exact h'

theorem RcOk.justified {d : Def} {r : Nat} {m : Msg} {a : Nat} (hq1 : 1 ≤ d.quorum) (h : RcOk d r m a)
    (cfr : Nat) : isJustified d m cfr = some true := by
  have : isJustifiedRoundChange d m = true := by
    apply isJustifiedRoundChange_of d hq1
    rcases h.cert with h' | ⟨_, _, _, h'⟩
    · exact Or.inl h'
    · exact Or.inr h'
  unfold isJustified
  simp [h.typ, tRoundChange, tPrepare, tCommit, tPrePrepare, this]

theorem RcOk.just_prepare {d : Def} {r : Nat} {m : Msg} {a : Nat} (h : RcOk d r m a) :
    ∀ c ∈ m.just, c.typ = tPrepare ∧ c.round = m.core.pr ∧ c.value = m.core.pv ∧ 1 ≤ c.round ∧
      c.round < r ∧ c.value ≠ 0 := by
  intro c hc
  rcases h.cert with ⟨_, _, h3⟩ | ⟨h1, h2, h3, h4⟩
  · rw [h3] at hc; cases hc
  · obtain ⟨e1, e2, e3⟩ := h4.2.2 c hc
    exact ⟨e1, e2, e3, by omega, by omega, by rw [e3]; exact h3⟩

theorem RcOk.cores {d : Def} {r : Nat} {m : Msg} {a : Nat} (h : RcOk d r m a) :
    ∀ c ∈ m.core :: m.just, BG r c ∧ PrepGood c ∧ c.round ≤ r := by
  intro c hc
  rcases List.mem_cons.mp hc with rfl | hc
  · exact ⟨Or.inl h.typ, fun ht => by rw [h.typ] at ht; exact absurd ht tRoundChange_ne_tPrepare,
      by rw [h.round]; exact Nat.le_refl _⟩
  · obtain ⟨_, _, _, e4, e5, e6⟩ := h.just_prepare c hc
    exact ⟨Or.inr e5, fun _ => ⟨e6, e4⟩, by omega⟩

/-- The ROUND-CHANGE phase of round `r` seen from one member: `rcOf a` is the ROUND-CHANGE of member
`a`, `R0` the order in which they arrive, `old` what the member's buffer held before (cores of
earlier rounds only, at most `B` messages per source). -/
structure RCtx (d : Def) (r : Nat) (rcOf : Nat → Msg) (R0 : List Nat) (old : List Msg) (B : Nat) :
    Prop where
  nodup : R0.Nodup
  qpos : 1 ≤ d.quorum
  rc : ∀ a ∈ R0, RcOk d r (rcOf a) a
  oldRound : ∀ c ∈ coresOf old, c.round < r ∧ PrepGood c
  oldLen : ∀ s, (old.filter (fun x => x.core.src == s)).length ≤ B
  fifo : B + 1 ≤ d.fifo

theorem mem_coresOf {del : List Msg} {c : Core} :
    c ∈ coresOf del ↔ ∃ x ∈ del, c = x.core ∨ c ∈ x.just := by
  unfold coresOf
  rw [List.mem_flatMap]
  constructor
  · rintro ⟨x, hx, hc⟩; exact ⟨x, hx, by simpa using hc⟩
  · rintro ⟨x, hx, hc⟩; exact ⟨x, hx, by simpa using hc⟩

section RcBuffer

variable {d : Def} {r : Nat} {rcOf : Nat → Msg} {R0 : List Nat} {old : List Msg} {B : Nat}

/-- every core in the buffer during the ROUND-CHANGE phase. -/
theorem RCtx.cores (hc : RCtx d r rcOf R0 old B) {T : List Nat} (hT : ∀ a ∈ T, a ∈ R0) :
    ∀ c ∈ coresOf (old ++ T.map rcOf), BG r c ∧ PrepGood c ∧ c.round ≤ r := by
  intro c hcm
  rw [coresOf_append] at hcm
  rcases List.mem_append.mp hcm with h | h
  · exact ⟨Or.inr (hc.oldRound c h).1, (hc.oldRound c h).2, by have := (hc.oldRound c h).1; omega⟩
  · obtain ⟨x, hx, hcx⟩ := mem_coresOf.mp h
    obtain ⟨a, ha, rfl⟩ := List.mem_map.mp hx
    apply (hc.rc a (hT a ha)).cores c
    rcases hcx with rfl | hcx
    · exact List.mem_cons_self
    · exact List.mem_cons_of_mem _ hcx

/-- a ROUND-CHANGE core for round `r` in the buffer is the message of one of the senders. -/
theorem RCtx.rc_core (hc : RCtx d r rcOf R0 old B) {T : List Nat} (hT : ∀ a ∈ T, a ∈ R0)
    {c : Core} (hcm : c ∈ coresOf (old ++ T.map rcOf)) (ht : c.typ = tRoundChange) (hr : c.round = r) :
    ∃ a ∈ T, c = (rcOf a).core := by
  rw [coresOf_append] at hcm
  rcases List.mem_append.mp hcm with h | h
  · have := (hc.oldRound c h).1; omega
  · obtain ⟨x, hx, hcx⟩ := mem_coresOf.mp h
    obtain ⟨a, ha, rfl⟩ := List.mem_map.mp hx
    rcases hcx with rfl | hcx
    · exact ⟨a, ha, rfl⟩
    · have := ((hc.rc a (hT a ha)).just_prepare c hcx).1
      rw [ht] at this; exact absurd this tRoundChange_ne_tPrepare

theorem RCtx.mem_core (T : List Nat) {a : Nat} (ha : a ∈ T) :
    (rcOf a).core ∈ coresOf (old ++ T.map rcOf) := by
  rw [coresOf_append]
  apply List.mem_append_right
  exact mem_coresOf.mpr ⟨rcOf a, List.mem_map.mpr ⟨a, ha, rfl⟩, Or.inl rfl⟩

theorem RCtx.mem_just (T : List Nat) {a : Nat} (ha : a ∈ T) {x : Core} (hx : x ∈ (rcOf a).just) :
    x ∈ coresOf (old ++ T.map rcOf) := by
  rw [coresOf_append]
  apply List.mem_append_right
  exact mem_coresOf.mpr ⟨rcOf a, List.mem_map.mpr ⟨a, ha, rfl⟩, Or.inr hx⟩

variable {ord : List Nat} {buf : List (Nat × List Msg)}

/-- the ROUND-CHANGEs for round `r` found in the buffer are exactly those of the senders so far. -/
theorem RCtx.frc_mem (hc : RCtx d r rcOf R0 old B) {T : List Nat} (hT : ∀ a ∈ T, a ∈ R0)
    (hb : BufIs buf (old ++ T.map rcOf)) {a : Nat} (ha : a ∈ T) :
    (rcOf a).core ∈ filterRoundChange (flatten ord buf) r := by
  unfold filterRoundChange
  apply filterMsgs_mem
  · rw [mem_flatten_bufIs hb]; exact RCtx.mem_core T ha
  · have h := hc.rc a (hT a ha)
    exact ⟨h.typ, h.round, by simp, by simp, by simp⟩
  · intro c' hc' hm' hsrc
    rw [mem_flatten_bufIs hb] at hc'
    obtain ⟨b, hb', rfl⟩ := hc.rc_core hT hc' hm'.1 hm'.2.1
    rw [(hc.rc b (hT b hb')).src, (hc.rc a (hT a ha)).src] at hsrc
    rw [hsrc]

theorem RCtx.frc_sound (hc : RCtx d r rcOf R0 old B) {T : List Nat} (hT : ∀ a ∈ T, a ∈ R0)
    (hb : BufIs buf (old ++ T.map rcOf)) {c : Core} (hcm : c ∈ filterRoundChange (flatten ord buf) r) :
    ∃ a ∈ T, c = (rcOf a).core := by
  have hs := filterMsgs_sound hcm
  rw [mem_flatten_bufIs hb] at hs
  exact hc.rc_core hT hs.1 hs.2.1 hs.2.2.1

theorem RCtx.frc_length (hc : RCtx d r rcOf R0 old B) {T : List Nat} (hT : ∀ a ∈ T, a ∈ R0)
    (hnd : T.Nodup) (hb : BufIs buf (old ++ T.map rcOf)) :
    (filterRoundChange (flatten ord buf) r).length = T.length := by
  unfold filterRoundChange
  apply filterMsgs_length_eq T hnd
  · intro s hs
    have h := hc.rc s (hT s hs)
    refine ⟨(rcOf s).core, ?_, ⟨h.typ, h.round, by simp, by simp, by simp⟩, h.src⟩
    rw [mem_flatten_bufIs hb]; exact RCtx.mem_core T hs
  · intro c hcm hm
    rw [mem_flatten_bufIs hb] at hcm
    obtain ⟨a, ha, rfl⟩ := hc.rc_core hT hcm hm.1 hm.2.1
    rw [(hc.rc a (hT a ha)).src]; exact ha

/-- the null ROUND-CHANGEs found in the buffer come from senders of null ROUND-CHANGEs. -/
theorem RCtx.null_length_le (hc : RCtx d r rcOf R0 old B) {T : List Nat} (hT : ∀ a ∈ T, a ∈ R0)
    (hb : BufIs buf (old ++ T.map rcOf)) :
    (filterMsgs (flatten ord buf) tRoundChange r none (some 0) (some 0)).length ≤
      (T.filter (fun a => isNullRc (rcOf a))).length := by
  apply filterMsgs_length_le'
  intro c hcm hm
  rw [mem_flatten_bufIs hb] at hcm
  obtain ⟨a, ha, rfl⟩ := hc.rc_core hT hcm hm.1 hm.2.1
  rw [(hc.rc a (hT a ha)).src, List.mem_filter]
  refine ⟨ha, ?_⟩
  simp [isNullRc, hm.2.2.2.1 0 rfl, hm.2.2.2.2 0 rfl]

theorem RCtx.null_length_ge (hc : RCtx d r rcOf R0 old B) {T : List Nat} (hT : ∀ a ∈ T, a ∈ R0)
    (hnd : T.Nodup) (hb : BufIs buf (old ++ T.map rcOf))
    (hall : ∀ a ∈ T, isNullRc (rcOf a) = true) :
    T.length ≤ (filterMsgs (flatten ord buf) tRoundChange r none (some 0) (some 0)).length := by
  apply filterMsgs_length_ge T hnd
  intro s hs
  have h := hc.rc s (hT s hs)
  have hn := hall s hs
  simp only [isNullRc, Bool.and_eq_true, beq_iff_eq] at hn
  refine ⟨(rcOf s).core, ?_, ⟨h.typ, h.round, by simp, ?_, ?_⟩, h.src⟩
  · rw [mem_flatten_bufIs hb]; exact RCtx.mem_core T hs
  · intro v hv; simp only [Option.some.injEq] at hv; rw [← hv]; exact hn.1
  · intro v hv; simp only [Option.some.injEq] at hv; rw [← hv]; exact hn.2

/-- **The leader-side selection never fails in a ROUND-CHANGE phase among honest members**: with the
ROUND-CHANGEs of at least a quorum of members buffered — null ones and ones carrying valid
certificates of earlier rounds, in any mix — `getJustifiedQrc` finds a justification (J1 or J2),
for every oracle. -/
theorem RCtx.qrc_some (hc : RCtx d r rcOf R0 old B) {T : List Nat} (hT : ∀ a ∈ T, a ∈ R0)
    (hnd : T.Nodup) (hb : BufIs buf (old ++ T.map rcOf)) (hq : d.quorum ≤ T.length) (k : Nat) :
    ∃ j, getJustifiedQrc d k (flatten ord buf) r = some j := by
  by_cases hall : ∀ a ∈ T, isNullRc (rcOf a) = true
  · have := hc.null_length_ge (ord := ord) hT hnd hb hall
    exact ⟨_, getJustifiedQrc_null (by omega)⟩
  · have hT0 : T ≠ [] := by
      intro h0; apply hall; intro a ha; rw [h0] at ha; cases ha
    obtain ⟨am, ham, hmax⟩ := exists_max_of_ne_nil (fun a => (rcOf a).core.pr) T hT0
    -- the maximum is a prepared one
    have hnn : isNullRc (rcOf am) = false := by
      cases hn : isNullRc (rcOf am) with
      | false => rfl
      | true =>
        exfalso; apply hall
        intro a ha
        cases hna : isNullRc (rcOf a) with
        | true => rfl
        | false =>
          have h1 := ((hc.rc a (hT a ha)).pr_pos_of_not_null hna).1
          have h2 := hmax a ha
          simp only [isNullRc, Bool.and_eq_true, beq_iff_eq] at hn
          have h3 := hn.1
          omega
    obtain ⟨_, _, _, hcert⟩ := (hc.rc am (hT am ham)).pr_pos_of_not_null hnn
    apply getJustifiedQrc_complete d hc.qpos k _ r (rcOf am).core.pr (rcOf am).core.pv
    · rw [hc.frc_length hT hnd hb]; exact hq
    · intro c hcm
      obtain ⟨a, ha, rfl⟩ := hc.frc_sound hT hb hcm
      exact hmax a ha
    · exact ⟨(rcOf am).core, hc.frc_mem hT hb ham, rfl, rfl⟩
    · exact hcert.1
    · have := hcert.2.1; simpa using this
    · intro s hs
      obtain ⟨x, hx, rfl⟩ := List.mem_map.mp hs
      have := hcert.2.2 x hx
      refine ⟨x, ?_, this.1, this.2.1, this.2.2, rfl⟩
      rw [mem_flatten_bufIs hb]; exact RCtx.mem_just T ham hx

end RcBuffer

/-! ### single ROUND-CHANGE steps with whatever justification the selection finds -/

theorem step_rc_nonleader' {d : Def} {o : Oracle} {s : NodeState} {m : Msg} {qrc : List Core}
    (hd : s.dead = false) (hs : s.started = true) (hq : s.qCommit = [])
    (hj : isJustified d m s.compareFailureRound = some true)
    (ht : m.core.typ = tRoundChange) (hr : m.core.round = s.round)
    (hge : d.quorum ≤ (filterRoundChange (flatten o.srcOrd (bufferMsg d.fifo s.buffer m)) s.round).length)
    (hqrc : getJustifiedQrc d o.pqPerm (flatten o.srcOrd (bufferMsg d.fifo s.buffer m)) s.round = some qrc)
    (hl : d.leader s.round ≠ s.proc) :
    step d o s (.recv m .ok) = ({ s with buffer := bufferMsg d.fifo s.buffer m }, []) := by
  have hcl := classify_rc_quorum (d := d) (o := o) (proc := s.proc) ht hr hge hqrc
  rw [if_pos hl] at hcl
  have hrj := onRecvJustified_nothing (cmp := .ok) hcl
  rw [step_recv_undecided hd hs hq hj (by rw [hrj]; rfl), hrj]

theorem step_rc_dup' {d : Def} {o : Oracle} {s : NodeState} {m : Msg} {qrc : List Core}
    (hd : s.dead = false) (hs : s.started = true) (hq : s.qCommit = [])
    (hj : isJustified d m s.compareFailureRound = some true)
    (ht : m.core.typ = tRoundChange) (hr : m.core.round = s.round)
    (hge : d.quorum ≤ (filterRoundChange (flatten o.srcOrd (bufferMsg d.fifo s.buffer m)) s.round).length)
    (hqrc : getJustifiedQrc d o.pqPerm (flatten o.srcOrd (bufferMsg d.fifo s.buffer m)) s.round = some qrc)
    (hdd : (uQuorumRoundChanges, m.core.round) ∈ s.dedup) :
    step d o s (.recv m .ok) = ({ s with buffer := bufferMsg d.fifo s.buffer m }, []) := by
  have hcl := classify_rc_quorum (d := d) (o := o) (proc := s.proc) ht hr hge hqrc
  have hrj : onRecvJustified d o s m .ok = ({ s with buffer := bufferMsg d.fifo s.buffer m }, []) := by
    split at hcl
    · exact onRecvJustified_nothing hcl
    · exact onRecvJustified_dup hcl hdd
  rw [step_recv_undecided hd hs hq hj (by rw [hrj]; rfl), hrj]

/-- the leader of the current round receives the quorum-th ROUND-CHANGE: it broadcasts a PRE-PREPARE
carrying the selected justification `J` — for the value `getSingleJustifiedPrPv` extracts from `J`
(rule J2: a prepared value must be re-proposed) or, if there is none, for its own input. -/
theorem step_rc_fire {d : Def} {o : Oracle} {s : NodeState} {m : Msg} {J : List Core} {w : Nat}
    (hd : s.dead = false) (hs : s.started = true) (hq : s.qCommit = [])
    (hj : isJustified d m s.compareFailureRound = some true)
    (ht : m.core.typ = tRoundChange) (hr : m.core.round = s.round)
    (hge : d.quorum ≤ (filterRoundChange (flatten o.srcOrd (bufferMsg d.fifo s.buffer m)) s.round).length)
    (hqrc : getJustifiedQrc d o.pqPerm (flatten o.srcOrd (bufferMsg d.fifo s.buffer m)) s.round = some J)
    (hl : d.leader s.round = s.proc) (hdd : (uQuorumRoundChanges, m.core.round) ∉ s.dedup)
    (hcache : s.ppjCache = none)
    (hw : ((getSingleJustifiedPrPv d J).2.2 = true ∧
            s.compareFailureRound ≠ (getSingleJustifiedPrPv d J).1 ∧
            w = (getSingleJustifiedPrPv d J).2.1) ∨
          (¬ ((getSingleJustifiedPrPv d J).2.2 = true ∧
              s.compareFailureRound ≠ (getSingleJustifiedPrPv d J).1) ∧
            s.inputValue ≠ 0 ∧ w = s.inputValue)) :
    step d o s (.recv m .ok) =
      ({ s with buffer := bufferMsg d.fifo s.buffer m,
                dedup := (uQuorumRoundChanges, m.core.round) :: s.dedup },
       [.rule uQuorumRoundChanges s.round, .bcast tPrePrepare s.round w 0 0 J]) := by
  have hcl := classify_rc_quorum (d := d) (o := o) (proc := s.proc) ht hr hge hqrc
  rw [if_neg (by simp [hl])] at hcl
  have hrj := onRecvJustified_of_classify (cmp := .ok) hcl (by decide) hdd
  rw [onRule_qrc] at hrj
  have hqr : onQuorumRoundChanges d
        { s with buffer := bufferMsg d.fifo s.buffer m,
                 dedup := (uQuorumRoundChanges, m.core.round) :: s.dedup } J =
      ({ s with buffer := bufferMsg d.fifo s.buffer m,
                dedup := (uQuorumRoundChanges, m.core.round) :: s.dedup },
       [.bcast tPrePrepare s.round w 0 0 J]) := by
    unfold onQuorumRoundChanges
    rcases hw with ⟨h1, h2, h3⟩ | ⟨h1, h2, h3⟩
    · simp only
      rw [if_pos ⟨h1, h2⟩, h3]
      rfl
    · simp only
      rw [if_neg h1]
      unfold bcastOwnPrePrepare
      simp [hcache, h2, bcastMsg, h3]
  rw [hqr] at hrj
  rw [step_recv_undecided hd hs hq hj (by rw [hrj]; simp [Out.isBug]), hrj]

/-! ### Phase ROUND-CHANGE with prepared members -/

/-- the prepared state of a member. -/
def Prep3 (pr pv : Nat) (pj : List Core) (s : NodeState) : Prop :=
  s.preparedRound = pr ∧ s.preparedValue = pv ∧ s.preparedJust = pj

/-- invariant of the ROUND-CHANGE phase of member `p` (input value `iv`, old buffer `old`, prepared
state `s0`'s). -/
def InvR' (d : Def) (r iv p : Nat) (rcOf : Nat → Msg) (old : List Msg) (s0 : NodeState) (T : List Nat)
    (s : NodeState) : Prop :=
  Mid r p s ∧ BufIs s.buffer (old ++ T.map rcOf) ∧
    (uJustifiedPrePrepare, r) ∉ s.dedup ∧ (uQuorumPrepares, r) ∉ s.dedup ∧
    (uQuorumCommits, r) ∉ s.dedup ∧ s.ppjCache = none ∧ s.inputValue = iv ∧
    Prep3 s0.preparedRound s0.preparedValue s0.preparedJust s ∧
    ((uQuorumRoundChanges, r) ∈ s.dedup ↔ (d.leader r = p ∧ d.quorum ≤ T.length))

/-- which value the leader proposes, in terms of the ROUND-CHANGEs `Q` it had when the rule fired:
its own input if none of them carries a prepared value (J1), otherwise the value prepared in the
highest prepared round among them (J2). -/
def ValueSpec (rcOf : Nat → Msg) (Q : List Nat) (iv w : Nat) : Prop :=
  (w = iv ∧ ∀ b ∈ Q, isNullRc (rcOf b) = true) ∨
  (∃ a ∈ Q, 1 ≤ (rcOf a).core.pr ∧ w = (rcOf a).core.pv ∧
    ∀ b ∈ Q, (rcOf b).core.pr ≤ (rcOf a).core.pr)

/-- what the leader emits at the quorum-th ROUND-CHANGE. -/
def FireR' (d : Def) (r iv : Nat) (rcOf : Nat → Msg) (Q : List Nat) (outs : List Out) : Prop :=
  ∃ J w, outs = [.rule uQuorumRoundChanges r, .bcast tPrePrepare r w 0 0 J] ∧
    (∀ c ∈ J, BG r c ∧ PrepGood c ∧ c.round ≤ r) ∧ w ≠ 0 ∧
    isJustified d (ppMsg r w J (d.leader r)) 0 = some true ∧ ValueSpec rcOf Q iv w

theorem filter_all_of_length {α : Type} (p : α → Bool) (l : List α)
    (h : l.length ≤ (l.filter p).length) : ∀ x ∈ l, p x = true := by
  intro x hx
  cases hp : p x with
  | true => rfl
  | false => have := length_filter_lt_of_mem p l x hx hp; omega

theorem rc_step' {d : Def} {r : Nat} {rcOf : Nat → Msg} {R0 : List Nat} {old : List Msg} {B : Nat}
    (hc : RCtx d r rcOf R0 old B) (iv p : Nat) (s0 : NodeState)
    (hiv : d.leader r = p → iv ≠ 0 ∨ (R0.filter (fun a => isNullRc (rcOf a))).length < d.quorum)
    (T : List Nat) (a : Nat) (s : NodeState) (o : Oracle)
    (hpre : ∃ U, (T ++ [a]) ++ U = R0) (hinv : InvR' d r iv p rcOf old s0 T s) :
    InvR' d r iv p rcOf old s0 (T ++ [a]) (step d o s (.recv (rcOf a) .ok)).1 ∧
    (if T.length + 1 = (if d.leader r = p then d.quorum else 0) then
      FireR' d r iv rcOf (R0.take d.quorum) (step d o s (.recv (rcOf a) .ok)).2
     else (step d o s (.recv (rcOf a) .ok)).2 = []) := by
  obtain ⟨hm, hb, h1, h2, h3, hcache, hin, hp3, hdd⟩ := hinv
  have hnd := nodup_of_prefix hc.nodup hpre
  obtain ⟨U, hU⟩ := hpre
  have hT' : ∀ x ∈ T ++ [a], x ∈ R0 := by
    intro x hx; rw [← hU]; exact List.mem_append_left _ hx
  have haR : a ∈ R0 := hT' a (by simp)
  have hrca := hc.rc a haR
  have hq1 := hc.qpos
  have hbuf : BufIs (bufferMsg d.fifo s.buffer (rcOf a)) (old ++ (T ++ [a]).map rcOf) := by
    have := bufIs_bufferMsg (fifo := d.fifo) (m := rcOf a) hb (by
      have h := filter_src_map_le_one (mk := fun x => if x ∈ T ++ [a] then rcOf x else rcMsg r x)
        (by intro q; split
            · rename_i hq; exact (hc.rc q (hT' q hq)).src
            · rfl) hnd (rcOf a).core.src
      have hmap : (T ++ [a]).map (fun x => if x ∈ T ++ [a] then rcOf x else rcMsg r x) =
          (T ++ [a]).map rcOf := by
        apply List.map_congr_left
        intro x hx; rw [if_pos hx]
      rw [hmap] at h
      have h2 := hc.oldLen (rcOf a).core.src
      have hf := hc.fifo
      simp only [List.map_append, List.map_cons, List.map_nil, List.filter_append,
        List.length_append] at h ⊢
      omega)
    simpa using this
  have hcnt : (filterRoundChange (flatten o.srcOrd (bufferMsg d.fifo s.buffer (rcOf a))) s.round).length
      = T.length + 1 := by
    rw [hm.round, hc.frc_length hT' hnd hbuf]; simp
  have hj := hrca.justified hq1 s.compareFailureRound
  have hmid : ∀ s' : NodeState, s'.dead = s.dead → s'.started = s.started → s'.round = s.round →
      s'.qCommit = s.qCommit → s'.compareFailureRound = s.compareFailureRound → s'.proc = s.proc →
      Mid r p s' := by
    intro s' e1 e2 e3 e4 e5 e6
    exact ⟨e1.trans hm.dead, e2.trans hm.started, e3.trans hm.round, e4.trans hm.qc, e5.trans hm.cfr,
      e6.trans hm.proc⟩
  have hlen : (T ++ [a]).length = T.length + 1 := by simp
  have hquiet : step d o s (.recv (rcOf a) .ok) =
        ({ s with buffer := bufferMsg d.fifo s.buffer (rcOf a) }, []) →
      ¬ (d.leader r = p ∧ T.length + 1 = d.quorum) →
      InvR' d r iv p rcOf old s0 (T ++ [a]) (step d o s (.recv (rcOf a) .ok)).1 ∧
      (if T.length + 1 = (if d.leader r = p then d.quorum else 0) then
        FireR' d r iv rcOf (R0.take d.quorum) (step d o s (.recv (rcOf a) .ok)).2
       else (step d o s (.recv (rcOf a) .ok)).2 = []) := by
    intro hst hne
    rw [hst]
    refine ⟨⟨hmid _ rfl rfl rfl rfl rfl rfl, hbuf, h1, h2, h3, hcache, hin, hp3, ?_⟩, ?_⟩
    · rw [hlen]
      constructor
      · intro h; have := hdd.mp h; exact ⟨this.1, by omega⟩
      · intro h; apply hdd.mpr; refine ⟨h.1, ?_⟩
        have : T.length + 1 ≠ d.quorum := fun e => hne ⟨h.1, e⟩
        omega
    · rw [if_neg]
      intro h
      split at h
      · rename_i hl; exact hne ⟨hl, h⟩
      · omega
  by_cases hlt : T.length + 1 < d.quorum
  · exact hquiet (step_rc_below hm.dead hm.started hm.qc hj hrca.typ (by rw [hrca.round, hm.round])
      (by omega)) (fun h => by omega)
  · obtain ⟨J, hJ⟩ := hc.qrc_some (ord := o.srcOrd) hT' hnd hbuf (by rw [hlen]; omega) o.pqPerm
    have hJ' : getJustifiedQrc d o.pqPerm (flatten o.srcOrd (bufferMsg d.fifo s.buffer (rcOf a)))
        s.round = some J := by rw [hm.round]; exact hJ
    have hrr : (rcOf a).core.round = s.round := by rw [hrca.round, hm.round]
    by_cases hl : d.leader r = p
    · by_cases hq : T.length + 1 = d.quorum
      · -- the leader fires
        have hnot : (uQuorumRoundChanges, (rcOf a).core.round) ∉ s.dedup := by
          rw [hrca.round]; intro h; have := (hdd.mp h).2; omega
        have hQ : R0.take d.quorum = T ++ [a] := by
          rw [← hU, ← hq, ← hlen]; exact List.take_left'  rfl
        -- cores of J
        have hJbg : ∀ c ∈ J, BG r c ∧ PrepGood c ∧ c.round ≤ r := by
          intro c hcJ
          have := getJustifiedQrc_sub hJ c hcJ
          rw [mem_flatten_bufIs hbuf] at this
          exact hc.cores hT' c this
        rcases getJustifiedQrc_shape hJ with ⟨hj1, hlen1⟩ | ⟨p0, ps, qrc, hj2, hpq, hqrc, hlen2, hany⟩
        · -- J1: a quorum of null ROUND-CHANGEs — all of them are null, own input
          have hle := hc.null_length_le (ord := o.srcOrd) hT' hbuf
          rw [← hj1] at hle
          have hfl := List.length_filter_le (fun a => isNullRc (rcOf a)) (T ++ [a])
          have hallnull : ∀ b ∈ T ++ [a], isNullRc (rcOf b) = true :=
            filter_all_of_length _ _ (by omega)
          have hivne : iv ≠ 0 := by
            rcases hiv hl with h | h
            · exact h
            · exfalso
              have : ((T ++ [a]).filter (fun a => isNullRc (rcOf a))).length ≤
                  (R0.filter (fun a => isNullRc (rcOf a))).length := by
                rw [← hU, List.filter_append (T ++ [a])]
                simp only [List.length_append]; omega
              omega
          have hsingle : getSingleJustifiedPrPv d J = (0, 0, false) := by
            apply getSingle_no_prepare d hq1
            intro c hcJ
            rw [hj1] at hcJ
            rw [(filterMsgs_sound hcJ).2.1]
            exact tRoundChange_ne_tPrepare
          have hst := step_rc_fire (d := d) (o := o) (m := rcOf a) (J := J) (w := iv) hm.dead hm.started
            hm.qc hj hrca.typ hrr (by omega) hJ' (by rw [hm.round, hm.proc]; exact hl) hnot hcache
            (Or.inr ⟨by rw [hsingle]; simp, by rw [hin]; exact hivne, hin.symm⟩)
          rw [hst, if_pos (by rw [if_pos hl]; exact hq)]
          refine ⟨⟨hmid _ rfl rfl rfl rfl rfl rfl, hbuf, ?_, ?_, ?_, hcache, hin, hp3, ?_⟩, ?_⟩
          · simp only [hrca.round, List.mem_cons, Prod.mk.injEq, not_or]
            exact ⟨by simp [uQuorumRoundChanges, uJustifiedPrePrepare], h1⟩
          · simp only [hrca.round, List.mem_cons, Prod.mk.injEq, not_or]
            exact ⟨by simp [uQuorumRoundChanges, uQuorumPrepares], h2⟩
          · simp only [hrca.round, List.mem_cons, Prod.mk.injEq, not_or]
            exact ⟨by simp [uQuorumRoundChanges, uQuorumCommits], h3⟩
          · rw [hlen]
            constructor
            · intro _; exact ⟨hl, by omega⟩
            · intro _; rw [hrca.round]; exact List.mem_cons_self
          · refine ⟨J, iv, by simp only [hm.round], hJbg, hivne, ?_, ?_⟩
            · apply ppMsg_justified_r d r iv J hivne
              rw [hj1]
              exact null_quorum_contains hq1 (by rw [← hj1]; exact hlen1)
            · left; rw [hQ]; exact ⟨rfl, hallnull⟩
        · -- J2: re-propose the value prepared in the highest prepared round
          obtain ⟨hndp, hplen, r0, v0, hpall⟩ := getPrepareQuorums_ok hpq
          have hp0 := hpall p0 List.mem_cons_self
          have hpall' : ∀ c ∈ p0 :: ps, c.typ = tPrepare ∧ c.round = p0.round ∧ c.value = p0.value := by
            intro c hcm
            have := hpall c hcm
            exact ⟨this.1, by rw [this.2.1, hp0.2.1], by rw [this.2.2, hp0.2.2]⟩
          have hqrcall : ∀ c ∈ qrc, c.typ = tRoundChange := by
            intro c hcm
            rw [hqrc] at hcm
            exact (filterMsgs_sound (List.mem_filter.mp hcm).1).2.1
          have hsingle : getSingleJustifiedPrPv d J = (p0.round, p0.value, true) := by
            rw [hj2, getSingle_complete d qrc p0 ps _ hpall' hndp]
            · simp only [Prod.mk.injEq, decide_eq_true_eq, true_and]; exact hplen
            · intro c hcm
              rw [hqrcall c hcm]
              exact tRoundChange_ne_tPrepare
          have hp0mem : p0 ∈ coresOf (old ++ (T ++ [a]).map rcOf) := by
            rw [← mem_flatten_bufIs hbuf (ord := o.srcOrd)]
            exact mem_getPrepareQuorums hpq List.mem_cons_self
          have hp0good := (hc.cores hT' p0 hp0mem).2.1 hp0.1
          have hst := step_rc_fire (d := d) (o := o) (m := rcOf a) (J := J) (w := p0.value) hm.dead
            hm.started hm.qc hj hrca.typ hrr (by omega) hJ' (by rw [hm.round, hm.proc]; exact hl) hnot
            hcache (Or.inl ⟨by rw [hsingle], by rw [hsingle, hm.cfr]; simp; omega, by rw [hsingle]⟩)
          rw [hst, if_pos (by rw [if_pos hl]; exact hq)]
          refine ⟨⟨hmid _ rfl rfl rfl rfl rfl rfl, hbuf, ?_, ?_, ?_, hcache, hin, hp3, ?_⟩, ?_⟩
          · simp only [hrca.round, List.mem_cons, Prod.mk.injEq, not_or]
            exact ⟨by simp [uQuorumRoundChanges, uJustifiedPrePrepare], h1⟩
          · simp only [hrca.round, List.mem_cons, Prod.mk.injEq, not_or]
            exact ⟨by simp [uQuorumRoundChanges, uQuorumPrepares], h2⟩
          · simp only [hrca.round, List.mem_cons, Prod.mk.injEq, not_or]
            exact ⟨by simp [uQuorumRoundChanges, uQuorumCommits], h3⟩
          · rw [hlen]
            constructor
            · intro _; exact ⟨hl, by omega⟩
            · intro _; rw [hrca.round]; exact List.mem_cons_self
          · refine ⟨J, p0.value, by simp only [hm.round], hJbg, hp0good.1, ?_, ?_⟩
            · rcases getJustifiedQrc_contains d hq1 hJ with ⟨_, hs0⟩ | ⟨pr, pv, hs1, hcon, _⟩
              · rw [hsingle] at hs0; simp at hs0
              · rw [hsingle] at hs1
                simp only [Prod.mk.injEq, and_true] at hs1
                obtain ⟨_, rfl⟩ := hs1
                apply justified_prePrepare d (d.leader r) r p0.value J 0 rfl hp0good.1
                rcases hcon with h | h
                · exact Or.inr (Or.inr h)
                · exact Or.inr (Or.inl h)
            · right
              rw [hQ]
              obtain ⟨c, hcq, hceq⟩ := List.any_eq_true.mp hany
              simp only [Bool.and_eq_true, beq_iff_eq] at hceq
              have hcF : c ∈ filterRoundChange (flatten o.srcOrd (bufferMsg d.fifo s.buffer (rcOf a))) r := by
                rw [hqrc] at hcq; exact (List.mem_filter.mp hcq).1
              obtain ⟨a', ha', rfl⟩ := hc.frc_sound hT' hbuf hcF
              refine ⟨a', ha', by rw [hceq.1]; exact hp0good.2, hceq.2.symm, ?_⟩
              intro b hb
              rw [hceq.1]
              have hbF := hc.frc_mem (ord := o.srcOrd) hT' hbuf hb
              cases hpb : decide ((rcOf b).core.pr ≤ p0.round) with
              | true => simpa using hpb
              | false =>
                exfalso
                have := length_filter_lt_of_mem (fun rc : Core => decide (rc.pr ≤ p0.round)) _ _ hbF hpb
                rw [← hqrc, hc.frc_length hT' hnd hbuf, hlen] at this
                omega
      · have hdd' : (uQuorumRoundChanges, (rcOf a).core.round) ∈ s.dedup := by
          rw [hrca.round]; exact hdd.mpr ⟨hl, by omega⟩
        exact hquiet (step_rc_dup' hm.dead hm.started hm.qc hj hrca.typ hrr (by omega) hJ' hdd')
          (fun h => hq h.2)
    · exact hquiet (step_rc_nonleader' hm.dead hm.started hm.qc hj hrca.typ hrr (by omega) hJ'
        (by rw [hm.round, hm.proc]; exact hl)) (fun h => hl h.1)

/-! ### PRE-PREPARE / PREPARE / COMMIT phases over a buffer that holds earlier rounds

The phase lemmas of `QbftGoodRound` again, for a member whose buffer already holds messages of
earlier rounds and ROUND-CHANGEs with attached PREPAREs (`BG`), with the prepared state and the
input tracked through the phases (`Aux`), and without assuming that a quorum is reached (a phase in
which fewer than a quorum of messages arrive is silent). -/

/-- bookkeeping carried through the phases: prepared state, input, armed timer. -/
structure Aux (pr pv : Nat) (pj : List Core) (iv : Nat) (s : NodeState) : Prop where
  pr : s.preparedRound = pr
  pv : s.preparedValue = pv
  pj : s.preparedJust = pj
  iv : s.inputValue = iv
  timer : s.timerOn = true

structure PCtx (d : Def) (R1 R2 : List Nat) (r v : Nat) (pre0 : List Msg) (J : List Core)
    (b0 : Nat) : Prop where
  nodup1 : R1.Nodup
  nodup2 : R2.Nodup
  qpos : 1 ≤ d.quorum
  pre0_bg : ∀ c ∈ coresOf pre0, BG r c
  J_bg : ∀ c ∈ J, BG r c
  pre0_len : ∀ s, (pre0.filter (fun x => x.core.src == s)).length ≤ b0
  fifo : b0 + 3 ≤ d.fifo
  ppJust : isJustified d (ppMsg r v J (d.leader r)) 0 = some true

theorem PCtx.fifo_ok {d : Def} {R1 R2 : List Nat} {r v : Nat} {pre0 : List Msg} {J : List Core}
    {b0 : Nat} (hc : PCtx d R1 R2 r v pre0 J b0) {del : List Msg} {m : Msg}
    (hp : ∃ rest, (del ++ [m]) ++ rest = fullDel d R1 R2 r v pre0 J) :
    ((del ++ [m]).filter (fun x => x.core.src == m.core.src)).length ≤ d.fifo := by
  obtain ⟨rest, hrest⟩ := hp
  have h1 : ((del ++ [m]).filter (fun x => x.core.src == m.core.src)).length ≤
      ((fullDel d R1 R2 r v pre0 J).filter (fun x => x.core.src == m.core.src)).length := by
    rw [← hrest, List.filter_append (del ++ [m]), List.length_append]
    omega
  have h2 := hc.pre0_len m.core.src
  have h3 := filter_src_map_le_one (mk := prepMsg r v) (fun _ => rfl) hc.nodup1 m.core.src
  have h4 := filter_src_map_le_one (mk := commitMsg r v) (fun _ => rfl) hc.nodup2 m.core.src
  have h5 : ([ppMsg r v J (d.leader r)].filter (fun x => x.core.src == m.core.src)).length ≤ 1 := by
    have := List.length_filter_le (fun x : Msg => x.core.src == m.core.src) [ppMsg r v J (d.leader r)]
    simpa using this
  have hfifo := hc.fifo
  unfold fullDel at h1
  simp only [List.filter_append, List.length_append] at h1 ⊢
  omega

theorem bg_not (r : Nat) {c : Core} (h : BG r c) {typ : Nat} (ht : typ ≠ tRoundChange) :
    ¬ (c.typ = typ ∧ c.round = r) := by
  rintro ⟨h1, h2⟩
  rcases h with h | h
  · exact ht (h1.symm.trans h)
  · omega

theorem ppMsg_cores' {r v : Nat} {J : List Core} {p : Nat} (hJ : ∀ c ∈ J, BG r c) :
    ∀ c ∈ coresOf [ppMsg r v J p], c.typ = tPrePrepare ∨ BG r c := by
  intro c hc
  simp only [coresOf, List.flatMap_cons, List.flatMap_nil, List.append_nil, List.mem_cons] at hc
  rcases hc with rfl | hc
  · exact Or.inl rfl
  · exact Or.inr (hJ c hc)

/-- counting for every oracle order, background = anything that is not a `typ` of round `r`. -/
theorem count_delivered' {ord : List Nat} {buf : List (Nat × List Msg)} {pre : List Msg}
    {T : List Nat} {mk : Nat → Msg} {typ r : Nat} {value pr pv : Option Nat}
    (hb : BufIs buf (pre ++ T.map mk)) (hT : T.Nodup)
    (hpre : ∀ c ∈ coresOf pre, ¬ (c.typ = typ ∧ c.round = r))
    (hmk : ∀ q, Matches typ r value pr pv (mk q).core ∧ (mk q).core.src = q ∧ (mk q).just = []) :
    (filterMsgs (flatten ord buf) typ r value pr pv).length = T.length := by
  apply filterMsgs_length_eq T hT
  · intro s hs
    refine ⟨(mk s).core, ?_, (hmk s).1, (hmk s).2.1⟩
    rw [mem_flatten_bufIs hb, coresOf_append]
    apply List.mem_append_right
    unfold coresOf
    rw [List.mem_flatMap]
    exact ⟨mk s, List.mem_map.mpr ⟨s, hs, rfl⟩, List.mem_cons_self⟩
  · intro c hc hm
    rw [mem_flatten_bufIs hb, coresOf_append] at hc
    rcases List.mem_append.mp hc with hc | hc
    · exact absurd ⟨hm.1, hm.2.1⟩ (hpre c hc)
    · unfold coresOf at hc
      obtain ⟨x, hx, hcx⟩ := List.mem_flatMap.mp hc
      obtain ⟨q, hq, rfl⟩ := List.mem_map.mp hx
      rw [(hmk q).2.2] at hcx
      simp only [List.mem_cons, List.not_mem_nil, or_false] at hcx
      rw [hcx, (hmk q).2.1]
      exact hq

/-! #### Phase PRE-PREPARE -/

theorem pp_phase' {d : Def} {R1 R2 : List Nat} {r v : Nat} {pre0 : List Msg} {J : List Core}
    {b0 : Nat} (hc : PCtx d R1 R2 r v pre0 J b0) {p : Nat} {s : NodeState} (o : Oracle)
    (hm : Mid r p s) (hb : BufIs s.buffer pre0)
    (h1 : (uJustifiedPrePrepare, r) ∉ s.dedup) (h2 : (uQuorumPrepares, r) ∉ s.dedup)
    (h3 : (uQuorumCommits, r) ∉ s.dedup) :
    Mid r p (step d o s (.recv (ppMsg r v J (d.leader r)) .ok)).1 ∧
    BufIs (step d o s (.recv (ppMsg r v J (d.leader r)) .ok)).1.buffer
      (pre0 ++ [ppMsg r v J (d.leader r)]) ∧
    (uQuorumPrepares, r) ∉ (step d o s (.recv (ppMsg r v J (d.leader r)) .ok)).1.dedup ∧
    (uQuorumCommits, r) ∉ (step d o s (.recv (ppMsg r v J (d.leader r)) .ok)).1.dedup ∧
    Aux s.preparedRound s.preparedValue s.preparedJust s.inputValue
      (step d o s (.recv (ppMsg r v J (d.leader r)) .ok)).1 ∧
    (step d o s (.recv (ppMsg r v J (d.leader r)) .ok)).2 =
      [.rule uJustifiedPrePrepare r, .stopTimer, .newTimer r, .bcast tPrepare r v 0 0 []] := by
  have hj : isJustified d (ppMsg r v J (d.leader r)) s.compareFailureRound = some true := by
    rw [hm.cfr]; exact hc.ppJust
  have hst := step_prePrepare (d := d) (o := o) (m := ppMsg r v J (d.leader r)) hm.dead hm.started
    hm.qc hj rfl hm.round.symm h1
  rw [hst]
  have hbuf : BufIs (bufferMsg d.fifo s.buffer (ppMsg r v J (d.leader r)))
      (pre0 ++ [ppMsg r v J (d.leader r)]) := by
    apply bufIs_bufferMsg hb
    apply hc.fifo_ok
    exact ⟨R1.map (prepMsg r v) ++ R2.map (commitMsg r v), by simp [fullDel]⟩
  refine ⟨⟨hm.dead, hm.started, hm.round, hm.qc, hm.cfr, hm.proc⟩, hbuf, ?_, ?_, ⟨rfl, rfl, rfl, rfl, rfl⟩, ?_⟩
  · simp only [ppMsg, List.mem_cons, Prod.mk.injEq, not_or]
    exact ⟨by simp [uQuorumPrepares, uJustifiedPrePrepare], h2⟩
  · simp only [ppMsg, List.mem_cons, Prod.mk.injEq, not_or]
    exact ⟨by simp [uQuorumCommits, uJustifiedPrePrepare], h3⟩
  · simp [hm.round, ppMsg]

/-! #### Phase PREPARE -/

/-- invariant of the PREPARE phase after the PREPAREs of the members `T` were delivered: below the
quorum the prepared state is the one the member had (`pr0, pv0, pj0`), from the quorum on it is
`(r, v)` with a valid certificate. -/
def InvP' (d : Def) (r v : Nat) (pre : List Msg) (p pr0 pv0 : Nat) (pj0 : List Core) (iv : Nat)
    (T : List Nat) (s : NodeState) : Prop :=
  Mid r p s ∧ BufIs s.buffer (pre ++ T.map (prepMsg r v)) ∧
    ((uQuorumPrepares, r) ∈ s.dedup ↔ d.quorum ≤ T.length) ∧ (uQuorumCommits, r) ∉ s.dedup ∧
    (T.length < d.quorum → Aux pr0 pv0 pj0 iv s) ∧
    (d.quorum ≤ T.length → ∃ pj, Aux r v pj iv s ∧ Cert d r v pj)

theorem prepare_step' {d : Def} {R1 R2 : List Nat} {r v : Nat} {pre0 : List Msg} {J : List Core}
    {b0 : Nat} (hc : PCtx d R1 R2 r v pre0 J b0) (p pr0 pv0 : Nat) (pj0 : List Core) (iv : Nat)
    (T : List Nat) (a : Nat) (s : NodeState) (o : Oracle)
    (hpre : ∃ U, (T ++ [a]) ++ U = R1)
    (hinv : InvP' d r v (pre0 ++ [ppMsg r v J (d.leader r)]) p pr0 pv0 pj0 iv T s) :
    InvP' d r v (pre0 ++ [ppMsg r v J (d.leader r)]) p pr0 pv0 pj0 iv (T ++ [a])
      (step d o s (.recv (prepMsg r v a) .ok)).1 ∧
    (if T.length + 1 = d.quorum then
      (step d o s (.recv (prepMsg r v a) .ok)).2 =
        [.rule uQuorumPrepares r, .bcast tCommit r v 0 0 []]
     else (step d o s (.recv (prepMsg r v a) .ok)).2 = []) := by
  obtain ⟨hm, hb, hdd, h3, hlo, hhi⟩ := hinv
  obtain ⟨U, hU⟩ := hpre
  have hnd := nodup_of_prefix hc.nodup1 ⟨U, hU⟩
  have hbuf : BufIs (bufferMsg d.fifo s.buffer (prepMsg r v a))
      ((pre0 ++ [ppMsg r v J (d.leader r)]) ++ (T ++ [a]).map (prepMsg r v)) := by
    have := bufIs_bufferMsg (fifo := d.fifo) (m := prepMsg r v a) hb (by
      apply hc.fifo_ok
      refine ⟨U.map (prepMsg r v) ++ R2.map (commitMsg r v), ?_⟩
      rw [← hU]; simp [fullDel])
    simpa using this
  have hcount : (filterByRoundAndValue (flatten o.srcOrd (bufferMsg d.fifo s.buffer (prepMsg r v a)))
      tPrepare r v).length = T.length + 1 := by
    unfold filterByRoundAndValue
    rw [count_delivered' hbuf hnd]
    · simp
    · intro c hcm
      rw [coresOf_append] at hcm
      rcases List.mem_append.mp hcm with h | h
      · exact bg_not r (hc.pre0_bg c h) (by decide)
      · rcases ppMsg_cores' hc.J_bg c h with h | h
        · rintro ⟨h1, _⟩; rw [h] at h1; exact absurd h1 (by decide)
        · exact bg_not r h (by decide)
    · intro q
      exact ⟨⟨rfl, rfl, by simp [prepMsg], by simp, by simp⟩, rfl, rfl⟩
  have hst := step_prepare (d := d) (o := o) (m := prepMsg r v a) hm.dead hm.started hm.qc rfl
    hm.round.symm
  have hcount' : (filterByRoundAndValue (flatten o.srcOrd (bufferMsg d.fifo s.buffer (prepMsg r v a)))
      tPrepare (prepMsg r v a).core.round (prepMsg r v a).core.value).length = T.length + 1 := hcount
  rw [hcount'] at hst
  have hmid : ∀ s' : NodeState, s'.dead = s.dead → s'.started = s.started → s'.round = s.round →
      s'.qCommit = s.qCommit → s'.compareFailureRound = s.compareFailureRound → s'.proc = s.proc →
      Mid r p s' := by
    intro s' e1 e2 e3 e4 e5 e6
    exact ⟨e1.trans hm.dead, e2.trans hm.started, e3.trans hm.round, e4.trans hm.qc, e5.trans hm.cfr,
      e6.trans hm.proc⟩
  by_cases hq : T.length + 1 = d.quorum
  · have hnot : (uQuorumPrepares, (prepMsg r v a).core.round) ∉ s.dedup := by
      intro h; have := hdd.mp h; omega
    rw [if_pos ⟨by omega, hnot⟩] at hst
    rw [hst, if_pos hq]
    have haux := hlo (by omega)
    refine ⟨⟨hmid _ rfl rfl rfl rfl rfl rfl, hbuf, ?_, ?_, ?_, ?_⟩, by simp [hm.round, prepMsg]⟩
    · simp only [List.length_append, List.length_singleton]
      constructor
      · intro _; omega
      · intro _; exact List.mem_cons_self
    · simp only [prepMsg, List.mem_cons, Prod.mk.injEq, not_or]
      exact ⟨by simp [uQuorumCommits, uQuorumPrepares], h3⟩
    · intro h; simp only [List.length_append, List.length_singleton] at h; omega
    · intro _
      refine ⟨_, ⟨hm.round, rfl, rfl, haux.iv, haux.timer⟩, ?_, ?_, ?_⟩
      · exact filterMsgs_nodup _ _ _ _ _ _
      · rw [hcount']; omega
      · intro c hcm
        have := filterMsgs_sound hcm
        exact ⟨this.2.1, this.2.2.1, this.2.2.2.1 _ rfl⟩
  · have hno : ¬ (d.quorum ≤ T.length + 1 ∧ (uQuorumPrepares, (prepMsg r v a).core.round) ∉ s.dedup) := by
      intro ⟨h1, h2⟩
      apply h2
      apply hdd.mpr
      omega
    rw [if_neg hno] at hst
    rw [hst, if_neg hq]
    refine ⟨⟨hmid _ rfl rfl rfl rfl rfl rfl, hbuf, ?_, h3, ?_, ?_⟩, rfl⟩
    · simp only [List.length_append, List.length_singleton]
      constructor
      · intro h; have := hdd.mp h; omega
      · intro h; apply hdd.mpr; omega
    · intro h; simp only [List.length_append, List.length_singleton] at h
      have := hlo (by omega)
      exact ⟨this.pr, this.pv, this.pj, this.iv, this.timer⟩
    · intro h; simp only [List.length_append, List.length_singleton] at h
      obtain ⟨pj, ha, hcert⟩ := hhi (by omega)
      exact ⟨pj, ⟨ha.pr, ha.pv, ha.pj, ha.iv, ha.timer⟩, hcert⟩

/-! #### Phase COMMIT -/

def InvC' (d : Def) (r v : Nat) (pre : List Msg) (p a b : Nat) (c : List Core) (iv : Nat)
    (T : List Nat) (s : NodeState) : Prop :=
  (T.length < d.quorum → Mid r p s ∧ BufIs s.buffer (pre ++ T.map (commitMsg r v)) ∧
      (uQuorumCommits, r) ∉ s.dedup ∧ Aux a b c iv s) ∧
  (d.quorum ≤ T.length → Done v s)

theorem commit_step' {d : Def} {R1 R2 : List Nat} {r v : Nat} {pre0 : List Msg} {J : List Core}
    {b0 : Nat} (hc : PCtx d R1 R2 r v pre0 J b0) (p a0 b0' : Nat) (c0 : List Core) (iv : Nat)
    (T : List Nat) (a : Nat) (s : NodeState) (o : Oracle)
    (hpre : ∃ U, (T ++ [a]) ++ U = R2)
    (hinv : InvC' d r v (pre0 ++ [ppMsg r v J (d.leader r)] ++ R1.map (prepMsg r v)) p a0 b0' c0 iv T s) :
    InvC' d r v (pre0 ++ [ppMsg r v J (d.leader r)] ++ R1.map (prepMsg r v)) p a0 b0' c0 iv (T ++ [a])
      (step d o s (.recv (commitMsg r v a) .ok)).1 ∧
    (if T.length + 1 = d.quorum then
      ∃ j, (step d o s (.recv (commitMsg r v a) .ok)).2 =
        [.rule uQuorumCommits r, .stopTimer, .decide v r j]
     else (step d o s (.recv (commitMsg r v a) .ok)).2 = []) := by
  obtain ⟨hlow, hhigh⟩ := hinv
  obtain ⟨U, hU⟩ := hpre
  have hnd := nodup_of_prefix hc.nodup2 ⟨U, hU⟩
  by_cases hdone : d.quorum ≤ T.length
  · have hd := hhigh hdone
    rw [step_recv_decided hd.dead hd.started hd.qc (show (commitMsg r v a).core.typ ≠ tRoundChange by
      show tCommit ≠ tRoundChange; decide), if_neg (by omega)]
    refine ⟨⟨?_, fun _ => hd⟩, rfl⟩
    intro h; simp only [List.length_append, List.length_singleton] at h; omega
  · obtain ⟨hm, hb, h3, haux⟩ := hlow (by omega)
    have hbuf : BufIs (bufferMsg d.fifo s.buffer (commitMsg r v a))
        ((pre0 ++ [ppMsg r v J (d.leader r)] ++ R1.map (prepMsg r v)) ++
          (T ++ [a]).map (commitMsg r v)) := by
      have := bufIs_bufferMsg (fifo := d.fifo) (m := commitMsg r v a) hb (by
        apply hc.fifo_ok
        refine ⟨U.map (commitMsg r v), ?_⟩
        rw [← hU]; simp [fullDel])
      simpa using this
    have hcount : (filterByRoundAndValue
        (flatten o.srcOrd (bufferMsg d.fifo s.buffer (commitMsg r v a)))
        tCommit (commitMsg r v a).core.round (commitMsg r v a).core.value).length = T.length + 1 := by
      show (filterByRoundAndValue _ tCommit r v).length = _
      unfold filterByRoundAndValue
      rw [count_delivered' hbuf hnd]
      · simp
      · intro c hcm
        rw [coresOf_append, coresOf_append] at hcm
        rcases List.mem_append.mp hcm with h | h
        · rcases List.mem_append.mp h with h | h
          · exact bg_not r (hc.pre0_bg c h) (by decide)
          · rcases ppMsg_cores' hc.J_bg c h with h | h
            · rintro ⟨h1, _⟩; rw [h] at h1; exact absurd h1 (by decide)
            · exact bg_not r h (by decide)
        · rintro ⟨h1, _⟩
          rw [map_cores (mk := prepMsg r v) (typ := tPrepare) (fun _ => ⟨rfl, rfl⟩) R1 c h] at h1
          exact absurd h1 (by decide)
      · intro q
        exact ⟨⟨rfl, rfl, by simp [commitMsg], by simp, by simp⟩, rfl, rfl⟩
    have hst := step_commit (d := d) (o := o) (m := commitMsg r v a) hm.dead hm.started hm.qc rfl
      hm.round.symm
    by_cases hq : T.length + 1 = d.quorum
    · rw [if_pos ⟨by omega, h3⟩] at hst
      rw [hst, if_pos hq]
      refine ⟨⟨?_, ?_⟩, ⟨filterByRoundAndValue
        (flatten o.srcOrd (bufferMsg d.fifo s.buffer (commitMsg r v a))) tCommit r v, ?_⟩⟩
      rotate_left 2
      · simp only [hm.round]; rfl
      · intro h; simp only [List.length_append, List.length_singleton] at h; omega
      · intro _
        refine ⟨hm.dead, hm.started, ?_, rfl⟩
        intro hnil
        have h0 : (filterByRoundAndValue
          (flatten o.srcOrd (bufferMsg d.fifo s.buffer (commitMsg r v a)))
          tCommit (commitMsg r v a).core.round (commitMsg r v a).core.value).length = 0 := by
          simp only at hnil
          rw [hnil]; rfl
        have := hc.qpos
        omega
    · rw [if_neg (by omega)] at hst
      rw [hst, if_neg hq]
      refine ⟨⟨?_, ?_⟩, rfl⟩
      · intro _
        exact ⟨⟨hm.dead, hm.started, hm.round, hm.qc, hm.cfr, hm.proc⟩, hbuf, h3,
          ⟨haux.pr, haux.pv, haux.pj, haux.iv, haux.timer⟩⟩
      · intro h; simp only [List.length_append, List.length_singleton] at h; omega

/-! #### Whole phases of one member -/

theorem pp_run' {d : Def} {R1 R2 : List Nat} {r v : Nat} {pre0 : List Msg} {J : List Core}
    {b0 : Nat} (hc : PCtx d R1 R2 r v pre0 J b0) {p : Nat} {s : NodeState} (orc : Nat → Oracle) (k : Nat)
    (hm : Mid r p s) (hb : BufIs s.buffer pre0)
    (h1 : (uJustifiedPrePrepare, r) ∉ s.dedup) (h2 : (uQuorumPrepares, r) ∉ s.dedup)
    (h3 : (uQuorumCommits, r) ∉ s.dedup) :
    InvP' d r v (pre0 ++ [ppMsg r v J (d.leader r)]) p s.preparedRound s.preparedValue s.preparedJust
      s.inputValue [] (runO d s (recvs orc k [ppMsg r v J (d.leader r)])).1 ∧
    (runO d s (recvs orc k [ppMsg r v J (d.leader r)])).2 =
      [.rule uJustifiedPrePrepare r, .stopTimer, .newTimer r, .bcast tPrepare r v 0 0 []] := by
  obtain ⟨a1, a2, a3, a4, a5, a6⟩ := pp_phase' hc (orc k) hm hb h1 h2 h3
  simp only [recvs, runO, List.append_nil]
  have hq := hc.qpos
  refine ⟨⟨a1, by simpa using a2, ?_, a4, fun _ => a5, ?_⟩, a6⟩
  · constructor
    · intro h; exact absurd h a3
    · intro h; simp at h; omega
  · intro h; simp at h; omega

theorem prepare_run' {d : Def} {R1 R2 : List Nat} {r v : Nat} {pre0 : List Msg} {J : List Core}
    {b0 : Nat} (hc : PCtx d R1 R2 r v pre0 J b0) {p pr0 pv0 : Nat} {pj0 : List Core} {iv : Nat}
    {s : NodeState} (orc : Nat → Oracle) (k : Nat)
    (hinv : InvP' d r v (pre0 ++ [ppMsg r v J (d.leader r)]) p pr0 pv0 pj0 iv [] s) :
    InvP' d r v (pre0 ++ [ppMsg r v J (d.leader r)]) p pr0 pv0 pj0 iv R1
      (runO d s (recvs orc k (R1.map (prepMsg r v)))).1 ∧
    (runO d s (recvs orc k (R1.map (prepMsg r v)))).2 =
      (if d.quorum ≤ R1.length then [.rule uQuorumPrepares r, .bcast tCommit r v 0 0 []] else []) := by
  have := thresh_run d R1 (prepMsg r v) (InvP' d r v (pre0 ++ [ppMsg r v J (d.leader r)]) p pr0 pv0 pj0 iv)
    (fun outs => outs = [.rule uQuorumPrepares r, .bcast tCommit r v 0 0 []]) d.quorum
    (fun T a s o hpre hinv => prepare_step' hc p pr0 pv0 pj0 iv T a s o hpre hinv) R1 [] s orc k rfl hinv
  have hq := hc.qpos
  refine ⟨this.1, ?_⟩
  have h2 := this.2
  by_cases hq' : d.quorum ≤ R1.length
  · rw [if_pos ⟨by simp; omega, hq'⟩] at h2
    rw [if_pos hq']; exact h2
  · rw [if_neg (fun h => hq' h.2)] at h2
    rw [if_neg hq']; exact h2

theorem commit_run' {d : Def} {R1 R2 : List Nat} {r v : Nat} {pre0 : List Msg} {J : List Core}
    {b0 : Nat} (hc : PCtx d R1 R2 r v pre0 J b0) {p a0 b0' : Nat} {c0 : List Core} {iv : Nat}
    {s : NodeState} (orc : Nat → Oracle) (k : Nat)
    (hm : Mid r p s)
    (hb : BufIs s.buffer (pre0 ++ [ppMsg r v J (d.leader r)] ++ R1.map (prepMsg r v)))
    (h3 : (uQuorumCommits, r) ∉ s.dedup) (haux : Aux a0 b0' c0 iv s) :
    InvC' d r v (pre0 ++ [ppMsg r v J (d.leader r)] ++ R1.map (prepMsg r v)) p a0 b0' c0 iv R2
      (runO d s (recvs orc k (R2.map (commitMsg r v)))).1 ∧
    (if d.quorum ≤ R2.length then
      ∃ j, (runO d s (recvs orc k (R2.map (commitMsg r v)))).2 =
        [.rule uQuorumCommits r, .stopTimer, .decide v r j]
     else (runO d s (recvs orc k (R2.map (commitMsg r v)))).2 = []) := by
  have hq := hc.qpos
  have h0 : InvC' d r v (pre0 ++ [ppMsg r v J (d.leader r)] ++ R1.map (prepMsg r v)) p a0 b0' c0 iv [] s := by
    refine ⟨fun _ => ⟨hm, by simpa using hb, h3, haux⟩, ?_⟩
    intro h; simp at h; omega
  have := thresh_run d R2 (commitMsg r v)
    (InvC' d r v (pre0 ++ [ppMsg r v J (d.leader r)] ++ R1.map (prepMsg r v)) p a0 b0' c0 iv)
    (fun outs => ∃ j, outs = [.rule uQuorumCommits r, .stopTimer, .decide v r j]) d.quorum
    (fun T a s o hpre hinv => commit_step' hc p a0 b0' c0 iv T a s o hpre hinv) R2 [] s orc k rfl h0
  refine ⟨this.1, ?_⟩
  have h2 := this.2
  by_cases hq' : d.quorum ≤ R2.length
  · rw [if_pos ⟨by simp; omega, hq'⟩] at h2
    rw [if_pos hq']; exact h2
  · rw [if_neg (fun h => hq' h.2)] at h2
    rw [if_neg hq']; exact h2

theorem rc_run' {d : Def} {r : Nat} {rcOf : Nat → Msg} {R0 : List Nat} {old : List Msg} {B : Nat}
    (hc : RCtx d r rcOf R0 old B) (hq : d.quorum ≤ R0.length) (iv p : Nat) (s0 : NodeState)
    (hiv : d.leader r = p → iv ≠ 0 ∨ (R0.filter (fun a => isNullRc (rcOf a))).length < d.quorum)
    {s : NodeState} (orc : Nat → Oracle) (k : Nat) (hinv : InvR' d r iv p rcOf old s0 [] s) :
    InvR' d r iv p rcOf old s0 R0 (runO d s (recvs orc k (R0.map rcOf))).1 ∧
    (if d.leader r = p then
      FireR' d r iv rcOf (R0.take d.quorum) (runO d s (recvs orc k (R0.map rcOf))).2
     else (runO d s (recvs orc k (R0.map rcOf))).2 = []) := by
  have := thresh_run d R0 rcOf (InvR' d r iv p rcOf old s0) (FireR' d r iv rcOf (R0.take d.quorum))
    (if d.leader r = p then d.quorum else 0)
    (fun T a s o hpre hinv => rc_step' hc iv p s0 hiv T a s o hpre hinv) R0 [] s orc k rfl hinv
  have hq1 := hc.qpos
  refine ⟨this.1, ?_⟩
  have h2 := this.2
  split
  · rename_i hl
    rw [if_pos hl, if_pos ⟨by simp; omega, hq⟩] at h2
    exact h2
  · rename_i hl
    rw [if_neg hl, if_neg (by simp)] at h2
    exact h2

/-! ### The cluster: PRE-PREPARE → PREPARE → COMMIT over buffers holding earlier rounds -/

theorem good_tail' {d : Def} {R : List Nat} {r v : Nat} {J : List Core} {b0 : Nat}
    (pre0 : Nat → List Msg) (hR : R.Nodup) (hq : d.quorum ≤ R.length) (hq1 : 1 ≤ d.quorum)
    (hJ : ∀ c ∈ J, BG r c) (hf : b0 + 3 ≤ d.fifo)
    (hpp : isJustified d (ppMsg r v J (d.leader r)) 0 = some true)
    (hpre_bg : ∀ p ∈ R, ∀ c ∈ coresOf (pre0 p), BG r c)
    (hpre_len : ∀ p ∈ R, ∀ s, ((pre0 p).filter (fun x => x.core.src == s)).length ≤ b0)
    (env : Env) (henv : env.Fair) (cl : Cluster)
    (hcl : ∀ p ∈ R, ReadyPP r (pre0 p) p (cl p)) :
    ∀ p ∈ R, GoodOutcome v r (tail3 d env R cl [ppMsg r v J (d.leader r)] p) := by
  let R1 : Nat → List Nat := fun p => (env.ord 2 p (R.map (prepMsg r v))).map (·.core.src)
  let R2 : Nat → List Nat := fun p => (env.ord 3 p (R.map (commitMsg r v))).map (·.core.src)
  have e1 : ∀ p, env.ord 2 p (R.map (prepMsg r v)) = (R1 p).map (prepMsg r v) := fun p =>
    (perm_map_srcs (mk := prepMsg r v) (fun _ => rfl) (henv 2 p _)).1
  have e2 : ∀ p, env.ord 3 p (R.map (commitMsg r v)) = (R2 p).map (commitMsg r v) := fun p =>
    (perm_map_srcs (mk := commitMsg r v) (fun _ => rfl) (henv 3 p _)).1
  have q1 : ∀ p, (R1 p).Perm R := fun p =>
    (perm_map_srcs (mk := prepMsg r v) (fun _ => rfl) (henv 2 p _)).2
  have q2 : ∀ p, (R2 p).Perm R := fun p =>
    (perm_map_srcs (mk := commitMsg r v) (fun _ => rfl) (henv 3 p _)).2
  have e0 : ∀ p, env.ord 1 p [ppMsg r v J (d.leader r)] = [ppMsg r v J (d.leader r)] := fun p =>
    List.perm_singleton.mp (henv 1 p _)
  have l1 : ∀ p, d.quorum ≤ (R1 p).length := fun p => by rw [(q1 p).length_eq]; exact hq
  have l2 : ∀ p, d.quorum ≤ (R2 p).length := fun p => by rw [(q2 p).length_eq]; exact hq
  have hc : ∀ p ∈ R, PCtx d (R1 p) (R2 p) r v (pre0 p) J b0 := fun p hp =>
    ⟨(q1 p).nodup_iff.mpr hR, (q2 p).nodup_iff.mpr hR, hq1, hpre_bg p hp, hJ, hpre_len p hp, hf, hpp⟩
  -- phase 1: the PRE-PREPARE
  have h1 : ∀ p ∈ R,
      InvP' d r v (pre0 p ++ [ppMsg r v J (d.leader r)]) p (cl p).1.preparedRound
        (cl p).1.preparedValue (cl p).1.preparedJust (cl p).1.inputValue []
        ((deliverAll d (env.orc 1) (env.ord 1) R cl [ppMsg r v J (d.leader r)]).1 p).1 ∧
      Quiet ((deliverAll d (env.orc 1) (env.ord 1) R cl [ppMsg r v J (d.leader r)]).1 p).2 := by
    intro p hp
    obtain ⟨a1, a2, a3, a4, a5, a6⟩ := hcl p hp
    obtain ⟨b1, b2⟩ := pp_run' (hc p hp) (env.orc 1 p) 0 a1 a2 a3 a4 a5
    unfold deliverAll
    rw [phase_state hp, e0 p]
    refine ⟨b1, Quiet.append a6 ?_⟩
    rw [b2]; exact ⟨rfl, rfl⟩
  have m1 : (deliverAll d (env.orc 1) (env.ord 1) R cl [ppMsg r v J (d.leader r)]).2 =
      R.map (prepMsg r v) := by
    unfold deliverAll phase
    simp only
    rw [← flatMap_singleton_map R (prepMsg r v)]
    apply flatMap_congr_mem
    intro p hp
    obtain ⟨a1, a2, a3, a4, a5, _⟩ := hcl p hp
    rw [e0 p, (pp_run' (hc p hp) (env.orc 1 p) 0 a1 a2 a3 a4 a5).2]
    rfl
  -- phase 2: the PREPAREs
  have h2 : ∀ p ∈ R,
      InvP' d r v (pre0 p ++ [ppMsg r v J (d.leader r)]) p (cl p).1.preparedRound
        (cl p).1.preparedValue (cl p).1.preparedJust (cl p).1.inputValue (R1 p)
        ((deliverAll d (env.orc 2) (env.ord 2) R
          (deliverAll d (env.orc 1) (env.ord 1) R cl [ppMsg r v J (d.leader r)]).1
          (R.map (prepMsg r v))).1 p).1 ∧
      Quiet ((deliverAll d (env.orc 2) (env.ord 2) R
          (deliverAll d (env.orc 1) (env.ord 1) R cl [ppMsg r v J (d.leader r)]).1
          (R.map (prepMsg r v))).1 p).2 := by
    intro p hp
    obtain ⟨a1, a2⟩ := h1 p hp
    obtain ⟨b1, b2⟩ := prepare_run' (hc p hp) (env.orc 2 p) 0 a1
    unfold deliverAll at a1 a2 b1 b2 ⊢
    rw [phase_state hp, e1 p]
    refine ⟨b1, Quiet.append a2 ?_⟩
    rw [b2]; split <;> exact ⟨rfl, rfl⟩
  have m2 : (deliverAll d (env.orc 2) (env.ord 2) R
      (deliverAll d (env.orc 1) (env.ord 1) R cl [ppMsg r v J (d.leader r)]).1
      (R.map (prepMsg r v))).2 = R.map (commitMsg r v) := by
    rw [← flatMap_singleton_map R (commitMsg r v)]
    show R.flatMap _ = _
    apply flatMap_congr_mem
    intro p hp
    show wires p (runO d _ (recvs (env.orc 2 p) 0 (env.ord 2 p (R.map (prepMsg r v))))).2 = _
    rw [e1 p, (prepare_run' (hc p hp) (env.orc 2 p) 0 (h1 p hp).1).2, if_pos (l1 p)]
    rfl
  -- phase 3: the COMMITs
  intro p hp
  unfold tail3
  rw [m1, m2]
  obtain ⟨⟨c1, c2, _, c4, _, c6⟩, a2⟩ := h2 p hp
  obtain ⟨pj, haux, _⟩ := c6 (l1 p)
  obtain ⟨b1, b2⟩ := commit_run' (hc p hp) (env.orc 3 p) 0 c1 (by simpa using c2) c4 haux
  rw [if_pos (l2 p)] at b2
  obtain ⟨j, b2⟩ := b2
  have b1 := b1.2 (l2 p)
  unfold deliverAll at a2 b1 b2 ⊢
  rw [phase_state hp, e2 p]
  refine ⟨b1.dead, b1.qc, b1.qcv, ?_, ?_⟩
  · simp only
    unfold decidedOnce
    rw [b2, List.filter_append, a2.2]
    simp [List.filter, Out.isDecide]
  · simp only
    have a21 := a2.1
    unfold noFault at a21 ⊢
    rw [b2, List.all_append, a21]
    rfl

/-! ### Before the good round: members waiting in an undecided round time out together -/

/-- the ROUND-CHANGE a member broadcasts for round `ρ`: its prepared state and certificate. -/
def rcOfState (ρ p : Nat) (s : NodeState) : Msg :=
  { core := ⟨tRoundChange, p, ρ, 0, s.preparedRound, s.preparedValue⟩, just := s.preparedJust }

/-- a running, undecided member in round `r` with an armed timer; `old` is everything it received. -/
structure Wait (r p : Nat) (old : List Msg) (s0 : NodeState) (s : NodeState) : Prop where
  mid : Mid r p s
  buf : BufIs s.buffer old
  aux : Aux s0.preparedRound s0.preparedValue s0.preparedJust s0.inputValue s

theorem rcOfState_congr (ρ p : Nat) {s s0 : NodeState}
    (h : Aux s0.preparedRound s0.preparedValue s0.preparedJust s0.inputValue s) :
    rcOfState ρ p s = rcOfState ρ p s0 := by
  unfold rcOfState; rw [h.pr, h.pv, h.pj]

/-- `k` time-outs with nothing delivered: the member walks to round `ρ + k` keeping its buffer and
its prepared state, announcing every round; of its ROUND-CHANGE broadcasts exactly one is for round
`rt` (if `ρ < rt ≤ ρ + k`), and it carries the prepared state. -/
theorem timeouts_run' (d : Def) (p rt : Nat) (old : List Msg) (s0 : NodeState) :
    ∀ (k ρ : Nat) (s : NodeState), Wait ρ p old s0 s →
      Wait (ρ + k) p old s0 (runO d s (locals (List.replicate k .timeout))).1 ∧
      (1 ≤ k → (runO d s (locals (List.replicate k .timeout))).1.ppjCache = none ∧
        (runO d s (locals (List.replicate k .timeout))).1.dedup = []) ∧
      Quiet (runO d s (locals (List.replicate k .timeout))).2 ∧
      (wires p (runO d s (locals (List.replicate k .timeout))).2).filter
          (fun m => m.core.typ == tRoundChange && m.core.round == rt) =
        (if ρ < rt ∧ rt ≤ ρ + k then [rcOfState rt p s0] else []) := by
  intro k
  induction k with
  | zero =>
    intro ρ s hs
    simp only [List.replicate_zero, locals, List.map_nil, runO, Nat.add_zero]
    refine ⟨hs, fun h => by omega, Quiet.nil, ?_⟩
    rw [if_neg (by omega)]; rfl
  | succ k ih =>
    intro ρ s hs
    have hst := step_timeout (d := d) (o := ({} : Oracle)) hs.mid.dead hs.mid.started hs.aux.timer
    have hw : Wait (ρ + 1) p old s0
        { s with round := s.round + 1, dedup := [], ppjCache := none, timerOn := true } :=
      ⟨⟨hs.mid.dead, hs.mid.started, by simp [hs.mid.round], hs.mid.qc, hs.mid.cfr, hs.mid.proc⟩,
        hs.buf, ⟨hs.aux.pr, hs.aux.pv, hs.aux.pj, hs.aux.iv, rfl⟩⟩
    obtain ⟨i1, i2, i3, i4⟩ := ih (ρ + 1) _ hw
    have hloc : locals (List.replicate (k + 1) Event.timeout) =
        (({} : Oracle), Event.timeout) :: locals (List.replicate k Event.timeout) := rfl
    rw [hloc]
    simp only [runO, hst]
    have hwf : (wires p [Out.roundChange s.round (s.round + 1) uRoundTimeout, Out.stopTimer,
          Out.newTimer (s.round + 1),
          Out.bcast tRoundChange (s.round + 1) 0 s.preparedRound s.preparedValue s.preparedJust]).filter
          (fun m => m.core.typ == tRoundChange && m.core.round == rt) =
        (if ρ + 1 = rt then [rcOfState rt p s0] else []) := by
      simp only [wires, wire, List.filterMap_cons, List.filterMap_nil, hs.aux.pr, hs.aux.pv, hs.aux.pj,
        hs.mid.round, List.filter_cons, List.filter_nil]
      by_cases h1 : ρ + 1 = rt
      · subst h1; simp [rcOfState]
      · simp [h1]
    refine ⟨by rw [show ρ + (k + 1) = ρ + 1 + k by omega]; exact i1, fun _ => ?_, ?_, ?_⟩
    · by_cases hk : 1 ≤ k
      · exact i2 hk
      · have hk0 : k = 0 := by omega
        subst hk0
        simp [locals, runO]
    · exact Quiet.append ⟨rfl, rfl⟩ i3
    · rw [wires_append, List.filter_append, i4, hwf]
      by_cases h1 : ρ + 1 = rt
      · rw [if_pos h1, if_neg (by omega), if_pos (by omega)]; rfl
      · rw [if_neg h1]
        by_cases h2 : ρ + 1 < rt ∧ rt ≤ ρ + 1 + k
        · rw [if_pos h2, if_pos (by omega)]; rfl
        · rw [if_neg h2, if_neg (by omega)]; rfl

/-! ### The general theorem: stuck in a round — possibly prepared — then a good round -/

/-- the prepared state is null, or a certificate for a non-null value of a round in `1 … r`. -/
def CertState (d : Def) (r : Nat) (s : NodeState) : Prop :=
  (s.preparedRound = 0 ∧ s.preparedValue = 0 ∧ s.preparedJust = []) ∨
  (1 ≤ s.preparedRound ∧ s.preparedRound ≤ r ∧ s.preparedValue ≠ 0 ∧
    Cert d s.preparedRound s.preparedValue s.preparedJust)

/-- Member `p` sits in round `r`, running and undecided, its round timer armed; it received `old`
(cores of rounds `≤ r`, PREPAREs well-formed, at most `B` messages per source, nothing trimmed);
it may hold a prepared certificate of some round `≤ r`; so far it emitted neither a decision nor a
fault. -/
structure Stuck (d : Def) (r B p : Nat) (old : List Msg) (nd : Node) : Prop where
  mid : Mid r p nd.1
  timer : nd.1.timerOn = true
  buf : BufIs nd.1.buffer old
  oldRound : ∀ c ∈ coresOf old, c.round ≤ r ∧ PrepGood c
  oldLen : ∀ s, (old.filter (fun x => x.core.src == s)).length ≤ B
  cert : CertState d r nd.1
  quiet : Quiet nd.2

/-- All members of `R` time out `k + 1` times while nothing is delivered (the rounds in between are
lost), which takes them to round `ρ`; then the ROUND-CHANGEs for `ρ` — each carrying its sender's
prepared certificate — are delivered to all of `R`. Result: the cluster and the messages now in
flight (the PRE-PREPARE of the leader of `ρ`). -/
def enterRound (d : Def) (env : Env) (R : List Nat) (cl : Cluster) (k ρ : Nat) : Cluster × List Msg :=
  let p0 := phase d R cl (fun _ => locals (List.replicate (k + 1) .timeout))
  let rcs := p0.2.filter (fun m => m.core.typ == tRoundChange && m.core.round == ρ)
  deliverAll d (env.orc 0) (env.ord 0) R p0.1 rcs

/-- … then the leader's PRE-PREPARE, all PREPAREs and all COMMITs are delivered to all of `R`.
No further timer fires. -/
def timeoutsThenGood (d : Def) (env : Env) (R : List Nat) (cl : Cluster) (k ρ : Nat) : Cluster :=
  tail3 d env R (enterRound d env R cl k ρ).1 (enterRound d env R cl k ρ).2

/-- the member's ROUND-CHANGE carries no prepared state. -/
def nullPrepared (nd : Node) : Bool := nd.1.preparedRound == 0 && nd.1.preparedValue == 0

theorem filter_src_append_le {old : List Msg} {B : Nat} {mk : Nat → Msg}
    (hold : ∀ s, (old.filter (fun x => x.core.src == s)).length ≤ B)
    (hsrc : ∀ q, (mk q).core.src = q) {T : List Nat} (hT : T.Nodup) (s : Nat) :
    ((old ++ T.map mk).filter (fun x => x.core.src == s)).length ≤ B + 1 := by
  have h1 := hold s
  have h2 := filter_src_map_le_one (mk := mk) hsrc hT s
  simp only [List.filter_append, List.length_append]
  omega

/-- the senders of the first quorum of ROUND-CHANGEs reaching the leader of `ρ`. -/
def leaderQuorum (d : Def) (env : Env) (R : List Nat) (cl : Cluster) (ρ : Nat) : List Nat :=
  ((env.ord 0 (d.leader ρ) (R.map (fun a => rcOfState ρ a (cl a).1))).map (·.core.src)).take d.quorum

/-- **Entering a round after the members were stuck, possibly prepared.** Every member of `R` ends
up ready for the PRE-PREPARE of round `ρ = r + k + 1`; the only message in flight is the leader's
PRE-PREPARE — for its own input if the first quorum of ROUND-CHANGEs it saw was null, otherwise for
the value prepared in the highest prepared round among them —, justified at every receiver. -/
theorem enter_round (d : Def) (hn : 1 ≤ d.nodes) (B : Nat) (hf : B + 1 ≤ d.fifo)
    (R : List Nat) (hR : R.Nodup) (hq : d.quorum ≤ R.length) (r k : Nat)
    (hl : d.leader (r + k + 1) ∈ R) (cl : Cluster) (old : Nat → List Msg)
    (hst : ∀ p ∈ R, Stuck d r B p (old p) (cl p))
    (hinp : (cl (d.leader (r + k + 1))).1.inputValue ≠ 0 ∨
      (R.filter (fun a => nullPrepared (cl a))).length < d.quorum)
    (env : Env) (henv : env.Fair) :
    ∃ J w, w ≠ 0 ∧
      ValueSpec (fun a => rcOfState (r + k + 1) a (cl a).1) (leaderQuorum d env R cl (r + k + 1))
        (cl (d.leader (r + k + 1))).1.inputValue w ∧
      (∀ c ∈ J, BG (r + k + 1) c ∧ PrepGood c ∧ c.round ≤ r + k + 1) ∧
      isJustified d (ppMsg (r + k + 1) w J (d.leader (r + k + 1))) 0 = some true ∧
      (enterRound d env R cl k (r + k + 1)).2 = [ppMsg (r + k + 1) w J (d.leader (r + k + 1))] ∧
      ∃ pre0 : Nat → List Msg, ∀ p ∈ R,
        ReadyPP (r + k + 1) (pre0 p) p ((enterRound d env R cl k (r + k + 1)).1 p) ∧
        ((enterRound d env R cl k (r + k + 1)).1 p).1.inputValue = (cl p).1.inputValue ∧
        Prep3 (cl p).1.preparedRound (cl p).1.preparedValue (cl p).1.preparedJust
          ((enterRound d env R cl k (r + k + 1)).1 p).1 ∧
        (∀ c ∈ coresOf (pre0 p), BG (r + k + 1) c ∧ PrepGood c ∧ c.round ≤ r + k + 1) ∧
        (∀ s, ((pre0 p).filter (fun x => x.core.src == s)).length ≤ B + 1) := by
  have hq1 := quorum_pos d hn
  generalize hρ : r + k + 1 = ρ at *
  let rcOf : Nat → Msg := fun a => rcOfState ρ a (cl a).1
  have hrcsrc : ∀ a, (rcOf a).core.src = a := fun _ => rfl
  have hwait : ∀ p ∈ R, Wait r p (old p) (cl p).1 (cl p).1 := fun p hp =>
    ⟨(hst p hp).mid, (hst p hp).buf, ⟨rfl, rfl, rfl, rfl, (hst p hp).timer⟩⟩
  -- phase 0: the time-outs
  have hrcs : ((phase d R cl (fun _ => locals (List.replicate (k + 1) .timeout))).2.filter
      (fun m => m.core.typ == tRoundChange && m.core.round == ρ)) = R.map rcOf := by
    unfold phase
    simp only
    rw [filter_flatMap', ← flatMap_singleton_map R rcOf]
    apply flatMap_congr_mem
    intro p hp
    have := (timeouts_run' d p ρ (old p) (cl p).1 (k + 1) r (cl p).1 (hwait p hp)).2.2.2
    rw [if_pos (by omega)] at this
    exact this
  have h0 : ∀ p ∈ R,
      InvR' d ρ (cl p).1.inputValue p rcOf (old p) (cl p).1 []
        ((phase d R cl (fun _ => locals (List.replicate (k + 1) .timeout))).1 p).1 ∧
      Quiet ((phase d R cl (fun _ => locals (List.replicate (k + 1) .timeout))).1 p).2 := by
    intro p hp
    rw [phase_state hp]
    obtain ⟨a1, a2, a3, _⟩ := timeouts_run' d p ρ (old p) (cl p).1 (k + 1) r (cl p).1 (hwait p hp)
    obtain ⟨a21, a22⟩ := a2 (by omega)
    have hrk : r + (k + 1) = ρ := by omega
    rw [hrk] at a1
    refine ⟨⟨a1.mid, by simpa using a1.buf, ?_, ?_, ?_, a21, a1.aux.iv,
      ⟨a1.aux.pr, a1.aux.pv, a1.aux.pj⟩, ?_⟩, Quiet.append (hst p hp).quiet a3⟩
    · show _ ∉ (runO d _ _).1.dedup
      rw [a22]; simp
    · show _ ∉ (runO d _ _).1.dedup
      rw [a22]; simp
    · show _ ∉ (runO d _ _).1.dedup
      rw [a22]; simp
    · show _ ∈ (runO d _ _).1.dedup ↔ _
      rw [a22]
      simp only [List.not_mem_nil, List.length_nil, false_iff, not_and]
      intro _; omega
  -- phase 1: the ROUND-CHANGEs, in the arrival order `R0 p` at member `p`
  let R0 : Nat → List Nat := fun p => (env.ord 0 p (R.map rcOf)).map (·.core.src)
  have e0 : ∀ p, env.ord 0 p (R.map rcOf) = (R0 p).map rcOf := fun p =>
    (perm_map_srcs (mk := rcOf) hrcsrc (henv 0 p _)).1
  have q0 : ∀ p, (R0 p).Perm R := fun p =>
    (perm_map_srcs (mk := rcOf) hrcsrc (henv 0 p _)).2
  have hrcok : ∀ a ∈ R, RcOk d ρ (rcOf a) a := by
    intro a ha
    refine ⟨rfl, rfl, rfl, ?_⟩
    rcases (hst a ha).cert with h | ⟨h1, h2, h3, h4⟩
    · exact Or.inl h
    · exact Or.inr ⟨h1, by show (cl a).1.preparedRound < ρ; omega, h3, h4⟩
  have hctx : ∀ p ∈ R, RCtx d ρ rcOf (R0 p) (old p) B := fun p hp =>
    ⟨(q0 p).nodup_iff.mpr hR, hq1, fun a ha => hrcok a ((q0 p).mem_iff.mp ha),
      fun c hc => ⟨by have := ((hst p hp).oldRound c hc).1; omega, ((hst p hp).oldRound c hc).2⟩,
      (hst p hp).oldLen, hf⟩
  have hnull : ∀ p, ((R0 p).filter (fun a => isNullRc (rcOf a))).length =
      (R.filter (fun a => nullPrepared (cl a))).length := fun p =>
    ((q0 p).filter _).length_eq
  have hiv : ∀ p, d.leader ρ = p → (cl p).1.inputValue ≠ 0 ∨
      ((R0 p).filter (fun a => isNullRc (rcOf a))).length < d.quorum := by
    intro p h
    rw [hnull p, ← h]
    exact hinp
  have hrun := fun p (hp : p ∈ R) =>
    rc_run' (hctx p hp) (by rw [(q0 p).length_eq]; exact hq) (cl p).1.inputValue p (cl p).1 (hiv p)
      (env.orc 0 p) 0 (h0 p hp).1
  obtain ⟨J, w, hJ1, hJ2, hw0, hJ3, hspec⟩ :
      FireR' d ρ (cl (d.leader ρ)).1.inputValue rcOf ((R0 (d.leader ρ)).take d.quorum) _ := by
    have := (hrun (d.leader ρ) hl).2
    rw [if_pos rfl] at this
    exact this
  have hmsgs : (enterRound d env R cl k ρ).2 = [ppMsg ρ w J (d.leader ρ)] := by
    unfold enterRound
    simp only
    rw [hrcs, ← flatMap_leader hR hl (ppMsg ρ w J (d.leader ρ))]
    show R.flatMap _ = _
    apply flatMap_congr_mem
    intro p hp
    show wires p (runO d _ (recvs (env.orc 0 p) 0 (env.ord 0 p (R.map rcOf)))).2 = _
    rw [e0 p]
    by_cases h : d.leader ρ = p
    · subst h
      rw [if_pos rfl, hJ1]
      rfl
    · rw [if_neg h]
      have := (hrun p hp).2
      rw [if_neg h] at this
      rw [this]
      rfl
  -- cores of the justification: they are cores of the leader's buffer
  refine ⟨J, w, hw0, hspec, hJ2, hJ3, hmsgs, fun p => old p ++ (R0 p).map rcOf, ?_⟩
  intro p hp
  obtain ⟨⟨b1, b2, b3, b4, b5, _, b6, b6', _⟩, b7⟩ := hrun p hp
  have hst1 : (enterRound d env R cl k ρ).1 p =
      ((runO d ((phase d R cl (fun _ => locals (List.replicate (k + 1) .timeout))).1 p).1
          (recvs (env.orc 0 p) 0 ((R0 p).map rcOf))).1,
       ((phase d R cl (fun _ => locals (List.replicate (k + 1) .timeout))).1 p).2 ++
        (runO d ((phase d R cl (fun _ => locals (List.replicate (k + 1) .timeout))).1 p).1
          (recvs (env.orc 0 p) 0 ((R0 p).map rcOf))).2) := by
    unfold enterRound deliverAll
    simp only
    rw [hrcs, phase_state hp, e0 p]
  rw [hst1]
  refine ⟨⟨b1, b2, b3, b4, b5, Quiet.append (h0 p hp).2 ?_⟩, b6, b6', ?_, ?_⟩
  · split at b7
    · obtain ⟨J', w', e, _⟩ := b7
      rw [e]; exact ⟨rfl, rfl⟩
    · rw [b7]; exact Quiet.nil
  · intro c hc
    exact (hctx p hp).cores (T := R0 p) (fun a ha => ha) c hc
  · exact fun s => filter_src_append_le (hst p hp).oldLen hrcsrc ((q0 p).nodup_iff.mpr hR) s

/-- **Stuck — possibly prepared in different earlier rounds — then a good round.** -/
theorem stuck_then_good_decides (d : Def) (hn : 1 ≤ d.nodes) (B : Nat) (hf : B + 4 ≤ d.fifo)
    (R : List Nat) (hR : R.Nodup) (hq : d.quorum ≤ R.length) (r k : Nat)
    (hl : d.leader (r + k + 1) ∈ R) (cl : Cluster) (old : Nat → List Msg)
    (hst : ∀ p ∈ R, Stuck d r B p (old p) (cl p))
    (hinp : (cl (d.leader (r + k + 1))).1.inputValue ≠ 0 ∨
      (R.filter (fun a => nullPrepared (cl a))).length < d.quorum)
    (env : Env) (henv : env.Fair) :
    ∃ w, w ≠ 0 ∧
      ValueSpec (fun a => rcOfState (r + k + 1) a (cl a).1) (leaderQuorum d env R cl (r + k + 1))
        (cl (d.leader (r + k + 1))).1.inputValue w ∧
      ∀ p ∈ R, GoodOutcome w (r + k + 1) (timeoutsThenGood d env R cl k (r + k + 1) p) := by
  obtain ⟨J, w, hw0, hspec, hJ, hjust, hmsgs, pre0, hpre⟩ :=
    enter_round d hn B (by omega) R hR hq r k hl cl old hst hinp env henv
  refine ⟨w, hw0, hspec, ?_⟩
  intro p hp
  unfold timeoutsThenGood
  rw [hmsgs]
  exact good_tail' (b0 := B + 1) pre0 hR hq (quorum_pos d hn) (fun c hc => (hJ c hc).1) (by omega) hjust
    (fun p hp c hc => ((hpre p hp).2.2.2.1 c hc).1) (fun p hp => (hpre p hp).2.2.2.2) env henv _
    (fun p hp => (hpre p hp).1) p hp

/-! ### A round that progresses partially: some members prepare, nobody decides -/

/-- the messages of the senders `T` among `msgs`, in the order of `T`. -/
def pickBy (T : List Nat) (msgs : List Msg) : List Msg :=
  T.filterMap (fun a => msgs.find? (fun m => m.core.src == a))

theorem find_map_src {mk : Nat → Msg} (hsrc : ∀ q, (mk q).core.src = q) :
    ∀ (R : List Nat) (a : Nat), a ∈ R → (R.map mk).find? (fun m => m.core.src == a) = some (mk a) := by
  intro R
  induction R with
  | nil => intro a h; cases h
  | cons x xs ih =>
    intro a ha
    simp only [List.map_cons, List.find?_cons, hsrc]
    by_cases hx : x = a
    · subst hx; simp
    · have : (x == a) = false := by simpa using hx
      rw [this]
      rcases List.mem_cons.mp ha with h | h
      · exact absurd h.symm hx
      · exact ih a h

theorem pickBy_map {mk : Nat → Msg} (hsrc : ∀ q, (mk q).core.src = q) {R T : List Nat}
    (hT : ∀ a ∈ T, a ∈ R) : pickBy T (R.map mk) = T.map mk := by
  unfold pickBy
  induction T with
  | nil => rfl
  | cons a as ih =>
    simp only [List.filterMap_cons, List.map_cons]
    rw [find_map_src hsrc R a (hT a List.mem_cons_self)]
    simp only
    rw [ih (fun x hx => hT x (List.mem_cons_of_mem _ hx))]

/-- a partial network round trip: member `p` receives the messages of the senders `sel p` only
(in that order). -/
def deliverSel (d : Def) (orc : Nat → Nat → Oracle) (sel : Nat → List Nat) (R : List Nat)
    (cl : Cluster) (msgs : List Msg) : Cluster × List Msg :=
  phase d R cl (fun p => recvs (orc p) 0 (pickBy (sel p) msgs))

/-- A partially progressing round: the PRE-PREPARE in flight reaches all of `R`; the PREPAREs of the
senders `dp p` (in that order) reach member `p`; the COMMITs of the senders `dc p` reach member `p`;
everything else is lost. -/
def partialRound (d : Def) (env : Env) (dp dc : Nat → List Nat) (R : List Nat) (cl : Cluster)
    (msgs : List Msg) : Cluster :=
  let pA := deliverAll d (env.orc 1) (env.ord 1) R cl msgs
  let pB := deliverSel d (env.orc 2) dp R pA.1 pA.2
  let pC := deliverSel d (env.orc 3) dc R pB.1 pB.2
  pC.1

theorem flatMap_if_filter {β : Type} (R : List Nat) (c : Nat → Bool) (f : Nat → β) :
    R.flatMap (fun p => if c p = true then [f p] else []) = (R.filter c).map f := by
  induction R with
  | nil => rfl
  | cons a as ih =>
    simp only [List.flatMap_cons, List.filter_cons]
    cases c a <;> simp [ih]

theorem partial_round {d : Def} {R : List Nat} {r v : Nat} {J : List Core} {b0 : Nat}
    (pre0 : Nat → List Msg) (hq1 : 1 ≤ d.quorum) (hr : 1 ≤ r) (hv : v ≠ 0)
    (hJ : ∀ c ∈ J, BG r c ∧ PrepGood c ∧ c.round ≤ r) (hf : b0 + 3 ≤ d.fifo)
    (hpp : isJustified d (ppMsg r v J (d.leader r)) 0 = some true)
    (hpre : ∀ p ∈ R, ∀ c ∈ coresOf (pre0 p), BG r c ∧ PrepGood c ∧ c.round ≤ r)
    (hpre_len : ∀ p ∈ R, ∀ s, ((pre0 p).filter (fun x => x.core.src == s)).length ≤ b0)
    (env : Env) (henv : env.Fair) (dp dc : Nat → List Nat)
    (hdp : ∀ p ∈ R, (dp p).Nodup ∧ ∀ a ∈ dp p, a ∈ R)
    (hdc : ∀ p ∈ R, (dc p).Nodup ∧ (∀ a ∈ dc p, a ∈ R ∧ d.quorum ≤ (dp a).length) ∧
      (dc p).length < d.quorum)
    (cl : Cluster) (hcl : ∀ p ∈ R, ReadyPP r (pre0 p) p (cl p))
    (hcert : ∀ p ∈ R, CertState d r (cl p).1) :
    ∀ p ∈ R,
      Stuck d r (b0 + 3) p
        (pre0 p ++ [ppMsg r v J (d.leader r)] ++ (dp p).map (prepMsg r v) ++ (dc p).map (commitMsg r v))
        (partialRound d env dp dc R cl [ppMsg r v J (d.leader r)] p) ∧
      (partialRound d env dp dc R cl [ppMsg r v J (d.leader r)] p).1.inputValue = (cl p).1.inputValue ∧
      (d.quorum ≤ (dp p).length →
        (partialRound d env dp dc R cl [ppMsg r v J (d.leader r)] p).1.preparedRound = r ∧
        (partialRound d env dp dc R cl [ppMsg r v J (d.leader r)] p).1.preparedValue = v) ∧
      ((dp p).length < d.quorum →
        Prep3 (cl p).1.preparedRound (cl p).1.preparedValue (cl p).1.preparedJust
          (partialRound d env dp dc R cl [ppMsg r v J (d.leader r)] p).1) := by
  have e0 : ∀ p, env.ord 1 p [ppMsg r v J (d.leader r)] = [ppMsg r v J (d.leader r)] := fun p =>
    List.perm_singleton.mp (henv 1 p _)
  have hc : ∀ p ∈ R, PCtx d (dp p) (dc p) r v (pre0 p) J b0 := fun p hp =>
    ⟨(hdp p hp).1, (hdc p hp).1, hq1, fun c hcm => (hpre p hp c hcm).1, fun c hcm => (hJ c hcm).1,
      hpre_len p hp, hf, hpp⟩
  -- phase 1: the PRE-PREPARE
  have h1 : ∀ p ∈ R,
      InvP' d r v (pre0 p ++ [ppMsg r v J (d.leader r)]) p (cl p).1.preparedRound
        (cl p).1.preparedValue (cl p).1.preparedJust (cl p).1.inputValue []
        ((deliverAll d (env.orc 1) (env.ord 1) R cl [ppMsg r v J (d.leader r)]).1 p).1 ∧
      Quiet ((deliverAll d (env.orc 1) (env.ord 1) R cl [ppMsg r v J (d.leader r)]).1 p).2 := by
    intro p hp
    obtain ⟨a1, a2, a3, a4, a5, a6⟩ := hcl p hp
    obtain ⟨b1, b2⟩ := pp_run' (hc p hp) (env.orc 1 p) 0 a1 a2 a3 a4 a5
    unfold deliverAll
    rw [phase_state hp, e0 p]
    refine ⟨b1, Quiet.append a6 ?_⟩
    rw [b2]; exact ⟨rfl, rfl⟩
  have m1 : (deliverAll d (env.orc 1) (env.ord 1) R cl [ppMsg r v J (d.leader r)]).2 =
      R.map (prepMsg r v) := by
    unfold deliverAll phase
    simp only
    rw [← flatMap_singleton_map R (prepMsg r v)]
    apply flatMap_congr_mem
    intro p hp
    obtain ⟨a1, a2, a3, a4, a5, _⟩ := hcl p hp
    rw [e0 p, (pp_run' (hc p hp) (env.orc 1 p) 0 a1 a2 a3 a4 a5).2]
    rfl
  have pk1 : ∀ p ∈ R, pickBy (dp p) (R.map (prepMsg r v)) = (dp p).map (prepMsg r v) := fun p hp =>
    pickBy_map (fun _ => rfl) (hdp p hp).2
  -- phase 2: the PREPAREs that arrive
  have h2 : ∀ p ∈ R,
      InvP' d r v (pre0 p ++ [ppMsg r v J (d.leader r)]) p (cl p).1.preparedRound
        (cl p).1.preparedValue (cl p).1.preparedJust (cl p).1.inputValue (dp p)
        ((deliverSel d (env.orc 2) dp R
          (deliverAll d (env.orc 1) (env.ord 1) R cl [ppMsg r v J (d.leader r)]).1
          (R.map (prepMsg r v))).1 p).1 ∧
      Quiet ((deliverSel d (env.orc 2) dp R
          (deliverAll d (env.orc 1) (env.ord 1) R cl [ppMsg r v J (d.leader r)]).1
          (R.map (prepMsg r v))).1 p).2 := by
    intro p hp
    obtain ⟨a1, a2⟩ := h1 p hp
    obtain ⟨b1, b2⟩ := prepare_run' (hc p hp) (env.orc 2 p) 0 a1
    unfold deliverSel
    rw [phase_state hp, pk1 p hp]
    refine ⟨b1, Quiet.append a2 ?_⟩
    rw [b2]; split <;> exact ⟨rfl, rfl⟩
  have m2 : (deliverSel d (env.orc 2) dp R
      (deliverAll d (env.orc 1) (env.ord 1) R cl [ppMsg r v J (d.leader r)]).1
      (R.map (prepMsg r v))).2 =
      (R.filter (fun p => decide (d.quorum ≤ (dp p).length))).map (commitMsg r v) := by
    rw [← flatMap_if_filter]
    show R.flatMap _ = _
    apply flatMap_congr_mem
    intro p hp
    show wires p (runO d _ (recvs (env.orc 2 p) 0 (pickBy (dp p) (R.map (prepMsg r v))))).2 = _
    rw [pk1 p hp, (prepare_run' (hc p hp) (env.orc 2 p) 0 (h1 p hp).1).2]
    by_cases hqp : d.quorum ≤ (dp p).length
    · rw [if_pos hqp, if_pos (by simpa using hqp)]; rfl
    · rw [if_neg hqp, if_neg (by simpa using hqp)]; rfl
  have pk2 : ∀ p ∈ R, pickBy (dc p)
      ((R.filter (fun p => decide (d.quorum ≤ (dp p).length))).map (commitMsg r v)) =
      (dc p).map (commitMsg r v) := fun p hp =>
    pickBy_map (fun _ => rfl) (fun a ha => List.mem_filter.mpr
      ⟨((hdc p hp).2.1 a ha).1, by simpa using ((hdc p hp).2.1 a ha).2⟩)
  -- phase 3: the COMMITs that arrive (fewer than a quorum)
  intro p hp
  unfold partialRound
  rw [m1, m2]
  obtain ⟨⟨c1, c2, _, c4, c5, c6⟩, a2⟩ := h2 p hp
  have hfin : ∀ (a0 b0' : Nat) (c0 : List Core),
      Aux a0 b0' c0 (cl p).1.inputValue ((deliverSel d (env.orc 2) dp R
          (deliverAll d (env.orc 1) (env.ord 1) R cl [ppMsg r v J (d.leader r)]).1
          (R.map (prepMsg r v))).1 p).1 →
      CertState d r { (cl p).1 with preparedRound := a0, preparedValue := b0', preparedJust := c0 } →
      Stuck d r (b0 + 3) p
        (pre0 p ++ [ppMsg r v J (d.leader r)] ++ (dp p).map (prepMsg r v) ++ (dc p).map (commitMsg r v))
        ((deliverSel d (env.orc 3) dc R (deliverSel d (env.orc 2) dp R
          (deliverAll d (env.orc 1) (env.ord 1) R cl [ppMsg r v J (d.leader r)]).1
          (R.map (prepMsg r v))).1
          ((R.filter (fun p => decide (d.quorum ≤ (dp p).length))).map (commitMsg r v))).1 p) ∧
      Aux a0 b0' c0 (cl p).1.inputValue
        ((deliverSel d (env.orc 3) dc R (deliverSel d (env.orc 2) dp R
          (deliverAll d (env.orc 1) (env.ord 1) R cl [ppMsg r v J (d.leader r)]).1
          (R.map (prepMsg r v))).1
          ((R.filter (fun p => decide (d.quorum ≤ (dp p).length))).map (commitMsg r v))).1 p).1 := by
    intro a0 b0' c0 haux hcs
    obtain ⟨b1, b2⟩ := commit_run' (hc p hp) (env.orc 3 p) 0 c1 (by simpa using c2) c4 haux
    have hlt := (hdc p hp).2.2
    rw [if_neg (by omega)] at b2
    obtain ⟨d1, d2, _, d4⟩ := b1.1 hlt
    unfold deliverSel at a2 b2 d1 d2 d4 ⊢
    rw [phase_state hp, pk2 p hp]
    refine ⟨⟨d1, d4.timer, d2, ?_, ?_, ?_, ?_⟩, d4⟩
    · -- cores
      intro c hcm
      rw [coresOf_append, coresOf_append, coresOf_append] at hcm
      rcases List.mem_append.mp hcm with h | h
      · rcases List.mem_append.mp h with h | h
        · rcases List.mem_append.mp h with h | h
          · exact ⟨(hpre p hp c h).2.2, (hpre p hp c h).2.1⟩
          · simp only [coresOf, List.flatMap_cons, List.flatMap_nil, List.append_nil,
              List.mem_cons] at h
            rcases h with rfl | h
            · exact ⟨Nat.le_refl _, fun ht => absurd (show tPrePrepare = tPrepare from ht) (by decide)⟩
            · exact ⟨(hJ c h).2.2, (hJ c h).2.1⟩
        · obtain ⟨x, hx, hcx⟩ := mem_coresOf.mp h
          obtain ⟨a, _, rfl⟩ := List.mem_map.mp hx
          rcases hcx with rfl | hcx
          · exact ⟨Nat.le_refl _, fun _ => ⟨hv, hr⟩⟩
          · cases hcx
      · obtain ⟨x, hx, hcx⟩ := mem_coresOf.mp h
        obtain ⟨a, _, rfl⟩ := List.mem_map.mp hx
        rcases hcx with rfl | hcx
        · exact ⟨Nat.le_refl _, fun ht => absurd (show tCommit = tPrepare from ht) (by decide)⟩
        · cases hcx
    · -- per-source bound
      intro s
      have g1 := hpre_len p hp s
      have g2 := filter_src_map_le_one (mk := prepMsg r v) (fun _ => rfl) (hdp p hp).1 s
      have g3 := filter_src_map_le_one (mk := commitMsg r v) (fun _ => rfl) (hdc p hp).1 s
      have g4 : ([ppMsg r v J (d.leader r)].filter (fun x => x.core.src == s)).length ≤ 1 := by
        have := List.length_filter_le (fun x : Msg => x.core.src == s) [ppMsg r v J (d.leader r)]
        simpa using this
      simp only [List.filter_append, List.length_append]
      omega
    · -- certificate
      unfold CertState at hcs ⊢
      simp only at hcs
      rw [d4.pr, d4.pv, d4.pj]
      exact hcs
    · simp only
      rw [b2]
      exact Quiet.append a2 Quiet.nil
  by_cases hqp : d.quorum ≤ (dp p).length
  · obtain ⟨pj, haux, hcj⟩ := c6 hqp
    obtain ⟨g1, g2⟩ := hfin r v pj haux (Or.inr ⟨hr, Nat.le_refl _, hv, hcj⟩)
    exact ⟨g1, g2.iv, fun _ => ⟨g2.pr, g2.pv⟩, fun h => by omega⟩
  · have haux := c5 (by omega)
    obtain ⟨g1, g2⟩ := hfin _ _ _ haux (hcert p hp)
    exact ⟨g1, g2.iv, fun h => absurd h hqp, fun _ => ⟨g2.pr, g2.pv, g2.pj⟩⟩

/-! ### The concrete history: rounds lost, a round with partial prepares, rounds lost, a good round -/

/-- the phases of a later round use the environment's later choices. -/
def Env.shift (env : Env) (n : Nat) : Env :=
  { orc := fun ph => env.orc (ph + n), ord := fun ph => env.ord (ph + n) }

theorem Env.Fair.shift {env : Env} (h : env.Fair) (n : Nat) : (env.shift n).Fair :=
  fun ph p l => h (ph + n) p l

/-- every member of `R` is started and obtains its input (if any). -/
def startPhase (d : Def) (R : List Nat) (inp : Nat → Nat) : Cluster × List Msg :=
  phase d R initCluster (fun p => locals (.start :: inputEvs (inp p)))

/-- the cluster when the PRE-PREPARE of round `ρ` is in flight, the rounds before lost silently. -/
def roundStart (d : Def) (env : Env) (R : List Nat) (inp : Nat → Nat) (ρ : Nat) : Cluster × List Msg :=
  if ρ = 1 then startPhase d R inp else enterRound d env R (startPhase d R inp).1 (ρ - 2) ρ

theorem start_stuck (d : Def) (R : List Nat) (inp : Nat → Nat) :
    ∀ p ∈ R, Stuck d 1 0 p [] ((startPhase d R inp).1 p) ∧
      ((startPhase d R inp).1 p).1.inputValue = inp p ∧
      Prep3 0 0 [] ((startPhase d R inp).1 p).1 ∧ ((startPhase d R inp).1 p).1.dedup = [] := by
  intro p hp
  unfold startPhase
  rw [phase_state hp]
  obtain ⟨a1, a2, _⟩ := start_input d p (inp p)
  refine ⟨⟨a1.mid, a1.timer, ?_, by simp [coresOf], by simp, Or.inl ⟨a1.pr, a1.pv, a1.pj⟩,
    Quiet.append Quiet.nil a2⟩, a1.inp, ⟨a1.pr, a1.pv, a1.pj⟩, a1.dd⟩
  show BufIs (runO d { proc := p } _).1.buffer []
  rw [a1.buf]; exact bufIs_nil

theorem roundStart_ready (d : Def) (hn : 1 ≤ d.nodes) (hf : 1 ≤ d.fifo) (R : List Nat) (hR : R.Nodup)
    (hq : d.quorum ≤ R.length) (ρ : Nat) (hρ : 1 ≤ ρ) (hl : d.leader ρ ∈ R) (inp : Nat → Nat)
    (v : Nat) (hv : v ≠ 0) (hinp : inp (d.leader ρ) = v) (env : Env) (henv : env.Fair) :
    ∃ J, ∃ pre0 : Nat → List Msg,
      (roundStart d env R inp ρ).2 = [ppMsg ρ v J (d.leader ρ)] ∧
      (∀ c ∈ J, BG ρ c ∧ PrepGood c ∧ c.round ≤ ρ) ∧
      isJustified d (ppMsg ρ v J (d.leader ρ)) 0 = some true ∧
      ∀ p ∈ R, ReadyPP ρ (pre0 p) p ((roundStart d env R inp ρ).1 p) ∧
        ((roundStart d env R inp ρ).1 p).1.inputValue = inp p ∧
        Prep3 0 0 [] ((roundStart d env R inp ρ).1 p).1 ∧
        (∀ c ∈ coresOf (pre0 p), BG ρ c ∧ PrepGood c ∧ c.round ≤ ρ) ∧
        (∀ s, ((pre0 p).filter (fun x => x.core.src == s)).length ≤ 1) := by
  by_cases h1 : ρ = 1
  · subst h1
    refine ⟨[], fun _ => [], ?_, by simp, ppMsg_justified_1 d v hv, ?_⟩
    · unfold roundStart
      rw [if_pos rfl]
      unfold startPhase phase
      simp only
      rw [← flatMap_leader hR hl (ppMsg 1 v [] (d.leader 1))]
      apply flatMap_congr_mem
      intro p _
      show wires p (runO d { proc := p } _).2 = _
      rw [(start_input d p (inp p)).2.2]
      by_cases h : d.leader 1 = p
      · have : inp p = v := by rw [← h]; exact hinp
        rw [if_pos ⟨h, by rw [this]; exact hv⟩, if_pos h, this, h]
      · rw [if_neg (fun hh => h hh.1), if_neg h]
    · intro p hp
      unfold roundStart
      rw [if_pos rfl]
      obtain ⟨a1, a2, a3, a4⟩ := start_stuck d R inp p hp
      refine ⟨⟨a1.mid, a1.buf, ?_, ?_, ?_, a1.quiet⟩, a2, a3, by simp [coresOf], by simp⟩
      · rw [a4]; simp
      · rw [a4]; simp
      · rw [a4]; simp
  · have hk : 1 + (ρ - 2) + 1 = ρ := by omega
    have hst := fun p hp => (start_stuck d R inp p hp).1
    have hin0 : ((startPhase d R inp).1 (d.leader ρ)).1.inputValue ≠ 0 := by
      rw [(start_stuck d R inp _ hl).2.1, hinp]; exact hv
    obtain ⟨J, w, hw0, hspec, hJ, hjust, hmsgs, pre0, hpre⟩ :=
      enter_round d hn 0 (by omega) R hR hq 1 (ρ - 2) (by rw [hk]; exact hl) (startPhase d R inp).1
        (fun _ => []) hst (Or.inl (by rw [hk]; exact hin0)) env henv
    rw [hk] at hspec hJ hjust hmsgs hpre
    have hwv : w = v := by
      rcases hspec with ⟨h, _⟩ | ⟨a, ha, h1', _⟩
      · rw [h, (start_stuck d R inp _ hl).2.1, hinp]
      · exfalso
        -- nobody is prepared at the start
        have haR : a ∈ R := by
          unfold leaderQuorum at ha
          have := List.mem_of_mem_take ha
          obtain ⟨x, hx, rfl⟩ := List.mem_map.mp this
          have hx' := (henv 0 _ _).mem_iff.mp hx
          obtain ⟨b, hb, rfl⟩ := List.mem_map.mp hx'
          exact hb
        have := (start_stuck d R inp a haR).2.2.1.1
        simp only [rcOfState] at h1'
        omega
    subst hwv
    refine ⟨J, pre0, ?_, hJ, hjust, ?_⟩
    · unfold roundStart; rw [if_neg h1]; exact hmsgs
    · intro p hp
      unfold roundStart; rw [if_neg h1]
      obtain ⟨b1, b2, b3, b4, b5⟩ := hpre p hp
      obtain ⟨_, a2, a3, _⟩ := start_stuck d R inp p hp
      refine ⟨b1, by rw [b2, a2], ?_, b4, by simpa using b5⟩
      rw [a3.1, a3.2.1, a3.2.2] at b3
      exact b3

/-- The cluster after round `ρ` progressed partially: rounds `1 … ρ-1` were lost silently, the
PRE-PREPARE of the leader of `ρ` (its input) reached all of `R`, the PREPAREs of the senders `dp p`
reached member `p` — who prepares if they are a quorum —, the COMMITs of the senders `dc p` reached
member `p` (fewer than a quorum). -/
def partialPrepareRound (d : Def) (env : Env) (R : List Nat) (inp : Nat → Nat) (ρ : Nat)
    (dp dc : Nat → List Nat) : Cluster :=
  partialRound d env dp dc R (roundStart d env R inp ρ).1 (roundStart d env R inp ρ).2

/-- … then every member's round timer fires `k + 1` times with nothing delivered but the
ROUND-CHANGEs of the last time-out, and round `ρ + k + 1` is good (`timeoutsThenGood`; the phases of
that round use the environment's choices `4, 5, 6, 7`). -/
def afterPartialPrepare (d : Def) (env : Env) (R : List Nat) (inp : Nat → Nat) (ρ : Nat)
    (dp dc : Nat → List Nat) (k : Nat) : Cluster :=
  timeoutsThenGood d (env.shift 4) R (partialPrepareRound d env R inp ρ dp dc) k (ρ + k + 1)

/-- the hypotheses on what arrives in the partially progressing round. -/
structure PartialDelivery (d : Def) (R : List Nat) (dp dc : Nat → List Nat) : Prop where
  prepares : ∀ p ∈ R, (dp p).Nodup ∧ ∀ a ∈ dp p, a ∈ R
  commits : ∀ p ∈ R, (dc p).Nodup ∧ (∀ a ∈ dc p, a ∈ R ∧ d.quorum ≤ (dp a).length) ∧
    (dc p).length < d.quorum

/-- the members that did not prepare in the partial round. -/
def unprepared (d : Def) (R : List Nat) (dp : Nat → List Nat) : List Nat :=
  R.filter (fun p => decide ((dp p).length < d.quorum))

theorem partialPrepareRound_stuck (d : Def) (hn : 1 ≤ d.nodes) (hf : 4 ≤ d.fifo) (R : List Nat)
    (hR : R.Nodup) (hq : d.quorum ≤ R.length) (ρ : Nat) (hρ : 1 ≤ ρ) (hl : d.leader ρ ∈ R)
    (inp : Nat → Nat) (v : Nat) (hv : v ≠ 0) (hinp : inp (d.leader ρ) = v) (env : Env)
    (henv : env.Fair) (dp dc : Nat → List Nat) (hd : PartialDelivery d R dp dc) :
    ∃ old : Nat → List Msg, ∀ p ∈ R,
      Stuck d ρ 4 p (old p) (partialPrepareRound d env R inp ρ dp dc p) ∧
      (partialPrepareRound d env R inp ρ dp dc p).1.inputValue = inp p ∧
      (d.quorum ≤ (dp p).length →
        (partialPrepareRound d env R inp ρ dp dc p).1.preparedRound = ρ ∧
        (partialPrepareRound d env R inp ρ dp dc p).1.preparedValue = v) ∧
      ((dp p).length < d.quorum → Prep3 0 0 [] (partialPrepareRound d env R inp ρ dp dc p).1) := by
  obtain ⟨J, pre0, hmsgs, hJ, hjust, hpre⟩ :=
    roundStart_ready d hn (by omega) R hR hq ρ hρ hl inp v hv hinp env henv
  refine ⟨fun p => pre0 p ++ [ppMsg ρ v J (d.leader ρ)] ++ (dp p).map (prepMsg ρ v) ++
    (dc p).map (commitMsg ρ v), ?_⟩
  intro p hp
  unfold partialPrepareRound
  rw [hmsgs]
  have := partial_round (b0 := 1) pre0 (quorum_pos d hn) hρ hv hJ (by omega) hjust
    (fun p hp => (hpre p hp).2.2.2.1) (fun p hp => (hpre p hp).2.2.2.2) env henv dp dc
    hd.prepares hd.commits (roundStart d env R inp ρ).1 (fun p hp => (hpre p hp).1)
    (fun p hp => Or.inl (hpre p hp).2.2.1) p hp
  obtain ⟨g1, g2, g3, g4⟩ := this
  obtain ⟨_, b2, b3, _⟩ := hpre p hp
  refine ⟨g1, by rw [g2, b2], g3, ?_⟩
  intro h
  have := g4 h
  rw [b3.1, b3.2.1, b3.2.2] at this
  exact this

/-- **After a round with partial prepares a good round decides** (general form with `k` further
lost rounds in between). The decided value `w` is the prepared value `v` if the first quorum of
ROUND-CHANGEs reaching the leader includes a prepared member — in particular if fewer than a quorum
of members are unprepared — and the leader's own input otherwise. -/
theorem afterPartialPrepare_decides (d : Def) (hn : 1 ≤ d.nodes) (hf : 8 ≤ d.fifo) (R : List Nat)
    (hR : R.Nodup) (hq : d.quorum ≤ R.length) (ρ k : Nat) (hρ : 1 ≤ ρ) (hl' : d.leader ρ ∈ R)
    (hl : d.leader (ρ + k + 1) ∈ R) (inp : Nat → Nat) (v : Nat) (hv : v ≠ 0)
    (hinp : inp (d.leader ρ) = v) (env : Env) (henv : env.Fair) (dp dc : Nat → List Nat)
    (hd : PartialDelivery d R dp dc)
    (hforce : inp (d.leader (ρ + k + 1)) ≠ 0 ∨ (unprepared d R dp).length < d.quorum) :
    ∃ w, w ≠ 0 ∧
      ((w = v ∧ ∃ a ∈ leaderQuorum d (env.shift 4) R (partialPrepareRound d env R inp ρ dp dc) (ρ + k + 1),
          d.quorum ≤ (dp a).length) ∨
       (w = inp (d.leader (ρ + k + 1)) ∧
        ∀ a ∈ leaderQuorum d (env.shift 4) R (partialPrepareRound d env R inp ρ dp dc) (ρ + k + 1),
          (dp a).length < d.quorum)) ∧
      ((unprepared d R dp).length < d.quorum → w = v) ∧
      ∀ p ∈ R, GoodOutcome w (ρ + k + 1) (afterPartialPrepare d env R inp ρ dp dc k p) := by
  obtain ⟨old, hst⟩ := partialPrepareRound_stuck d hn (by omega) R hR hq ρ hρ hl' inp v hv hinp env henv
    dp dc hd
  let cl := partialPrepareRound d env R inp ρ dp dc
  have hnullp : ∀ a ∈ R, nullPrepared (cl a) = decide ((dp a).length < d.quorum) := by
    intro a ha
    obtain ⟨_, _, g3, g4⟩ := hst a ha
    by_cases hqa : d.quorum ≤ (dp a).length
    · have := (g3 hqa).1
      simp only [nullPrepared, cl, this]
      have h1 : (ρ == 0) = false := by simpa using (by omega : ρ ≠ 0)
      rw [h1, Bool.false_and]
      symm; simpa using hqa
    · have := g4 (by omega)
      simp only [nullPrepared, cl, this.1, this.2.1]
      symm; simpa using hqa
  have hfilter : R.filter (fun a => nullPrepared (cl a)) = unprepared d R dp := by
    unfold unprepared
    apply List.filter_congr
    intro a ha; exact hnullp a ha
  have hinp' : (cl (d.leader (ρ + k + 1))).1.inputValue ≠ 0 ∨
      (R.filter (fun a => nullPrepared (cl a))).length < d.quorum := by
    rw [hfilter, (hst _ hl).2.1]; exact hforce
  obtain ⟨w, hw0, hspec, hgood⟩ := stuck_then_good_decides d hn 4 (by omega) R hR hq ρ k hl cl old
    (fun p hp => (hst p hp).1) hinp' (env.shift 4) (henv.shift 4)
  -- members of the leader's quorum are running members, pairwise different
  have hQ : ∀ a ∈ leaderQuorum d (env.shift 4) R cl (ρ + k + 1), a ∈ R := by
    intro a ha
    unfold leaderQuorum at ha
    have := List.mem_of_mem_take ha
    obtain ⟨x, hx, rfl⟩ := List.mem_map.mp this
    have hx' := ((henv.shift 4) 0 _ _).mem_iff.mp hx
    obtain ⟨b, hb, rfl⟩ := List.mem_map.mp hx'
    exact hb
  have hspec' : (w = v ∧ ∃ a ∈ leaderQuorum d (env.shift 4) R cl (ρ + k + 1), d.quorum ≤ (dp a).length) ∨
      (w = inp (d.leader (ρ + k + 1)) ∧
        ∀ a ∈ leaderQuorum d (env.shift 4) R cl (ρ + k + 1), (dp a).length < d.quorum) := by
    rcases hspec with ⟨h1, h2⟩ | ⟨a, ha, h1, h2, _⟩
    · right
      refine ⟨by rw [h1, (hst _ hl).2.1], ?_⟩
      intro a ha
      have := h2 a ha
      have hn' : nullPrepared (cl a) = true := this
      rw [hnullp a (hQ a ha)] at hn'
      simpa using hn'
    · left
      have haR := hQ a ha
      obtain ⟨_, _, g3, g4⟩ := hst a haR
      by_cases hqa : d.quorum ≤ (dp a).length
      · exact ⟨by rw [h2]; exact (g3 hqa).2, a, ha, hqa⟩
      · exfalso
        have h0 : (cl a).1.preparedRound = 0 := (g4 (by omega)).1
        have h1' : 1 ≤ (cl a).1.preparedRound := h1
        omega
  refine ⟨w, hw0, hspec', ?_, hgood⟩
  intro hlt
  rcases hspec' with ⟨h, _⟩ | ⟨_, h⟩
  · exact h
  · exfalso
    -- the leader's quorum would consist of `quorum` distinct unprepared members
    have hsub : ∀ a ∈ leaderQuorum d (env.shift 4) R cl (ρ + k + 1), a ∈ unprepared d R dp := by
      intro a ha
      exact List.mem_filter.mpr ⟨hQ a ha, by simpa using h a ha⟩
    have hperm := (perm_map_srcs (mk := fun a => rcOfState (ρ + k + 1) a (cl a).1) (R := R)
      (fun _ => rfl) ((henv.shift 4) 0 (d.leader (ρ + k + 1)) _)).2
    have hnd : (leaderQuorum d (env.shift 4) R cl (ρ + k + 1)).Nodup := by
      unfold leaderQuorum
      exact List.Nodup.sublist (List.take_sublist _ _) (hperm.nodup_iff.mpr hR)
    have hlen : (leaderQuorum d (env.shift 4) R cl (ρ + k + 1)).length = d.quorum := by
      unfold leaderQuorum
      rw [List.length_take, hperm.length_eq]
      omega
    have := nodup_subset_length _ _ hnd hsub
    omega

/-- **`Stuck` is kept by a partially progressing round**: from a stuck cluster, `k + 1` joint
time-outs, the ROUND-CHANGE phase of round `r + k + 1`, its leader's PRE-PREPARE to everybody, and
then only some PREPAREs / fewer than a quorum of COMMITs per member: the cluster is stuck again, in
round `r + k + 1`, with at most 4 more messages per source buffered. -/
theorem stuck_partial_stuck (d : Def) (hn : 1 ≤ d.nodes) (B : Nat) (hf : B + 4 ≤ d.fifo)
    (R : List Nat) (hR : R.Nodup) (hq : d.quorum ≤ R.length) (r k : Nat)
    (hl : d.leader (r + k + 1) ∈ R) (cl : Cluster) (old : Nat → List Msg)
    (hst : ∀ p ∈ R, Stuck d r B p (old p) (cl p))
    (hinp : (cl (d.leader (r + k + 1))).1.inputValue ≠ 0 ∨
      (R.filter (fun a => nullPrepared (cl a))).length < d.quorum)
    (env : Env) (henv : env.Fair) (dp dc : Nat → List Nat) (hd : PartialDelivery d R dp dc) :
    ∃ old' : Nat → List Msg, ∀ p ∈ R,
      Stuck d (r + k + 1) (B + 4) p (old' p)
        (partialRound d env dp dc R (enterRound d env R cl k (r + k + 1)).1
          (enterRound d env R cl k (r + k + 1)).2 p) ∧
      (partialRound d env dp dc R (enterRound d env R cl k (r + k + 1)).1
          (enterRound d env R cl k (r + k + 1)).2 p).1.inputValue = (cl p).1.inputValue := by
  obtain ⟨J, w, hw0, _, hJ, hjust, hmsgs, pre0, hpre⟩ :=
    enter_round d hn B (by omega) R hR hq r k hl cl old hst hinp env henv
  refine ⟨fun p => pre0 p ++ [ppMsg (r + k + 1) w J (d.leader (r + k + 1))] ++
    (dp p).map (prepMsg (r + k + 1) w) ++ (dc p).map (commitMsg (r + k + 1) w), ?_⟩
  intro p hp
  rw [hmsgs]
  have hcert : ∀ p ∈ R, CertState d (r + k + 1) ((enterRound d env R cl k (r + k + 1)).1 p).1 := by
    intro p hp
    obtain ⟨e1, e2, e3⟩ := (hpre p hp).2.2.1
    unfold CertState
    rw [e1, e2, e3]
    rcases (hst p hp).cert with h | ⟨h1, h2, h3, h4⟩
    · exact Or.inl h
    · exact Or.inr ⟨h1, by omega, h3, h4⟩
  have := partial_round (b0 := B + 1) pre0 (quorum_pos d hn) (by omega) hw0 hJ (by omega) hjust
    (fun p hp => (hpre p hp).2.2.2.1) (fun p hp => (hpre p hp).2.2.2.2) env henv dp dc
    hd.prepares hd.commits (enterRound d env R cl k (r + k + 1)).1 (fun p hp => (hpre p hp).1)
    hcert p hp
  obtain ⟨g1, g2, _, _⟩ := this
  exact ⟨g1, by rw [g2, (hpre p hp).2.1]⟩

/-- the delivery hypotheses, decidable on a concrete cluster. -/
def partialDeliveryB (d : Def) (R : List Nat) (dp dc : Nat → List Nat) : Bool :=
  R.all (fun p => decide (dp p).Nodup && (dp p).all (fun a => decide (a ∈ R))) &&
  R.all (fun p => decide (dc p).Nodup &&
    (dc p).all (fun a => decide (a ∈ R) && decide (d.quorum ≤ (dp a).length)) &&
    decide ((dc p).length < d.quorum))

theorem partialDeliveryB_sound {d : Def} {R : List Nat} {dp dc : Nat → List Nat}
    (h : partialDeliveryB d R dp dc = true) : PartialDelivery d R dp dc := by
  unfold partialDeliveryB at h
  simp only [Bool.and_eq_true, List.all_eq_true, decide_eq_true_eq] at h
  exact ⟨fun p hp => ⟨(h.1 p hp).1, (h.1 p hp).2⟩,
    fun p hp => ⟨(h.2 p hp).1.1, fun a ha => (h.2 p hp).1.2 a ha, (h.2 p hp).2⟩⟩

end CharonV.Qbft
