/-
C12 — helper lemmas for `Props/C12.lean`: injectivity of the hasher operations of
`Model/SszSchema.lean` under collision freedom of the 2-to-1 compression function on 32-byte chunks.

* byte level: `mkChunk_inj`, `chunkify_inj` (at equal byte length), `le64_inj`, `flatMap_le64_inj`
* merkle level: `layer_inj`, `merkLoop_inj`, `merkleize_inj` (at equal chunk count within the limit),
  `mixin_inj`, `putBytes_inj`, `pieces_spec`
* tree level: `tree_inj` / `treeL_inj` — two chunk trees of the same shape, whose raw `PutBytes`
  leaves agree in length and whose data satisfies `Tree.sized`, leave different chunks in the hasher
  buffer unless they are equal.
* schema level: `resolve_shape` / `resolveL_shape` — two instantiations (`Sch.resolve`) of the same
  `wfLegacy` schema are one tree each, of the same shape (`Tree.shapeEq`); trees read through a `wf`
  schema have no raw leaf and satisfy the structural half of `sized` (`resolve_struct`).
-/
import CharonV.Model.SszSchema
open CharonV.Ssz
namespace CharonV.Ssz

/-! collision notions -/
def Collision (h : Chunk → Chunk → Chunk) : Prop := ∃ a b c d : Chunk, (a, b) ≠ (c, d) ∧ h a b = h c d
def NoColl (h : Chunk → Chunk → Chunk) : Prop := ∀ a b c d : Chunk, h a b = h c d → a = c ∧ b = d

theorem noColl_of_not_collision {h} (hn : ¬ Collision h) : NoColl h := by
  intro a b c d he
  by_cases hab : (a, b) = (c, d)
  · exact ⟨congrArg Prod.fst hab, congrArg Prod.snd hab⟩
  · exact absurd ⟨a, b, c, d, hab, he⟩ hn

theorem Chunk.ext' {a b : Chunk} (h : a.bytes = b.bytes) : a = b := by
  cases a; cases b; simp at h; subst h; rfl

theorem mkChunk_bytes (b : Bytes) : (mkChunk b).bytes = (b ++ List.replicate 32 0).take 32 := rfl

theorem take_mkChunk (b : Bytes) (hb : b.length ≤ 32) : (mkChunk b).bytes.take b.length = b := by
  rw [mkChunk_bytes, List.take_take, Nat.min_eq_left hb, List.take_append_of_le_length (Nat.le_refl _), List.take_length]

theorem mkChunk_inj {a b : Bytes} (ha : a.length ≤ 32) (hl : a.length = b.length)
    (he : mkChunk a = mkChunk b) : a = b := by
  have h1 := take_mkChunk a ha
  have h2 := take_mkChunk b (hl ▸ ha)
  rw [he, hl] at h1
  rw [← h1, h2]

theorem chunkifyAux_nil (n : Nat) : chunkifyAux n [] = [] := by
  cases n <;> simp [chunkifyAux]

theorem chunkifyAux_length (n : Nat) : ∀ b : Bytes, b.length ≤ 32 * n → (chunkifyAux n b).length = (b.length + 31) / 32 := by
  induction n with
  | zero => intro b hb; have : b.length = 0 := by omega
            simp [chunkifyAux, this]
  | succ n ih =>
    intro b hb
    unfold chunkifyAux
    by_cases he : b.isEmpty
    · simp [he]; have : b = [] := by simpa using he
      simp [this]
    · simp only [he]
      have hne : b.length ≠ 0 := by
        intro h0; apply he; simp [List.length_eq_zero_iff.mp h0]
      simp only [Bool.false_eq_true, if_false, List.length_cons]
      rw [ih (b.drop 32) (by simp [List.length_drop]; omega)]
      simp [List.length_drop]; omega

theorem chunkify_length (b : Bytes) : (chunkify b).length = (b.length + 31) / 32 :=
  chunkifyAux_length _ b (by omega)

theorem chunkifyAux_inj (n : Nat) : ∀ a b : Bytes, a.length = b.length → a.length ≤ 32 * n →
    chunkifyAux n a = chunkifyAux n b → a = b := by
  induction n with
  | zero => intro a b hl hb _
            have h1 : a.length = 0 := by omega
            have h2 : b.length = 0 := by omega
            rw [List.length_eq_zero_iff.mp h1, List.length_eq_zero_iff.mp h2]
  | succ n ih =>
    intro a b hl hb he
    unfold chunkifyAux at he
    by_cases hea : a.isEmpty
    · have : a = [] := by simpa using hea
      subst this
      have : b.length = 0 := by simpa using hl.symm
      rw [List.length_eq_zero_iff.mp this]
    · have heb : ¬ b.isEmpty := by
        intro hb'
        have : b = [] := by simpa using hb'
        subst this
        have : a.length = 0 := by simpa using hl
        apply hea; simp [List.length_eq_zero_iff.mp this]
      simp only [hea, heb, Bool.false_eq_true, if_false, List.cons.injEq] at he
      have ht : a.take 32 = b.take 32 :=
        mkChunk_inj (by simp [List.length_take]; omega) (by simp [List.length_take, hl]) he.1
      have hd : a.drop 32 = b.drop 32 :=
        ih _ _ (by simp [List.length_drop, hl]) (by simp [List.length_drop]; omega) he.2
      rw [← List.take_append_drop 32 a, ← List.take_append_drop 32 b, ht, hd]

theorem chunkify_inj {a b : Bytes} (hl : a.length = b.length) (he : chunkify a = chunkify b) : a = b := by
  unfold chunkify at he
  rw [← hl] at he
  exact chunkifyAux_inj _ a b hl (by omega) he

theorem le64_length (n : Nat) : (le64 n).length = 8 := rfl

theorem ofNat_mod_inj {x y : Nat} (h : UInt8.ofNat (x % 256) = UInt8.ofNat (y % 256)) : x % 256 = y % 256 := by
  have := congrArg UInt8.toNat h
  simpa [UInt8.toNat_ofNat'] using this

theorem le64_inj {n m : Nat} (hn : n < 18446744073709551616) (hm : m < 18446744073709551616)
    (he : le64 n = le64 m) : n = m := by
  unfold le64 at he
  simp only [List.cons.injEq, and_true] at he
  obtain ⟨h0, h1, h2, h3, h4, h5, h6, h7⟩ := he
  have e0 := ofNat_mod_inj h0
  have e1 := ofNat_mod_inj h1
  have e2 := ofNat_mod_inj h2
  have e3 := ofNat_mod_inj h3
  have e4 := ofNat_mod_inj h4
  have e5 := ofNat_mod_inj h5
  have e6 := ofNat_mod_inj h6
  have e7 := ofNat_mod_inj h7
  omega


theorem u64Chunk_inj {n m : Nat} (hn : n < 18446744073709551616) (hm : m < 18446744073709551616)
    (he : u64Chunk n = u64Chunk m) : n = m :=
  le64_inj hn hm (mkChunk_inj (by simp [le64_length]) (by simp [le64_length]) he)

theorem flatMap_le64_length (xs : List Nat) : (xs.flatMap le64).length = 8 * xs.length := by
  induction xs with
  | nil => rfl
  | cons x xs ih => simp [List.flatMap_cons, le64_length, ih]; omega

theorem flatMap_le64_inj : ∀ xs ys : List Nat, xs.length = ys.length →
    (∀ x ∈ xs, x < 18446744073709551616) → (∀ y ∈ ys, y < 18446744073709551616) →
    xs.flatMap le64 = ys.flatMap le64 → xs = ys
  | [], [], _, _, _, _ => rfl
  | [], _ :: _, hl, _, _, _ => by simp at hl
  | _ :: _, [], hl, _, _, _ => by simp at hl
  | x :: xs, y :: ys, hl, hx, hy, he => by
    simp only [List.flatMap_cons] at he
    obtain ⟨h1, h2⟩ := List.append_inj he (by simp [le64_length])
    have := le64_inj (hx x (by simp)) (hy y (by simp)) h1
    subst this
    rw [flatMap_le64_inj xs ys (by simpa using hl) (fun a ha => hx a (by simp [ha]))
      (fun a ha => hy a (by simp [ha])) h2]

section Merkle
variable {h : Chunk → Chunk → Chunk}

theorem layer_length (z : Chunk) : ∀ xs : List Chunk, (layer h z xs).length = (xs.length + 1) / 2
  | [] => by simp [layer]
  | [_] => by simp [layer]
  | _ :: _ :: r => by simp [layer, layer_length z r]; omega

theorem layer_inj (hc : NoColl h) (z : Chunk) : ∀ xs ys : List Chunk, xs.length = ys.length →
    layer h z xs = layer h z ys → xs = ys
  | [], [], _, _ => rfl
  | [], _ :: _, hl, _ => by simp at hl
  | _ :: _, [], hl, _ => by simp at hl
  | [a], [b], _, he => by
    simp [layer] at he
    rw [(hc _ _ _ _ he).1]
  | [_], _ :: _ :: _, hl, _ => by simp at hl
  | _ :: _ :: _, [_], hl, _ => by simp at hl
  | a :: b :: r, c :: d :: s, hl, he => by
    simp [layer] at he
    obtain ⟨h1, h2⟩ := he
    obtain ⟨e1, e2⟩ := hc _ _ _ _ h1
    rw [e1, e2, layer_inj hc z r s (by simpa using hl) h2]

theorem merkLoop_inj (hc : NoColl h) : ∀ (d i : Nat) (xs ys : List Chunk), xs.length = ys.length →
    merkLoop h i d xs = merkLoop h i d ys → xs = ys
  | 0, _, _, _, _, he => he
  | d+1, i, xs, ys, hl, he => by
    simp only [merkLoop] at he
    have := merkLoop_inj hc d (i+1) _ _ (by simp [layer_length, hl]) he
    exact layer_inj hc _ xs ys hl this

theorem merkLoop_length_one : ∀ (d i : Nat) (xs : List Chunk), 1 ≤ xs.length → xs.length ≤ 2 ^ d →
    (merkLoop h i d xs).length = 1
  | 0, _, xs, h1, h2 => by simp [merkLoop] at *; omega
  | d+1, i, xs, h1, h2 => by
    simp only [merkLoop]
    apply merkLoop_length_one d (i+1)
    · simp [layer_length]; omega
    · simp [layer_length]; rw [Nat.pow_succ] at h2; omega

theorem le_pow_depthOf (lim : Nat) (hl : 2 ≤ lim) : lim ≤ 2 ^ depthOf lim := by
  unfold depthOf
  have : ¬ lim ≤ 1 := by omega
  simp only [this, if_false]
  have := @Nat.lt_log2_self (lim - 1)
  omega

theorem merk_core_inj (hc : NoColl h) (lim : Nat) : ∀ (xs ys : List Chunk), xs.length = ys.length →
    xs.length ≤ lim →
    (if lim = 0 then zeroChunk
      else if lim = 1 then (match xs with | [c] => c | _ => zeroChunk)
      else match xs with
        | [] => zeroHash h (depthOf lim)
        | _ => (merkLoop h 0 (depthOf lim) xs).headD zeroChunk) =
    (if lim = 0 then zeroChunk
      else if lim = 1 then (match ys with | [c] => c | _ => zeroChunk)
      else match ys with
        | [] => zeroHash h (depthOf lim)
        | _ => (merkLoop h 0 (depthOf lim) ys).headD zeroChunk) → xs = ys
  | [], [], _, _, _ => rfl
  | [], _ :: _, hl, _, _ => by simp at hl
  | _ :: _, [], hl, _, _ => by simp at hl
  | a :: r, b :: s, hl, hb, he => by
    have h0 : lim ≠ 0 := by simp at hb; omega
    by_cases h1 : lim = 1
    · subst h1
      have hr : r = [] := by simp at hb; exact hb
      have hs : s = [] := by
        subst hr
        simp only [List.length_cons, List.length_nil] at hl
        exact List.length_eq_zero_iff.mp (by omega)
      subst hr; subst hs
      simp at he
      rw [he]
    · simp only [h0, h1, if_false] at he
      have hle : (a :: r).length ≤ 2 ^ depthOf lim :=
        Nat.le_trans hb (le_pow_depthOf lim (by omega))
      have l1 := merkLoop_length_one (h := h) (depthOf lim) 0 (a :: r) (by simp) hle
      have l2 := merkLoop_length_one (h := h) (depthOf lim) 0 (b :: s) (by simp) (hl ▸ hle)
      have : merkLoop h 0 (depthOf lim) (a :: r) = merkLoop h 0 (depthOf lim) (b :: s) := by
        generalize merkLoop h 0 (depthOf lim) (a :: r) = u at *
        generalize merkLoop h 0 (depthOf lim) (b :: s) = v at *
        match u, v, l1, l2 with
        | [p], [q], _, _ => simp at he; rw [he]
      exact merkLoop_inj hc _ 0 _ _ hl this

theorem merkleize_inj (hc : NoColl h) (limit : Nat) (xs ys : List Chunk) (hl : xs.length = ys.length)
    (hb : limit = 0 ∨ xs.length ≤ limit) (he : merkleize h limit xs = merkleize h limit ys) : xs = ys := by
  unfold merkleize at he
  rw [← hl] at he
  refine merk_core_inj hc (if limit = 0 then xs.length else limit) xs ys hl ?_ he
  by_cases hz : limit = 0
  · simp [hz]
  · rcases hb with hb | hb
    · exact absurd hb hz
    · simp [hz]; exact hb

theorem mixin_inj (hc : NoColl h) {r r' : Chunk} {n m : Nat} (hn : n < 18446744073709551616)
    (hm : m < 18446744073709551616) (he : mixin h r n = mixin h r' m) : r = r' ∧ n = m := by
  obtain ⟨e1, e2⟩ := hc _ _ _ _ he
  exact ⟨e1, u64Chunk_inj hn hm e2⟩

theorem putBytes_length_eq {a b : Bytes} (hl : a.length = b.length) :
    (putBytes h a).length = (putBytes h b).length := by
  unfold putBytes
  by_cases h32 : a.length ≤ 32
  · have h32' : b.length ≤ 32 := hl ▸ h32
    simp [h32', chunkify_length, hl]
  · have h32' : ¬ b.length ≤ 32 := hl ▸ h32
    simp [h32, h32']

theorem putBytes_inj (hc : NoColl h) {a b : Bytes} (hl : a.length = b.length)
    (he : putBytes h a = putBytes h b) : a = b := by
  unfold putBytes at he
  rw [← hl] at he
  by_cases h32 : a.length ≤ 32
  · simp only [h32, if_true] at he
    exact chunkify_inj hl he
  · simp only [h32, if_false, List.cons.injEq, and_true] at he
    exact chunkify_inj hl (merkleize_inj hc 0 _ _ (by simp [chunkify_length, hl]) (Or.inl rfl) he)

theorem putBytes_length_one {a : Bytes} (h1 : 1 ≤ a.length) : (putBytes h a).length = 1 := by
  unfold putBytes
  by_cases h32 : a.length ≤ 32
  · simp [h32, chunkify_length]; omega
  · simp [h32]


theorem piecesAux_spec {n : Nat} (hn : 0 < n) : ∀ (m k : Nat) (b : Bytes), b.length = n * m → m ≤ k →
    (piecesAux n k b).flatten = b ∧ (piecesAux n k b).length = m ∧ ∀ p ∈ piecesAux n k b, p.length = n
  | 0, k, b, hb, _ => by
    have : b = [] := List.length_eq_zero_iff.mp (by simpa using hb)
    subst this
    cases k <;> simp [piecesAux, hn]
  | m+1, 0, _, _, hk => by omega
  | m+1, k+1, b, hb, hk => by
    have hge : ¬ b.length < n := by rw [hb, Nat.mul_succ]; omega
    have ih := piecesAux_spec hn m k (b.drop n) (by simp [List.length_drop, hb, Nat.mul_succ]) (by omega)
    simp only [piecesAux, hge, if_false]
    refine ⟨?_, ?_, ?_⟩
    · simp [ih.1]
    · simp [ih.2.1]
    · intro p hp
      simp at hp
      rcases hp with hp | hp
      · subst hp; simp [List.length_take]; omega
      · exact ih.2.2 p hp

theorem pieces_spec {n : Nat} (hn : 0 < n) (b : Bytes) (hd : b.length % n = 0) :
    (pieces n b).flatten = b ∧ (pieces n b).length = b.length / n ∧ ∀ p ∈ pieces n b, p.length = n := by
  have hb : b.length = n * (b.length / n) := by
    have := Nat.div_add_mod b.length n; omega
  have hk : b.length / n ≤ b.length := Nat.div_le_self _ _
  exact piecesAux_spec hn (b.length / n) b.length b hb hk

theorem flatMap_putBytes_length {n : Nat} (hn : 1 ≤ n) : ∀ ps : List Bytes, (∀ p ∈ ps, p.length = n) →
    (ps.flatMap (putBytes h)).length = ps.length
  | [], _ => rfl
  | p :: ps, hp => by
    simp only [List.flatMap_cons, List.length_append, List.length_cons]
    rw [putBytes_length_one (by rw [hp p (by simp)]; exact hn),
      flatMap_putBytes_length hn ps (fun q hq => hp q (by simp [hq]))]
    omega

theorem flatMap_putBytes_inj (hc : NoColl h) {n : Nat} (hn : 1 ≤ n) : ∀ ps qs : List Bytes, ps.length = qs.length →
    (∀ p ∈ ps, p.length = n) → (∀ q ∈ qs, q.length = n) →
    ps.flatMap (putBytes h) = qs.flatMap (putBytes h) → ps = qs
  | [], [], _, _, _, _ => rfl
  | [], _ :: _, hl, _, _, _ => by simp at hl
  | _ :: _, [], hl, _, _, _ => by simp at hl
  | p :: ps, q :: qs, hl, hp, hq, he => by
    simp only [List.flatMap_cons] at he
    have lp : p.length = n := hp p (by simp)
    have lq : q.length = n := hq q (by simp)
    obtain ⟨h1, h2⟩ := List.append_inj he
      (by rw [putBytes_length_one (by omega), putBytes_length_one (by omega)])
    have := putBytes_inj hc (by omega) h1
    subst this
    rw [flatMap_putBytes_inj hc hn ps qs (by simpa using hl) (fun a ha => hp a (by simp [ha]))
      (fun a ha => hq a (by simp [ha])) h2]


/-! ### trees -/

theorem chunksL_cons_ok {t : Tree} {ts : List Tree} {c : List Chunk} (hx : Tree.chunksL h (t :: ts) = .ok c) :
    ∃ a b, Tree.chunks h t = .ok a ∧ Tree.chunksL h ts = .ok b ∧ c = a ++ b := by
  simp only [Tree.chunksL] at hx
  cases h1 : Tree.chunks h t with
  | error e => simp [h1] at hx
  | ok a =>
    cases h2 : Tree.chunksL h ts with
    | error e => simp [h1, h2] at hx
    | ok b =>
      simp [h1, h2] at hx
      exact ⟨a, b, rfl, rfl, hx.symm⟩

theorem single_chunks_length : ∀ (t : Tree) (a : List Chunk), t.single = true → t.sized = true →
    Tree.chunks h t = .ok a → a.length = 1 := by
  intro t a hs hz ha
  cases t with
  | raw b => simp [Tree.single] at hs
  | seq ks => simp [Tree.single] at hs
  | fixed n b =>
    simp [Tree.single] at hs
    simp [Tree.sized] at hz
    simp only [Tree.chunks] at ha
    split at ha
    · simp at ha
    · simp at ha
      subst ha
      apply putBytes_length_one
      simp [leftPad, hz]; omega
  | blist m b => simp only [Tree.chunks] at ha; split at ha <;> simp at ha; subst ha; rfl
  | u64 n => simp [Tree.chunks] at ha; subst ha; rfl
  | bool b => simp [Tree.chunks] at ha; subst ha; rfl
  | u64s m xs => simp only [Tree.chunks] at ha; split at ha <;> simp at ha; subst ha; rfl
  | sigs m b =>
    simp only [Tree.chunks] at ha
    split at ha
    · simp at ha
    · split at ha <;> simp at ha
      subst ha; rfl
  | cont ks =>
    simp only [Tree.chunks] at ha
    split at ha <;> simp at ha
    subst ha; rfl
  | mix l n ks =>
    simp only [Tree.chunks] at ha
    split at ha
    · simp at ha
    · split at ha <;> simp at ha
      subst ha; rfl

theorem all_single_chunksL_length : ∀ (ts : List Tree) (a : List Chunk), ts.all Tree.single = true →
    Tree.sizedL ts = true → Tree.chunksL h ts = .ok a → a.length = ts.length
  | [], a, _, _, ha => by simp [Tree.chunksL] at ha; subst ha; rfl
  | t :: ts, a, hs, hz, ha => by
    obtain ⟨x, y, hx, hy, rfl⟩ := chunksL_cons_ok ha
    simp only [List.all_cons, Bool.and_eq_true] at hs
    simp only [Tree.sizedL, Bool.and_eq_true] at hz
    rw [List.length_append, single_chunks_length t x hs.1 hz.1 hx,
      all_single_chunksL_length ts y hs.2 hz.2 hy]
    simp; omega


mutual
theorem tree_inj (hc : NoColl h) (t u : Tree) (hs : t.shapeEq u = true) (hr : t.rawAgree u = true)
    (hz : t.sized = true) (hz' : u.sized = true) (a b : List Chunk)
    (ha : Tree.chunks h t = .ok a) (hb : Tree.chunks h u = .ok b) :
    a.length = b.length ∧ (a = b → t = u) := by
  cases t with
  | raw x =>
    cases u with
    | raw y =>
      simp [Tree.rawAgree] at hr
      simp [Tree.chunks] at ha hb
      subst ha; subst hb
      exact ⟨putBytes_length_eq hr, fun he => by rw [putBytes_inj hc hr he]⟩
    | _ => simp [Tree.shapeEq] at hs
  | fixed n x =>
    cases u with
    | fixed m y =>
      simp [Tree.shapeEq] at hs; subst hs
      simp [Tree.sized] at hz hz'
      simp only [Tree.chunks] at ha hb
      rw [if_neg (by omega)] at ha; rw [if_neg (by omega)] at hb
      simp at ha hb; subst ha; subst hb
      have e1 : leftPad n x = x := by simp [leftPad, hz]
      have e2 : leftPad n y = y := by simp [leftPad, hz']
      rw [e1, e2]
      have hl : x.length = y.length := by omega
      exact ⟨putBytes_length_eq hl, fun he => by rw [putBytes_inj hc hl he]⟩
    | _ => simp [Tree.shapeEq] at hs
  | blist m x =>
    cases u with
    | blist m' y =>
      simp [Tree.shapeEq] at hs; subst hs
      simp [Tree.sized] at hz
      simp only [Tree.chunks] at ha hb
      split at ha
      · simp at ha
      split at hb
      · simp at hb
      simp at ha hb; subst ha; subst hb
      refine ⟨rfl, fun he => ?_⟩
      simp at he
      obtain ⟨e1, e2⟩ := mixin_inj hc (by omega) (by omega) he
      have := merkleize_inj hc _ _ _ (by simp [chunkify_length, e2])
        (Or.inr (by simp [chunkify_length]; omega)) e1
      rw [chunkify_inj e2 this]
    | _ => simp [Tree.shapeEq] at hs
  | u64 n =>
    cases u with
    | u64 m =>
      simp [Tree.sized] at hz hz'
      simp [Tree.chunks] at ha hb; subst ha; subst hb
      refine ⟨rfl, fun he => ?_⟩
      simp at he
      rw [u64Chunk_inj hz hz' he]
    | _ => simp [Tree.shapeEq] at hs
  | bool x =>
    cases u with
    | bool y =>
      simp [Tree.chunks] at ha hb; subst ha; subst hb
      refine ⟨rfl, fun he => ?_⟩
      simp at he
      have := congrArg Chunk.bytes he
      cases x <;> cases y <;> first | rfl | (simp [boolChunk, mkChunk] at this)
    | _ => simp [Tree.shapeEq] at hs
  | u64s m xs =>
    cases u with
    | u64s m' ys =>
      simp [Tree.shapeEq] at hs; subst hs
      simp [Tree.sized] at hz hz'
      simp only [Tree.chunks] at ha hb
      split at ha
      · simp at ha
      split at hb
      · simp at hb
      rename_i hpa hpb
      simp at ha hb; subst ha; subst hb
      refine ⟨rfl, fun he => ?_⟩
      simp at he
      obtain ⟨e1, e2⟩ := mixin_inj hc hz.1 hz'.1 he
      rw [← e2] at e1
      have hlen : (xs.flatMap le64).length = (ys.flatMap le64).length := by
        rw [flatMap_le64_length, flatMap_le64_length, e2]
      have := merkleize_inj hc _ _ _ (by simp [chunkify_length, hlen]) (Or.inr (by omega)) e1
      rw [flatMap_le64_inj xs ys e2 hz.2 hz'.2 (chunkify_inj hlen this)]
    | _ => simp [Tree.shapeEq] at hs
  | sigs m x =>
    cases u with
    | sigs m' y =>
      simp [Tree.shapeEq] at hs; subst hs
      simp [Tree.sized] at hz
      simp only [Tree.chunks] at ha hb
      split at ha
      · simp at ha
      split at ha
      · simp at ha
      split at hb
      · simp at hb
      split at hb
      · simp at hb
      rename_i hmx hlx hmy hly
      simp at ha hb; subst ha; subst hb
      refine ⟨rfl, fun he => ?_⟩
      simp at he
      obtain ⟨e1, e2⟩ := mixin_inj hc (by omega) (by omega) he
      have hmx' : x.length % 65 = 0 := by omega
      have hmy' : y.length % 65 = 0 := by omega
      obtain ⟨fx, lx, px⟩ := pieces_spec (n := 65) (by omega) x hmx'
      obtain ⟨fy, ly, py⟩ := pieces_spec (n := 65) (by omega) y hmy'
      have l1 := flatMap_putBytes_length (h := h) (n := 65) (by omega) _ px
      have l2 := flatMap_putBytes_length (h := h) (n := 65) (by omega) _ py
      have := merkleize_inj hc _ _ _ (by rw [l1, l2, lx, ly, e2]) (Or.inr (by rw [l1, lx]; omega)) e1
      have hp := flatMap_putBytes_inj hc (n := 65) (by omega) _ _ (by rw [lx, ly, e2]) px py this
      rw [← fx, ← fy, hp]
    | _ => simp [Tree.shapeEq] at hs
  | cont ks =>
    cases u with
    | cont ls =>
      simp [Tree.shapeEq] at hs
      simp [Tree.rawAgree] at hr
      simp [Tree.sized] at hz hz'
      simp only [Tree.chunks] at ha hb
      cases hx : Tree.chunksL h ks with
      | error e => simp [hx] at ha
      | ok cs =>
        cases hy : Tree.chunksL h ls with
        | error e => simp [hy] at hb
        | ok ds =>
          simp [hx] at ha; simp [hy] at hb; subst ha; subst hb
          have ih := treeL_inj hc ks ls hs.1 hs.2 hr hz hz' cs ds hx hy
          refine ⟨rfl, fun he => ?_⟩
          simp at he
          rw [ih.2 (merkleize_inj hc 0 cs ds ih.1 (Or.inl rfl) he)]
    | _ => simp [Tree.shapeEq] at hs
  | mix l n ks =>
    cases u with
    | mix l' n' ls =>
      simp [Tree.shapeEq] at hs
      obtain ⟨hl, hs⟩ := hs
      subst hl
      simp [Tree.rawAgree] at hr
      simp [Tree.sized] at hz hz'
      simp only [Tree.chunks] at ha hb
      cases hx : Tree.chunksL h ks with
      | error e => simp [hx] at ha
      | ok cs =>
        cases hy : Tree.chunksL h ls with
        | error e => simp [hy] at hb
        | ok ds =>
          simp only [hx] at ha; simp only [hy] at hb
          split at ha
          · simp at ha
          split at hb
          · simp at hb
          rename_i hpa hpb
          simp at ha hb; subst ha; subst hb
          refine ⟨rfl, fun he => ?_⟩
          simp at he
          obtain ⟨e1, e2⟩ := mixin_inj hc hz.1.1.2 hz'.1.1.2 he
          subst e2
          have hlen : ks.length = ls.length := by rw [← hz.1.1.1, ← hz'.1.1.1]
          have ih := treeL_inj hc ks ls hlen hs hr hz.2 hz'.2 cs ds hx hy
          have lc := all_single_chunksL_length (h := h) ks cs (by simpa using hz.1.2) hz.2 hx
          have ld := all_single_chunksL_length (h := h) ls ds (by simpa using hz'.1.2) hz'.2 hy
          have hbnd : l.getD n = 0 ∨ cs.length ≤ l.getD n := by
            by_cases h0 : l.getD n = 0
            · exact Or.inl h0
            · right
              simp at hpa
              exact hpa h0
          rw [ih.2 (merkleize_inj hc _ cs ds (by rw [lc, ld, hlen]) hbnd e1)]
    | _ => simp [Tree.shapeEq] at hs
  | seq ks =>
    cases u with
    | seq ls =>
      simp [Tree.shapeEq] at hs
      simp [Tree.rawAgree] at hr
      simp [Tree.sized] at hz hz'
      simp only [Tree.chunks] at ha hb
      have ih := treeL_inj hc ks ls hs.1 hs.2 hr hz hz' a b ha hb
      exact ⟨ih.1, fun he => by rw [ih.2 he]⟩
    | _ => simp [Tree.shapeEq] at hs
termination_by sizeOf t

theorem treeL_inj (hc : NoColl h) (ts us : List Tree) (hl : ts.length = us.length)
    (hs : Tree.shapeEqL ts us = true) (hr : Tree.rawAgreeL ts us = true)
    (hz : Tree.sizedL ts = true) (hz' : Tree.sizedL us = true) (a b : List Chunk)
    (ha : Tree.chunksL h ts = .ok a) (hb : Tree.chunksL h us = .ok b) :
    a.length = b.length ∧ (a = b → ts = us) := by
  match ts, us, hl with
  | [], [], _ =>
    simp [Tree.chunksL] at ha hb; subst ha; subst hb
    exact ⟨rfl, fun _ => rfl⟩
  | t :: ts', u :: us', hl =>
    obtain ⟨x, y, hx, hy, rfl⟩ := chunksL_cons_ok ha
    obtain ⟨x', y', hx', hy', rfl⟩ := chunksL_cons_ok hb
    simp only [Tree.shapeEqL, Bool.and_eq_true] at hs
    simp only [Tree.rawAgreeL, Bool.and_eq_true] at hr
    simp only [Tree.sizedL, Bool.and_eq_true] at hz hz'
    have ih1 := tree_inj hc t u hs.1 hr.1 hz.1 hz'.1 x x' hx hx'
    have ih2 := treeL_inj hc ts' us' (by simpa using hl) hs.2 hr.2 hz.2 hz'.2 y y' hy hy'
    refine ⟨by simp [ih1.1, ih2.1], fun he => ?_⟩
    obtain ⟨e1, e2⟩ := List.append_inj he ih1.1
    rw [ih1.2 e1, ih2.2 e2]
termination_by sizeOf ts
end

end Merkle
/-! ### schemas: two instantiations of one schema have the same shape -/

theorem shapeEqL_nil_left (us : List Tree) : Tree.shapeEqL [] us = true := by
  cases us <;> simp [Tree.shapeEqL]

theorem shapeEqL_nil_right (ts : List Tree) : Tree.shapeEqL ts [] = true := by
  cases ts <;> simp [Tree.shapeEqL]

theorem exceptConcat_cons_ok {α} {r : Except Err (List α)} {rs : List (Except Err (List α))} {c : List α}
    (hx : exceptConcat (r :: rs) = .ok c) : ∃ a b, r = .ok a ∧ exceptConcat rs = .ok b ∧ c = a ++ b := by
  cases r with
  | error e => simp [exceptConcat] at hx
  | ok a =>
    simp only [exceptConcat] at hx
    cases h2 : exceptConcat rs with
    | error e => simp [h2] at hx
    | ok b => simp [h2] at hx; exact ⟨a, b, rfl, rfl, hx.symm⟩

theorem resolveL_single_ok {b : Sch} {env : List Val} {a : List Tree} (hx : Sch.resolveL [b] env = .ok a) :
    b.resolve env = .ok a := by
  rw [Sch.resolveL, Sch.resolveL] at hx
  cases h1 : b.resolve env with
  | error e => simp [h1] at hx
  | ok x => simp [h1] at hx; rw [hx]

/-- loop bodies that resolve to one tree each give pointwise same-shaped element lists. -/
theorem loop_shape (b : Sch)
    (P : ∀ e1 e2 ts us, b.resolve e1 = .ok ts → b.resolve e2 = .ok us →
      ∃ t u, ts = [t] ∧ us = [u] ∧ t.shapeEq u = true)
    (env1 env2 : List Val) : ∀ (vs ws : List Val) (ts us : List Tree),
    exceptConcat (vs.map (fun v => Sch.resolveL [b] (v :: env1))) = .ok ts →
    exceptConcat (ws.map (fun w => Sch.resolveL [b] (w :: env2))) = .ok us →
    Tree.shapeEqL ts us = true
  | [], _, ts, us, h1, _ => by
    simp [exceptConcat] at h1; subst h1; exact shapeEqL_nil_left us
  | _ :: _, [], ts, us, _, h2 => by
    simp [exceptConcat] at h2; subst h2; exact shapeEqL_nil_right ts
  | v :: vs, w :: ws, ts, us, h1, h2 => by
    simp only [List.map_cons] at h1 h2
    obtain ⟨a, c, ha, hc, rfl⟩ := exceptConcat_cons_ok h1
    obtain ⟨a', c', ha', hc', rfl⟩ := exceptConcat_cons_ok h2
    obtain ⟨t, u, rfl, rfl, hs⟩ := P _ _ _ _ (resolveL_single_ok ha) (resolveL_single_ok ha')
    simp only [List.cons_append, List.nil_append, Tree.shapeEqL, hs, Bool.true_and]
    exact loop_shape b P env1 env2 vs ws c c' hc hc'


theorem resolveL_cons_ok {s : Sch} {ss : List Sch} {env : List Val} {c : List Tree}
    (hx : Sch.resolveL (s :: ss) env = .ok c) :
    ∃ a b, s.resolve env = .ok a ∧ Sch.resolveL ss env = .ok b ∧ c = a ++ b := by
  rw [Sch.resolveL] at hx
  cases h1 : s.resolve env with
  | error e => simp [h1] at hx
  | ok a =>
    cases h2 : Sch.resolveL ss env with
    | error e => simp [h1, h2] at hx
    | ok b => simp [h1, h2] at hx; exact ⟨a, b, rfl, rfl, hx.symm⟩

mutual
/-- Two instantiations of the same (legacy-)well-formed schema node are one tree each, of the same shape. -/
theorem resolve_shape (s : Sch) (hw : s.wfLegacy = true) (e1 e2 : List Val) (ts us : List Tree)
    (h1 : s.resolve e1 = .ok ts) (h2 : s.resolve e2 = .ok us) :
    ∃ t u, ts = [t] ∧ us = [u] ∧ t.shapeEq u = true := by
  cases s with
  | raw x =>
    rw [Sch.resolve] at h1 h2
    split at h1 <;> simp at h1
    split at h2 <;> simp at h2
    subst h1; subst h2
    exact ⟨_, _, rfl, rfl, by simp [Tree.shapeEq]⟩
  | rawIfNonEmpty x =>
    rw [Sch.resolve] at h1 h2
    split at h1 <;> simp at h1
    split at h2 <;> simp at h2
    subst h1; subst h2
    exact ⟨_, _, rfl, rfl, by simp [Tree.shapeEq]⟩
  | rawNil =>
    rw [Sch.resolve] at h1 h2
    simp at h1 h2
    subst h1; subst h2
    exact ⟨_, _, rfl, rfl, by simp [Tree.shapeEq]⟩
  | fixed n x =>
    rw [Sch.resolve] at h1 h2
    split at h1 <;> simp at h1
    split at h2 <;> simp at h2
    subst h1; subst h2
    exact ⟨_, _, rfl, rfl, by simp [Tree.shapeEq]⟩
  | blist n x =>
    rw [Sch.resolve] at h1 h2
    split at h1 <;> simp at h1
    split at h2 <;> simp at h2
    subst h1; subst h2
    exact ⟨_, _, rfl, rfl, by simp [Tree.shapeEq]⟩
  | u64 x =>
    rw [Sch.resolve] at h1 h2
    split at h1 <;> simp at h1
    split at h2 <;> simp at h2
    subst h1; subst h2
    exact ⟨_, _, rfl, rfl, by simp [Tree.shapeEq]⟩
  | constU64 n =>
    rw [Sch.resolve] at h1 h2
    simp at h1 h2
    subst h1; subst h2
    exact ⟨_, _, rfl, rfl, by simp [Tree.shapeEq]⟩
  | bool x =>
    rw [Sch.resolve] at h1 h2
    split at h1 <;> simp at h1
    split at h2 <;> simp at h2
    subst h1; subst h2
    exact ⟨_, _, rfl, rfl, by simp [Tree.shapeEq]⟩
  | u64s n x =>
    rw [Sch.resolve] at h1 h2
    split at h1
    · split at h1 <;> simp at h1
      split at h2
      · split at h2 <;> simp at h2
        subst h1; subst h2
        exact ⟨_, _, rfl, rfl, by simp [Tree.shapeEq]⟩
      · simp at h2
    · simp at h1
  | sigs n x =>
    rw [Sch.resolve] at h1 h2
    split at h1 <;> simp at h1
    split at h2 <;> simp at h2
    subst h1; subst h2
    exact ⟨_, _, rfl, rfl, by simp [Tree.shapeEq]⟩
  | cont kids =>
    rw [Sch.resolve] at h1 h2
    simp only [Sch.wfLegacy] at hw
    cases hx : Sch.resolveL kids e1 with
    | error e => simp [hx] at h1
    | ok a =>
      cases hy : Sch.resolveL kids e2 with
      | error e => simp [hy] at h2
      | ok b =>
        simp [hx] at h1; simp [hy] at h2; subst h1; subst h2
        have ih := resolveL_shape kids hw e1 e2 a b hx hy
        exact ⟨_, _, rfl, rfl, by simp [Tree.shapeEq, ih.1, ih.2]⟩
  | seq kids =>
    rw [Sch.resolve] at h1 h2
    simp only [Sch.wfLegacy] at hw
    cases hx : Sch.resolveL kids e1 with
    | error e => simp [hx] at h1
    | ok a =>
      cases hy : Sch.resolveL kids e2 with
      | error e => simp [hy] at h2
      | ok b =>
        simp [hx] at h1; simp [hy] at h2; subst h1; subst h2
        have ih := resolveL_shape kids hw e1 e2 a b hx hy
        exact ⟨_, _, rfl, rfl, by simp [Tree.shapeEq, ih.1, ih.2]⟩
  | loop x body => simp [Sch.wfLegacy] at hw
  | mix lim num kids =>
    cases kids with
    | nil => simp [Sch.wfLegacy] at hw
    | cons k ks =>
      cases ks with
      | cons k2 ks2 => simp [Sch.wfLegacy] at hw
      | nil =>
        cases k with
        | loop s' body =>
          cases body with
          | nil => simp [Sch.wfLegacy] at hw
          | cons b bs =>
            cases bs with
            | cons b2 bs2 => simp [Sch.wfLegacy] at hw
            | nil =>
              simp only [Sch.wfLegacy, Bool.and_eq_true] at hw
              have P : ∀ e1 e2 ts us, b.resolve e1 = .ok ts → b.resolve e2 = .ok us →
                  ∃ t u, ts = [t] ∧ us = [u] ∧ t.shapeEq u = true :=
                fun e1 e2 ts us q1 q2 => resolve_shape b hw.2 e1 e2 ts us q1 q2
              rw [Sch.resolve] at h1 h2
              cases hn1 : num.list e1 with
              | error e => simp [hn1] at h1
              | ok vs =>
                cases hn2 : num.list e2 with
                | error e => simp [hn2] at h2
                | ok ws =>
                  cases hx : Sch.resolveL [.loop s' [b]] e1 with
                  | error e => simp [hn1, hx] at h1
                  | ok a =>
                    cases hy : Sch.resolveL [.loop s' [b]] e2 with
                    | error e => simp [hn2, hy] at h2
                    | ok a' =>
                      simp [hn1, hx] at h1; simp [hn2, hy] at h2; subst h1; subst h2
                      have hx' := resolveL_single_ok hx
                      have hy' := resolveL_single_ok hy
                      rw [Sch.resolve] at hx' hy'
                      cases hl1 : s'.list e1 with
                      | error e => simp [hl1] at hx'
                      | ok vs' =>
                        cases hl2 : s'.list e2 with
                        | error e => simp [hl2] at hy'
                        | ok ws' =>
                          simp only [hl1] at hx'; simp only [hl2] at hy'
                          have := loop_shape b P e1 e2 vs' ws' a a' hx' hy'
                          exact ⟨_, _, rfl, rfl, by simp [Tree.shapeEq, this]⟩
        | _ => simp [Sch.wfLegacy] at hw
termination_by sizeOf s

theorem resolveL_shape (ss : List Sch) (hw : Sch.wfLegacyL ss = true) (e1 e2 : List Val) (ts us : List Tree)
    (h1 : Sch.resolveL ss e1 = .ok ts) (h2 : Sch.resolveL ss e2 = .ok us) :
    ts.length = us.length ∧ Tree.shapeEqL ts us = true := by
  match ss, hw, h1, h2 with
  | [], _, h1, h2 =>
    rw [Sch.resolveL] at h1 h2
    simp at h1 h2; subst h1; subst h2
    exact ⟨rfl, by simp [Tree.shapeEqL]⟩
  | s :: ss', hw, h1, h2 =>
    simp only [Sch.wfLegacyL, Bool.and_eq_true] at hw
    obtain ⟨a, b, ha, hb, rfl⟩ := resolveL_cons_ok h1
    obtain ⟨a', b', ha', hb', rfl⟩ := resolveL_cons_ok h2
    obtain ⟨t, u, rfl, rfl, hs⟩ := resolve_shape s hw.1 e1 e2 a a' ha ha'
    have ih := resolveL_shape ss' hw.2 e1 e2 b b' hb hb'
    exact ⟨by simp [ih.1], by simp [Tree.shapeEqL, hs, ih.2]⟩
termination_by sizeOf ss
end

/-! ### well-formed schemas: structural side conditions hold by construction -/

mutual
theorem sized_of_parts (t : Tree) (hd : t.sizedData = true) (hs : t.sizedStruct = true) : t.sized = true := by
  cases t with
  | raw b => simp [Tree.sized]
  | fixed n b => simpa [Tree.sized, Tree.sizedData] using hd
  | blist m b => simpa [Tree.sized, Tree.sizedData] using hd
  | u64 n => simpa [Tree.sized, Tree.sizedData] using hd
  | bool b => simp [Tree.sized]
  | u64s m xs => simpa [Tree.sized, Tree.sizedData] using hd
  | sigs m b => simpa [Tree.sized, Tree.sizedData] using hd
  | cont ks =>
    simp only [Tree.sized, Tree.sizedData, Tree.sizedStruct] at *
    exact sizedL_of_parts ks hd hs
  | seq ks =>
    simp only [Tree.sized, Tree.sizedData, Tree.sizedStruct] at *
    exact sizedL_of_parts ks hd hs
  | mix l n ks =>
    simp only [Tree.sized, Tree.sizedData, Tree.sizedStruct, Bool.and_eq_true] at *
    exact ⟨⟨⟨hs.1.1, hd.1⟩, hs.1.2⟩, sizedL_of_parts ks hd.2 hs.2⟩
termination_by sizeOf t
theorem sizedL_of_parts (ts : List Tree) (hd : Tree.sizedDataL ts = true) (hs : Tree.sizedStructL ts = true) :
    Tree.sizedL ts = true := by
  match ts, hd, hs with
  | [], _, _ => simp [Tree.sizedL]
  | t :: ts', hd, hs =>
    simp only [Tree.sizedL, Tree.sizedDataL, Tree.sizedStructL, Bool.and_eq_true] at *
    exact ⟨sized_of_parts t hd.1 hs.1, sizedL_of_parts ts' hd.2 hs.2⟩
termination_by sizeOf ts
end

mutual
theorem rawAgree_of_noRaw (t u : Tree) (hn : t.noRaw = true) : t.rawAgree u = true := by
  cases t with
  | raw b => simp [Tree.noRaw] at hn
  | cont ks =>
    cases u with
    | cont ls => simp only [Tree.rawAgree]; exact rawAgreeL_of_noRaw ks ls (by simpa [Tree.noRaw] using hn)
    | _ => simp [Tree.rawAgree]
  | seq ks =>
    cases u with
    | seq ls => simp only [Tree.rawAgree]; exact rawAgreeL_of_noRaw ks ls (by simpa [Tree.noRaw] using hn)
    | _ => simp [Tree.rawAgree]
  | mix l n ks =>
    cases u with
    | mix l' n' ls => simp only [Tree.rawAgree]; exact rawAgreeL_of_noRaw ks ls (by simpa [Tree.noRaw] using hn)
    | _ => simp [Tree.rawAgree]
  | fixed n b => cases u <;> simp [Tree.rawAgree]
  | blist n b => cases u <;> simp [Tree.rawAgree]
  | u64 n => cases u <;> simp [Tree.rawAgree]
  | bool b => cases u <;> simp [Tree.rawAgree]
  | u64s n b => cases u <;> simp [Tree.rawAgree]
  | sigs n b => cases u <;> simp [Tree.rawAgree]
termination_by sizeOf t
theorem rawAgreeL_of_noRaw (ts us : List Tree) (hn : Tree.noRawL ts = true) : Tree.rawAgreeL ts us = true := by
  match ts, us, hn with
  | [], _, _ => cases us <;> simp [Tree.rawAgreeL]
  | _ :: _, [], _ => simp [Tree.rawAgreeL]
  | t :: ts', u :: us', hn =>
    simp only [Tree.noRawL, Bool.and_eq_true] at hn
    simp only [Tree.rawAgreeL, Bool.and_eq_true]
    exact ⟨rawAgree_of_noRaw t u hn.1, rawAgreeL_of_noRaw ts' us' hn.2⟩
termination_by sizeOf ts
end

mutual
theorem wfLegacy_of_wf (s : Sch) (hw : s.wf = true) : s.wfLegacy = true := by
  cases s with
  | raw x => simp [Sch.wf] at hw
  | rawIfNonEmpty x => simp [Sch.wf] at hw
  | rawNil => simp [Sch.wf] at hw
  | loop x b => simp [Sch.wf] at hw
  | cont ks => simp only [Sch.wf, Sch.wfLegacy] at *; exact wfLegacyL_of_wfL ks hw
  | seq ks => simp only [Sch.wf, Sch.wfLegacy] at *; exact wfLegacyL_of_wfL ks hw
  | mix lim num kids =>
    cases lim with
    | num => cases kids <;> simp [Sch.wf] at hw
    | const c =>
    cases kids with
    | nil => simp [Sch.wf] at hw
    | cons k ks =>
      cases ks with
      | cons k2 ks2 => simp [Sch.wf] at hw
      | nil =>
        cases k with
        | loop s' body =>
          cases body with
          | nil => simp [Sch.wf] at hw
          | cons b bs =>
            cases bs with
            | cons b2 bs2 => simp [Sch.wf] at hw
            | nil =>
              simp only [Sch.wf, Sch.wfLegacy, Bool.and_eq_true] at *
              exact ⟨⟨hw.2.1.1.1, hw.2.1.1.2⟩, wfLegacy_of_wf b hw.2.2⟩
        | _ => simp [Sch.wf] at hw
  | _ => simp [Sch.wfLegacy]
termination_by sizeOf s
theorem wfLegacyL_of_wfL (ss : List Sch) (hw : Sch.wfL ss = true) : Sch.wfLegacyL ss = true := by
  match ss, hw with
  | [], _ => simp [Sch.wfLegacyL]
  | s :: ss', hw =>
    simp only [Sch.wfL, Sch.wfLegacyL, Bool.and_eq_true] at *
    exact ⟨wfLegacy_of_wf s hw.1, wfLegacyL_of_wfL ss' hw.2⟩
termination_by sizeOf ss
end


theorem sizedStructL_append : ∀ {a b : List Tree}, Tree.sizedStructL a = true → Tree.sizedStructL b = true →
    Tree.sizedStructL (a ++ b) = true
  | [], _, _, hb => by simpa using hb
  | t :: a, b, ha, hb => by
    simp only [Tree.sizedStructL, Bool.and_eq_true, List.cons_append] at *
    exact ⟨ha.1, sizedStructL_append ha.2 hb⟩

theorem noRawL_append : ∀ {a b : List Tree}, Tree.noRawL a = true → Tree.noRawL b = true →
    Tree.noRawL (a ++ b) = true
  | [], _, _, hb => by simpa using hb
  | t :: a, b, ha, hb => by
    simp only [Tree.noRawL, Bool.and_eq_true, List.cons_append] at *
    exact ⟨ha.1, noRawL_append ha.2 hb⟩

theorem Src.list_congr (a b : Src) (hv : a.var = b.var) (hp : a.path = b.path) (env : List Val) :
    a.list env = b.list env := by
  unfold Src.list Src.get
  rw [hv, hp]

theorem resolve_single (s : Sch) (hs : s.single = true) (env : List Val) (ts : List Tree)
    (h1 : s.resolve env = .ok ts) : ∃ t, ts = [t] ∧ t.single = true := by
  cases s with
  | raw x => simp [Sch.single] at hs
  | rawIfNonEmpty x => simp [Sch.single] at hs
  | rawNil => simp [Sch.single] at hs
  | loop x b => simp [Sch.single] at hs
  | seq ks => simp [Sch.single] at hs
  | fixed n x =>
    rw [Sch.resolve] at h1
    split at h1 <;> simp at h1
    subst h1
    exact ⟨_, rfl, by simpa [Tree.single, Sch.single] using hs⟩
  | blist n x =>
    rw [Sch.resolve] at h1
    split at h1 <;> simp at h1
    subst h1; exact ⟨_, rfl, rfl⟩
  | u64 x =>
    rw [Sch.resolve] at h1
    split at h1 <;> simp at h1
    subst h1; exact ⟨_, rfl, rfl⟩
  | constU64 n =>
    rw [Sch.resolve] at h1
    simp at h1
    subst h1; exact ⟨_, rfl, rfl⟩
  | bool x =>
    rw [Sch.resolve] at h1
    split at h1 <;> simp at h1
    subst h1; exact ⟨_, rfl, rfl⟩
  | u64s n x =>
    rw [Sch.resolve] at h1
    split at h1
    · split at h1 <;> simp at h1
      subst h1; exact ⟨_, rfl, rfl⟩
    · simp at h1
  | sigs n x =>
    rw [Sch.resolve] at h1
    split at h1 <;> simp at h1
    subst h1; exact ⟨_, rfl, rfl⟩
  | cont ks =>
    rw [Sch.resolve] at h1
    split at h1 <;> simp at h1
    subst h1; exact ⟨_, rfl, rfl⟩
  | mix lim num ks =>
    rw [Sch.resolve] at h1
    split at h1 <;> simp at h1
    subst h1; exact ⟨_, rfl, rfl⟩

theorem loop_struct (b : Sch) (hsingle : b.single = true)
    (P : ∀ e ts, b.resolve e = .ok ts → Tree.sizedStructL ts = true ∧ Tree.noRawL ts = true)
    (env : List Val) : ∀ (vs : List Val) (ts : List Tree),
    exceptConcat (vs.map (fun v => Sch.resolveL [b] (v :: env))) = .ok ts →
    ts.length = vs.length ∧ ts.all Tree.single = true ∧ Tree.sizedStructL ts = true ∧ Tree.noRawL ts = true
  | [], ts, h1 => by
    simp [exceptConcat] at h1; subst h1
    simp [Tree.sizedStructL, Tree.noRawL]
  | v :: vs, ts, h1 => by
    simp only [List.map_cons] at h1
    obtain ⟨a, c, ha, hc, rfl⟩ := exceptConcat_cons_ok h1
    have hr := resolveL_single_ok ha
    obtain ⟨t, rfl, hst⟩ := resolve_single b hsingle _ _ hr
    have p := P _ _ hr
    have ih := loop_struct b hsingle P env vs c hc
    simp only [Tree.sizedStructL, Tree.noRawL, Bool.and_true] at p
    simp only [List.cons_append, List.nil_append, List.length_cons, List.all_cons, Tree.sizedStructL, Tree.noRawL,
      Bool.and_eq_true]
    exact ⟨by rw [ih.1], ⟨hst, ih.2.1⟩, ⟨p.1, ih.2.2.1⟩, ⟨p.2, ih.2.2.2⟩⟩

mutual
/-- trees read through a well-formed schema satisfy the structural half of `sized` and have no raw leaf. -/
theorem resolve_struct (s : Sch) (hw : s.wf = true) (env : List Val) (ts : List Tree)
    (h1 : s.resolve env = .ok ts) : Tree.sizedStructL ts = true ∧ Tree.noRawL ts = true := by
  cases s with
  | raw x => simp [Sch.wf] at hw
  | rawIfNonEmpty x => simp [Sch.wf] at hw
  | rawNil => simp [Sch.wf] at hw
  | loop x b => simp [Sch.wf] at hw
  | fixed n x =>
    rw [Sch.resolve] at h1
    split at h1 <;> simp at h1
    subst h1; simp [Tree.sizedStructL, Tree.noRawL, Tree.sizedStruct, Tree.noRaw]
  | blist n x =>
    rw [Sch.resolve] at h1
    split at h1 <;> simp at h1
    subst h1; simp [Tree.sizedStructL, Tree.noRawL, Tree.sizedStruct, Tree.noRaw]
  | u64 x =>
    rw [Sch.resolve] at h1
    split at h1 <;> simp at h1
    subst h1; simp [Tree.sizedStructL, Tree.noRawL, Tree.sizedStruct, Tree.noRaw]
  | constU64 n =>
    rw [Sch.resolve] at h1
    simp at h1
    subst h1; simp [Tree.sizedStructL, Tree.noRawL, Tree.sizedStruct, Tree.noRaw]
  | bool x =>
    rw [Sch.resolve] at h1
    split at h1 <;> simp at h1
    subst h1; simp [Tree.sizedStructL, Tree.noRawL, Tree.sizedStruct, Tree.noRaw]
  | u64s n x =>
    rw [Sch.resolve] at h1
    split at h1
    · split at h1 <;> simp at h1
      subst h1; simp [Tree.sizedStructL, Tree.noRawL, Tree.sizedStruct, Tree.noRaw]
    · simp at h1
  | sigs n x =>
    rw [Sch.resolve] at h1
    split at h1 <;> simp at h1
    subst h1; simp [Tree.sizedStructL, Tree.noRawL, Tree.sizedStruct, Tree.noRaw]
  | cont ks =>
    rw [Sch.resolve] at h1
    simp only [Sch.wf] at hw
    cases hx : Sch.resolveL ks env with
    | error e => simp [hx] at h1
    | ok a =>
      simp [hx] at h1; subst h1
      have ih := resolveL_struct ks hw env a hx
      simp [Tree.sizedStructL, Tree.noRawL, Tree.sizedStruct, Tree.noRaw, ih.1, ih.2]
  | seq ks =>
    rw [Sch.resolve] at h1
    simp only [Sch.wf] at hw
    cases hx : Sch.resolveL ks env with
    | error e => simp [hx] at h1
    | ok a =>
      simp [hx] at h1; subst h1
      have ih := resolveL_struct ks hw env a hx
      simp [Tree.sizedStructL, Tree.noRawL, Tree.sizedStruct, Tree.noRaw, ih.1, ih.2]
  | mix lim num kids =>
    cases lim with
    | num => cases kids <;> simp [Sch.wf] at hw
    | const c =>
    cases kids with
    | nil => simp [Sch.wf] at hw
    | cons k ks =>
      cases ks with
      | cons k2 ks2 => simp [Sch.wf] at hw
      | nil =>
        cases k with
        | loop s' body =>
          cases body with
          | nil => simp [Sch.wf] at hw
          | cons b bs =>
            cases bs with
            | cons b2 bs2 => simp [Sch.wf] at hw
            | nil =>
              simp only [Sch.wf, Bool.and_eq_true, Bool.true_and, beq_iff_eq] at hw
              have P : ∀ e ts, b.resolve e = .ok ts → Tree.sizedStructL ts = true ∧ Tree.noRawL ts = true :=
                fun e ts q => resolve_struct b hw.2 e ts q
              rw [Sch.resolve] at h1
              cases hn1 : num.list env with
              | error e => simp [hn1] at h1
              | ok vs =>
                cases hx : Sch.resolveL [.loop s' [b]] env with
                | error e => simp [hn1, hx] at h1
                | ok a =>
                  simp [hn1, hx] at h1; subst h1
                  have hx' := resolveL_single_ok hx
                  rw [Sch.resolve, Src.list_congr s' num hw.1.1.1 hw.1.1.2 env, hn1] at hx'
                  simp only at hx'
                  have ls := loop_struct b hw.1.2 P env vs a hx'
                  simp [Tree.sizedStructL, Tree.noRawL, Tree.sizedStruct, Tree.noRaw, ls.1, ls.2.1, ls.2.2.1, ls.2.2.2]
        | _ => simp [Sch.wf] at hw
termination_by sizeOf s
theorem resolveL_struct (ss : List Sch) (hw : Sch.wfL ss = true) (env : List Val) (ts : List Tree)
    (h1 : Sch.resolveL ss env = .ok ts) : Tree.sizedStructL ts = true ∧ Tree.noRawL ts = true := by
  match ss, hw, h1 with
  | [], _, h1 =>
    rw [Sch.resolveL] at h1
    simp at h1; subst h1
    simp [Tree.sizedStructL, Tree.noRawL]
  | s :: ss', hw, h1 =>
    simp only [Sch.wfL, Bool.and_eq_true] at hw
    obtain ⟨a, b, ha, hb, rfl⟩ := resolveL_cons_ok h1
    have i1 := resolve_struct s hw.1 env a ha
    have i2 := resolveL_struct ss' hw.2 env b hb
    exact ⟨sizedStructL_append i1.1 i2.1, noRawL_append i1.2 i2.2⟩
termination_by sizeOf ss
end

end CharonV.Ssz
