/-
C12 — helper lemmas for `Props/C12.lean`: injectivity of the hasher operations of
`Model/SszSchema.lean` under collision freedom of the 2-to-1 compression function on 32-byte chunks.

* byte level: `mkChunk_inj`, `chunkify_inj` (at equal byte length), `le64_inj`, `flatMap_le64_inj`
* merkle level: `layer_inj`, `merkLoop_inj`, `merkleize_inj` (at equal chunk count within the limit),
  `mixin_inj`, `putBytes_inj`, `pieces_spec`
* tree level: `tree_inj` / `treeL_inj` — two chunk trees of the same shape, whose raw `PutBytes`
  leaves agree in length and whose data satisfies `Tree.sized`, leave different chunks in the hasher
  buffer unless they are equal.
-/
import CharonV.Model.SszSchema
open CharonV.Ssz
namespace CharonV.Ssz

/-! collision notions -/
def Collision (h : Chunk → Chunk → Chunk) : Prop := ∃ a b c d : Chunk, (a, b) ≠ (c, d) ∧ h a b = h c d
def NoColl (h : Chunk → Chunk → Chunk) : Prop := ∀ a b c d : Chunk, h a b = h c d → a = c ∧ b = d

theorem noColl_of_not_collision {h} (hn : ¬ Collision h) : NoColl h := by
  intro a b c d he
  by_cases hab : (a, b) = (c, d)
  · exact ⟨congrArg Prod.fst hab, congrArg Prod.snd hab⟩
  · exact absurd ⟨a, b, c, d, hab, he⟩ hn

theorem Chunk.ext' {a b : Chunk} (h : a.bytes = b.bytes) : a = b := by
  cases a; cases b; simp at h; subst h; rfl

theorem mkChunk_bytes (b : Bytes) : (mkChunk b).bytes = (b ++ List.replicate 32 0).take 32 := rfl

theorem take_mkChunk (b : Bytes) (hb : b.length ≤ 32) : (mkChunk b).bytes.take b.length = b := by
  rw [mkChunk_bytes, List.take_take, Nat.min_eq_left hb, List.take_append_of_le_length (Nat.le_refl _), List.take_length]

theorem mkChunk_inj {a b : Bytes} (ha : a.length ≤ 32) (hl : a.length = b.length)
    (he : mkChunk a = mkChunk b) : a = b := by
  have h1 := take_mkChunk a ha
  have h2 := take_mkChunk b (hl ▸ ha)
  rw [he, hl] at h1
  rw [← h1, h2]

theorem chunkifyAux_nil (n : Nat) : chunkifyAux n [] = [] := by
  cases n <;> simp [chunkifyAux]

theorem chunkifyAux_length (n : Nat) : ∀ b : Bytes, b.length ≤ 32 * n → (chunkifyAux n b).length = (b.length + 31) / 32 := by
  induction n with
  | zero => intro b hb; have : b.length = 0 := by omega
            simp [chunkifyAux, this]
  | succ n ih =>
    intro b hb
    unfold chunkifyAux
    by_cases he : b.isEmpty
    · simp [he]; have : b = [] := by simpa using he
      simp [this]
    · simp only [he]
      have hne : b.length ≠ 0 := by
        intro h0; apply he; simp [List.length_eq_zero_iff.mp h0]
      simp only [Bool.false_eq_true, if_false, List.length_cons]
      rw [ih (b.drop 32) (by simp [List.length_drop]; omega)]
      simp [List.length_drop]; omega

theorem chunkify_length (b : Bytes) : (chunkify b).length = (b.length + 31) / 32 :=
  chunkifyAux_length _ b (by omega)

theorem chunkifyAux_inj (n : Nat) : ∀ a b : Bytes, a.length = b.length → a.length ≤ 32 * n →
    chunkifyAux n a = chunkifyAux n b → a = b := by
  induction n with
  | zero => intro a b hl hb _
            have h1 : a.length = 0 := by omega
            have h2 : b.length = 0 := by omega
            rw [List.length_eq_zero_iff.mp h1, List.length_eq_zero_iff.mp h2]
  | succ n ih =>
    intro a b hl hb he
    unfold chunkifyAux at he
    by_cases hea : a.isEmpty
    · have : a = [] := by simpa using hea
      subst this
      have : b.length = 0 := by simpa using hl.symm
      rw [List.length_eq_zero_iff.mp this]
    · have heb : ¬ b.isEmpty := by
        intro hb'
        have : b = [] := by simpa using hb'
        subst this
        have : a.length = 0 := by simpa using hl
        apply hea; simp [List.length_eq_zero_iff.mp this]
      simp only [hea, heb, Bool.false_eq_true, if_false, List.cons.injEq] at he
      have ht : a.take 32 = b.take 32 :=
        mkChunk_inj (by simp [List.length_take]; omega) (by simp [List.length_take, hl]) he.1
      have hd : a.drop 32 = b.drop 32 :=
        ih _ _ (by simp [List.length_drop, hl]) (by simp [List.length_drop]; omega) he.2
      rw [← List.take_append_drop 32 a, ← List.take_append_drop 32 b, ht, hd]

theorem chunkify_inj {a b : Bytes} (hl : a.length = b.length) (he : chunkify a = chunkify b) : a = b := by
  unfold chunkify at he
  rw [← hl] at he
  exact chunkifyAux_inj _ a b hl (by omega) he

theorem le64_length (n : Nat) : (le64 n).length = 8 := rfl

theorem ofNat_mod_inj {x y : Nat} (h : UInt8.ofNat (x % 256) = UInt8.ofNat (y % 256)) : x % 256 = y % 256 := by
  have := congrArg UInt8.toNat h
  simpa [UInt8.toNat_ofNat'] using this

theorem le64_inj {n m : Nat} (hn : n < 18446744073709551616) (hm : m < 18446744073709551616)
    (he : le64 n = le64 m) : n = m := by
  unfold le64 at he
  simp only [List.cons.injEq, and_true] at he
  obtain ⟨h0, h1, h2, h3, h4, h5, h6, h7⟩ := he
  have e0 := ofNat_mod_inj h0
  have e1 := ofNat_mod_inj h1
  have e2 := ofNat_mod_inj h2
  have e3 := ofNat_mod_inj h3
  have e4 := ofNat_mod_inj h4
  have e5 := ofNat_mod_inj h5
  have e6 := ofNat_mod_inj h6
  have e7 := ofNat_mod_inj h7
  omega


theorem u64Chunk_inj {n m : Nat} (hn : n < 18446744073709551616) (hm : m < 18446744073709551616)
    (he : u64Chunk n = u64Chunk m) : n = m :=
  le64_inj hn hm (mkChunk_inj (by simp [le64_length]) (by simp [le64_length]) he)

theorem flatMap_le64_length (xs : List Nat) : (xs.flatMap le64).length = 8 * xs.length := by
  induction xs with
  | nil => rfl
  | cons x xs ih => simp [List.flatMap_cons, le64_length, ih]; omega

theorem flatMap_le64_inj : ∀ xs ys : List Nat, xs.length = ys.length →
    (∀ x ∈ xs, x < 18446744073709551616) → (∀ y ∈ ys, y < 18446744073709551616) →
    xs.flatMap le64 = ys.flatMap le64 → xs = ys
  | [], [], _, _, _, _ => rfl
  | [], _ :: _, hl, _, _, _ => by simp at hl
  | _ :: _, [], hl, _, _, _ => by simp at hl
  | x :: xs, y :: ys, hl, hx, hy, he => by
    simp only [List.flatMap_cons] at he
    obtain ⟨h1, h2⟩ := List.append_inj he (by simp [le64_length])
    have := le64_inj (hx x (by simp)) (hy y (by simp)) h1
    subst this
    rw [flatMap_le64_inj xs ys (by simpa using hl) (fun a ha => hx a (by simp [ha]))
      (fun a ha => hy a (by simp [ha])) h2]

section Merkle
variable {h : Chunk → Chunk → Chunk}

theorem layer_length (z : Chunk) : ∀ xs : List Chunk, (layer h z xs).length = (xs.length + 1) / 2
  | [] => by simp [layer]
  | [_] => by simp [layer]
  | _ :: _ :: r => by simp [layer, layer_length z r]; omega

theorem layer_inj (hc : NoColl h) (z : Chunk) : ∀ xs ys : List Chunk, xs.length = ys.length →
    layer h z xs = layer h z ys → xs = ys
  | [], [], _, _ => rfl
  | [], _ :: _, hl, _ => by simp at hl
  | _ :: _, [], hl, _ => by simp at hl
  | [a], [b], _, he => by
    simp [layer] at he
    rw [(hc _ _ _ _ he).1]
  | [_], _ :: _ :: _, hl, _ => by simp at hl
  | _ :: _ :: _, [_], hl, _ => by simp at hl
  | a :: b :: r, c :: d :: s, hl, he => by
    simp [layer] at he
    obtain ⟨h1, h2⟩ := he
    obtain ⟨e1, e2⟩ := hc _ _ _ _ h1
    rw [e1, e2, layer_inj hc z r s (by simpa using hl) h2]

theorem merkLoop_inj (hc : NoColl h) : ∀ (d i : Nat) (xs ys : List Chunk), xs.length = ys.length →
    merkLoop h i d xs = merkLoop h i d ys → xs = ys
  | 0, _, _, _, _, he => he
  | d+1, i, xs, ys, hl, he => by
    simp only [merkLoop] at he
    have := merkLoop_inj hc d (i+1) _ _ (by simp [layer_length, hl]) he
    exact layer_inj hc _ xs ys hl this

theorem merkLoop_length_one : ∀ (d i : Nat) (xs : List Chunk), 1 ≤ xs.length → xs.length ≤ 2 ^ d →
    (merkLoop h i d xs).length = 1
  | 0, _, xs, h1, h2 => by simp [merkLoop] at *; omega
  | d+1, i, xs, h1, h2 => by
    simp only [merkLoop]
    apply merkLoop_length_one d (i+1)
    · simp [layer_length]; omega
    · simp [layer_length]; rw [Nat.pow_succ] at h2; omega

theorem le_pow_depthOf (lim : Nat) (hl : 2 ≤ lim) : lim ≤ 2 ^ depthOf lim := by
  unfold depthOf
  have : ¬ lim ≤ 1 := by omega
  simp only [this, if_false]
  have := @Nat.lt_log2_self (lim - 1)
  omega

theorem merk_core_inj (hc : NoColl h) (lim : Nat) : ∀ (xs ys : List Chunk), xs.length = ys.length →
    xs.length ≤ lim →
    (if lim = 0 then zeroChunk
      else if lim = 1 then (match xs with | [c] => c | _ => zeroChunk)
      else match xs with
        | [] => zeroHash h (depthOf lim)
        | _ => (merkLoop h 0 (depthOf lim) xs).headD zeroChunk) =
    (if lim = 0 then zeroChunk
      else if lim = 1 then (match ys with | [c] => c | _ => zeroChunk)
      else match ys with
        | [] => zeroHash h (depthOf lim)
        | _ => (merkLoop h 0 (depthOf lim) ys).headD zeroChunk) → xs = ys
  | [], [], _, _, _ => rfl
  | [], _ :: _, hl, _, _ => by simp at hl
  | _ :: _, [], hl, _, _ => by simp at hl
  | a :: r, b :: s, hl, hb, he => by
    have h0 : lim ≠ 0 := by simp at hb; omega
    by_cases h1 : lim = 1
    · subst h1
      have hr : r = [] := by simp at hb; exact hb
      have hs : s = [] := by
        subst hr
        simp only [List.length_cons, List.length_nil] at hl
        exact List.length_eq_zero_iff.mp (by omega)
      subst hr; subst hs
      simp at he
      rw [he]
    · simp only [h0, h1, if_false] at he
      have hle : (a :: r).length ≤ 2 ^ depthOf lim :=
        Nat.le_trans hb (le_pow_depthOf lim (by omega))
      have l1 := merkLoop_length_one (h := h) (depthOf lim) 0 (a :: r) (by simp) hle
      have l2 := merkLoop_length_one (h := h) (depthOf lim) 0 (b :: s) (by simp) (hl ▸ hle)
      have : merkLoop h 0 (depthOf lim) (a :: r) = merkLoop h 0 (depthOf lim) (b :: s) := by
        generalize merkLoop h 0 (depthOf lim) (a :: r) = u at *
        generalize merkLoop h 0 (depthOf lim) (b :: s) = v at *
        match u, v, l1, l2 with
        | [p], [q], _, _ => simp at he; rw [he]
      exact merkLoop_inj hc _ 0 _ _ hl this

theorem merkleize_inj (hc : NoColl h) (limit : Nat) (xs ys : List Chunk) (hl : xs.length = ys.length)
    (hb : limit = 0 ∨ xs.length ≤ limit) (he : merkleize h limit xs = merkleize h limit ys) : xs = ys := by
  unfold merkleize at he
  rw [← hl] at he
  refine merk_core_inj hc (if limit = 0 then xs.length else limit) xs ys hl ?_ he
  by_cases hz : limit = 0
  · simp [hz]
  · rcases hb with hb | hb
    · exact absurd hb hz
    · simp [hz]; exact hb

theorem mixin_inj (hc : NoColl h) {r r' : Chunk} {n m : Nat} (hn : n < 18446744073709551616)
    (hm : m < 18446744073709551616) (he : mixin h r n = mixin h r' m) : r = r' ∧ n = m := by
  obtain ⟨e1, e2⟩ := hc _ _ _ _ he
  exact ⟨e1, u64Chunk_inj hn hm e2⟩

theorem putBytes_length_eq {a b : Bytes} (hl : a.length = b.length) :
    (putBytes h a).length = (putBytes h b).length := by
  unfold putBytes
  by_cases h32 : a.length ≤ 32
  · have h32' : b.length ≤ 32 := hl ▸ h32
    simp [h32', chunkify_length, hl]
  · have h32' : ¬ b.length ≤ 32 := hl ▸ h32
    simp [h32, h32']

theorem putBytes_inj (hc : NoColl h) {a b : Bytes} (hl : a.length = b.length)
    (he : putBytes h a = putBytes h b) : a = b := by
  unfold putBytes at he
  rw [← hl] at he
  by_cases h32 : a.length ≤ 32
  · simp only [h32, if_true] at he
    exact chunkify_inj hl he
  · simp only [h32, if_false, List.cons.injEq, and_true] at he
    exact chunkify_inj hl (merkleize_inj hc 0 _ _ (by simp [chunkify_length, hl]) (Or.inl rfl) he)

theorem putBytes_length_one {a : Bytes} (h1 : 1 ≤ a.length) : (putBytes h a).length = 1 := by
  unfold putBytes
  by_cases h32 : a.length ≤ 32
  · simp [h32, chunkify_length]; omega
  · simp [h32]


theorem piecesAux_spec {n : Nat} (hn : 0 < n) : ∀ (m k : Nat) (b : Bytes), b.length = n * m → m ≤ k →
    (piecesAux n k b).flatten = b ∧ (piecesAux n k b).length = m ∧ ∀ p ∈ piecesAux n k b, p.length = n
  | 0, k, b, hb, _ => by
    have : b = [] := List.length_eq_zero_iff.mp (by simpa using hb)
    subst this
    cases k <;> simp [piecesAux, hn]
  | m+1, 0, _, _, hk => by omega
  | m+1, k+1, b, hb, hk => by
    have hge : ¬ b.length < n := by rw [hb, Nat.mul_succ]; omega
    have ih := piecesAux_spec hn m k (b.drop n) (by simp [List.length_drop, hb, Nat.mul_succ]) (by omega)
    simp only [piecesAux, hge, if_false]
    refine ⟨?_, ?_, ?_⟩
    · simp [ih.1]
    · simp [ih.2.1]
    · intro p hp
      simp at hp
      rcases hp with hp | hp
      · subst hp; simp [List.length_take]; omega
      · exact ih.2.2 p hp

theorem pieces_spec {n : Nat} (hn : 0 < n) (b : Bytes) (hd : b.length % n = 0) :
    (pieces n b).flatten = b ∧ (pieces n b).length = b.length / n ∧ ∀ p ∈ pieces n b, p.length = n := by
  have hb : b.length = n * (b.length / n) := by
    have := Nat.div_add_mod b.length n; omega
  have hk : b.length / n ≤ b.length := Nat.div_le_self _ _
  exact piecesAux_spec hn (b.length / n) b.length b hb hk

theorem flatMap_putBytes_length {n : Nat} (hn : 1 ≤ n) : ∀ ps : List Bytes, (∀ p ∈ ps, p.length = n) →
    (ps.flatMap (putBytes h)).length = ps.length
  | [], _ => rfl
  | p :: ps, hp => by
    simp only [List.flatMap_cons, List.length_append, List.length_cons]
    rw [putBytes_length_one (by rw [hp p (by simp)]; exact hn),
      flatMap_putBytes_length hn ps (fun q hq => hp q (by simp [hq]))]
    omega

theorem flatMap_putBytes_inj (hc : NoColl h) {n : Nat} (hn : 1 ≤ n) : ∀ ps qs : List Bytes, ps.length = qs.length →
    (∀ p ∈ ps, p.length = n) → (∀ q ∈ qs, q.length = n) →
    ps.flatMap (putBytes h) = qs.flatMap (putBytes h) → ps = qs
  | [], [], _, _, _, _ => rfl
  | [], _ :: _, hl, _, _, _ => by simp at hl
  | _ :: _, [], hl, _, _, _ => by simp at hl
  | p :: ps, q :: qs, hl, hp, hq, he => by
    simp only [List.flatMap_cons] at he
    have lp : p.length = n := hp p (by simp)
    have lq : q.length = n := hq q (by simp)
    obtain ⟨h1, h2⟩ := List.append_inj he
      (by rw [putBytes_length_one (by omega), putBytes_length_one (by omega)])
    have := putBytes_inj hc (by omega) h1
    subst this
    rw [flatMap_putBytes_inj hc hn ps qs (by simpa using hl) (fun a ha => hp a (by simp [ha]))
      (fun a ha => hq a (by simp [ha])) h2]


/-! ### trees -/

theorem chunksL_cons_ok {t : Tree} {ts : List Tree} {c : List Chunk} (hx : Tree.chunksL h (t :: ts) = .ok c) :
    ∃ a b, Tree.chunks h t = .ok a ∧ Tree.chunksL h ts = .ok b ∧ c = a ++ b := by
  simp only [Tree.chunksL] at hx
  cases h1 : Tree.chunks h t with
  | error e => simp [h1] at hx
  | ok a =>
    cases h2 : Tree.chunksL h ts with
    | error e => simp [h1, h2] at hx
    | ok b =>
      simp [h1, h2] at hx
      exact ⟨a, b, rfl, rfl, hx.symm⟩

theorem single_chunks_length : ∀ (t : Tree) (a : List Chunk), t.single = true → t.sized = true →
    Tree.chunks h t = .ok a → a.length = 1 := by
  intro t a hs hz ha
  cases t with
  | raw b => simp [Tree.single] at hs
  | seq ks => simp [Tree.single] at hs
  | fixed n b =>
    simp [Tree.single] at hs
    simp [Tree.sized] at hz
    simp only [Tree.chunks] at ha
    split at ha
    · simp at ha
    · simp at ha
      subst ha
      apply putBytes_length_one
      simp [leftPad, hz]; omega
  | blist m b => simp only [Tree.chunks] at ha; split at ha <;> simp at ha; subst ha; rfl
  | u64 n => simp [Tree.chunks] at ha; subst ha; rfl
  | bool b => simp [Tree.chunks] at ha; subst ha; rfl
  | u64s m xs => simp only [Tree.chunks] at ha; split at ha <;> simp at ha; subst ha; rfl
  | sigs m b =>
    simp only [Tree.chunks] at ha
    split at ha
    · simp at ha
    · split at ha <;> simp at ha
      subst ha; rfl
  | cont ks =>
    simp only [Tree.chunks] at ha
    split at ha <;> simp at ha
    subst ha; rfl
  | mix l n ks =>
    simp only [Tree.chunks] at ha
    split at ha
    · simp at ha
    · split at ha <;> simp at ha
      subst ha; rfl

theorem all_single_chunksL_length : ∀ (ts : List Tree) (a : List Chunk), ts.all Tree.single = true →
    Tree.sizedL ts = true → Tree.chunksL h ts = .ok a → a.length = ts.length
  | [], a, _, _, ha => by simp [Tree.chunksL] at ha; subst ha; rfl
  | t :: ts, a, hs, hz, ha => by
    obtain ⟨x, y, hx, hy, rfl⟩ := chunksL_cons_ok ha
    simp only [List.all_cons, Bool.and_eq_true] at hs
    simp only [Tree.sizedL, Bool.and_eq_true] at hz
    rw [List.length_append, single_chunks_length t x hs.1 hz.1 hx,
      all_single_chunksL_length ts y hs.2 hz.2 hy]
    simp; omega


mutual
theorem tree_inj (hc : NoColl h) (t u : Tree) (hs : t.shapeEq u = true) (hr : t.rawAgree u = true)
    (hz : t.sized = true) (hz' : u.sized = true) (a b : List Chunk)
    (ha : Tree.chunks h t = .ok a) (hb : Tree.chunks h u = .ok b) :
    a.length = b.length ∧ (a = b → t = u) := by
  cases t with
  | raw x =>
    cases u with
    | raw y =>
      simp [Tree.rawAgree] at hr
      simp [Tree.chunks] at ha hb
      subst ha; subst hb
      exact ⟨putBytes_length_eq hr, fun he => by rw [putBytes_inj hc hr he]⟩
    | _ => simp [Tree.shapeEq] at hs
  | fixed n x =>
    cases u with
    | fixed m y =>
      simp [Tree.shapeEq] at hs; subst hs
      simp [Tree.sized] at hz hz'
      simp only [Tree.chunks] at ha hb
      rw [if_neg (by omega)] at ha; rw [if_neg (by omega)] at hb
      simp at ha hb; subst ha; subst hb
      have e1 : leftPad n x = x := by simp [leftPad, hz]
      have e2 : leftPad n y = y := by simp [leftPad, hz']
      rw [e1, e2]
      have hl : x.length = y.length := by omega
      exact ⟨putBytes_length_eq hl, fun he => by rw [putBytes_inj hc hl he]⟩
    | _ => simp [Tree.shapeEq] at hs
  | blist m x =>
    cases u with
    | blist m' y =>
      simp [Tree.shapeEq] at hs; subst hs
      simp [Tree.sized] at hz
      simp only [Tree.chunks] at ha hb
      split at ha
      · simp at ha
      split at hb
      · simp at hb
      simp at ha hb; subst ha; subst hb
      refine ⟨rfl, fun he => ?_⟩
      simp at he
      obtain ⟨e1, e2⟩ := mixin_inj hc (by omega) (by omega) he
      have := merkleize_inj hc _ _ _ (by simp [chunkify_length, e2])
        (Or.inr (by simp [chunkify_length]; omega)) e1
      rw [chunkify_inj e2 this]
    | _ => simp [Tree.shapeEq] at hs
  | u64 n =>
    cases u with
    | u64 m =>
      simp [Tree.sized] at hz hz'
      simp [Tree.chunks] at ha hb; subst ha; subst hb
      refine ⟨rfl, fun he => ?_⟩
      simp at he
      rw [u64Chunk_inj hz hz' he]
    | _ => simp [Tree.shapeEq] at hs
  | bool x =>
    cases u with
    | bool y =>
      simp [Tree.chunks] at ha hb; subst ha; subst hb
      refine ⟨rfl, fun he => ?_⟩
      simp at he
      have := congrArg Chunk.bytes he
      cases x <;> cases y <;> first | rfl | (simp [boolChunk, mkChunk] at this)
    | _ => simp [Tree.shapeEq] at hs
  | u64s m xs =>
    cases u with
    | u64s m' ys =>
      simp [Tree.shapeEq] at hs; subst hs
      simp [Tree.sized] at hz hz'
      simp only [Tree.chunks] at ha hb
      split at ha
      · simp at ha
      split at hb
      · simp at hb
      rename_i hpa hpb
      simp at ha hb; subst ha; subst hb
      refine ⟨rfl, fun he => ?_⟩
      simp at he
      obtain ⟨e1, e2⟩ := mixin_inj hc hz.1 hz'.1 he
      rw [← e2] at e1
      have hlen : (xs.flatMap le64).length = (ys.flatMap le64).length := by
        rw [flatMap_le64_length, flatMap_le64_length, e2]
      have := merkleize_inj hc _ _ _ (by simp [chunkify_length, hlen]) (Or.inr (by omega)) e1
      rw [flatMap_le64_inj xs ys e2 hz.2 hz'.2 (chunkify_inj hlen this)]
    | _ => simp [Tree.shapeEq] at hs
  | sigs m x =>
    cases u with
    | sigs m' y =>
      simp [Tree.shapeEq] at hs; subst hs
      simp [Tree.sized] at hz
      simp only [Tree.chunks] at ha hb
      split at ha
      · simp at ha
      split at ha
      · simp at ha
      split at hb
      · simp at hb
      split at hb
      · simp at hb
      rename_i hmx hlx hmy hly
      simp at ha hb; subst ha; subst hb
      refine ⟨rfl, fun he => ?_⟩
      simp at he
      obtain ⟨e1, e2⟩ := mixin_inj hc (by omega) (by omega) he
      have hmx' : x.length % 65 = 0 := by omega
      have hmy' : y.length % 65 = 0 := by omega
      obtain ⟨fx, lx, px⟩ := pieces_spec (n := 65) (by omega) x hmx'
      obtain ⟨fy, ly, py⟩ := pieces_spec (n := 65) (by omega) y hmy'
      have l1 := flatMap_putBytes_length (h := h) (n := 65) (by omega) _ px
      have l2 := flatMap_putBytes_length (h := h) (n := 65) (by omega) _ py
      have := merkleize_inj hc _ _ _ (by rw [l1, l2, lx, ly, e2]) (Or.inr (by rw [l1, lx]; omega)) e1
      have hp := flatMap_putBytes_inj hc (n := 65) (by omega) _ _ (by rw [lx, ly, e2]) px py this
      rw [← fx, ← fy, hp]
    | _ => simp [Tree.shapeEq] at hs
  | cont ks =>
    cases u with
    | cont ls =>
      simp [Tree.shapeEq] at hs
      simp [Tree.rawAgree] at hr
      simp [Tree.sized] at hz hz'
      simp only [Tree.chunks] at ha hb
      cases hx : Tree.chunksL h ks with
      | error e => simp [hx] at ha
      | ok cs =>
        cases hy : Tree.chunksL h ls with
        | error e => simp [hy] at hb
        | ok ds =>
          simp [hx] at ha; simp [hy] at hb; subst ha; subst hb
          have ih := treeL_inj hc ks ls hs.1 hs.2 hr hz hz' cs ds hx hy
          refine ⟨rfl, fun he => ?_⟩
          simp at he
          rw [ih.2 (merkleize_inj hc 0 cs ds ih.1 (Or.inl rfl) he)]
    | _ => simp [Tree.shapeEq] at hs
  | mix l n ks =>
    cases u with
    | mix l' n' ls =>
      simp [Tree.shapeEq] at hs
      obtain ⟨hl, hs⟩ := hs
      subst hl
      simp [Tree.rawAgree] at hr
      simp [Tree.sized] at hz hz'
      simp only [Tree.chunks] at ha hb
      cases hx : Tree.chunksL h ks with
      | error e => simp [hx] at ha
      | ok cs =>
        cases hy : Tree.chunksL h ls with
        | error e => simp [hy] at hb
        | ok ds =>
          simp only [hx] at ha; simp only [hy] at hb
          split at ha
          · simp at ha
          split at hb
          · simp at hb
          rename_i hpa hpb
          simp at ha hb; subst ha; subst hb
          refine ⟨rfl, fun he => ?_⟩
          simp at he
          obtain ⟨e1, e2⟩ := mixin_inj hc hz.1.1.2 hz'.1.1.2 he
          subst e2
          have hlen : ks.length = ls.length := by rw [← hz.1.1.1, ← hz'.1.1.1]
          have ih := treeL_inj hc ks ls hlen hs hr hz.2 hz'.2 cs ds hx hy
          have lc := all_single_chunksL_length (h := h) ks cs (by simpa using hz.1.2) hz.2 hx
          have ld := all_single_chunksL_length (h := h) ls ds (by simpa using hz'.1.2) hz'.2 hy
          have hbnd : l.getD n = 0 ∨ cs.length ≤ l.getD n := by
            by_cases h0 : l.getD n = 0
            · exact Or.inl h0
            · right
              simp at hpa
              exact hpa h0
          rw [ih.2 (merkleize_inj hc _ cs ds (by rw [lc, ld, hlen]) hbnd e1)]
    | _ => simp [Tree.shapeEq] at hs
  | seq ks =>
    cases u with
    | seq ls =>
      simp [Tree.shapeEq] at hs
      simp [Tree.rawAgree] at hr
      simp [Tree.sized] at hz hz'
      simp only [Tree.chunks] at ha hb
      have ih := treeL_inj hc ks ls hs.1 hs.2 hr hz hz' a b ha hb
      exact ⟨ih.1, fun he => by rw [ih.2 he]⟩
    | _ => simp [Tree.shapeEq] at hs
termination_by sizeOf t

theorem treeL_inj (hc : NoColl h) (ts us : List Tree) (hl : ts.length = us.length)
    (hs : Tree.shapeEqL ts us = true) (hr : Tree.rawAgreeL ts us = true)
    (hz : Tree.sizedL ts = true) (hz' : Tree.sizedL us = true) (a b : List Chunk)
    (ha : Tree.chunksL h ts = .ok a) (hb : Tree.chunksL h us = .ok b) :
    a.length = b.length ∧ (a = b → ts = us) := by
  match ts, us, hl with
  | [], [], _ =>
    simp [Tree.chunksL] at ha hb; subst ha; subst hb
    exact ⟨rfl, fun _ => rfl⟩
  | t :: ts', u :: us', hl =>
    obtain ⟨x, y, hx, hy, rfl⟩ := chunksL_cons_ok ha
    obtain ⟨x', y', hx', hy', rfl⟩ := chunksL_cons_ok hb
    simp only [Tree.shapeEqL, Bool.and_eq_true] at hs
    simp only [Tree.rawAgreeL, Bool.and_eq_true] at hr
    simp only [Tree.sizedL, Bool.and_eq_true] at hz hz'
    have ih1 := tree_inj hc t u hs.1 hr.1 hz.1 hz'.1 x x' hx hx'
    have ih2 := treeL_inj hc ts' us' (by simpa using hl) hs.2 hr.2 hz.2 hz'.2 y y' hy hy'
    refine ⟨by simp [ih1.1, ih2.1], fun he => ?_⟩
    obtain ⟨e1, e2⟩ := List.append_inj he ih1.1
    rw [ih1.2 e1, ih2.2 e2]
termination_by sizeOf ts
end

end Merkle
end CharonV.Ssz
