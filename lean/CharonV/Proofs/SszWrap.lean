/-
C14 — helper lemmas for `Props/C14.lean`: little-endian codec facts, header decomposition,
round trip / rejection / acceptance / injectivity of the three versioned SSZ wrappers, the
`VersionedAttestation` fallback, `AttestationData` + `attesterDutySSZ`, the SSZ-then-JSON fallback
and the set encoders of `core/proto.go`.
-/
import CharonV.Model.SszWrap
namespace CharonV.SszWrap

theorem le_length (k n : Nat) : (le k n).length = k := by
  induction k generalizing n with
  | zero => rfl
  | succ k ih => simp [le, ih]

theorem leVal_le (k n : Nat) : leVal (le k n) = n % 256 ^ k := by
  induction k generalizing n with
  | zero => simp [le, leVal, Nat.mod_one]
  | succ k ih =>
    simp only [le, leVal, ih]
    have : (UInt8.ofNat (n % 256)).toNat = n % 256 := by
      simp [UInt8.toNat_ofNat']
    rw [this, Nat.pow_succ', Nat.mod_mul]

theorem leVal_le_of_lt {k n : Nat} (h : n < 256 ^ k) : leVal (le k n) = n := by
  rw [leVal_le, Nat.mod_eq_of_lt h]

theorem slice_zero_append {a b : Bytes} {n : Nat} (h : a.length = n) : slice (a ++ b) 0 n = a := by
  simp [slice, ← h]

theorem slice_append_right {a b : Bytes} {n m : Nat} (h : a.length = n) (_hm : n ≤ m) :
    slice (a ++ b) n m = slice b 0 (m - n) := by
  simp [slice, ← h]

theorem drop_append_right {a b : Bytes} {n m : Nat} (h : a.length = n) (hm : n ≤ m) :
    (a ++ b).drop m = b.drop (m - n) := by
  subst h
  rw [List.drop_append]
  simp [List.drop_eq_nil_of_le hm]

theorem drop_app (a r : Bytes) (n : Nat) : (a ++ r).drop (a.length + n) = r.drop n := by
  induction a with
  | nil => simp
  | cons x xs ih => simp [Nat.succ_add]

theorem slice_app (a r : Bytes) (n m : Nat) : slice (a ++ r) (a.length + n) (a.length + m) = slice r n m := by
  unfold slice
  rw [drop_app]
  congr 1
  omega

theorem slice_head (a r : Bytes) : slice (a ++ r) 0 a.length = a := by
  simp [slice]

theorem parts3 {a b c d : Bytes} {la lb lc : Nat} (ha : a.length = la) (hb : b.length = lb) (hc : c.length = lc) :
    slice (a ++ (b ++ (c ++ d))) 0 la = a ∧ slice (a ++ (b ++ (c ++ d))) la (la + lb) = b ∧
    slice (a ++ (b ++ (c ++ d))) (la + lb) (la + lb + lc) = c ∧ (a ++ (b ++ (c ++ d))).drop (la + lb + lc) = d := by
  subst ha hb hc
  refine ⟨slice_head _ _, ?_, ?_, ?_⟩
  · have := slice_app a (b ++ (c ++ d)) 0 b.length
    simpa [slice_head] using this
  · have h1 := slice_app a (b ++ (c ++ d)) b.length (b.length + c.length)
    have h2 := slice_app b (c ++ d) 0 c.length
    rw [Nat.add_assoc, h1]
    simpa [slice_head] using h2
  · rw [Nat.add_assoc, drop_app]
    have := drop_app b (c ++ d) c.length
    rw [this]
    simp


theorem blindedOff_eq : blindedOff = 13 := rfl
theorem versionedOff_eq : versionedOff = 12 := rfl
theorem valIdxOff_eq : valIdxOff = 20 := rfl

theorem Ver.ofNat?_toNat (v : Ver) : Ver.ofNat? v.toNat = some v := by cases v <;> rfl
theorem Ver.toNat_lt (v : Ver) : v.toNat < 7 := by cases v <;> decide
theorem Ver.ofNat?_eq_some {n : Nat} {v : Ver} (h : Ver.ofNat? n = some v) : v.toNat = n := by
  unfold Ver.ofNat? at h
  split at h <;> simp at h <;> subst h <;> rfl
theorem Ver.ofNat?_none {n : Nat} (h : 7 ≤ n) : Ver.ofNat? n = none := by
  unfold Ver.ofNat?
  split <;> first | omega | rfl
theorem Ver.ofNat?_of_lt {n : Nat} (h : n < 7) : ∃ v, Ver.ofNat? n = some v := by
  have : n = 0 ∨ n = 1 ∨ n = 2 ∨ n = 3 ∨ n = 4 ∨ n = 5 ∨ n = 6 := by omega
  rcases this with rfl | rfl | rfl | rfl | rfl | rfl | rfl <;> exact ⟨_, rfl⟩
theorem Ver.toNat_inj {a b : Ver} (h : a.toNat = b.toNat) : a = b := by
  cases a <;> cases b <;> first | rfl | (simp [Ver.toNat] at h)

theorem leVal_ver (v : Ver) : leVal (le 8 v.toNat) = v.toNat := by
  apply leVal_le_of_lt
  have := Ver.toNat_lt v
  omega

theorem boolByte_eq (b : Bool) : (([boolByte b] : Bytes) == [1]) = b := by
  cases b <;> decide

theorem boolByte_beq (b : Bool) : (boolByte b == 1) = b := by
  cases b <;> decide

theorem hdrBlinded_length (v : Ver) (b : Bool) : (hdrBlinded v b).length = 13 := by
  simp [hdrBlinded, le_length, blindedOff_eq]

theorem unmarshalBlinded_marshal (c : CodecB α) (h : ∀ v b x, c.dec v b (c.enc v b x) = .ok x) (x : VB α) :
    unmarshalBlinded c (marshalBlinded c x) = .ok x := by
  obtain ⟨ver, bl, val⟩ := x
  have hp := parts3 (a := le 8 ver.toNat) (b := [boolByte bl]) (c := le 4 13) (d := c.enc ver bl val)
    (le_length _ _) rfl (le_length _ _)
  obtain ⟨h1, h2, h3, h4⟩ := hp
  have hbuf : marshalBlinded c ⟨ver, bl, val⟩ = le 8 ver.toNat ++ ([boolByte bl] ++ (le 4 13 ++ c.enc ver bl val)) := by
    simp [marshalBlinded, hdrBlinded, blindedOff_eq]
  have hlen : (le 8 ver.toNat ++ ([boolByte bl] ++ (le 4 13 ++ c.enc ver bl val))).length = 13 + (c.enc ver bl val).length := by
    simp [le_length]; omega
  have h13 : leVal (le 4 13) = 13 := leVal_le_of_lt (by decide)
  rw [hbuf]
  simp only [List.length_cons, List.length_nil, Nat.reduceAdd] at h2 h3 h4
  generalize (le 8 ver.toNat ++ ([boolByte bl] ++ (le 4 13 ++ c.enc ver bl val))) = buf at h1 h2 h3 h4 hlen ⊢
  have hn : ¬ (13 + (c.enc ver bl val).length < 13) := by omega
  simp [unmarshalBlinded, blindedOff_eq, hlen, h1, h2, h3, h4, h13, leVal_ver, Ver.ofNat?_toNat, boolByte_beq, h, hn]


/-! ### blinded wrapper: rejection, acceptance characterisation, injectivity -/

theorem unmarshalBlinded_short (c : CodecB α) {buf : Bytes} (h : buf.length < 13) :
    unmarshalBlinded c buf = .error .size := by
  simp [unmarshalBlinded, blindedOff_eq, h]

theorem unmarshalBlinded_unknown_version (c : CodecB α) {buf : Bytes} (h : 13 ≤ buf.length)
    (hv : 7 ≤ leVal (slice buf 0 8)) : unmarshalBlinded c buf = .error .version := by
  have : ¬ buf.length < 13 := by omega
  simp [unmarshalBlinded, blindedOff_eq, this, Ver.ofNat?_none hv]

theorem unmarshalBlinded_bad_offset (c : CodecB α) {buf : Bytes} (h : 13 ≤ buf.length)
    (hv : leVal (slice buf 0 8) < 7)
    (ho : leVal (slice buf 9 13) < 13 ∨ buf.length < leVal (slice buf 9 13)) :
    unmarshalBlinded c buf = .error .offset := by
  have : ¬ buf.length < 13 := by omega
  unfold unmarshalBlinded
  simp only [blindedOff_eq, this, if_false]
  obtain ⟨v, hver⟩ := Ver.ofNat?_of_lt hv
  simp [hver, ho]

/-- Everything `unmarshalSSZVersionedBlinded` accepts: long enough, known version, offset in
`[13, len]`, and the inner decoder accepted exactly the bytes from that offset. -/
theorem unmarshalBlinded_ok (c : CodecB α) {buf : Bytes} {x : VB α} (h : unmarshalBlinded c buf = .ok x) :
    13 ≤ buf.length ∧ x.ver.toNat = leVal (slice buf 0 8) ∧ x.blinded = (slice buf 8 9 == [1]) ∧
    13 ≤ leVal (slice buf 9 13) ∧ leVal (slice buf 9 13) ≤ buf.length ∧
    c.dec x.ver x.blinded (buf.drop (leVal (slice buf 9 13))) = .ok x.val := by
  unfold unmarshalBlinded at h
  by_cases hl : buf.length < blindedOff
  · simp [hl] at h
  · simp only [hl, if_false] at h
    cases hver : Ver.ofNat? (leVal (slice buf 0 8)) with
    | none => simp [hver] at h
    | some ver =>
      simp only [hver] at h
      by_cases ho : blindedOff > leVal (slice buf 9 13) ∨ leVal (slice buf 9 13) > buf.length
      · simp [ho] at h
      · simp only [ho, if_false] at h
        cases hy : c.dec ver (slice buf 8 9 == [1]) (buf.drop (leVal (slice buf 9 13))) with
        | error e => simp [hy] at h
        | ok y =>
          simp only [hy, Except.ok.injEq] at h
          subst h
          simp only [blindedOff_eq] at hl ho
          exact ⟨by omega, Ver.ofNat?_eq_some hver, rfl, by omega, by omega, hy⟩

theorem marshalBlinded_eq (c : CodecB α) (x : VB α) :
    marshalBlinded c x = le 8 x.ver.toNat ++ ([boolByte x.blinded] ++ (le 4 13 ++ c.enc x.ver x.blinded x.val)) := by
  simp [marshalBlinded, hdrBlinded, blindedOff_eq]

theorem le8_ver_inj {a b : Ver} (h : le 8 a.toNat = le 8 b.toNat) : a = b := by
  apply Ver.toNat_inj
  have := congrArg leVal h
  rwa [leVal_ver, leVal_ver] at this

theorem boolByte_inj {a b : Bool} (h : boolByte a = boolByte b) : a = b := by
  cases a <;> cases b <;> first | rfl | (exact absurd h (by decide))

theorem marshalBlinded_injective (c : CodecB α)
    (hinj : ∀ v b x y, c.enc v b x = c.enc v b y → x = y) {x y : VB α}
    (h : marshalBlinded c x = marshalBlinded c y) : x = y := by
  obtain ⟨v1, b1, x1⟩ := x
  obtain ⟨v2, b2, x2⟩ := y
  rw [marshalBlinded_eq, marshalBlinded_eq] at h
  have p1 := parts3 (a := le 8 v1.toNat) (b := [boolByte b1]) (c := le 4 13) (d := c.enc v1 b1 x1)
    (le_length _ _) rfl (le_length _ _)
  have p2 := parts3 (a := le 8 v2.toNat) (b := [boolByte b2]) (c := le 4 13) (d := c.enc v2 b2 x2)
    (le_length _ _) rfl (le_length _ _)
  simp only at h
  rw [h] at p1
  obtain ⟨a1, a2, _, a4⟩ := p1
  obtain ⟨c1, c2, _, c4⟩ := p2
  have hv : v1 = v2 := le8_ver_inj (a1.symm.trans c1)
  have hb : b1 = b2 := by
    have := a2.symm.trans c2
    simp at this
    exact boolByte_inj this
  subst hv hb
  have := hinj _ _ _ _ (a4.symm.trans c4)
  subst this
  rfl

/-- The decoder is NOT injective: the offset check is a range, so bytes may be skipped between
the header and the inner object (a non-canonical encoding of the same value is accepted). -/
def slackCodec : CodecB Unit :=
  ⟨fun _ _ _ => [], fun _ _ b => if b = [] then .ok () else .error .other⟩

theorem unmarshalBlinded_offset_slack :
    unmarshalBlinded slackCodec (le 8 0 ++ [0] ++ le 4 13) = .ok ⟨.phase0, false, ()⟩ ∧
    unmarshalBlinded slackCodec (le 8 0 ++ [0] ++ le 4 14 ++ [0xFF]) = .ok ⟨.phase0, false, ()⟩ := by
  constructor <;> rfl


/-! ### versioned wrapper -/

theorem parts2 {a b d : Bytes} {la lb : Nat} (ha : a.length = la) (hb : b.length = lb) :
    slice (a ++ (b ++ d)) 0 la = a ∧ slice (a ++ (b ++ d)) la (la + lb) = b ∧
    (a ++ (b ++ d)).drop (la + lb) = d := by
  have := parts3 (a := a) (b := b) (c := []) (d := d) ha hb rfl
  simpa using ⟨this.1, this.2.1, this.2.2.2⟩

theorem marshalVersioned_eq (c : Codec α) (x : VV α) :
    marshalVersioned c x = le 8 x.ver.toNat ++ (le 4 12 ++ c.enc x.ver x.val) := by
  simp [marshalVersioned, hdrVersioned, versionedOff_eq]

theorem unmarshalVersioned_marshal (c : Codec α) (h : ∀ v x, c.dec v (c.enc v x) = .ok x) (x : VV α) :
    unmarshalVersioned c (marshalVersioned c x) = .ok x := by
  obtain ⟨ver, val⟩ := x
  obtain ⟨h1, h2, h3⟩ := parts2 (a := le 8 ver.toNat) (b := le 4 12) (d := c.enc ver val)
    (le_length _ _) (le_length _ _)
  have hlen : (le 8 ver.toNat ++ (le 4 12 ++ c.enc ver val)).length = 12 + (c.enc ver val).length := by
    simp [le_length]; omega
  have h12 : leVal (le 4 12) = 12 := leVal_le_of_lt (by decide)
  rw [marshalVersioned_eq]
  simp only [Nat.reduceAdd] at h2 h3
  generalize (le 8 ver.toNat ++ (le 4 12 ++ c.enc ver val)) = buf at h1 h2 h3 hlen ⊢
  have hn : ¬ (12 + (c.enc ver val).length < 12) := by omega
  simp [unmarshalVersioned, versionedOff_eq, hlen, h1, h2, h3, h12, leVal_ver, Ver.ofNat?_toNat, h, hn]

theorem unmarshalVersioned_short (c : Codec α) {buf : Bytes} (h : buf.length < 12) :
    unmarshalVersioned c buf = .error .size := by
  simp [unmarshalVersioned, versionedOff_eq, h]

theorem unmarshalVersioned_unknown_version (c : Codec α) {buf : Bytes} (h : 12 ≤ buf.length)
    (hv : 7 ≤ leVal (slice buf 0 8)) : unmarshalVersioned c buf = .error .version := by
  have : ¬ buf.length < 12 := by omega
  simp [unmarshalVersioned, versionedOff_eq, this, Ver.ofNat?_none hv]

theorem unmarshalVersioned_bad_offset (c : Codec α) {buf : Bytes} (h : 12 ≤ buf.length)
    (hv : leVal (slice buf 0 8) < 7)
    (ho : leVal (slice buf 8 12) < 12 ∨ buf.length < leVal (slice buf 8 12)) :
    unmarshalVersioned c buf = .error .offset := by
  have : ¬ buf.length < 12 := by omega
  unfold unmarshalVersioned
  simp only [versionedOff_eq, this, if_false]
  obtain ⟨v, hver⟩ := Ver.ofNat?_of_lt hv
  simp [hver, ho]

theorem unmarshalVersioned_ok (c : Codec α) {buf : Bytes} {x : VV α} (h : unmarshalVersioned c buf = .ok x) :
    12 ≤ buf.length ∧ x.ver.toNat = leVal (slice buf 0 8) ∧
    12 ≤ leVal (slice buf 8 12) ∧ leVal (slice buf 8 12) ≤ buf.length ∧
    c.dec x.ver (buf.drop (leVal (slice buf 8 12))) = .ok x.val := by
  unfold unmarshalVersioned at h
  by_cases hl : buf.length < versionedOff
  · simp [hl] at h
  · simp only [hl, if_false] at h
    cases hver : Ver.ofNat? (leVal (slice buf 0 8)) with
    | none => simp [hver] at h
    | some ver =>
      simp only [hver] at h
      by_cases ho : versionedOff > leVal (slice buf 8 12) ∨ leVal (slice buf 8 12) > buf.length
      · simp [ho] at h
      · simp only [ho, if_false] at h
        cases hy : c.dec ver (buf.drop (leVal (slice buf 8 12))) with
        | error e => simp [hy] at h
        | ok y =>
          simp only [hy, Except.ok.injEq] at h
          subst h
          simp only [versionedOff_eq] at hl ho
          exact ⟨by omega, Ver.ofNat?_eq_some hver, by omega, by omega, hy⟩

theorem marshalVersioned_injective (c : Codec α) (hinj : ∀ v x y, c.enc v x = c.enc v y → x = y)
    {x y : VV α} (h : marshalVersioned c x = marshalVersioned c y) : x = y := by
  obtain ⟨v1, x1⟩ := x
  obtain ⟨v2, x2⟩ := y
  rw [marshalVersioned_eq, marshalVersioned_eq] at h
  have p1 := parts2 (a := le 8 v1.toNat) (b := le 4 12) (d := c.enc v1 x1) (le_length _ _) (le_length _ _)
  have p2 := parts2 (a := le 8 v2.toNat) (b := le 4 12) (d := c.enc v2 x2) (le_length _ _) (le_length _ _)
  simp only at h
  rw [h] at p1
  obtain ⟨a1, _, a3⟩ := p1
  obtain ⟨c1, _, c3⟩ := p2
  have hv : v1 = v2 := le8_ver_inj (a1.symm.trans c1)
  subst hv
  have := hinj _ _ _ (a3.symm.trans c3)
  subst this
  rfl

/-! ### validator-index wrapper -/

theorem marshalValIdx_eq (c : Codec α) (x : VI α) :
    marshalValIdx c x = le 8 x.ver.toNat ++ (le 8 x.idx ++ (le 4 20 ++ c.enc x.ver x.val)) := by
  simp [marshalValIdx, hdrValIdx, valIdxOff_eq]

theorem unmarshalValIdx_marshal (c : Codec α) (h : ∀ v x, c.dec v (c.enc v x) = .ok x) (x : VI α)
    (hi : x.idx < 2 ^ 64) : unmarshalValIdx c (marshalValIdx c x) = .ok x := by
  obtain ⟨ver, idx, val⟩ := x
  obtain ⟨h1, h2, h3, h4⟩ := parts3 (a := le 8 ver.toNat) (b := le 8 idx) (c := le 4 20) (d := c.enc ver val)
    (le_length _ _) (le_length _ _) (le_length _ _)
  have hlen : (le 8 ver.toNat ++ (le 8 idx ++ (le 4 20 ++ c.enc ver val))).length = 20 + (c.enc ver val).length := by
    simp [le_length]; omega
  have h20 : leVal (le 4 20) = 20 := leVal_le_of_lt (by decide)
  have hidx : leVal (le 8 idx) = idx := leVal_le_of_lt (by simpa using hi)
  rw [marshalValIdx_eq]
  simp only [Nat.reduceAdd] at h2 h3 h4
  generalize (le 8 ver.toNat ++ (le 8 idx ++ (le 4 20 ++ c.enc ver val))) = buf at h1 h2 h3 h4 hlen ⊢
  have hn : ¬ (20 + (c.enc ver val).length < 20) := by omega
  simp [unmarshalValIdx, valIdxOff_eq, hlen, h1, h2, h3, h4, h20, hidx, leVal_ver, Ver.ofNat?_toNat, h, hn]

theorem unmarshalValIdx_short (c : Codec α) {buf : Bytes} (h : buf.length < 20) :
    unmarshalValIdx c buf = .error .size := by
  simp [unmarshalValIdx, valIdxOff_eq, h]

theorem unmarshalValIdx_unknown_version (c : Codec α) {buf : Bytes} (h : 20 ≤ buf.length)
    (hv : 7 ≤ leVal (slice buf 0 8)) : unmarshalValIdx c buf = .error .version := by
  have : ¬ buf.length < 20 := by omega
  simp [unmarshalValIdx, valIdxOff_eq, this, Ver.ofNat?_none hv]

theorem unmarshalValIdx_bad_offset (c : Codec α) {buf : Bytes} (h : 20 ≤ buf.length)
    (hv : leVal (slice buf 0 8) < 7) (ho : leVal (slice buf 16 20) ≠ 20) :
    unmarshalValIdx c buf = .error .offset := by
  have : ¬ buf.length < 20 := by omega
  unfold unmarshalValIdx
  simp only [valIdxOff_eq, this, if_false]
  obtain ⟨v, hver⟩ := Ver.ofNat?_of_lt hv
  simp [hver, ho]

theorem unmarshalValIdx_ok (c : Codec α) {buf : Bytes} {x : VI α} (h : unmarshalValIdx c buf = .ok x) :
    20 ≤ buf.length ∧ x.ver.toNat = leVal (slice buf 0 8) ∧ x.idx = leVal (slice buf 8 16) ∧
    leVal (slice buf 16 20) = 20 ∧ c.dec x.ver (buf.drop 20) = .ok x.val := by
  unfold unmarshalValIdx at h
  by_cases hl : buf.length < valIdxOff
  · simp [hl] at h
  · simp only [hl, if_false] at h
    cases hver : Ver.ofNat? (leVal (slice buf 0 8)) with
    | none => simp [hver] at h
    | some ver =>
      simp only [hver] at h
      by_cases ho : leVal (slice buf 16 20) ≠ valIdxOff
      · simp [ho] at h
      · simp only [ho, if_false] at h
        have ho' : leVal (slice buf 16 20) = 20 := by simpa [valIdxOff_eq] using ho
        rw [ho'] at h
        cases hy : c.dec ver (buf.drop 20) with
        | error e => simp [hy] at h
        | ok y =>
          simp only [hy, Except.ok.injEq] at h
          subst h
          simp only [valIdxOff_eq] at hl
          exact ⟨by omega, Ver.ofNat?_eq_some hver, rfl, ho', hy⟩

theorem marshalValIdx_injective (c : Codec α) (hinj : ∀ v x y, c.enc v x = c.enc v y → x = y)
    {x y : VI α} (hx : x.idx < 2 ^ 64) (hy : y.idx < 2 ^ 64)
    (h : marshalValIdx c x = marshalValIdx c y) : x = y := by
  obtain ⟨v1, i1, x1⟩ := x
  obtain ⟨v2, i2, x2⟩ := y
  rw [marshalValIdx_eq, marshalValIdx_eq] at h
  have p1 := parts3 (a := le 8 v1.toNat) (b := le 8 i1) (c := le 4 20) (d := c.enc v1 x1)
    (le_length _ _) (le_length _ _) (le_length _ _)
  have p2 := parts3 (a := le 8 v2.toNat) (b := le 8 i2) (c := le 4 20) (d := c.enc v2 x2)
    (le_length _ _) (le_length _ _) (le_length _ _)
  simp only at h
  rw [h] at p1
  obtain ⟨a1, a2, _, a4⟩ := p1
  obtain ⟨c1, c2, _, c4⟩ := p2
  have hv : v1 = v2 := le8_ver_inj (a1.symm.trans c1)
  have hi : i1 = i2 := by
    have := congrArg leVal (a2.symm.trans c2)
    rwa [leVal_le_of_lt (by simpa using hx), leVal_le_of_lt (by simpa using hy)] at this
  subst hv hi
  have := hinj _ _ _ (a4.symm.trans c4)
  subst this
  rfl


/-! ### VersionedAttestation dispatch and compatibility fallback -/

theorem unmarshalAtt_marshal_idx (c : Codec α) (h : ∀ v x, c.dec v (c.enc v x) = .ok x)
    (ver : Ver) (i : Nat) (val : α) (hi : i < 2 ^ 64) :
    ∀ strict, unmarshalAttG strict c (marshalAtt c ⟨ver, some i, val⟩) = .ok ⟨ver, some i, val⟩ := by
  intro strict
  simp [unmarshalAttG, marshalAtt, unmarshalValIdx_marshal c h ⟨ver, i, val⟩ hi]

/-- What the first attempt (`unmarshalSSZVersionedValidatorIdx`) sees of an encoding written
WITHOUT validator index: bytes 16..20 of the buffer are bytes 4..8 of the inner object. -/
theorem noidx_slice (c : Codec α) (ver : Ver) (val : α) (h8 : 8 ≤ (c.enc ver val).length) :
    slice (marshalVersioned c ⟨ver, val⟩) 16 20 = slice (c.enc ver val) 4 8 ∧
    slice (marshalVersioned c ⟨ver, val⟩) 0 8 = le 8 ver.toNat ∧
    20 ≤ (marshalVersioned c ⟨ver, val⟩).length := by
  rw [marshalVersioned_eq]
  obtain ⟨h1, _, _⟩ := parts2 (a := le 8 ver.toNat) (b := le 4 12) (d := c.enc ver val)
    (le_length _ _) (le_length _ _)
  refine ⟨?_, h1, ?_⟩
  · have e1 := slice_app (le 8 ver.toNat) (le 4 12 ++ c.enc ver val) 8 12
    have e2 := slice_app (le 4 12) (c.enc ver val) 4 8
    simp only [le_length] at e1 e2
    exact e1.trans e2
  · simp [le_length]; omega

/-- Round trip of an attestation WITHOUT validator index (pre-Electra attestations travel like
this) — only under the hypothesis that bytes 4..8 of the inner object do not read as 20. -/
theorem unmarshalAtt_marshal_noidx_partial (c : Codec α) (h : ∀ v x, c.dec v (c.enc v x) = .ok x)
    (ver : Ver) (val : α) (h8 : 8 ≤ (c.enc ver val).length)
    (hne : leVal (slice (c.enc ver val) 4 8) ≠ 20) :
    ∀ strict, unmarshalAttG strict c (marshalAtt c ⟨ver, none, val⟩) = .ok ⟨ver, none, val⟩ := by
  intro strict
  obtain ⟨s1, s2, s3⟩ := noidx_slice c ver val h8
  have hfirst : unmarshalValIdx c (marshalVersioned c ⟨ver, val⟩) = .error .offset := by
    apply unmarshalValIdx_bad_offset c s3
    · rw [s2, leVal_ver]; exact Ver.toNat_lt ver
    · rw [s1]; exact hne
  simp [unmarshalAttG, marshalAtt, hfirst, WErr.isOffset, unmarshalVersioned_marshal c h ⟨ver, val⟩]

/-- Same round trip when bytes 4..8 DO read as 20 but the inner decoder happens to fail with an
error wrapping `ssz.ErrOffset` on the shifted bytes: the fallback still rescues it. -/
theorem unmarshalAtt_marshal_noidx_rescued (c : Codec α) (h : ∀ v x, c.dec v (c.enc v x) = .ok x)
    (ver : Ver) (val : α) (h8 : 8 ≤ (c.enc ver val).length)
    (hoff : c.dec ver ((c.enc ver val).drop 8) = .error .offset) :
    ∀ strict, unmarshalAttG strict c (marshalAtt c ⟨ver, none, val⟩) = .ok ⟨ver, none, val⟩ := by
  intro strict
  by_cases hne : leVal (slice (c.enc ver val) 4 8) ≠ 20
  · exact unmarshalAtt_marshal_noidx_partial c h ver val h8 hne strict
  · have he : leVal (slice (c.enc ver val) 4 8) = 20 := by simpa using hne
    obtain ⟨s1, s2, s3⟩ := noidx_slice c ver val h8
    have hdrop : (marshalVersioned c ⟨ver, val⟩).drop 20 = (c.enc ver val).drop 8 := by
      rw [marshalVersioned_eq]
      have e1 := drop_app (le 8 ver.toNat) (le 4 12 ++ c.enc ver val) 12
      have e2 := drop_app (le 4 12) (c.enc ver val) 8
      simp only [le_length] at e1 e2
      exact e1.trans e2
    have hfirst : unmarshalValIdx c (marshalVersioned c ⟨ver, val⟩) = .error (.inner .offset) := by
      have hl : ¬ (marshalVersioned c ⟨ver, val⟩).length < 20 := by omega
      unfold unmarshalValIdx
      simp only [valIdxOff_eq, hl, if_false, s2, leVal_ver, Ver.ofNat?_toNat, s1, he]
      simp [hdrop, hoff]
    simp [unmarshalAttG, marshalAtt, hfirst, WErr.isOffset, unmarshalVersioned_marshal c h ⟨ver, val⟩]

/-- Witness codec: an inner object whose bytes 4..8 read 20 (an attestation for slot 20), a
decoder that is a perfect inverse of the encoder. -/
def slot20Codec : Codec Unit :=
  ⟨fun _ _ => [0xE4, 0, 0, 0, 20, 0, 0, 0], fun _ b => if b = [0xE4, 0, 0, 0, 20, 0, 0, 0] then .ok () else .error .other⟩

theorem slot20Codec_roundtrip : ∀ v x, slot20Codec.dec v (slot20Codec.enc v x) = .ok x := by
  intro v x; rfl

/-- PRE-FIX variant (before repo commit 2a43df9, D-15): with a perfectly invertible inner codec,
the index-less encoding of a value whose inner bytes 4..8 read 20 is rejected. -/
theorem unmarshalAttPrefix_marshal_noidx_fails :
    unmarshalAttPrefix slot20Codec (marshalAtt slot20Codec ⟨.deneb, none, ()⟩) = .error (.idx (.inner .other)) := by
  rfl

/-- … and the code as it is now decodes that witness. -/
theorem unmarshalAtt_marshal_noidx_witness :
    unmarshalAtt slot20Codec (marshalAtt slot20Codec ⟨.deneb, none, ()⟩) = .ok ⟨.deneb, none, ()⟩ := by
  rfl

theorem marshalVersioned_drop20 (c : Codec α) (ver : Ver) (val : α) :
    (marshalVersioned c ⟨ver, val⟩).drop 20 = (c.enc ver val).drop 8 := by
  rw [marshalVersioned_eq]
  have e1 := drop_app (le 8 ver.toNat) (le 4 12 ++ c.enc ver val) 12
  have e2 := drop_app (le 4 12) (c.enc ver val) 8
  simp only [le_length] at e1 e2
  exact e1.trans e2

/-- Round trip of an index-less attestation for the code as it is now: whatever the slot. The one
remaining hypothesis is about the INNER codec and is intrinsic to the wire format (the two forms
overlap, `marshalAtt_ambiguous`): if inner bytes 4..8 read 20, the inner decoder must not ACCEPT the
inner object shifted by 8 bytes (for go-eth2-client attestations the shifted object starts with the
high half of the slot where the offset word 228 / 236 is required). -/
theorem unmarshalAtt_marshal_noidx (c : Codec α) (h : ∀ v x, c.dec v (c.enc v x) = .ok x)
    (ver : Ver) (val : α)
    (hshift : leVal (slice (c.enc ver val) 4 8) = 20 → ∃ e, c.dec ver ((c.enc ver val).drop 8) = .error e) :
    unmarshalAtt c (marshalAtt c ⟨ver, none, val⟩) = .ok ⟨ver, none, val⟩ := by
  cases hfirst : unmarshalValIdx c (marshalVersioned c ⟨ver, val⟩) with
  | error e =>
    simp [unmarshalAtt, unmarshalAttG, marshalAtt, hfirst, unmarshalVersioned_marshal c h ⟨ver, val⟩]
  | ok r =>
    exfalso
    obtain ⟨hl, _, _, h20, hdec⟩ := unmarshalValIdx_ok c hfirst
    have hlen : (marshalVersioned c ⟨ver, val⟩).length = 12 + (c.enc ver val).length := by
      rw [marshalVersioned_eq]; simp [le_length]; omega
    have h8 : 8 ≤ (c.enc ver val).length := by omega
    obtain ⟨s1, s2, _⟩ := noidx_slice c ver val h8
    have hv : r.ver = ver := by
      obtain ⟨_, hv, _⟩ := unmarshalValIdx_ok c hfirst
      rw [s2, leVal_ver] at hv
      exact Ver.toNat_inj hv
    rw [s1] at h20
    obtain ⟨e, he⟩ := hshift h20
    rw [marshalVersioned_drop20, hv, he] at hdec
    cases hdec

/-- hypothesis under which an index-less value cannot be confused with an indexed one -/
def NoIdxSafe (c : Codec α) (x : VA α) : Prop :=
  x.idx = none → 8 ≤ (c.enc x.ver x.val).length ∧ leVal (slice (c.enc x.ver x.val) 4 8) ≠ 20

theorem att_mixed_absurd (c : Codec α) (v1 v2 : Ver) (x1 x2 : α) (j : Nat)
    (hs : 8 ≤ (c.enc v1 x1).length ∧ leVal (slice (c.enc v1 x1) 4 8) ≠ 20)
    (h : marshalVersioned c ⟨v1, x1⟩ = marshalValIdx c ⟨v2, j, x2⟩) : False := by
  obtain ⟨s1, _, _⟩ := noidx_slice c v1 x1 hs.1
  have p2 := parts3 (a := le 8 v2.toNat) (b := le 8 j) (c := le 4 20) (d := c.enc v2 x2)
    (le_length _ _) (le_length _ _) (le_length _ _)
  rw [h, marshalValIdx_eq] at s1
  have := p2.2.2.1
  simp only [Nat.reduceAdd] at this
  rw [this] at s1
  have h20 : leVal (le 4 20) = 20 := leVal_le_of_lt (by decide)
  exact hs.2 (by rw [← s1, h20])

theorem marshalAtt_injective_partial (c : Codec α) (hinj : ∀ v x y, c.enc v x = c.enc v y → x = y)
    {x y : VA α} (hx : ∀ i, x.idx = some i → i < 2 ^ 64) (hy : ∀ i, y.idx = some i → i < 2 ^ 64)
    (sx : NoIdxSafe c x) (sy : NoIdxSafe c y)
    (h : marshalAtt c x = marshalAtt c y) : x = y := by
  obtain ⟨v1, i1, x1⟩ := x
  obtain ⟨v2, i2, x2⟩ := y
  cases i1 with
  | none =>
    cases i2 with
    | none =>
      have := marshalVersioned_injective c hinj (x := ⟨v1, x1⟩) (y := ⟨v2, x2⟩) (by simpa [marshalAtt] using h)
      cases this; rfl
    | some j =>
      exact (att_mixed_absurd c v1 v2 x1 x2 j (sx rfl) (by simpa [marshalAtt] using h)).elim
  | some i =>
    cases i2 with
    | none =>
      exact (att_mixed_absurd c v2 v1 x2 x1 i (sy rfl) (by simpa [marshalAtt] using h.symm)).elim
    | some j =>
      have := marshalValIdx_injective c hinj (x := ⟨v1, i, x1⟩) (y := ⟨v2, j, x2⟩) (hx i rfl) (hy j rfl)
        (by simpa [marshalAtt] using h)
      cases this; rfl

/-- identity codec: injective and perfectly invertible -/
def idCodec : Codec Bytes := ⟨fun _ b => b, fun _ b => .ok b⟩

/-- Without that hypothesis the two wire forms of `VersionedAttestation` overlap: two different
values, one byte string (inner codec injective and invertible). -/
theorem marshalAtt_ambiguous :
    marshalAtt idCodec ⟨.deneb, none, [0xE4, 0, 0, 0, 20, 0, 0, 0, 1, 2, 3]⟩ =
    marshalAtt idCodec ⟨.deneb, some (12 + 2 ^ 32 * 0xE4), [1, 2, 3]⟩ := by
  rfl


/-! ### AttestationData / attesterDutySSZ -/

structure Duty.WF (d : Duty) : Prop where
  pk : d.pubkey.length = 48
  slot : d.slot < 2 ^ 64
  vi : d.validatorIndex < 2 ^ 64
  ci : d.committeeIndex < 2 ^ 64
  cl : d.committeeLength < 2 ^ 64
  cs : d.committeesAtSlot < 2 ^ 64
  vci : d.validatorCommitteeIndex < 2 ^ 64

theorem marshalDuty_length (d : Duty) (h : d.pubkey.length = 48) : (marshalDuty d).length = 96 := by
  simp [marshalDuty, le_length, h]

theorem slice_app' {a r : Bytes} {la n m n' m' : Nat} (ha : a.length = la) (hn : n' = la + n) (hm : m' = la + m) :
    slice (a ++ r) n' m' = slice r n m := by
  subst ha hn hm
  exact slice_app a r n m

theorem slice_head' {a r : Bytes} {la : Nat} (ha : a.length = la) : slice (a ++ r) 0 la = a := by
  subst ha
  exact slice_head a r

theorem le8_val {n : Nat} (h : n < 2 ^ 64) : leVal (le 8 n) = n := leVal_le_of_lt (by simpa using h)

/-- `attesterDutySSZ` round trip, trailing bytes ignored as the code does. -/
theorem unmarshalDuty_marshal (d : Duty) (wf : d.WF) (extra : Bytes) :
    unmarshalDuty (marshalDuty d ++ extra) = some d := by
  obtain ⟨pk, s, vi, ci, cl, cs, vci⟩ := d
  obtain ⟨hpk, hs, hvi, hci, hcl, hcs, hvci⟩ := wf
  simp only at hpk hs hvi hci hcl hcs hvci
  have hlen : ¬ (marshalDuty ⟨pk, s, vi, ci, cl, cs, vci⟩ ++ extra).length < 96 := by
    have := marshalDuty_length ⟨pk, s, vi, ci, cl, cs, vci⟩ hpk
    simp [this]
  have hb : marshalDuty ⟨pk, s, vi, ci, cl, cs, vci⟩ ++ extra =
      pk ++ (le 8 s ++ (le 8 vi ++ (le 8 ci ++ (le 8 cl ++ (le 8 cs ++ (le 8 vci ++ extra)))))) := by
    simp [marshalDuty]
  have l8 := fun n => le_length 8 n
  have f0 : slice (pk ++ (le 8 s ++ (le 8 vi ++ (le 8 ci ++ (le 8 cl ++ (le 8 cs ++ (le 8 vci ++ extra))))))) 0 48 = pk :=
    slice_head' hpk
  have f1 : slice (pk ++ (le 8 s ++ (le 8 vi ++ (le 8 ci ++ (le 8 cl ++ (le 8 cs ++ (le 8 vci ++ extra))))))) 48 56 = le 8 s := by
    rw [slice_app' hpk (n := 0) (m := 8) rfl rfl]; exact slice_head' (l8 _)
  have f2 : slice (pk ++ (le 8 s ++ (le 8 vi ++ (le 8 ci ++ (le 8 cl ++ (le 8 cs ++ (le 8 vci ++ extra))))))) 56 64 = le 8 vi := by
    rw [slice_app' hpk (n := 8) (m := 16) rfl rfl, slice_app' (l8 _) (n := 0) (m := 8) rfl rfl]; exact slice_head' (l8 _)
  have f3 : slice (pk ++ (le 8 s ++ (le 8 vi ++ (le 8 ci ++ (le 8 cl ++ (le 8 cs ++ (le 8 vci ++ extra))))))) 64 72 = le 8 ci := by
    rw [slice_app' hpk (n := 16) (m := 24) rfl rfl, slice_app' (l8 _) (n := 8) (m := 16) rfl rfl,
      slice_app' (l8 _) (n := 0) (m := 8) rfl rfl]; exact slice_head' (l8 _)
  have f4 : slice (pk ++ (le 8 s ++ (le 8 vi ++ (le 8 ci ++ (le 8 cl ++ (le 8 cs ++ (le 8 vci ++ extra))))))) 72 80 = le 8 cl := by
    rw [slice_app' hpk (n := 24) (m := 32) rfl rfl, slice_app' (l8 _) (n := 16) (m := 24) rfl rfl,
      slice_app' (l8 _) (n := 8) (m := 16) rfl rfl, slice_app' (l8 _) (n := 0) (m := 8) rfl rfl]; exact slice_head' (l8 _)
  have f5 : slice (pk ++ (le 8 s ++ (le 8 vi ++ (le 8 ci ++ (le 8 cl ++ (le 8 cs ++ (le 8 vci ++ extra))))))) 80 88 = le 8 cs := by
    rw [slice_app' hpk (n := 32) (m := 40) rfl rfl, slice_app' (l8 _) (n := 24) (m := 32) rfl rfl,
      slice_app' (l8 _) (n := 16) (m := 24) rfl rfl, slice_app' (l8 _) (n := 8) (m := 16) rfl rfl,
      slice_app' (l8 _) (n := 0) (m := 8) rfl rfl]; exact slice_head' (l8 _)
  have f6 : slice (pk ++ (le 8 s ++ (le 8 vi ++ (le 8 ci ++ (le 8 cl ++ (le 8 cs ++ (le 8 vci ++ extra))))))) 88 96 = le 8 vci := by
    rw [slice_app' hpk (n := 40) (m := 48) rfl rfl, slice_app' (l8 _) (n := 32) (m := 40) rfl rfl,
      slice_app' (l8 _) (n := 24) (m := 32) rfl rfl, slice_app' (l8 _) (n := 16) (m := 24) rfl rfl,
      slice_app' (l8 _) (n := 8) (m := 16) rfl rfl, slice_app' (l8 _) (n := 0) (m := 8) rfl rfl]; exact slice_head' (l8 _)
  unfold unmarshalDuty
  rw [if_neg (by simpa [dutySize] using hlen), hb, f0, f1, f2, f3, f4, f5, f6,
    le8_val hs, le8_val hvi, le8_val hci, le8_val hcl, le8_val hcs, le8_val hvci]

theorem unmarshalDuty_short {buf : Bytes} (h : buf.length < 96) : unmarshalDuty buf = none := by
  simp [unmarshalDuty, dutySize, h]

theorem marshalAttData_eq (c : CodecD α) (x : AttData α) :
    marshalAttData c x = le 4 8 ++ (le 4 (8 + (c.enc x.data).length) ++ (c.enc x.data ++ marshalDuty x.duty)) := by
  simp [marshalAttData, attDataHdr]

theorem unmarshalAttData_marshal (c : CodecD α) (h : ∀ x, c.dec (c.enc x) = .ok x) (x : AttData α)
    (wf : x.duty.WF) (hsz : 8 + (c.enc x.data).length < 2 ^ 32) :
    unmarshalAttData c (marshalAttData c x) = .ok x := by
  obtain ⟨data, duty⟩ := x
  simp only at wf hsz
  obtain ⟨h1, h2, h3, h4⟩ := parts3 (a := le 4 8) (b := le 4 (8 + (c.enc data).length)) (c := c.enc data)
    (d := marshalDuty duty) (le_length _ _) (le_length _ _) rfl
  have hlen : (le 4 8 ++ (le 4 (8 + (c.enc data).length) ++ (c.enc data ++ marshalDuty duty))).length
      = 8 + (c.enc data).length + 96 := by
    simp [le_length, marshalDuty_length _ wf.pk]; omega
  have e8 : leVal (le 4 8) = 8 := leVal_le_of_lt (by decide)
  have e1 : leVal (le 4 (8 + (c.enc data).length)) = 8 + (c.enc data).length := leVal_le_of_lt (by simpa using hsz)
  have hd : unmarshalDuty (marshalDuty duty) = some duty := by
    simpa using unmarshalDuty_marshal duty wf []
  rw [marshalAttData_eq]
  simp only [Nat.reduceAdd] at h2 h3 h4
  generalize (le 4 8 ++ (le 4 (8 + (c.enc data).length) ++ (c.enc data ++ marshalDuty duty))) = buf at h1 h2 h3 h4 hlen ⊢
  have n1 : ¬ (8 + (c.enc data).length + 96 < 8) := by omega
  have n2 : ¬ (8 + (c.enc data).length + 96 < 8 + (c.enc data).length) := by omega
  simp [unmarshalAttData, attDataHdr, hlen, h1, h2, h3, h4, e8, e1, h, hd, n1, n2]

theorem unmarshalAttData_short (c : CodecD α) {buf : Bytes} (h : buf.length < 8) :
    unmarshalAttData c buf = .error .size := by
  simp [unmarshalAttData, attDataHdr, h]

theorem unmarshalAttData_bad_offset0 (c : CodecD α) {buf : Bytes} (h : 8 ≤ buf.length)
    (ho : buf.length < leVal (slice buf 0 4) ∨ leVal (slice buf 0 4) < 8) :
    unmarshalAttData c buf = .error .offset0 := by
  have : ¬ buf.length < 8 := by omega
  simp [unmarshalAttData, attDataHdr, this, ho]

theorem unmarshalAttData_bad_offset1 (c : CodecD α) {buf : Bytes} (h : 8 ≤ buf.length)
    (h0 : ¬ (buf.length < leVal (slice buf 0 4) ∨ leVal (slice buf 0 4) < 8))
    (ho : buf.length < leVal (slice buf 4 8) ∨ leVal (slice buf 4 8) < leVal (slice buf 0 4)) :
    unmarshalAttData c buf = .error .offset1 := by
  have : ¬ buf.length < 8 := by omega
  simp only [not_or, Nat.not_lt] at h0
  have h0' : ¬ (buf.length < leVal (slice buf 0 4) ∨ 8 > leVal (slice buf 0 4)) := by omega
  simp [unmarshalAttData, attDataHdr, this, h0', ho]


/-! ### (b) marshal / unmarshal fallback -/

theorem hasJsonPrefix_nil : hasJsonPrefix [] = false := rfl

theorem hasJsonPrefix_brace (r : Bytes) : hasJsonPrefix (0x7B :: r) = true := by
  simp [hasJsonPrefix, trimLeft, trimLeftFuel, spaceLen]

theorem trimLeftFuel_nonspace {s : Bytes} (h : spaceLen s = 0) (f : Nat) : trimLeftFuel f s = s := by
  cases f with
  | zero => rfl
  | succ f => simp [trimLeftFuel, h]

theorem hasJsonPrefix_nonspace {b : UInt8} {r : Bytes} (hs : spaceLen (b :: r) = 0) (hb : b ≠ 0x7B) :
    hasJsonPrefix (b :: r) = false := by
  unfold hasJsonPrefix trimLeft
  rw [trimLeftFuel_nonspace hs]
  split
  · rename_i h; simp at h; exact absurd h.1 hb
  · rfl

theorem unmarshal_ssz_ok (e : Enc α) {data : Bytes} {x : α} (hs : e.isSSZ = true) (h : e.sszDec data = some x) :
    unmarshal e data = .sszOk x := by
  simp [unmarshal, hs, h]

theorem unmarshal_ssz_final (e : Enc α) {data : Bytes} (hs : e.isSSZ = true) (h : e.sszDec data = none)
    (hp : hasJsonPrefix data = false) : unmarshal e data = .sszErr := by
  simp [unmarshal, hs, h, hp]

theorem unmarshal_fallback (e : Enc α) {data : Bytes} (hs : e.isSSZ = true) (h : e.sszDec data = none)
    (hp : hasJsonPrefix data = true) : unmarshal e data = tryJson e data := by
  simp [unmarshal, hs, h, hp]

theorem unmarshal_json_only (e : Enc α) {data : Bytes} (hs : e.isSSZ = false) :
    unmarshal e data = tryJson e data := by
  simp [unmarshal, hs]

theorem jsonAttempted_iff' (e : Enc α) (data : Bytes) :
    jsonAttempted e data = (!e.isSSZ || ((e.sszDec data).isNone && hasJsonPrefix data)) := by
  unfold jsonAttempted unmarshal tryJson
  cases hs : e.isSSZ <;> simp
  · cases e.jsonDec data <;> rfl
  · cases hd : e.sszDec data <;> simp
    cases hp : hasJsonPrefix data <;> simp
    cases e.jsonDec data <;> rfl

theorem unmarshal_marshal_ssz' (e : Enc α) (x : α) (hs : e.isSSZ = true)
    (h : e.sszDec (e.sszEnc x) = some x) : unmarshal e (marshal e true x) = .sszOk x := by
  simp [marshal, hs, unmarshal, h]

theorem unmarshal_marshal_json_nonssz (e : Enc α) (x : α) (enabled : Bool) (hs : e.isSSZ = false)
    (h : e.jsonDec (e.jsonEnc x) = some x) : unmarshal e (marshal e enabled x) = .jsonOk x := by
  simp [marshal, hs, unmarshal, tryJson, h]

theorem unmarshal_marshal_json_ssz (e : Enc α) (x : α) (hs : e.isSSZ = true)
    (h : e.jsonDec (e.jsonEnc x) = some x) (hrej : e.sszDec (e.jsonEnc x) = none)
    (hp : hasJsonPrefix (e.jsonEnc x) = true) : unmarshal e (marshal e false x) = .jsonOk x := by
  simp [marshal, hs, unmarshal, tryJson, h, hrej, hp]

/-! ### (c) set encoders -/

section sets
variable {κ β γ : Type} [DecidableEq κ]

theorem get_filter_ne (m : AMap κ β) {k k' : κ} (h : k ≠ k') :
    get (m.filter (fun e => !decide (e.1 = k))) k' = get m k' := by
  induction m with
  | nil => rfl
  | cons e r ih =>
    obtain ⟨k0, v0⟩ := e
    by_cases h0 : k0 = k
    · subst h0
      simp [List.filter, get, h, ih]
    · simp [List.filter, h0, get, ih]

theorem get_put (m : AMap κ β) (k k' : κ) (v : β) :
    get (put m k v) k' = if k = k' then some v else get m k' := by
  unfold put
  by_cases h : k = k'
  · simp [get, h]
  · simp [get, h, get_filter_ne m h]

def keys (m : AMap κ β) : List κ := m.map (·.1)

omit [DecidableEq κ] in
theorem keys_nodup_perm {m₁ m₂ : AMap κ β} (p : m₁.Perm m₂) : (keys m₁).Nodup ↔ (keys m₂).Nodup :=
  List.Perm.nodup_iff (List.Perm.map (fun e : κ × β => e.1) p)

theorem get_none_of_not_mem (m : AMap κ β) {k : κ} (h : k ∉ keys m) : get m k = none := by
  induction m with
  | nil => rfl
  | cons e r ih =>
    obtain ⟨k0, v0⟩ := e
    simp [keys] at h
    have h1 : k0 ≠ k := fun e => h.1 e.symm
    simp [get, h1]
    apply ih
    simpa [keys] using h.2

theorem get_eq_some_iff (m : AMap κ β) (nd : (keys m).Nodup) (k : κ) (v : β) :
    get m k = some v ↔ (k, v) ∈ m := by
  induction m with
  | nil => simp [get]
  | cons e r ih =>
    obtain ⟨k0, v0⟩ := e
    simp [keys] at nd
    have ndr : (keys r).Nodup := by simpa [keys] using nd.2
    by_cases h0 : k0 = k
    · subst h0
      simp [get]
      constructor
      · intro h; exact Or.inl h.symm
      · intro h
        rcases h with h | h
        · exact h.symm
        · exact absurd h (nd.1 v)
    · simp [get, h0, ih ndr]
      intro h; exact absurd h.symm h0

theorem get_perm {m₁ m₂ : AMap κ β} (p : m₁.Perm m₂) (nd : (keys m₁).Nodup) (k : κ) :
    get m₁ k = get m₂ k := by
  have nd2 : (keys m₂).Nodup := (keys_nodup_perm p).mp nd
  apply Option.ext
  intro v
  rw [get_eq_some_iff m₁ nd, get_eq_some_iff m₂ nd2]
  exact p.mem_iff

theorem put_keys_nodup (m : AMap κ γ) (nd : (keys m).Nodup) (k : κ) (y : γ) : (keys (put m k y)).Nodup := by
  unfold put keys
  simp only [List.map_cons, List.nodup_cons]
  constructor
  · simp
  · have : (List.map (·.1) m).Nodup := nd
    exact (List.Nodup.sublist ((List.filter_sublist).map _) this)

/-- the loop succeeds iff every element encodes; then the result maps `k` to `f v` for the
entry `(k, v)` of `iter`, other keys keep the accumulator's value. -/
theorem loopSet_spec (f : β → Option γ) (iter : List (κ × β)) (nd : (keys iter).Nodup) (acc : AMap κ γ)
    (hall : ∀ e ∈ iter, (f e.2).isSome) :
    ∃ r, loopSet f iter acc = some r ∧
      ∀ k, get r k = match get iter k with | some v => f v | none => get acc k := by
  induction iter generalizing acc with
  | nil => exact ⟨acc, rfl, fun k => rfl⟩
  | cons e rest ih =>
    obtain ⟨k0, v0⟩ := e
    have h0 := hall (k0, v0) (by simp)
    obtain ⟨y0, hy0⟩ := Option.isSome_iff_exists.mp h0
    simp [keys] at nd
    have ndr : (keys rest).Nodup := by simpa [keys] using nd.2
    obtain ⟨r, hr, hget⟩ := ih ndr (put acc k0 y0) (fun e he => hall e (by simp [he]))
    refine ⟨r, by simp [loopSet, hy0, hr], ?_⟩
    intro k
    rw [hget k]
    by_cases hk : k0 = k
    · subst hk
      have : get rest k0 = none := get_none_of_not_mem rest (by simpa [keys] using nd.1)
      simp [this, get, get_put, hy0]
    · simp [get, hk, get_put]

theorem loopSet_none (f : β → Option γ) (iter : List (κ × β)) (acc : AMap κ γ)
    (hbad : ∃ e ∈ iter, f e.2 = none) : loopSet f iter acc = none := by
  induction iter generalizing acc with
  | nil => simp at hbad
  | cons e rest ih =>
    obtain ⟨k0, v0⟩ := e
    cases hf : f v0 with
    | none => simp [loopSet, hf]
    | some y =>
      simp only [loopSet, hf]
      apply ih
      obtain ⟨e', he', hn⟩ := hbad
      simp at he'
      rcases he' with rfl | he'
      · simp [hf] at hn
      · exact ⟨e', he', hn⟩

theorem loopSet_keys_nodup (f : β → Option γ) (iter : List (κ × β)) (acc r : AMap κ γ)
    (nd : (keys acc).Nodup) (h : loopSet f iter acc = some r) : (keys r).Nodup := by
  induction iter generalizing acc with
  | nil => simp [loopSet] at h; subst h; exact nd
  | cons e rest ih =>
    obtain ⟨k0, v0⟩ := e
    cases hf : f v0 with
    | none => simp [loopSet, hf] at h
    | some y =>
      simp only [loopSet, hf] at h
      exact ih (put acc k0 y) (put_keys_nodup acc nd k0 y) h

omit [DecidableEq κ] in
theorem all_or_bad (f : β → Option γ) (iter : List (κ × β)) :
    (∀ e ∈ iter, (f e.2).isSome) ∨ (∃ e ∈ iter, f e.2 = none) := by
  induction iter with
  | nil => left; intro e he; simp at he
  | cons e r ih =>
    cases hf : f e.2 with
    | none => right; exact ⟨e, by simp, hf⟩
    | some y =>
      rcases ih with h | ⟨e', he', hn⟩
      · left
        intro e' he'
        simp at he'
        rcases he' with rfl | he'
        · simp [hf]
        · exact h e' he'
      · right; exact ⟨e', by simp [he'], hn⟩

/-- encode result (success/failure and the resulting map) does not depend on iteration order -/
theorem encodeSet_perm (f : β → Option γ) {it₁ it₂ : List (κ × β)} (p : it₁.Perm it₂) (nd : (keys it₁).Nodup) :
    (encodeSet f it₁ = none ∧ encodeSet f it₂ = none) ∨
    (∃ r₁ r₂, encodeSet f it₁ = some r₁ ∧ encodeSet f it₂ = some r₂ ∧ ∀ k, get r₁ k = get r₂ k) := by
  have nd2 : (keys it₂).Nodup := (keys_nodup_perm p).mp nd
  rcases all_or_bad f it₁ with hall | hbad
  · right
    have hall2 : ∀ e ∈ it₂, (f e.2).isSome := fun e he => hall e (p.mem_iff.mpr he)
    obtain ⟨r₁, h1, g1⟩ := loopSet_spec f it₁ nd [] hall
    obtain ⟨r₂, h2, g2⟩ := loopSet_spec f it₂ nd2 [] hall2
    refine ⟨r₁, r₂, h1, h2, fun k => ?_⟩
    rw [g1 k, g2 k, get_perm p nd k]
  · left
    have hbad2 : ∃ e ∈ it₂, f e.2 = none := by
      obtain ⟨e, he, hn⟩ := hbad
      exact ⟨e, p.mem_iff.mp he, hn⟩
    exact ⟨loopSet_none f it₁ [] hbad, loopSet_none f it₂ [] hbad2⟩

/-- decode ∘ encode = id on the map content, for every pair of iteration orders. -/
theorem decode_encode_set (enc : β → Option γ) (dec : γ → Option β) (entries : List (κ × β))
    (nd : (keys entries).Nodup) (hne : entries ≠ [])
    (hrt : ∀ e ∈ entries, ∃ y, enc e.2 = some y ∧ dec y = some e.2)
    (it₁ : List (κ × β)) (p₁ : it₁.Perm entries) :
    ∃ E, encodeSet enc it₁ = some E ∧
      ∀ it₂ : List (κ × γ), it₂.Perm E →
        ∃ D, decodeSet dec it₂ = some D ∧ ∀ k, get D k = get entries k := by
  have nd1 : (keys it₁).Nodup := (keys_nodup_perm p₁).mpr nd
  have hall : ∀ e ∈ it₁, (enc e.2).isSome := by
    intro e he
    obtain ⟨y, hy, _⟩ := hrt e (p₁.mem_iff.mp he)
    simp [hy]
  obtain ⟨E, hE, gE⟩ := loopSet_spec enc it₁ nd1 [] hall
  refine ⟨E, hE, ?_⟩
  intro it₂ p₂
  have ndE : (keys E).Nodup := loopSet_keys_nodup enc it₁ [] E (by simp [keys]) hE
  have nd2 : (keys it₂).Nodup := (keys_nodup_perm p₂).mpr ndE
  -- every entry of E is the encoding of the entry of `entries` with the same key
  have hE' : ∀ k y, (k, y) ∈ E → ∃ v, (k, v) ∈ entries ∧ enc v = some y := by
    intro k y hm
    have := (get_eq_some_iff E ndE k y).mpr hm
    rw [gE k] at this
    cases hg : get it₁ k with
    | none => simp [hg, get] at this
    | some v =>
      simp [hg] at this
      exact ⟨v, p₁.mem_iff.mp ((get_eq_some_iff it₁ nd1 k v).mp hg), this⟩
  have hall2 : ∀ e ∈ it₂, (dec e.2).isSome := by
    intro e he
    obtain ⟨v, hv, hy⟩ := hE' e.1 e.2 (p₂.mem_iff.mp he)
    obtain ⟨y', hy', hd⟩ := hrt (e.1, v) hv
    simp only at hy' hd
    rw [hy] at hy'
    cases hy'
    simp [hd]
  obtain ⟨D, hD, gD⟩ := loopSet_spec dec it₂ nd2 [] hall2
  have hne2 : it₂ ≠ [] := by
    intro h0
    subst h0
    have hE0 : E = [] := by simpa using p₂.symm
    subst hE0
    cases entries with
    | nil => exact hne rfl
    | cons e r =>
      obtain ⟨k0, v0⟩ := e
      obtain ⟨y, hy, _⟩ := hrt (k0, v0) (by simp)
      have g := gE k0
      have : get it₁ k0 = some v0 := by
        rw [get_perm p₁ nd1 k0]; simp [get]
      simp [this, get, hy] at g
  refine ⟨D, by simp [decodeSet, hne2, hD], fun k => ?_⟩
  rw [gD k, get_perm p₂ nd2 k, gE k, get_perm p₁ nd1 k]
  cases hg : get entries k with
  | none => simp [get]
  | some v =>
    obtain ⟨y, hy, hd⟩ := hrt (k, v) ((get_eq_some_iff entries nd k v).mp hg)
    simp [hy, hd]

theorem decodeSet_empty (dec : γ → Option β) : decodeSet (κ := κ) dec [] = none := rfl

/-! ### (d) hashProto -/

theorem hashProto_perm (enc : β → Option γ) (ser : AMap κ γ → Bytes) (h : Bytes → Bytes)
    (hser : ∀ m₁ m₂ : AMap κ γ, (∀ k, get m₁ k = get m₂ k) → ser m₁ = ser m₂)
    {it₁ it₂ : List (κ × β)} (p : it₁.Perm it₂) (nd : (keys it₁).Nodup) :
    (encodeSet enc it₁).map (hashProto ser h) = (encodeSet enc it₂).map (hashProto ser h) := by
  rcases encodeSet_perm enc p nd with ⟨h1, h2⟩ | ⟨r₁, r₂, h1, h2, hg⟩
  · simp [h1, h2]
  · simp [h1, h2, hashProto, hser r₁ r₂ hg]

end sets

end CharonV.SszWrap
