/-
Helper lemmas for the receive side of `dkg/frostp2p.go` (`Model/FrostP2P.lean`): invariants of the
callbacks, completeness for genuine messages, the collect loops, pigeonhole.
-/
import CharonV.Model.FrostP2P
import Mathlib.Order.Interval.Finset.Nat
import Mathlib.Data.Finset.Card

namespace CharonV.FrostP2P

/-! ### pigeonhole on sender lists -/

theorem length_le_of_nodup_members (n : ℕ) (l : List ℕ) (hnd : l.Nodup)
    (hm : ∀ x ∈ l, 1 ≤ x ∧ x ≤ n) : l.length ≤ n := by
  have hsub : l.toFinset ⊆ Finset.Icc 1 n := by
    intro x hx
    rw [List.mem_toFinset] at hx
    exact Finset.mem_Icc.mpr (hm x hx)
  have := Finset.card_le_card hsub
  rwa [List.toFinset_card_of_nodup hnd, Nat.card_Icc, Nat.add_sub_cancel] at this

theorem covers_of_nodup_members (n : ℕ) (l : List ℕ) (hnd : l.Nodup)
    (hm : ∀ x ∈ l, 1 ≤ x ∧ x ≤ n) (hlen : l.length = n) (p : ℕ) (hp : 1 ≤ p ∧ p ≤ n) : p ∈ l := by
  have hsub : l.toFinset ⊆ Finset.Icc 1 n := by
    intro x hx
    rw [List.mem_toFinset] at hx
    exact Finset.mem_Icc.mpr (hm x hx)
  have hcard : (Finset.Icc 1 n).card ≤ l.toFinset.card := by
    rw [List.toFinset_card_of_nodup hnd, Nat.card_Icc, Nat.add_sub_cancel, hlen]
  have heq := Finset.eq_of_subset_of_card_le hsub hcard
  have : p ∈ l.toFinset := by rw [heq]; exact Finset.mem_Icc.mpr hp
  exact List.mem_toFinset.mp this

theorem length_le_of_nodup_others (n self : ℕ) (hs : 1 ≤ self ∧ self ≤ n) (l : List ℕ) (hnd : l.Nodup)
    (hm : ∀ x ∈ l, (1 ≤ x ∧ x ≤ n) ∧ x ≠ self) : l.length ≤ n - 1 := by
  have hsub : l.toFinset ⊆ (Finset.Icc 1 n).erase self := by
    intro x hx
    rw [List.mem_toFinset] at hx
    exact Finset.mem_erase.mpr ⟨(hm x hx).2, Finset.mem_Icc.mpr (hm x hx).1⟩
  have := Finset.card_le_card hsub
  rwa [List.toFinset_card_of_nodup hnd, Finset.card_erase_of_mem (Finset.mem_Icc.mpr hs),
    Nat.card_Icc, Nat.add_sub_cancel] at this

theorem covers_of_nodup_others (n self : ℕ) (hs : 1 ≤ self ∧ self ≤ n) (l : List ℕ) (hnd : l.Nodup)
    (hm : ∀ x ∈ l, (1 ≤ x ∧ x ≤ n) ∧ x ≠ self) (hlen : l.length = n - 1) (p : ℕ)
    (hp : (1 ≤ p ∧ p ≤ n) ∧ p ≠ self) : p ∈ l := by
  have hsub : l.toFinset ⊆ (Finset.Icc 1 n).erase self := by
    intro x hx
    rw [List.mem_toFinset] at hx
    exact Finset.mem_erase.mpr ⟨(hm x hx).2, Finset.mem_Icc.mpr (hm x hx).1⟩
  have hcard : ((Finset.Icc 1 n).erase self).card ≤ l.toFinset.card := by
    rw [List.toFinset_card_of_nodup hnd, Finset.card_erase_of_mem (Finset.mem_Icc.mpr hs),
      Nat.card_Icc, Nat.add_sub_cancel, hlen]
  have heq := Finset.eq_of_subset_of_card_le hsub hcard
  have : p ∈ l.toFinset := by
    rw [heq]; exact Finset.mem_erase.mpr ⟨hp.2, Finset.mem_Icc.mpr hp.1⟩
  exact List.mem_toFinset.mp this

theorem isMember_iff (c : Cfg) (p : ℕ) : isMember c p = true ↔ 1 ≤ p ∧ p ≤ c.n := by
  simp [isMember]

/-! ### callback invariants -/

/-- every queued message was accepted from a member whose entries passed validation, its sender is
marked, and no two queued messages have the same sender. -/
structure Inv (c : Cfg) (tgt : ℕ) (commits : Option ℕ) (s : Chan) : Prop where
  marked : ∀ m ∈ s.queue, m.sender ∈ s.seen
  member : ∀ m ∈ s.queue, isMember c m.sender = true
  valid  : ∀ m ∈ s.queue, firstErr c m.sender tgt commits m.entries = none
  nodup  : (s.queue.map (·.sender)).Nodup

theorem inv_empty (c : Cfg) (tgt : ℕ) (commits : Option ℕ) : Inv c tgt commits {} :=
  ⟨by simp, by simp, by simp, by simp⟩

theorem bcastCb_inv (c : Cfg) (commits : Option ℕ) (s : Chan) (m : Msg) (h : Inv c 0 commits s) :
    Inv c 0 commits (bcastCb c commits s m).1 := by
  unfold bcastCb
  by_cases hs : m.sender ∈ s.seen
  · simp only [hs, if_true]; exact h
  · simp only [hs, if_false]
    by_cases hm : isMember c m.sender = true
    · simp only [hm, Bool.not_true, Bool.false_eq_true, if_false]
      cases hv : firstErr c m.sender 0 commits m.entries with
      | some e =>
        exact ⟨fun x hx => List.mem_cons_of_mem _ (h.marked x hx), h.member, h.valid, h.nodup⟩
      | none =>
        refine ⟨?_, ?_, ?_, ?_⟩
        · intro x hx
          rcases List.mem_append.mp hx with hx | hx
          · exact List.mem_cons_of_mem _ (h.marked x hx)
          · rw [List.mem_singleton.mp hx]; exact List.mem_cons_self
        · intro x hx
          rcases List.mem_append.mp hx with hx | hx
          · exact h.member x hx
          · rw [List.mem_singleton.mp hx]; exact hm
        · intro x hx
          rcases List.mem_append.mp hx with hx | hx
          · exact h.valid x hx
          · rw [List.mem_singleton.mp hx]; exact hv
        · show ((s.queue ++ [m]).map (·.sender)).Nodup
          rw [List.map_append, List.nodup_append]
          refine ⟨h.nodup, by simp, ?_⟩
          intro a ha b hb
          simp only [List.map_cons, List.map_nil, List.mem_singleton] at hb
          subst hb
          obtain ⟨x, hx, rfl⟩ := List.mem_map.mp ha
          intro heq
          exact hs (heq ▸ h.marked x hx)
    · have hm' : isMember c m.sender = false := by simpa using hm
      simp only [hm', Bool.not_false, if_true]
      exact ⟨fun x hx => List.mem_cons_of_mem _ (h.marked x hx), h.member, h.valid, h.nodup⟩

theorem p2pCb_inv (c : Cfg) (s : Chan) (m : Msg) (h : Inv c c.self none s) :
    Inv c c.self none (p2pCb c s m).1 := by
  unfold p2pCb
  by_cases hm : isMember c m.sender = true
  · simp only [hm, Bool.not_true, Bool.false_eq_true, if_false]
    cases hv : firstErr c m.sender c.self none m.entries with
    | some e => exact h
    | none =>
      by_cases hs : m.sender ∈ s.seen
      · simp only [hs, if_true]; exact h
      · simp only [hs, if_false]
        refine ⟨?_, ?_, ?_, ?_⟩
        · intro x hx
          rcases List.mem_append.mp hx with hx | hx
          · exact List.mem_cons_of_mem _ (h.marked x hx)
          · rw [List.mem_singleton.mp hx]; exact List.mem_cons_self
        · intro x hx
          rcases List.mem_append.mp hx with hx | hx
          · exact h.member x hx
          · rw [List.mem_singleton.mp hx]; exact hm
        · intro x hx
          rcases List.mem_append.mp hx with hx | hx
          · exact h.valid x hx
          · rw [List.mem_singleton.mp hx]; exact hv
        · show ((s.queue ++ [m]).map (·.sender)).Nodup
          rw [List.map_append, List.nodup_append]
          refine ⟨h.nodup, by simp, ?_⟩
          intro a ha b hb
          simp only [List.map_cons, List.map_nil, List.mem_singleton] at hb
          subst hb
          obtain ⟨x, hx, rfl⟩ := List.mem_map.mp ha
          intro heq
          exact hs (heq ▸ h.marked x hx)
  · have hm' : isMember c m.sender = false := by simpa using hm
    simp only [hm', Bool.not_false, if_true]
    exact h

theorem runCb_inv {P : Chan → Prop} (cb : Chan → Msg → Chan × Res)
    (hstep : ∀ s m, P s → P (cb s m).1) (ms : List Msg) : ∀ s, P s → P (runCb cb s ms) := by
  induction ms with
  | nil => intro s h; exact h
  | cons m rest ih => intro s h; exact ih _ (hstep s m h)

/-- the queue only grows, by delivered messages. -/
theorem bcastCb_queue (c : Cfg) (commits : Option ℕ) (s : Chan) (m : Msg) :
    (bcastCb c commits s m).1.queue = s.queue ∨ (bcastCb c commits s m).1.queue = s.queue ++ [m] := by
  unfold bcastCb
  by_cases hs : m.sender ∈ s.seen
  · simp [hs]
  · by_cases hm : isMember c m.sender = true
    · cases hv : firstErr c m.sender 0 commits m.entries <;> simp [hs, hm]
    · have hm' : isMember c m.sender = false := by simpa using hm
      simp [hs, hm']

theorem p2pCb_queue (c : Cfg) (s : Chan) (m : Msg) :
    (p2pCb c s m).1.queue = s.queue ∨ (p2pCb c s m).1.queue = s.queue ++ [m] := by
  unfold p2pCb
  by_cases hm : isMember c m.sender = true
  · cases hv : firstErr c m.sender c.self none m.entries with
    | some e => simp [hm]
    | none => by_cases hs : m.sender ∈ s.seen <;> simp [hm, hs]
  · have hm' : isMember c m.sender = false := by simpa using hm
    simp [hm']

theorem runCb_queue_mono (cb : Chan → Msg → Chan × Res)
    (hq : ∀ s m, (cb s m).1.queue = s.queue ∨ (cb s m).1.queue = s.queue ++ [m]) (ms : List Msg) :
    ∀ s x, x ∈ s.queue → x ∈ (runCb cb s ms).queue := by
  induction ms with
  | nil => intro s x h; exact h
  | cons m rest ih =>
    intro s x h
    refine ih _ x ?_
    rcases hq s m with h' | h' <;> rw [h']
    · exact h
    · exact List.mem_append_left _ h

theorem runCb_queue_sound (cb : Chan → Msg → Chan × Res)
    (hq : ∀ s m, (cb s m).1.queue = s.queue ∨ (cb s m).1.queue = s.queue ++ [m]) (ms : List Msg) :
    ∀ s x, x ∈ (runCb cb s ms).queue → x ∈ s.queue ∨ x ∈ ms := by
  induction ms with
  | nil => intro s x h; exact Or.inl h
  | cons m rest ih =>
    intro s x h
    rcases ih _ x h with h1 | h1
    · rcases hq s m with h' | h' <;> rw [h'] at h1
      · exact Or.inl h1
      · rcases List.mem_append.mp h1 with h2 | h2
        · exact Or.inl h2
        · exact Or.inr (by rw [List.mem_singleton.mp h2]; exact List.mem_cons_self)
    · exact Or.inr (List.mem_cons_of_mem _ h1)

theorem bcastCb_marks (c : Cfg) (commits : Option ℕ) (s : Chan) (m : Msg) :
    m.sender ∈ (bcastCb c commits s m).1.seen := by
  unfold bcastCb
  by_cases hsn : m.sender ∈ s.seen
  · simp [hsn]
  · by_cases hm : isMember c m.sender = true
    · cases hv : firstErr c m.sender 0 commits m.entries <;> simp [hsn, hm]
    · have hm' : isMember c m.sender = false := by simpa using hm
      simp [hsn, hm']

/-! ### completeness: a delivered genuine message is queued -/

/-- bcast branch: once a member's sender id is marked its genuine message is queued — provided
every message bearing a member's id is that member's genuine (valid) message. -/
theorem bcast_complete (c : Cfg) (commits : Option ℕ) (gen : ℕ → Msg)
    (hgs : ∀ p, (gen p).sender = p)
    (hgv : ∀ p, isMember c p = true → firstErr c p 0 commits (gen p).entries = none)
    (ms : List Msg) (hon : ∀ m ∈ ms, isMember c m.sender = true → m = gen m.sender) :
    ∀ s, (∀ p, isMember c p = true → p ∈ s.seen → gen p ∈ s.queue) →
      ∀ p, isMember c p = true → gen p ∈ ms → gen p ∈ (runCb (bcastCb c commits) s ms).queue := by
  induction ms with
  | nil => intro s _ p _ h; simp at h
  | cons m rest ih =>
    intro s hs p hp hmem
    have hon' : ∀ m' ∈ rest, isMember c m'.sender = true → m' = gen m'.sender :=
      fun m' h => hon m' (List.mem_cons_of_mem _ h)
    -- the step preserves the hypothesis on `seen`
    have hs' : ∀ q, isMember c q = true → q ∈ (bcastCb c commits s m).1.seen →
        gen q ∈ (bcastCb c commits s m).1.queue := by
      intro q hq hseen
      unfold bcastCb at hseen ⊢
      by_cases hsn : m.sender ∈ s.seen
      · simp only [hsn, if_true] at hseen ⊢; exact hs q hq hseen
      · simp only [hsn, if_false] at hseen ⊢
        by_cases hm : isMember c m.sender = true
        · have hmg := hon m List.mem_cons_self hm
          have hv : firstErr c m.sender 0 commits m.entries = none := by
            have := hgv m.sender hm; rwa [← hmg] at this
          simp only [hm, Bool.not_true, Bool.false_eq_true, if_false, hv] at hseen ⊢
          rcases List.mem_cons.mp hseen with h1 | h1
          · show gen q ∈ s.queue ++ [m]
            rw [h1, ← hmg]; simp
          · exact List.mem_append_left _ (hs q hq h1)
        · have hm' : isMember c m.sender = false := by simpa using hm
          simp only [hm', Bool.not_false, if_true] at hseen ⊢
          rcases List.mem_cons.mp hseen with h1 | h1
          · rw [h1] at hq; rw [hq] at hm'; cases hm'
          · exact hs q hq h1
    rcases List.mem_cons.mp hmem with h1 | h1
    · -- the genuine message is delivered now: afterwards its sender is marked
      have hseen : p ∈ (bcastCb c commits s m).1.seen := by
        have hsend : m.sender = p := by rw [← h1]; exact hgs p
        exact hsend ▸ bcastCb_marks c commits s m
      exact runCb_queue_mono _ (bcastCb_queue c commits) rest _ _ (hs' p hp hseen)
    · exact ih hon' _ hs' p hp h1

/-- p2p callback: a delivered genuine share message is queued, whatever invalid messages (from
anyone) are interleaved — provided every *valid* message bearing a member's id is genuine. -/
theorem p2p_complete (c : Cfg) (gen : ℕ → Msg)
    (hgs : ∀ p, (gen p).sender = p)
    (hgv : ∀ p, isMember c p = true → firstErr c p c.self none (gen p).entries = none)
    (ms : List Msg)
    (hon : ∀ m ∈ ms, isMember c m.sender = true →
      firstErr c m.sender c.self none m.entries = none → m = gen m.sender) :
    ∀ s, (∀ p, isMember c p = true → p ∈ s.seen → gen p ∈ s.queue) →
      ∀ p, isMember c p = true → gen p ∈ ms → gen p ∈ (runCb (p2pCb c) s ms).queue := by
  induction ms with
  | nil => intro s _ p _ h; simp at h
  | cons m rest ih =>
    intro s hs p hp hmem
    have hon' : ∀ m' ∈ rest, isMember c m'.sender = true →
        firstErr c m'.sender c.self none m'.entries = none → m' = gen m'.sender :=
      fun m' h => hon m' (List.mem_cons_of_mem _ h)
    have hs' : ∀ q, isMember c q = true → q ∈ (p2pCb c s m).1.seen →
        gen q ∈ (p2pCb c s m).1.queue := by
      intro q hq hseen
      unfold p2pCb at hseen ⊢
      by_cases hm : isMember c m.sender = true
      · cases hv : firstErr c m.sender c.self none m.entries with
        | some e =>
          simp only [hm, Bool.not_true, Bool.false_eq_true, if_false, hv] at hseen ⊢
          exact hs q hq hseen
        | none =>
          have hmg := hon m List.mem_cons_self hm hv
          by_cases hsn : m.sender ∈ s.seen
          · simp only [hm, Bool.not_true, Bool.false_eq_true, if_false, hv, hsn, if_true] at hseen ⊢
            exact hs q hq hseen
          · simp only [hm, Bool.not_true, Bool.false_eq_true, if_false, hv, hsn] at hseen ⊢
            rcases List.mem_cons.mp hseen with h1 | h1
            · rw [h1, ← hmg]; simp
            · exact List.mem_append_left _ (hs q hq h1)
      · have hm' : isMember c m.sender = false := by simpa using hm
        simp only [hm', Bool.not_false, if_true] at hseen ⊢
        exact hs q hq hseen
    rcases List.mem_cons.mp hmem with h1 | h1
    · have hsend : m.sender = p := by rw [← h1]; exact hgs p
      have hm : isMember c m.sender = true := hsend ▸ hp
      have hv : firstErr c m.sender c.self none m.entries = none := by
        rw [← h1] at hsend ⊢; rw [hgs p]; exact hgv p hp
      have hq : gen p ∈ (p2pCb c s m).1.queue := by
        unfold p2pCb
        by_cases hsn : m.sender ∈ s.seen
        · simp only [hm, Bool.not_true, Bool.false_eq_true, if_false, hv, hsn, if_true]
          exact hs p hp (hsend ▸ hsn)
        · simp only [hm, Bool.not_true, Bool.false_eq_true, if_false, hv, hsn]
          rw [← h1]; simp
      exact runCb_queue_mono _ (p2pCb_queue c) rest _ _ hq
    · exact ih hon' _ hs' p hp h1

/-! ### collect loop of Round1 -/

def castsOf (evs : List (Bool × Msg)) : List Msg := (evs.filter (·.1)).map (·.2)
def p2psOf (evs : List (Bool × Msg)) : List Msg := (evs.filter (fun e => !e.1)).map (·.2)

/-- If at most `n` casts and `n-1` shares ever arrive, the loop never reports "too many", a result
has exactly `n` and `n-1` messages, each a prefix of what arrived, and while it waits it holds
everything that arrived. -/
theorem collect1_shape (n : ℕ) (evs : List (Bool × Msg)) : ∀ cs ps : List Msg,
    (cs ++ castsOf evs).length ≤ n → (ps ++ p2psOf evs).length ≤ n - 1 →
    (∃ cs' ps', collect1 n evs cs ps = .done cs' ps' ∧ cs'.length = n ∧ ps'.length = n - 1 ∧
        cs' <+: cs ++ castsOf evs ∧ ps' <+: ps ++ p2psOf evs) ∨
    collect1 n evs cs ps = .waiting (cs ++ castsOf evs) (ps ++ p2psOf evs) := by
  induction evs with
  | nil => intro cs ps _ _; right; simp [collect1, castsOf, p2psOf]
  | cons e rest ih =>
    intro cs ps hc hp
    obtain ⟨b, m⟩ := e
    cases b with
    | true =>
      have hco : castsOf ((true, m) :: rest) = m :: castsOf rest := by simp [castsOf]
      have hpo : p2psOf ((true, m) :: rest) = p2psOf rest := by simp [p2psOf]
      rw [hco] at hc ⊢; rw [hpo] at hp ⊢
      have hc' : ((cs ++ [m]) ++ castsOf rest).length ≤ n := by simpa using hc
      have hlen : ¬ (cs ++ [m]).length > n := by
        have : (cs ++ [m]).length ≤ ((cs ++ [m]) ++ castsOf rest).length := by simp
        omega
      simp only [collect1, hlen, if_false]
      by_cases hd : (cs ++ [m]).length = n ∧ ps.length = n - 1
      · left
        simp only [hd, and_self, if_true]
        refine ⟨cs ++ [m], ps, rfl, hd.1, hd.2, ?_, List.prefix_append _ _⟩
        have : cs ++ m :: castsOf rest = (cs ++ [m]) ++ castsOf rest := by simp
        rw [this]; exact List.prefix_append _ _
      · simp only [hd, if_false]
        have : cs ++ m :: castsOf rest = (cs ++ [m]) ++ castsOf rest := by simp
        rw [this]
        exact ih (cs ++ [m]) ps hc' hp
    | false =>
      have hco : castsOf ((false, m) :: rest) = castsOf rest := by simp [castsOf]
      have hpo : p2psOf ((false, m) :: rest) = m :: p2psOf rest := by simp [p2psOf]
      rw [hco] at hc ⊢; rw [hpo] at hp ⊢
      have hp' : ((ps ++ [m]) ++ p2psOf rest).length ≤ n - 1 := by simpa using hp
      have hlen : ¬ (ps ++ [m]).length > n - 1 := by
        have : (ps ++ [m]).length ≤ ((ps ++ [m]) ++ p2psOf rest).length := by simp
        omega
      simp only [collect1, hlen, if_false]
      by_cases hd : cs.length = n ∧ (ps ++ [m]).length = n - 1
      · left
        simp only [hd, and_self, if_true]
        refine ⟨cs, ps ++ [m], rfl, hd.1, hd.2, List.prefix_append _ _, ?_⟩
        have : ps ++ m :: p2psOf rest = (ps ++ [m]) ++ p2psOf rest := by simp
        rw [this]; exact List.prefix_append _ _
      · simp only [hd, if_false]
        have : ps ++ m :: p2psOf rest = (ps ++ [m]) ++ p2psOf rest := by simp
        rw [this]
        exact ih cs (ps ++ [m]) hc hp'

end CharonV.FrostP2P

namespace CharonV.FrostP2P

open CharonV.FrostGlue

theorem collect1_waiting_incomplete (n : ℕ) (evs : List (Bool × Msg)) : ∀ cs ps cs' ps' : List Msg,
    ¬ (cs.length = n ∧ ps.length = n - 1) → collect1 n evs cs ps = .waiting cs' ps' →
    ¬ (cs'.length = n ∧ ps'.length = n - 1) := by
  induction evs with
  | nil =>
    intro cs ps cs' ps' h hw
    simp only [collect1, CRes.waiting.injEq] at hw
    rw [← hw.1, ← hw.2]; exact h
  | cons e rest ih =>
    intro cs ps cs' ps' h hw
    obtain ⟨b, m⟩ := e
    cases b with
    | true =>
      simp only [collect1] at hw
      split at hw
      · cases hw
      · split at hw
        · cases hw
        · rename_i h2
          exact ih _ _ _ _ h2 hw
    | false =>
      simp only [collect1] at hw
      split at hw
      · cases hw
      · split at hw
        · cases hw
        · rename_i h2
          exact ih _ _ _ _ h2 hw

/-- entries that all carry the sender as source, the required target, a validator index in range
and the required number of commitments pass validation. -/
theorem firstErr_none_of_all (c : Cfg) (sender tgt : ℕ) (commits : Option ℕ) (es : List Entry)
    (h : ∀ e ∈ es, e.key.sourceID = sender ∧ e.key.targetID = tgt ∧ e.key.valIdx < c.nv ∧
      ∀ t, commits = some t → e.commits = t) : firstErr c sender tgt commits es = none := by
  induction es with
  | nil => rfl
  | cons e rest ih =>
    have he := h e List.mem_cons_self
    have hr := ih fun e' h' => h e' (List.mem_cons_of_mem _ h')
    unfold firstErr
    have h3 : ¬ e.key.valIdx ≥ c.nv := by omega
    simp only [he.1, he.2.1, ne_eq, not_true_eq_false, if_false, h3]
    cases commits with
    | none => exact hr
    | some t => simp [he.2.2.2 t rfl, hr]

theorem genCast1_valid (c : Cfg) (p : ℕ) : firstErr c p 0 (some c.t) (genCast1 c p).entries = none := by
  refine firstErr_none_of_all c p 0 _ _ fun e he => ?_
  simp only [genCast1, List.mem_map, List.mem_range] at he
  obtain ⟨v, hv, rfl⟩ := he
  exact ⟨rfl, rfl, hv, fun t ht => by simpa using ht⟩

theorem genCast2_valid (c : Cfg) (p : ℕ) : firstErr c p 0 none (genCast2 c p).entries = none := by
  refine firstErr_none_of_all c p 0 _ _ fun e he => ?_
  simp only [genCast2, List.mem_map, List.mem_range] at he
  obtain ⟨v, hv, rfl⟩ := he
  exact ⟨rfl, rfl, hv, fun t ht => by cases ht⟩

theorem genP2P_valid (c : Cfg) (p : ℕ) : firstErr c p c.self none (genP2P c p).entries = none := by
  refine firstErr_none_of_all c p c.self _ _ fun e he => ?_
  simp only [genP2P, List.mem_map, List.mem_range] at he
  obtain ⟨v, hv, rfl⟩ := he
  exact ⟨rfl, rfl, hv, fun t ht => by cases ht⟩

/-- a list of messages with pairwise different member senders: at most `n`, and a length-`n`
prefix is the whole list and has every member as a sender. -/
theorem exact_cover (n : ℕ) (L : List Msg) (hnd : (L.map (·.sender)).Nodup)
    (hm : ∀ m ∈ L, 1 ≤ m.sender ∧ m.sender ≤ n) :
    L.length ≤ n ∧ ∀ cs, cs <+: L → cs.length = n →
      cs = L ∧ ∀ p, 1 ≤ p ∧ p ≤ n → ∃ m ∈ cs, m.sender = p := by
  have hm' : ∀ x ∈ L.map (·.sender), 1 ≤ x ∧ x ≤ n := by
    intro x hx; obtain ⟨m, hmL, rfl⟩ := List.mem_map.mp hx; exact hm m hmL
  have hlen : L.length ≤ n := by
    have := length_le_of_nodup_members n _ hnd hm'; simpa using this
  refine ⟨hlen, fun cs hpre hcs => ?_⟩
  have heq : cs = L := hpre.eq_of_length (by have := hpre.length_le; omega)
  refine ⟨heq, fun p hp => ?_⟩
  have := covers_of_nodup_members n _ hnd hm' (by simp; rw [← heq]; exact hcs) p hp
  rw [heq]; exact List.mem_map.mp this |>.imp fun m h => h

theorem exact_cover_others (n self : ℕ) (hs : 1 ≤ self ∧ self ≤ n) (L : List Msg)
    (hnd : (L.map (·.sender)).Nodup)
    (hm : ∀ m ∈ L, (1 ≤ m.sender ∧ m.sender ≤ n) ∧ m.sender ≠ self) :
    L.length ≤ n - 1 ∧ ∀ ps, ps <+: L → ps.length = n - 1 →
      ps = L ∧ ∀ p, (1 ≤ p ∧ p ≤ n) ∧ p ≠ self → ∃ m ∈ ps, m.sender = p := by
  have hm' : ∀ x ∈ L.map (·.sender), (1 ≤ x ∧ x ≤ n) ∧ x ≠ self := by
    intro x hx; obtain ⟨m, hmL, rfl⟩ := List.mem_map.mp hx; exact hm m hmL
  have hlen : L.length ≤ n - 1 := by
    have := length_le_of_nodup_others n self hs _ hnd hm'; simpa using this
  refine ⟨hlen, fun ps hpre hps => ?_⟩
  have heq : ps = L := hpre.eq_of_length (by have := hpre.length_le; omega)
  refine ⟨heq, fun p hp => ?_⟩
  have := covers_of_nodup_others n self hs _ hnd hm' (by simp; rw [← heq]; exact hps) p hp
  rw [heq]; exact List.mem_map.mp this |>.imp fun m h => h

/-- a list with pairwise different senders that has every member as a sender has length `≥ n`. -/
theorem length_ge_of_covers (n : ℕ) (l : List ℕ) (h : ∀ p, 1 ≤ p ∧ p ≤ n → p ∈ l) : n ≤ l.length := by
  have hsub : Finset.Icc 1 n ⊆ l.toFinset := by
    intro x hx; exact List.mem_toFinset.mpr (h x (Finset.mem_Icc.mp hx))
  have := Finset.card_le_card hsub
  rw [Nat.card_Icc, Nat.add_sub_cancel] at this
  exact le_trans this (List.toFinset_card_le l)

theorem length_ge_of_covers_others (n self : ℕ) (hs : 1 ≤ self ∧ self ≤ n) (l : List ℕ)
    (h : ∀ p, (1 ≤ p ∧ p ≤ n) ∧ p ≠ self → p ∈ l) : n - 1 ≤ l.length := by
  have hsub : (Finset.Icc 1 n).erase self ⊆ l.toFinset := by
    intro x hx
    have := Finset.mem_erase.mp hx
    exact List.mem_toFinset.mpr (h x ⟨Finset.mem_Icc.mp this.2, this.1⟩)
  have := Finset.card_le_card hsub
  rw [Finset.card_erase_of_mem (Finset.mem_Icc.mpr hs), Nat.card_Icc, Nat.add_sub_cancel] at this
  exact le_trans this (List.toFinset_card_le l)

end CharonV.FrostP2P

namespace CharonV.FrostP2P

/-- facts about a channel content `L` = the node's own broadcast plus what the bcast callback
queued, in any order. -/
theorem cast_list_facts (c : Cfg) (commits : Option ℕ) (gen : ℕ → Msg) (hgs : ∀ p, (gen p).sender = p)
    (hself : 1 ≤ c.self ∧ c.self ≤ c.n) (d : List Msg) (hns : ∀ m ∈ d, m.sender ≠ c.self)
    (hon : ∀ m ∈ d, isMember c m.sender = true → m = gen m.sender) (L : List Msg)
    (hL : L.Perm (gen c.self :: (runCb (bcastCb c commits) {} d).queue)) :
    (L.map (·.sender)).Nodup ∧ (∀ m ∈ L, 1 ≤ m.sender ∧ m.sender ≤ c.n) ∧ (∀ m ∈ L, m = gen m.sender) := by
  have hinv : Inv c 0 commits (runCb (bcastCb c commits) {} d) :=
    runCb_inv (P := Inv c 0 commits) _ (fun s m h => bcastCb_inv c commits s m h) d _ (inv_empty c 0 commits)
  have hsound : ∀ m ∈ (runCb (bcastCb c commits) {} d).queue, m ∈ d := by
    intro m hm
    rcases runCb_queue_sound _ (bcastCb_queue c commits) d {} m hm with h | h
    · simp at h
    · exact h
  refine ⟨?_, ?_, ?_⟩
  · rw [(hL.map _).nodup_iff, List.map_cons, List.nodup_cons]
    refine ⟨?_, hinv.nodup⟩
    intro hmem
    obtain ⟨m, hm, hs⟩ := List.mem_map.mp hmem
    exact hns m (hsound m hm) (by rw [hs, hgs])
  · intro m hm
    rcases List.mem_cons.mp (hL.mem_iff.mp hm) with h | h
    · rw [h, hgs]; exact hself
    · exact (isMember_iff c _).mp (hinv.member m h)
  · intro m hm
    rcases List.mem_cons.mp (hL.mem_iff.mp hm) with h | h
    · rw [h, hgs]
    · exact hon m (hsound m h) (hinv.member m h)

theorem p2p_list_facts (c : Cfg) (dp : List Msg) (hns : ∀ m ∈ dp, m.sender ≠ c.self)
    (hon : ∀ m ∈ dp, isMember c m.sender = true →
      firstErr c m.sender c.self none m.entries = none → m = genP2P c m.sender) (L : List Msg)
    (hL : L.Perm (runCb (p2pCb c) {} dp).queue) :
    (L.map (·.sender)).Nodup ∧ (∀ m ∈ L, (1 ≤ m.sender ∧ m.sender ≤ c.n) ∧ m.sender ≠ c.self) ∧
      (∀ m ∈ L, m = genP2P c m.sender) := by
  have hinv : Inv c c.self none (runCb (p2pCb c) {} dp) :=
    runCb_inv (P := Inv c c.self none) _ (fun s m h => p2pCb_inv c s m h) dp _ (inv_empty c c.self none)
  have hsound : ∀ m ∈ (runCb (p2pCb c) {} dp).queue, m ∈ dp := by
    intro m hm
    rcases runCb_queue_sound _ (p2pCb_queue c) dp {} m hm with h | h
    · simp at h
    · exact h
  refine ⟨?_, ?_, ?_⟩
  · rw [(hL.map _).nodup_iff]; exact hinv.nodup
  · intro m hm
    have h := hL.mem_iff.mp hm
    exact ⟨(isMember_iff c _).mp (hinv.member m h), hns m (hsound m h)⟩
  · intro m hm
    have h := hL.mem_iff.mp hm
    exact hon m (hsound m h) (hinv.member m h) (hinv.valid m h)

end CharonV.FrostP2P

namespace CharonV.FrostP2P

/-- invariant of overlapping invocations: the senders of queued and in-flight messages are
pairwise different and all marked. -/
structure CInv (s : CState) : Prop where
  nodup  : ((s.queue ++ s.inside).map (·.sender)).Nodup
  marked : ∀ m ∈ s.queue ++ s.inside, m.sender ∈ s.seen

theorem cstep_inv (c : Cfg) (commits : Option ℕ) (s : CState) (e : CEv) (h : CInv s) :
    CInv (cstep c commits s e) := by
  cases e with
  | enter m =>
    unfold cstep
    by_cases hs : m.sender ∈ s.seen
    · simp only [hs, if_true]; exact h
    · simp only [hs, if_false]
      refine ⟨?_, ?_⟩
      · have hp : (s.queue ++ m :: s.inside).Perm (m :: (s.queue ++ s.inside)) := List.perm_middle
        rw [(hp.map _).nodup_iff, List.map_cons, List.nodup_cons]
        refine ⟨?_, h.nodup⟩
        intro hmem
        obtain ⟨x, hx, hsx⟩ := List.mem_map.mp hmem
        exact hs (hsx ▸ h.marked x hx)
      · intro x hx
        have : x ∈ m :: (s.queue ++ s.inside) := (List.perm_middle.mem_iff).mp hx
        rcases List.mem_cons.mp this with h1 | h1
        · rw [h1]; exact List.mem_cons_self
        · exact List.mem_cons_of_mem _ (h.marked x h1)
  | handover m =>
    unfold cstep
    by_cases hm : m ∈ s.inside
    · simp only [hm, if_true]
      have hperm : (s.queue ++ [m] ++ s.inside.erase m).Perm (s.queue ++ s.inside) := by
        rw [List.append_assoc]
        exact List.Perm.append_left _ (List.perm_cons_erase hm).symm
      have hsub : ∀ x ∈ s.queue ++ s.inside.erase m, x ∈ s.queue ++ s.inside := by
        intro x hx
        rcases List.mem_append.mp hx with h1 | h1
        · exact List.mem_append_left _ h1
        · exact List.mem_append_right _ (List.mem_of_mem_erase h1)
      split
      · refine ⟨?_, ?_⟩
        · show (((s.queue ++ [m]) ++ s.inside.erase m).map (·.sender)).Nodup
          rw [(hperm.map _).nodup_iff]; exact h.nodup
        · intro x hx
          exact h.marked x ((hperm.mem_iff).mp hx)
      · refine ⟨?_, fun x hx => h.marked x (hsub x hx)⟩
        have hsl : (s.queue ++ s.inside.erase m).Sublist (s.queue ++ s.inside) :=
          List.Sublist.append_left (List.erase_sublist) _
        exact h.nodup.sublist (hsl.map _)
    · simp only [hm, if_false]; exact h

theorem crun_inv (c : Cfg) (commits : Option ℕ) (evs : List CEv) : ∀ s, CInv s → CInv (crun c commits s evs) := by
  induction evs with
  | nil => intro s h; exact h
  | cons e rest ih => intro s h; exact ih _ (cstep_inv c commits s e h)

end CharonV.FrostP2P
