/-
Helper lemmas and the invariants for the duties cache model (C20).
-/
import CharonV.Model.DutiesCache

namespace CharonV.DutiesCache

/-! ### association list -/

theorem lookup_setCache (c : List (Nat × Epoch × Entry)) (k : Nat) (e : Epoch) (v : Entry) (k' : Nat) (e' : Epoch) :
    lookup (setCache c k e v) k' e' = if k = k' ∧ e = e' then some v else lookup c k' e' := by
  simp [setCache, lookup]

theorem lookup_dropEpochs (c : List (Nat × Epoch × Entry)) (drop : Epoch → Bool) (k : Nat) (e : Epoch) :
    lookup (dropEpochs c drop) k e = if drop e then none else lookup c k e := by
  induction c with
  | nil => simp [dropEpochs, lookup]
  | cons x xs ih =>
    obtain ⟨k', e', v⟩ := x
    simp only [dropEpochs] at ih ⊢
    by_cases hk : k' = k ∧ e' = e
    · obtain ⟨hk1, he⟩ := hk
      subst hk1; subst he
      cases hd : drop e' with
      | true => simp [List.filter_cons, hd, lookup] at ih ⊢; exact ih
      | false => simp [List.filter_cons, hd, lookup]
    · cases hd : drop e' with
      | true =>
        simp only [List.filter_cons, hd, Bool.not_true, Bool.false_eq_true, if_false, lookup, hk]
        exact ih
      | false =>
        simp only [List.filter_cons, hd, Bool.not_false, if_true, lookup, hk, if_false]
        exact ih

/-! ### lists -/

theorem filter_or_perm {α : Type} (l : List α) (p q : α → Bool)
    (h : ∀ a ∈ l, ¬ (p a = true ∧ q a = true)) :
    (l.filter (fun a => p a || q a)).Perm (l.filter p ++ l.filter q) := by
  induction l with
  | nil => simp
  | cons a l ih =>
    have ih' := ih (fun b hb => h b (List.mem_cons_of_mem _ hb))
    have ha := h a (List.mem_cons_self ..)
    cases hp : p a <;> cases hq : q a
    · simpa [List.filter_cons, hp, hq] using ih'
    · simp only [List.filter_cons, hp, hq, Bool.or_true, if_true, Bool.false_eq_true, if_false]
      exact (List.Perm.cons a ih').trans List.perm_middle.symm
    · simp only [List.filter_cons, hp, hq, Bool.or_false, if_true, Bool.false_eq_true, if_false,
        List.cons_append]
      exact List.Perm.cons a ih'
    · exact absurd ⟨hp, hq⟩ ha

theorem mem_dedup (l : List VIdx) (i : VIdx) : i ∈ dedup l ↔ i ∈ l := by
  induction l with
  | nil => simp [dedup]
  | cons x xs ih =>
    simp only [dedup, List.mem_cons, List.mem_filter, ih]
    constructor
    · rintro (h | ⟨h, _⟩)
      · exact Or.inl h
      · exact Or.inr h
    · rintro (h | h)
      · exact Or.inl h
      · by_cases hx : i = x
        · exact Or.inl hx
        · exact Or.inr ⟨h, by simpa using hx⟩

theorem nodup_dedup (l : List VIdx) : (dedup l).Nodup := by
  induction l with
  | nil => simp [dedup]
  | cons x xs ih =>
    simp only [dedup, List.nodup_cons, List.mem_filter]
    refine ⟨?_, ih.sublist List.filter_sublist⟩
    rintro ⟨_, h⟩; simp at h

theorem map_d_mkObjs (b : Nat) (ds : List Duty) : (mkObjs b ds).map (·.d) = ds := by
  induction ds generalizing b with
  | nil => rfl
  | cons d ds ih => simp [mkObjs, ih]

theorem length_mkObjs (b : Nat) (ds : List Duty) : (mkObjs b ds).length = ds.length := by
  induction ds generalizing b with
  | nil => rfl
  | cons d ds ih => simp [mkObjs, ih]

/-- contents of a list of duty objects. -/
abbrev cont (l : List DObj) : List Duty := l.map (·.d)

theorem cont_filter (l : List DObj) (p : Duty → Bool) :
    cont (l.filter (fun o => p o.d)) = (cont l).filter p := by
  induction l with
  | nil => rfl
  | cons o l ih =>
    simp only [cont] at ih
    simp only [cont, List.filter_cons, List.map_cons]
    split <;> simp [ih]

theorem cont_flatMap (N : List VIdx) (l : List DObj) :
    cont (N.flatMap (fun i => l.filter (fun o => o.d.idx == i))) =
      N.flatMap (fun i => (cont l).filter (fun d => d.idx == i)) := by
  induction N with
  | nil => rfl
  | cons i N ih =>
    simp only [cont] at ih
    simp only [cont, List.flatMap_cons, List.map_append, ih]
    congr 1
    exact cont_filter l (fun d => d.idx == i)

/-- the amend loop (`for idx in newlyFetchedIdxs { for d in duties { if d.idx == idx … } }`) takes
over exactly the duties of the new indices — provided no index is listed twice. -/
theorem flatMap_filter_perm (L : List Duty) (N : List VIdx) (hN : N.Nodup) :
    (N.flatMap (fun i => L.filter (fun d => d.idx == i))).Perm
      (L.filter (fun d => decide (d.idx ∈ N))) := by
  induction N with
  | nil => simp
  | cons i N ih =>
    have hi : i ∉ N := (List.nodup_cons.mp hN).1
    have ih' := ih (List.nodup_cons.mp hN).2
    simp only [List.flatMap_cons]
    have h1 : (L.filter (fun d => decide (d.idx ∈ i :: N))) =
        L.filter (fun d => (d.idx == i) || decide (d.idx ∈ N)) := by
      apply List.filter_congr
      intro d _
      cases h : d.idx == i <;> simp_all [List.mem_cons]
    rw [h1]
    refine (List.Perm.append_left _ ih').trans (filter_or_perm L _ _ ?_).symm
    intro d _ ⟨h2, h3⟩
    have : d.idx = i := by simpa using h2
    have h4 : d.idx ∈ N := by simpa using h3
    exact hi (this ▸ h4)

theorem filter_filter_mem (B : List Duty) (A R : List VIdx) :
    (B.filter (fun d => decide (d.idx ∈ A))).filter (fun d => decide (d.idx ∈ R)) =
      B.filter (fun d => decide (d.idx ∈ A) && decide (d.idx ∈ R)) := by
  rw [List.filter_filter]
  apply List.filter_congr
  intro d _
  exact Bool.and_comm _ _

theorem verOf_cons_le (reorgs : List Epoch) (r e : Epoch) (h : ¬ r < e) :
    verOf (r :: reorgs) e = verOf reorgs e := by
  simp [verOf, List.filter_cons, h]

/-! ### functional invariant -/

section
variable (cfg : Cfg) (bn : Nat → Nat → Epoch → List Duty) (bnMeta : Nat → Nat → Epoch → Nat)

/-- what the maps hold for an epoch is what the node (now) answers for the indices asked so far. -/
def EntryOk (reorgs : List Epoch) (k : Nat) (e : Epoch) (ent : Entry) : Prop :=
  (cont ent.duties).Perm (bnAnswer bn (verOf reorgs e) k e ent.req) ∧
  ent.md = bnMeta (verOf reorgs e) k e

/-- a call in flight holds the node's answer of version `ver` for `req`, and from the cache the
duties of the other requested indices. -/
def PendOk (reorgs : List Epoch) (p : Pending) : Prop :=
  cont p.data = bnAnswer bn p.ver p.kind p.epoch p.req ∧
  p.md = bnMeta p.ver p.kind p.epoch ∧
  (cont p.cached).Perm ((bn p.ver p.kind p.epoch).filter
      (fun d => decide (d.idx ∈ p.reqV) && !decide (d.idx ∈ p.req))) ∧
  (∀ i ∈ p.req, i ∈ p.reqV) ∧
  p.gen ≤ reorgs.length ∧
  (p.gen = reorgs.length → p.ver = verOf reorgs p.epoch) ∧
  (cfg.dedupAmend = true ∨ p.req.Nodup)

structure Inv (s : State) : Prop where
  cacheOk : ∀ k e ent, lookup s.cache k e = some ent → EntryOk bn bnMeta s.reorgs k e ent
  pendOk  : ∀ p ∈ s.pending, PendOk cfg bn bnMeta s.reorgs p

/-- side conditions under which the property holds for the code as it is (each is shown necessary
by a witness in `Props/C20.lean`; each disappears with the corresponding `Cfg` switch). -/
def OpOk (s : State) : Op → Prop
  | .get _ _ idxs => cfg.dedupAmend = true ∨ (effReq s idxs).Nodup
  | .begin _ _ _ idxs => cfg.dedupAmend = true ∨ (effReq s idxs).Nodup
  | .finish id => cfg.guardInflight = true ∨
      ∀ p, s.pending.find? (fun p => p.id == id) = some p → p.ver = verOf s.reorgs p.epoch
  | _ => True

inductive Reach : State → Prop where
  | init (act : List VIdx) : Reach { active := act }
  | step {s : State} (h : Reach s) (op : Op) (hok : OpOk cfg s op) : Reach (step cfg bn bnMeta s op).1

theorem inv_init (act : List VIdx) : Inv cfg bn bnMeta { active := act } :=
  ⟨by intro k e ent h; simp [lookup] at h, by intro p hp; simp at hp⟩

/-- the answer a call in flight will return equals the node's answer for the caller's request. -/
theorem pend_answer {reorgs : List Epoch} {p : Pending} (h : PendOk cfg bn bnMeta reorgs p) :
    (cont (p.cached ++ p.data)).Perm (bnAnswer bn p.ver p.kind p.epoch p.reqV) := by
  obtain ⟨hd, _, hc, hsub, _⟩ := h
  simp only [cont, List.map_append]
  have hd' : p.data.map (·.d) = bnAnswer bn p.ver p.kind p.epoch p.req := hd
  rw [hd']
  unfold bnAnswer
  have hE : (bn p.ver p.kind p.epoch).filter (fun d => decide (d.idx ∈ p.reqV)) =
      (bn p.ver p.kind p.epoch).filter (fun d =>
        (decide (d.idx ∈ p.reqV) && !decide (d.idx ∈ p.req)) || decide (d.idx ∈ p.req)) := by
    apply List.filter_congr
    intro d _
    by_cases h1 : d.idx ∈ p.req
    · simp [h1, hsub _ h1]
    · simp [h1]
  rw [hE]
  refine (List.Perm.append_right _ hc).trans (filter_or_perm _ _ _ ?_).symm
  intro d _ ⟨h1, h2⟩
  simp at h1 h2
  exact h1.2 h2

theorem fetch_inv {s : State} (hi : Inv cfg bn bnMeta s) (id k : Nat) (e : Epoch)
    (reqV req : List VIdx) (cached : List DObj) (n1 : Nat)
    (hsub : ∀ i ∈ req, i ∈ reqV)
    (hnd : cfg.dedupAmend = true ∨ req.Nodup)
    (hc : (cont cached).Perm ((bn (verOf s.reorgs e) k e).filter
      (fun d => decide (d.idx ∈ reqV) && !decide (d.idx ∈ req)))) :
    Inv cfg bn bnMeta (fetch bn bnMeta { s with nextObj := n1 } id k e reqV req cached).1 := by
  constructor
  · intro k' e' ent h
    exact hi.cacheOk k' e' ent (by simpa [fetch] using h)
  · intro p hp
    simp only [fetch, List.mem_cons] at hp
    rcases hp with hp | hp
    · subst hp
      refine ⟨?_, rfl, hc, hsub, Nat.le_refl _, fun _ => rfl, hnd⟩
      simp [cont, map_d_mkObjs]
    · exact hi.pendOk p hp

theorem mem_missing (reqV req : List VIdx) (i : VIdx) :
    i ∈ reqV.filter (fun i => !(req.contains i)) ↔ i ∈ reqV ∧ i ∉ req := by
  simp [List.mem_filter]

theorem begin_inv {s : State} (hi : Inv cfg bn bnMeta s) (id k : Nat) (e : Epoch) (idxs : List VIdx)
    (hok : cfg.dedupAmend = true ∨ (effReq s idxs).Nodup) :
    Inv cfg bn bnMeta (beginOp cfg bn bnMeta s id k e idxs).1 := by
  unfold beginOp
  cases hl : lookup s.cache k e with
  | none =>
    simp only
    have := fetch_inv cfg bn bnMeta hi id k e (effReq s idxs) (effReq s idxs) [] s.nextObj
      (fun _ h => h) hok (by
        have : (bn (verOf s.reorgs e) k e).filter
            (fun d => decide (d.idx ∈ effReq s idxs) && !decide (d.idx ∈ effReq s idxs)) = [] := by
          apply List.filter_eq_nil_iff.mpr
          intro d _; simp
        rw [this]; exact List.Perm.refl _)
    simpa using this
  | some ent =>
    simp only
    have hent := hi.cacheOk k e ent hl
    split
    · -- hit: maps untouched
      constructor
      · intro k' e' ent' h; exact hi.cacheOk k' e' ent' (by simpa using h)
      · intro p hp; exact hi.pendOk p (by simpa using hp)
    · -- partial miss
      apply fetch_inv cfg bn bnMeta hi
      · intro i h; exact ((mem_missing _ _ i).mp h).1
      · rcases hok with h | h
        · exact Or.inl h
        · exact Or.inr (h.sublist List.filter_sublist)
      · -- the duties collected from the maps
        have hc : cont (if cfg.cloneSlices = true then
              mkObjs s.nextObj ((ent.duties.filter (fun o => decide (o.d.idx ∈ effReq s idxs))).map (·.d))
            else ent.duties.filter (fun o => decide (o.d.idx ∈ effReq s idxs))) =
            (cont ent.duties).filter (fun d => decide (d.idx ∈ effReq s idxs)) := by
          split
          · rw [cont, map_d_mkObjs]; exact cont_filter ent.duties (fun d => decide (d.idx ∈ effReq s idxs))
          · exact cont_filter ent.duties (fun d => decide (d.idx ∈ effReq s idxs))
        rw [hc]
        refine (hent.1.filter _).trans ?_
        unfold bnAnswer
        rw [filter_filter_mem]
        apply List.Perm.of_eq
        apply List.filter_congr
        intro d _
        by_cases h1 : d.idx ∈ effReq s idxs <;> by_cases h2 : d.idx ∈ ent.req <;>
          simp [h1, h2, mem_missing]

theorem find_mem {s : State} {id : Nat} {p : Pending}
    (h : s.pending.find? (fun p => p.id == id) = some p) : p ∈ s.pending ∧ p.id = id := by
  refine ⟨List.mem_of_find?_eq_some h, ?_⟩
  have := List.find?_some h
  simpa using this

/-- `storeOrAmend` keeps the maps equal to the node's answer, provided the response is of the
epoch's current version and the newly taken-over indices are listed once. -/
theorem storeOrAmend_ok {reorgs : List Epoch} {p : Pending} (hp : PendOk cfg bn bnMeta reorgs p)
    (hv : p.ver = verOf reorgs p.epoch)
    (old : Option Entry) (hold : ∀ ent, old = some ent → EntryOk bn bnMeta reorgs p.kind p.epoch ent)
    (copies : List DObj) (hcop : cont copies = cont p.data) (mo : Nat) :
    EntryOk bn bnMeta reorgs p.kind p.epoch (storeOrAmend cfg old p copies mo) := by
  obtain ⟨hd, hm, _, _, _, _, hnd⟩ := hp
  cases old with
  | none =>
    simp only [storeOrAmend]
    refine ⟨?_, by rw [hm, hv]⟩
    show (cont copies).Perm _
    rw [hcop, hd, hv]
  | some ent =>
    obtain ⟨he1, he2⟩ := hold ent rfl
    simp only [storeOrAmend]
    refine ⟨?_, he2⟩
    show (cont (ent.duties ++ _)).Perm _
    generalize hN : (if cfg.dedupAmend = true then dedup (p.req.filter (fun i => !(ent.req.contains i)))
      else p.req.filter (fun i => !(ent.req.contains i))) = N
    have hNmem : ∀ i, i ∈ N ↔ i ∈ p.req ∧ i ∉ ent.req := by
      intro i; rw [← hN]; split
      · rw [mem_dedup]; exact mem_missing _ _ i
      · exact mem_missing _ _ i
    have hNnd : N.Nodup := by
      rw [← hN]; split
      · exact nodup_dedup _
      · rename_i hf
        rcases hnd with h | h
        · exact absurd h hf
        · exact h.sublist List.filter_sublist
    simp only [cont, List.map_append]
    have h2 := cont_flatMap N copies
    simp only [cont] at h2 hcop hd he1
    rw [h2, hcop, hd, hv]
    unfold bnAnswer at he1 ⊢
    generalize bn (verOf reorgs p.epoch) p.kind p.epoch = B at he1 ⊢
    have h3 := flatMap_filter_perm (B.filter (fun d => decide (d.idx ∈ p.req))) N hNnd
    rw [filter_filter_mem] at h3
    have h4 : B.filter (fun d => decide (d.idx ∈ p.req) && decide (d.idx ∈ N)) =
        B.filter (fun d => decide (d.idx ∈ N)) := by
      apply List.filter_congr
      intro d _
      by_cases h : d.idx ∈ N
      · simp [h, ((hNmem _).mp h).1]
      · simp [h]
    rw [h4] at h3
    have h5 : B.filter (fun d => decide (d.idx ∈ ent.req ++ N)) =
        B.filter (fun d => decide (d.idx ∈ ent.req) || decide (d.idx ∈ N)) := by
      apply List.filter_congr
      intro d _
      simp [List.mem_append]
    rw [h5]
    refine (List.Perm.append he1 h3).trans (filter_or_perm B _ _ ?_).symm
    intro d _ ⟨h6, h7⟩
    simp at h6 h7
    exact ((hNmem _).mp h7).2 h6

theorem finish_inv {s : State} (hi : Inv cfg bn bnMeta s) (id : Nat)
    (hok : cfg.guardInflight = true ∨
      ∀ p, s.pending.find? (fun p => p.id == id) = some p → p.ver = verOf s.reorgs p.epoch) :
    Inv cfg bn bnMeta (finishOp cfg s id).1 := by
  unfold finishOp
  cases hf : s.pending.find? (fun p => p.id == id) with
  | none => exact hi
  | some p =>
    simp only
    obtain ⟨hpm, _⟩ := find_mem hf
    have hp := hi.pendOk p hpm
    constructor
    · intro k e ent h
      simp only at h
      split at h
      · exact hi.cacheOk k e ent h
      · rename_i hskip
        have hv : p.ver = verOf s.reorgs p.epoch := by
          rcases hok with hg | hr
          · simp only [hg, Bool.true_and, Bool.not_eq_eq_eq_not] at hskip
            exact hp.2.2.2.2.2.1 (by simpa using hskip)
          · exact hr p hf
        rw [lookup_setCache] at h
        split at h
        · rename_i hke
          obtain ⟨hk, he⟩ := hke
          subst hk; subst he
          have := storeOrAmend_ok cfg bn bnMeta hp hv (lookup s.cache p.kind p.epoch)
            (fun ent' h' => hi.cacheOk _ _ ent' h')
            (if cfg.cloneSlices = true then mkObjs s.nextObj (p.data.map (·.d)) else p.data)
            (by split
                · rw [cont, map_d_mkObjs]
                · rfl)
            (if cfg.cloneMeta = true then
              (if cfg.cloneSlices = true then s.nextObj + p.data.length else s.nextObj) else p.mdObj)
          simp only [Option.some.injEq] at h
          rw [← h]; exact this
        · exact hi.cacheOk k e ent h
    · intro q hq
      simp only at hq
      exact hi.pendOk q (List.mem_filter.mp hq).1

theorem reorg_inv {s : State} (hi : Inv cfg bn bnMeta s) (r : Epoch) :
    Inv cfg bn bnMeta (step cfg bn bnMeta s (.reorg r)).1 := by
  constructor
  · intro k e ent h
    simp only [step] at h ⊢
    rw [lookup_dropEpochs] at h
    split at h
    · cases h
    · rename_i hr
      have hr' : ¬ r < e := by simpa using hr
      have := hi.cacheOk k e ent h
      unfold EntryOk at this ⊢
      rw [verOf_cons_le _ _ _ hr']
      exact this
  · intro p hp
    simp only [step] at hp ⊢
    obtain ⟨h1, h2, h3, h4, h5, h6, h7⟩ := hi.pendOk p hp
    refine ⟨h1, h2, h3, h4, ?_, ?_, h7⟩
    · simp only [List.length_cons]; omega
    · intro h; simp only [List.length_cons] at h; omega

theorem trim_inv {s : State} (hi : Inv cfg bn bnMeta s) (t : Epoch) :
    Inv cfg bn bnMeta (step cfg bn bnMeta s (.trim t)).1 := by
  simp only [step]
  split
  · exact hi
  · constructor
    · intro k e ent h
      simp only at h
      rw [lookup_dropEpochs] at h
      split at h
      · cases h
      · exact hi.cacheOk k e ent h
    · intro p hp; exact hi.pendOk p hp

theorem begin_pend_head {s s1 : State} {id k : Nat} {e : Epoch} {idxs c : List VIdx}
    (h : beginOp cfg bn bnMeta s id k e idxs = (s1, .pend c)) :
    ∃ p, s1.pending = p :: s.pending ∧ p.id = id ∧ p.kind = k ∧ p.epoch = e ∧
      p.reqV = effReq s idxs ∧ p.ver = verOf s.reorgs e ∧ p.req = c ∧ s1.reorgs = s.reorgs ∧
      s1.cache = s.cache ∧ s1.active = s.active := by
  unfold beginOp at h
  cases hl : lookup s.cache k e with
  | none =>
    rw [hl] at h
    simp only [fetch, Prod.mk.injEq, Out.pend.injEq] at h
    obtain ⟨h1, h2⟩ := h
    subst h1
    exact ⟨_, rfl, rfl, rfl, rfl, rfl, rfl, h2, rfl, rfl, rfl⟩
  | some ent =>
    rw [hl] at h
    simp only at h
    split at h
    · simp at h
    · simp only [fetch, Prod.mk.injEq, Out.pend.injEq] at h
      obtain ⟨h1, h2⟩ := h
      subst h1
      exact ⟨_, rfl, rfl, rfl, rfl, rfl, rfl, h2, rfl, rfl, rfl⟩

theorem get_inv {s : State} (hi : Inv cfg bn bnMeta s) (k : Nat) (e : Epoch) (idxs : List VIdx)
    (hok : cfg.dedupAmend = true ∨ (effReq s idxs).Nodup) :
    Inv cfg bn bnMeta (getOp cfg bn bnMeta s k e idxs).1 := by
  unfold getOp
  have hb := begin_inv cfg bn bnMeta hi 0 k e idxs hok
  cases hbo : beginOp cfg bn bnMeta s 0 k e idxs with
  | mk s1 o =>
    rw [hbo] at hb
    cases o with
    | pend c =>
      simp only
      obtain ⟨p, hp, hid, _, hpe, _, hver, _, hre, _⟩ := begin_pend_head cfg bn bnMeta hbo
      apply finish_inv cfg bn bnMeta hb
      right
      intro q hq
      rw [hp] at hq
      simp only [List.find?_cons, hid, beq_self_eq_true] at hq
      cases hq
      rw [hver, hre, hpe]
    | ans _ _ _ _ => exact hb
    | none => exact hb

theorem step_inv {s : State} (hi : Inv cfg bn bnMeta s) (op : Op) (hok : OpOk cfg s op) :
    Inv cfg bn bnMeta (step cfg bn bnMeta s op).1 := by
  cases op with
  | get k e idxs => exact get_inv cfg bn bnMeta hi k e idxs hok
  | begin id k e idxs => exact begin_inv cfg bn bnMeta hi id k e idxs hok
  | finish id => exact finish_inv cfg bn bnMeta hi id hok
  | reorg r => exact reorg_inv cfg bn bnMeta hi r
  | trim t => exact trim_inv cfg bn bnMeta hi t
  | setActive idxs =>
    exact ⟨fun k e ent h => hi.cacheOk k e ent h, fun p hp => hi.pendOk p hp⟩

theorem reach_inv {s : State} (h : Reach cfg bn bnMeta s) : Inv cfg bn bnMeta s := by
  induction h with
  | init act => exact inv_init cfg bn bnMeta act
  | step _ op hok ih => exact step_inv cfg bn bnMeta ih op hok

/-! ### answers -/

theorem begin_hit_answer {s : State} (hi : Inv cfg bn bnMeta s) {id k : Nat} {e : Epoch}
    {idxs : List VIdx} {s' : State} {ds : List DObj} {md mo : Nat} {call : Option (List VIdx)}
    (h : beginOp cfg bn bnMeta s id k e idxs = (s', .ans ds md mo call)) :
    (cont ds).Perm (bnAnswer bn (verOf s.reorgs e) k e (effReq s idxs)) ∧
      md = bnMeta (verOf s.reorgs e) k e ∧ call = none := by
  unfold beginOp at h
  cases hl : lookup s.cache k e with
  | none => rw [hl] at h; simp [fetch] at h
  | some ent =>
    rw [hl] at h
    simp only at h
    obtain ⟨he1, he2⟩ := hi.cacheOk k e ent hl
    split at h
    · rename_i hmiss
      simp only [Prod.mk.injEq, Out.ans.injEq] at h
      obtain ⟨_, hds, hmd, _, hcall⟩ := h
      refine ⟨?_, by rw [← hmd, he2], hcall.symm⟩
      have hsub : ∀ i ∈ effReq s idxs, i ∈ ent.req := by
        intro i hi'
        have : (effReq s idxs).filter (fun i => !(ent.req.contains i)) = [] := by
          simpa using hmiss
        have := List.filter_eq_nil_iff.mp this i hi'
        simpa using this
      have hc : cont ds = (cont ent.duties).filter (fun d => decide (d.idx ∈ effReq s idxs)) := by
        rw [← hds]
        split
        · rw [cont, map_d_mkObjs]; exact cont_filter ent.duties (fun d => decide (d.idx ∈ effReq s idxs))
        · exact cont_filter ent.duties (fun d => decide (d.idx ∈ effReq s idxs))
      rw [hc]
      refine (he1.filter _).trans ?_
      unfold bnAnswer
      rw [filter_filter_mem]
      apply List.Perm.of_eq
      apply List.filter_congr
      intro d _
      by_cases h1 : d.idx ∈ effReq s idxs
      · simp [h1, hsub _ h1]
      · simp [h1]
    · simp [fetch] at h

theorem finish_answer {s : State} (hi : Inv cfg bn bnMeta s) {id : Nat}
    {s' : State} {ds : List DObj} {md mo : Nat} {call : Option (List VIdx)}
    (h : finishOp cfg s id = (s', .ans ds md mo call)) :
    ∃ p ∈ s.pending, p.id = id ∧
      (cont ds).Perm (bnAnswer bn p.ver p.kind p.epoch p.reqV) ∧
      md = bnMeta p.ver p.kind p.epoch ∧ call = some p.req := by
  unfold finishOp at h
  cases hf : s.pending.find? (fun p => p.id == id) with
  | none => rw [hf] at h; simp at h
  | some p =>
    rw [hf] at h
    simp only [Prod.mk.injEq, Out.ans.injEq] at h
    obtain ⟨_, hds, hmd, _, hcall⟩ := h
    obtain ⟨hpm, hid⟩ := find_mem hf
    have hp := hi.pendOk p hpm
    refine ⟨p, hpm, hid, ?_, by rw [← hmd]; exact hp.2.1, hcall.symm⟩
    rw [← hds]
    exact pend_answer cfg bn bnMeta hp

theorem finish_out {s : State} {id : Nat} {p : Pending}
    (hf : s.pending.find? (fun p => p.id == id) = some p) :
    (finishOp cfg s id).2 = .ans (p.cached ++ p.data) p.md p.mdObj (some p.req) := by
  unfold finishOp; rw [hf]

theorem get_answer {s : State} (hi : Inv cfg bn bnMeta s) {k : Nat} {e : Epoch} {idxs : List VIdx}
    (hok : cfg.dedupAmend = true ∨ (effReq s idxs).Nodup)
    {s' : State} {ds : List DObj} {md mo : Nat} {call : Option (List VIdx)}
    (h : getOp cfg bn bnMeta s k e idxs = (s', .ans ds md mo call)) :
    (cont ds).Perm (bnAnswer bn (verOf s.reorgs e) k e (effReq s idxs)) ∧
      md = bnMeta (verOf s.reorgs e) k e := by
  unfold getOp at h
  have hb := begin_inv cfg bn bnMeta hi 0 k e idxs hok
  cases hbo : beginOp cfg bn bnMeta s 0 k e idxs with
  | mk s1 o =>
    rw [hbo] at h hb
    cases o with
    | pend c =>
      simp only at h
      obtain ⟨p, hp, hid, hk, hpe, hrq, hver, _, _, _⟩ := begin_pend_head cfg bn bnMeta hbo
      have hfq : s1.pending.find? (fun p => p.id == 0) = some p := by
        rw [hp]; simp [List.find?_cons, hid]
      have hout := finish_out cfg hfq
      rw [h] at hout
      simp only [Out.ans.injEq] at hout
      obtain ⟨hds, hmd, _, _⟩ := hout
      have hpok := hb.pendOk p (by rw [hp]; exact List.mem_cons_self ..)
      have := pend_answer cfg bn bnMeta hpok
      rw [hver, hk, hpe, hrq] at this
      refine ⟨by rw [hds]; exact this, ?_⟩
      rw [hmd, hpok.2.1, hver, hk, hpe]
    | ans ds' md' mo' call' =>
      simp only [Prod.mk.injEq, Out.ans.injEq] at h
      obtain ⟨hs, h1, h2, h3, h4⟩ := h
      subst h1; subst h2; subst h3; subst h4
      have := begin_hit_answer cfg bn bnMeta hi hbo
      exact ⟨this.1, this.2.1⟩
    | none => simp at h

/-- a call that finds nothing for the epoch asks the node for everything and returns exactly
the node's answer. -/
theorem miss_fetches {s : State} {k : Nat} {e : Epoch} (idxs : List VIdx)
    (h : lookup s.cache k e = none) :
    (getOp cfg bn bnMeta s k e idxs).2 =
      .ans (mkObjs (s.nextObj + 1) (bnAnswer bn (verOf s.reorgs e) k e (effReq s idxs)))
        (bnMeta (verOf s.reorgs e) k e) s.nextObj (some (effReq s idxs)) := by
  unfold getOp beginOp
  rw [h]
  simp [fetch, finishOp, List.find?_cons]

end

/-! ### private copies (variant with `cloneMeta` and `cloneSlices`) -/

def entObjs (ent : Entry) : List Nat := ent.mdObj :: objsOf ent.duties
def pendObjs (p : Pending) : List Nat := p.mdObj :: objsOf (p.cached ++ p.data)

theorem mem_objsOf_mkObjs (b : Nat) (ds : List Duty) (o : Nat) :
    o ∈ objsOf (mkObjs b ds) ↔ b ≤ o ∧ o < b + ds.length := by
  induction ds generalizing b with
  | nil => simp [mkObjs, objsOf]
  | cons d ds ih =>
    have ih' := ih (b + 1)
    simp only [objsOf] at ih'
    simp only [mkObjs, objsOf, List.map_cons, List.mem_cons, List.length_cons, ih']
    omega

theorem nodup_objsOf_mkObjs (b : Nat) (ds : List Duty) : (objsOf (mkObjs b ds)).Nodup := by
  induction ds generalizing b with
  | nil => simp [mkObjs, objsOf]
  | cons d ds ih =>
    have ih' := ih (b + 1)
    have hm := mem_objsOf_mkObjs (b + 1) ds b
    simp only [objsOf] at ih' hm
    simp only [mkObjs, objsOf, List.map_cons, List.nodup_cons, hm]
    exact ⟨by omega, ih'⟩

theorem objsOf_append (a b : List DObj) : objsOf (a ++ b) = objsOf a ++ objsOf b := by
  simp [objsOf]

structure PInv (s : State) : Prop where
  cacheLt : ∀ k e ent, lookup s.cache k e = some ent → ∀ o ∈ entObjs ent, o < s.nextObj
  handedLt : ∀ o ∈ s.handed, o < s.nextObj
  pendLt : ∀ p ∈ s.pending, ∀ o ∈ pendObjs p, o < s.nextObj
  sep : ∀ k e ent, lookup s.cache k e = some ent → ∀ o ∈ entObjs ent,
    o ∉ s.handed ∧ ∀ p ∈ s.pending, o ∉ pendObjs p
  handedNodup : s.handed.Nodup
  pendNodup : ∀ p ∈ s.pending, (pendObjs p).Nodup ∧ ∀ o ∈ pendObjs p, o ∉ s.handed
  pendPair : ∀ p ∈ s.pending, ∀ q ∈ s.pending, p ≠ q → ∀ o ∈ pendObjs p, o ∉ pendObjs q

theorem pinv_init (act : List VIdx) : PInv { active := act } :=
  ⟨by intro k e ent h; simp [lookup] at h, by simp, by simp, by intro k e ent h; simp [lookup] at h,
   by simp, by simp, by simp⟩

section
variable (cfg : Cfg) (bn : Nat → Nat → Epoch → List Duty) (bnMeta : Nat → Nat → Epoch → Nat)

/-- parking a call whose cached part consists of objects allocated since `s.nextObj`. -/
theorem fetch_pinv {s : State} (hi : PInv s) (id k : Nat) (e : Epoch) (reqV req : List VIdx)
    (cached : List DObj) (n1 : Nat) (hn : s.nextObj ≤ n1)
    (hc : ∀ o ∈ objsOf cached, s.nextObj ≤ o ∧ o < n1) (hcn : (objsOf cached).Nodup) :
    PInv (fetch bn bnMeta { s with nextObj := n1 } id k e reqV req cached).1 := by
  have hdata : ∀ o, o ∈ objsOf (mkObjs (n1 + 1) (bnAnswer bn (verOf s.reorgs e) k e req)) ↔
      n1 + 1 ≤ o ∧ o < n1 + 1 + (bnAnswer bn (verOf s.reorgs e) k e req).length :=
    mem_objsOf_mkObjs _ _
  have hnew : ∀ o, o ∈ n1 :: objsOf (cached ++ mkObjs (n1 + 1) (bnAnswer bn (verOf s.reorgs e) k e req)) →
      s.nextObj ≤ o ∧ o < n1 + 1 + (bnAnswer bn (verOf s.reorgs e) k e req).length := by
    intro o ho
    rw [objsOf_append, List.mem_cons, List.mem_append, hdata] at ho
    rcases ho with ho | ho | ho
    · omega
    · have := hc o ho; omega
    · omega
  constructor
  · intro k' e' ent h o ho
    have := hi.cacheLt k' e' ent (by simpa [fetch] using h) o ho
    simp only [fetch, length_mkObjs]; omega
  · intro o ho
    have := hi.handedLt o (by simpa [fetch] using ho)
    simp only [fetch, length_mkObjs]; omega
  · intro p hp o ho
    simp only [fetch, List.mem_cons] at hp
    simp only [fetch, length_mkObjs]
    rcases hp with hp | hp
    · subst hp
      have := hnew o (by simpa [pendObjs] using ho)
      omega
    · have := hi.pendLt p hp o ho; omega
  · intro k' e' ent h o ho
    have hlt := hi.cacheLt k' e' ent (by simpa [fetch] using h) o ho
    have hs := hi.sep k' e' ent (by simpa [fetch] using h) o ho
    refine ⟨by simpa [fetch] using hs.1, ?_⟩
    intro p hp
    simp only [fetch, List.mem_cons] at hp
    rcases hp with hp | hp
    · subst hp
      intro hmem
      have := hnew o (by simpa [pendObjs] using hmem)
      omega
    · exact hs.2 p hp
  · simpa [fetch] using hi.handedNodup
  · intro p hp
    simp only [fetch, List.mem_cons] at hp
    rcases hp with hp | hp
    · subst hp
      constructor
      · simp only [pendObjs, List.nodup_cons, objsOf_append]
        refine ⟨?_, ?_⟩
        · intro hmem
          rw [List.mem_append, hdata] at hmem
          rcases hmem with hmem | hmem
          · have := hc _ hmem; omega
          · omega
        · refine List.nodup_append.mpr ⟨hcn, nodup_objsOf_mkObjs _ _, ?_⟩
          intro a ha b hb hab
          subst hab
          have := hc _ ha
          have := (hdata a).mp hb
          omega
      · intro o ho hmem
        have := hnew o (by simpa [pendObjs] using ho)
        have := hi.handedLt o (by simpa [fetch] using hmem)
        omega
    · have := hi.pendNodup p hp
      exact ⟨this.1, by simpa [fetch] using this.2⟩
  · intro p hp q hq hne o ho
    simp only [fetch, List.mem_cons] at hp hq
    rcases hp with hp | hp <;> rcases hq with hq | hq
    · exact absurd (hp.trans hq.symm) hne
    · subst hp
      intro hmem
      have := hnew o (by simpa [pendObjs] using ho)
      have := hi.pendLt q hq o hmem
      omega
    · subst hq
      intro hmem
      have := hnew o (by simpa [pendObjs] using hmem)
      have := hi.pendLt p hp o ho
      omega
    · exact hi.pendPair p hp q hq hne o ho

theorem begin_pinv (h2 : cfg.cloneMeta = true) (h1 : cfg.cloneSlices = true) {s : State} (hi : PInv s)
    (id k : Nat) (e : Epoch) (idxs : List VIdx) :
    PInv (beginOp cfg bn bnMeta s id k e idxs).1 := by
  unfold beginOp
  cases hl : lookup s.cache k e with
  | none =>
    simp only
    have := fetch_pinv bn bnMeta hi id k e (effReq s idxs) (effReq s idxs) [] s.nextObj
      (Nat.le_refl _) (by simp [objsOf]) (by simp [objsOf])
    simpa using this
  | some ent =>
    simp only [h1, h2, if_true]
    generalize hH : (ent.duties.filter (fun o => decide (o.d.idx ∈ effReq s idxs))) = hit0
    have hhit : ∀ o, o ∈ objsOf (mkObjs s.nextObj (hit0.map (·.d))) ↔
        s.nextObj ≤ o ∧ o < s.nextObj + hit0.length := by
      intro o; rw [mem_objsOf_mkObjs]; simp
    split
    · -- served from the cache: everything handed out is freshly allocated
      constructor
      · intro k' e' ent' h o ho
        have := hi.cacheLt k' e' ent' h o ho
        simp only; omega
      · intro o ho
        simp only [List.mem_append, List.mem_cons, hhit] at ho
        simp only
        rcases ho with ho | ho | ho
        · have := hi.handedLt o ho; omega
        · omega
        · omega
      · intro p hp o ho
        have := hi.pendLt p hp o ho
        simp only; omega
      · intro k' e' ent' h o ho
        have hlt := hi.cacheLt k' e' ent' h o ho
        have hs := hi.sep k' e' ent' h o ho
        refine ⟨?_, hs.2⟩
        simp only [List.mem_append, List.mem_cons, hhit]
        rintro (h' | h' | h')
        · exact hs.1 h'
        · omega
        · omega
      · simp only
        refine List.nodup_append.mpr ⟨hi.handedNodup, ?_, ?_⟩
        · simp only [List.nodup_cons, hhit]
          exact ⟨by omega, nodup_objsOf_mkObjs _ _⟩
        · intro a ha b hb hab
          subst hab
          have := hi.handedLt a ha
          simp only [List.mem_cons, hhit] at hb
          omega
      · intro p hp
        have := hi.pendNodup p hp
        refine ⟨this.1, ?_⟩
        intro o ho
        simp only [List.mem_append, List.mem_cons, hhit]
        have hlt := hi.pendLt p hp o ho
        rintro (h' | h' | h')
        · exact this.2 o ho h'
        · omega
        · omega
      · exact hi.pendPair
    · apply fetch_pinv bn bnMeta hi
      · omega
      · intro o ho; exact (hhit o).mp ho
      · exact nodup_objsOf_mkObjs _ _

theorem storeOrAmend_objs (old : Option Entry) (p : Pending) (copies : List DObj) (mo : Nat) (o : Nat)
    (ho : o ∈ entObjs (storeOrAmend cfg old p copies mo)) :
    (∃ ent, old = some ent ∧ o ∈ entObjs ent) ∨ o = mo ∨ o ∈ objsOf copies := by
  cases old with
  | none =>
    simp only [storeOrAmend, entObjs, List.mem_cons] at ho
    rcases ho with ho | ho
    · exact Or.inr (Or.inl ho)
    · exact Or.inr (Or.inr ho)
  | some ent =>
    simp only [storeOrAmend, entObjs, List.mem_cons, objsOf_append, List.mem_append] at ho
    rcases ho with ho | ho | ho
    · exact Or.inl ⟨ent, rfl, by simp [entObjs, ho]⟩
    · exact Or.inl ⟨ent, rfl, by simp [entObjs, ho]⟩
    · right; right
      simp only [objsOf, List.mem_map, List.mem_flatMap, List.mem_filter] at ho ⊢
      obtain ⟨a, ⟨_, _, ha, _⟩, hao⟩ := ho
      exact ⟨a, ha, hao⟩

theorem finish_pinv (h2 : cfg.cloneMeta = true) (h1 : cfg.cloneSlices = true) {s : State} (hi : PInv s)
    (id : Nat) : PInv (finishOp cfg s id).1 := by
  unfold finishOp
  cases hf : s.pending.find? (fun p => p.id == id) with
  | none => exact hi
  | some p =>
    obtain ⟨hpm, hpid⟩ := find_mem hf
    simp only [h1, h2, if_true]
    have hcop : ∀ o, o ∈ objsOf (mkObjs s.nextObj (p.data.map (·.d))) ↔
        s.nextObj ≤ o ∧ o < s.nextObj + p.data.length := by
      intro o; rw [mem_objsOf_mkObjs]; simp
    have hrest : ∀ q, q ∈ s.pending.filter (fun q => !(q.id == id)) → q ∈ s.pending ∧ q ≠ p := by
      intro q hq
      have := List.mem_filter.mp hq
      refine ⟨this.1, ?_⟩
      intro hqp; subst hqp
      simp [hpid] at this
    -- objects of any entry of the new maps: old ones of the same maps, or allocated just now
    have hcache : ∀ k e ent, lookup (if (cfg.guardInflight && !(p.gen == s.reorgs.length)) = true then s.cache
          else setCache s.cache p.kind p.epoch (storeOrAmend cfg (lookup s.cache p.kind p.epoch) p
            (mkObjs s.nextObj (p.data.map (·.d))) (s.nextObj + p.data.length))) k e = some ent →
        ∀ o ∈ entObjs ent, (∃ k' e' ent', lookup s.cache k' e' = some ent' ∧ o ∈ entObjs ent') ∨
          (s.nextObj ≤ o ∧ o < s.nextObj + p.data.length + 1) := by
      intro k e ent h o ho
      split at h
      · exact Or.inl ⟨k, e, ent, h, ho⟩
      · rw [lookup_setCache] at h
        split at h
        · simp only [Option.some.injEq] at h
          rw [← h] at ho
          rcases storeOrAmend_objs cfg _ _ _ _ o ho with ⟨ent', he', ho'⟩ | ho' | ho'
          · exact Or.inl ⟨_, _, ent', he', ho'⟩
          · right; omega
          · right; have := (hcop o).mp ho'; omega
        · exact Or.inl ⟨k, e, ent, h, ho⟩
    constructor
    · intro k e ent h o ho
      simp only at h ⊢
      rcases hcache k e ent h o ho with ⟨k', e', ent', h', ho'⟩ | h'
      · have := hi.cacheLt k' e' ent' h' o ho'; omega
      · omega
    · intro o ho
      simp only [List.mem_append] at ho
      simp only
      rcases ho with ho | ho
      · have := hi.handedLt o ho; omega
      · have := hi.pendLt p hpm o (by simpa [pendObjs] using ho); omega
    · intro q hq o ho
      have := hi.pendLt q (hrest q hq).1 o ho
      simp only; omega
    · intro k e ent h o ho
      simp only at h ⊢
      rcases hcache k e ent h o ho with ⟨k', e', ent', h', ho'⟩ | h'
      · have hs := hi.sep k' e' ent' h' o ho'
        refine ⟨?_, fun q hq => hs.2 q (hrest q hq).1⟩
        simp only [List.mem_append]
        rintro (hm | hm)
        · exact hs.1 hm
        · exact hs.2 p hpm (by simpa [pendObjs] using hm)
      · refine ⟨?_, ?_⟩
        · simp only [List.mem_append]
          rintro (hm | hm)
          · have := hi.handedLt o hm; omega
          · have := hi.pendLt p hpm o (by simpa [pendObjs] using hm); omega
        · intro q hq hm
          have := hi.pendLt q (hrest q hq).1 o hm; omega
    · simp only
      have hp := hi.pendNodup p hpm
      refine List.nodup_append.mpr ⟨hi.handedNodup, by simpa [pendObjs] using hp.1, ?_⟩
      intro a ha b hb hab
      subst hab
      exact hp.2 a (by simpa [pendObjs] using hb) ha
    · intro q hq
      obtain ⟨hqm, hne⟩ := hrest q hq
      have := hi.pendNodup q hqm
      refine ⟨this.1, ?_⟩
      intro o ho
      simp only [List.mem_append]
      rintro (hm | hm)
      · exact this.2 o ho hm
      · exact hi.pendPair q hqm p hpm hne o ho (by simpa [pendObjs] using hm)
    · intro q hq r hr hne o ho
      exact hi.pendPair q (hrest q hq).1 r (hrest r hr).1 hne o ho

theorem get_pinv (h2 : cfg.cloneMeta = true) (h1 : cfg.cloneSlices = true) {s : State} (hi : PInv s)
    (k : Nat) (e : Epoch) (idxs : List VIdx) : PInv (getOp cfg bn bnMeta s k e idxs).1 := by
  unfold getOp
  have hb := begin_pinv cfg bn bnMeta h2 h1 hi 0 k e idxs
  cases hbo : beginOp cfg bn bnMeta s 0 k e idxs with
  | mk s1 o =>
    rw [hbo] at hb
    cases o with
    | pend c => exact finish_pinv cfg h2 h1 hb 0
    | ans _ _ _ _ => exact hb
    | none => exact hb

theorem step_pinv (h2 : cfg.cloneMeta = true) (h1 : cfg.cloneSlices = true) {s : State} (hi : PInv s)
    (op : Op) : PInv (step cfg bn bnMeta s op).1 := by
  cases op with
  | get k e idxs => exact get_pinv cfg bn bnMeta h2 h1 hi k e idxs
  | begin id k e idxs => exact begin_pinv cfg bn bnMeta h2 h1 hi id k e idxs
  | finish id => exact finish_pinv cfg h2 h1 hi id
  | reorg r =>
    have hsub : ∀ k e ent, lookup (step cfg bn bnMeta s (.reorg r)).1.cache k e = some ent →
        lookup s.cache k e = some ent := by
      intro k e ent h
      simp only [step, lookup_dropEpochs] at h
      split at h
      · cases h
      · exact h
    exact ⟨fun k e ent h => hi.cacheLt k e ent (hsub k e ent h), hi.handedLt, hi.pendLt,
      fun k e ent h => hi.sep k e ent (hsub k e ent h), hi.handedNodup, hi.pendNodup, hi.pendPair⟩
  | trim t =>
    simp only [step]
    split
    · exact hi
    · have hsub : ∀ k e ent, lookup (dropEpochs s.cache (fun e => decide (e < t - 3))) k e = some ent →
          lookup s.cache k e = some ent := by
        intro k e ent h
        rw [lookup_dropEpochs] at h
        split at h
        · cases h
        · exact h
      exact ⟨fun k e ent h => hi.cacheLt k e ent (hsub k e ent h), hi.handedLt, hi.pendLt,
        fun k e ent h => hi.sep k e ent (hsub k e ent h), hi.handedNodup, hi.pendNodup, hi.pendPair⟩
  | setActive idxs =>
    exact ⟨hi.cacheLt, hi.handedLt, hi.pendLt, hi.sep, hi.handedNodup, hi.pendNodup, hi.pendPair⟩

theorem pinv_run (h2 : cfg.cloneMeta = true) (h1 : cfg.cloneSlices = true) (act : List VIdx)
    (ops : List Op) : PInv (run cfg bn bnMeta { active := act } ops) := by
  have : ∀ s, PInv s → PInv (run cfg bn bnMeta s ops) := by
    induction ops with
    | nil => intro s h; exact h
    | cons o os ih => intro s h; exact ih _ (step_pinv cfg bn bnMeta h2 h1 h o)
  exact this _ (pinv_init act)

end

end CharonV.DutiesCache
