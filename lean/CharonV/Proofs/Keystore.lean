/-
Helper lemmas for `CharonV.Props.C12Keystore` (model: `CharonV.Model.Keystore`): strings (prefixes, decimal digits,
the file-name expression, the `.json` → `.txt` replacement), the association-list file system, the store / load
round trip, `SequencedKeys`, `KeysharesToValidatorPubkey`.
-/
import CharonV.Model.Keystore
import Mathlib.Data.List.Nodup
import Mathlib.Data.List.Perm.Basic
import Mathlib.Data.List.Perm.Subperm

namespace CharonV.Keystore

/-! ### strings -/

theorem stripPrefix_append (p s : Str) : stripPrefix p (p ++ s) = some s := by
  induction p with
  | nil => cases s <;> rfl
  | cons a p ih => simp [stripPrefix, ih]

theorem stripPrefix_eq_some {p s r : Str} : stripPrefix p s = some r ↔ s = p ++ r := by
  constructor
  · induction p generalizing s with
    | nil => cases s <;> simp [stripPrefix]
    | cons a p ih =>
      cases s with
      | nil => simp [stripPrefix]
      | cons c cs =>
        simp only [stripPrefix]
        split
        · rename_i h; subst h; intro h; simp [ih h]
        · simp
  · intro h; subst h; exact stripPrefix_append p r

theorem hasPrefix_iff {p s : Str} : hasPrefix p s = true ↔ ∃ r, s = p ++ r := by
  unfold hasPrefix
  constructor
  · intro h
    cases hs : stripPrefix p s with
    | none => simp [hs] at h
    | some r => exact ⟨r, stripPrefix_eq_some.1 hs⟩
  · rintro ⟨r, rfl⟩; simp [stripPrefix_append]

/-- the declarative reading of the expression anchored at the start of `s`, with capture group `ds`. -/
def MatchAt (s ds : Str) : Prop :=
  ∃ ins c rest, (ins = [] ∨ ins = insP) ∧ ds ≠ [] ∧ (∀ x ∈ ds, x.isDigit = true) ∧ c ≠ '\n' ∧
    s = ksP ++ (ins ++ (ds ++ c :: (jsonW ++ rest)))

theorem takeWhile_append_stop {p : Char → Bool} (l : Str) (x : Char) (t : Str)
    (hl : ∀ c ∈ l, p c = true) (hx : p x = false) :
    (l ++ x :: t).takeWhile p = l ∧ (l ++ x :: t).dropWhile p = x :: t := by
  induction l with
  | nil => simp [hx]
  | cons a l ih =>
    have ha : p a = true := hl a (by simp)
    have := ih (fun c hc => hl c (by simp [hc]))
    simp [ha, this]

theorem takeWhile_all {p : Char → Bool} (l : Str) : ∀ c ∈ l.takeWhile p, p c = true := by
  induction l with
  | nil => simp
  | cons a l ih =>
    intro c hc
    rw [List.takeWhile_cons] at hc
    split at hc
    · simp at hc; rcases hc with rfl | hc
      · assumption
      · exact ih c hc
    · simp at hc

theorem stripPrefix_insP_digit (d : Char) (t : Str) (hd : d.isDigit = true) : stripPrefix insP (d :: t) = none := by
  simp only [insP, stripPrefix]
  split
  · rename_i h; subst h; exact absurd hd (by decide)
  · rfl

theorem matchAt_of_Match {s ds : Str} (h : MatchAt s ds) : matchAt s = some ds := by
  obtain ⟨ins, c, rest, hins, hne, hdig, hc, rfl⟩ := h
  unfold matchAt
  rw [stripPrefix_append]
  obtain ⟨d, dt, rfl⟩ := List.exists_cons_of_ne_nil hne
  have hd : d.isDigit = true := hdig d (by simp)
  have hr' : skipIns (ins ++ (d :: dt ++ c :: (jsonW ++ rest))) = d :: dt ++ c :: (jsonW ++ rest) := by
    unfold skipIns
    rcases hins with rfl | rfl
    · simp only [List.nil_append, List.cons_append]; rw [stripPrefix_insP_digit d _ hd]
    · rw [stripPrefix_append]
  simp only [hr']
  by_cases hcd : c.isDigit = true
  · -- the run is ds ++ [c], the rest starts with json
    have hsplit : d :: dt ++ c :: (jsonW ++ rest) = (d :: dt ++ [c]) ++ 'j' :: (['s','o','n'] ++ rest) := by
      simp [jsonW]
    have ht := takeWhile_append_stop (p := Char.isDigit) (d :: dt ++ [c]) 'j' (['s','o','n'] ++ rest)
      (by intro x hx; simp at hx; rcases hx with hx | hx | hx
          · subst hx; exact hd
          · exact hdig x (by simp [hx])
          · subst hx; exact hcd) (by decide)
    rw [hsplit, ht.1, ht.2]
    have hdl : (d :: (dt ++ [c])).dropLast = d :: dt := by
      have := List.dropLast_concat (l₁ := d :: dt) (b := c)
      simpa using this
    simp [tailMatch, hasPrefix, stripPrefix, jsonW, hdl]
  · have hcd' : c.isDigit = false := by simpa using hcd
    have ht := takeWhile_append_stop (p := Char.isDigit) (d :: dt) c (jsonW ++ rest) hdig hcd'
    rw [ht.1, ht.2]
    have : hasPrefix jsonW (jsonW ++ rest) = true := hasPrefix_iff.2 ⟨rest, rfl⟩
    simp [tailMatch, hc, this]

theorem Match_of_matchAt {s ds : Str} (h : matchAt s = some ds) : MatchAt s ds := by
  unfold matchAt at h
  cases hs : stripPrefix ksP s with
  | none => simp [hs] at h
  | some r =>
    simp only [hs] at h
    have hs' := stripPrefix_eq_some.1 hs
    -- the optional insecure- part
    obtain ⟨ins, r', hins, hr, hr'⟩ : ∃ ins r', (ins = [] ∨ ins = insP) ∧ r = ins ++ r' ∧ skipIns r = r' := by
      unfold skipIns
      cases hi : stripPrefix insP r with
      | none => exact ⟨[], r, Or.inl rfl, rfl, rfl⟩
      | some r2 => exact ⟨insP, r2, Or.inr rfl, stripPrefix_eq_some.1 hi, rfl⟩
    simp only [hr'] at h
    split at h
    · simp at h
    · rename_i hne
      have hsplit : r' = r'.takeWhile Char.isDigit ++ r'.dropWhile Char.isDigit := (List.takeWhile_append_dropWhile).symm
      have hdig : ∀ x ∈ r'.takeWhile Char.isDigit, x.isDigit = true := takeWhile_all r'
      generalize hA : r'.takeWhile Char.isDigit = A at *
      generalize hB : r'.dropWhile Char.isDigit = B at *
      cases B with
      | nil => simp [tailMatch] at h
      | cons c rr =>
        simp only [tailMatch] at h
        split at h
        · rename_i hc
          obtain ⟨rest, hrest⟩ := hasPrefix_iff.1 hc.2
          simp at h; subst h
          exact ⟨ins, c, rest, hins, hne, hdig, hc.1, by rw [hs', hr, hsplit, hrest]⟩
        · split at h
          · rename_i hc
            obtain ⟨rest, hrest⟩ := hasPrefix_iff.1 hc.2
            simp at h; subst h
            have hA2 : A ≠ [] := hne
            have hlast : A = A.dropLast ++ [A.getLast hA2] := (List.dropLast_concat_getLast hA2).symm
            have hlastdig : (A.getLast hA2).isDigit = true := hdig _ (List.getLast_mem hA2)
            refine ⟨ins, A.getLast hA2, rest, hins, ?_, ?_, ?_, ?_⟩
            · intro h0
              have : A.dropLast.length = A.length - 1 := List.length_dropLast
              rw [h0] at this; simp at this; omega
            · intro x hx; exact hdig x (List.dropLast_subset _ hx)
            · intro h0; rw [h0] at hlastdig; revert hlastdig; decide
            · rw [hs', hr, hsplit, hrest]
              conv => lhs; rw [hlast]
              simp
          · simp at h

theorem matchAt_iff {s ds : Str} : matchAt s = some ds ↔ MatchAt s ds :=
  ⟨Match_of_matchAt, matchAt_of_Match⟩


/-! ### decimal digits -/

theorem digitVal_digitChar (d : Nat) (h : d < 10) : digitVal (digitChar d) = d := by
  have : ∀ d : Fin 10, digitVal (digitChar d.val) = d.val := by decide
  exact this ⟨d, h⟩

theorem isDigit_digitChar (d : Nat) (h : d < 10) : (digitChar d).isDigit = true := by
  have : ∀ d : Fin 10, (digitChar d.val).isDigit = true := by decide
  exact this ⟨d, h⟩

theorem toDecAux_fuel (f g n : Nat) (hf : n < f) (hg : n < g) : toDecAux f n = toDecAux g n := by
  induction f generalizing g n with
  | zero => omega
  | succ f ih =>
    cases g with
    | zero => omega
    | succ g =>
      simp only [toDecAux]
      split
      · rfl
      · rw [ih g (n / 10) (by omega) (by omega)]

/-- the defining equation of `%d`. -/
theorem toDec_eq (n : Nat) : toDec n = if n < 10 then [digitChar n] else toDec (n / 10) ++ [digitChar (n % 10)] := by
  conv => lhs; unfold toDec; simp only [toDecAux]
  split
  · rfl
  · rw [toDecAux_fuel n (n / 10 + 1) (n / 10) (by omega) (by omega)]; rfl

theorem toDec_ne_nil (n : Nat) : toDec n ≠ [] := by
  rw [toDec_eq]; split <;> simp

theorem toDec_digits (n : Nat) : ∀ c ∈ toDec n, c.isDigit = true := by
  induction n using Nat.strongRecOn with
  | _ n ih =>
    rw [toDec_eq]
    split
    · intro c hc; simp at hc; subst hc; exact isDigit_digitChar n (by omega)
    · intro c hc
      simp at hc
      rcases hc with hc | hc
      · exact ih (n / 10) (by omega) c hc
      · subst hc; exact isDigit_digitChar _ (by omega)

theorem parseDec_append_one (l : Str) (c : Char) : parseDec (l ++ [c]) = parseDec l * 10 + digitVal c := by
  simp [parseDec, List.foldl_append]

theorem parseDec_toDec (n : Nat) : parseDec (toDec n) = n := by
  induction n using Nat.strongRecOn with
  | _ n ih =>
    rw [toDec_eq]
    split
    · rename_i h; simp [parseDec, digitVal_digitChar n h]
    · rw [parseDec_append_one, ih (n / 10) (by omega), digitVal_digitChar _ (by omega)]; omega


/-! ### leftmost match -/

theorem matchAt_nil : matchAt [] = none := by simp [matchAt, stripPrefix, ksP]

theorem findMatch_of_matchAt {s ds : Str} (h : matchAt s = some ds) : findMatch s = some ds := by
  cases s with
  | nil => simp [matchAt_nil] at h
  | cons c cs => simp [findMatch, h]

theorem findMatch_none_iff {s : Str} : findMatch s = none ↔ ∀ u v, s = u ++ v → matchAt v = none := by
  induction s with
  | nil =>
    simp only [findMatch, true_iff]
    intro u v h
    have : v = [] := by
      have := congrArg List.length h; simp at this; exact List.eq_nil_of_length_eq_zero (by omega)
    subst this; exact matchAt_nil
  | cons c cs ih =>
    simp only [findMatch]
    constructor
    · intro h u v huv
      cases hm : matchAt (c :: cs) with
      | some d => simp [hm] at h
      | none =>
        simp only [hm] at h
        cases u with
        | nil => simp at huv; subst huv; exact hm
        | cons a u =>
          simp at huv
          exact ih.1 h u v huv.2
    · intro h
      have hm := h [] (c :: cs) rfl
      simp only [hm]
      exact ih.2 (fun u v huv => h (c :: u) v (by simp [huv]))

theorem findMatch_some_iff {s ds : Str} : findMatch s = some ds ↔
    ∃ u v, s = u ++ v ∧ matchAt v = some ds ∧ ∀ u1 u2, u = u1 ++ u2 → u2 ≠ [] → matchAt (u2 ++ v) = none := by
  induction s with
  | nil =>
    simp only [findMatch]
    constructor
    · intro h; cases h
    · rintro ⟨u, v, huv, hm, _⟩
      have : v = [] := by
        have := congrArg List.length huv; simp at this; exact List.eq_nil_of_length_eq_zero (by omega)
      subst this; simp [matchAt_nil] at hm
  | cons c cs ih =>
    simp only [findMatch]
    constructor
    · intro h
      cases hm : matchAt (c :: cs) with
      | some d =>
        simp only [hm] at h
        cases h
        exact ⟨[], c :: cs, rfl, hm, fun u1 u2 h12 hne => by
          have : u2 = [] := by
            have := congrArg List.length h12; simp at this; exact List.eq_nil_of_length_eq_zero (by omega)
          exact absurd this hne⟩
      | none =>
        simp only [hm] at h
        obtain ⟨u, v, huv, hmv, hearly⟩ := ih.1 h
        refine ⟨c :: u, v, by simp [huv], hmv, ?_⟩
        intro u1 u2 h12 hne
        cases u1 with
        | nil => simp at h12; subst h12; simpa [huv] using hm
        | cons a u1 =>
          simp at h12
          exact hearly u1 u2 h12.2 hne
    · rintro ⟨u, v, huv, hmv, hearly⟩
      cases u with
      | nil =>
        simp at huv; subst huv; simp [hmv]
      | cons a u =>
        simp at huv
        obtain ⟨rfl, rfl⟩ := huv
        have hm : matchAt (c :: (u ++ v)) = none := hearly [] (c :: u) rfl (by simp)
        simp only [hm]
        exact ih.2 ⟨u, v, rfl, hmv, fun u1 u2 h12 hne => hearly (c :: u1) u2 (by simp [h12]) hne⟩

/-! ### no occurrence of a pattern in a directory path -/

/-- `pat` occurs nowhere in `s` (as a contiguous substring). -/
def noOcc (pat : Str) : Str → Bool
  | [] => true
  | c :: cs => !hasPrefix pat (c :: cs) && noOcc pat cs

theorem stripPrefix_none_before_slash (pat t x : Str) (hs : '/' ∉ pat) (h : stripPrefix pat t = none) :
    stripPrefix pat (t ++ '/' :: x) = none := by
  induction pat generalizing t with
  | nil => cases t <;> simp [stripPrefix] at h
  | cons a p ih =>
    cases t with
    | nil =>
      simp only [List.nil_append, stripPrefix]
      split
      · rename_i ha; subst ha; simp at hs
      · rfl
    | cons b t =>
      simp only [List.cons_append, stripPrefix] at h ⊢
      split
      · rename_i hab
        simp only [hab, if_true] at h
        exact ih t (fun hm => hs (by simp [hm])) h
      · rfl

theorem hasPrefix_false_iff {p s : Str} : hasPrefix p s = false ↔ stripPrefix p s = none := by
  unfold hasPrefix; cases stripPrefix p s <;> simp

/-- the directory part of a path is invisible to the file-name expression and to the password-file replacement. -/
def DirInert (dir : Str) : Prop :=
  ∀ name, findMatch (join dir name) = findMatch name ∧ pwFileOf (join dir name) = join dir (pwFileOf name)

theorem findMatch_skip_dir (dir name : Str) (h : noOcc ksP dir = true) :
    findMatch (dir ++ '/' :: name) = findMatch name := by
  induction dir with
  | nil =>
    simp only [List.nil_append, findMatch]
    have : matchAt ('/' :: name) = none := by simp [matchAt, stripPrefix, ksP]
    simp [this]
  | cons a d ih =>
    simp only [noOcc, Bool.and_eq_true, Bool.not_eq_true'] at h
    have h1 := stripPrefix_none_before_slash ksP (a :: d) name (by decide) (hasPrefix_false_iff.1 h.1)
    simp only [List.cons_append] at h1
    have : matchAt (a :: (d ++ '/' :: name)) = none := by simp [matchAt, h1]
    simp only [List.cons_append] at this ⊢
    simp only [findMatch, this]
    exact ih h.2

theorem replaceFirst_skip_dir (pat rep dir name : Str) (hs : '/' ∉ pat) (hne : pat ≠ [])
    (h : noOcc pat dir = true) :
    replaceFirst pat rep (dir ++ '/' :: name) = dir ++ '/' :: replaceFirst pat rep name := by
  induction dir with
  | nil =>
    simp only [List.nil_append, replaceFirst]
    obtain ⟨a, p, rfl⟩ := List.exists_cons_of_ne_nil hne
    have : stripPrefix (a :: p) ('/' :: name) = none := by
      simp only [stripPrefix]
      split
      · rename_i ha; subst ha; simp at hs
      · rfl
    simp [this]
  | cons a d ih =>
    simp only [noOcc, Bool.and_eq_true, Bool.not_eq_true'] at h
    have h1 := stripPrefix_none_before_slash pat (a :: d) name hs (hasPrefix_false_iff.1 h.1)
    simp only [List.cons_append] at h1 ⊢
    simp only [replaceFirst, h1]
    rw [ih h.2]

/-- a syntactic sufficient condition: neither `keystore-` nor `.json` occurs in the directory path. -/
theorem dirInert_of_noOcc {dir : Str} (h1 : noOcc ksP dir = true) (h2 : noOcc dotJson dir = true) : DirInert dir :=
  fun name => ⟨findMatch_skip_dir dir name h1,
    replaceFirst_skip_dir dotJson dotTxt dir name (by decide) (by decide) h2⟩

/-! ### the names `StoreKeys` writes -/

/-- the password file name of index `i`. -/
def pwName (insecure : Bool) (i : Nat) : Str :=
  ksP ++ ((if insecure then insP else []) ++ (toDec i ++ dotTxt))

theorem digit_ne_dot {c : Char} (h : c.isDigit = true) : c ≠ '.' := by
  intro h0; subst h0; exact absurd h (by decide)

theorem digit_ne_slash {c : Char} (h : c.isDigit = true) : c ≠ '/' := by
  intro h0; subst h0; exact absurd h (by decide)

theorem storeName_match (b : Bool) (i : Nat) : MatchAt (storeName b i) (toDec i) :=
  ⟨if b then insP else [], '.', [], by cases b <;> simp, toDec_ne_nil i, toDec_digits i, by decide,
    by simp [storeName, dotJson, jsonW]⟩

theorem findMatch_storeName (b : Bool) (i : Nat) : findMatch (storeName b i) = some (toDec i) :=
  findMatch_of_matchAt (matchAt_of_Match (storeName_match b i))

theorem extract_storeName {dir : Str} (hd : DirInert dir) (b : Bool) (i : Nat) (hi : i < 2 ^ 63) :
    extractFileIndex (join dir (storeName b i)) = .idx i := by
  unfold extractFileIndex
  rw [(hd _).1, findMatch_storeName]
  simp [parseDec_toDec, hi]

theorem replaceFirst_skip (rep a s : Str) (ha : ∀ c ∈ a, c ≠ '.') :
    replaceFirst dotJson rep (a ++ s) = a ++ replaceFirst dotJson rep s := by
  induction a with
  | nil => rfl
  | cons c a ih =>
    have hc : c ≠ '.' := ha c (by simp)
    have : stripPrefix dotJson (c :: (a ++ s)) = none := by
      simp only [dotJson, stripPrefix]
      split
      · rename_i h; exact absurd h.symm hc
      · rfl
    simp only [List.cons_append, replaceFirst, this]
    rw [ih (fun x hx => ha x (by simp [hx]))]

theorem stem_no_dot (b : Bool) (i : Nat) : ∀ c ∈ ksP ++ ((if b then insP else []) ++ toDec i), c ≠ '.' := by
  intro c hc
  simp only [List.mem_append] at hc
  rcases hc with hc | hc | hc
  · revert c; decide
  · cases b
    · simp at hc
    · revert c; decide
  · exact digit_ne_dot (toDec_digits i c hc)

theorem pwFileOf_storeName (b : Bool) (i : Nat) : pwFileOf (storeName b i) = pwName b i := by
  have h := replaceFirst_skip dotTxt (ksP ++ ((if b then insP else []) ++ toDec i)) dotJson (stem_no_dot b i)
  have e : storeName b i = (ksP ++ ((if b then insP else []) ++ toDec i)) ++ dotJson := by simp [storeName]
  unfold pwFileOf
  rw [e, h]
  simp [pwName, replaceFirst, stripPrefix, dotJson, dotTxt]

theorem pwFileOf_store_path {dir : Str} (hd : DirInert dir) (b : Bool) (i : Nat) :
    pwFileOf (join dir (storeName b i)) = join dir (pwName b i) := by
  rw [(hd _).2, pwFileOf_storeName]

theorem hasSuffix_append (p a : Str) : hasSuffix p (a ++ p) = true := by
  unfold hasSuffix; rw [List.reverse_append]; exact hasPrefix_iff.2 ⟨_, rfl⟩

theorem globMatch_storeName (b : Bool) (i : Nat) : globMatch (storeName b i) = true := by
  unfold globMatch storeName
  rw [stripPrefix_append]
  have := hasSuffix_append dotJson ((if b then insP else []) ++ toDec i)
  simpa using this

theorem globMatch_pwName (b : Bool) (i : Nat) : globMatch (pwName b i) = false := by
  unfold globMatch pwName
  rw [stripPrefix_append]
  simp [hasSuffix, hasPrefix, stripPrefix, dotJson, dotTxt, List.reverse_append]

theorem storeName_inj {b : Bool} {i j : Nat} (h : storeName b i = storeName b j) : i = j := by
  unfold storeName at h
  have h1 := List.append_cancel_left (List.append_cancel_left h)
  have h2 := List.append_cancel_right h1
  have := congrArg parseDec h2
  simpa [parseDec_toDec] using this

theorem pwName_inj {b : Bool} {i j : Nat} (h : pwName b i = pwName b j) : i = j := by
  unfold pwName at h
  have h1 := List.append_cancel_left (List.append_cancel_left h)
  have h2 := List.append_cancel_right h1
  have := congrArg parseDec h2
  simpa [parseDec_toDec] using this

theorem storeName_ne_pwName (b : Bool) (i j : Nat) : storeName b i ≠ pwName b j := by
  intro h
  have := congrArg List.reverse h
  simp [storeName, pwName, dotJson, dotTxt, List.reverse_append] at this

theorem storeName_no_slash (b : Bool) (i : Nat) : '/' ∉ storeName b i := by
  intro h
  simp only [storeName, List.mem_append] at h
  rcases h with h | h | h | h
  · revert h; decide
  · cases b
    · simp at h
    · revert h; decide
  · exact digit_ne_slash (toDec_digits i _ h) rfl
  · revert h; decide

theorem storeName_ne_nil (b : Bool) (i : Nat) : storeName b i ≠ [] := by simp [storeName, ksP]

theorem join_inj {dir a b : Str} (h : join dir a = join dir b) : a = b := by
  unfold join at h
  have := List.append_cancel_left h
  simpa using this

/-! ### SequencedKeys -/

/-- the slot of a file in the result slice. -/
def KeyFile.ix (f : KeyFile) : Nat := f.fileIndex.toNat

/-- the assignments of the loop of `SequencedKeys`. -/
def setAll : List KeyFile → List Nat → List Nat
  | [], resp => resp
  | f :: fs, resp => setAll fs (resp.set f.ix f.secret)

theorem getD_set {α : Type} (l : List α) (i j : Nat) (a d : α) :
    (l.set i a).getD j d = if i = j ∧ i < l.length then a else l.getD j d := by
  simp only [List.getD_eq_getElem?_getD, List.getElem?_set]
  by_cases hij : i = j
  · subst hij
    by_cases hl : i < l.length
    · simp [hl]
    · simp [hl]
  · simp [hij]

theorem length_setAll (fs : List KeyFile) (resp : List Nat) : (setAll fs resp).length = resp.length := by
  induction fs generalizing resp with
  | nil => rfl
  | cons f fs ih => simp [setAll, ih]

theorem setAll_other (fs : List KeyFile) (resp : List Nat) (j : Nat) (h : ∀ f ∈ fs, f.ix ≠ j) :
    (setAll fs resp).getD j 0 = resp.getD j 0 := by
  induction fs generalizing resp with
  | nil => rfl
  | cons f fs ih =>
    simp only [setAll]
    rw [ih _ (fun g hg => h g (by simp [hg])), getD_set]
    have := h f (by simp)
    simp [this]

theorem setAll_get (fs : List KeyFile) (resp : List Nat) (hnd : (fs.map KeyFile.ix).Nodup)
    (hr : ∀ f ∈ fs, f.ix < resp.length) : ∀ f ∈ fs, (setAll fs resp).getD f.ix 0 = f.secret := by
  induction fs generalizing resp with
  | nil => simp
  | cons g fs ih =>
    simp only [List.map_cons, List.nodup_cons, List.mem_map, not_exists, not_and] at hnd
    intro f hf
    simp only [setAll]
    rcases List.mem_cons.1 hf with rfl | hf
    · rw [setAll_other _ _ _ (fun x hx => hnd.1 x hx), getD_set]
      simp [hr f (by simp)]
    · exact ih _ hnd.2 (fun x hx => by simpa using hr x (by simp [hx])) f hf

theorem seqLoop_ok_iff (fx : Fixes) (hfx : fx.seenSlice = true) (n : Nat) (fs : List KeyFile) (resp r : List Nat)
    (seen : List Bool) (hlen : seen.length = n) :
    seqLoop fx n fs resp seen = .ok r ↔
      (∀ f ∈ fs, 0 ≤ f.fileIndex ∧ f.fileIndex < n ∧ seen.getD f.ix false = false) ∧
      (fs.map KeyFile.ix).Nodup ∧ r = setAll fs resp := by
  induction fs generalizing resp seen with
  | nil =>
    simp only [seqLoop, setAll]
    constructor
    · intro h; cases h; simp
    · rintro ⟨_, _, h⟩; rw [h]
  | cons f fs ih =>
    rw [seqLoop]
    simp only [hfx, if_true]
    split
    · rename_i hni
      have h1 : f.fileIndex = -1 := by simpa [KeyFile.hasIndex] using hni
      constructor
      · intro h; cases h
      · intro h; have := (h.1 f (by simp)).1; omega
    · split
      · rename_i h2
        constructor
        · intro h; cases h
        · intro h; have := h.1 f (by simp); omega
      · rename_i h2
        have hix : f.ix < seen.length := by unfold KeyFile.ix; omega
        split
        · rename_i h3
          constructor
          · intro h; cases h
          · intro h
            have := (h.1 f (by simp)).2.2
            simp only [KeyFile.ix] at this
            rw [this] at h3; cases h3
        · rename_i h3
          have h3' : seen.getD f.ix false = false := by simpa [KeyFile.ix] using h3
          rw [ih (resp.set f.fileIndex.toNat f.secret) (seen.set f.fileIndex.toNat true) (by simp [hlen])]
          constructor
          · rintro ⟨ha, hnd, hr⟩
            refine ⟨?_, ?_, ?_⟩
            · intro g hg
              rcases List.mem_cons.1 hg with rfl | hg
              · exact ⟨by omega, by omega, h3'⟩
              · have := ha g hg
                refine ⟨this.1, this.2.1, ?_⟩
                have h4 := this.2.2
                rw [getD_set] at h4
                split at h4
                · cases h4
                · exact h4
            · simp only [List.map_cons, List.nodup_cons]
              refine ⟨?_, hnd⟩
              intro hm
              obtain ⟨g, hg, hgi⟩ := List.mem_map.1 hm
              have h4 := (ha g hg).2.2
              rw [getD_set] at h4
              have : f.fileIndex.toNat = g.ix ∧ f.fileIndex.toNat < seen.length :=
                ⟨by simpa [KeyFile.ix] using hgi.symm, hix⟩
              rw [if_pos this] at h4
              cases h4
            · simpa [setAll, KeyFile.ix] using hr
          · rintro ⟨ha, hnd, hr⟩
            simp only [List.map_cons, List.nodup_cons, List.mem_map, not_exists, not_and] at hnd
            refine ⟨?_, hnd.2, by simpa [setAll, KeyFile.ix] using hr⟩
            intro g hg
            have := ha g (by simp [hg])
            refine ⟨this.1, this.2.1, ?_⟩
            rw [getD_set]
            have hne : ¬ (f.fileIndex.toNat = g.ix ∧ f.fileIndex.toNat < seen.length) := by
              intro h; exact hnd.1 g hg (by simpa [KeyFile.ix] using h.1.symm)
            rw [if_neg hne]
            exact this.2.2

theorem getD_replicate_false (n j : Nat) : (List.replicate n false).getD j false = false := by
  simp only [List.getD_eq_getElem?_getD, List.getElem?_replicate]
  split <;> rfl

/-- `SequencedKeys` as it is in /repo (repaired duplicate test): no hypothesis on the keys. -/
theorem sequencedKeys_ok_iff (k : List KeyFile) (r : List Nat) :
    sequencedKeys k = .ok r ↔
      (∀ f ∈ k, 0 ≤ f.fileIndex ∧ f.fileIndex < k.length) ∧ (k.map KeyFile.ix).Nodup ∧
        r = setAll k (List.replicate k.length 0) := by
  unfold sequencedKeys sequencedKeysWith
  rw [seqLoop_ok_iff Fixes.current rfl k.length k _ r _ (by simp)]
  constructor
  · rintro ⟨h1, h2, h3⟩; exact ⟨fun f hf => ⟨(h1 f hf).1, (h1 f hf).2.1⟩, h2, h3⟩
  · rintro ⟨h1, h2, h3⟩; exact ⟨fun f hf => ⟨(h1 f hf).1, (h1 f hf).2, getD_replicate_false _ _⟩, h2, h3⟩

/-- pigeonhole: `n` different numbers below `n` are all of them. -/
theorem perm_range_of_nodup (l : List Nat) (n : Nat) (hnd : l.Nodup) (hlt : ∀ x ∈ l, x < n) (hlen : l.length = n) :
    l.Perm (List.range n) := by
  have hsub : l ⊆ List.range n := fun x hx => List.mem_range.2 (hlt x hx)
  exact (List.subperm_of_subset hnd hsub).perm_of_length_le (by simp [hlen])

theorem ix_perm_range {k : List KeyFile} (h1 : ∀ f ∈ k, 0 ≤ f.fileIndex ∧ f.fileIndex < k.length)
    (h2 : (k.map KeyFile.ix).Nodup) : (k.map KeyFile.ix).Perm (List.range k.length) :=
  perm_range_of_nodup _ _ h2 (fun x hx => by
    obtain ⟨f, hf, rfl⟩ := List.mem_map.1 hx
    have := h1 f hf; unfold KeyFile.ix; omega) (by simp)

theorem nodup_ix_iff {k : List KeyFile} (h1 : ∀ f ∈ k, 0 ≤ f.fileIndex) :
    (k.map KeyFile.ix).Nodup ↔ (k.map (·.fileIndex)).Nodup := by
  induction k with
  | nil => simp
  | cons f k ih =>
    have ih' := ih (fun g hg => h1 g (by simp [hg]))
    simp only [List.map_cons, List.nodup_cons, ih', List.mem_map, not_exists, not_and]
    constructor
    · rintro ⟨h, hn⟩; refine ⟨?_, hn⟩
      intro g hg he
      apply h g hg
      unfold KeyFile.ix; rw [he]
    · rintro ⟨h, hn⟩; refine ⟨?_, hn⟩
      intro g hg he
      apply h g hg
      have := h1 f (by simp); have := h1 g (by simp [hg])
      unfold KeyFile.ix at he; omega

theorem seqLoop_rejects (fx : Fixes) (n : Nat) (fs : List KeyFile) (resp : List Nat) (seen : List Bool)
    (h : ∃ f ∈ fs, f.fileIndex < 0 ∨ f.fileIndex ≥ n) : ∃ e, seqLoop fx n fs resp seen = .error e := by
  induction fs generalizing resp seen with
  | nil => simp at h
  | cons g fs ih =>
    simp only [seqLoop]
    split
    · exact ⟨_, rfl⟩
    · split
      · exact ⟨_, rfl⟩
      · rename_i hg
        generalize (if fx.seenSlice = true then seen.getD g.fileIndex.toNat false
          else decide (resp.getD g.fileIndex.toNat 0 ≠ 0)) = c
        cases c
        · simp only [Bool.false_eq_true, if_false]
          apply ih
          obtain ⟨f, hf, hbad⟩ := h
          rcases List.mem_cons.1 hf with rfl | hf
          · exact absurd hbad hg
          · exact ⟨f, hf, hbad⟩
        · exact ⟨_, rfl⟩

/-! ### KeysharesToValidatorPubkey -/

/-- the (public share, validator) pairs of a lock in the order the first loop visits them. -/
def pairsOf (val : Nat) (ps : List Nat) : List (Nat × Nat) := ps.map (fun p => (p, val))

def pairs : Lock → List (Nat × Nat)
  | [] => []
  | v :: vs => pairsOf v.pubkey v.pubshares ++ pairs vs

/-- the first loop on a flat list of pairs. -/
def addPairs : List (Nat × Nat) → List (Nat × Nat) → Option (List (Nat × Nat))
  | [], m => some m
  | (p, v) :: ps, m =>
    match mlookup m p with
    | some existing => if existing ≠ v then none else addPairs ps ((p, v) :: m)
    | none => addPairs ps ((p, v) :: m)

theorem addPairs_append (a b : List (Nat × Nat)) (m : List (Nat × Nat)) :
    addPairs (a ++ b) m = (addPairs a m).bind (addPairs b) := by
  induction a generalizing m with
  | nil => rfl
  | cons x a ih =>
    obtain ⟨p, v⟩ := x
    simp only [List.cons_append, addPairs]
    split
    · split
      · rfl
      · exact ih _
    · exact ih _

theorem addShares_eq (val : Nat) (ps : List Nat) (m : List (Nat × Nat)) :
    addShares val ps m = addPairs (pairsOf val ps) m := by
  induction ps generalizing m with
  | nil => rfl
  | cons p ps ih =>
    simp only [addShares, pairsOf, List.map_cons, addPairs]
    cases mlookup m p with
    | none => exact ih _
    | some e =>
      simp only []
      split
      · rfl
      · exact ih _

theorem buildShareMap_eq (lock : Lock) (m : List (Nat × Nat)) : buildShareMap lock m = addPairs (pairs lock) m := by
  induction lock generalizing m with
  | nil => rfl
  | cons v vs ih =>
    simp only [buildShareMap, pairs, addPairs_append, addShares_eq]
    cases addPairs (pairsOf v.pubkey v.pubshares) m with
    | none => rfl
    | some m' => simpa using ih m'

theorem mem_pairs {lock : Lock} {p v : Nat} :
    (p, v) ∈ pairs lock ↔ ∃ val ∈ lock, val.pubkey = v ∧ p ∈ val.pubshares := by
  induction lock with
  | nil => simp [pairs]
  | cons x xs ih =>
    simp only [pairs, List.mem_append, ih, pairsOf, List.mem_map, Prod.mk.injEq, List.mem_cons]
    constructor
    · rintro (⟨q, hq, rfl, rfl⟩ | ⟨val, hv, h1, h2⟩)
      · exact ⟨x, Or.inl rfl, rfl, hq⟩
      · exact ⟨val, Or.inr hv, h1, h2⟩
    · rintro ⟨val, rfl | hv, h1, h2⟩
      · exact Or.inl ⟨p, h2, rfl, h1⟩
      · exact Or.inr ⟨val, hv, h1, h2⟩

theorem mlookup_cons (m : List (Nat × Nat)) (p v q : Nat) :
    mlookup ((p, v) :: m) q = if p = q then some v else mlookup m q := rfl

theorem addPairs_some {ps m m' : List (Nat × Nat)} (h : addPairs ps m = some m') :
    (∀ p v, (p, v) ∈ ps → mlookup m' p = some v) ∧ (∀ p v, mlookup m p = some v → mlookup m' p = some v) ∧
    (∀ p v, mlookup m' p = some v → mlookup m p = some v ∨ (p, v) ∈ ps) := by
  induction ps generalizing m with
  | nil => simp only [addPairs, Option.some.injEq] at h; subst h; simp
  | cons x ps ih =>
    obtain ⟨p, v⟩ := x
    have key : addPairs ps ((p, v) :: m) = some m' ∧ (∀ e, mlookup m p = some e → e = v) := by
      simp only [addPairs] at h
      split at h
      · rename_i e he
        split at h
        · cases h
        · rename_i hne
          exact ⟨h, fun e' he' => by rw [he] at he'; cases he'; simpa using hne⟩
      · rename_i he
        exact ⟨h, fun e' he' => by rw [he] at he'; cases he'⟩
    obtain ⟨h1, h2, h3⟩ := ih key.1
    have hpv : mlookup m' p = some v := h2 p v (by simp [mlookup_cons])
    refine ⟨?_, ?_, ?_⟩
    · intro q w hq
      rcases List.mem_cons.1 hq with hq | hq
      · cases hq; exact hpv
      · exact h1 q w hq
    · intro q w hq
      apply h2
      rw [mlookup_cons]
      split
      · rename_i hpq; subst hpq; rw [key.2 w hq]
      · exact hq
    · intro q w hq
      rcases h3 q w hq with h | h
      · rw [mlookup_cons] at h
        split at h
        · rename_i hpq; subst hpq; cases h; exact Or.inr (by simp)
        · exact Or.inl h
      · exact Or.inr (by simp [h])

theorem addPairs_ne_none {ps m : List (Nat × Nat)}
    (hm : ∀ p v w, (p, v) ∈ ps → mlookup m p = some w → w = v)
    (hf : ∀ p v w, (p, v) ∈ ps → (p, w) ∈ ps → v = w) : ∃ m', addPairs ps m = some m' := by
  induction ps generalizing m with
  | nil => exact ⟨m, rfl⟩
  | cons x ps ih =>
    obtain ⟨p, v⟩ := x
    have hrec : ∃ m', addPairs ps ((p, v) :: m) = some m' := by
      apply ih
      · intro q a w hq hl
        rw [mlookup_cons] at hl
        split at hl
        · rename_i hpq; subst hpq; cases hl; exact hf p _ a (by simp) (by simp [hq])
        · exact hm q a w (by simp [hq]) hl
      · intro q a w h1 h2; exact hf q a w (by simp [h1]) (by simp [h2])
    simp only [addPairs]
    split
    · rename_i e he
      have : e = v := hm p v e (by simp) he
      simp [this, hrec]
    · exact hrec

/-- no public share is listed under two validators with different keys. -/
def NoCrossDup (lock : Lock) : Prop :=
  ∀ v1 ∈ lock, ∀ v2 ∈ lock, ∀ p, p ∈ v1.pubshares → p ∈ v2.pubshares → v1.pubkey = v2.pubkey

theorem buildShareMap_some_iff (lock : Lock) : (∃ m, buildShareMap lock [] = some m) ↔ NoCrossDup lock := by
  rw [buildShareMap_eq]
  constructor
  · rintro ⟨m, h⟩ v1 h1 v2 h2 p hp1 hp2
    have := (addPairs_some h).1
    have a := this p v1.pubkey (mem_pairs.2 ⟨v1, h1, rfl, hp1⟩)
    have b := this p v2.pubkey (mem_pairs.2 ⟨v2, h2, rfl, hp2⟩)
    rw [a] at b; exact Option.some.inj b
  · intro h
    apply addPairs_ne_none
    · intro p v w _ hl; simp [mlookup] at hl
    · intro p v w h1 h2
      obtain ⟨a, ha, rfl, hpa⟩ := mem_pairs.1 h1
      obtain ⟨b, hb, rfl, hpb⟩ := mem_pairs.1 h2
      exact h a ha b hb p hpa hpb

theorem buildShareMap_lookup {lock : Lock} {m : List (Nat × Nat)} (h : buildShareMap lock [] = some m) (p v : Nat) :
    mlookup m p = some v ↔ ∃ val ∈ lock, val.pubkey = v ∧ p ∈ val.pubshares := by
  rw [buildShareMap_eq] at h
  obtain ⟨h1, _, h3⟩ := addPairs_some h
  rw [← mem_pairs]
  constructor
  · intro hl
    rcases h3 p v hl with h | h
    · simp [mlookup] at h
    · exact h
  · exact h1 p v

/-- the entries the second loop appends for the shares `ss` starting at position `i`. -/
def mkOut (pub : Nat → Option Nat) (m : List (Nat × Nat)) : List Nat → Nat → List (Nat × IndexedKeyShare)
  | [], _ => []
  | s :: ss, i => (((pub s).bind (mlookup m)).getD 0, ⟨s, i + 1⟩) :: mkOut pub m ss (i + 1)

theorem rlookup_none_iff (ret : List (Nat × IndexedKeyShare)) (v : Nat) :
    rlookup ret v = none ↔ v ∉ ret.map (·.1) := by
  induction ret with
  | nil => simp [rlookup]
  | cons x ret ih =>
    obtain ⟨k, e⟩ := x
    rw [rlookup]
    by_cases h : k = v
    · simp [h]
    · have h' : ¬ v = k := fun h2 => h h2.symm
      simp [h, h', ih]

theorem mapShares_ok_iff (pub : Nat → Option Nat) (m : List (Nat × Nat)) (ss : List Nat) (i : Nat)
    (ret out : List (Nat × IndexedKeyShare)) :
    mapShares pub m ss i ret = .ok out ↔
      (∀ s ∈ ss, ((pub s).bind (mlookup m)).isSome) ∧
      (ss.map (fun s => ((pub s).bind (mlookup m)).getD 0)).Nodup ∧
      (∀ s ∈ ss, ((pub s).bind (mlookup m)).getD 0 ∉ ret.map (·.1)) ∧
      out = ret ++ mkOut pub m ss i := by
  induction ss generalizing i ret with
  | nil =>
    simp only [mapShares, mkOut, List.append_nil]
    constructor
    · intro h; cases h; simp
    · rintro ⟨_, _, _, h⟩; rw [h]
  | cons s ss ih =>
    rw [mapShares]
    cases hp : pub s with
    | none =>
      simp only [hp]
      constructor
      · intro h; cases h
      · intro h; have := h.1 s (by simp); simp [hp] at this
    | some p =>
      simp only [hp]
      cases hl : mlookup m p with
      | none =>
        simp only [hl]
        constructor
        · intro h; cases h
        · intro h; have := h.1 s (by simp); simp [hp, hl] at this
      | some val =>
        simp only [hl]
        have hv : ((pub s).bind (mlookup m)).getD 0 = val := by simp [hp, hl]
        cases hr : rlookup ret val with
        | some e =>
          simp only [hr]
          constructor
          · intro h; cases h
          · intro h
            have := h.2.2.1 s (by simp)
            rw [hv, ← rlookup_none_iff, hr] at this; cases this
        | none =>
          simp only [hr]
          rw [ih]
          have hr' := (rlookup_none_iff ret val).1 hr
          have hout : ret ++ [(val, (⟨s, i + 1⟩ : IndexedKeyShare))] ++ mkOut pub m ss (i + 1) =
              ret ++ mkOut pub m (s :: ss) i := by
            simp [mkOut, hv]
          constructor
          · rintro ⟨h1, h2, h3, h4⟩
            refine ⟨?_, ?_, ?_, by rw [h4, hout]⟩
            · intro a ha
              rcases List.mem_cons.1 ha with rfl | ha
              · simp [hp, hl]
              · exact h1 a ha
            · rw [List.map_cons, List.nodup_cons]
              refine ⟨?_, h2⟩
              rw [hv]
              intro hm
              obtain ⟨a, ha, hav⟩ := List.mem_map.1 hm
              exact h3 a ha (by simp [hav])
            · intro a ha
              rcases List.mem_cons.1 ha with rfl | ha
              · rw [hv]; exact hr'
              · intro hm; exact h3 a ha (by simp [hm])
          · rintro ⟨h1, h2, h3, h4⟩
            rw [List.map_cons, List.nodup_cons, hv] at h2
            refine ⟨fun a ha => h1 a (by simp [ha]), h2.2, ?_, by rw [h4, hout]⟩
            intro a ha hm
            simp only [List.map_append, List.mem_append, List.map_cons, List.map_nil, List.mem_singleton] at hm
            rcases hm with hm | hm
            · exact h3 a (by simp [ha]) hm
            · exact h2.1 (List.mem_map.2 ⟨a, ha, hm⟩)

theorem mkOut_shares (pub : Nat → Option Nat) (m : List (Nat × Nat)) (ss : List Nat) (i : Nat) :
    (mkOut pub m ss i).map (·.2.share) = ss ∧
    (mkOut pub m ss i).map (·.2.index) = (List.range ss.length).map (· + i + 1) ∧
    (mkOut pub m ss i).map (·.1) = ss.map (fun s => ((pub s).bind (mlookup m)).getD 0) := by
  induction ss generalizing i with
  | nil => simp [mkOut]
  | cons s ss ih =>
    obtain ⟨h1, h2, h3⟩ := ih (i + 1)
    refine ⟨by simp [mkOut, h1], ?_, by simp [mkOut, h3]⟩
    simp only [mkOut, List.map_cons, h2, List.length_cons, List.range_succ_eq_map, List.map_map]
    simp only [Nat.zero_add, List.cons.injEq, true_and]
    apply List.map_congr_left
    intro a _; simp only [Function.comp]; omega

theorem rlookup_mkOut (pub : Nat → Option Nat) (m : List (Nat × Nat)) (ss : List Nat) (i : Nat)
    (hnd : (ss.map (fun s => ((pub s).bind (mlookup m)).getD 0)).Nodup) (j : Nat) (hj : j < ss.length) :
    rlookup (mkOut pub m ss i) (((pub ss[j]).bind (mlookup m)).getD 0) = some ⟨ss[j], i + j + 1⟩ := by
  induction ss generalizing i j with
  | nil => simp at hj
  | cons s ss ih =>
    simp only [List.map_cons, List.nodup_cons, List.mem_map, not_exists, not_and] at hnd
    cases j with
    | zero => simp [mkOut, rlookup]
    | succ j =>
      simp only [List.length_cons, Nat.add_lt_add_iff_right] at hj
      simp only [mkOut, rlookup, List.getElem_cons_succ]
      have hne : ¬ ((pub s).bind (mlookup m)).getD 0 = ((pub ss[j]).bind (mlookup m)).getD 0 :=
        fun h => hnd.1 ss[j] (List.getElem_mem hj) h.symm
      rw [if_neg hne, ih (i + 1) hnd.2 j hj]
      congr 2; omega

/-! ### the file system -/

/-- a world is a finite map: no path twice. -/
def WF (w : World) : Prop := (w.map (·.1)).Nodup

theorem lookup_erase (w : World) (p q : Str) : lookup (erase w p) q = if q = p then none else lookup w q := by
  induction w with
  | nil => simp [erase, lookup]
  | cons x w ih =>
    obtain ⟨k, e⟩ := x
    unfold erase at ih ⊢
    by_cases hk : k = p
    · subst hk
      simp only [List.filter_cons, ne_eq, not_true_eq_false, decide_false, Bool.false_eq_true, if_false, ih, lookup]
      by_cases hq : q = k
      · simp [hq]
      · have : ¬ k = q := fun h => hq h.symm
        simp [hq, this]
    · simp only [List.filter_cons, ne_eq, hk, not_false_eq_true, decide_true, if_true, lookup, ih]
      by_cases hkq : k = q
      · subst hkq; simp [hk]
      · simp [hkq]

theorem lookup_write (w : World) (p : Str) (e : Entry) (q : Str) :
    lookup (write w p e) q = if p = q then some e else lookup w q := by
  unfold write
  simp only [lookup, lookup_erase]
  by_cases h : p = q
  · simp [h]
  · have : ¬ q = p := fun h2 => h h2.symm
    simp [h, this]

theorem WF_erase {w : World} (h : WF w) (p : Str) : WF (erase w p) :=
  List.Nodup.sublist (List.Sublist.map _ List.filter_sublist) h

theorem WF_write {w : World} (h : WF w) (p : Str) (e : Entry) : WF (write w p e) := by
  unfold WF write
  simp only [List.map_cons, List.nodup_cons]
  refine ⟨?_, WF_erase h p⟩
  intro hm
  obtain ⟨x, hx, hxp⟩ := List.mem_map.1 hm
  simp [erase, List.mem_filter] at hx
  exact hx.2 hxp

theorem lookup_of_mem {w : World} (h : WF w) {p : Str} {e : Entry} (hm : (p, e) ∈ w) : lookup w p = some e := by
  induction w with
  | nil => simp at hm
  | cons x w ih =>
    obtain ⟨k, e'⟩ := x
    simp only [WF, List.map_cons, List.nodup_cons] at h
    simp only [lookup]
    rcases List.mem_cons.1 hm with hm | hm
    · cases hm; simp
    · have : k ≠ p := fun hk => h.1 (hk ▸ List.mem_map.2 ⟨(p, e), hm, rfl⟩)
      simp [this, ih h.2 hm]

theorem mem_of_lookup {w : World} {p : Str} {e : Entry} (h : lookup w p = some e) : (p, e) ∈ w := by
  induction w with
  | nil => simp [lookup] at h
  | cons x w ih =>
    obtain ⟨k, e'⟩ := x
    simp only [lookup] at h
    split at h
    · rename_i hk; cases h; simp [hk]
    · simp [ih h]

theorem writeFile_eq {w w' : World} {p : Str} {c : Content} (h : writeFile w p c = some w') :
    w' = write w p (.file c) := by
  unfold writeFile at h
  split at h
  · cases h
  · split at h
    · cases h; rfl
    · cases h

theorem childName_some {dir p n : Str} (h : childName dir p = some n) : p = join dir n ∧ n ≠ [] ∧ '/' ∉ n := by
  unfold childName at h
  cases hs : stripPrefix (dir ++ ['/']) p with
  | none => simp [hs] at h
  | some m =>
    simp only [hs] at h
    split at h
    · rename_i hc; cases h
      have := stripPrefix_eq_some.1 hs
      exact ⟨by simp [this, join], hc.1, hc.2⟩
    · cases h

theorem childName_join (dir n : Str) (h1 : n ≠ []) (h2 : '/' ∉ n) : childName dir (join dir n) = some n := by
  unfold childName join
  have : dir ++ '/' :: n = (dir ++ ['/']) ++ n := by simp
  rw [this, stripPrefix_append]
  simp [h1, h2]

theorem mem_glob {w : World} {dir p : Str} :
    p ∈ glob w dir ↔ (∃ e, (p, e) ∈ w) ∧ ∃ n, childName dir p = some n ∧ globMatch n = true := by
  unfold glob
  simp only [List.mem_map, List.mem_filter]
  constructor
  · rintro ⟨x, ⟨hx, hp⟩, rfl⟩
    refine ⟨⟨x.2, hx⟩, ?_⟩
    cases hc : childName dir x.1 with
    | none => simp [hc] at hp
    | some n => exact ⟨n, rfl, by simpa [hc] using hp⟩
  · rintro ⟨⟨e, he⟩, n, hn, hg⟩
    exact ⟨(p, e), ⟨he, by simp [hn, hg]⟩, rfl⟩

theorem glob_nodup {w : World} (h : WF w) (dir : Str) : (glob w dir).Nodup :=
  List.Nodup.sublist (List.Sublist.map _ List.filter_sublist) h

/-! ### storing -/

/-- the keystore / password file paths of index `k`. -/
def jp (dir : Str) (b : Bool) (k : Nat) : Str := join dir (storeName b k)
def pp (dir : Str) (b : Bool) (k : Nat) : Str := join dir (pwName b k)

theorem jp_inj {dir : Str} {b : Bool} {i j : Nat} (h : jp dir b i = jp dir b j) : i = j := storeName_inj (join_inj h)
theorem pp_inj {dir : Str} {b : Bool} {i j : Nat} (h : pp dir b i = pp dir b j) : i = j := pwName_inj (join_inj h)
theorem jp_ne_pp (dir : Str) (b : Bool) (i j : Nat) : jp dir b i ≠ pp dir b j :=
  fun h => storeName_ne_pwName b i j (join_inj h)

theorem storeOne_ok {w w2 : World} {dir : Str} (hd : DirInert dir) {b : Bool} {i s pw : Nat}
    (h : storeOne w dir b i s pw = (w2, none)) :
    s ≠ 0 ∧ w2 = write (write w (jp dir b i) (.file (.ks s pw))) (pp dir b i) (.file (.txt pw)) := by
  unfold storeOne at h
  simp only at h
  split at h
  · cases h
  · rename_i hs
    refine ⟨hs, ?_⟩
    cases h1 : writeFile w (join dir (storeName b i)) (.ks s pw) with
    | none => simp [h1] at h
    | some w1 =>
      simp only [h1] at h
      rw [pwFileOf_store_path hd] at h
      cases h2 : writeFile w1 (join dir (pwName b i)) (.txt pw) with
      | none => simp [h2] at h
      | some w3 =>
        simp only [h2, Prod.mk.injEq, and_true] at h
        subst h
        rw [writeFile_eq h2, writeFile_eq h1]; rfl

theorem storeFrom_ok {dir : Str} (hd : DirInert dir) (b : Bool) (items : List (Nat × Nat)) (w w' : World) (i : Nat)
    (h : storeFrom dir b (fun _ => true) w i items = (w', [])) :
    (∀ j (hj : j < items.length), items[j].1 ≠ 0 ∧
        lookup w' (jp dir b (i + j)) = some (.file (.ks items[j].1 items[j].2)) ∧
        lookup w' (pp dir b (i + j)) = some (.file (.txt items[j].2))) ∧
    (∀ q, (∀ j, j < items.length → q ≠ jp dir b (i + j) ∧ q ≠ pp dir b (i + j)) → lookup w' q = lookup w q) ∧
    (WF w → WF w') := by
  induction items generalizing w i with
  | nil =>
    simp only [storeFrom, Prod.mk.injEq, and_true] at h
    subst h; simp
  | cons x rest ih =>
    obtain ⟨s, pw⟩ := x
    simp only [storeFrom, if_true] at h
    cases hr : storeOne w dir b i s pw with
    | mk w2 e =>
      rw [hr] at h
      cases e with
      | some err => simp at h
      | none =>
        simp only at h
        have ht : storeFrom dir b (fun _ => true) w2 (i + 1) rest = (w', []) := by
          cases hh : storeFrom dir b (fun _ => true) w2 (i + 1) rest with
          | mk a c => rw [hh] at h; simp only [Prod.mk.injEq] at h; rw [h.1, h.2]
        obtain ⟨hs, hw2⟩ := storeOne_ok hd hr
        obtain ⟨i1, i2, i3⟩ := ih w2 (i + 1) ht
        have hjp : lookup w2 (jp dir b i) = some (.file (.ks s pw)) := by
          rw [hw2, lookup_write, if_neg (fun h => jp_ne_pp dir b i i h.symm), lookup_write, if_pos rfl]
        have hpp : lookup w2 (pp dir b i) = some (.file (.txt pw)) := by
          rw [hw2, lookup_write, if_pos rfl]
        refine ⟨?_, ?_, ?_⟩
        · intro j hj
          cases j with
          | zero =>
            refine ⟨hs, ?_, ?_⟩
            · rw [Nat.add_zero, i2 _ (fun j _ => ⟨fun h => by have := jp_inj h; omega, jp_ne_pp dir b _ _⟩)]
              exact hjp
            · rw [Nat.add_zero, i2 _ (fun j _ => ⟨fun h => jp_ne_pp dir b _ _ h.symm, fun h => by have := pp_inj h; omega⟩)]
              exact hpp
          | succ j =>
            have := i1 j (by simpa using hj)
            simpa [Nat.add_assoc, Nat.add_comm 1 j] using this
        · intro q hq
          rw [i2 q (fun j hj => by
            have := hq (j + 1) (by simpa using hj)
            simpa [Nat.add_assoc, Nat.add_comm 1 j] using this)]
          have h0 := hq 0 (by simp)
          rw [hw2, lookup_write, if_neg (fun h => h0.2 (by simpa using h.symm)), lookup_write,
            if_neg (fun h => h0.1 (by simpa using h.symm))]
        · intro hwf
          apply i3
          rw [hw2]
          exact WF_write (WF_write hwf _ _) _ _

theorem collect_ok {l : List Str} {f : Str → Except LoadErr KeyFile} {g : Str → KeyFile}
    (h : ∀ p ∈ l, f p = .ok (g p)) : collect (l.map f) = .ok (l.map g) := by
  induction l with
  | nil => rfl
  | cons a l ih =>
    simp only [List.map_cons, h a (by simp), collect, ih (fun p hp => h p (by simp [hp]))]

theorem getD_setAll_of_perm {kfs : List KeyFile} {n : Nat} {L : List Nat}
    (hp : (kfs.map KeyFile.ix).Perm (List.range n)) (hs : ∀ f ∈ kfs, f.secret = L.getD f.ix 0) (hL : L.length = n) :
    setAll kfs (List.replicate n 0) = L := by
  apply List.ext_getElem
  · rw [length_setAll]; simp [hL]
  · intro j h1 h2
    have hj : j < n := by rw [length_setAll] at h1; simpa using h1
    have hmem : j ∈ kfs.map KeyFile.ix := (hp.mem_iff).2 (List.mem_range.2 hj)
    obtain ⟨f, hf, hfj⟩ := List.mem_map.1 hmem
    have hnd : (kfs.map KeyFile.ix).Nodup := (hp.nodup_iff).2 List.nodup_range
    have hr : ∀ g ∈ kfs, g.ix < (List.replicate n 0).length := by
      intro g hg
      have := (hp.mem_iff).1 (List.mem_map.2 ⟨g, hg, rfl⟩)
      simpa using List.mem_range.1 this
    have := setAll_get kfs (List.replicate n 0) hnd hr f hf
    rw [hfj, hs f hf, hfj] at this
    simp only [List.getD_eq_getElem?_getD, List.getElem?_eq_getElem h1, List.getElem?_eq_getElem h2,
      Option.getD_some] at this
    exact this

/-! ### the round trip -/

theorem storeKeys_ok {w w' : World} {dir : Str} {b : Bool} {secrets pws : List Nat}
    (hs : storeKeys w dir b secrets pws = (w', none)) :
    checkDir w dir = none ∧ storeFrom dir b (fun _ => true) w 0 (secrets.zip pws) = (w', []) := by
  unfold storeKeys at hs
  cases hc : checkDir w dir with
  | some e => cases e <;> simp [hc] at hs
  | none =>
    simp only [hc, storeSome, Prod.mk.injEq, Option.map_eq_none_iff, List.head?_eq_none_iff] at hs
    refine ⟨rfl, ?_⟩
    cases hh : storeFrom dir b (fun _ => true) w 0 (secrets.zip pws) with
    | mk a c => rw [hh] at hs; simp only at hs; rw [hs.1, hs.2]

theorem roundtrip_core {w w' : World} {dir : Str} {b : Bool} {secrets pws : List Nat}
    (hd : DirInert dir) (hwf : WF w) (hg : glob w dir = []) (hlen : pws.length = secrets.length)
    (hb : secrets.length ≤ 2 ^ 63) (hs : storeKeys w dir b secrets pws = (w', none)) :
    (∀ s ∈ secrets, s ≠ 0) ∧ WF w' ∧ (glob w' dir).Perm ((List.range secrets.length).map (jp dir b)) ∧
    ∀ k (hk : k < secrets.length), loadOne w' (jp dir b k) = .ok ⟨secrets[k], jp dir b k, k⟩ := by
  obtain ⟨_, hsf⟩ := storeKeys_ok hs
  obtain ⟨h1, h2, h3⟩ := storeFrom_ok hd b _ w w' 0 hsf
  have hzl : (secrets.zip pws).length = secrets.length := by simp [hlen]
  have hwf' := h3 hwf
  have hitem : ∀ k (hk : k < secrets.length),
      secrets[k] ≠ 0 ∧ ∃ pw, lookup w' (jp dir b k) = some (.file (.ks secrets[k] pw)) ∧
        lookup w' (pp dir b k) = some (.file (.txt pw)) := by
    intro k hk
    have := h1 k (by omega)
    simp only [List.getElem_zip, Nat.zero_add] at this
    exact ⟨this.1, _, this.2.1, this.2.2⟩
  refine ⟨?_, hwf', ?_, ?_⟩
  · intro s hs
    obtain ⟨k, hk, rfl⟩ := List.getElem_of_mem hs
    exact (hitem k hk).1
  · rw [List.perm_ext_iff_of_nodup (glob_nodup hwf' dir)
      (List.Nodup.map (fun a c h => jp_inj h) List.nodup_range)]
    intro p
    simp only [List.mem_map, List.mem_range]
    constructor
    · intro hp
      obtain ⟨⟨e, he⟩, n, hn, hgm⟩ := mem_glob.1 hp
      have hl := lookup_of_mem hwf' he
      obtain ⟨hpn, _, _⟩ := childName_some hn
      by_cases hj : ∃ k, k < secrets.length ∧ jp dir b k = p
      · exact hj
      · exfalso
        by_cases hq : ∃ k, k < secrets.length ∧ pp dir b k = p
        · obtain ⟨k, _, hk⟩ := hq
          rw [hpn] at hk
          have : pwName b k = n := join_inj hk
          rw [← this, globMatch_pwName] at hgm
          cases hgm
        · have hsame : lookup w' p = lookup w p := by
            apply h2
            intro j hj2
            rw [hzl] at hj2
            simp only [Nat.zero_add]
            exact ⟨fun h => hj ⟨j, hj2, h.symm⟩, fun h => hq ⟨j, hj2, h.symm⟩⟩
          rw [hsame] at hl
          have : p ∈ glob w dir := mem_glob.2 ⟨⟨e, mem_of_lookup hl⟩, n, hn, hgm⟩
          rw [hg] at this; cases this
    · rintro ⟨k, hk, rfl⟩
      obtain ⟨_, pw, hl, _⟩ := hitem k hk
      exact mem_glob.2 ⟨⟨_, mem_of_lookup hl⟩, storeName b k,
        childName_join dir _ (storeName_ne_nil b k) (storeName_no_slash b k), globMatch_storeName b k⟩
  · intro k hk
    obtain ⟨_, pw, hl, hl2⟩ := hitem k hk
    have hx : extractFileIndex (jp dir b k) = .idx k := extract_storeName hd b k (by omega)
    have hpw : pwFileOf (jp dir b k) = pp dir b k := pwFileOf_store_path hd b k
    simp [loadOne, readFile, hl, hpw, hl2, Content.unmarshals, Content.asPassword, decrypt, hx]

theorem roundtrip_load {w w' : World} {dir : Str} {b : Bool} {secrets pws : List Nat}
    (hd : DirInert dir) (hwf : WF w) (hg : glob w dir = []) (hlen : pws.length = secrets.length)
    (hb : secrets.length ≤ 2 ^ 63) (hne : secrets ≠ []) (hs : storeKeys w dir b secrets pws = (w', none))
    (order : List Str) (ho : order.Perm (glob w' dir)) :
    ∃ kfs, loadFilesUnordered w' dir order = .ok kfs ∧ sequencedKeys kfs = .ok secrets ∧
      (keys kfs).Perm secrets ∧ (kfs.map (·.filename)) = order := by
  obtain ⟨hnz, _, hperm, hload⟩ := roundtrip_core hd hwf hg hlen hb hs
  have hord := ho.trans hperm
  -- the index a stored path carries
  let kOf : Str → Nat := fun p => match extractFileIndex p with
    | .idx i => i.toNat
    | .err => 0
  have hkOf : ∀ k, k < secrets.length → kOf (jp dir b k) = k := by
    intro k hk
    have hx : extractFileIndex (jp dir b k) = .idx k := extract_storeName hd b k (by omega)
    simp [kOf, hx]
  let g : Str → KeyFile := fun p => ⟨secrets.getD (kOf p) 0, p, (kOf p : Nat)⟩
  have hmemo : ∀ p ∈ order, ∃ k, k < secrets.length ∧ p = jp dir b k := by
    intro p hp
    have := (hord.mem_iff).1 hp
    simp only [List.mem_map, List.mem_range] at this
    obtain ⟨k, hk, rfl⟩ := this
    exact ⟨k, hk, rfl⟩
  have hg' : ∀ p ∈ order, loadOne w' p = .ok (g p) := by
    intro p hp
    obtain ⟨k, hk, rfl⟩ := hmemo p hp
    rw [hload k hk]
    simp [g, hkOf k hk, List.getD_eq_getElem?_getD, List.getElem?_eq_getElem hk]
  have hone : order ≠ [] := by
    intro h0
    rw [h0] at hord
    have := hord.length_eq
    simp at this
    exact hne (List.eq_nil_of_length_eq_zero this.symm)
  have hlenO : order.length = secrets.length := by simpa using hord.length_eq
  -- the indices of the loaded files are a permutation of 0 … n-1
  have hix : ((order.map g).map KeyFile.ix).Perm (List.range secrets.length) := by
    have h1 : (order.map g).map KeyFile.ix = order.map kOf := by
      simp [List.map_map, Function.comp_def, KeyFile.ix, g]
    have h2 : (order.map kOf).Perm (((List.range secrets.length).map (jp dir b)).map kOf) := hord.map kOf
    have h3 : ((List.range secrets.length).map (jp dir b)).map kOf = List.range secrets.length := by
      rw [List.map_map]
      conv => rhs; rw [← List.map_id (List.range secrets.length)]
      apply List.map_congr_left
      intro k hk
      simpa using hkOf k (List.mem_range.1 hk)
    rw [h1]; rw [h3] at h2; exact h2
  refine ⟨order.map g, ?_, ?_, ?_, ?_⟩
  · unfold loadFilesUnordered
    rw [if_neg hone, collect_ok hg']
  · rw [sequencedKeys_ok_iff]
    have hl : (order.map g).length = secrets.length := by simpa using hlenO
    refine ⟨?_, (hix.nodup_iff).2 List.nodup_range, ?_⟩
    · intro f hf
      obtain ⟨p, hp, rfl⟩ := List.mem_map.1 hf
      obtain ⟨k, hk, rfl⟩ := hmemo p hp
      simp only [g, hkOf k hk, hl]
      omega
    · rw [hl]
      exact (getD_setAll_of_perm hix (fun f hf => by
        obtain ⟨p, _, rfl⟩ := List.mem_map.1 hf
        simp [g, KeyFile.ix]) rfl).symm
  · have h1 : keys (order.map g) = order.map (fun p => secrets.getD (kOf p) 0) := by
      simp [keys, List.map_map, Function.comp_def, g]
    have h2 := hord.map (fun p => secrets.getD (kOf p) 0)
    have h3 : ((List.range secrets.length).map (jp dir b)).map (fun p => secrets.getD (kOf p) 0) = secrets := by
      apply List.ext_getElem
      · simp
      · intro j h1 h2
        have hj : j < secrets.length := h2
        simp [hkOf j hj, List.getD_eq_getElem?_getD, List.getElem?_eq_getElem hj]
    rw [h1]; rw [h3] at h2; exact h2
  · simp [List.map_map, Function.comp_def, g]

/-! ### the recursive loader -/

theorem decrypt_some {c : Content} {p : Option Nat} {s : Nat} :
    decrypt c p = some s ↔ ∃ q, c = .ks s q ∧ p = some q := by
  cases c with
  | ks s' q' =>
    cases p with
    | none => simp [decrypt]
    | some q =>
      simp only [decrypt]
      split
      · rename_i h; subst h; simp [eq_comm]
      · rename_i h; simp only [reduceCtorEq, false_iff, not_exists, not_and]
        intro q2 h1 h2; cases h1; cases h2; exact h rfl
  | obj => simp [decrypt]
  | txt _ => simp [decrypt]

theorem decrypt_unique {c : Content} {p q : Option Nat} {s t : Nat} (h1 : decrypt c p = some s)
    (h2 : decrypt c q = some t) : s = t := by
  obtain ⟨a, ha, _⟩ := decrypt_some.1 h1
  obtain ⟨b, hb, _⟩ := decrypt_some.1 h2
  rw [ha] at hb; cases hb; rfl

theorem tryOthers_found {c : Content} {ps : List (Option Nat)} {s : Nat} (f : Bool)
    (h : ∃ p ∈ ps, decrypt c p = some s) : tryOthers c ps f = .ok s := by
  induction ps generalizing f with
  | nil => simp at h
  | cons a ps ih =>
    simp only [tryOthers]
    cases ha : decrypt c a with
    | some t =>
      obtain ⟨p, _, hp⟩ := h
      simp [decrypt_unique ha hp]
    | none =>
      obtain ⟨p, hp, hd⟩ := h
      rcases List.mem_cons.1 hp with rfl | hp
      · rw [ha] at hd; cases hd
      · exact ih true ⟨p, hp, hd⟩

theorem tryOthers_none {c : Content} {ps : List (Option Nat)} (f : Bool) (h : ∀ p ∈ ps, decrypt c p = none) :
    tryOthers c ps f = if f = true ∨ ps ≠ [] then .error () else .ok 0 := by
  induction ps generalizing f with
  | nil => cases f <;> simp [tryOthers]
  | cons a ps ih =>
    simp only [tryOthers, h a (by simp)]
    rw [ih true (fun p hp => h p (by simp [hp]))]
    simp

/-! ### ShareIdxForCluster -/

theorem shareIdxLoop_eq (all : List Nat) (key : Nat) (rest : List Nat) (acc : Option Nat) :
    shareIdxLoop all key rest acc =
      if key ∈ rest then (all.findIdx? (· = key)).map (· + 1) else acc := by
  induction rest generalizing acc with
  | nil => simp [shareIdxLoop]
  | cons pid rest ih =>
    simp only [shareIdxLoop]
    by_cases h : pid = key
    · subst h
      simp only [ne_eq, not_true_eq_false, if_false, firstIdx, List.mem_cons, true_or, if_true]
      cases hf : all.findIdx? (· = pid) with
      | none => simp
      | some i =>
        simp only [Option.map_some]
        rw [ih]
        split
        · simp [hf]
        · rfl
    · have h' : ¬ key = pid := fun h2 => h h2.symm
      simp only [ne_eq, h, not_false_eq_true, if_true, List.mem_cons, h', false_or]
      exact ih acc

/-! ### KeysharesToValidatorPubkey in terms of the lock -/

/-- the validator a public share is listed under in the lock (the first one that lists it). -/
def owner? (lock : Lock) (p : Nat) : Option Nat :=
  (lock.find? (fun v => decide (p ∈ v.pubshares))).map (·.pubkey)

/-- the validator a private share resolves to: the owner of its public key. -/
def resolve (pub : Nat → Option Nat) (lock : Lock) (s : Nat) : Option Nat := (pub s).bind (owner? lock)

theorem mlookup_eq_owner {lock : Lock} {m : List (Nat × Nat)} (h : buildShareMap lock [] = some m) (p : Nat) :
    mlookup m p = owner? lock p := by
  unfold owner?
  cases hf : lock.find? (fun v => decide (p ∈ v.pubshares)) with
  | none =>
    simp only [Option.map_none]
    cases hl : mlookup m p with
    | none => rfl
    | some v =>
      obtain ⟨val, hv, _, hp⟩ := (buildShareMap_lookup h p v).1 hl
      have := List.find?_eq_none.1 hf val hv
      simp [hp] at this
  | some val =>
    have hmem := List.mem_of_find?_eq_some hf
    have hp := List.find?_some hf
    simp only [decide_eq_true_eq] at hp
    exact (buildShareMap_lookup h p val.pubkey).2 ⟨val, hmem, rfl, hp⟩

theorem owner?_eq_some_iff {lock : Lock} (hn : NoCrossDup lock) (p v : Nat) :
    owner? lock p = some v ↔ ∃ val ∈ lock, val.pubkey = v ∧ p ∈ val.pubshares := by
  obtain ⟨m, hm⟩ := (buildShareMap_some_iff lock).2 hn
  rw [← mlookup_eq_owner hm, buildShareMap_lookup hm]

theorem nodup_getD_iff {l : List (Option Nat)} (h : ∀ x ∈ l, x.isSome) :
    (l.map (fun x => x.getD 0)).Nodup ↔ l.Nodup := by
  constructor
  · exact List.Nodup.of_map _
  · intro hn
    apply List.Nodup.map_on _ hn
    intro x hx y hy hxy
    have h1 := h x hx; have h2 := h y hy
    cases x with
    | none => simp at h1
    | some a =>
      cases y with
      | none => simp at h2
      | some c => simpa using hxy

/-- the result of `KeysharesToValidatorPubkey` when it succeeds. -/
theorem k2v_ok_iff (pub : Nat → Option Nat) (lock : Lock) (shares : List Nat) (out : List (Nat × IndexedKeyShare)) :
    keysharesToValidator pub lock shares = .ok out ↔
      NoCrossDup lock ∧ (∀ s ∈ shares, (resolve pub lock s).isSome) ∧ (shares.map (resolve pub lock)).Nodup ∧
      ∃ m, buildShareMap lock [] = some m ∧ out = mkOut pub m shares 0 := by
  unfold keysharesToValidator
  cases hb : buildShareMap lock [] with
  | none =>
    simp only []
    constructor
    · intro h; cases h
    · rintro ⟨hn, _⟩
      obtain ⟨m, hm⟩ := (buildShareMap_some_iff lock).2 hn
      rw [hb] at hm; cases hm
  | some m =>
    simp only []
    have hn : NoCrossDup lock := (buildShareMap_some_iff lock).1 ⟨m, hb⟩
    have hres : ∀ s, (pub s).bind (mlookup m) = resolve pub lock s := by
      intro s; unfold resolve
      cases pub s with
      | none => rfl
      | some p => simp [mlookup_eq_owner hb]
    rw [mapShares_ok_iff]
    simp only [hres, List.map_nil, List.not_mem_nil, not_false_eq_true, implies_true, true_and, List.nil_append]
    constructor
    · rintro ⟨h1, h2, h3⟩
      refine ⟨hn, h1, ?_, m, rfl, h3⟩
      have := (nodup_getD_iff (l := shares.map (resolve pub lock)) (by simpa using h1)).1
        (by simpa [List.map_map, Function.comp_def] using h2)
      exact this
    · rintro ⟨_, h1, h2, m', hm', h3⟩
      cases hm'
      refine ⟨h1, ?_, h3⟩
      have := (nodup_getD_iff (l := shares.map (resolve pub lock)) (by simpa using h1)).2 h2
      simpa [List.map_map, Function.comp_def] using this

theorem mkOut_mem {pub : Nat → Option Nat} {m : List (Nat × Nat)} {ss : List Nat} {i : Nat} {x : Nat × IndexedKeyShare}
    (h : x ∈ mkOut pub m ss i) :
    x.2.share ∈ ss ∧ x.1 = ((pub x.2.share).bind (mlookup m)).getD 0 := by
  induction ss generalizing i with
  | nil => simp [mkOut] at h
  | cons s ss ih =>
    simp only [mkOut, List.mem_cons] at h
    rcases h with rfl | h
    · simp
    · have := ih h; exact ⟨by simp [this.1], this.2⟩

end CharonV.Keystore
