/-
Helper lemmas for `Props/C14Priority.lean` (model `Model/Priority.lean`).
-/
import CharonV.Model.Priority

namespace CharonV.Priority

/-! ### sorting by a key -/

theorem sortBy_cons {α : Type} (k : α → Nat) (x : α) (l : List α) :
    sortBy k (x :: l) = insertBy k x (sortBy k l) := rfl

theorem insertBy_perm {α : Type} (k : α → Nat) (x : α) (l : List α) : (insertBy k x l).Perm (x :: l) := by
  induction l with
  | nil => exact .refl _
  | cons y r ih =>
    simp only [insertBy]; split
    · exact .refl _
    · exact (List.Perm.cons y ih).trans (List.Perm.swap x y r)

theorem sortBy_perm {α : Type} (k : α → Nat) (l : List α) : (sortBy k l).Perm l := by
  induction l with
  | nil => exact .refl _
  | cons x r ih => rw [sortBy_cons]; exact (insertBy_perm k x _).trans (.cons x ih)

theorem insertBy_sorted {α : Type} (k : α → Nat) (x : α) (l : List α)
    (h : l.Pairwise (fun a b => k a ≤ k b)) : (insertBy k x l).Pairwise (fun a b => k a ≤ k b) := by
  induction l with
  | nil => simp [insertBy]
  | cons y r ih =>
    simp only [insertBy]; split
    · rename_i hxy
      have h' := List.pairwise_cons.1 h
      refine List.pairwise_cons.2 ⟨?_, h⟩
      intro b hb
      rcases List.mem_cons.1 hb with rfl | hb
      · exact hxy
      · exact Nat.le_trans hxy (h'.1 b hb)
    · rename_i hxy
      have h' := List.pairwise_cons.1 h
      refine List.pairwise_cons.2 ⟨?_, ih h'.2⟩
      intro b hb
      have := (insertBy_perm k x r).mem_iff.1 hb
      rcases List.mem_cons.1 this with rfl | hb
      · omega
      · exact h'.1 b hb

theorem sortBy_sorted {α : Type} (k : α → Nat) (l : List α) : (sortBy k l).Pairwise (fun a b => k a ≤ k b) := by
  induction l with
  | nil => exact List.Pairwise.nil
  | cons x r ih => rw [sortBy_cons]; exact insertBy_sorted k x _ ih

theorem inj_of_nodup_map {α : Type} (k : α → Nat) : ∀ {l : List α}, (l.map k).Nodup →
    ∀ {a b : α}, a ∈ l → b ∈ l → k a = k b → a = b
  | [], _, _, _, ha, _, _ => by cases ha
  | x :: r, hn, a, b, ha, hb, hk => by
    rw [List.map_cons, List.nodup_cons] at hn
    rcases List.mem_cons.1 ha with ha1 | ha1
    · rcases List.mem_cons.1 hb with hb1 | hb1
      · rw [ha1, hb1]
      · subst ha1; exact absurd (hk ▸ List.mem_map_of_mem (f := k) hb1) hn.1
    · rcases List.mem_cons.1 hb with hb1 | hb1
      · subst hb1; exact absurd (hk ▸ List.mem_map_of_mem (f := k) ha1) hn.1
      · exact inj_of_nodup_map k hn.2 ha1 hb1 hk

/-- every correct sort gives the same list when the keys are pairwise different: the result depends on the SET only. -/
theorem sortBy_eq_of_perm {α : Type} (k : α → Nat) {l₁ l₂ : List α} (hp : l₁.Perm l₂)
    (hn : (l₁.map k).Nodup) : sortBy k l₁ = sortBy k l₂ := by
  apply List.Perm.eq_of_pairwise (le := fun a b => k a ≤ k b)
  · intro a b ha hb hab hba
    have ha' : a ∈ l₁ := (sortBy_perm k l₁).mem_iff.1 ha
    have hb' : b ∈ l₁ := hp.mem_iff.2 ((sortBy_perm k l₂).mem_iff.1 hb)
    exact inj_of_nodup_map k hn ha' hb' (Nat.le_antisymm hab hba)
  · exact sortBy_sorted _ _
  · exact sortBy_sorted _ _
  · exact (sortBy_perm k l₁).trans (hp.trans (sortBy_perm k l₂).symm)

/-- ANY list that is a sorted permutation (what pdqsort returns) is `sortBy`. -/
theorem sorted_perm_eq_sortBy {α : Type} (k : α → Nat) {l s : List α} (hp : s.Perm l)
    (hs : s.Pairwise (fun a b => k a ≤ k b)) (hn : (l.map k).Nodup) : s = sortBy k l := by
  apply List.Perm.eq_of_pairwise (le := fun a b => k a ≤ k b)
  · intro a b ha hb hab hba
    exact inj_of_nodup_map k hn (hp.mem_iff.1 ha) ((sortBy_perm k l).mem_iff.1 hb) (Nat.le_antisymm hab hba)
  · exact hs
  · exact sortBy_sorted _ _
  · exact hp.trans (sortBy_perm k l).symm

/-! ### validateMsgs -/

/-- the structural conditions on one message's topics. -/
def TopicsOk (ts : List Topic) : Prop :=
  (ts.map (·.topic)).Nodup ∧ ∀ t ∈ ts, t.prios.length < maxPriorities ∧ t.prios.Nodup

/-- what `validateMsgs` accepts (for messages with a duty). -/
def Valid (msgs : List Msg) : Prop :=
  msgs ≠ [] ∧ (∃ d, ∀ m ∈ msgs, m.duty = some d) ∧ (msgs.map (·.peer)).Nodup ∧ ∀ m ∈ msgs, TopicsOk m.topics

theorem dupIn_false_iff : ∀ (l seen : List Nat), dupIn seen l = false ↔ (∀ x ∈ l, x ∉ seen) ∧ l.Nodup
  | [], seen => by simp [dupIn]
  | x :: r, seen => by
    simp only [dupIn]
    split
    · rename_i h
      constructor
      · intro h'; cases h'
      · intro h'; exact absurd h (h'.1 x List.mem_cons_self)
    · rename_i h
      rw [dupIn_false_iff r (x :: seen), List.nodup_cons]
      constructor
      · rintro ⟨h1, h2⟩
        refine ⟨?_, ?_, h2⟩
        · intro y hy
          rcases List.mem_cons.1 hy with rfl | hy
          · exact h
          · exact fun hs => h1 y hy (List.mem_cons_of_mem _ hs)
        · intro hx; exact h1 x hx List.mem_cons_self
      · rintro ⟨h1, h2, h3⟩
        refine ⟨?_, h3⟩
        intro y hy hs
        rcases List.mem_cons.1 hs with rfl | hs
        · exact h2 hy
        · exact h1 y (List.mem_cons_of_mem _ hy) hs

theorem checkTopics_none_iff : ∀ (ts : List Topic) (seen : List Nat),
    checkTopics seen ts = none ↔ (∀ t ∈ ts, t.topic ∉ seen) ∧ TopicsOk ts
  | [], seen => by simp [checkTopics, TopicsOk]
  | t :: r, seen => by
    simp only [checkTopics]
    split
    · rename_i h
      constructor
      · intro h'; cases h'
      · intro h'; exact absurd h (h'.1 t List.mem_cons_self)
    · rename_i h
      split
      · rename_i hl
        constructor
        · intro h'; cases h'
        · intro h'; have := (h'.2.2 t List.mem_cons_self).1; omega
      · rename_i hl
        split
        · rename_i hd
          constructor
          · intro h'; cases h'
          · intro h'
            have := (dupIn_false_iff t.prios []).2 ⟨by simp, (h'.2.2 t List.mem_cons_self).2⟩
            rw [this] at hd; cases hd
        · rename_i hd
          have hd' : dupIn [] t.prios = false := by cases hh : dupIn [] t.prios <;> simp_all
          have hnd := ((dupIn_false_iff t.prios []).1 hd').2
          rw [checkTopics_none_iff r (t.topic :: seen)]
          unfold TopicsOk
          rw [List.map_cons, List.nodup_cons]
          constructor
          · rintro ⟨h1, h2, h3⟩
            refine ⟨?_, ⟨?_, h2⟩, ?_⟩
            · intro y hy
              rcases List.mem_cons.1 hy with rfl | hy
              · exact h
              · exact fun hs => h1 y hy (List.mem_cons_of_mem _ hs)
            · intro hx
              rcases List.mem_map.1 hx with ⟨y, hy, hyt⟩
              exact h1 y hy (hyt ▸ List.mem_cons_self)
            · intro y hy
              rcases List.mem_cons.1 hy with rfl | hy
              · exact ⟨by omega, hnd⟩
              · exact h3 y hy
          · rintro ⟨h1, ⟨h2, h3⟩, h4⟩
            refine ⟨?_, h3, fun y hy => h4 y (List.mem_cons_of_mem _ hy)⟩
            intro y hy hs
            rcases List.mem_cons.1 hs with hs | hs
            · exact h2 (hs ▸ List.mem_map_of_mem (f := (·.topic)) hy)
            · exact h1 y (List.mem_cons_of_mem _ hy) hs

theorem validateLoop_some_none_iff (d : Nat) : ∀ (l : List Msg) (seen : List Nat),
    validateLoop (some d) seen l = none ↔
      (∀ m ∈ l, m.duty = some d) ∧ (∀ m ∈ l, m.peer ∉ seen) ∧ (l.map (·.peer)).Nodup ∧ ∀ m ∈ l, TopicsOk m.topics
  | [], seen => by simp [validateLoop]
  | m :: r, seen => by
    simp only [validateLoop, dutyStep]
    by_cases hd : m.duty = some d
    · simp only [hd, if_true]
      by_cases hp : m.peer ∈ seen
      · simp only [hp, if_true]
        constructor
        · intro h'; cases h'
        · intro h'; exact absurd hp (h'.2.1 m List.mem_cons_self)
      · simp only [hp, if_false]
        cases hc : checkTopics [] m.topics with
        | some e =>
          constructor
          · intro h'; cases h'
          · intro h'
            have := (checkTopics_none_iff m.topics []).2 ⟨by simp, h'.2.2.2 m List.mem_cons_self⟩
            rw [this] at hc; cases hc
        | none =>
          have hok := ((checkTopics_none_iff m.topics []).1 hc).2
          simp only []
          rw [validateLoop_some_none_iff d r (m.peer :: seen), List.map_cons, List.nodup_cons]
          constructor
          · rintro ⟨h1, h2, h3, h4⟩
            refine ⟨?_, ?_, ⟨?_, h3⟩, ?_⟩
            · intro y hy
              rcases List.mem_cons.1 hy with rfl | hy
              · exact hd
              · exact h1 y hy
            · intro y hy
              rcases List.mem_cons.1 hy with rfl | hy
              · exact hp
              · exact fun hs => h2 y hy (List.mem_cons_of_mem _ hs)
            · intro hx
              rcases List.mem_map.1 hx with ⟨y, hy, hyt⟩
              exact h2 y hy (hyt ▸ List.mem_cons_self)
            · intro y hy
              rcases List.mem_cons.1 hy with rfl | hy
              · exact hok
              · exact h4 y hy
          · rintro ⟨h1, h2, ⟨h3, h4⟩, h5⟩
            refine ⟨fun y hy => h1 y (List.mem_cons_of_mem _ hy), ?_, h4, fun y hy => h5 y (List.mem_cons_of_mem _ hy)⟩
            intro y hy hs
            rcases List.mem_cons.1 hs with hs | hs
            · exact h3 (hs ▸ List.mem_map_of_mem (f := (·.peer)) hy)
            · exact h2 y (List.mem_cons_of_mem _ hy) hs
    · simp only [hd, if_false]
      constructor
      · intro h'; cases h'
      · intro h'; exact absurd (h'.1 m List.mem_cons_self) hd

theorem validateMsgs_none_iff (msgs : List Msg) (hduty : ∀ m ∈ msgs, m.duty ≠ none) :
    validateMsgs msgs = none ↔ Valid msgs := by
  unfold validateMsgs Valid
  cases msgs with
  | nil => simp
  | cons m r =>
    simp only [List.isEmpty_cons, Bool.false_eq_true, if_false]
    cases hd : m.duty with
    | none => exact absurd hd (hduty m List.mem_cons_self)
    | some d =>
      -- first step by hand: `dutyStep none (some d) = some (some d)`
      have step : validateLoop none [] (m :: r) = validateLoop (some d) [] (m :: r) := by
        simp [validateLoop, dutyStep, hd]
      rw [step, validateLoop_some_none_iff d (m :: r) []]
      constructor
      · rintro ⟨h1, _, h3, h4⟩
        exact ⟨by simp, ⟨d, h1⟩, h3, h4⟩
      · rintro ⟨_, ⟨d', h1⟩, h3, h4⟩
        have : d' = d := by
          have := h1 m List.mem_cons_self
          rw [hd] at this; exact (Option.some.inj this).symm
        subst this
        exact ⟨h1, by simp, h3, h4⟩

theorem Valid.perm {l₁ l₂ : List Msg} (hp : l₁.Perm l₂) (h : Valid l₁) : Valid l₂ := by
  obtain ⟨h0, ⟨d, h1⟩, h2, h3⟩ := h
  refine ⟨?_, ⟨d, fun m hm => h1 m (hp.mem_iff.2 hm)⟩, (hp.map _).nodup_iff.1 h2, fun m hm => h3 m (hp.mem_iff.2 hm)⟩
  intro h'; subst h'; exact h0 (List.Perm.eq_nil hp)

/-! ### score sort, keys -/

theorem sortDesc_cons (x : Nat × Int) (l : List (Nat × Int)) : sortDesc (x :: l) = insertDesc x (sortDesc l) := rfl

theorem insertDesc_perm (x : Nat × Int) (l : List (Nat × Int)) : (insertDesc x l).Perm (x :: l) := by
  induction l with
  | nil => exact .refl _
  | cons y r ih =>
    simp only [insertDesc]; split
    · exact .refl _
    · exact (List.Perm.cons y ih).trans (List.Perm.swap x y r)

theorem sortDesc_perm (l : List (Nat × Int)) : (sortDesc l).Perm l := by
  induction l with
  | nil => exact .refl _
  | cons x r ih => rw [sortDesc_cons]; exact (insertDesc_perm x _).trans (.cons x ih)

theorem insertDesc_sorted (x : Nat × Int) (l : List (Nat × Int))
    (h : l.Pairwise (fun a b => a.2 ≥ b.2)) : (insertDesc x l).Pairwise (fun a b => a.2 ≥ b.2) := by
  induction l with
  | nil => simp [insertDesc]
  | cons y r ih =>
    simp only [insertDesc]; split
    · rename_i hxy
      have h' := List.pairwise_cons.1 h
      refine List.pairwise_cons.2 ⟨?_, h⟩
      intro b hb
      rcases List.mem_cons.1 hb with rfl | hb
      · exact hxy
      · have := h'.1 b hb; omega
    · rename_i hxy
      have h' := List.pairwise_cons.1 h
      refine List.pairwise_cons.2 ⟨?_, ih h'.2⟩
      intro b hb
      have := (insertDesc_perm x r).mem_iff.1 hb
      rcases List.mem_cons.1 this with rfl | hb
      · omega
      · exact h'.1 b hb

theorem sortDesc_sorted (l : List (Nat × Int)) : (sortDesc l).Pairwise (fun a b => a.2 ≥ b.2) := by
  induction l with
  | nil => exact List.Pairwise.nil
  | cons x r ih => rw [sortDesc_cons]; exact insertDesc_sorted x _ ih

theorem mem_dedup : ∀ (l : List Nat) (x : Nat), x ∈ dedup l ↔ x ∈ l
  | [], x => by simp [dedup]
  | y :: r, x => by
    simp only [dedup]; split
    · rename_i h
      rw [mem_dedup r x, List.mem_cons]
      constructor
      · exact Or.inr
      · rintro (rfl | h'); exact h; exact h'
    · rw [List.mem_cons, List.mem_cons, mem_dedup r x]

theorem dedup_nodup : ∀ (l : List Nat), (dedup l).Nodup
  | [] => by simp [dedup]
  | y :: r => by
    simp only [dedup]; split
    · exact dedup_nodup r
    · rename_i h
      exact List.nodup_cons.2 ⟨fun h' => h ((mem_dedup r y).1 h'), dedup_nodup r⟩

theorem strict_of_sorted_nodup : ∀ {l : List Nat}, l.Pairwise (fun a b => a ≤ b) → l.Nodup → l.Pairwise (fun a b => a < b)
  | [], _, _ => List.Pairwise.nil
  | x :: r, hs, hn => by
    have hs' := List.pairwise_cons.1 hs
    have hn' := List.nodup_cons.1 hn
    refine List.pairwise_cons.2 ⟨?_, strict_of_sorted_nodup hs'.2 hn'.2⟩
    intro b hb
    have := hs'.1 b hb
    have : x ≠ b := fun e => hn'.1 (e ▸ hb)
    omega

/-! ### scores: the score of a priority is bounded by 1000 per proposal that lists it -/

def getScore : List (Nat × Int) → Nat → Int
  | [], _ => 0
  | (q, t) :: r, p => if q = p then t else getScore r p

theorem getScore_addScore (p q : Nat) (s : Int) : ∀ (acc : List (Nat × Int)),
    getScore (addScore acc q s) p = getScore acc p + (if q = p then s else 0)
  | [] => by simp [addScore, getScore]
  | (q', t) :: r => by
    simp only [addScore]
    split
    · rename_i h; subst h
      by_cases hp : q' = p <;> simp [getScore, hp]
    · rename_i h
      simp only [getScore]
      by_cases hp : q' = p
      · have : ¬ q = p := fun e => h (hp.trans e.symm)
        simp [hp, this]
      · simp only [hp, if_false]; exact getScore_addScore p q s r

theorem keys_addScore (q : Nat) (s : Int) : ∀ (acc : List (Nat × Int)) (x : Nat),
    x ∈ (addScore acc q s).map (·.1) ↔ x ∈ acc.map (·.1) ∨ x = q
  | [], x => by simp [addScore]
  | (q', t) :: r, x => by
    simp only [addScore]
    split
    · rename_i h; subst h
      simp only [List.map_cons, List.mem_cons]
      constructor
      · exact Or.inl
      · rintro (h | h); exact h; exact Or.inl h
    · simp only [List.map_cons, List.mem_cons, keys_addScore q s r x]
      constructor
      · rintro (h | h | h); exact Or.inl (Or.inl h); exact Or.inl (Or.inr h); exact Or.inr h
      · rintro ((h | h) | h); exact Or.inl h; exact Or.inr (Or.inl h); exact Or.inr (Or.inr h)

theorem nodup_addScore (q : Nat) (s : Int) : ∀ (acc : List (Nat × Int)),
    (acc.map (·.1)).Nodup → ((addScore acc q s).map (·.1)).Nodup
  | [], _ => by simp [addScore]
  | (q', t) :: r, h => by
    simp only [addScore]
    split
    · exact h
    · rename_i hne
      rw [List.map_cons, List.nodup_cons] at h ⊢
      refine ⟨?_, nodup_addScore q s r h.2⟩
      intro hx
      rcases (keys_addScore q s r q').1 hx with hx | hx
      · exact h.1 hx
      · exact hne hx

theorem nodup_scoreProposal : ∀ (pr : List Nat) (acc : List (Nat × Int)) (i : Nat),
    (acc.map (·.1)).Nodup → ((scoreProposal acc i pr).map (·.1)).Nodup
  | [], _, _, h => h
  | p :: r, acc, i, h => nodup_scoreProposal r _ (i + 1) (nodup_addScore p _ acc h)

theorem nodup_foldl_scores : ∀ (props : List (List Nat)) (acc : List (Nat × Int)),
    (acc.map (·.1)).Nodup → ((props.foldl (fun acc pr => scoreProposal acc 0 pr) acc).map (·.1)).Nodup
  | [], acc, h => h
  | pr :: r, acc, h => nodup_foldl_scores r _ (nodup_scoreProposal pr acc 0 h)

theorem getScore_of_mem : ∀ {acc : List (Nat × Int)} {p : Nat} {s : Int},
    (acc.map (·.1)).Nodup → (p, s) ∈ acc → getScore acc p = s
  | [], _, _, _, h => by cases h
  | (q, t) :: r, p, s, hn, h => by
    rw [List.map_cons, List.nodup_cons] at hn
    simp only [getScore]
    rcases List.mem_cons.1 h with h | h
    · cases h; simp
    · have : q ≠ p := fun e => hn.1 (e ▸ List.mem_map_of_mem (f := (·.1)) h)
      simp only [this, if_false]
      exact getScore_of_mem hn.2 h

/-- what one proposal adds to the score of `p` (positions counted from `i`). -/
def contrib (p : Nat) : Nat → List Nat → Int
  | _, [] => 0
  | i, q :: r => (if q = p then (maxPriorities : Int) - i else 0) + contrib p (i + 1) r

theorem getScore_scoreProposal (p : Nat) : ∀ (pr : List Nat) (acc : List (Nat × Int)) (i : Nat),
    getScore (scoreProposal acc i pr) p = getScore acc p + contrib p i pr
  | [], _, _ => by simp [scoreProposal, contrib]
  | q :: r, acc, i => by
    simp only [scoreProposal, contrib]
    rw [getScore_scoreProposal p r _ (i + 1), getScore_addScore]
    omega

theorem contrib_zero_of_not_mem (p : Nat) : ∀ (pr : List Nat) (i : Nat), p ∉ pr → contrib p i pr = 0
  | [], _, _ => rfl
  | q :: r, i, h => by
    have h1 : q ≠ p := fun e => h (e ▸ List.mem_cons_self)
    have h2 : p ∉ r := fun e => h (List.mem_cons_of_mem _ e)
    simp [contrib, h1, contrib_zero_of_not_mem p r (i + 1) h2]

theorem contrib_le (p : Nat) : ∀ (pr : List Nat) (i : Nat), pr.Nodup →
    contrib p i pr ≤ if p ∈ pr then (maxPriorities : Int) else 0
  | [], _, _ => by simp [contrib]
  | q :: r, i, hn => by
    have hn' := List.nodup_cons.1 hn
    simp only [contrib]
    by_cases hq : q = p
    · subst hq
      rw [contrib_zero_of_not_mem q r (i + 1) hn'.1]
      have hm : (maxPriorities : Int) = 1000 := rfl
      simp only [List.mem_cons, true_or, if_true, hm]; omega
    · have ih := contrib_le p r (i + 1) hn'.2
      have : (p ∈ q :: r) ↔ p ∈ r := by
        rw [List.mem_cons]; constructor
        · rintro (h | h); exact absurd h.symm hq; exact h
        · exact Or.inr
      simp only [hq, if_false, this]
      omega

/-- number of proposals that list `p`. -/
def listing (p : Nat) (props : List (List Nat)) : Nat := (props.filter (fun pr => decide (p ∈ pr))).length

theorem getScore_foldl_le (p : Nat) : ∀ (props : List (List Nat)) (acc : List (Nat × Int)),
    (∀ pr ∈ props, pr.Nodup) →
    getScore (props.foldl (fun acc pr => scoreProposal acc 0 pr) acc) p
      ≤ getScore acc p + (maxPriorities : Int) * (listing p props : Nat)
  | [], acc, _ => by simp [listing]
  | pr :: r, acc, h => by
    have ih := getScore_foldl_le p r (scoreProposal acc 0 pr) (fun x hx => h x (List.mem_cons_of_mem _ hx))
    have hc := contrib_le p pr 0 (h pr List.mem_cons_self)
    rw [getScore_scoreProposal] at ih
    simp only [List.foldl_cons]
    by_cases hp : p ∈ pr
    · have : listing p (pr :: r) = listing p r + 1 := by simp [listing, hp]
      rw [this]; simp only [hp, if_true] at hc
      have hm : (maxPriorities : Int) = 1000 := rfl
      rw [hm] at hc ih ⊢
      omega
    · have : listing p (pr :: r) = listing p r := by simp [listing, hp]
      rw [this]; simp only [hp, if_false] at hc
      omega

theorem getScore_scoresOf_le (p : Nat) (props : List (List Nat)) (h : ∀ pr ∈ props, pr.Nodup) :
    getScore (scoresOf props) p ≤ (maxPriorities : Int) * (listing p props : Nat) := by
  have := getScore_foldl_le p props [] h
  simpa [scoresOf, getScore] using this

/-- every entry of a topic result has more than `minScore` points and at least `minRequired` proposals behind it. -/
theorem topicResult_entry (sorted : List Msg) (m : Int) (k p : Nat) (s : Int)
    (hn : ∀ pr ∈ proposalsFor sorted k, pr.Nodup)
    (h : (p, s) ∈ (topicResult sorted m k).prios) :
    s > minScore m ∧ s = getScore (scoresOf (proposalsFor sorted k)) p ∧ m ≤ (listing p (proposalsFor sorted k) : Nat) := by
  simp only [topicResult, List.mem_filter, decide_eq_true_eq] at h
  have hmem := (sortDesc_perm _).mem_iff.1 h.1
  have hs : getScore (scoresOf (proposalsFor sorted k)) p = s :=
    getScore_of_mem (nodup_foldl_scores (proposalsFor sorted k) [] (by simp)) hmem
  have hle := getScore_scoresOf_le p _ hn
  refine ⟨h.2, hs.symm, ?_⟩
  have h2 := h.2
  rw [hs] at hle
  have hm : (maxPriorities : Int) = 1000 := rfl
  unfold minScore at h2
  rw [hm] at hle h2
  omega

end CharonV.Priority
