/-
`Fr.r` — the order of the BLS12-381 groups, the modulus of the executable scalar arithmetic of
`Model/Fr.lean` — is prime.  Kernel-checked Lucas / Pratt certificate:

* `r - 1 = 2^32 · 3 · 11 · 19 · 10177 · 125527 · 859267 · 906349² · 2508409 · 2529403 · 52437899 ·
  254760293²` (`r_sub_one_factorisation`), every listed base is prime (`norm_num`);
* `7` has order `r - 1` modulo `r`: `7^(r-1) ≡ 1` and `7^((r-1)/q) ≢ 1` for each of the twelve prime
  factors `q`.  The 255-bit modular powers are never expanded: `powMod` is a structurally recursive
  square-and-multiply on `Nat`, proved equal to `a ^ e % m` once (`powMod_eq`), and its concrete
  instances are evaluated by the kernel (`decide +kernel`: GMP arithmetic on literals, no compiler,
  no extra axiom);
* Mathlib's `lucas_primality` concludes.

`prime_of_lucasCert` is the generic step (any modulus, any witness, any factor list).
This discharges the hypothesis `[Fact (Nat.Prime Fr.r)]` of `Proofs/TblsFr.lean`, `Props/C08.lean`
(`exec_recover_secret`) and `Props/C11.lean` (`exec_dkg_recovers_sum_of_secrets`).
-/
import CharonV.Model.Fr
import Mathlib.NumberTheory.LucasPrimality
import Mathlib.Data.List.Prime
import Mathlib.Tactic.NormNum.Prime

namespace CharonV.Fr

/-! ### square-and-multiply on `Nat`, correct for every base, exponent and modulus -/

/-- `a ^ e % m` by squaring: structural recursion on `fuel` (`fuel` ≥ number of bits of `e`). -/
def powModGo (a m : ℕ) : ℕ → ℕ → ℕ
  | 0, _ => 1 % m
  | fuel + 1, e =>
    if e = 0 then 1 % m
    else
      let h := powModGo a m fuel (e / 2)
      if e % 2 = 1 then h * h % m * a % m else h * h % m

/-- `a ^ e % m` without ever forming `a ^ e` (the fuel is `e` itself: `e < 2 ^ e`). -/
def powMod (a e m : ℕ) : ℕ := powModGo a m e e

theorem powModGo_eq (a m : ℕ) : ∀ (fuel e : ℕ), e < 2 ^ fuel → powModGo a m fuel e = a ^ e % m := by
  intro fuel
  induction fuel with
  | zero =>
    intro e h
    have : e = 0 := by simpa using h
    subst this
    simp [powModGo]
  | succ f ih =>
    intro e h
    unfold powModGo
    by_cases he : e = 0
    · subst he; simp
    · have hlt : e / 2 < 2 ^ f := by
        rw [Nat.div_lt_iff_lt_mul (by norm_num)]
        rw [pow_succ] at h
        exact h
      have hsplit : e = e / 2 + e / 2 + e % 2 := by omega
      simp only [he, if_false, ih _ hlt]
      by_cases hodd : e % 2 = 1
      · simp only [hodd, if_true]
        conv_rhs => rw [hsplit, hodd, pow_add, pow_add, pow_one]
        simp [Nat.mul_mod]
      · have heven : e % 2 = 0 := by omega
        simp only [hodd, if_false]
        conv_rhs => rw [hsplit, heven, add_zero, pow_add]
        simp [Nat.mul_mod]

/-- **`powMod` is modular exponentiation** — for all `a`, `e`, `m`. -/
theorem powMod_eq (a e m : ℕ) : powMod a e m = a ^ e % m :=
  powModGo_eq a m e e Nat.lt_two_pow_self

/-- in `ZMod m` (`1 < m`): `a ^ e = 1` iff the square-and-multiply result is `1`. -/
theorem natCast_pow_eq_one_iff {m : ℕ} (hm : 1 < m) (a e : ℕ) :
    ((a : ℕ) : ZMod m) ^ e = 1 ↔ powMod a e m = 1 := by
  rw [powMod_eq, ← Nat.cast_pow, ← Nat.cast_one (R := ZMod m), ZMod.natCast_eq_natCast_iff',
    Nat.mod_eq_of_lt hm]

/-! ### the generic Lucas / Pratt step -/

/-- the Boolean part of a Lucas certificate for `n`: witness `a`, and `fs = [(q, k), …]` with
`n - 1 = ∏ q ^ k`; `a ^ (n-1) ≡ 1` and `a ^ ((n-1)/q) ≢ 1 (mod n)` for every listed `q`. -/
def lucasCert (n a : ℕ) (fs : List (ℕ × ℕ)) : Bool :=
  decide (1 < n) && (n - 1 == (fs.map fun p => p.1 ^ p.2).prod) && (powMod a (n - 1) n == 1) &&
    fs.all fun p => powMod a ((n - 1) / p.1) n != 1

/-- **Lucas test from a checked certificate**: if the bases of `fs` are prime and the Boolean
certificate holds, `n` is prime. -/
theorem prime_of_lucasCert (n a : ℕ) (fs : List (ℕ × ℕ)) (hfs : ∀ p ∈ fs, Nat.Prime p.1)
    (hc : lucasCert n a fs = true) : Nat.Prime n := by
  unfold lucasCert at hc
  simp only [Bool.and_eq_true, decide_eq_true_eq, beq_iff_eq, List.all_eq_true, bne_iff_ne] at hc
  obtain ⟨⟨⟨hn, hprod⟩, h1⟩, hq⟩ := hc
  refine lucas_primality n ((a : ℕ) : ZMod n) ((natCast_pow_eq_one_iff hn a _).2 h1) ?_
  intro q hqp hqd
  rw [hprod, (Nat.prime_iff.1 hqp).dvd_prod_iff] at hqd
  obtain ⟨x, hx, hqx⟩ := hqd
  obtain ⟨p, hp, rfl⟩ := List.mem_map.1 hx
  have hqp1 : q ∣ p.1 := hqp.dvd_of_dvd_pow hqx
  have hqe : q = p.1 := (Nat.prime_dvd_prime_iff_eq hqp (hfs p hp)).1 hqp1
  subst hqe
  rw [Ne, natCast_pow_eq_one_iff hn]
  exact hq p hp

/-! ### the certificate of `r` -/

/-- prime factorisation of `r - 1` (base, multiplicity). -/
def rFactors : List (ℕ × ℕ) :=
  [(2, 32), (3, 1), (11, 1), (19, 1), (10177, 1), (125527, 1), (859267, 1), (906349, 2),
   (2508409, 1), (2529403, 1), (52437899, 1), (254760293, 2)]

/-- the primitive root used as Lucas witness (the customary generator of `Fr^*`). -/
def rWitness : ℕ := 7

theorem rFactors_prime : ∀ p ∈ rFactors, Nat.Prime p.1 := by
  simp only [rFactors, List.forall_mem_cons, List.not_mem_nil, false_imp_iff, implies_true,
    and_true]
  norm_num

theorem r_sub_one_factorisation :
    r - 1 = 2 ^ 32 * 3 * 11 * 19 * 10177 * 125527 * 859267 * 906349 ^ 2 * 2508409 * 2529403 *
      52437899 * 254760293 ^ 2 := by
  decide +kernel

/-- `7 ^ (r - 1) ≡ 1 (mod r)`. -/
theorem witness_pow_r_sub_one : rWitness ^ (r - 1) % r = 1 := by
  rw [← powMod_eq]; decide +kernel

/-- `7 ^ ((r - 1) / q) ≢ 1 (mod r)` for every prime factor `q` of `r - 1`: `7` has order `r - 1`. -/
theorem witness_pow_cofactor_ne_one : ∀ p ∈ rFactors, rWitness ^ ((r - 1) / p.1) % r ≠ 1 := by
  have h : (rFactors.all fun p => powMod rWitness ((r - 1) / p.1) r != 1) = true := by
    decide +kernel
  intro p hp
  rw [← powMod_eq]
  simpa using List.all_eq_true.1 h p hp

theorem r_lucasCert : lucasCert r rWitness rFactors = true := by decide +kernel

/-- **The BLS12-381 scalar-field order is prime.** -/
theorem r_prime : Nat.Prime r := prime_of_lucasCert r rWitness rFactors rFactors_prime r_lucasCert

instance instFactPrimeR : Fact (Nat.Prime r) := ⟨r_prime⟩

end CharonV.Fr
