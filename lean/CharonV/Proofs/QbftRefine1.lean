/-
Refinement, part 1: what the implementation's checks establish in terms of the spec's guards,
given that every received core is admissible (C05).
-/
import CharonV.Proofs.QbftImpl2
import CharonV.Proofs.QbftSpec
import CharonV.Spec.QbftSys

namespace CharonV.QbftSys

open CharonV.Qbft CharonV.QbftSpec

variable {P : Params} {fifo : Nat}

theorem admCore_mono {H H' : List Ev} (hsub : ∀ e ∈ H, e ∈ H') {c : Core} (h : admCore P H c) :
    admCore P H' c := by
  obtain ⟨h1, h2, h3, h4⟩ := h
  refine ⟨h1, h2, h3, ?_⟩
  rcases h4 with h4 | h4 | ⟨e, he, hm⟩
  · exact Or.inl h4
  · exact Or.inr (Or.inl h4)
  · exact Or.inr (Or.inr ⟨e, he, hsub e hm⟩)

theorem admMsg_mono {H H' : List Ev} (hsub : ∀ e ∈ H, e ∈ H') {m : Msg} (h : admMsg P H m) :
    admMsg P H' m :=
  ⟨admCore_mono hsub h.1, fun j hj => admCore_mono hsub (h.2 j hj)⟩

theorem adm_prepare {H : List Ev} {c : Core} (h : admCore P H c) (ht : c.typ = tPrepare) :
    c.src < P.n ∧ avail P H c.src (.prepare c.src c.round c.value) := by
  obtain ⟨h1, _, _, h4⟩ := h
  refine ⟨h1, ?_⟩
  rcases h4 with h4 | h4 | ⟨e, he, hm⟩
  · exact Or.inl h4
  · rw [ht] at h4; simp [tPrepare, tDecided] at h4
  · simp [coreEv, ht, tPrepare, tPrePrepare] at he
    subst he; exact Or.inr hm

theorem adm_commit {H : List Ev} {c : Core} (h : admCore P H c) (ht : c.typ = tCommit) :
    c.src < P.n ∧ avail P H c.src (.commit c.src c.round c.value) := by
  obtain ⟨h1, _, _, h4⟩ := h
  refine ⟨h1, ?_⟩
  rcases h4 with h4 | h4 | ⟨e, he, hm⟩
  · exact Or.inl h4
  · rw [ht] at h4; simp [tCommit, tDecided] at h4
  · simp [coreEv, ht, tCommit, tPrepare, tPrePrepare] at he
    subst he; exact Or.inr hm

theorem adm_roundChange {H : List Ev} {c : Core} (h : admCore P H c) (ht : c.typ = tRoundChange) :
    c.src < P.n ∧ avail P H c.src (.roundChange c.src c.round c.pr c.pv) := by
  obtain ⟨h1, _, _, h4⟩ := h
  refine ⟨h1, ?_⟩
  rcases h4 with h4 | h4 | ⟨e, he, hm⟩
  · exact Or.inl h4
  · rw [ht] at h4; simp [tRoundChange, tDecided] at h4
  · simp [coreEv, ht, tRoundChange, tCommit, tPrepare, tPrePrepare] at he
    subst he; exact Or.inr hm

theorem adm_prePrepare {H : List Ev} {c : Core} (h : admCore P H c) (ht : c.typ = tPrePrepare) :
    c.src < P.n ∧ avail P H c.src (.prePrepare c.src c.round c.value) := by
  obtain ⟨h1, _, _, h4⟩ := h
  refine ⟨h1, ?_⟩
  rcases h4 with h4 | h4 | ⟨e, he, hm⟩
  · exact Or.inl h4
  · rw [ht] at h4; simp [tPrePrepare, tDecided] at h4
  · simp [coreEv, ht] at he
    subst he; exact Or.inr hm

/-- a list of cores of one type/round/value with distinct sources, all admissible, long enough,
is a quorum of the spec. -/
theorem quorum_of_cores {H : List Ev} {cs : List Core} {mk : Nat → Ev}
    (hnd : (cs.map (·.src)).Nodup) (hlen : quorum P.n ≤ cs.length)
    (hav : ∀ c ∈ cs, c.src < P.n ∧ avail P H c.src (mk c.src)) :
    quorumOf P H mk := by
  refine ⟨cs.map (·.src), hnd, by simpa using hlen, ?_⟩
  intro j hj
  obtain ⟨c, hc, rfl⟩ := List.mem_map.mp hj
  exact hav c hc

theorem mkDef_quorum : (mkDef P fifo).quorum = quorum P.n := rfl

/-- `getSingleJustifiedPrPv` on admissible cores yields a PREPARE quorum of the spec. -/
theorem prepareQuorum_of_getSingle {H : List Ev} {msgs : List Core} {pr pv : Nat}
    (hadm : ∀ c ∈ msgs, admCore P H c)
    (h : getSingleJustifiedPrPv (mkDef P fifo) msgs = (pr, pv, true)) :
    prepareQuorum P H pr pv := by
  obtain ⟨srcs, hnd, hlen, hall⟩ := getSingle_sound h
  refine ⟨srcs, hnd, hlen, ?_⟩
  intro j hj
  obtain ⟨c, hc, ht, hs, hr, hv⟩ := hall j hj
  have := adm_prepare (hadm c hc) ht
  rw [hs, hr, hv] at this
  exact this

/-- The implementation's `isJustifiedPrePrepare` establishes the spec's `justifiedPP` guard. -/
theorem justifiedPP_of_impl {H : List Ev} {m : Msg} {cfr : Nat}
    (hadm : admMsg P H m)
    (hnz : ∀ pr, ¬ prepareQuorum P H pr 0)
    (hj : isJustifiedPrePrepare (mkDef P fifo) m cfr = true) :
    P.leader m.core.round = m.core.src ∧ m.core.value ≠ 0 ∧
      justifiedPP P H cfr m.core.round m.core.value (pathOf (mkDef P fifo) m cfr) := by
  unfold isJustifiedPrePrepare at hj
  split at hj
  · simp at hj
  · rename_i hl
    have hl' : P.leader m.core.round = m.core.src := by simpa [mkDef] using hl
    split at hj
    · simp at hj
    · rename_i hv
      refine ⟨hl', hv, ?_⟩
      unfold pathOf
      by_cases h1 : m.core.round = 1
      · rw [if_pos h1]; exact h1
      · by_cases h2 : m.core.round = cfr + 1
        · rw [if_neg h1, if_pos h2]; exact h2
        · simp only [h1, h2, or_self, if_false] at hj ⊢
          -- through `containsJustifiedQrc`
          unfold containsJustifiedQrc at hj
          simp only at hj
          have hqrcAdm : ∀ c ∈ filterRoundChange m.just m.core.round,
              c.src < P.n ∧ avail P H c.src (.roundChange c.src m.core.round c.pr c.pv) := by
            intro c hc
            have hs := filterMsgs_sound hc
            have := adm_roundChange (hadm.2 c hs.1) hs.2.1
            rw [hs.2.2.1] at this
            exact this
          have hnd : ((filterRoundChange m.just m.core.round).map (·.src)).Nodup :=
            filterMsgs_nodup m.just tRoundChange m.core.round none none none
          by_cases hlen : (filterRoundChange m.just m.core.round).length < (mkDef P fifo).quorum
          · simp [hlen] at hj
          · have hlen' : quorum P.n ≤ (filterRoundChange m.just m.core.round).length := by
              rw [mkDef_quorum] at hlen; omega
            have hqrc : qrcAvail P H m.core.round
                ((filterRoundChange m.just m.core.round).map (fun c => (c.src, c.pr, c.pv))) := by
              refine ⟨?_, by simpa using hlen', ?_⟩
              · simpa [List.map_map, Function.comp_def] using hnd
              · intro t ht
                obtain ⟨c, hc, rfl⟩ := List.mem_map.mp ht
                exact hqrcAdm c hc
            by_cases hall : (filterRoundChange m.just m.core.round).all (fun rc => rc.pr == 0 && rc.pv == 0) = true
            · simp only [hall, if_true]
              refine ⟨_, hqrc, ?_⟩
              intro t ht
              obtain ⟨c, hc, rfl⟩ := List.mem_map.mp ht
              have := List.all_eq_true.mp hall c hc
              simpa using this
            · simp only [hlen, hall, if_false, Bool.false_eq_true] at hj ⊢
              -- J2
              cases hgs : getSingleJustifiedPrPv (mkDef P fifo) m.just with
              | mk pr rest =>
                cases rest with
                | mk pv ok =>
                  rw [hgs] at hj
                  simp only at hj
                  cases ok with
                  | false => simp at hj
                  | true =>
                    simp only [Bool.not_true, Bool.false_eq_true, if_false] at hj
                    have hpq : prepareQuorum P H pr pv := prepareQuorum_of_getSingle hadm.2 hgs
                    by_cases hany : (filterRoundChange m.just m.core.round).any (fun rc => decide (rc.pr > pr)) = true
                    · simp [hany] at hj
                    · simp only [hany, Bool.false_eq_true, if_false] at hj
                      have hpvne : pv ≠ 0 := by
                        intro h0; subst h0; exact hnz pr hpq
                      cases hfound : (filterRoundChange m.just m.core.round).any (fun rc => rc.pr == pr && rc.pv == pv) with
                      | false => rw [hfound] at hj; simp at hj
                      | true =>
                        rw [hfound] at hj
                        simp only [Bool.not_true, Bool.false_eq_true, if_false, hpvne] at hj
                        have hval : m.core.value = pv := by simpa using hj
                        refine ⟨_, pr, hqrc, by rw [hval]; exact hpq, ?_, ?_⟩
                        · intro t ht
                          obtain ⟨c, hc, rfl⟩ := List.mem_map.mp ht
                          have := hany
                          simp only [List.any_eq_true, not_exists, not_and] at this
                          have := this c hc
                          simp at this
                          exact this
                        · obtain ⟨c, hc, hcc⟩ := List.any_eq_true.mp hfound
                          refine ⟨(c.src, c.pr, c.pv), List.mem_map.mpr ⟨c, hc, rfl⟩, ?_⟩
                          simp at hcc
                          rw [hval]; exact hcc

end CharonV.QbftSys
