/-
Refinement, part 9: the global theorem.
-/
import CharonV.Proofs.QbftRefine8

namespace CharonV.QbftSys

open CharonV.Qbft CharonV.QbftSpec

variable {P : Params} {fifo : Nat}

/-- Everything the induction carries: a related reachable spec state and the local invariants. -/
def Sim (P : Params) (s : Sys) : Prop :=
  ∃ t, QbftSpec.Reach P t ∧ Rel P s t ∧ ∀ p, P.honest p → LInv P s.hist p (s.nodes p)

theorem sim_init : Sim P init := by
  refine ⟨QbftSpec.init, QbftSpec.Reach.init, ⟨rfl, ?_⟩, ?_⟩
  · intro p _; exact ⟨rfl, fun _ => rfl⟩
  · intro p _; exact linv_init _ p

theorem sim_next (hn : 1 ≤ P.n) (hb : P.byzCount ≤ faulty P.n) {s : Sys} (h : Sim P s)
    (p : Nat) (o : Oracle) (e : Event) (hp : P.honest p) (hev : evOk P s p e) :
    Sim P (next P fifo s p o e) := by
  obtain ⟨t, hr, ⟨hhist, hnodes⟩, hlis⟩ := h
  have hrel : nodeRel (t.nodes p) (absNode (s.nodes p)) := hnodes p hp
  have hli : LInv P t.hist p (s.nodes p) := by rw [hhist]; exact hlis p hp
  have hev' : evOkH P t.hist p e := by rw [hhist]; exact hev
  obtain ⟨⟨t', hr', hh', hoth, hrel'⟩, hli'⟩ := good_step (fifo := fifo) hn hb o e hr hp hrel hli hev'
  refine ⟨t', hr', ⟨?_, ?_⟩, ?_⟩
  · rw [hh', hhist]; rfl
  · intro q hq
    by_cases hqp : q = p
    · subst hqp
      have := hrel'
      simp only [next, upd, if_true]
      exact this
    · rw [hoth q hqp]
      simpa [next, upd, hqp] using hnodes q hq
  · intro q hq
    by_cases hqp : q = p
    · subst hqp
      have : (next P fifo s q o e).hist = t.hist ++ (step (mkDef P fifo) o (s.nodes q) e).2.flatMap
          (outEv (mkDef P fifo) q (s.nodes q).compareFailureRound e) := by
        simp [next, hhist]
      rw [this]
      simpa [next, upd] using hli'
    · have : (next P fifo s p o e).nodes q = s.nodes q := by simp [next, upd, hqp]
      rw [this]
      exact (hlis q hq).mono (fun x hx => by simp [next]; exact Or.inl hx)

/-- **Refinement.** Every reachable state of the cluster of implementation nodes is related to a
reachable state of the abstract QBFT spec with the same (ghost) history. -/
theorem reach_sim (hn : 1 ≤ P.n) (hb : P.byzCount ≤ faulty P.n) {s : Sys}
    (h : Reach P fifo s) : Sim P s := by
  induction h with
  | init => exact sim_init
  | step p o e _ hp hev ih => exact sim_next hn hb ih p o e hp hev

/-- every `Decide` callback of a step is recorded in the history. -/
theorem decide_recorded (s : Sys) (p : Nat) (o : Oracle) (e : Event) (v r : Nat) (qc : List Core)
    (h : Out.decide v r qc ∈ (step (mkDef P fifo) o (s.nodes p) e).2) :
    Ev.decide p r v ∈ (next P fifo s p o e).hist := by
  simp only [next, List.mem_append, List.mem_flatMap]
  exact Or.inr ⟨_, h, by simp [outEv]⟩

end CharonV.QbftSys
