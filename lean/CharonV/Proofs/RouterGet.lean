/-
Helper lemmas for `CharonV.Props.C14RouterGet` (model: `CharonV.Model.RouterGet`).
-/
import CharonV.Model.RouterGet

namespace CharonV.RouterGet

theorem mapOpt_some_iff {α β : Type} (f : α → Option β) (l : List α) (r : List β) :
    mapOpt f l = some r ↔ l.map f = r.map some := by
  induction l generalizing r with
  | nil => cases r <;> simp [mapOpt]
  | cons a as ih =>
    cases r with
    | nil =>
      simp only [mapOpt, List.map_cons, List.map_nil]
      cases f a <;> cases mapOpt f as <;> simp
    | cons b bs =>
      simp only [mapOpt, List.map_cons, List.cons.injEq]
      cases hfa : f a with
      | none => simp
      | some b' =>
        cases hm : mapOpt f as with
        | none =>
          have := ih bs
          simp [hm] at this
          simp [this]
        | some bs' =>
          have := ih bs'
          simp [hm] at this
          simp only [Option.some.injEq, List.cons.injEq]
          constructor
          · rintro ⟨h1, h2⟩
            subst h1 h2
            exact ⟨rfl, this⟩
          · rintro ⟨h1, h2⟩
            refine ⟨h1, ?_⟩
            have h3 : bs'.map some = bs.map some := this.symm.trans h2
            exact (List.map_inj_right (fun _ _ h => Option.some.inj h)).mp h3

theorem mapOpt_none_iff {α β : Type} (f : α → Option β) (l : List α) :
    mapOpt f l = none ↔ ∃ a ∈ l, f a = none := by
  induction l with
  | nil => simp [mapOpt]
  | cons a as ih =>
    simp only [mapOpt, List.mem_cons, exists_eq_or_imp]
    cases hfa : f a with
    | none => simp
    | some b =>
      cases hm : mapOpt f as with
      | none => simp [← ih, hm]
      | some bs =>
        have : ¬ ∃ a ∈ as, f a = none := by rw [← ih, hm]; simp
        simp [this]

theorem mapOpt_length {α β : Type} {f : α → Option β} {l : List α} {r : List β}
    (h : mapOpt f l = some r) : r.length = l.length := by
  have := congrArg List.length ((mapOpt_some_iff f l r).mp h)
  simpa using this.symm

/-- what a successful `createProposeBlockResponse` returned. -/
theorem create_some {p : Proposal} {v : VerName} {pl : Payload}
    (h : createProposeBlockResponse p = some (v, pl)) :
    ∃ f, Fork.ofRaw p.version = some f ∧ v = .fork f ∧ p.served = some pl ∧
      expectedType (.fork f) p.blinded = some pl.ty := by
  unfold createProposeBlockResponse at h
  unfold Proposal.served
  cases hf : Fork.ofRaw p.version with
  | none => simp [hf] at h
  | some f =>
    simp only [hf] at h ⊢
    refine ⟨f, rfl, ?_⟩
    cases hb : p.blinded with
    | true =>
      simp only [hb, if_true] at h ⊢
      cases hbt : blindType f with
      | none => simp [hbt] at h
      | some ty =>
        simp only [hbt] at h ⊢
        cases hbl : p.blind f with
        | none => simp [hbl] at h
        | some id =>
          simp only [hbl, Option.some.injEq, Prod.mk.injEq] at h
          obtain ⟨h1, h2⟩ := h
          subst h1 h2
          simp [expectedType, hbt]
    | false =>
      simp only [hb] at h ⊢
      cases hfl : p.full f with
      | none => simp [hfl] at h
      | some id =>
        simp only [hfl, Bool.false_eq_true, if_false, Option.some.injEq, Prod.mk.injEq] at h
        obtain ⟨h1, h2⟩ := h
        subst h1 h2
        simp [expectedType]

theorem create_none_iff (p : Proposal) : createProposeBlockResponse p = none ↔ p.served = none := by
  unfold createProposeBlockResponse Proposal.served
  cases Fork.ofRaw p.version with
  | none => simp
  | some f =>
    cases p.blinded <;> simp
    · cases p.full f <;> simp
    · cases blindType f with
      | none => simp
      | some ty => cases p.blind f <;> simp

theorem create_of_served {p : Proposal} {pl : Payload} (h : p.served = some pl) :
    createProposeBlockResponse p = some (versionString p.version, pl) := by
  cases hc : createProposeBlockResponse p with
  | none => rw [(create_none_iff p).mp hc] at h; cases h
  | some vp =>
    obtain ⟨v, pl'⟩ := vp
    obtain ⟨f, hf, hv, hs, _⟩ := create_some hc
    rw [hs] at h
    cases h
    simp [versionString, hf, hv]

theorem createAgg_eq (a : AggAtt) :
    createAggregateAttestation a = a.served.map (fun pl => (versionString a.version, pl)) := by
  unfold createAggregateAttestation AggAtt.served
  cases Fork.ofRaw a.version with
  | none => simp
  | some f => cases h : a.field f <;> simp [h]

theorem aggServed_type {a : AggAtt} {pl : Payload} (h : a.served = some pl) :
    ∃ f, Fork.ofRaw a.version = some f ∧ a.field f = some pl.id ∧ pl.ty = attType f := by
  unfold AggAtt.served at h
  cases hf : Fork.ofRaw a.version with
  | none => simp [hf] at h
  | some f =>
    simp only [hf] at h
    cases hfl : a.field f with
    | none => simp [hfl] at h
    | some id =>
      simp only [hfl, Option.map_some, Option.some.injEq] at h
      subst h
      exact ⟨f, rfl, hfl, rfl⟩

theorem classify_cons_true {first : List Char} (rest : List (List Char)) (h0 : has0x first = true) :
    classifyIds (first :: rest) =
      match mapOpt parsePubkey (first :: rest) with
      | some ks => .pubkeys ks
      | none => .error := by
  simp only [classifyIds, h0, if_true]
  generalize mapOpt parsePubkey (first :: rest) = m
  cases m <;> rfl

theorem classify_cons_false {first : List Char} (rest : List (List Char)) (h0 : has0x first = false) :
    classifyIds (first :: rest) =
      match mapOpt parseUint (first :: rest) with
      | some is => .indices is
      | none => .error := by
  simp only [classifyIds, h0, Bool.false_eq_true, if_false]
  generalize mapOpt parseUint (first :: rest) = m
  cases m <;> rfl

theorem subCalls_all {n : Nat} {fa : Option Nat} (h : (subCalls n fa).2 = false) :
    (subCalls n fa).1 = n := by
  unfold subCalls at h ⊢
  cases fa with
  | none => rfl
  | some k =>
    by_cases hk : k < n
    · simp [hk] at h
    · simp [hk]

end CharonV.RouterGet
