/-
C12 — helper lemmas for `Props/C12Deposit.lean` (`CharonV.Model.DepositReg`).

* roots: `depositMessageRoot_inj`, `depositDataRoot_inj`, `registrationRoot_inj` — the three container
  roots are injective under collision freedom of the compression function (through `tree_inj` of
  `CharonV.Proofs.SszSchema`), `toU64_inj` (Go `uint64(int64)` on the int64 range).
* addresses: `unhex_length`, `unhex_isSome_iff`, `checksumAddress_iff`, `withdrawalCreds_ok_iff`,
  `executionAddress_ok_iff`.
* amounts: `verifyLoop_ok_iff`, `verifyLoopFixed_ok_iff`, `sum_le_length_mul`, `verifyLoop_replicate_max`, `wrap_general`; `dedupLoop_spec`,
  `sortAsc_sorted`, `sorted_ext`, `dedupAmounts_spec`.
* merge: `merge_general`, `count_flatten_classes`.
-/
import CharonV.Model.DepositReg
import CharonV.Proofs.Signing

namespace CharonV.DepositReg

open CharonV.Ssz (Bytes Chunk mkChunk Tree Collision NoColl noColl_of_not_collision mkChunk_inj Chunk.ext' unhex unhexDigit)
open CharonV.Signing (computeDomain signingRoot zero32 TruncCollision forkDataRoot mkChunk_of_length32)

section Roots
variable (h : Chunk → Chunk → Chunk)

/-! ### roots of the three containers -/

theorem okOf_some {ε α} {x : Except ε α} {a : α} (hx : okOf x = some a) : x = .ok a := by
  cases x with
  | error e => simp [okOf] at hx
  | ok c => simp [okOf] at hx; rw [hx]

theorem depositMessageRoot_some {m : DepositMessage} {r : Chunk} (hr : depositMessageRoot h m = some r) :
    m.wc.length = 32 ∧ m.tree.root h = .ok r := by
  unfold depositMessageRoot at hr
  split at hr
  · cases hr
  · rename_i hw
    exact ⟨by omega, okOf_some hr⟩

theorem depositDataRoot_some {d : DepositData} {r : Chunk} (hr : depositDataRoot h d = some r) :
    d.wc.length = 32 ∧ d.tree.root h = .ok r := by
  unfold depositDataRoot at hr
  split at hr
  · cases hr
  · rename_i hw
    exact ⟨by omega, okOf_some hr⟩

theorem registrationRoot_some {g : Registration} {r : Chunk} (hr : registrationRoot h g = some r) :
    g.tree.root h = .ok r := okOf_some hr

theorem toU64_lt (x : Int) : toU64 x < 18446744073709551616 := by unfold toU64; omega

theorem toU64_inj {x y : Int} (hx : -9223372036854775808 ≤ x) (hx' : x < 9223372036854775808)
    (hy : -9223372036854775808 ≤ y) (hy' : y < 9223372036854775808) (he : toU64 x = toU64 y) : x = y := by
  unfold toU64 at he
  omega

/-- two chunk trees of one shape with the size side conditions and the same root are equal
(`tree_inj` at the root). -/
theorem root_inj (hc : NoColl h) (t u : Tree) (hs : t.shapeEq u = true)
    (hr : t.rawAgree u = true) (hz : t.sized = true) (hz' : u.sized = true) (r : Chunk)
    (ht : t.root h = .ok r) (hu : u.root h = .ok r) : t = u := by
  unfold Tree.root at ht hu
  cases ha : Tree.chunks h t with
  | error e => simp [ha] at ht
  | ok a =>
    cases hb : Tree.chunks h u with
    | error e => simp [hb] at hu
    | ok b =>
      have ih := CharonV.Ssz.tree_inj hc t u hs hr hz hz' a b ha hb
      rw [ha] at ht; rw [hb] at hu
      match a, b, ht, hu with
      | [c], [d], ht, hu =>
        simp at ht hu
        exact ih.2 (by rw [ht, hu])

/-- deposit message root: injective under collision freedom. -/
theorem depositMessageRoot_inj (hc : NoColl h) (m m' : DepositMessage)
    (hp : m.pubkey.length = m'.pubkey.length) (ha : m.amount < 18446744073709551616)
    (ha' : m'.amount < 18446744073709551616) (r : Chunk)
    (hr : depositMessageRoot h m = some r) (hr' : depositMessageRoot h m' = some r) : m = m' := by
  obtain ⟨hw, ht⟩ := depositMessageRoot_some h hr
  obtain ⟨hw', ht'⟩ := depositMessageRoot_some h hr'
  have he := root_inj h hc m.tree m'.tree
    (by simp [DepositMessage.tree, Tree.shapeEq, Tree.shapeEqL])
    (by simp [DepositMessage.tree, Tree.rawAgree, Tree.rawAgreeL, hp, hw, hw'])
    (by simp [DepositMessage.tree, Tree.sized, Tree.sizedL, ha])
    (by simp [DepositMessage.tree, Tree.sized, Tree.sizedL, ha']) r ht ht'
  cases m; cases m'
  simp [DepositMessage.tree] at he
  simp [he]

theorem depositDataRoot_inj (hc : NoColl h) (d d' : DepositData)
    (hp : d.pubkey.length = d'.pubkey.length) (hs : d.sig.length = d'.sig.length)
    (ha : d.amount < 18446744073709551616) (ha' : d'.amount < 18446744073709551616) (r : Chunk)
    (hr : depositDataRoot h d = some r) (hr' : depositDataRoot h d' = some r) : d = d' := by
  obtain ⟨hw, ht⟩ := depositDataRoot_some h hr
  obtain ⟨hw', ht'⟩ := depositDataRoot_some h hr'
  have he := root_inj h hc d.tree d'.tree
    (by simp [DepositData.tree, Tree.shapeEq, Tree.shapeEqL])
    (by simp [DepositData.tree, Tree.rawAgree, Tree.rawAgreeL, hp, hs, hw, hw'])
    (by simp [DepositData.tree, Tree.sized, Tree.sizedL, ha])
    (by simp [DepositData.tree, Tree.sized, Tree.sizedL, ha']) r ht ht'
  cases d; cases d'
  simp [DepositData.tree] at he
  simp [he]

theorem registrationRoot_inj (hc : NoColl h) (g g' : Registration)
    (hf : g.fee.length = g'.fee.length) (hp : g.pubkey.length = g'.pubkey.length)
    (hg : g.gasLimit < 18446744073709551616) (hg' : g'.gasLimit < 18446744073709551616)
    (ht1 : -9223372036854775808 ≤ g.timestamp) (ht2 : g.timestamp < 9223372036854775808)
    (ht1' : -9223372036854775808 ≤ g'.timestamp) (ht2' : g'.timestamp < 9223372036854775808) (r : Chunk)
    (hr : registrationRoot h g = some r) (hr' : registrationRoot h g' = some r) : g = g' := by
  have ht := registrationRoot_some h hr
  have ht' := registrationRoot_some h hr'
  have he := root_inj h hc g.tree g'.tree
    (by simp [Registration.tree, Tree.shapeEq, Tree.shapeEqL])
    (by simp [Registration.tree, Tree.rawAgree, Tree.rawAgreeL, hp, hf])
    (by simp [Registration.tree, Tree.sized, Tree.sizedL, hg, toU64_lt])
    (by simp [Registration.tree, Tree.sized, Tree.sizedL, hg', toU64_lt]) r ht ht'
  cases g; cases g'
  simp [Registration.tree] at he
  obtain ⟨e1, e2, e3, e4⟩ := he
  have := toU64_inj ht1 ht2 ht1' ht2' e3
  simp_all

/-- a container root always exists for 32-byte credentials (non-vacuity of the hypotheses). -/
theorem depositMessageRoot_isSome (m : DepositMessage) (hw : m.wc.length = 32) :
    (depositMessageRoot h m).isSome = true := by
  unfold depositMessageRoot
  simp [hw, DepositMessage.tree, Tree.root, Tree.chunks, Tree.chunksL, okOf]

end Roots

/-! ### hex decoding, addresses, withdrawal credentials -/

theorem unhex_length : ∀ (s b : Bytes), unhex s = some b → s.length = 2 * b.length := by
  intro s
  fun_induction unhex s with
  | case1 => intro b hb; simp at hb; subst hb; rfl
  | case2 c => intro b hb; simp at hb
  | case3 a c r x y t ht hy hx ih =>
    intro b hb
    simp at hb; subst hb
    have := ih t ht
    simp [this]; omega
  | case4 a c r hn ih => 
    intro b hb; simp at hb

theorem unhex_isSome_iff : ∀ s : Bytes, (unhex s).isSome = true ↔ (s.length % 2 = 0 ∧ ∀ c ∈ s, (unhexDigit c).isSome = true) := by
  intro s
  fun_induction unhex s with
  | case1 => simp
  | case2 c => simp
  | case3 a c r x y t ht hy hx ih =>
    simp [ht] at ih
    simp only [Option.isSome_some, true_iff]
    refine ⟨by simp; omega, ?_⟩
    intro z hz
    simp at hz
    rcases hz with rfl | rfl | hz
    · simp [hx]
    · simp [hy]
    · exact ih.2 z hz
  | case4 a c r hn ih =>
    simp only [Option.isSome_none, Bool.false_eq_true, false_iff]
    intro ⟨hl, hall⟩
    have h1 := hall a (by simp)
    have h2 := hall c (by simp)
    have h3 : (unhex r).isSome = true := ih.mpr ⟨by simp at hl; omega, fun z hz => hall z (by simp [hz])⟩
    cases hx : unhexDigit a with
    | none => simp [hx] at h1
    | some x =>
      cases hy : unhexDigit c with
      | none => simp [hy] at h2
      | some y =>
        cases ht : unhex r with
        | none => simp [ht] at h3
        | some t => exact hn x y t hx hy ht

theorem checksumAddress_some {addr a : Bytes} (ha : checksumAddress addr = some a) :
    ∃ r, addr = 48 :: 120 :: r ∧ r.length = 40 ∧ unhex r = some a ∧ a.length = 20 := by
  unfold checksumAddress at ha
  split at ha
  · rename_i r
    split at ha
    · cases ha
    · rename_i hl
      have h40 : r.length = 40 := by simp at hl; omega
      have := unhex_length r a ha
      exact ⟨r, rfl, h40, ha, by omega⟩
  · cases ha

theorem checksumAddress_iff (addr a : Bytes) :
    checksumAddress addr = some a ↔ ∃ r, addr = 48 :: 120 :: r ∧ r.length = 40 ∧ unhex r = some a := by
  constructor
  · intro ha
    obtain ⟨r, h1, h2, h3, _⟩ := checksumAddress_some ha
    exact ⟨r, h1, h2, h3⟩
  · rintro ⟨r, rfl, h2, h3⟩
    simp [checksumAddress, h2, h3]

theorem copyAt_prefix (p : UInt8) : copyAt zero32 0 [p] = p :: List.replicate 31 0 := by
  simp [copyAt, zero32]

theorem copyAt_addr (p : UInt8) (a : Bytes) (ha : a.length = 20) :
    copyAt (p :: List.replicate 31 0) 12 a = p :: (List.replicate 11 0 ++ a) := by
  unfold copyAt
  have hl : (p :: List.replicate 31 (0 : UInt8)).length = 32 := by simp
  rw [hl, ha]
  have h1 : min (32 - 12) 20 = 20 := by omega
  simp only [h1]
  rw [← ha, List.take_length]
  have h2 : List.drop (12 + a.length) (p :: List.replicate 31 (0 : UInt8)) = [] := by
    rw [ha]; simp
  rw [h2]
  simp

theorem withdrawalCreds_ok_iff (addr : Bytes) (c : Bool) (w : Bytes) :
    withdrawalCredsFromAddr addr c = .ok w ↔
      ∃ a, checksumAddress addr = some a ∧ w = (if c then 2 else 1) :: (List.replicate 11 0 ++ a) := by
  unfold withdrawalCredsFromAddr
  cases hca : checksumAddress addr with
  | none => simp
  | some a =>
    obtain ⟨r, h1, h2, h3, h4⟩ := checksumAddress_some hca
    subst h1
    simp only [trimPrefix0x, h3]
    cases c
    · simp only [Bool.false_eq_true, if_false]
      rw [copyAt_prefix, copyAt_addr 1 a h4]
      constructor
      · intro hw; injection hw with hw; exact ⟨a, rfl, hw.symm⟩
      · rintro ⟨a', ha', hw⟩; injection ha' with ha'; subst ha'; rw [hw]
    · simp only [if_true]
      rw [copyAt_prefix, copyAt_addr 2 a h4]
      constructor
      · intro hw; injection hw with hw; exact ⟨a, rfl, hw.symm⟩
      · rintro ⟨a', ha', hw⟩; injection ha' with ha'; subst ha'; rw [hw]

theorem withdrawalCreds_error (addr : Bytes) (c : Bool) (e : DErr) :
    withdrawalCredsFromAddr addr c = .error e → e = .addr ∧ checksumAddress addr = none := by
  unfold withdrawalCredsFromAddr
  cases hca : checksumAddress addr with
  | none => intro he; injection he with he; exact ⟨he.symm, rfl⟩
  | some a =>
    obtain ⟨r, h1, h2, h3, h4⟩ := checksumAddress_some hca
    subst h1
    simp [trimPrefix0x, h3]

theorem executionAddress_ok_iff (addr a : Bytes) :
    executionAddressFromStr addr = .ok a ↔ checksumAddress addr = some a := by
  unfold executionAddressFromStr
  cases hca : checksumAddress addr with
  | none => simp
  | some b =>
    obtain ⟨r, h1, h2, h3, h4⟩ := checksumAddress_some hca
    subst h1
    simp [trimPrefix0x, h3, h4]

/-! ### amounts -/

theorem verifyLoop_ok_iff (M : Nat) : ∀ (l : List Nat) (s : Nat), s < u64Mod →
    (verifyLoop M s l = .ok ↔
      (∀ a ∈ l, minDepositAmount ≤ a ∧ a ≤ M) ∧ defaultDepositAmount ≤ (s + l.sum) % u64Mod) := by
  intro l
  induction l with
  | nil =>
    intro s hs
    simp only [verifyLoop, List.sum_nil, Nat.add_zero, Nat.mod_eq_of_lt hs]
    constructor
    · intro h; split at h
      · cases h
      · exact ⟨by simp, by omega⟩
    · intro ⟨_, h⟩; split
      · omega
      · rfl
  | cons a r ih =>
    intro s hs
    unfold verifyLoop
    by_cases h1 : a < minDepositAmount
    · simp [h1]; intro h; omega
    · by_cases h2 : a > M
      · simp [h1, h2]; intro _ h; omega
      · simp only [h1, h2, if_false]
        rw [ih ((s + a) % u64Mod) (Nat.mod_lt _ (by unfold u64Mod; omega))]
        have hm : ((s + a) % u64Mod + r.sum) % u64Mod = (s + (a :: r).sum) % u64Mod := by
          simp only [List.sum_cons]
          rw [Nat.add_mod, Nat.mod_mod, ← Nat.add_mod, Nat.add_assoc]
        rw [hm]
        constructor
        · intro ⟨hall, hsum⟩
          refine ⟨?_, hsum⟩
          intro x hx
          rcases List.mem_cons.mp hx with rfl | hx
          · exact ⟨by omega, by omega⟩
          · exact hall x hx
        · intro ⟨hall, hsum⟩
          exact ⟨fun x hx => hall x (List.mem_cons_of_mem _ hx), hsum⟩

theorem sum_le_length_mul (M : Nat) : ∀ l : List Nat, (∀ a ∈ l, a ≤ M) → l.sum ≤ l.length * M := by
  intro l
  induction l with
  | nil => simp
  | cons a r ih =>
    intro h
    simp only [List.sum_cons, List.length_cons, Nat.succ_mul]
    have := ih (fun x hx => h x (List.mem_cons_of_mem _ hx))
    have := h a (by simp)
    omega

theorem maxDepositAmount_le (c : Bool) : maxDepositAmount c ≤ 2048000000000 := by
  cases c <;> simp [maxDepositAmount, maxCompoundingDepositAmount, maxStandardDepositAmount]

/-- the loop over a run of the compounding maximum. -/
theorem verifyLoop_replicate_max (r : List Nat) : ∀ (n s : Nat), s < u64Mod →
    verifyLoop 2048000000000 s (List.replicate n 2048000000000 ++ r) =
      verifyLoop 2048000000000 ((s + n * 2048000000000) % u64Mod) r := by
  intro n
  induction n with
  | zero => intro s hs; simp [Nat.mod_eq_of_lt hs]
  | succ n ih =>
    intro s hs
    simp only [List.replicate_succ, List.cons_append]
    have hstep : verifyLoop 2048000000000 s (2048000000000 :: (List.replicate n 2048000000000 ++ r)) =
        verifyLoop 2048000000000 ((s + 2048000000000) % u64Mod) (List.replicate n 2048000000000 ++ r) := by
      simp [verifyLoop, minDepositAmount]
    rw [hstep, ih _ (Nat.mod_lt _ (by unfold u64Mod; omega))]
    have e : ((s + 2048000000000) % u64Mod + n * 2048000000000) % u64Mod = (s + (n + 1) * 2048000000000) % u64Mod := by
      simp only [u64Mod]
      omega
    rw [e]

theorem verifyLoopFixed_ok_iff (M : Nat) (hM : M ≤ 2048000000000) : ∀ (l : List Nat) (s : Nat), s < 2080000000001 →
    (verifyLoopFixed M s l = .ok ↔
      (∀ a ∈ l, minDepositAmount ≤ a ∧ a ≤ M) ∧ defaultDepositAmount ≤ s + l.sum) := by
  intro l
  induction l with
  | nil =>
    intro s _
    simp only [verifyLoopFixed, List.sum_nil, Nat.add_zero]
    constructor
    · intro h; split at h
      · cases h
      · exact ⟨by simp, by omega⟩
    · intro ⟨_, h⟩; split
      · omega
      · rfl
  | cons a r ih =>
    intro s hs
    unfold verifyLoopFixed
    by_cases h1 : a < minDepositAmount
    · simp [h1]; intro h; omega
    · by_cases h2 : a > M
      · simp [h1, h2]; intro _ h; omega
      · simp only [h1, h2, if_false]
        have hs' : (if s < defaultDepositAmount then (s + a) % u64Mod else s) < 2080000000001 := by
          split
          · rename_i hlt
            simp only [defaultDepositAmount, u64Mod] at hlt ⊢
            omega
          · exact hs
        rw [ih _ hs']
        have hsum : defaultDepositAmount ≤ (if s < defaultDepositAmount then (s + a) % u64Mod else s) + r.sum ↔
            defaultDepositAmount ≤ s + (a :: r).sum := by
          simp only [List.sum_cons]
          split
          · rename_i hlt
            simp only [defaultDepositAmount, u64Mod] at hlt ⊢
            have : (s + a) % 18446744073709551616 = s + a := Nat.mod_eq_of_lt (by omega)
            rw [this]; omega
          · simp only [defaultDepositAmount] at *; omega
        rw [hsum]
        constructor
        · intro ⟨hall, hx⟩
          refine ⟨?_, hx⟩
          intro x hx
          rcases List.mem_cons.mp hx with rfl | hx
          · exact ⟨by omega, by omega⟩
          · exact hall x hx
        · intro ⟨hall, hx⟩
          exact ⟨fun x hx => hall x (List.mem_cons_of_mem _ hx), hx⟩

/-- a run of `n` compounding maxima followed by one more amount. -/
theorem wrap_general (n : Nat) (b : Nat) (hb1 : 1000000000 ≤ b) (hb2 : b ≤ 2048000000000) :
    verifyDepositAmounts (List.replicate n 2048000000000 ++ [b]) true =
      verifyLoop 2048000000000 ((0 + n * 2048000000000) % u64Mod) [b] ∧
    (∀ a ∈ List.replicate n 2048000000000 ++ [b], 1000000000 ≤ a ∧ a ≤ maxDepositAmount true) ∧
    (List.replicate n 2048000000000 ++ [b]).sum = n * 2048000000000 + b ∧
    (List.replicate n 2048000000000 ++ [b]).length = n + 1 := by
  have hm : maxDepositAmount true = 2048000000000 := rfl
  refine ⟨?_, ?_, ?_, ?_⟩
  · unfold verifyDepositAmounts
    have hl : (List.replicate n 2048000000000 ++ [b]).length ≠ 0 := by
      rw [List.length_append]; simp
    simp only [hl, if_false]
    rw [hm, verifyLoop_replicate_max [b] n 0 (by unfold u64Mod; omega)]
  · intro a ha
    rw [hm]
    rcases List.mem_append.mp ha with h1 | h1
    · have := List.eq_of_mem_replicate h1; omega
    · have : a = b := by simpa using h1
      omega
  · rw [List.sum_append, List.sum_replicate_nat]; simp
  · rw [List.length_append, List.length_replicate]; rfl

/-! ### `DedupAmounts` -/

theorem dedupLoop_spec : ∀ (l used res : List Nat), (∀ x, x ∈ used ↔ x ∈ res) → res.Nodup →
    (dedupLoop used res l).Nodup ∧ ∀ x, x ∈ dedupLoop used res l ↔ (x ∈ res ∨ x ∈ l) := by
  intro l
  induction l with
  | nil => intro used res _ hn; simp [dedupLoop, hn]
  | cons a r ih =>
    intro used res hu hn
    unfold dedupLoop
    by_cases hc : used.contains a = true
    · simp only [hc, if_true]
      obtain ⟨h1, h2⟩ := ih used res hu hn
      refine ⟨h1, fun x => ?_⟩
      rw [h2 x]
      have ha : a ∈ res := (hu a).mp (by simpa using hc)
      constructor
      · rintro (h | h)
        · exact Or.inl h
        · exact Or.inr (List.mem_cons_of_mem _ h)
      · rintro (h | h)
        · exact Or.inl h
        · rcases List.mem_cons.mp h with rfl | h
          · exact Or.inl ha
          · exact Or.inr h
    · simp only [hc, Bool.false_eq_true, if_false]
      have ha : a ∉ res := fun h => hc (by simpa using (hu a).mpr h)
      obtain ⟨h1, h2⟩ := ih (a :: used) (res ++ [a])
        (by intro x; simp [hu x]; constructor <;> (rintro (h | h) <;> simp [h]))
        (by rw [List.nodup_append]; exact ⟨hn, by simp, by intro x hx y hy; simp at hy; subst hy; intro hxy; subst hxy; exact ha hx⟩)
      refine ⟨h1, fun x => ?_⟩
      rw [h2 x]
      simp only [List.mem_append, List.mem_cons, List.not_mem_nil, or_false]
      constructor
      · rintro ((h | h) | h)
        · exact Or.inl h
        · exact Or.inr (Or.inl h)
        · exact Or.inr (Or.inr h)
      · rintro (h | h | h)
        · exact Or.inl (Or.inl h)
        · exact Or.inl (Or.inr h)
        · exact Or.inr h

theorem mem_insertAsc (a x : Nat) : ∀ l : List Nat, x ∈ insertAsc a l ↔ x = a ∨ x ∈ l := by
  intro l
  induction l with
  | nil => simp [insertAsc]
  | cons b r ih =>
    unfold insertAsc
    by_cases h : a ≤ b
    · simp [h]
    · simp only [h, if_false, List.mem_cons, ih]
      constructor
      · rintro (h | h | h) <;> simp [h]
      · rintro (h | h | h) <;> simp [h]

theorem insertAsc_sorted (a : Nat) : ∀ l : List Nat, l.Pairwise (· < ·) → a ∉ l →
    (insertAsc a l).Pairwise (· < ·) := by
  intro l
  induction l with
  | nil => intro _ _; simp [insertAsc]
  | cons b r ih =>
    intro hs hn
    unfold insertAsc
    have hab : a ≠ b := fun h => hn (by simp [h])
    have hr : a ∉ r := fun h => hn (List.mem_cons_of_mem _ h)
    obtain ⟨hb, hs'⟩ := List.pairwise_cons.mp hs
    by_cases h : a ≤ b
    · simp only [h, if_true]
      refine List.pairwise_cons.mpr ⟨?_, hs⟩
      intro x hx
      rcases List.mem_cons.mp hx with rfl | hx
      · omega
      · have := hb x hx; omega
    · simp only [h, if_false]
      refine List.pairwise_cons.mpr ⟨?_, ih hs' hr⟩
      intro x hx
      rcases (mem_insertAsc a x r).mp hx with rfl | hx
      · omega
      · exact hb x hx

theorem mem_sortAsc (x : Nat) : ∀ l : List Nat, x ∈ sortAsc l ↔ x ∈ l := by
  intro l
  induction l with
  | nil => simp [sortAsc]
  | cons a r ih =>
    show x ∈ insertAsc a (sortAsc r) ↔ _
    rw [mem_insertAsc, ih]; simp

theorem sortAsc_sorted : ∀ l : List Nat, l.Nodup → (sortAsc l).Pairwise (· < ·) := by
  intro l
  induction l with
  | nil => intro _; simp [sortAsc]
  | cons a r ih =>
    intro hn
    obtain ⟨ha, hr⟩ := List.nodup_cons.mp hn
    show (insertAsc a (sortAsc r)).Pairwise (· < ·)
    exact insertAsc_sorted a _ (ih hr) (fun h => ha ((mem_sortAsc a r).mp h))

/-- strictly ascending lists with the same members are equal. -/
theorem sorted_ext : ∀ (l l' : List Nat), l.Pairwise (· < ·) → l'.Pairwise (· < ·) →
    (∀ x, x ∈ l ↔ x ∈ l') → l = l' := by
  intro l
  induction l with
  | nil =>
    intro l' _ _ h
    cases l' with
    | nil => rfl
    | cons b r => exact absurd ((h b).mpr (by simp)) (by simp)
  | cons a r ih =>
    intro l' hs hs' h
    cases l' with
    | nil => exact absurd ((h a).mp (by simp)) (by simp)
    | cons b r' =>
      obtain ⟨ha, hr⟩ := List.pairwise_cons.mp hs
      obtain ⟨hb, hr'⟩ := List.pairwise_cons.mp hs'
      have hab : a = b := by
        rcases List.mem_cons.mp ((h a).mp (by simp)) with e | e
        · exact e
        · rcases List.mem_cons.mp ((h b).mpr (by simp)) with e' | e'
          · exact e'.symm
          · have := hb a e; have := ha b e'; omega
      subst hab
      congr 1
      apply ih r' hr hr'
      intro x
      constructor
      · intro hx
        rcases List.mem_cons.mp ((h x).mp (List.mem_cons_of_mem _ hx)) with e | e
        · have := ha x hx; omega
        · exact e
      · intro hx
        rcases List.mem_cons.mp ((h x).mpr (List.mem_cons_of_mem _ hx)) with e | e
        · have := hb x hx; omega
        · exact e

theorem dedupAmounts_spec (l : List Nat) :
    (dedupAmounts l).Pairwise (· < ·) ∧ ∀ x, x ∈ dedupAmounts l ↔ x ∈ l := by
  obtain ⟨h1, h2⟩ := dedupLoop_spec l [] [] (by simp) (by simp)
  refine ⟨sortAsc_sorted _ h1, fun x => ?_⟩
  unfold dedupAmounts
  rw [mem_sortAsc, h2]; simp

/-! ### `MergeDepositDataSets` -/

/-- the deposit datas of one amount, in insertion order. -/
def amountClass (all : List DepositData) (v : Nat) : List DepositData := all.filter (fun d => d.amount == v)

theorem merge_general (ord : List Nat) (a b : List (List DepositData)) (ha : a.length ≠ 0) (hb : b.length ≠ 0)
    (hord : ∀ v ∈ ord, ∃ d ∈ a.flatten ++ b.flatten, d.amount = v) :
    mergeDepositDataSets ord a b = ord.map (amountClass (a.flatten ++ b.flatten)) := by
  unfold mergeDepositDataSets
  simp only [ha, hb, if_false]
  generalize a.flatten ++ b.flatten = all at hord
  induction ord with
  | nil => rfl
  | cons v r ih =>
    obtain ⟨d, hd, hv⟩ := hord v (by simp)
    have hne : (all.filter (fun d => d.amount == v)).length > 0 := by
      apply List.length_pos_of_mem (a := d)
      simp [List.mem_filter, hd, hv]
    simp only [List.filterMap_cons, hne, if_true, List.map_cons, amountClass]
    rw [ih (fun w hw => hord w (List.mem_cons_of_mem _ hw))]

theorem count_flatten_classes (all : List DepositData) (d : DepositData) : ∀ ord : List Nat, ord.Nodup →
    ((ord.map (amountClass all)).flatten).count d = if d.amount ∈ ord then all.count d else 0 := by
  intro ord
  induction ord with
  | nil => intro _; simp
  | cons v r ih =>
    intro hn
    obtain ⟨hv, hr⟩ := List.nodup_cons.mp hn
    simp only [List.map_cons, List.flatten_cons, List.count_append, ih hr, List.mem_cons]
    by_cases hdv : d.amount = v
    · have hnr : d.amount ∉ r := hdv ▸ hv
      simp only [hdv, true_or, if_true]
      rw [hdv] at hnr
      simp only [hnr, if_false, Nat.add_zero]
      unfold amountClass
      exact List.count_filter (by simp [hdv])
    · have : (amountClass all v).count d = 0 := by
        apply List.count_eq_zero_of_not_mem
        simp [amountClass, List.mem_filter, hdv]
      simp [this, hdv]

end CharonV.DepositReg
