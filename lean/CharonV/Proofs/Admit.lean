/-
Helper lemmas for C10 (`CharonV.Model.Admit`).
-/
import CharonV.Model.Admit

namespace CharonV.Admit

/-- "verifies for the object's own signing root, domain and epoch under the lock's key share for
that validator and share index, and is not the zero signature". -/
def Valid (verify : VerifyFn) (L : Lock) (v : Validator) (p : Par) : Prop :=
  ∃ k d e r, pubshare L v p.idx = some k ∧ domainOf p.obj.ty = some d ∧ p.obj.epoch = some e ∧
    p.obj.root = some r ∧ p.obj.sig ≠ 0 ∧ verify k d e r p.obj.sig = true

theorem firstFail_none {rs : List Res} : firstFail rs = none ↔ ∀ r ∈ rs, r = .ok := by
  simp [firstFail, List.find?_eq_none]

theorem firstFail_some_of_mem {rs : List Res} {r : Res} (h : r ∈ rs) (hr : r ≠ .ok) :
    ∃ r', firstFail rs = some r' := by
  cases hf : firstFail rs with
  | some r' => exact ⟨r', rfl⟩
  | none => exact absurd (firstFail_none.mp hf r h) hr

theorem firstFail_some_ne_ok {rs : List Res} {r : Res} (h : firstFail rs = some r) : r ≠ .ok := by
  have := List.find?_some h
  simpa using this

theorem mem_lastWins {es : List (Validator × Par)} {e : Validator × Par} :
    e ∈ lastWins es → e ∈ es := by
  induction es with
  | nil => simp [lastWins]
  | cons x xs ih =>
    simp only [lastWins]
    split
    · intro h; exact List.mem_cons_of_mem _ (ih h)
    · intro h
      rcases List.mem_cons.mp h with h | h
      · exact h ▸ List.mem_cons_self
      · exact List.mem_cons_of_mem _ (ih h)

/-- every validator that has an entry keeps one (the last). -/
theorem lastWins_covers {es : List (Validator × Par)} {v : Validator} :
    (∃ p, (v, p) ∈ es) → ∃ p, (v, p) ∈ lastWins es := by
  induction es with
  | nil => simp
  | cons x xs ih =>
    rintro ⟨p, hp⟩
    simp only [lastWins]
    by_cases hany : xs.any (·.1 = x.1)
    · simp only [hany, if_true]
      rcases List.mem_cons.mp hp with h | h
      · -- x itself: some later entry has the same validator
        obtain ⟨y, hy, hyv⟩ := List.any_eq_true.mp hany
        have hyv' : y.1 = x.1 := by simpa using hyv
        have : y.1 = v := by rw [hyv', ← h]
        exact ih ⟨y.2, by rw [← this]; exact hy⟩
      · exact ih ⟨p, h⟩
    · simp only [hany]
      rcases List.mem_cons.mp hp with h | h
      · exact ⟨p, by rw [h]; exact List.mem_cons_self⟩
      · obtain ⟨q, hq⟩ := ih ⟨p, h⟩
        exact ⟨q, List.mem_cons_of_mem _ hq⟩

theorem mem_dedup {l : List GKey} {g : GKey} : g ∈ dedup l ↔ g ∈ l := by
  induction l with
  | nil => simp [dedup]
  | cons x xs ih =>
    simp only [dedup, List.mem_cons, List.mem_filter, ih]
    constructor
    · rintro (h | ⟨h, _⟩)
      · exact Or.inl h
      · exact Or.inr h
    · rintro (h | h)
      · exact Or.inl h
      · by_cases hx : g = x
        · exact Or.inl hx
        · exact Or.inr ⟨h, by simpa using hx⟩

theorem verifyEth2_ok {verify : VerifyFn} {k : Key} {o : Obj} :
    verifyEth2 verify k o = .ok ↔
      ∃ d e r, domainOf o.ty = some d ∧ o.epoch = some e ∧ o.root = some r ∧ o.sig ≠ 0 ∧
        verify k d e r o.sig = true := by
  unfold verifyEth2
  cases hd : domainOf o.ty with
  | none => simp
  | some d =>
    cases he : o.epoch with
    | none => simp
    | some e =>
      cases hr : o.root with
      | none => simp
      | some r =>
        by_cases hz : o.sig = 0
        · simp [hz]
        · by_cases hv : verify k d e r o.sig = true
          · simp [hz, hv]
          · simp [hz, hv]

theorem verifyEth2_false_ne_ok (k : Key) (o : Obj) : verifyEth2 (fun _ _ _ _ _ => false) k o ≠ .ok := by
  intro h
  obtain ⟨_, _, _, _, _, _, _, hv⟩ := verifyEth2_ok.mp h
  cases hv

theorem verifyEth2_zero {verify : VerifyFn} {k : Key} {o : Obj} (hz : o.sig = 0) :
    verifyEth2 verify k o ≠ .ok := by
  intro h
  obtain ⟨_, _, _, _, _, _, hne, _⟩ := verifyEth2_ok.mp h
  exact hne hz

theorem verifyPartialSig_ok {verify : VerifyFn} {L : Lock} {idx : ShareIdx} {v : Validator} {o : Obj}
    (h : verifyPartialSig verify L idx v o = .ok) :
    Valid verify L v { obj := o, idx := idx } := by
  cases hL : L v with
  | none => simp [verifyPartialSig, hL] at h
  | some m =>
    cases hm : m idx with
    | none => simp only [verifyPartialSig, hL, hm] at h; exact absurd h (verifyEth2_false_ne_ok 0 o)
    | some k =>
      simp only [verifyPartialSig, hL, hm] at h
      obtain ⟨d, e, r, h1, h2, h3, h4, h5⟩ := verifyEth2_ok.mp h
      exact ⟨k, d, e, r, by simp [pubshare, hL, hm], h1, h2, h3, h4, h5⟩

theorem verifyPartialSig_of_valid {verify : VerifyFn} {L : Lock} {idx : ShareIdx} {v : Validator} {o : Obj}
    (h : Valid verify L v { obj := o, idx := idx }) : verifyPartialSig verify L idx v o = .ok := by
  obtain ⟨k, d, e, r, hk, h1, h2, h3, h4, h5⟩ := h
  cases hL : L v with
  | none => simp [pubshare, hL] at hk
  | some m =>
    cases hm : m idx with
    | none => simp [pubshare, hL, hm] at hk
    | some k' =>
      have : k' = k := by simpa [pubshare, hL, hm] using hk
      subst this
      simp only [verifyPartialSig, hL, hm]
      exact verifyEth2_ok.mpr ⟨d, e, r, h1, h2, h3, h4, h5⟩

theorem peerVerify_ok {verify : VerifyFn} {L : Lock} {e : Validator × Par}
    (h : peerVerify verify L e = .ok) : Valid verify L e.1 e.2 := by
  cases hL : L e.1 with
  | none => simp [peerVerify, hL] at h
  | some m =>
    cases hm : m e.2.idx with
    | none => simp [peerVerify, hL, hm] at h
    | some k =>
      simp only [peerVerify, hL, hm] at h
      obtain ⟨d, ep, r, h1, h2, h3, h4, h5⟩ := verifyEth2_ok.mp h
      exact ⟨k, d, ep, r, by simp [pubshare, hL, hm], h1, h2, h3, h4, h5⟩

theorem peerVerify_of_valid {verify : VerifyFn} {L : Lock} {e : Validator × Par}
    (h : Valid verify L e.1 e.2) : peerVerify verify L e = .ok := by
  obtain ⟨k, d, ep, r, hk, h1, h2, h3, h4, h5⟩ := h
  cases hL : L e.1 with
  | none => simp [pubshare, hL] at hk
  | some m =>
    cases hm : m e.2.idx with
    | none => simp [pubshare, hL, hm] at hk
    | some k' =>
      have : k' = k := by simpa [pubshare, hL, hm] using hk
      subst this
      simp only [peerVerify, hL, hm]
      exact verifyEth2_ok.mpr ⟨d, ep, r, h1, h2, h3, h4, h5⟩

/-- what a passed `checkItem` guarantees. -/
theorem checkItem_ok {verify : VerifyFn} {L : Lock} {idx : ShareIdx} {ep : Endpoint} {it : Item}
    (h : checkItem verify L idx ep it = .ok) :
    it.pre = true ∧ (ep.hasGate = true → it.gate = true) ∧
      ∃ v, it.val = some v ∧ Valid verify L v { obj := it.obj, idx := idx } := by
  unfold checkItem at h
  cases hp : it.pre with
  | false => simp [hp] at h
  | true =>
    simp only [hp, Bool.not_true, Bool.false_eq_true, if_false] at h
    cases hv : it.val with
    | none => simp [hv] at h
    | some v =>
      simp only [hv] at h
      by_cases hg : (ep.hasGate && !it.gate) = true
      · simp [hg] at h
      · simp only [hg] at h
        refine ⟨rfl, ?_, v, rfl, verifyPartialSig_ok h⟩
        intro hh
        cases hgt : it.gate with
        | true => rfl
        | false => simp [hh, hgt] at hg

theorem checkItem_of_valid {verify : VerifyFn} {L : Lock} {idx : ShareIdx} {ep : Endpoint} {it : Item}
    (hp : it.pre = true) (hg : ep.hasGate = true → it.gate = true) {v : Validator}
    (hv : it.val = some v) (hval : Valid verify L v { obj := it.obj, idx := idx }) :
    checkItem verify L idx ep it = .ok := by
  unfold checkItem
  simp only [hp, Bool.not_true, Bool.false_eq_true, if_false, hv]
  have : (ep.hasGate && !it.gate) = false := by
    cases hh : ep.hasGate with
    | false => simp
    | true => simp [hg hh]
  simp only [this, Bool.false_eq_true, if_false]
  exact verifyPartialSig_of_valid hval

/-- the calls of a VC request: empty unless every element passed; otherwise a prefix of `callsFor`. -/
theorem admitVC_calls {verify : VerifyFn} {L : Lock} {idx : ShareIdx} {nsub : Nat}
    {ord : List GKey → List GKey} {failAt : Option Nat} {ep : Endpoint} {items : List Item} {c : Call}
    (h : c ∈ (admitVC verify L idx nsub ord failAt ep items).2) :
    (∀ it ∈ items, checkItem verify L idx ep it = .ok) ∧
      c ∈ callsFor idx nsub ep items (ord (groupKeys ep items)) := by
  unfold admitVC at h
  cases hf : firstFail (items.map (checkItem verify L idx ep)) with
  | some r => rw [hf] at h; simp at h
  | none =>
    rw [hf] at h
    refine ⟨fun it hit => firstFail_none.mp hf _ (List.mem_map_of_mem hit), ?_⟩
    cases failAt with
    | none => exact h
    | some k =>
      simp only at h
      split at h
      · exact List.mem_of_mem_take h
      · exact h

theorem admitVC_reject {verify : VerifyFn} {L : Lock} {idx : ShareIdx} {nsub : Nat}
    {ord : List GKey → List GKey} {failAt : Option Nat} {ep : Endpoint} {items : List Item}
    {it : Item} (hit : it ∈ items) (hbad : checkItem verify L idx ep it ≠ .ok) :
    (admitVC verify L idx nsub ord failAt ep items).2 = [] ∧
      (admitVC verify L idx nsub ord failAt ep items).1 ≠ .ok ∧
      (admitVC verify L idx nsub ord failAt ep items).1 ≠ .subErr := by
  obtain ⟨r, hr⟩ := firstFail_some_of_mem (List.mem_map_of_mem (f := checkItem verify L idx ep) hit) hbad
  have hne := firstFail_some_ne_ok hr
  have hmem := List.mem_of_find?_eq_some hr
  obtain ⟨it', _, hit'⟩ := List.mem_map.mp hmem
  have hsub : r ≠ .subErr := by
    rw [← hit']
    unfold checkItem
    split
    · simp
    · split
      · simp
      · split
        · simp
        · unfold verifyPartialSig
          split
          · simp
          · split <;> (unfold verifyEth2; repeat' split) <;> simp
  unfold admitVC
  rw [hr]
  exact ⟨rfl, hne, hsub⟩

theorem mem_callsFor {idx : ShareIdx} {nsub : Nat} {ep : Endpoint} {items : List Item}
    {gs : List GKey} {c : Call} :
    c ∈ callsFor idx nsub ep items gs ↔
      ∃ g ∈ gs, ∃ s, s < nsub ∧
        c = { sub := s, dutyTy := ep.dutyTy, slot := g.1, set := setOf idx ep items g } := by
  simp only [callsFor, List.mem_flatMap, List.mem_map, List.mem_range]
  constructor
  · rintro ⟨g, hg, s, hs, rfl⟩; exact ⟨g, hg, s, hs, rfl⟩
  · rintro ⟨g, hg, s, hs, rfl⟩; exact ⟨g, hg, s, hs, rfl⟩

theorem mem_setOf {idx : ShareIdx} {ep : Endpoint} {items : List Item} {g : GKey}
    {e : Validator × Par} (h : e ∈ setOf idx ep items g) :
    ∃ it ∈ items, gkey ep it = g ∧ it.val = some e.1 ∧ e.2 = { obj := it.obj, idx := idx } := by
  have h1 := mem_lastWins h
  obtain ⟨it, hit, hent⟩ := List.mem_filterMap.mp h1
  obtain ⟨hmem, hg⟩ := List.mem_filter.mp hit
  refine ⟨it, hmem, by simpa using hg, ?_⟩
  unfold entryOf at hent
  cases hv : it.val with
  | none => simp [hv] at hent
  | some v =>
    simp only [hv, Option.map_some, Option.some.injEq] at hent
    subst hent
    exact ⟨rfl, rfl⟩

/-- the calls of a peer message. -/
theorem admitPeer_calls {verify : VerifyFn} {L : Lock} {g : Gater} {nsub : Nat}
    {ord : List (Validator × Par) → List (Validator × Par)} {m : PeerMsg} {c : Call}
    (h : c ∈ (admitPeer verify L g nsub ord m).2) :
    m.wellFormed = true ∧ g.allows m.dutyTy m.slot = true ∧ m.parseOk = true ∧
      (∀ e ∈ m.entries, peerVerify verify L e = .ok) ∧
      ∃ s, s < nsub ∧ c = { sub := s, dutyTy := m.dutyTy, slot := m.slot, set := m.entries } := by
  unfold admitPeer at h
  cases hw : m.wellFormed with
  | false => simp [hw] at h
  | true =>
    cases hg : g.allows m.dutyTy m.slot with
    | false => simp [hw, hg] at h
    | true =>
      cases hp : m.parseOk with
      | false => simp [hw, hg, hp] at h
      | true =>
        simp only [hw, hg, hp, Bool.not_true, Bool.false_eq_true, if_false] at h
        cases h1 : firstFail ((ord m.entries).map (peerVerify verify L)) with
        | some r => rw [h1] at h; simp at h
        | none =>
          rw [h1] at h
          cases h2 : firstFail (m.entries.map (peerVerify verify L)) with
          | some r => rw [h2] at h; simp at h
          | none =>
            rw [h2] at h
            refine ⟨rfl, rfl, rfl, fun e he => firstFail_none.mp h2 _ (List.mem_map_of_mem he), ?_⟩
            simp only [List.mem_map, List.mem_range] at h
            obtain ⟨s, hs, rfl⟩ := h
            exact ⟨s, hs, rfl⟩

theorem admitPeer_reject_entry {verify : VerifyFn} {L : Lock} {g : Gater} {nsub : Nat}
    {ord : List (Validator × Par) → List (Validator × Par)} {m : PeerMsg}
    {e : Validator × Par} (he : e ∈ m.entries) (hbad : peerVerify verify L e ≠ .ok) :
    (admitPeer verify L g nsub ord m).2 = [] ∧ (admitPeer verify L g nsub ord m).1 ≠ .ok := by
  have key : ∀ c, c ∉ (admitPeer verify L g nsub ord m).2 := by
    intro c hc
    exact hbad ((admitPeer_calls hc).2.2.2.1 e he)
  refine ⟨List.eq_nil_iff_forall_not_mem.mpr key, ?_⟩
  obtain ⟨r, hr⟩ := firstFail_some_of_mem (List.mem_map_of_mem (f := peerVerify verify L) he) hbad
  have hne := firstFail_some_ne_ok hr
  unfold admitPeer
  split
  · simp
  · split
    · simp
    · split
      · simp
      · cases h1 : firstFail ((ord m.entries).map (peerVerify verify L)) with
        | some r' => exact firstFail_some_ne_ok h1
        | none => simp only [hr]; exact hne

end CharonV.Admit
