/-
C04 (liveness core), part 2: node invariants of the QBFT implementation model and what they give
for the messages a node broadcasts.

* `LiveInv`   — unconditional invariant (every event, every message, every oracle): the prepared
                justification / the decided quorum / the cached PRE-PREPARE justification are what the
                verifying side (`isJustified*`) accepts.
* `GoodInv`   — the part that needs the environment hypotheses H-cmp (`compare` never fails) and
                H-buf (`MsgOk`: received PREPARE cores carry a non-null value and a round ≥ 1, sources
                are member indices): buffer contents, `compareFailureRound = 0`, null cached value.
* `LimInv`    — size bounds of the stored justifications (under H-buf and size-respecting DECIDEDs).
* `Minor`     — frame lemma: most handlers change only round/dedup/timer/resend/input bookkeeping.
-/
import CharonV.Proofs.QbftLiveFn

namespace CharonV.Qbft

/-! ### Environment hypotheses -/

/-- **H-buf** for one core: the source is a member index, and a PREPARE carries a non-null value
and a round ≥ 1 (an honest member only PREPAREs the value of a justified PRE-PREPARE, whose value
is non-null and whose round is ≥ 1). -/
def CoreOk (d : Def) (c : Core) : Prop :=
  c.src < d.nodes ∧ (c.typ = tPrepare → c.value ≠ 0 ∧ 1 ≤ c.round)

/-- H-buf for a message: its core and every attached core. -/
def MsgOk (d : Def) (m : Msg) : Prop := CoreOk d m.core ∧ ∀ c ∈ m.just, CoreOk d c

/-- H-buf as a state predicate: every core held in the buffer (message or attachment). -/
def BufOk (d : Def) (n : NodeState) : Prop := ∀ c, inBuf n.buffer c → CoreOk d c

/-- **H-cmp ∧ H-buf** on an event: a received message satisfies `MsgOk` and the `compare` callback
does not fail (`.ok` or `.timeout`). -/
def EvOk (d : Def) : Event → Prop
  | .recv m c => MsgOk d m ∧ c ≠ .fail
  | _ => True

/-- size hypothesis for part D: received messages satisfy H-buf and a received DECIDED respects
the attachment limit. -/
def EvLim (d : Def) : Event → Prop
  | .recv m _ => MsgOk d m ∧ (m.core.typ = tDecided → m.just.length ≤ 2 * d.nodes)
  | _ => True

/-! ### Invariants -/

/-- the prepared state is null, or backed by a source-unique quorum of matching PREPAREs. -/
def PrepOk (d : Def) (n : NodeState) : Prop :=
  (n.preparedRound = 0 ∧ n.preparedValue = 0 ∧ n.preparedJust = []) ∨
  ((n.preparedJust.map (·.src)).Nodup ∧ d.quorum ≤ n.preparedJust.length ∧
    ∀ c ∈ n.preparedJust, c.typ = tPrepare ∧ c.round = n.preparedRound ∧ c.value = n.preparedValue)

/-- not decided, or `qCommit` holds a quorum of COMMITs for the current round and decided value. -/
def CommitOk (d : Def) (n : NodeState) : Prop :=
  n.qCommit = [] ∨
    d.quorum ≤ (filterMsgs n.qCommit tCommit n.round (some n.qCommitValue) none none).length

/-- a cached PRE-PREPARE justification belongs to a round this node leads and is accepted by
`containsJustifiedQrc` (nothing to check in round 1). -/
def CacheOk (d : Def) (n : NodeState) : Prop :=
  ∀ j, n.ppjCache = some j →
    d.leader n.round = n.proc ∧ (n.round = 1 ∨ (containsJustifiedQrc d j n.round).2 = true)

/-- The invariant without the "not yet started" clause (what `stepCore` preserves). -/
structure LiveCore (d : Def) (n : NodeState) : Prop where
  prepOk : PrepOk d n
  commitOk : CommitOk d n
  commitTimer : n.qCommit ≠ [] → n.timerOn = false
  cacheOk : CacheOk d n

/-- **Node invariant** (unconditional). -/
structure LiveInv (d : Def) (n : NodeState) : Prop where
  core : LiveCore d n
  fresh : n.started = false → n.round = 1 ∧ n.qCommit = []

/-- The hypothesis-dependent part: under H-cmp and H-buf, `compareFailureRound` stays 0, the buffer
only holds `CoreOk` cores, and a cached justification is a null-prepared one. -/
structure GoodInv (d : Def) (n : NodeState) : Prop where
  cfr : n.compareFailureRound = 0
  bufOk : BufOk d n
  cacheNull : ∀ j, n.ppjCache = some j → n.round = 1 ∨ containsJustifiedQrc d j n.round = (0, true)

/-- Size bounds (part D). -/
structure LimInv (d : Def) (n : NodeState) : Prop where
  bufOk : BufOk d n
  prepLen : n.preparedJust.length ≤ d.nodes
  commitLen : n.qCommit.length ≤ 2 * d.nodes
  cacheLen : ∀ j, n.ppjCache = some j → j.length ≤ 2 * d.nodes

/-! ### Frame: bookkeeping-only transitions -/

/-- `n'` differs from `n` only in bookkeeping (dedup, timer, resend counters, input, liveness flags)
and possibly the round, in which case the cache was wiped; a decided node keeps round and timer. -/
structure Minor (n n' : NodeState) : Prop where
  proc : n'.proc = n.proc
  pr : n'.preparedRound = n.preparedRound
  pv : n'.preparedValue = n.preparedValue
  pj : n'.preparedJust = n.preparedJust
  qc : n'.qCommit = n.qCommit
  qcv : n'.qCommitValue = n.qCommitValue
  buf : n'.buffer = n.buffer
  cfr : n'.compareFailureRound = n.compareFailureRound
  started : n'.started = n.started
  cache : (n'.round = n.round ∧ n'.ppjCache = n.ppjCache) ∨ n'.ppjCache = none
  decided : n.qCommit ≠ [] → n'.round = n.round ∧ n'.timerOn = n.timerOn

theorem Minor.refl (n : NodeState) : Minor n n :=
  ⟨rfl, rfl, rfl, rfl, rfl, rfl, rfl, rfl, rfl, Or.inl ⟨rfl, rfl⟩, fun _ => ⟨rfl, rfl⟩⟩

theorem Minor.trans {a b c : NodeState} (h1 : Minor a b) (h2 : Minor b c) : Minor a c := by
  refine ⟨h2.proc.trans h1.proc, h2.pr.trans h1.pr, h2.pv.trans h1.pv, h2.pj.trans h1.pj,
    h2.qc.trans h1.qc, h2.qcv.trans h1.qcv, h2.buf.trans h1.buf, h2.cfr.trans h1.cfr,
    h2.started.trans h1.started, ?_, ?_⟩
  · rcases h2.cache with ⟨hr, hc⟩ | hn
    · rcases h1.cache with ⟨hr', hc'⟩ | hn'
      · exact Or.inl ⟨hr.trans hr', hc.trans hc'⟩
      · exact Or.inr (hc.trans hn')
    · exact Or.inr hn
  · intro hq
    have hb := h1.decided hq
    have hc := h2.decided (by rw [h1.qc]; exact hq)
    exact ⟨hc.1.trans hb.1, hc.2.trans hb.2⟩

theorem LiveCore.minor {d : Def} {n n' : NodeState} (h : LiveCore d n) (m : Minor n n') :
    LiveCore d n' := by
  refine ⟨?_, ?_, ?_, ?_⟩
  · have := h.prepOk
    unfold PrepOk at this ⊢
    rw [m.pr, m.pv, m.pj]; exact this
  · have := h.commitOk
    unfold CommitOk at this ⊢
    rw [m.qc, m.qcv]
    rcases this with h0 | hq
    · exact Or.inl h0
    · by_cases hne : n.qCommit = []
      · exact Or.inl hne
      · rw [(m.decided hne).1]; exact Or.inr hq
  · intro hq
    rw [m.qc] at hq
    rw [(m.decided hq).2]
    exact h.commitTimer hq
  · intro j hj
    rcases m.cache with ⟨hr, hc⟩ | hn
    · rw [hc] at hj
      rw [hr, m.proc]
      exact h.cacheOk j hj
    · rw [hn] at hj; cases hj

theorem GoodInv.minor {d : Def} {n n' : NodeState} (h : GoodInv d n) (m : Minor n n') :
    GoodInv d n' := by
  refine ⟨m.cfr.trans h.cfr, ?_, ?_⟩
  · intro c hc
    rw [m.buf] at hc
    exact h.bufOk c hc
  · intro j hj
    rcases m.cache with ⟨hr, hc⟩ | hn
    · rw [hc] at hj
      rw [hr]
      exact h.cacheNull j hj
    · rw [hn] at hj; cases hj

theorem LimInv.minor {d : Def} {n n' : NodeState} (h : LimInv d n) (m : Minor n n') :
    LimInv d n' := by
  refine ⟨?_, by rw [m.pj]; exact h.prepLen, by rw [m.qc]; exact h.commitLen, ?_⟩
  · intro c hc
    rw [m.buf] at hc
    exact h.bufOk c hc
  · intro j hj
    rcases m.cache with ⟨_, hc⟩ | hn
    · rw [hc] at hj; exact h.cacheLen j hj
    · rw [hn] at hj; cases hj

/-! ### Minor handlers -/

theorem minor_changeRound (s : NodeState) (r k : Nat) (h : s.qCommit = [] ∨ s.round = r) :
    Minor s (changeRound s r k).1 := by
  unfold changeRound
  split
  · exact Minor.refl s
  · rename_i hne
    refine ⟨rfl, rfl, rfl, rfl, rfl, rfl, rfl, rfl, rfl, Or.inr rfl, ?_⟩
    intro hq
    rcases h with h | h
    · exact absurd h hq
    · exact absurd h hne

theorem changeRound_round (s : NodeState) (r k : Nat) : (changeRound s r k).1.round = r := by
  unfold changeRound
  split
  · assumption
  · rfl

theorem minor_timer (s : NodeState) (b : Bool) (h : s.qCommit = []) :
    Minor s { s with timerOn := b } :=
  ⟨rfl, rfl, rfl, rfl, rfl, rfl, rfl, rfl, rfl, Or.inl ⟨rfl, rfl⟩, fun hq => absurd h hq⟩

theorem minor_onTimeout (s : NodeState) (h : s.qCommit ≠ [] → s.timerOn = false) :
    Minor s (onTimeout s).1 := by
  unfold onTimeout
  split
  · exact Minor.refl s
  · rename_i ht
    have hq : s.qCommit = [] := by
      by_cases hq : s.qCommit = []
      · exact hq
      · have := h hq; simp [this] at ht
    have m1 := minor_changeRound s (s.round + 1) uRoundTimeout (Or.inl hq)
    exact m1.trans (minor_timer _ true (by rw [m1.qc]; exact hq))

theorem minor_onInput (s : NodeState) (v : Nat) : Minor s (onInput s v).1 := by
  unfold onInput
  split
  · exact Minor.refl s
  · split
    · exact ⟨rfl, rfl, rfl, rfl, rfl, rfl, rfl, rfl, rfl, Or.inl ⟨rfl, rfl⟩, fun _ => ⟨rfl, rfl⟩⟩
    · exact ⟨rfl, rfl, rfl, rfl, rfl, rfl, rfl, rfl, rfl, Or.inl ⟨rfl, rfl⟩, fun _ => ⟨rfl, rfl⟩⟩

theorem minor_allowDecidedResend (s : NodeState) (src r : Nat) :
    Minor s (allowDecidedResend s src r).1 := by
  unfold allowDecidedResend
  simp only
  split
  · exact Minor.refl s
  · exact ⟨rfl, rfl, rfl, rfl, rfl, rfl, rfl, rfl, rfl, Or.inl ⟨rfl, rfl⟩, fun _ => ⟨rfl, rfl⟩⟩

theorem minor_onRecvDecided (s : NodeState) (m : Msg) : Minor s (onRecvDecided s m).1 := by
  unfold onRecvDecided
  split
  · simp only
    split
    · exact minor_allowDecidedResend _ _ _
    · exact minor_allowDecidedResend _ _ _
  · exact Minor.refl s

theorem minor_timeoutTail (s4 : NodeState) (hq : s4.qCommit = []) :
    Minor s4 { (changeRound s4 (s4.round + 1) uRoundTimeout).1 with timerOn := true } := by
  have m1 := minor_changeRound s4 (s4.round + 1) uRoundTimeout (Or.inl hq)
  exact m1.trans (minor_timer _ true ((m1.qc).trans hq))

theorem minor_onPrePrepare (s1 : NodeState) (m : Msg) (cmp : CmpOut) (hq : s1.qCommit = [])
    (hc : cmp ≠ .fail) : Minor s1 (onPrePrepare s1 m cmp).1 := by
  have m1 := minor_changeRound s1 m.core.round uJustifiedPrePrepare (Or.inl hq)
  have hq1 : (changeRound s1 m.core.round uJustifiedPrePrepare).1.qCommit = [] := by
    rw [m1.qc]; exact hq
  have m2 : Minor (changeRound s1 m.core.round uJustifiedPrePrepare).1
      { (changeRound s1 m.core.round uJustifiedPrePrepare).1 with
        dedup := if (changeRound s1 m.core.round uJustifiedPrePrepare).1.dedup.contains
                      (uJustifiedPrePrepare, m.core.round)
                 then (changeRound s1 m.core.round uJustifiedPrePrepare).1.dedup
                 else (uJustifiedPrePrepare, m.core.round) ::
                      (changeRound s1 m.core.round uJustifiedPrePrepare).1.dedup,
        timerOn := true } :=
    ⟨rfl, rfl, rfl, rfl, rfl, rfl, rfl, rfl, rfl, Or.inl ⟨rfl, rfl⟩, fun h => absurd hq1 h⟩
  have m12 := m1.trans m2
  unfold onPrePrepare
  cases cmp with
  | ok => exact m12
  | fail => exact absurd rfl hc
  | timeout =>
    have hq2 := (m12.qc).trans hq
    exact m12.trans (minor_timeoutTail _ hq2)

theorem minor_onFPlus1 (d : Def) (s1 : NodeState) (just : List Core) (hq : s1.qCommit = []) :
    Minor s1 (onFPlus1 d s1 just).1 := by
  unfold onFPlus1
  split
  · exact Minor.refl s1
  · rename_i nr _
    have m1 := minor_changeRound s1 nr uFPlus1RoundChanges (Or.inl hq)
    exact m1.trans (minor_timer _ true ((m1.qc).trans hq))

/-! ### onRule dispatch -/

theorem onRule_pp (d : Def) (s1 : NodeState) (m : Msg) (cmp : CmpOut) (just : List Core) :
    onRule d s1 m cmp uJustifiedPrePrepare just = onPrePrepare s1 m cmp := rfl
theorem onRule_qp (d : Def) (s1 : NodeState) (m : Msg) (cmp : CmpOut) (just : List Core) :
    onRule d s1 m cmp uQuorumPrepares just = onQuorumPrepares s1 m just := rfl
theorem onRule_qc (d : Def) (s1 : NodeState) (m : Msg) (cmp : CmpOut) (just : List Core) :
    onRule d s1 m cmp uQuorumCommits just = onDecide s1 m uQuorumCommits just := rfl
theorem onRule_jd (d : Def) (s1 : NodeState) (m : Msg) (cmp : CmpOut) (just : List Core) :
    onRule d s1 m cmp uJustifiedDecided just = onDecide s1 m uJustifiedDecided just := rfl
theorem onRule_f1 (d : Def) (s1 : NodeState) (m : Msg) (cmp : CmpOut) (just : List Core) :
    onRule d s1 m cmp uFPlus1RoundChanges just = onFPlus1 d s1 just := rfl
theorem onRule_qrc (d : Def) (s1 : NodeState) (m : Msg) (cmp : CmpOut) (just : List Core) :
    onRule d s1 m cmp uQuorumRoundChanges just = onQuorumRoundChanges d s1 just := rfl
theorem onRule_unjust (d : Def) (s1 : NodeState) (m : Msg) (cmp : CmpOut) (just : List Core) :
    onRule d s1 m cmp uUnjustQuorumRoundChanges just = (s1, []) := rfl


/-! ### Structural updates the invariants do not look at -/

theorem LiveCore.setCfr {d : Def} {s : NodeState} (h : LiveCore d s) (x : Nat) :
    LiveCore d { s with compareFailureRound := x } :=
  ⟨h.prepOk, h.commitOk, h.commitTimer, h.cacheOk⟩

theorem LiveCore.setBuffer {d : Def} {s : NodeState} (h : LiveCore d s) (b : List (Nat × List Msg)) :
    LiveCore d { s with buffer := b } :=
  ⟨h.prepOk, h.commitOk, h.commitTimer, h.cacheOk⟩

theorem minor_started (s : NodeState) (b : Bool) (h : s.started = b) : Minor s { s with started := b } :=
  ⟨rfl, rfl, rfl, rfl, rfl, rfl, rfl, rfl, h.symm, Or.inl ⟨rfl, rfl⟩, fun _ => ⟨rfl, rfl⟩⟩

theorem minor_dedup (s : NodeState) (dd : List (Nat × Nat)) : Minor s { s with dedup := dd } :=
  ⟨rfl, rfl, rfl, rfl, rfl, rfl, rfl, rfl, rfl, Or.inl ⟨rfl, rfl⟩, fun _ => ⟨rfl, rfl⟩⟩

theorem minor_dead (s : NodeState) (b : Bool) : Minor s { s with dead := b } :=
  ⟨rfl, rfl, rfl, rfl, rfl, rfl, rfl, rfl, rfl, Or.inl ⟨rfl, rfl⟩, fun _ => ⟨rfl, rfl⟩⟩

/-! ### bcastOwnPrePrepare -/

theorem bcastOwn_cases (s : NodeState) (just : List Core) :
    (bcastOwnPrePrepare s just).1 = s ∨
    ((bcastOwnPrePrepare s just).1 = { s with ppjCache := some just } ∧ s.inputValue = 0) := by
  unfold bcastOwnPrePrepare
  split
  · exact Or.inl rfl
  · split
    · rename_i h; exact Or.inr ⟨rfl, h⟩
    · exact Or.inl rfl

theorem LiveCore.setCache {d : Def} {s : NodeState} (h : LiveCore d s) (j : List Core)
    (hl : d.leader s.round = s.proc)
    (hc : s.round = 1 ∨ (containsJustifiedQrc d j s.round).2 = true) :
    LiveCore d { s with ppjCache := some j } := by
  refine ⟨h.prepOk, h.commitOk, h.commitTimer, ?_⟩
  intro j' hj'
  simp only [Option.some.injEq] at hj'
  subst hj'
  exact ⟨hl, hc⟩

theorem GoodInv.setCache {d : Def} {s : NodeState} (h : GoodInv d s) (j : List Core)
    (hc : s.round = 1 ∨ containsJustifiedQrc d j s.round = (0, true)) :
    GoodInv d { s with ppjCache := some j } := by
  refine ⟨h.cfr, h.bufOk, ?_⟩
  intro j' hj'
  simp only [Option.some.injEq] at hj'
  subst hj'
  exact hc

theorem LimInv.setCache {d : Def} {s : NodeState} (h : LimInv d s) (j : List Core)
    (hc : j.length ≤ 2 * d.nodes) : LimInv d { s with ppjCache := some j } := by
  refine ⟨h.bufOk, h.prepLen, h.commitLen, ?_⟩
  intro j' hj'
  simp only [Option.some.injEq] at hj'
  subst hj'
  exact hc

theorem liveCore_bcastOwn {d : Def} {s : NodeState} (h : LiveCore d s) (j : List Core)
    (hl : d.leader s.round = s.proc)
    (hc : s.round = 1 ∨ (containsJustifiedQrc d j s.round).2 = true) :
    LiveCore d (bcastOwnPrePrepare s j).1 := by
  rcases bcastOwn_cases s j with h1 | ⟨h1, _⟩
  · rw [h1]; exact h
  · rw [h1]; exact h.setCache j hl hc

theorem goodInv_bcastOwn {d : Def} {s : NodeState} (h : GoodInv d s) (j : List Core)
    (hc : s.round = 1 ∨ containsJustifiedQrc d j s.round = (0, true)) :
    GoodInv d (bcastOwnPrePrepare s j).1 := by
  rcases bcastOwn_cases s j with h1 | ⟨h1, _⟩
  · rw [h1]; exact h
  · rw [h1]; exact h.setCache j hc

theorem limInv_bcastOwn {d : Def} {s : NodeState} (h : LimInv d s) (j : List Core)
    (hc : j.length ≤ 2 * d.nodes) : LimInv d (bcastOwnPrePrepare s j).1 := by
  rcases bcastOwn_cases s j with h1 | ⟨h1, _⟩
  · rw [h1]; exact h
  · rw [h1]; exact h.setCache j hc

theorem bcastOwn_qCommit (s : NodeState) (j : List Core) :
    (bcastOwnPrePrepare s j).1.qCommit = s.qCommit := by
  rcases bcastOwn_cases s j with h1 | ⟨h1, _⟩ <;> rw [h1]

theorem bcastOwn_started (s : NodeState) (j : List Core) :
    (bcastOwnPrePrepare s j).1.started = s.started := by
  rcases bcastOwn_cases s j with h1 | ⟨h1, _⟩ <;> rw [h1]

/-! ### onStart -/

theorem onStart_started (d : Def) (s : NodeState) : (onStart d s).1.started = s.started := by
  unfold onStart
  simp only
  split
  · exact bcastOwn_started s []
  · rfl

theorem liveCore_onStart {d : Def} {s : NodeState} (h : LiveCore d s) (hr : s.round = 1)
    (hq : s.qCommit = []) : LiveCore d (onStart d s).1 := by
  unfold onStart
  simp only
  split
  · rename_i hl
    have h1 := liveCore_bcastOwn h [] hl (Or.inl hr)
    exact h1.minor (minor_timer _ true ((bcastOwn_qCommit s []).trans hq))
  · exact h.minor (minor_timer _ true hq)

theorem goodInv_onStart {d : Def} {s : NodeState} (h : GoodInv d s) (hr : s.round = 1)
    (hq : s.qCommit = []) : GoodInv d (onStart d s).1 := by
  unfold onStart
  simp only
  split
  · have h1 := goodInv_bcastOwn h [] (Or.inl hr)
    exact h1.minor (minor_timer _ true ((bcastOwn_qCommit s []).trans hq))
  · exact h.minor (minor_timer _ true hq)

theorem limInv_onStart {d : Def} {s : NodeState} (h : LimInv d s)
    (hq : s.qCommit = []) : LimInv d (onStart d s).1 := by
  unfold onStart
  simp only
  split
  · have h1 := limInv_bcastOwn h [] (by simp)
    exact h1.minor (minor_timer _ true ((bcastOwn_qCommit s []).trans hq))
  · exact h.minor (minor_timer _ true hq)

/-! ### The state-changing rule handlers -/

theorem liveCore_onQuorumPrepares {d : Def} {s1 : NodeState} {m : Msg} (h : LiveCore d s1)
    (all : List Core)
    (hlen : d.quorum ≤ (filterByRoundAndValue all tPrepare s1.round m.core.value).length) :
    LiveCore d (onQuorumPrepares s1 m (filterByRoundAndValue all tPrepare s1.round m.core.value)).1 := by
  refine ⟨Or.inr ⟨filterMsgs_nodup _ _ _ _ _ _, hlen, ?_⟩, h.commitOk, h.commitTimer, h.cacheOk⟩
  intro c hc
  have := filterMsgs_sound hc
  exact ⟨this.2.1, this.2.2.1, this.2.2.2.1 _ rfl⟩

theorem liveCore_onDecide {d : Def} {s1 : NodeState} {m : Msg} {rule : Nat} {just : List Core}
    (h : LiveCore d s1) (hq : s1.qCommit = [])
    (hlen : d.quorum ≤ (filterMsgs just tCommit m.core.round (some m.core.value) none none).length) :
    LiveCore d (onDecide s1 m rule just).1 := by
  have hc2 := h.minor (minor_changeRound s1 m.core.round rule (Or.inl hq))
  refine ⟨hc2.prepOk, Or.inr ?_, fun _ => rfl, hc2.cacheOk⟩
  show d.quorum ≤ (filterMsgs just tCommit (changeRound s1 m.core.round rule).1.round
    (some m.core.value) none none).length
  rw [changeRound_round]
  exact hlen

theorem liveCore_onQRC {d : Def} (hq1 : 1 ≤ d.quorum) {s1 : NodeState} {k : Nat} {all just : List Core}
    (h : LiveCore d s1) (hl : d.leader s1.round = s1.proc)
    (hg : getJustifiedQrc d k all s1.round = some just) :
    LiveCore d (onQuorumRoundChanges d s1 just).1 := by
  unfold onQuorumRoundChanges
  simp only
  split
  · exact h
  · apply liveCore_bcastOwn h just hl
    right
    rcases getJustifiedQrc_contains d hq1 hg with ⟨h1, _⟩ | ⟨pr, pv, _, h1 | h1, _⟩ <;> rw [h1]

theorem isJustified_decided {d : Def} {m : Msg} {cfr : Nat} (ht : m.core.typ = tDecided)
    (h : isJustified d m cfr = some true) :
    d.quorum ≤ (filterMsgs m.just tCommit m.core.round (some m.core.value) none none).length := by
  unfold isJustified at h
  rw [ht] at h
  simp only [tDecided, tPrePrepare, tPrepare, tCommit, tRoundChange] at h
  simp only [Nat.reduceEqDiff, if_false, or_self, if_true, Option.some.injEq] at h
  unfold isJustifiedDecided at h
  simpa using h

theorem liveCore_onRule {d : Def} (hn : 1 ≤ d.nodes) {o : Oracle} {s1 : NodeState} {m : Msg}
    {cmp : CmpOut} {rule : Nat} {just : List Core} {cfr : Nat}
    (h : LiveCore d s1) (hq : s1.qCommit = []) (hjust : isJustified d m cfr = some true)
    (hcl : classify d o s1.round s1.proc s1.buffer m = some (rule, just)) (hr : rule ≠ uNothing) :
    LiveCore d (onRule d s1 m cmp rule just).1 := by
  rcases classify_cases hcl hr with ⟨rfl, ht, rfl⟩ | ⟨rfl, _, _⟩ | ⟨rfl, _, hrd, rfl, hlen⟩ |
    ⟨rfl, _, hrd, rfl, hlen⟩ | ⟨rfl, _, _⟩ | ⟨rfl, _⟩ | ⟨rfl, _, hrd, hl, hg⟩
  · rw [onRule_jd]
    exact liveCore_onDecide h hq (isJustified_decided ht hjust)
  · rw [onRule_pp]
    cases cmp with
    | ok => exact h.minor (minor_onPrePrepare s1 m .ok hq (by decide))
    | timeout => exact h.minor (minor_onPrePrepare s1 m .timeout hq (by decide))
    | fail =>
      have := h.minor (minor_onPrePrepare s1 m .ok hq (by decide))
      exact this.setCfr m.core.round
  · rw [onRule_qp]
    rw [hrd] at hlen ⊢
    exact liveCore_onQuorumPrepares h _ hlen
  · rw [onRule_qc]
    apply liveCore_onDecide h hq
    unfold filterByRoundAndValue at hlen ⊢
    rw [filterMsgs_idem]
    exact hlen
  · rw [onRule_f1]
    exact h.minor (minor_onFPlus1 d s1 just hq)
  · rw [onRule_unjust]; exact h
  · rw [onRule_qrc]
    rw [hrd] at hg
    exact liveCore_onQRC (quorum_pos d hn) h hl hg

/-! ### `started` and `proc` never change inside `stepCore` -/

theorem changeRound_started (s : NodeState) (r k : Nat) : (changeRound s r k).1.started = s.started := by
  unfold changeRound; split <;> rfl

theorem changeRound_proc (s : NodeState) (r k : Nat) : (changeRound s r k).1.proc = s.proc := by
  unfold changeRound; split <;> rfl

theorem onPrePrepare_started (s1 : NodeState) (m : Msg) (cmp : CmpOut) :
    (onPrePrepare s1 m cmp).1.started = s1.started := by
  unfold onPrePrepare
  cases cmp <;> simp [changeRound_started]

theorem onRule_started (d : Def) (s1 : NodeState) (m : Msg) (cmp : CmpOut) (rule : Nat)
    (just : List Core) : (onRule d s1 m cmp rule just).1.started = s1.started := by
  unfold onRule
  split
  · exact onPrePrepare_started s1 m cmp
  · split
    · rfl
    · split
      · exact changeRound_started _ _ _
      · split
        · unfold onFPlus1
          split
          · rfl
          · exact changeRound_started _ _ _
        · split
          · unfold onQuorumRoundChanges
            simp only
            split
            · rfl
            · exact bcastOwn_started _ _
          · split <;> rfl

theorem onRecvJustified_started (d : Def) (o : Oracle) (s : NodeState) (m : Msg) (cmp : CmpOut) :
    (onRecvJustified d o s m cmp).1.started = s.started := by
  unfold onRecvJustified
  simp only
  split
  · rfl
  · split
    · rfl
    · split
      · rfl
      · exact onRule_started _ _ _ _ _ _

theorem stepCore_started (d : Def) (o : Oracle) (s : NodeState) (e : Event) :
    (stepCore d o s e).1.started = s.started := by
  cases e with
  | start => exact onStart_started d s
  | input v => exact (minor_onInput s v).started
  | timeout =>
    unfold stepCore onTimeout
    simp only
    split
    · rfl
    · exact changeRound_started _ _ _
  | recv m cmp =>
    unfold stepCore
    simp only
    split
    · exact (minor_onRecvDecided s m).started
    · split
      · rfl
      · rfl
      · exact onRecvJustified_started _ _ _ _ _

/-! ### GoodInv / LimInv through the rule handlers -/

theorem bufOk_flatten {d : Def} {s : NodeState} (h : BufOk d s) (ord : List Nat) :
    ∀ c ∈ flatten ord s.buffer, CoreOk d c :=
  fun c hc => h c (mem_flatten hc)

theorem goodInv_onQRC {d : Def} (hq1 : 1 ≤ d.quorum) {s1 : NodeState} {k : Nat} {all just : List Core}
    (h : GoodInv d s1) (hall : ∀ c ∈ all, CoreOk d c)
    (hg : getJustifiedQrc d k all s1.round = some just) :
    GoodInv d (onQuorumRoundChanges d s1 just).1 := by
  unfold onQuorumRoundChanges
  simp only
  split
  · exact h
  · rename_i hcond
    apply goodInv_bcastOwn h just
    right
    rcases getJustifiedQrc_contains d hq1 hg with ⟨h1, _⟩ | ⟨pr, pv, hs, _, p, hp, hpt, hpr, _⟩
    · exact h1
    · exfalso
      apply hcond
      rw [hs]
      have := ((hall p hp).2 hpt).2
      refine ⟨rfl, ?_⟩
      rw [h.cfr]
      simp only
      omega

theorem goodInv_onRule {d : Def} (hn : 1 ≤ d.nodes) {o : Oracle} {s1 : NodeState} {m : Msg}
    {cmp : CmpOut} {rule : Nat} {just : List Core}
    (h : GoodInv d s1) (hq : s1.qCommit = []) (hcmp : cmp ≠ .fail)
    (hcl : classify d o s1.round s1.proc s1.buffer m = some (rule, just)) (hr : rule ≠ uNothing) :
    GoodInv d (onRule d s1 m cmp rule just).1 := by
  rcases classify_cases hcl hr with ⟨rfl, ht, rfl⟩ | ⟨rfl, _, _⟩ | ⟨rfl, _, hrd, rfl, hlen⟩ |
    ⟨rfl, _, hrd, rfl, hlen⟩ | ⟨rfl, _, _⟩ | ⟨rfl, _⟩ | ⟨rfl, _, hrd, hl, hg⟩
  · rw [onRule_jd]
    have hc2 := h.minor (minor_changeRound s1 m.core.round uJustifiedDecided (Or.inl hq))
    exact ⟨hc2.cfr, hc2.bufOk, hc2.cacheNull⟩
  · rw [onRule_pp]
    exact h.minor (minor_onPrePrepare s1 m cmp hq hcmp)
  · rw [onRule_qp]
    exact ⟨h.cfr, h.bufOk, h.cacheNull⟩
  · rw [onRule_qc]
    have hc2 := h.minor (minor_changeRound s1 m.core.round uQuorumCommits (Or.inl hq))
    exact ⟨hc2.cfr, hc2.bufOk, hc2.cacheNull⟩
  · rw [onRule_f1]
    exact h.minor (minor_onFPlus1 d s1 just hq)
  · rw [onRule_unjust]; exact h
  · rw [onRule_qrc]
    rw [hrd] at hg
    exact goodInv_onQRC (quorum_pos d hn) h (bufOk_flatten h.bufOk _) hg

theorem LimInv.setCfr {d : Def} {s : NodeState} (h : LimInv d s) (x : Nat) :
    LimInv d { s with compareFailureRound := x } :=
  ⟨h.bufOk, h.prepLen, h.commitLen, h.cacheLen⟩

theorem limInv_onDecide {d : Def} {s1 : NodeState} {m : Msg} {rule : Nat} {just : List Core}
    (h : LimInv d s1) (hq : s1.qCommit = []) (hlen : just.length ≤ 2 * d.nodes) :
    LimInv d (onDecide s1 m rule just).1 := by
  have hc2 := h.minor (minor_changeRound s1 m.core.round rule (Or.inl hq))
  exact ⟨hc2.bufOk, hc2.prepLen, hlen, hc2.cacheLen⟩

theorem limInv_onRule {d : Def} {o : Oracle} {s1 : NodeState} {m : Msg}
    {cmp : CmpOut} {rule : Nat} {just : List Core}
    (h : LimInv d s1) (hq : s1.qCommit = [])
    (hdec : m.core.typ = tDecided → m.just.length ≤ 2 * d.nodes)
    (hcl : classify d o s1.round s1.proc s1.buffer m = some (rule, just)) (hr : rule ≠ uNothing) :
    LimInv d (onRule d s1 m cmp rule just).1 := by
  have hsrc : ∀ c ∈ flatten o.srcOrd s1.buffer, c.src < d.nodes :=
    fun c hc => (bufOk_flatten h.bufOk _ c hc).1
  rcases classify_cases hcl hr with ⟨rfl, ht, rfl⟩ | ⟨rfl, _, _⟩ | ⟨rfl, _, hrd, rfl, hlen⟩ |
    ⟨rfl, _, hrd, rfl, hlen⟩ | ⟨rfl, _, _⟩ | ⟨rfl, _⟩ | ⟨rfl, _, hrd, hl, hg⟩
  · rw [onRule_jd]
    exact limInv_onDecide h hq (hdec ht)
  · rw [onRule_pp]
    cases cmp with
    | ok => exact h.minor (minor_onPrePrepare s1 m .ok hq (by decide))
    | timeout => exact h.minor (minor_onPrePrepare s1 m .timeout hq (by decide))
    | fail =>
      have := h.minor (minor_onPrePrepare s1 m .ok hq (by decide))
      exact this.setCfr m.core.round
  · rw [onRule_qp]
    exact ⟨h.bufOk, filterMsgs_length_le d hsrc, h.commitLen, h.cacheLen⟩
  · rw [onRule_qc]
    apply limInv_onDecide h hq
    have := filterMsgs_length_le d (typ := tCommit) (round := m.core.round)
      (value := some m.core.value) (pr := none) (pv := none) hsrc
    unfold filterByRoundAndValue
    omega
  · rw [onRule_f1]
    exact h.minor (minor_onFPlus1 d s1 just hq)
  · rw [onRule_unjust]; exact h
  · rw [onRule_qrc]
    unfold onQuorumRoundChanges
    simp only
    split
    · exact h
    · exact limInv_bcastOwn h just (getJustifiedQrc_length d hsrc hg)

/-! ### Buffering a message -/

theorem bufOk_bufferMsg {d : Def} {s : NodeState} {m : Msg} (h : BufOk d s) (hm : MsgOk d m) :
    BufOk d { s with buffer := bufferMsg d.fifo s.buffer m } := by
  intro c hc
  rcases inBuf_bufferMsg hc with h1 | rfl | h1
  · exact h c h1
  · exact hm.1
  · exact hm.2 c h1

/-! ### onRecvJustified -/

theorem liveCore_onRecvJustified {d : Def} (hn : 1 ≤ d.nodes) {o : Oracle} {s : NodeState} {m : Msg}
    {cmp : CmpOut} {cfr : Nat} (h : LiveCore d s) (hq : s.qCommit = [])
    (hjust : isJustified d m cfr = some true) : LiveCore d (onRecvJustified d o s m cmp).1 := by
  have h0 := h.setBuffer (bufferMsg d.fifo s.buffer m)
  unfold onRecvJustified
  simp only
  split
  · exact h0
  · rename_i rule just hcl
    split
    · exact h0
    · rename_i hr
      split
      · exact h0
      · exact liveCore_onRule hn (h0.minor (minor_dedup _ _)) hq hjust hcl hr

theorem goodInv_onRecvJustified {d : Def} (hn : 1 ≤ d.nodes) {o : Oracle} {s : NodeState} {m : Msg}
    {cmp : CmpOut} (h : GoodInv d s) (hq : s.qCommit = []) (hm : MsgOk d m) (hcmp : cmp ≠ .fail) :
    GoodInv d (onRecvJustified d o s m cmp).1 := by
  have h0 : GoodInv d { s with buffer := bufferMsg d.fifo s.buffer m } :=
    ⟨h.cfr, bufOk_bufferMsg h.bufOk hm, h.cacheNull⟩
  unfold onRecvJustified
  simp only
  split
  · exact h0
  · rename_i rule just hcl
    split
    · exact h0
    · rename_i hr
      split
      · exact h0
      · exact goodInv_onRule hn (h0.minor (minor_dedup _ _)) hq hcmp hcl hr

theorem limInv_onRecvJustified {d : Def} {o : Oracle} {s : NodeState} {m : Msg}
    {cmp : CmpOut} (h : LimInv d s) (hq : s.qCommit = []) (hm : MsgOk d m)
    (hdec : m.core.typ = tDecided → m.just.length ≤ 2 * d.nodes) :
    LimInv d (onRecvJustified d o s m cmp).1 := by
  have h0 : LimInv d { s with buffer := bufferMsg d.fifo s.buffer m } :=
    ⟨bufOk_bufferMsg h.bufOk hm, h.prepLen, h.commitLen, h.cacheLen⟩
  unfold onRecvJustified
  simp only
  split
  · exact h0
  · rename_i rule just hcl
    split
    · exact h0
    · rename_i hr
      split
      · exact h0
      · exact limInv_onRule (h0.minor (minor_dedup _ _)) hq hdec hcl hr

/-! ### stepCore -/

theorem qCommit_of_isEmpty {s : NodeState} (h : ¬ (!s.qCommit.isEmpty) = true) : s.qCommit = [] := by
  cases hq : s.qCommit with
  | nil => rfl
  | cons a as => rw [hq] at h; simp at h

theorem liveCore_stepCore {d : Def} (hn : 1 ≤ d.nodes) (o : Oracle) {s : NodeState} (e : Event)
    (h : LiveCore d s) (hstart : e.isStart = true → s.round = 1 ∧ s.qCommit = []) :
    LiveCore d (stepCore d o s e).1 := by
  cases e with
  | start => exact liveCore_onStart h (hstart rfl).1 (hstart rfl).2
  | input v => exact h.minor (minor_onInput s v)
  | timeout => exact h.minor (minor_onTimeout s h.commitTimer)
  | recv m cmp =>
    unfold stepCore
    simp only
    split
    · exact h.minor (minor_onRecvDecided s m)
    · rename_i hq
      split
      · exact h
      · exact h
      · rename_i hj
        exact liveCore_onRecvJustified hn h (qCommit_of_isEmpty hq) hj

theorem goodInv_stepCore {d : Def} (hn : 1 ≤ d.nodes) (o : Oracle) {s : NodeState} (e : Event)
    (h : GoodInv d s) (hc : s.qCommit ≠ [] → s.timerOn = false)
    (hstart : e.isStart = true → s.round = 1 ∧ s.qCommit = []) (he : EvOk d e) :
    GoodInv d (stepCore d o s e).1 := by
  cases e with
  | start => exact goodInv_onStart h (hstart rfl).1 (hstart rfl).2
  | input v => exact h.minor (minor_onInput s v)
  | timeout => exact h.minor (minor_onTimeout s hc)
  | recv m cmp =>
    unfold stepCore
    simp only
    split
    · exact h.minor (minor_onRecvDecided s m)
    · rename_i hq
      split
      · exact h
      · exact h
      · exact goodInv_onRecvJustified hn h (qCommit_of_isEmpty hq) he.1 he.2

theorem limInv_stepCore {d : Def} (o : Oracle) {s : NodeState} (e : Event)
    (h : LimInv d s) (hc : s.qCommit ≠ [] → s.timerOn = false)
    (hstart : e.isStart = true → s.qCommit = []) (he : EvLim d e) :
    LimInv d (stepCore d o s e).1 := by
  cases e with
  | start => exact limInv_onStart h (hstart rfl)
  | input v => exact h.minor (minor_onInput s v)
  | timeout => exact h.minor (minor_onTimeout s hc)
  | recv m cmp =>
    unfold stepCore
    simp only
    split
    · exact h.minor (minor_onRecvDecided s m)
    · rename_i hq
      split
      · exact h
      · exact h
      · exact limInv_onRecvJustified h (qCommit_of_isEmpty hq) he.1 he.2

/-! ### step: wrapper around stepCore -/

theorem step_eq (d : Def) (o : Oracle) (s : NodeState) (e : Event) :
    step d o s e = (s, []) ∨
    ((s.started == e.isStart) = false ∧
      (step d o s e).2 = (stepCore d o { s with started := true } e).2 ∧
      ((step d o s e).1 = (stepCore d o { s with started := true } e).1 ∨
       (step d o s e).1 = { (stepCore d o { s with started := true } e).1 with dead := true })) := by
  unfold step
  split
  · exact Or.inl rfl
  · split
    · exact Or.inl rfl
    · rename_i hs
      right
      refine ⟨by simpa using hs, ?_⟩
      cases hsc : stepCore d o { s with started := true } e with
      | mk s' outs =>
        simp only
        split
        · exact ⟨rfl, Or.inr rfl⟩
        · exact ⟨rfl, Or.inl rfl⟩

theorem fresh_of_start {s : NodeState} {e : Event} (hs : (s.started == e.isStart) = false)
    (he : e.isStart = true) : s.started = false := by
  rw [he] at hs
  cases h : s.started with
  | false => rfl
  | true => rw [h] at hs; simp at hs

/-- **`LiveInv` is preserved by every step** (any event, any message, any oracle). -/
theorem liveInv_step {d : Def} (hn : 1 ≤ d.nodes) (o : Oracle) {n : NodeState} (e : Event)
    (h : LiveInv d n) : LiveInv d (step d o n e).1 := by
  rcases step_eq d o n e with h0 | ⟨hs, _, h1⟩
  · rw [h0]; exact h
  · have hc0 : LiveCore d { n with started := true } :=
      ⟨h.core.prepOk, h.core.commitOk, h.core.commitTimer, h.core.cacheOk⟩
    have hc1 := liveCore_stepCore hn o e hc0 (fun he => h.fresh (fresh_of_start hs he))
    have hst : (stepCore d o { n with started := true } e).1.started = true :=
      stepCore_started d o _ e
    rcases h1 with h1 | h1 <;> rw [h1]
    · exact ⟨hc1, fun hf => by rw [hst] at hf; cases hf⟩
    · refine ⟨hc1.minor (minor_dead _ true), fun hf => ?_⟩
      have : (stepCore d o { n with started := true } e).1.started = false := hf
      rw [hst] at this; cases this

theorem liveInv_init (d : Def) (p : Nat) : LiveInv d { proc := p } :=
  ⟨⟨Or.inl ⟨rfl, rfl, rfl⟩, Or.inl rfl, fun h => absurd rfl h, fun j hj => by cases hj⟩,
   fun _ => ⟨rfl, rfl⟩⟩

theorem goodInv_init (d : Def) (p : Nat) : GoodInv d { proc := p } := by
  refine ⟨rfl, ?_, fun j hj => by cases hj⟩
  intro c hc
  obtain ⟨e, he, _⟩ := hc
  cases he

theorem limInv_init (d : Def) (p : Nat) : LimInv d { proc := p } := by
  refine ⟨?_, by simp, by simp, fun j hj => by cases hj⟩
  intro c hc
  obtain ⟨e, he, _⟩ := hc
  cases he

/-- `GoodInv` is preserved by a step whose event satisfies H-cmp ∧ H-buf. -/
theorem goodInv_step {d : Def} (hn : 1 ≤ d.nodes) (o : Oracle) {n : NodeState} (e : Event)
    (hl : LiveInv d n) (h : GoodInv d n) (he : EvOk d e) : GoodInv d (step d o n e).1 := by
  rcases step_eq d o n e with h0 | ⟨hs, _, h1⟩
  · rw [h0]; exact h
  · have hc0 : GoodInv d { n with started := true } := ⟨h.cfr, h.bufOk, h.cacheNull⟩
    have hc1 := goodInv_stepCore hn o e hc0 hl.core.commitTimer
      (fun hes => hl.fresh (fresh_of_start hs hes)) he
    rcases h1 with h1 | h1 <;> rw [h1]
    · exact hc1
    · exact hc1.minor (minor_dead _ true)

/-- `LimInv` is preserved by a step whose event satisfies H-buf and the DECIDED size limit. -/
theorem limInv_step {d : Def} (o : Oracle) {n : NodeState} (e : Event)
    (hl : LiveInv d n) (h : LimInv d n) (he : EvLim d e) : LimInv d (step d o n e).1 := by
  rcases step_eq d o n e with h0 | ⟨hs, _, h1⟩
  · rw [h0]; exact h
  · have hc0 : LimInv d { n with started := true } := ⟨h.bufOk, h.prepLen, h.commitLen, h.cacheLen⟩
    have hc1 := limInv_stepCore o e hc0 hl.core.commitTimer
      (fun hes => (hl.fresh (fresh_of_start hs hes)).2) he
    rcases h1 with h1 | h1 <;> rw [h1]
    · exact hc1
    · exact hc1.minor (minor_dead _ true)

/-! ### Reachability -/

/-- states reachable from the initial state of member `p` by steps whose events satisfy `P`
(the oracle — Go's map iteration order — may differ from step to step). -/
inductive NodeReach (d : Def) (p : Nat) (P : Event → Prop) : NodeState → Prop
  | init : NodeReach d p P { proc := p }
  | step {n : NodeState} (o : Oracle) (e : Event) : NodeReach d p P n → P e → NodeReach d p P (step d o n e).1

theorem NodeReach.mono {d : Def} {p : Nat} {P Q : Event → Prop} (hPQ : ∀ e, P e → Q e) {n : NodeState}
    (h : NodeReach d p P n) : NodeReach d p Q n := by
  induction h with
  | init => exact NodeReach.init
  | step o e _ he ih => exact NodeReach.step o e ih (hPQ e he)

theorem NodeReach.run {d : Def} {p : Nat} {P : Event → Prop} (o : Oracle) :
    ∀ (evs : List Event) {n : NodeState}, NodeReach d p P n → (∀ e ∈ evs, P e) →
      NodeReach d p P (run d o n evs).1 := by
  intro evs
  induction evs with
  | nil => intro n h _; exact h
  | cons e es ih =>
    intro n h hP
    have h1 := NodeReach.step o e h (hP e List.mem_cons_self)
    have h2 := ih h1 (fun x hx => hP x (List.mem_cons_of_mem _ hx))
    unfold CharonV.Qbft.run
    cases hs : CharonV.Qbft.step d o n e with
    | mk s1 o1 =>
      rw [hs] at h2
      simp only at h2 ⊢
      cases hr : CharonV.Qbft.run d o s1 es with
      | mk s2 o2 =>
        rw [hr] at h2
        exact h2

theorem liveInv_reach {d : Def} (hn : 1 ≤ d.nodes) {p : Nat} {P : Event → Prop} {n : NodeState}
    (h : NodeReach d p P n) : LiveInv d n := by
  induction h with
  | init => exact liveInv_init d p
  | step o e _ _ ih => exact liveInv_step hn o e ih

theorem goodInv_reach {d : Def} (hn : 1 ≤ d.nodes) {p : Nat} {n : NodeState}
    (h : NodeReach d p (EvOk d) n) : GoodInv d n := by
  induction h with
  | init => exact goodInv_init d p
  | step o e hr he ih => exact goodInv_step hn o e (liveInv_reach hn hr) ih he

theorem limInv_reach {d : Def} (hn : 1 ≤ d.nodes) {p : Nat} {n : NodeState}
    (h : NodeReach d p (EvLim d) n) : LimInv d n := by
  induction h with
  | init => exact limInv_init d p
  | step o e hr he ih => exact limInv_step o e (liveInv_reach hn hr) ih he

/-- lifted to `run` (one oracle for the whole run). -/
theorem liveInv_run {d : Def} (hn : 1 ≤ d.nodes) (o : Oracle) (p : Nat) (evs : List Event) :
    LiveInv d (run d o { proc := p } evs).1 :=
  liveInv_reach hn (NodeReach.run o evs (P := fun _ => True) NodeReach.init (fun _ _ => trivial))

/-! ### What a step broadcasts -/

theorem bcast_notin_changeRound (s : NodeState) (r' k t r v pr pv : Nat) (j : List Core) :
    Out.bcast t r v pr pv j ∉ (changeRound s r' k).2 := by
  unfold changeRound
  split <;> simp

theorem changeRound_pr (s : NodeState) (r k : Nat) :
    (changeRound s r k).1.preparedRound = s.preparedRound := by
  unfold changeRound; split <;> rfl
theorem changeRound_pv (s : NodeState) (r k : Nat) :
    (changeRound s r k).1.preparedValue = s.preparedValue := by
  unfold changeRound; split <;> rfl
theorem changeRound_pj (s : NodeState) (r k : Nat) :
    (changeRound s r k).1.preparedJust = s.preparedJust := by
  unfold changeRound; split <;> rfl

theorem bcastOwn_bcast {s : NodeState} {just : List Core} {t r v pr pv : Nat} {j : List Core}
    (h : Out.bcast t r v pr pv j ∈ (bcastOwnPrePrepare s just).2) :
    t = tPrePrepare ∧ r = s.round ∧ v = s.inputValue ∧ pr = 0 ∧ pv = 0 ∧ j = just ∧
      s.inputValue ≠ 0 := by
  unfold bcastOwnPrePrepare at h
  split at h
  · simp at h
  · split at h
    · simp at h
    · rename_i hv
      simp [bcastMsg] at h
      obtain ⟨h1, h2, h3, h4, h5, h6⟩ := h
      exact ⟨h1, h2, h3, h4, h5, h6, hv⟩

theorem onTimeout_bcast {s : NodeState} {t r v pr pv : Nat} {j : List Core}
    (h : Out.bcast t r v pr pv j ∈ (onTimeout s).2) :
    t = tRoundChange ∧ v = 0 ∧ pr = s.preparedRound ∧ pv = s.preparedValue ∧ j = s.preparedJust := by
  unfold onTimeout at h
  split at h
  · simp at h
  · simp [bcastRoundChange, bcast_notin_changeRound, changeRound_pr, changeRound_pv,
      changeRound_pj] at h
    obtain ⟨h1, _, h3, h4, h5, h6⟩ := h
    exact ⟨h1, h3, h4, h5, h6⟩


theorem onInput_bcast {s : NodeState} {x : Nat} {t r v pr pv : Nat} {j : List Core}
    (h : Out.bcast t r v pr pv j ∈ (onInput s x).2) :
    t = tPrePrepare ∧ r = s.round ∧ v = x ∧ pr = 0 ∧ pv = 0 ∧ s.ppjCache = some j ∧ x ≠ 0 := by
  unfold onInput at h
  split at h
  · simp at h
  · split at h
    · simp at h
    · rename_i hx
      simp only at h
      split at h
      · rename_i j' hj'
        simp [bcastMsg] at h
        obtain ⟨h1, h2, h3, h4, h5, h6⟩ := h
        exact ⟨h1, h2, h3, h4, h5, by rw [hj', h6], hx⟩
      · simp at h

theorem onStart_bcast {d : Def} {s : NodeState} {t r v pr pv : Nat} {j : List Core}
    (h : Out.bcast t r v pr pv j ∈ (onStart d s).2) :
    t = tPrePrepare ∧ r = s.round ∧ v = s.inputValue ∧ pr = 0 ∧ pv = 0 ∧ j = [] ∧
      s.inputValue ≠ 0 ∧ d.leader s.round = s.proc := by
  unfold onStart at h
  simp only [List.mem_append, List.mem_singleton, reduceCtorEq, or_false] at h
  split at h
  · rename_i hl
    have := bcastOwn_bcast h
    exact ⟨this.1, this.2.1, this.2.2.1, this.2.2.2.1, this.2.2.2.2.1, this.2.2.2.2.2.1,
      this.2.2.2.2.2.2, hl⟩
  · simp at h

theorem allowDecidedResend_fields (s : NodeState) (src r : Nat) :
    (allowDecidedResend s src r).1.round = s.round ∧
    (allowDecidedResend s src r).1.qCommit = s.qCommit ∧
    (allowDecidedResend s src r).1.qCommitValue = s.qCommitValue := by
  unfold allowDecidedResend
  simp only
  split <;> exact ⟨rfl, rfl, rfl⟩

theorem onRecvDecided_bcast {s : NodeState} {m : Msg} {t r v pr pv : Nat} {j : List Core}
    (h : Out.bcast t r v pr pv j ∈ (onRecvDecided s m).2) :
    t = tDecided ∧ r = s.round ∧ v = s.qCommitValue ∧ pr = 0 ∧ pv = 0 ∧ j = s.qCommit := by
  unfold onRecvDecided at h
  split at h
  · simp only at h
    have hf := allowDecidedResend_fields s m.core.src m.core.round
    split at h
    · simp [bcastMsg] at h
      obtain ⟨h1, h2, h3, h4, h5, h6⟩ := h
      exact ⟨h1, h2.trans hf.1, h3.trans hf.2.2, h4, h5, h6.trans hf.2.1⟩
    · simp at h
  · simp at h

theorem onPrePrepare_bcast {s1 : NodeState} {m : Msg} {cmp : CmpOut} {t r v pr pv : Nat}
    {j : List Core} (h : Out.bcast t r v pr pv j ∈ (onPrePrepare s1 m cmp).2) :
    (t = tPrepare ∧ pr = 0 ∧ pv = 0 ∧ j = []) ∨
    (t = tRoundChange ∧ v = 0 ∧ pr = s1.preparedRound ∧ pv = s1.preparedValue ∧
      j = s1.preparedJust) := by
  unfold onPrePrepare at h
  cases cmp with
  | ok =>
    simp [bcastMsg, bcast_notin_changeRound] at h
    exact Or.inl ⟨h.1, h.2.2.2.1, h.2.2.2.2.1, h.2.2.2.2.2⟩
  | fail =>
    simp [bcast_notin_changeRound] at h
  | timeout =>
    simp [bcastRoundChange, bcast_notin_changeRound, changeRound_pr, changeRound_pv,
      changeRound_pj] at h
    obtain ⟨h1, _, h3, h4, h5, h6⟩ := h
    exact Or.inr ⟨h1, h3, h4, h5, h6⟩

theorem onQuorumPrepares_bcast {s1 : NodeState} {m : Msg} {just : List Core} {t r v pr pv : Nat}
    {j : List Core} (h : Out.bcast t r v pr pv j ∈ (onQuorumPrepares s1 m just).2) :
    t = tCommit ∧ pr = 0 ∧ pv = 0 ∧ j = [] := by
  simp [onQuorumPrepares, bcastMsg] at h
  exact ⟨h.1, h.2.2.2.1, h.2.2.2.2.1, h.2.2.2.2.2⟩

theorem onDecide_bcast {s1 : NodeState} {m : Msg} {rule : Nat} {just : List Core} {t r v pr pv : Nat}
    {j : List Core} : Out.bcast t r v pr pv j ∉ (onDecide s1 m rule just).2 := by
  simp [onDecide, bcast_notin_changeRound]

theorem onFPlus1_bcast {d : Def} {s1 : NodeState} {just : List Core} {t r v pr pv : Nat}
    {j : List Core} (h : Out.bcast t r v pr pv j ∈ (onFPlus1 d s1 just).2) :
    t = tRoundChange ∧ v = 0 ∧ pr = s1.preparedRound ∧ pv = s1.preparedValue ∧
      j = s1.preparedJust := by
  unfold onFPlus1 at h
  split at h
  · simp at h
  · simp [bcastRoundChange, bcast_notin_changeRound, changeRound_pr, changeRound_pv,
      changeRound_pj] at h
    obtain ⟨h1, _, h3, h4, h5, h6⟩ := h
    exact ⟨h1, h3, h4, h5, h6⟩

theorem onQRC_bcast {d : Def} {s1 : NodeState} {just : List Core} {t r v pr pv : Nat}
    {j : List Core} (h : Out.bcast t r v pr pv j ∈ (onQuorumRoundChanges d s1 just).2) :
    t = tPrePrepare ∧ r = s1.round ∧ pr = 0 ∧ pv = 0 ∧ j = just ∧
    (((getSingleJustifiedPrPv d just).2.2 = true ∧
        s1.compareFailureRound ≠ (getSingleJustifiedPrPv d just).1 ∧
        v = (getSingleJustifiedPrPv d just).2.1) ∨
     (¬ ((getSingleJustifiedPrPv d just).2.2 = true ∧
        s1.compareFailureRound ≠ (getSingleJustifiedPrPv d just).1) ∧
        v = s1.inputValue ∧ s1.inputValue ≠ 0)) := by
  unfold onQuorumRoundChanges at h
  simp only at h
  split at h
  · rename_i hc
    simp [bcastMsg] at h
    obtain ⟨h1, h2, h3, h4, h5, h6⟩ := h
    exact ⟨h1, h2, h4, h5, h6, Or.inl ⟨hc.1, hc.2, h3⟩⟩
  · rename_i hc
    have := bcastOwn_bcast h
    exact ⟨this.1, this.2.1, this.2.2.2.1, this.2.2.2.2.1, this.2.2.2.2.2.1,
      Or.inr ⟨hc, this.2.2.1, this.2.2.2.2.2.2⟩⟩

/-- The broadcasts a node can make in one `stepCore` from state `s` on event `e`. -/
inductive BcastKind (d : Def) (o : Oracle) (s : NodeState) (e : Event) :
    Nat → Nat → Nat → Nat → Nat → List Core → Prop
  | plain (typ round value : Nat) : typ = tPrepare ∨ typ = tCommit →
      BcastKind d o s e typ round value 0 0 []
  | roundChange (round : Nat) :
      BcastKind d o s e tRoundChange round 0 s.preparedRound s.preparedValue s.preparedJust
  | decided : s.qCommit ≠ [] → BcastKind d o s e tDecided s.round s.qCommitValue 0 0 s.qCommit
  | ppStart : e.isStart = true → d.leader s.round = s.proc → s.inputValue ≠ 0 →
      BcastKind d o s e tPrePrepare s.round s.inputValue 0 0 []
  | ppInput (v : Nat) (j : List Core) : v ≠ 0 → s.ppjCache = some j →
      BcastKind d o s e tPrePrepare s.round v 0 0 j
  | ppQrcPrepared (m : Msg) (cmp : CmpOut) (j : List Core) : e = .recv m cmp →
      d.leader s.round = s.proc →
      getJustifiedQrc d o.pqPerm (flatten o.srcOrd (bufferMsg d.fifo s.buffer m)) s.round = some j →
      (getSingleJustifiedPrPv d j).2.2 = true →
      s.compareFailureRound ≠ (getSingleJustifiedPrPv d j).1 →
      BcastKind d o s e tPrePrepare s.round (getSingleJustifiedPrPv d j).2.1 0 0 j
  | ppQrcOwn (m : Msg) (cmp : CmpOut) (j : List Core) : e = .recv m cmp →
      d.leader s.round = s.proc →
      getJustifiedQrc d o.pqPerm (flatten o.srcOrd (bufferMsg d.fifo s.buffer m)) s.round = some j →
      ¬ ((getSingleJustifiedPrPv d j).2.2 = true ∧
          s.compareFailureRound ≠ (getSingleJustifiedPrPv d j).1) →
      s.inputValue ≠ 0 →
      BcastKind d o s e tPrePrepare s.round s.inputValue 0 0 j

theorem onRecvJustified_bcast {d : Def} {o : Oracle} {s : NodeState} {m : Msg} {cmp : CmpOut}
    {t r v pr pv : Nat} {j : List Core}
    (h : Out.bcast t r v pr pv j ∈ (onRecvJustified d o s m cmp).2) :
    BcastKind d o s (.recv m cmp) t r v pr pv j := by
  unfold onRecvJustified at h
  simp only at h
  split at h
  · simp at h
  · rename_i rule just hcl
    split at h
    · simp at h
    · rename_i hr
      split at h
      · simp at h
      · simp only [List.mem_cons, reduceCtorEq, false_or] at h
        rcases classify_cases hcl hr with ⟨rfl, ht, rfl⟩ | ⟨rfl, _, _⟩ | ⟨rfl, _, hrd, rfl, hlen⟩ |
          ⟨rfl, _, hrd, rfl, hlen⟩ | ⟨rfl, _, _⟩ | ⟨rfl, _⟩ | ⟨rfl, _, hrd, hl, hg⟩
        · rw [onRule_jd] at h; exact absurd h onDecide_bcast
        · rw [onRule_pp] at h
          rcases onPrePrepare_bcast h with ⟨rfl, rfl, rfl, rfl⟩ | ⟨rfl, rfl, rfl, rfl, rfl⟩
          · exact BcastKind.plain _ _ _ (Or.inl rfl)
          · exact BcastKind.roundChange _
        · rw [onRule_qp] at h
          obtain ⟨rfl, rfl, rfl, rfl⟩ := onQuorumPrepares_bcast h
          exact BcastKind.plain _ _ _ (Or.inr rfl)
        · rw [onRule_qc] at h; exact absurd h onDecide_bcast
        · rw [onRule_f1] at h
          obtain ⟨rfl, rfl, rfl, rfl, rfl⟩ := onFPlus1_bcast h
          exact BcastKind.roundChange _
        · rw [onRule_unjust] at h; simp at h
        · rw [onRule_qrc] at h
          rw [hrd] at hg
          obtain ⟨rfl, rfl, rfl, rfl, rfl, ⟨h1, h2, rfl⟩ | ⟨h1, rfl, h3⟩⟩ := onQRC_bcast h
          · exact BcastKind.ppQrcPrepared m cmp _ rfl hl hg h1 h2
          · exact BcastKind.ppQrcOwn m cmp _ rfl hl hg h1 h3

theorem stepCore_bcast {d : Def} {o : Oracle} {s : NodeState} {e : Event}
    {t r v pr pv : Nat} {j : List Core}
    (h : Out.bcast t r v pr pv j ∈ (stepCore d o s e).2) : BcastKind d o s e t r v pr pv j := by
  cases e with
  | start =>
    obtain ⟨rfl, rfl, rfl, rfl, rfl, rfl, h1, h2⟩ := onStart_bcast h
    exact BcastKind.ppStart rfl h2 h1
  | input x =>
    obtain ⟨rfl, rfl, rfl, rfl, rfl, h1, h2⟩ := onInput_bcast h
    exact BcastKind.ppInput _ _ h2 h1
  | timeout =>
    obtain ⟨rfl, rfl, rfl, rfl, rfl⟩ := onTimeout_bcast h
    exact BcastKind.roundChange _
  | recv m cmp =>
    unfold stepCore at h
    simp only at h
    split at h
    · rename_i hq
      obtain ⟨rfl, rfl, rfl, rfl, rfl, rfl⟩ := onRecvDecided_bcast h
      apply BcastKind.decided
      intro h0; rw [h0] at hq; simp at hq
    · split at h
      · simp at h
      · simp at h
      · exact onRecvJustified_bcast h

/-! ### Part A: every broadcast passes the receiver's `isJustified` -/

/-- the message a node `p` puts on the wire for a broadcast output. -/
def wireMsg (p typ round value pr pv : Nat) (just : List Core) : Msg :=
  { core := ⟨typ, p, round, value, pr, pv⟩, just := just }

/-- PREPARE / COMMIT: always justified. -/
theorem justified_plain (d : Def) (p typ round value : Nat) (h : typ = tPrepare ∨ typ = tCommit)
    (cfr' : Nat) : isJustified d (wireMsg p typ round value 0 0 []) cfr' = some true := by
  unfold isJustified wireMsg
  rcases h with rfl | rfl <;> simp [tPrepare, tCommit, tPrePrepare]

/-- ROUND-CHANGE: justified by `PrepOk` (no environment hypothesis). -/
theorem justified_roundChange {d : Def} (hn : 1 ≤ d.nodes) {s : NodeState} (h : PrepOk d s)
    (round value cfr' : Nat) :
    isJustified d (wireMsg s.proc tRoundChange round value s.preparedRound s.preparedValue
      s.preparedJust) cfr' = some true := by
  have : isJustifiedRoundChange d (wireMsg s.proc tRoundChange round value s.preparedRound
      s.preparedValue s.preparedJust) = true := by
    apply isJustifiedRoundChange_of d (quorum_pos d hn)
    rcases h with h | h
    · exact Or.inl h
    · exact Or.inr h
  unfold isJustified
  simp [wireMsg, tRoundChange, tPrepare, tCommit, tPrePrepare] at this ⊢
  exact this

/-- DECIDED: justified by `CommitOk` (no environment hypothesis). -/
theorem justified_decided {d : Def} {s : NodeState} (h : CommitOk d s) (hq : s.qCommit ≠ [])
    (cfr' : Nat) :
    isJustified d (wireMsg s.proc tDecided s.round s.qCommitValue 0 0 s.qCommit) cfr' = some true := by
  have hlen : d.quorum ≤ (filterMsgs s.qCommit tCommit s.round (some s.qCommitValue) none none).length := by
    rcases h with h | h
    · exact absurd h hq
    · exact h
  unfold isJustified
  simp [wireMsg, tDecided, tRoundChange, tPrepare, tCommit, tPrePrepare, isJustifiedDecided]
  simpa [tCommit] using hlen

/-- PRE-PREPARE verification, reduced to its four conditions. -/
theorem isJustifiedPrePrepare_of (d : Def) (m : Msg) (cfr' : Nat)
    (hl : d.leader m.core.round = m.core.src) (hv : m.core.value ≠ 0)
    (h : m.core.round = 1 ∨ containsJustifiedQrc d m.just m.core.round = (0, true) ∨
      containsJustifiedQrc d m.just m.core.round = (m.core.value, true)) :
    isJustifiedPrePrepare d m cfr' = true := by
  unfold isJustifiedPrePrepare
  rw [if_neg (by simp [hl]), if_neg hv]
  split
  · rfl
  · rcases h with h | h | h
    · rename_i hc; exact absurd (Or.inl h) hc
    · simp [h]
    · simp [h]

theorem justified_prePrepare (d : Def) (p round value : Nat) (just : List Core) (cfr' : Nat)
    (hl : d.leader round = p) (hv : value ≠ 0)
    (h : round = 1 ∨ containsJustifiedQrc d just round = (0, true) ∨
      containsJustifiedQrc d just round = (value, true)) :
    isJustified d (wireMsg p tPrePrepare round value 0 0 just) cfr' = some true := by
  unfold isJustified
  simp only [wireMsg, if_true]
  rw [isJustifiedPrePrepare_of d _ cfr' hl hv h]

/-- every broadcast of a `stepCore` from a state satisfying the invariants is justified for every
receiver (whatever the receiver's `compareFailureRound`). -/
theorem bcastKind_justified {d : Def} (hn : 1 ≤ d.nodes) {o : Oracle} {s : NodeState} {e : Event}
    (hl : LiveCore d s) (hg : GoodInv d s) (he : EvOk d e)
    (hfresh : e.isStart = true → s.round = 1)
    {t r v pr pv : Nat} {j : List Core} (hk : BcastKind d o s e t r v pr pv j) (cfr' : Nat) :
    isJustified d (wireMsg s.proc t r v pr pv j) cfr' = some true := by
  cases hk with
  | plain typ round value h => exact justified_plain d _ _ _ _ h cfr'
  | roundChange round => exact justified_roundChange hn hl.prepOk _ _ cfr'
  | decided hq => exact justified_decided hl.commitOk hq cfr'
  | ppStart hs hld hv =>
    exact justified_prePrepare d _ _ _ _ cfr' hld hv (Or.inl (hfresh hs))
  | ppInput v j hv hc =>
    have h1 := hl.cacheOk j hc
    have h2 := hg.cacheNull j hc
    apply justified_prePrepare d _ _ _ _ cfr' h1.1 hv
    rcases h2 with h2 | h2
    · exact Or.inl h2
    · exact Or.inr (Or.inl h2)
  | ppQrcPrepared m cmp j hev hld hq h1 h2 =>
    subst hev
    have hbuf := bufOk_bufferMsg (d := d) (s := s) (m := m) hg.bufOk he.1
    have hall : ∀ c ∈ flatten o.srcOrd (bufferMsg d.fifo s.buffer m), CoreOk d c :=
      bufOk_flatten hbuf o.srcOrd
    rcases getJustifiedQrc_contains d (quorum_pos d hn) hq with ⟨_, hs⟩ | ⟨pr', pv', hs, hc, p, hp, hpt, _, hpv⟩
    · rw [hs] at h1; simp at h1
    · rw [hs]
      have hv : pv' ≠ 0 := by
        have := ((hall p hp).2 hpt).1
        rw [hpv] at this; exact this
      apply justified_prePrepare d _ _ _ _ cfr' hld hv
      rcases hc with hc | hc
      · exact Or.inr (Or.inr hc)
      · exact Or.inr (Or.inl hc)
  | ppQrcOwn m cmp j hev hld hq h1 hv =>
    subst hev
    have hbuf := bufOk_bufferMsg (d := d) (s := s) (m := m) hg.bufOk he.1
    have hall : ∀ c ∈ flatten o.srcOrd (bufferMsg d.fifo s.buffer m), CoreOk d c :=
      bufOk_flatten hbuf o.srcOrd
    rcases getJustifiedQrc_contains d (quorum_pos d hn) hq with ⟨hc, _⟩ | ⟨pr', pv', hs, _, p, hp, hpt, hpr, _⟩
    · exact justified_prePrepare d _ _ _ _ cfr' hld hv (Or.inr (Or.inl hc))
    · exfalso
      apply h1
      rw [hs]
      have := ((hall p hp).2 hpt).2
      refine ⟨rfl, ?_⟩
      rw [hg.cfr]
      simp only
      omega

/-! ### Part D: attachment sizes -/

theorem bcastKind_length {d : Def} {o : Oracle} {s : NodeState} {e : Event}
    (hg : LimInv d s) (he : EvLim d e)
    {t r v pr pv : Nat} {j : List Core} (hk : BcastKind d o s e t r v pr pv j) :
    j.length ≤ 2 * d.nodes := by
  have hqrc : ∀ (m : Msg) (cmp : CmpOut) (j : List Core), e = .recv m cmp →
      getJustifiedQrc d o.pqPerm (flatten o.srcOrd (bufferMsg d.fifo s.buffer m)) s.round = some j →
      j.length ≤ 2 * d.nodes := by
    intro m cmp j hev hq
    subst hev
    have hbuf := bufOk_bufferMsg (d := d) (s := s) (m := m) hg.bufOk he.1
    exact getJustifiedQrc_length d (fun c hc => (bufOk_flatten hbuf o.srcOrd c hc).1) hq
  cases hk with
  | plain typ round value h => simp
  | roundChange round => have := hg.prepLen; omega
  | decided hq => exact hg.commitLen
  | ppStart hs hld hv => simp
  | ppInput v j hv hc => exact hg.cacheLen j hc
  | ppQrcPrepared m cmp j hev hld hq h1 h2 => exact hqrc m cmp j hev hq
  | ppQrcOwn m cmp j hev hld hq h1 hv => exact hqrc m cmp j hev hq

/-! ### Lifting to `step` -/

theorem step_bcast {d : Def} {o : Oracle} {n : NodeState} {e : Event} {t r v pr pv : Nat}
    {j : List Core} (h : Out.bcast t r v pr pv j ∈ (step d o n e).2) :
    (n.started == e.isStart) = false ∧
      BcastKind d o { n with started := true } e t r v pr pv j := by
  rcases step_eq d o n e with h0 | ⟨hs, h1, _⟩
  · rw [h0] at h; simp at h
  · rw [h1] at h
    exact ⟨hs, stepCore_bcast h⟩

/-! ### Part C: round synchronisation -/

/-- a live, started node really executes `stepCore` on a non-start event. -/
theorem step_live (d : Def) (o : Oracle) (n : NodeState) (e : Event) (hd : n.dead = false)
    (hs : n.started = true) (he : e.isStart = false) :
    (step d o n e).2 = (stepCore d o n e).2 ∧
    ((step d o n e).1 = (stepCore d o n e).1 ∨
     (step d o n e).1 = { (stepCore d o n e).1 with dead := true }) := by
  have hn : ({ n with started := true } : NodeState) = n := by
    cases n; simp only at hs; subst hs; rfl
  unfold step
  rw [hn]
  simp only [hd, hs, he, Bool.false_eq_true, if_false, beq_iff_eq, Bool.true_eq_false]
  split
  · exact ⟨rfl, Or.inr rfl⟩
  · exact ⟨rfl, Or.inl rfl⟩


/-- (i) the F+1 rule only jumps forward, and announces the new round. -/
theorem onFPlus1_jump {d : Def} {s1 : NodeState} {just : List Core} {nr : Nat}
    (h : nextMinRound d just s1.round = some nr) :
    s1.round < nr ∧ (onFPlus1 d s1 just).1.round = nr ∧
    Out.bcast tRoundChange nr 0 s1.preparedRound s1.preparedValue s1.preparedJust ∈
      (onFPlus1 d s1 just).2 ∧
    ∀ out ∈ (onFPlus1 d s1 just).2, out.isBug = false := by
  refine ⟨nextMinRound_gt h, ?_, ?_, ?_⟩
  · unfold onFPlus1; rw [h]; exact changeRound_round _ _ _
  · unfold onFPlus1; rw [h]
    simp [bcastRoundChange, changeRound_round, changeRound_pr, changeRound_pv, changeRound_pj]
  · unfold onFPlus1; rw [h]
    intro out hout
    simp only [List.mem_append, List.mem_cons, List.not_mem_nil, or_false] at hout
    rcases hout with (hout | hout | hout) | hout
    · unfold changeRound at hout
      split at hout
      · simp at hout
      · simp at hout; subst hout; rfl
    · subst hout; rfl
    · subst hout; rfl
    · subst hout; rfl

theorem classify_fplus1 {d : Def} {o : Oracle} {round proc : Nat} {buf : List (Nat × List Msg)}
    {m : Msg} {frc : List Core} (ht : m.core.typ = tRoundChange) (hr : round < m.core.round)
    (hf : getFPlus1RoundChanges d (flatten o.srcOrd buf) round = some frc) :
    classify d o round proc buf m = some (uFPlus1RoundChanges, frc) := by
  unfold classify
  simp only [ht]
  rw [if_neg (by decide), if_neg (by decide), if_neg (by decide), if_neg (by decide), if_pos trivial,
    if_neg (by omega), if_pos hr, hf]

theorem onRecvJustified_of_classify {d : Def} {o : Oracle} {s : NodeState} {m : Msg} {cmp : CmpOut}
    {rule : Nat} {just : List Core}
    (hcl : classify d o s.round s.proc (bufferMsg d.fifo s.buffer m) m = some (rule, just))
    (hr : rule ≠ uNothing) (hdd : (rule, m.core.round) ∉ s.dedup) :
    onRecvJustified d o s m cmp =
      ((onRule d { s with buffer := bufferMsg d.fifo s.buffer m,
                          dedup := (rule, m.core.round) :: s.dedup } m cmp rule just).1,
       Out.rule rule s.round ::
       (onRule d { s with buffer := bufferMsg d.fifo s.buffer m,
                          dedup := (rule, m.core.round) :: s.dedup } m cmp rule just).2) := by
  unfold onRecvJustified
  simp only [hcl, hr, if_false]
  rw [if_neg]
  simpa using hdd

/-- (i)+(ii) at the level of one step: an undecided running node that receives a justified
ROUND-CHANGE for a higher round while its buffer (including that message) holds higher-round
ROUND-CHANGEs of `f+1` distinct members moves to a strictly higher round and broadcasts its own
ROUND-CHANGE for it — without a "bug:" panic, whatever the buffer order. -/
theorem fplus1_step {d : Def} {o : Oracle} {n : NodeState} {m : Msg} {cmp : CmpOut} (S : List Nat)
    (hd : n.dead = false) (hs : n.started = true) (hq : n.qCommit = [])
    (hj : isJustified d m n.compareFailureRound = some true)
    (ht : m.core.typ = tRoundChange) (hr : n.round < m.core.round)
    (hdd : (uFPlus1RoundChanges, m.core.round) ∉ n.dedup)
    (hS : S.Nodup) (hlen : d.faulty + 1 ≤ S.length)
    (hsrc : ∀ s ∈ S, ∃ c ∈ flatten o.srcOrd (bufferMsg d.fifo n.buffer m),
      c.typ = tRoundChange ∧ c.src = s ∧ n.round < c.round) :
    ∃ nr, n.round < nr ∧ (step d o n (.recv m cmp)).1.round = nr ∧
      (step d o n (.recv m cmp)).1.dead = false ∧
      Out.bcast tRoundChange nr 0 n.preparedRound n.preparedValue n.preparedJust ∈
        (step d o n (.recv m cmp)).2 := by
  obtain ⟨frc, hf⟩ := getFPlus1_complete d _ n.round S hS hlen hsrc
  obtain ⟨nr, hnr, _⟩ := nextMinRound_of_fplus1 hf
  have hcl := classify_fplus1 (o := o) (proc := n.proc) ht hr hf
  have hcore : stepCore d o n (.recv m cmp) = onRecvJustified d o n m cmp := by
    unfold stepCore
    simp only [hq, List.isEmpty_nil, Bool.not_true, Bool.false_eq_true, if_false, hj]
  have hrj := onRecvJustified_of_classify (cmp := cmp) hcl (by decide) hdd
  rw [onRule_f1] at hrj
  have hjump := onFPlus1_jump (d := d)
    (s1 := { n with buffer := bufferMsg d.fifo n.buffer m,
                    dedup := (uFPlus1RoundChanges, m.core.round) :: n.dedup }) (just := frc) hnr
  have hnobug : ((stepCore d o n (.recv m cmp)).2.any Out.isBug) = false := by
    rw [hcore, hrj]
    simp only [List.any_cons, Out.isBug, Bool.false_or]
    rw [Bool.eq_false_iff]
    intro hany
    obtain ⟨out, hout, hb⟩ := List.any_eq_true.mp hany
    rw [hjump.2.2.2 out hout] at hb
    cases hb
  refine ⟨nr, hjump.1, ?_, ?_, ?_⟩
  · have := (step_live d o n (.recv m cmp) hd hs rfl).2
    have hround : (stepCore d o n (.recv m cmp)).1.round = nr := by
      rw [hcore, hrj]; exact hjump.2.1
    rcases this with h1 | h1 <;> rw [h1] <;> exact hround
  · unfold step
    have hn : ({ n with started := true } : NodeState) = n := by
      cases n; simp only at hs; subst hs; rfl
    rw [hn]
    simp only [hd, hs, Event.isStart, Bool.false_eq_true, if_false, beq_iff_eq, Bool.true_eq_false,
      hnobug]
    have : (stepCore d o n (.recv m cmp)).1.dead = n.dead := by
      rw [hcore, hrj]
      unfold onFPlus1
      rw [hnr]
      unfold changeRound
      simp only
      split <;> rfl
    rw [this, hd]
  · rw [(step_live d o n (.recv m cmp) hd hs rfl).1, hcore, hrj]
    exact List.mem_cons_of_mem _ hjump.2.2.1

/-! #### (iii) DECIDED resend -/

theorem upsert_cons_ne {α β : Type} [BEq α] (a : α × β) (as : List (α × β)) (k : α) (v : β)
    (h : (a.1 == k) = false) : upsert (a :: as) k v = a :: upsert as k v := by
  unfold upsert
  simp only [List.any_cons, h, Bool.false_or, List.map_cons, Bool.false_eq_true, if_false]
  split <;> simp

theorem upsert_find {α β : Type} [BEq α] [LawfulBEq α] (l : List (α × β)) (k : α) (v : β) :
    (upsert l k v).find? (fun e => e.1 == k) = some (k, v) := by
  induction l with
  | nil => simp [upsert]
  | cons a as ih =>
    cases h : a.1 == k with
    | false =>
      rw [upsert_cons_ne a as k v h, List.find?_cons, h]
      exact ih
    | true =>
      unfold upsert
      simp [h]

theorem resendOf_allow (s : NodeState) (src r : Nat) (h : (allowDecidedResend s src r).2 = true) :
    resendOf (allowDecidedResend s src r).1 src = (r, (resendOf s src).2 + 1) ∧
    (resendOf s src).1 < r ∧ (resendOf s src).2 < maxDecidedResends := by
  unfold allowDecidedResend at h ⊢
  simp only at h ⊢
  split at h
  · cases h
  · rename_i hc
    rw [if_neg hc]
    refine ⟨?_, by omega, by omega⟩
    show (match (upsert s.resends src (r, (resendOf s src).2 + 1)).find? (fun e => e.1 == src) with
      | some e => e.2 | none => (0, 0)) = _
    rw [upsert_find]

/-- (iii) In a decided state, a ROUND-CHANGE from another member for a round above every round
that member triggered a resend with before gets a DECIDED reply carrying `qCommit`, as long as
fewer than `maxDecidedResends` (16) replies were triggered by that member; the reply is recorded. -/
theorem decided_resend_step {d : Def} {o : Oracle} {n : NodeState} {m : Msg} {cmp : CmpOut}
    (hd : n.dead = false) (hs : n.started = true) (hq : n.qCommit ≠ [])
    (hsrc : m.core.src ≠ n.proc) (ht : m.core.typ = tRoundChange)
    (hr : (resendOf n m.core.src).1 < m.core.round)
    (hc : (resendOf n m.core.src).2 < maxDecidedResends) :
    (step d o n (.recv m cmp)).2 = [Out.bcast tDecided n.round n.qCommitValue 0 0 n.qCommit] ∧
    resendOf (step d o n (.recv m cmp)).1 m.core.src =
      (m.core.round, (resendOf n m.core.src).2 + 1) ∧
    (step d o n (.recv m cmp)).1.qCommit = n.qCommit := by
  have hallow : (allowDecidedResend n m.core.src m.core.round).2 = true := by
    unfold allowDecidedResend
    simp only
    rw [if_neg (by omega)]
  have hf := allowDecidedResend_fields n m.core.src m.core.round
  have hcore : stepCore d o n (.recv m cmp) =
      ((allowDecidedResend n m.core.src m.core.round).1,
        [Out.bcast tDecided n.round n.qCommitValue 0 0 n.qCommit]) := by
    have hne : (!n.qCommit.isEmpty) = true := by
      cases hqq : n.qCommit with
      | nil => exact absurd hqq hq
      | cons a as => rfl
    unfold stepCore
    simp only [hne, if_true]
    unfold onRecvDecided
    rw [if_pos ⟨hsrc, ht⟩]
    simp only [hallow, if_true, bcastMsg, hf.1, hf.2.1, hf.2.2]
  obtain ⟨h1, h2⟩ := step_live d o n (.recv m cmp) hd hs rfl
  rw [hcore] at h1 h2
  refine ⟨h1, ?_, ?_⟩
  · rcases h2 with h2 | h2 <;> rw [h2]
    · exact (resendOf_allow n _ _ hallow).1
    · exact (resendOf_allow n _ _ hallow).1
  · rcases h2 with h2 | h2 <;> rw [h2]
    · exact hf.2.1
    · exact hf.2.1

/-! ### Part B: leader rotation -/

/-- `core/consensus/qbft.leader`: `(duty.Slot + duty.Type + round) % nodes`. -/
def leaderFn (slot ty r n : Nat) : Nat := (slot + ty + r) % n

theorem leaderFn_exists (slot ty n : Nat) (hn : 1 ≤ n) (r0 p : Nat) (hp : p < n) :
    ∃ r, r0 ≤ r ∧ r < r0 + n ∧ leaderFn slot ty r n = p := by
  have ha : (slot + ty + r0) % n < n := Nat.mod_lt _ (by omega)
  by_cases hge : (slot + ty + r0) % n ≤ p
  · refine ⟨r0 + (p - (slot + ty + r0) % n), by omega, by omega, ?_⟩
    unfold leaderFn
    have : slot + ty + (r0 + (p - (slot + ty + r0) % n)) =
        (slot + ty + r0) + (p - (slot + ty + r0) % n) := by omega
    rw [this, Nat.add_mod, Nat.mod_eq_of_lt (a := p - (slot + ty + r0) % n) (by omega)]
    have : (slot + ty + r0) % n + (p - (slot + ty + r0) % n) = p := by omega
    rw [this, Nat.mod_eq_of_lt hp]
  · refine ⟨r0 + (p + n - (slot + ty + r0) % n), by omega, by omega, ?_⟩
    unfold leaderFn
    have : slot + ty + (r0 + (p + n - (slot + ty + r0) % n)) =
        (slot + ty + r0) + (p + n - (slot + ty + r0) % n) := by omega
    rw [this, Nat.add_mod, Nat.mod_eq_of_lt (a := p + n - (slot + ty + r0) % n) (by omega)]
    have : (slot + ty + r0) % n + (p + n - (slot + ty + r0) % n) = p + n := by omega
    rw [this, Nat.add_mod_right, Nat.mod_eq_of_lt hp]

theorem leaderFn_inj (slot ty n : Nat) (r0 r r' : Nat) (h1 : r0 ≤ r) (h2 : r < r0 + n)
    (h1' : r0 ≤ r') (h2' : r' < r0 + n) (h : leaderFn slot ty r n = leaderFn slot ty r' n) :
    r = r' := by
  unfold leaderFn at h
  have key : ∀ a b : Nat, a ≤ b → b < a + n → (slot + ty + a) % n = (slot + ty + b) % n → a = b := by
    intro a b hab hlt hm
    have h0 := Nat.sub_mod_eq_zero_of_mod_eq hm.symm
    have : slot + ty + b - (slot + ty + a) = b - a := by omega
    rw [this, Nat.mod_eq_of_lt (by omega)] at h0
    omega
  rcases Nat.le_total r r' with hle | hle
  · exact key r r' hle (by omega) h
  · exact (key r' r hle (by omega) h.symm).symm

/-! ### Messages other than PRE-PREPARE need no environment hypothesis -/

theorem bcastKind_justified_other {d : Def} (hn : 1 ≤ d.nodes) {o : Oracle} {s : NodeState}
    {e : Event} (hl : LiveCore d s) {t r v pr pv : Nat} {j : List Core}
    (hk : BcastKind d o s e t r v pr pv j) (ht : t ≠ tPrePrepare) (cfr' : Nat) :
    isJustified d (wireMsg s.proc t r v pr pv j) cfr' = some true := by
  cases hk with
  | plain typ round value h => exact justified_plain d _ _ _ _ h cfr'
  | roundChange round => exact justified_roundChange hn hl.prepOk _ _ cfr'
  | decided hq => exact justified_decided hl.commitOk hq cfr'
  | ppStart hs hld hv => exact absurd rfl ht
  | ppInput v j hv hc => exact absurd rfl ht
  | ppQrcPrepared m cmp j hev hld hq h1 h2 => exact absurd rfl ht
  | ppQrcOwn m cmp j hev hld hq h1 hv => exact absurd rfl ht

/-! ### Decidability (for the concrete non-vacuity examples) -/

deriving instance DecidableEq for Out

instance (d : Def) (c : Core) : Decidable (CoreOk d c) :=
  inferInstanceAs (Decidable (c.src < d.nodes ∧ (c.typ = tPrepare → c.value ≠ 0 ∧ 1 ≤ c.round)))

instance (d : Def) (m : Msg) : Decidable (MsgOk d m) :=
  inferInstanceAs (Decidable (CoreOk d m.core ∧ ∀ c ∈ m.just, CoreOk d c))

instance (d : Def) : (e : Event) → Decidable (EvOk d e)
  | .recv m c => inferInstanceAs (Decidable (MsgOk d m ∧ c ≠ .fail))
  | .start => isTrue trivial
  | .input _ => isTrue trivial
  | .timeout => isTrue trivial

instance (d : Def) : (e : Event) → Decidable (EvLim d e)
  | .recv m _ => inferInstanceAs
      (Decidable (MsgOk d m ∧ (m.core.typ = tDecided → m.just.length ≤ 2 * d.nodes)))
  | .start => isTrue trivial
  | .input _ => isTrue trivial
  | .timeout => isTrue trivial

/-- Part A for any state satisfying the invariants (not only reachable ones): with
`n.compareFailureRound = 0`, an H-buf buffer and a null cached justification (`GoodInv`), every
broadcast of a step on an `EvOk` event is justified for every receiver. -/
theorem step_bcast_justified {d : Def} (hn : 1 ≤ d.nodes) {n : NodeState} (hl : LiveInv d n)
    (hg : GoodInv d n) (o : Oracle) (e : Event) (he : EvOk d e)
    {typ round value pr pv : Nat} {just : List Core}
    (hout : Out.bcast typ round value pr pv just ∈ (step d o n e).2) (cfr' : Nat) :
    isJustified d (wireMsg n.proc typ round value pr pv just) cfr' = some true := by
  obtain ⟨hs, hk⟩ := step_bcast hout
  have hc0 : LiveCore d { n with started := true } :=
    ⟨hl.core.prepOk, hl.core.commitOk, hl.core.commitTimer, hl.core.cacheOk⟩
  have hg0 : GoodInv d { n with started := true } := ⟨hg.cfr, hg.bufOk, hg.cacheNull⟩
  exact bcastKind_justified hn hc0 hg0 he (fun hes => (hl.fresh (fresh_of_start hs hes)).1) hk cfr'

/-- Part D for any state satisfying `LimInv`. -/
theorem step_bcast_length {d : Def} {n : NodeState} (hg : LimInv d n) (o : Oracle) (e : Event)
    (he : EvLim d e) {typ round value pr pv : Nat} {just : List Core}
    (hout : Out.bcast typ round value pr pv just ∈ (step d o n e).2) :
    just.length ≤ 2 * d.nodes := by
  obtain ⟨_, hk⟩ := step_bcast hout
  have hg0 : LimInv d { n with started := true } := ⟨hg.bufOk, hg.prepLen, hg.commitLen, hg.cacheLen⟩
  exact bcastKind_length hg0 he hk

end CharonV.Qbft
