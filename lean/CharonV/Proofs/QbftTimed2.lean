/-
C04 (timed composition, skew-tolerant): the cluster invariant of `Proofs/QbftTimed.lean` without the
hypothesis "entry skew ≤ minimal latency" (`Hyp.lo`). A message of round `ρ` may now reach a running
member that is still in round `ρ - 1`:
* a PREPARE / COMMIT is buffered (`pend2_recv_buf`) and counts once the member is in the round;
* a ROUND-CHANGE is buffered, or — with `f+1` of them — the member enters the round at once
  (`pend2_recv_rc`, F+1 rule: `getFPlus1RoundChanges` / `nextMinRound`, `Jumped`);
* a justified PRE-PREPARE makes the member jump into the round without announcing it (`pend2_recv_pp`);
* a DECIDED makes it decide (`pend2_recv_decided`).
`Run` evaluates a threshold only when a message of that type arrives *in the round*; so the in-round
view `Act2` records a threshold iff it is reached by everything delivered (`L`) AND a message of the
type has arrived after the entry (`tR`, `tP`, `tC`). The member's own ROUND-CHANGE / PREPARE / COMMIT is
always delivered after the entry, which is what the liveness argument (`live2`) uses.
A member that jumped on a PRE-PREPARE or a DECIDED never sends its ROUND-CHANGE: the per-kind count of
ROUND-CHANGEs becomes an inequality (`counts4`) plus `rcOrPP` (in the round without a ROUND-CHANGE in
the log ⇒ the leader has proposed).
Everything else (`RInv2`, `rinv2_act`, `rinv2_deliver`, `live2`, `rinv_next2`, `Rot2`, `rot_decides2`,
`rot_rel2`, `rot_eager2`, `poised1_rinv2`) follows `Proofs/QbftTimed.lean`.
-/
import CharonV.Proofs.QbftTimed

namespace CharonV.Qbft

open RoundTimer (lookup)

/-! ### In-round view that tolerates messages buffered before the member entered the round

`L` = everything delivered (before or after the entry); `tR`, `tP`, `tC`: a ROUND-CHANGE / PREPARE /
COMMIT of the round was delivered *after* the entry. `Run` evaluates a threshold only when a message
of that type arrives in the round, so the bookkeeping records a threshold iff it is reached by `L`
and such a message has arrived. -/

structure Act2 (d : Def) (G : Rd) (I : Nat → Nat) (p : Nat) (s : NodeState) (L : List Msg)
    (tR tP tC : Prop) : Prop where
  mid : Mid G.ρ p s
  buf : BufIs s.buffer L
  noDec : ∀ x ∈ L, x.core.typ ≠ tDecided
  jpp : (uJustifiedPrePrepare, G.ρ) ∈ s.dedup ↔ srcsOf tPrePrepare G.ρ L ≠ []
  qp : (uQuorumPrepares, G.ρ) ∈ s.dedup ↔ (d.quorum ≤ (srcsOf tPrepare G.ρ L).length ∧ tP)
  qc : (uQuorumCommits, G.ρ) ∉ s.dedup
  qcl : ¬ (d.quorum ≤ (srcsOf tCommit G.ρ L).length ∧ tC)
  jd : (uJustifiedDecided, G.ρ) ∉ s.dedup
  qrc : (uQuorumRoundChanges, G.ρ) ∈ s.dedup ↔
    (G.l = p ∧ d.quorum ≤ (srcsOf tRoundChange G.ρ L).length ∧ tR)
  cache : G.ρ ≠ 1 → s.ppjCache = none
  inp : s.inputValue = I p
  ton : s.timerOn = true
  unprep : (uQuorumPrepares, G.ρ) ∉ s.dedup →
    s.preparedRound = 0 ∧ s.preparedValue = 0 ∧ s.preparedJust = []
  ddr : ∀ e ∈ s.dedup, e.2 = G.ρ

/-- **ROUND-CHANGE for the round.** Either the message is only buffered, or the member is the leader,
has not proposed yet, reaches the quorum with this message and broadcasts its PRE-PREPARE. -/
theorem act2_recv_rc {d : Def} {R : List Nat} {G : Rd} {I : Nat → Nat} {p : Nat} {s : NodeState} {L : List Msg} {tR tP tC : Prop} {a : Nat}
    (o : Oracle) (hq1 : 1 ≤ d.quorum) (hlv : G.l = p → I G.l = G.v ∧ G.v ≠ 0) (hl : d.leader G.ρ = G.l) (hρ : 2 ≤ G.ρ)
    (h : Act2 d G I p s L tR tP tC) (hh : LocHyp d R G L (rcMsg G.ρ a))
    (hnopp : G.l = p → (uQuorumRoundChanges, G.ρ) ∉ s.dedup → srcsOf tPrePrepare G.ρ L = []) :
    Act2 d G I p (step d o s (.recv (rcMsg G.ρ a) .ok)).1 (L ++ [rcMsg G.ρ a]) True tP tC ∧
    (Buffered d s (rcMsg G.ρ a) (step d o s (.recv (rcMsg G.ρ a) .ok)) ∨
     Proposed d G p s (rcMsg G.ρ a) (step d o s (.recv (rcMsg G.ρ a) .ok))) := by
  have hm := h.mid
  have hbuf : BufIs (bufferMsg d.fifo s.buffer (rcMsg G.ρ a)) (L ++ [rcMsg G.ρ a]) :=
    bufIs_bufferMsg h.buf hh.fifo
  have hnoDec : ∀ x ∈ L ++ [rcMsg G.ρ a], x.core.typ ≠ tDecided := by
    intro x hx
    rcases List.mem_append.mp hx with hx | hx
    · exact h.noDec x hx
    · simp only [List.mem_singleton] at hx; subst hx; simp [rcMsg, tRoundChange, tDecided]
  have hj := rcMsg_justified d G.ρ a s.compareFailureRound
  -- the buffer counts at least the ROUND-CHANGE messages delivered
  have hge : ∀ ord, (srcsOf tRoundChange G.ρ (L ++ [rcMsg G.ρ a])).length ≤
      (filterRoundChange (flatten ord (bufferMsg d.fifo s.buffer (rcMsg G.ρ a))) G.ρ).length := by
    intro ord
    unfold filterRoundChange
    apply count_kind_ge hbuf (hh.nodup _ (by simp))
    intro x _ h1 h2
    exact ⟨h1, h2, by simp, by simp, by simp⟩
  -- all of them are null, so the null filter finds as many
  have hnull : ∀ ord, (filterRoundChange (flatten ord (bufferMsg d.fifo s.buffer (rcMsg G.ρ a))) G.ρ).length ≤
      (filterMsgs (flatten ord (bufferMsg d.fifo s.buffer (rcMsg G.ρ a))) tRoundChange G.ρ
        none (some 0) (some 0)).length := by
    intro ord
    unfold filterRoundChange
    apply filterMsgs_length_opt
    intro c hc h1 h2
    rw [mem_flatten_bufIs hbuf] at hc
    exact rc_cores_null hh.shape hnoDec c hc h1 h2
  have hsn : srcsOf tRoundChange G.ρ (L ++ [rcMsg G.ρ a]) = srcsOf tRoundChange G.ρ L ++ [a] := by
    rw [srcsOf_snoc]; simp [rcMsg]
  have hsn1 : srcsOf tPrePrepare G.ρ (L ++ [rcMsg G.ρ a]) = srcsOf tPrePrepare G.ρ L := by
    rw [srcsOf_snoc]; simp [rcMsg, tRoundChange, tPrePrepare]
  have hsn2 : srcsOf tPrepare G.ρ (L ++ [rcMsg G.ρ a]) = srcsOf tPrepare G.ρ L := by
    rw [srcsOf_snoc]; simp [rcMsg, tRoundChange, tPrepare]
  have hsn3 : srcsOf tCommit G.ρ (L ++ [rcMsg G.ρ a]) = srcsOf tCommit G.ρ L := by
    rw [srcsOf_snoc]; simp [rcMsg, tRoundChange, tCommit]
  have hlen : (srcsOf tRoundChange G.ρ (L ++ [rcMsg G.ρ a])).length =
      (srcsOf tRoundChange G.ρ L).length + 1 := by rw [hsn]; simp
  -- the quiet outcome
  have hquiet : step d o s (.recv (rcMsg G.ρ a) .ok) =
        ({ s with buffer := bufferMsg d.fifo s.buffer (rcMsg G.ρ a) }, []) →
      ((uQuorumRoundChanges, G.ρ) ∈ s.dedup ↔
        (G.l = p ∧ d.quorum ≤ (srcsOf tRoundChange G.ρ L).length + 1)) →
      Act2 d G I p (step d o s (.recv (rcMsg G.ρ a) .ok)).1 (L ++ [rcMsg G.ρ a]) True tP tC ∧
      (Buffered d s (rcMsg G.ρ a) (step d o s (.recv (rcMsg G.ρ a) .ok)) ∨
       Proposed d G p s (rcMsg G.ρ a) (step d o s (.recv (rcMsg G.ρ a) .ok))) := by
    intro hst hiff
    refine ⟨?_, Or.inl hst⟩
    rw [hst]
    exact ⟨mid_of_eq hm rfl rfl rfl rfl rfl rfl, hbuf, hnoDec, by rw [hsn1]; exact h.jpp,
      by rw [hsn2]; exact h.qp, h.qc, by rw [hsn3]; exact h.qcl, h.jd, by rw [hlen]; simp only [and_true]; exact hiff,
      h.cache, h.inp, (by first | exact h.ton | rfl), (by intro hc; first
        | exact absurd List.mem_cons_self hc
        | exact h.unprep (fun hc' => hc (List.mem_cons_of_mem _ hc'))
        | exact h.unprep hc), (by intro e he; first
        | exact h.ddr e he
        | (rcases List.mem_cons.mp he with rfl | he'
           · rfl
           · exact h.ddr e he'))⟩
  by_cases hlt : (filterRoundChange (flatten o.srcOrd (bufferMsg d.fifo s.buffer (rcMsg G.ρ a))) s.round).length
      < d.quorum
  · apply hquiet (step_rc_below hm.dead hm.started hm.qc hj rfl hm.round.symm hlt)
    constructor
    · intro hd; have := h.qrc.mp hd; exact ⟨this.1, by have := this.2.1; omega⟩
    · intro ⟨_, h2⟩
      have := hge o.srcOrd
      rw [hm.round] at hlt
      omega
  · have hge' : d.quorum ≤ (filterRoundChange (flatten o.srcOrd
        (bufferMsg d.fifo s.buffer (rcMsg G.ρ a))) s.round).length := by omega
    have hqn : d.quorum ≤ (filterMsgs (flatten o.srcOrd (bufferMsg d.fifo s.buffer (rcMsg G.ρ a)))
        tRoundChange s.round none (some 0) (some 0)).length := by
      have := hnull o.srcOrd
      rw [hm.round] at hge' ⊢
      omega
    by_cases hlp : G.l = p
    · by_cases hdd : (uQuorumRoundChanges, G.ρ) ∈ s.dedup
      · apply hquiet (step_rc_dup hm.dead hm.started hm.qc hj rfl hm.round.symm hge' hqn hdd)
        constructor
        · intro _; have := h.qrc.mp hdd; exact ⟨this.1, by have := this.2.1; omega⟩
        · intro _; exact hdd
      · -- the leader fires
        have hnp := hnopp hlp hdd
        have hexact : (filterRoundChange (flatten o.srcOrd
            (bufferMsg d.fifo s.buffer (rcMsg G.ρ a))) G.ρ).length =
            (srcsOf tRoundChange G.ρ L).length + 1 := by
          unfold filterRoundChange
          rw [count_kind hbuf (hh.nodup _ (by simp)), hlen]
          · intro x hx c hc
            have hnp' : ¬ (x.core.typ = tPrePrepare ∧ x.core.round = G.ρ) := by
              intro hpp
              have : x.core.src ∈ srcsOf tPrePrepare G.ρ (L ++ [rcMsg G.ρ a]) :=
                mem_srcsOf.mpr ⟨x, hx, hpp.1, hpp.2, rfl⟩
              rw [hsn1, hnp] at this
              cases this
            rw [(hh.shape x hx).just_nil (hnoDec x hx) hnp'] at hc
            cases hc
          · intro x _ h1 h2
            exact ⟨h1, h2, by simp, by simp, by simp⟩
        have hst := step_rc_leader (d := d) (o := o) (m := rcMsg G.ρ a) hq1 hm.dead hm.started hm.qc hj
          rfl hm.round.symm hge' hqn (by rw [hm.round, hm.proc, hl]; exact hlp) hdd (h.cache (by omega))
          (by rw [h.inp, ← hlp, (hlv hlp).1]; exact (hlv hlp).2)
        obtain ⟨J, hJe⟩ : ∃ J, J = filterMsgs (flatten o.srcOrd (bufferMsg d.fifo s.buffer (rcMsg G.ρ a)))
            tRoundChange G.ρ none (some 0) (some 0) := ⟨_, rfl⟩
        have hJ : IsPPm d G { core := ⟨tPrePrepare, p, G.ρ, G.v, 0, 0⟩, just := J } := by
          rw [hJe]
          refine ⟨by rw [hlp], ?_, ?_⟩
          · intro c hc
            have hsd := filterMsgs_sound hc
            have hcm : c ∈ coresOf (L ++ [rcMsg G.ρ a]) := (mem_flatten_bufIs hbuf c).mp hsd.1
            have hmm := rc_cores_null hh.shape hnoDec c hcm hsd.2.1 hsd.2.2.1
            cases c with
            | mk t sr rd vl pr pv =>
              have e1 : t = tRoundChange := hsd.2.1
              have e2 : rd = G.ρ := hsd.2.2.1
              have e4 : pr = 0 := hmm.2.2.2.1 0 rfl
              have e5 : pv = 0 := hmm.2.2.2.2 0 rfl
              -- the value of a null ROUND-CHANGE core is 0
              have e3 : vl = 0 := by
                unfold coresOf at hcm
                obtain ⟨x, hx, hcx⟩ := List.mem_flatMap.mp hcm
                rcases List.mem_cons.mp hcx with hx1 | hx1
                · have hce := (hh.shape x hx).core_eq (by rw [← hx1]; exact e2) (hnoDec x hx)
                  rw [← hx1] at hce
                  simp only [Core.mk.injEq] at hce
                  rw [hce.2.2.2.1, if_pos e1]
                · have := (hh.shape x hx).just_rc (hnoDec x hx) _ hx1
                  simp only [Core.mk.injEq] at this
                  exact this.2.2.2.1
              subst e1 e2 e3 e4 e5
              rfl
          · have hcj : containsJustifiedQrc d (filterMsgs (flatten o.srcOrd
                (bufferMsg d.fifo s.buffer (rcMsg G.ρ a))) tRoundChange G.ρ none (some 0) (some 0)) G.ρ =
                (0, true) := null_quorum_contains hq1 (by rw [hm.round] at hqn; exact hqn)
            have := ppMsg_justified_r d G.ρ G.v _ (hlv hlp).2 hcj
            rw [hl, hlp] at this
            exact this
        refine ⟨?_, Or.inr ⟨hlp, hdd, J, ?_, hJ⟩⟩
        · rw [hst]
          refine ⟨mid_of_eq hm rfl rfl rfl rfl rfl rfl, hbuf, hnoDec, ?_, ?_, ?_, by rw [hsn3]; exact h.qcl,
            ?_, ?_, h.cache, h.inp, (by first | exact h.ton | rfl), (by intro hc; first
        | exact absurd List.mem_cons_self hc
        | exact h.unprep (fun hc' => hc (List.mem_cons_of_mem _ hc'))
        | exact h.unprep hc), (by intro e he; first
        | exact h.ddr e he
        | (rcases List.mem_cons.mp he with rfl | he'
           · rfl
           · exact h.ddr e he'))⟩
          · rw [hsn1]
            simp only [rcMsg, List.mem_cons, Prod.mk.injEq]
            constructor
            · rintro (⟨h1, _⟩ | h1)
              · simp [uJustifiedPrePrepare, uQuorumRoundChanges] at h1
              · exact h.jpp.mp h1
            · intro h1; exact Or.inr (h.jpp.mpr h1)
          · rw [hsn2]
            simp only [rcMsg, List.mem_cons, Prod.mk.injEq]
            constructor
            · rintro (⟨h1, _⟩ | h1)
              · simp [uQuorumPrepares, uQuorumRoundChanges] at h1
              · exact h.qp.mp h1
            · intro h1; exact Or.inr (h.qp.mpr h1)
          · simp only [rcMsg, List.mem_cons, Prod.mk.injEq, not_or]
            exact ⟨by simp [uQuorumCommits, uQuorumRoundChanges], h.qc⟩
          · simp only [rcMsg, List.mem_cons, Prod.mk.injEq, not_or]
            exact ⟨by simp [uJustifiedDecided, uQuorumRoundChanges], h.jd⟩
          · rw [hlen]
            simp only [rcMsg, List.mem_cons, true_or, true_iff, and_true]
            refine ⟨hlp, ?_⟩
            have := hge o.srcOrd
            rw [hm.round] at hge'
            rw [hexact] at hge'
            exact hge'
        · rw [hst, hJe]
          simp only [hm.round, rcMsg, h.inp, ← hlp, (hlv hlp).1]
    · apply hquiet (step_rc_nonleader hm.dead hm.started hm.qc hj rfl hm.round.symm hge' hqn
        (by rw [hm.round, hm.proc, hl]; exact hlp))
      constructor
      · intro hd; exact absurd (h.qrc.mp hd).1 hlp
      · intro ⟨h1, _⟩; exact absurd h1 hlp

/-- **PRE-PREPARE of the round** (delivered once): recorded, timer restarted, PREPARE broadcast. -/
theorem act2_recv_pp {d : Def} {R : List Nat} {G : Rd} {I : Nat → Nat} {p : Nat} {s : NodeState} {L : List Msg} {tR tP tC : Prop} {m : Msg}
    (o : Oracle) (h : Act2 d G I p s L tR tP tC) (hh : LocHyp d R G L m) (hm : IsPPm d G m) :
    Act2 d G I p (step d o s (.recv m .ok)).1 (L ++ [m]) tR tP tC ∧
    step d o s (.recv m .ok) =
      ({ s with buffer := bufferMsg d.fifo s.buffer m,
                dedup := (uJustifiedPrePrepare, G.ρ) :: s.dedup, timerOn := true },
       [.rule uJustifiedPrePrepare G.ρ, .stopTimer, .newTimer G.ρ, .bcast tPrepare G.ρ G.v 0 0 []]) ∧
    (uJustifiedPrePrepare, G.ρ) ∉ s.dedup := by
  have hmid := h.mid
  have hbuf : BufIs (bufferMsg d.fifo s.buffer m) (L ++ [m]) := bufIs_bufferMsg h.buf hh.fifo
  have ht : m.core.typ = tPrePrepare := by rw [hm.1]
  have hr : m.core.round = G.ρ := by rw [hm.1]
  have hvl : m.core.value = G.v := by rw [hm.1]
  have hsr : m.core.src = G.l := by rw [hm.1]
  have hnoDec : ∀ x ∈ L ++ [m], x.core.typ ≠ tDecided := by
    intro x hx
    rcases List.mem_append.mp hx with hx | hx
    · exact h.noDec x hx
    · simp only [List.mem_singleton] at hx; subst hx; rw [ht]; decide
  have hsn1 : srcsOf tPrePrepare G.ρ (L ++ [m]) = srcsOf tPrePrepare G.ρ L ++ [G.l] := by
    rw [srcsOf_snoc, if_pos ⟨ht, hr⟩, hsr]
  have hsn0 : srcsOf tRoundChange G.ρ (L ++ [m]) = srcsOf tRoundChange G.ρ L := by
    rw [srcsOf_snoc, if_neg (by rw [ht]; simp [tPrePrepare, tRoundChange])]; simp
  have hsn2 : srcsOf tPrepare G.ρ (L ++ [m]) = srcsOf tPrepare G.ρ L := by
    rw [srcsOf_snoc, if_neg (by rw [ht]; simp [tPrePrepare, tPrepare])]; simp
  have hsn3 : srcsOf tCommit G.ρ (L ++ [m]) = srcsOf tCommit G.ρ L := by
    rw [srcsOf_snoc, if_neg (by rw [ht]; simp [tPrePrepare, tCommit])]; simp
  -- delivered once: no PRE-PREPARE of the round before
  have hfirst : srcsOf tPrePrepare G.ρ L = [] := by
    have hnd := hh.nodup tPrePrepare (Or.inl rfl)
    rw [hsn1] at hnd
    cases hL : srcsOf tPrePrepare G.ρ L with
    | nil => rfl
    | cons b bs =>
      exfalso
      have hb : b ∈ srcsOf tPrePrepare G.ρ L := by rw [hL]; exact List.mem_cons_self
      obtain ⟨x, hx, h1, h2, h3⟩ := mem_srcsOf.mp hb
      have hce := (hh.shape x (List.mem_append_left _ hx)).core_eq h2 (h.noDec x hx)
      have hbl : b = G.l := by
        have hsx := hh.shape x (List.mem_append_left _ hx)
        cases hsx with
        | old r a hlt => simp [rcMsg, tRoundChange, tPrePrepare] at h1
        | rc a ha => simp [rcMsg, tRoundChange, tPrePrepare] at h1
        | pp m' hm' _ => rw [← h3, hm'.1]
        | prep a ha => simp [prepMsg, tPrepare, tPrePrepare] at h1
        | commit a ha => simp [commitMsg, tCommit, tPrePrepare] at h1
        | dec m' hm' _ => exact absurd hm'.1 (h.noDec _ hx)
      rw [hL, hbl] at hnd
      simp at hnd
  have hdd : (uJustifiedPrePrepare, m.core.round) ∉ s.dedup := by
    rw [hr]; intro hc; exact (h.jpp.mp hc) hfirst
  have hj : isJustified d m s.compareFailureRound = some true := by rw [hmid.cfr]; exact hm.2.2
  have hst := step_prePrepare (d := d) (o := o) (m := m) hmid.dead hmid.started hmid.qc hj ht
    (by rw [hr, hmid.round]) hdd
  rw [hr, hvl] at hst
  have hst2 : step d o s (.recv m .ok) =
      ({ s with buffer := bufferMsg d.fifo s.buffer m,
                dedup := (uJustifiedPrePrepare, G.ρ) :: s.dedup, timerOn := true },
       [.rule uJustifiedPrePrepare G.ρ, .stopTimer, .newTimer G.ρ, .bcast tPrepare G.ρ G.v 0 0 []]) := by
    rw [hst]
    refine Prod.ext rfl ?_
    simp only [hmid.round]
  refine ⟨?_, hst2, by rw [← hr]; exact hdd⟩
  rw [hst2]
  refine ⟨mid_of_eq hmid rfl rfl rfl rfl rfl rfl, hbuf, hnoDec, ?_, ?_, ?_, by rw [hsn3]; exact h.qcl,
    ?_, ?_, h.cache, h.inp, (by first | exact h.ton | rfl), (by intro hc; first
        | exact absurd List.mem_cons_self hc
        | exact h.unprep (fun hc' => hc (List.mem_cons_of_mem _ hc'))
        | exact h.unprep hc), (by intro e he; first
        | exact h.ddr e he
        | (rcases List.mem_cons.mp he with rfl | he'
           · rfl
           · exact h.ddr e he'))⟩
  · rw [hsn1]; simp
  · rw [hsn2]
    simp only [List.mem_cons, Prod.mk.injEq]
    constructor
    · rintro (⟨h1, _⟩ | h1)
      · simp [uQuorumPrepares, uJustifiedPrePrepare] at h1
      · exact h.qp.mp h1
    · intro h1; exact Or.inr (h.qp.mpr h1)
  · simp only [List.mem_cons, Prod.mk.injEq, not_or]
    exact ⟨by simp [uQuorumCommits, uJustifiedPrePrepare], h.qc⟩
  · simp only [List.mem_cons, Prod.mk.injEq, not_or]
    exact ⟨by simp [uJustifiedDecided, uJustifiedPrePrepare], h.jd⟩
  · rw [hsn0]
    simp only [List.mem_cons, Prod.mk.injEq]
    constructor
    · rintro (⟨h1, _⟩ | h1)
      · simp [uQuorumRoundChanges, uJustifiedPrePrepare] at h1
      · exact h.qrc.mp h1
    · intro h1; exact Or.inr (h.qrc.mpr h1)

/-- **PREPARE of the round.** -/
theorem act2_recv_prepare {d : Def} {R : List Nat} {G : Rd} {I : Nat → Nat} {p : Nat} {s : NodeState} {L : List Msg} {tR tP tC : Prop} {a : Nat}
    (o : Oracle) (h : Act2 d G I p s L tR tP tC) (hh : LocHyp d R G L (prepMsg G.ρ G.v a)) :
    Act2 d G I p (step d o s (.recv (prepMsg G.ρ G.v a) .ok)).1 (L ++ [prepMsg G.ρ G.v a]) tR True tC ∧
    (Buffered d s (prepMsg G.ρ G.v a) (step d o s (.recv (prepMsg G.ρ G.v a) .ok)) ∨
     Prepared d G s (prepMsg G.ρ G.v a) (step d o s (.recv (prepMsg G.ρ G.v a) .ok))) := by
  have hm := h.mid
  have hbuf : BufIs (bufferMsg d.fifo s.buffer (prepMsg G.ρ G.v a)) (L ++ [prepMsg G.ρ G.v a]) :=
    bufIs_bufferMsg h.buf hh.fifo
  have hnoDec : ∀ x ∈ L ++ [prepMsg G.ρ G.v a], x.core.typ ≠ tDecided := by
    intro x hx
    rcases List.mem_append.mp hx with hx | hx
    · exact h.noDec x hx
    · simp only [List.mem_singleton] at hx; subst hx; simp [prepMsg, tPrepare, tDecided]
  have hsn0 : srcsOf tRoundChange G.ρ (L ++ [prepMsg G.ρ G.v a]) = srcsOf tRoundChange G.ρ L := by
    rw [srcsOf_snoc]; simp [prepMsg, tRoundChange, tPrepare]
  have hsn1 : srcsOf tPrePrepare G.ρ (L ++ [prepMsg G.ρ G.v a]) = srcsOf tPrePrepare G.ρ L := by
    rw [srcsOf_snoc]; simp [prepMsg, tPrepare, tPrePrepare]
  have hsn2 : srcsOf tPrepare G.ρ (L ++ [prepMsg G.ρ G.v a]) = srcsOf tPrepare G.ρ L ++ [a] := by
    rw [srcsOf_snoc]; simp [prepMsg]
  have hsn3 : srcsOf tCommit G.ρ (L ++ [prepMsg G.ρ G.v a]) = srcsOf tCommit G.ρ L := by
    rw [srcsOf_snoc]; simp [prepMsg, tPrepare, tCommit]
  have hcount : (filterByRoundAndValue (flatten o.srcOrd (bufferMsg d.fifo s.buffer (prepMsg G.ρ G.v a)))
      tPrepare G.ρ G.v).length = (srcsOf tPrepare G.ρ L).length + 1 := by
    unfold filterByRoundAndValue
    rw [count_kind hbuf (hh.nodup _ (by simp)), hsn2]
    · simp
    · intro x hx c hc
      rw [(hh.shape x hx).just_rc (hnoDec x hx) c hc]
      simp [tRoundChange, tPrepare]
    · intro x hx h1 h2
      have := (hh.shape x hx).core_eq h2 (hnoDec x hx)
      rw [this, h1]
      exact ⟨rfl, rfl, by simp [tPrepare, tRoundChange], by simp, by simp⟩
  have hst := step_prepare (d := d) (o := o) (m := prepMsg G.ρ G.v a) hm.dead hm.started hm.qc rfl
    hm.round.symm
  have hcount' : (filterByRoundAndValue (flatten o.srcOrd (bufferMsg d.fifo s.buffer (prepMsg G.ρ G.v a)))
      tPrepare (prepMsg G.ρ G.v a).core.round (prepMsg G.ρ G.v a).core.value).length =
      (srcsOf tPrepare G.ρ L).length + 1 := hcount
  rw [hcount'] at hst
  by_cases hfire : d.quorum ≤ (srcsOf tPrepare G.ρ L).length + 1 ∧
      (uQuorumPrepares, (prepMsg G.ρ G.v a).core.round) ∉ s.dedup
  · rw [if_pos hfire] at hst
    have hdd : (uQuorumPrepares, G.ρ) ∉ s.dedup := hfire.2
    refine ⟨?_, Or.inr ⟨hdd, filterByRoundAndValue (flatten o.srcOrd
      (bufferMsg d.fifo s.buffer (prepMsg G.ρ G.v a))) tPrepare G.ρ G.v, ?_⟩⟩
    · rw [hst]
      refine ⟨mid_of_eq hm rfl rfl rfl rfl rfl rfl, hbuf, hnoDec, ?_, ?_, ?_, by rw [hsn3]; exact h.qcl,
        ?_, ?_, h.cache, h.inp, (by first | exact h.ton | rfl), (by intro hc; first
        | exact absurd List.mem_cons_self hc
        | exact h.unprep (fun hc' => hc (List.mem_cons_of_mem _ hc'))
        | exact h.unprep hc), (by intro e he; first
        | exact h.ddr e he
        | (rcases List.mem_cons.mp he with rfl | he'
           · rfl
           · exact h.ddr e he'))⟩
      · rw [hsn1]
        simp only [prepMsg, List.mem_cons, Prod.mk.injEq]
        constructor
        · rintro (⟨h1, _⟩ | h1)
          · simp [uQuorumPrepares, uJustifiedPrePrepare] at h1
          · exact h.jpp.mp h1
        · intro h1; exact Or.inr (h.jpp.mpr h1)
      · rw [hsn2]
        simp only [prepMsg, List.mem_cons, true_or, true_iff, List.length_append, List.length_singleton, and_true]
        exact hfire.1
      · simp only [prepMsg, List.mem_cons, Prod.mk.injEq, not_or]
        exact ⟨by simp [uQuorumCommits, uQuorumPrepares], h.qc⟩
      · simp only [prepMsg, List.mem_cons, Prod.mk.injEq, not_or]
        exact ⟨by simp [uJustifiedDecided, uQuorumPrepares], h.jd⟩
      · rw [hsn0]
        simp only [prepMsg, List.mem_cons, Prod.mk.injEq]
        constructor
        · rintro (⟨h1, _⟩ | h1)
          · simp [uQuorumRoundChanges, uQuorumPrepares] at h1
          · exact h.qrc.mp h1
        · intro h1; exact Or.inr (h.qrc.mpr h1)
    · rw [hst]
      simp only [hm.round, prepMsg]
  · rw [if_neg hfire] at hst
    refine ⟨?_, Or.inl hst⟩
    rw [hst]
    refine ⟨mid_of_eq hm rfl rfl rfl rfl rfl rfl, hbuf, hnoDec, by rw [hsn1]; exact h.jpp, ?_, h.qc,
      by rw [hsn3]; exact h.qcl, h.jd, by rw [hsn0]; exact h.qrc, h.cache, h.inp, (by first | exact h.ton | rfl), (by intro hc; first
        | exact absurd List.mem_cons_self hc
        | exact h.unprep (fun hc' => hc (List.mem_cons_of_mem _ hc'))
        | exact h.unprep hc), (by intro e he; first
        | exact h.ddr e he
        | (rcases List.mem_cons.mp he with rfl | he'
           · rfl
           · exact h.ddr e he'))⟩
    rw [hsn2]
    simp only [List.length_append, List.length_singleton]
    constructor
    · intro hd; have := (h.qp.mp hd).1; exact ⟨by omega, trivial⟩
    · intro hq
      apply Classical.byContradiction
      intro hnd
      exact hfire ⟨hq.1, hnd⟩

/-- **COMMIT of the round.** -/
theorem act2_recv_commit {d : Def} {R : List Nat} {G : Rd} {I : Nat → Nat} {p : Nat} {s : NodeState} {L : List Msg} {tR tP tC : Prop} {a : Nat}
    (o : Oracle) (h : Act2 d G I p s L tR tP tC) (hh : LocHyp d R G L (commitMsg G.ρ G.v a)) :
    (Buffered d s (commitMsg G.ρ G.v a) (step d o s (.recv (commitMsg G.ρ G.v a) .ok)) ∧
      Act2 d G I p (step d o s (.recv (commitMsg G.ρ G.v a) .ok)).1 (L ++ [commitMsg G.ρ G.v a]) tR tP True) ∨
    (Decides d G s (commitMsg G.ρ G.v a) (step d o s (.recv (commitMsg G.ρ G.v a) .ok)) ∧
      Dcd d G p (step d o s (.recv (commitMsg G.ρ G.v a) .ok)).1 ∧
      d.quorum ≤ (srcsOf tCommit G.ρ (L ++ [commitMsg G.ρ G.v a])).length) := by
  have hm := h.mid
  have hbuf : BufIs (bufferMsg d.fifo s.buffer (commitMsg G.ρ G.v a)) (L ++ [commitMsg G.ρ G.v a]) :=
    bufIs_bufferMsg h.buf hh.fifo
  have hnoDec : ∀ x ∈ L ++ [commitMsg G.ρ G.v a], x.core.typ ≠ tDecided := by
    intro x hx
    rcases List.mem_append.mp hx with hx | hx
    · exact h.noDec x hx
    · simp only [List.mem_singleton] at hx; subst hx; simp [commitMsg, tCommit, tDecided]
  have hsn0 : srcsOf tRoundChange G.ρ (L ++ [commitMsg G.ρ G.v a]) = srcsOf tRoundChange G.ρ L := by
    rw [srcsOf_snoc]; simp [commitMsg, tRoundChange, tCommit]
  have hsn1 : srcsOf tPrePrepare G.ρ (L ++ [commitMsg G.ρ G.v a]) = srcsOf tPrePrepare G.ρ L := by
    rw [srcsOf_snoc]; simp [commitMsg, tCommit, tPrePrepare]
  have hsn2 : srcsOf tPrepare G.ρ (L ++ [commitMsg G.ρ G.v a]) = srcsOf tPrepare G.ρ L := by
    rw [srcsOf_snoc]; simp [commitMsg, tPrepare, tCommit]
  have hsn3 : srcsOf tCommit G.ρ (L ++ [commitMsg G.ρ G.v a]) = srcsOf tCommit G.ρ L ++ [a] := by
    rw [srcsOf_snoc]; simp [commitMsg]
  have hcount : (filterByRoundAndValue (flatten o.srcOrd (bufferMsg d.fifo s.buffer (commitMsg G.ρ G.v a)))
      tCommit G.ρ G.v).length = (srcsOf tCommit G.ρ L).length + 1 := by
    unfold filterByRoundAndValue
    rw [count_kind hbuf (hh.nodup _ (by simp)), hsn3]
    · simp
    · intro x hx c hc
      rw [(hh.shape x hx).just_rc (hnoDec x hx) c hc]
      simp [tRoundChange, tCommit]
    · intro x hx h1 h2
      have := (hh.shape x hx).core_eq h2 (hnoDec x hx)
      rw [this, h1]
      exact ⟨rfl, rfl, by simp [tCommit, tRoundChange], by simp, by simp⟩
  have hst := step_commit (d := d) (o := o) (m := commitMsg G.ρ G.v a) hm.dead hm.started hm.qc rfl
    hm.round.symm
  have hcount' : (filterByRoundAndValue (flatten o.srcOrd (bufferMsg d.fifo s.buffer (commitMsg G.ρ G.v a)))
      tCommit (commitMsg G.ρ G.v a).core.round (commitMsg G.ρ G.v a).core.value).length =
      (srcsOf tCommit G.ρ L).length + 1 := hcount
  rw [hcount'] at hst
  by_cases hfire : d.quorum ≤ (srcsOf tCommit G.ρ L).length + 1
  · rw [if_pos ⟨hfire, h.qc⟩] at hst
    right
    refine ⟨⟨uQuorumCommits, filterByRoundAndValue (flatten o.srcOrd
      (bufferMsg d.fifo s.buffer (commitMsg G.ρ G.v a))) tCommit G.ρ G.v, Or.inl rfl, ?_⟩, ?_, ?_⟩
    · rw [hst]
      simp only [hm.round, commitMsg]
    · rw [hst]
      refine ⟨⟨hm.dead, hm.started, ?_, rfl⟩, hm.proc, hm.round, ?_⟩
      · intro hnil
        have h0 : (filterByRoundAndValue (flatten o.srcOrd
          (bufferMsg d.fifo s.buffer (commitMsg G.ρ G.v a))) tCommit G.ρ G.v).length = 0 := by
          simp only at hnil
          have : (filterByRoundAndValue (flatten o.srcOrd
            (bufferMsg d.fifo s.buffer (commitMsg G.ρ G.v a))) tCommit (commitMsg G.ρ G.v a).core.round
            (commitMsg G.ρ G.v a).core.value) = [] := hnil
          rw [show (commitMsg G.ρ G.v a).core.round = G.ρ from rfl,
            show (commitMsg G.ρ G.v a).core.value = G.v from rfl] at this
          rw [this]; rfl
        omega
      · show d.quorum ≤ (filterMsgs (filterByRoundAndValue (flatten o.srcOrd
          (bufferMsg d.fifo s.buffer (commitMsg G.ρ G.v a))) tCommit G.ρ G.v) tCommit G.ρ (some G.v) none none).length
        unfold filterByRoundAndValue
        rw [filterMsgs_idem]
        have := hcount
        unfold filterByRoundAndValue at this
        omega
    · rw [hsn3]; simp; exact hfire
  · rw [if_neg (fun hc => hfire hc.1)] at hst
    left
    refine ⟨hst, ?_⟩
    rw [hst]
    refine ⟨mid_of_eq hm rfl rfl rfl rfl rfl rfl, hbuf, hnoDec, by rw [hsn1]; exact h.jpp,
      by rw [hsn2]; exact h.qp, h.qc, ?_, h.jd, by rw [hsn0]; exact h.qrc, h.cache, h.inp, (by first | exact h.ton | rfl), (by intro hc; first
        | exact absurd List.mem_cons_self hc
        | exact h.unprep (fun hc' => hc (List.mem_cons_of_mem _ hc'))
        | exact h.unprep hc), (by intro e he; first
        | exact h.ddr e he
        | (rcases List.mem_cons.mp he with rfl | he'
           · rfl
           · exact h.ddr e he'))⟩
    rw [hsn3]; simp; omega

/-- **DECIDED for the round** reaching an undecided member: it decides. -/
theorem act2_recv_decided {d : Def} {G : Rd} {I : Nat → Nat} {p : Nat} {s : NodeState} {L : List Msg} {tR tP tC : Prop} {m : Msg}
    (o : Oracle) (hq1 : 1 ≤ d.quorum) (h : Act2 d G I p s L tR tP tC) (hm : IsDecm d G m) :
    Decides d G s m (step d o s (.recv m .ok)) ∧ Dcd d G p (step d o s (.recv m .ok)).1 := by
  have hmid := h.mid
  obtain ⟨ht, hr, hvl, hj⟩ := hm
  have hj' : isJustified d m s.compareFailureRound = some true := by rw [hmid.cfr]; exact hj
  have hlen := isJustified_decided ht hj
  have hcl : classify d o s.round s.proc (bufferMsg d.fifo s.buffer m) m = some (uJustifiedDecided, m.just) := by
    unfold classify
    simp only [ht, if_true]
  have hdd : (uJustifiedDecided, m.core.round) ∉ s.dedup := by rw [hr]; exact h.jd
  have hrj := onRecvJustified_of_classify (cmp := .ok) hcl (by decide) hdd
  rw [onRule_jd] at hrj
  have hd' : onDecide { s with buffer := bufferMsg d.fifo s.buffer m, dedup := (uJustifiedDecided, m.core.round) :: s.dedup } m uJustifiedDecided m.just =
      ({ s with buffer := bufferMsg d.fifo s.buffer m, dedup := (uJustifiedDecided, m.core.round) :: s.dedup, qCommit := m.just, qCommitValue := m.core.value, timerOn := false },
       [.stopTimer, .decide m.core.value m.core.round m.just]) := by
    unfold onDecide changeRound
    simp [hr, hmid.round]
  rw [hd'] at hrj
  have hst := step_recv_undecided (c := .ok) hmid.dead hmid.started hmid.qc hj' (by rw [hrj]; simp [Out.isBug])
  rw [hrj] at hst
  refine ⟨⟨uJustifiedDecided, m.just, Or.inr rfl, ?_⟩, ?_⟩
  · rw [hst]
    simp only [hmid.round, hr, hvl]
  · rw [hst]
    refine ⟨⟨hmid.dead, hmid.started, ?_, hvl⟩, hmid.proc, hmid.round, ?_⟩
    · intro hnil
      simp only at hnil
      rw [hnil] at hlen
      simp [filterMsgs, filterMsgs.go] at hlen
      omega
    · simp only
      rw [← hr, ← hvl]; exact hlen

/-! ### A member that has not entered the round yet, with messages of the round already buffered -/

structure Pend2 (G : Rd) (I : Nat → Nat) (p : Nat) (s : NodeState) (L : List Msg) : Prop where
  rho : 2 ≤ G.ρ
  mid : Mid (G.ρ - 1) p s
  ton : s.timerOn = true
  buf : BufIs s.buffer L
  noDec : ∀ x ∈ L, x.core.typ ≠ tDecided
  noPP : srcsOf tPrePrepare G.ρ L = []
  pr : s.preparedRound = 0
  pv : s.preparedValue = 0
  pj : s.preparedJust = []
  inp : s.inputValue = I p
  ddr : ∀ e ∈ s.dedup, e.2 < G.ρ

/-- everything the F+1 scan returns comes from the scanned list. -/
theorem fplus1_go_pred (d : Def) (round : Nat) (Q : Core → Prop) :
    ∀ (l : List Core) (hi : List (Nat × Core)),
      (∀ e ∈ hi, Q e.2) → (∀ c ∈ l, Q c) →
      ∀ e ∈ getFPlus1RoundChanges.go d round hi l, Q e.2 := by
  intro l
  induction l with
  | nil => intro hi h _ e he; simp only [getFPlus1RoundChanges.go] at he; exact h e he
  | cons m ms ih =>
    intro hi h hl
    have hms : ∀ c ∈ ms, Q c := fun c hc => hl c (List.mem_cons_of_mem _ hc)
    have hup : ∀ e ∈ upsert hi m.src m, Q e.2 := by
      intro e he
      rcases mem_upsert he with he | rfl
      · exact h e he
      · exact hl _ List.mem_cons_self
    unfold getFPlus1RoundChanges.go
    split
    · exact ih hi h hms
    · split
      · exact ih hi h hms
      · split
        · split
          · exact ih hi h hms
          · simp only
            split
            · intro e he; exact hup e he
            · exact ih _ hup hms
        · simp only
          split
          · intro e he; exact hup e he
          · exact ih _ hup hms

theorem getFPlus1_pred {d : Def} {all : List Core} {round : Nat} {frc : List Core} (Q : Core → Prop)
    (h : getFPlus1RoundChanges d all round = some frc) (hall : ∀ c ∈ all, Q c) : ∀ c ∈ frc, Q c := by
  unfold getFPlus1RoundChanges at h
  simp only at h
  split at h
  · cases h
  · simp only [Option.some.injEq] at h
    subst h
    intro c hc
    obtain ⟨e, he, rfl⟩ := List.mem_map.mp hc
    exact fplus1_go_pred d round Q all [] (by simp) hall e he

theorem foldl_min_const (ρ : Nat) : ∀ (ms : List Core), (∀ c ∈ ms, c.round = ρ) →
    ms.foldl (fun acc x => if acc > x.round then x.round else acc) ρ = ρ := by
  intro ms
  induction ms with
  | nil => intro _; rfl
  | cons m ms ih =>
    intro h
    simp only [List.foldl_cons]
    rw [h m List.mem_cons_self, if_neg (by omega)]
    exact ih (fun c hc => h c (List.mem_cons_of_mem _ hc))

/-- if all ROUND-CHANGEs found are for round `ρ`, the F+1 rule jumps to `ρ`. -/
theorem nextMinRound_const {d : Def} {frc : List Core} {round ρ : Nat} (hlen : d.faulty + 1 ≤ frc.length)
    (h : ∀ c ∈ frc, c.typ = tRoundChange ∧ c.round = ρ) (hr : round < ρ) :
    nextMinRound d frc round = some ρ := by
  unfold nextMinRound
  rw [if_neg (by omega), if_neg]
  · cases frc with
    | nil => simp at hlen
    | cons m ms =>
      simp only
      rw [(h m List.mem_cons_self).2, foldl_min_const ρ ms (fun c hc => (h c (List.mem_cons_of_mem _ hc)).2)]
  · simp only [List.any_eq_true, not_exists, not_and]
    intro c hc
    have := h c hc
    simp [this.1, this.2]
    omega

/-- the round timer fires: the member enters the round and announces it; whatever it has buffered
counts from now on, but no threshold has been evaluated yet. -/
theorem pend2_timeout {d : Def} {G : Rd} {I : Nat → Nat} {p : Nat} {s : NodeState} {L : List Msg} (o : Oracle)
    (h : Pend2 G I p s L) :
    step d o s .timeout =
      ({ s with round := G.ρ, dedup := [], ppjCache := none, timerOn := true },
       [.roundChange (G.ρ - 1) G.ρ uRoundTimeout, .stopTimer, .newTimer G.ρ,
        .bcast tRoundChange G.ρ 0 0 0 []]) ∧
    Act2 d G I p (step d o s .timeout).1 L False False False := by
  have hρ := h.rho
  have hst := step_timeout (d := d) (o := o) h.mid.dead h.mid.started h.ton
  have hr : s.round + 1 = G.ρ := by rw [h.mid.round]; omega
  have hst2 : step d o s .timeout =
      ({ s with round := G.ρ, dedup := [], ppjCache := none, timerOn := true },
       [.roundChange (G.ρ - 1) G.ρ uRoundTimeout, .stopTimer, .newTimer G.ρ,
        .bcast tRoundChange G.ρ 0 0 0 []]) := by
    rw [hst, hr, h.pr, h.pv, h.pj, h.mid.round]
  refine ⟨hst2, ?_⟩
  rw [hst2]
  exact ⟨⟨h.mid.dead, h.mid.started, rfl, h.mid.qc, h.mid.cfr, h.mid.proc⟩, h.buf, h.noDec,
    by simp [h.noPP], by simp, by simp, by simp, by simp, by simp, fun _ => rfl, h.inp, rfl,
    fun _ => ⟨h.pr, h.pv, h.pj⟩, by simp⟩

theorem classify_other_round {d : Def} {o : Oracle} {round proc : Nat} {buf : List (Nat × List Msg)}
    {m : Msg} (ht : m.core.typ = tPrepare ∨ m.core.typ = tCommit) (hr : m.core.round ≠ round) :
    classify d o round proc buf m = some (uNothing, []) := by
  unfold classify
  rcases ht with ht | ht <;> simp [ht, hr, tPrepare, tCommit, tDecided, tPrePrepare]

/-- a PREPARE or COMMIT of the round reaching a member that has not entered it: buffered. -/
theorem pend2_recv_buf {d : Def} {R : List Nat} {G : Rd} {I : Nat → Nat} {p : Nat} {s : NodeState}
    {L : List Msg} {m : Msg} (o : Oracle) (h : Pend2 G I p s L) (hh : LocHyp d R G L m)
    (ht : m.core.typ = tPrepare ∨ m.core.typ = tCommit) (hr : m.core.round = G.ρ) :
    Buffered d s m (step d o s (.recv m .ok)) ∧ Pend2 G I p (step d o s (.recv m .ok)).1 (L ++ [m]) := by
  have hρ := h.rho
  have hne : m.core.round ≠ s.round := by rw [hr, h.mid.round]; omega
  have hcl : classify d o s.round s.proc (bufferMsg d.fifo s.buffer m) m = some (uNothing, []) :=
    classify_other_round ht hne
  have hrj := onRecvJustified_nothing (cmp := .ok) hcl
  have hst := step_recv_undecided (c := .ok) h.mid.dead h.mid.started h.mid.qc
    (isJustified_plain d s.compareFailureRound ht) (by rw [hrj]; rfl)
  rw [hrj] at hst
  refine ⟨hst, ?_⟩
  rw [hst]
  have hnd : m.core.typ ≠ tDecided := by rcases ht with ht | ht <;> rw [ht] <;> decide
  have hnp : ¬ (m.core.typ = tPrePrepare ∧ m.core.round = G.ρ) := by
    rintro ⟨h1, _⟩; rcases ht with ht | ht <;> rw [ht] at h1 <;> cases h1
  refine ⟨hρ, mid_of_eq h.mid rfl rfl rfl rfl rfl rfl, h.ton, bufIs_bufferMsg h.buf hh.fifo, ?_, ?_,
    h.pr, h.pv, h.pj, h.inp, h.ddr⟩
  · intro x hx
    rcases List.mem_append.mp hx with hx | hx
    · exact h.noDec x hx
    · simp only [List.mem_singleton] at hx; subst hx; exact hnd
  · rw [srcsOf_snoc, if_neg hnp, h.noPP]; rfl

theorem classify_rc_none {d : Def} {o : Oracle} {round proc : Nat} {buf : List (Nat × List Msg)}
    {m : Msg} (ht : m.core.typ = tRoundChange) (hr : round < m.core.round)
    (hf : getFPlus1RoundChanges d (flatten o.srcOrd buf) round = none) :
    classify d o round proc buf m = some (uNothing, []) := by
  unfold classify
  simp only [ht]
  rw [if_neg (by decide), if_neg (by decide), if_neg (by decide), if_neg (by decide), if_pos trivial,
    if_neg (by omega), if_pos hr, hf]

/-- the member jumps into the round on `f+1` ROUND-CHANGEs and announces the round. -/
def Jumped (d : Def) (G : Rd) (s : NodeState) (m : Msg) (r : NodeState × List Out) : Prop :=
  r = ({ s with buffer := bufferMsg d.fifo s.buffer m, round := G.ρ, dedup := [], ppjCache := none,
                timerOn := true },
       [.rule uFPlus1RoundChanges (G.ρ - 1), .roundChange (G.ρ - 1) G.ρ uFPlus1RoundChanges, .stopTimer,
        .newTimer G.ρ, .bcast tRoundChange G.ρ 0 0 0 []])

/-- **ROUND-CHANGE of the round reaching a member that has not entered it**: buffered, or — with
`f+1` of them — the member enters the round at once (F+1 rule). -/
theorem pend2_recv_rc {d : Def} {R : List Nat} {G : Rd} {I : Nat → Nat} {p : Nat} {s : NodeState}
    {L : List Msg} {a : Nat} (o : Oracle) (h : Pend2 G I p s L) (hh : LocHyp d R G L (rcMsg G.ρ a)) :
    (Buffered d s (rcMsg G.ρ a) (step d o s (.recv (rcMsg G.ρ a) .ok)) ∧
      Pend2 G I p (step d o s (.recv (rcMsg G.ρ a) .ok)).1 (L ++ [rcMsg G.ρ a])) ∨
    (Jumped d G s (rcMsg G.ρ a) (step d o s (.recv (rcMsg G.ρ a) .ok)) ∧
      Act2 d G I p (step d o s (.recv (rcMsg G.ρ a) .ok)).1 (L ++ [rcMsg G.ρ a]) False False False) := by
  have hρ := h.rho
  have hm := h.mid
  have hbuf : BufIs (bufferMsg d.fifo s.buffer (rcMsg G.ρ a)) (L ++ [rcMsg G.ρ a]) :=
    bufIs_bufferMsg h.buf hh.fifo
  have hnoDec : ∀ x ∈ L ++ [rcMsg G.ρ a], x.core.typ ≠ tDecided := by
    intro x hx
    rcases List.mem_append.mp hx with hx | hx
    · exact h.noDec x hx
    · simp only [List.mem_singleton] at hx; subst hx; simp [rcMsg, tRoundChange, tDecided]
  have hnoPP : srcsOf tPrePrepare G.ρ (L ++ [rcMsg G.ρ a]) = [] := by
    rw [srcsOf_snoc, h.noPP]; simp [rcMsg, tRoundChange, tPrePrepare]
  have hj := rcMsg_justified d G.ρ a s.compareFailureRound
  have hlt : s.round < (rcMsg G.ρ a).core.round := by rw [hm.round]; simp [rcMsg]; omega
  cases hf : getFPlus1RoundChanges d (flatten o.srcOrd (bufferMsg d.fifo s.buffer (rcMsg G.ρ a))) s.round with
  | none =>
    left
    have hcl : classify d o s.round s.proc (bufferMsg d.fifo s.buffer (rcMsg G.ρ a)) (rcMsg G.ρ a) =
        some (uNothing, []) := classify_rc_none rfl hlt hf
    have hrj := onRecvJustified_nothing (cmp := .ok) hcl
    have hst := step_recv_undecided (c := .ok) hm.dead hm.started hm.qc hj (by rw [hrj]; rfl)
    rw [hrj] at hst
    refine ⟨hst, ?_⟩
    rw [hst]
    exact ⟨hρ, mid_of_eq hm rfl rfl rfl rfl rfl rfl, h.ton, hbuf, hnoDec, hnoPP, h.pr, h.pv, h.pj, h.inp, h.ddr⟩
  | some frc =>
    right
    have hcl := classify_fplus1 (d := d) (o := o) (proc := s.proc) (m := rcMsg G.ρ a) rfl hlt hf
    have hdd : (uFPlus1RoundChanges, (rcMsg G.ρ a).core.round) ∉ s.dedup := by
      intro hc; have := h.ddr _ hc; simp [rcMsg] at this
    have hrj := onRecvJustified_of_classify (cmp := .ok) hcl (by decide) hdd
    rw [onRule_f1] at hrj
    -- everything found is a ROUND-CHANGE for round ρ
    obtain ⟨hlen, hsound⟩ := getFPlus1_sound hf
    have hle : ∀ c ∈ frc, c.round ≤ G.ρ := by
      apply getFPlus1_pred (fun c => c.round ≤ G.ρ) hf
      intro c hc
      rw [mem_flatten_bufIs hbuf] at hc
      unfold coresOf at hc
      obtain ⟨x, hx, hcx⟩ := List.mem_flatMap.mp hc
      have hsx := hh.shape x hx
      rcases List.mem_cons.mp hcx with h1 | h1
      · rw [h1]
        rcases hsx.typ_cases with ⟨_, hlt'⟩ | ⟨he, _⟩
        · omega
        · omega
      · rw [hsx.just_rc (hnoDec x hx) c h1]; exact Nat.le_refl _
    have hall : ∀ c ∈ frc, c.typ = tRoundChange ∧ c.round = G.ρ := by
      intro c hc
      have := hsound c hc
      have := hle c hc
      rw [hm.round] at *
      exact ⟨(hsound c hc).1, by have := (hsound c hc).2; omega⟩
    have hnm : nextMinRound d frc s.round = some G.ρ :=
      nextMinRound_const hlen hall (by rw [hm.round]; omega)
    have hne : ¬ s.round = G.ρ := by rw [hm.round]; omega
    have hfp : onFPlus1 d { s with buffer := bufferMsg d.fifo s.buffer (rcMsg G.ρ a), dedup := (uFPlus1RoundChanges, (rcMsg G.ρ a).core.round) :: s.dedup } frc =
        ({ s with buffer := bufferMsg d.fifo s.buffer (rcMsg G.ρ a), round := G.ρ, dedup := [], ppjCache := none, timerOn := true },
         [.roundChange s.round G.ρ uFPlus1RoundChanges, .stopTimer, .newTimer G.ρ,
          .bcast tRoundChange G.ρ 0 s.preparedRound s.preparedValue s.preparedJust]) := by
      unfold onFPlus1
      simp only [hnm]
      simp [changeRound, hne, bcastRoundChange]
    rw [hfp] at hrj
    have hst := step_recv_undecided (c := .ok) hm.dead hm.started hm.qc hj (by rw [hrj]; simp [Out.isBug])
    rw [hrj] at hst
    have hst2 : Jumped d G s (rcMsg G.ρ a) (step d o s (.recv (rcMsg G.ρ a) .ok)) := by
      unfold Jumped
      rw [hst, h.pr, h.pv, h.pj, hm.round]
    refine ⟨hst2, ?_⟩
    rw [hst2]
    exact ⟨⟨hm.dead, hm.started, rfl, hm.qc, hm.cfr, hm.proc⟩, hbuf, hnoDec,
      by simp [hnoPP], by simp, by simp, by simp, by simp, by simp, fun _ => rfl, h.inp, rfl,
      fun _ => ⟨h.pr, h.pv, h.pj⟩, by simp⟩

/-- **PRE-PREPARE of the round reaching a member that has not entered it**: the member jumps into the
round (without announcing it), restarts its timer and broadcasts its PREPARE. -/
theorem pend2_recv_pp {d : Def} {R : List Nat} {G : Rd} {I : Nat → Nat} {p : Nat} {s : NodeState}
    {L : List Msg} {m : Msg} (o : Oracle) (h : Pend2 G I p s L) (hh : LocHyp d R G L m) (hm : IsPPm d G m) :
    step d o s (.recv m .ok) =
      ({ s with buffer := bufferMsg d.fifo s.buffer m, round := G.ρ,
                dedup := [(uJustifiedPrePrepare, G.ρ)], ppjCache := none, timerOn := true },
       [.rule uJustifiedPrePrepare (G.ρ - 1), .roundChange (G.ρ - 1) G.ρ uJustifiedPrePrepare, .stopTimer,
        .newTimer G.ρ, .bcast tPrepare G.ρ G.v 0 0 []]) ∧
    Act2 d G I p (step d o s (.recv m .ok)).1 (L ++ [m]) False False False := by
  have hρ := h.rho
  have hmid := h.mid
  have ht : m.core.typ = tPrePrepare := by rw [hm.1]
  have hr : m.core.round = G.ρ := by rw [hm.1]
  have hvl : m.core.value = G.v := by rw [hm.1]
  have hbuf : BufIs (bufferMsg d.fifo s.buffer m) (L ++ [m]) := bufIs_bufferMsg h.buf hh.fifo
  have hnoDec : ∀ x ∈ L ++ [m], x.core.typ ≠ tDecided := by
    intro x hx
    rcases List.mem_append.mp hx with hx | hx
    · exact h.noDec x hx
    · simp only [List.mem_singleton] at hx; subst hx; rw [ht]; decide
  have hj : isJustified d m s.compareFailureRound = some true := by rw [hmid.cfr]; exact hm.2.2
  have hcl : classify d o s.round s.proc (bufferMsg d.fifo s.buffer m) m =
      some (uJustifiedPrePrepare, []) := classify_prePrepare ht (by rw [hr, hmid.round]; omega)
  have hdd : (uJustifiedPrePrepare, m.core.round) ∉ s.dedup := by
    intro hc; have := h.ddr _ hc; rw [hr] at this; simp at this
  have hrj := onRecvJustified_of_classify (cmp := .ok) hcl (by decide) hdd
  rw [onRule_pp] at hrj
  have hne : ¬ s.round = G.ρ := by rw [hmid.round]; omega
  have hpp : onPrePrepare { s with buffer := bufferMsg d.fifo s.buffer m, dedup := (uJustifiedPrePrepare, m.core.round) :: s.dedup } m .ok =
      ({ s with buffer := bufferMsg d.fifo s.buffer m, round := G.ρ, dedup := [(uJustifiedPrePrepare, G.ρ)], ppjCache := none, timerOn := true },
       [.roundChange s.round G.ρ uJustifiedPrePrepare, .stopTimer, .newTimer G.ρ,
        .bcast tPrepare G.ρ G.v 0 0 []]) := by
    unfold onPrePrepare changeRound
    simp [hr, hvl, hne, bcastMsg]
  rw [hpp] at hrj
  have hst := step_recv_undecided (c := .ok) hmid.dead hmid.started hmid.qc hj (by rw [hrj]; simp [Out.isBug])
  rw [hrj] at hst
  have hst2 : step d o s (.recv m .ok) =
      ({ s with buffer := bufferMsg d.fifo s.buffer m, round := G.ρ,
                dedup := [(uJustifiedPrePrepare, G.ρ)], ppjCache := none, timerOn := true },
       [.rule uJustifiedPrePrepare (G.ρ - 1), .roundChange (G.ρ - 1) G.ρ uJustifiedPrePrepare, .stopTimer,
        .newTimer G.ρ, .bcast tPrepare G.ρ G.v 0 0 []]) := by
    rw [hst, hmid.round]
  refine ⟨hst2, ?_⟩
  rw [hst2]
  have hsn1 : srcsOf tPrePrepare G.ρ (L ++ [m]) ≠ [] := by
    rw [srcsOf_snoc, if_pos ⟨ht, hr⟩]; simp
  exact ⟨⟨hmid.dead, hmid.started, rfl, hmid.qc, hmid.cfr, hmid.proc⟩, hbuf, hnoDec,
    by simp [hsn1], by simp [uQuorumPrepares, uJustifiedPrePrepare],
    by simp [uQuorumCommits, uJustifiedPrePrepare], by simp,
    by simp [uJustifiedDecided, uJustifiedPrePrepare], by simp [uQuorumRoundChanges, uJustifiedPrePrepare],
    fun _ => rfl, h.inp, rfl, fun _ => ⟨h.pr, h.pv, h.pj⟩, by simp⟩

/-- **DECIDED of the round reaching a member that has not entered it**: it decides. -/
theorem pend2_recv_decided {d : Def} {G : Rd} {I : Nat → Nat} {p : Nat} {s : NodeState} {L : List Msg}
    {m : Msg} (o : Oracle) (hq1 : 1 ≤ d.quorum) (h : Pend2 G I p s L) (hm : IsDecm d G m) :
    step d o s (.recv m .ok) =
      ({ s with buffer := bufferMsg d.fifo s.buffer m, round := G.ρ, dedup := [], ppjCache := none,
                qCommit := m.just, qCommitValue := G.v, timerOn := false },
       [.rule uJustifiedDecided (G.ρ - 1), .roundChange (G.ρ - 1) G.ρ uJustifiedDecided, .stopTimer,
        .decide G.v G.ρ m.just]) ∧
    Dcd d G p (step d o s (.recv m .ok)).1 := by
  have hρ := h.rho
  have hmid := h.mid
  obtain ⟨ht, hr, hvl, hj⟩ := hm
  have hj' : isJustified d m s.compareFailureRound = some true := by rw [hmid.cfr]; exact hj
  have hlen := isJustified_decided ht hj
  have hcl : classify d o s.round s.proc (bufferMsg d.fifo s.buffer m) m = some (uJustifiedDecided, m.just) := by
    unfold classify
    simp only [ht, if_true]
  have hdd : (uJustifiedDecided, m.core.round) ∉ s.dedup := by
    intro hc; have := h.ddr _ hc; rw [hr] at this; simp at this
  have hrj := onRecvJustified_of_classify (cmp := .ok) hcl (by decide) hdd
  rw [onRule_jd] at hrj
  have hne : ¬ s.round = G.ρ := by rw [hmid.round]; omega
  have hd' : onDecide { s with buffer := bufferMsg d.fifo s.buffer m, dedup := (uJustifiedDecided, m.core.round) :: s.dedup } m uJustifiedDecided m.just =
      ({ s with buffer := bufferMsg d.fifo s.buffer m, round := G.ρ, dedup := [], ppjCache := none, qCommit := m.just, qCommitValue := G.v, timerOn := false },
       [.roundChange s.round G.ρ uJustifiedDecided, .stopTimer, .decide G.v G.ρ m.just]) := by
    unfold onDecide changeRound
    simp [hr, hvl, hne]
  rw [hd'] at hrj
  have hst := step_recv_undecided (c := .ok) hmid.dead hmid.started hmid.qc hj' (by rw [hrj]; simp [Out.isBug])
  rw [hrj] at hst
  have hst2 : step d o s (.recv m .ok) =
      ({ s with buffer := bufferMsg d.fifo s.buffer m, round := G.ρ, dedup := [], ppjCache := none,
                qCommit := m.just, qCommitValue := G.v, timerOn := false },
       [.rule uJustifiedDecided (G.ρ - 1), .roundChange (G.ρ - 1) G.ρ uJustifiedDecided, .stopTimer,
        .decide G.v G.ρ m.just]) := by
    rw [hst, hmid.round]
  refine ⟨hst2, ?_⟩
  rw [hst2]
  refine ⟨⟨hmid.dead, hmid.started, ?_, rfl⟩, hmid.proc, rfl, ?_⟩
  · intro hnil
    simp only at hnil
    rw [hnil] at hlen
    simp [filterMsgs, filterMsgs.go] at hlen
    omega
  · simp only
    rw [← hr, ← hvl]; exact hlen

/-! ### The cluster invariant without the hypothesis "skew ≤ minimal latency" -/

/-- the three message types whose flag flips exactly when the message goes out (a ROUND-CHANGE is not
sent by a member that jumps into the round on a PRE-PREPARE or a DECIDED). -/
def Once3 (K : Nat) : Prop := K = tPrePrepare ∨ K = tPrepare ∨ K = tCommit

structure Fx2 (d : Def) (R : List Nat) (G : Rd) (p : Nat) (s s' : NodeState) (outs : List Out)
    (nxt : Nat) : Prop where
  eff : ∀ K, Once3 K → (if sentB G K s' then 1 else 0) =
    (if sentB G K s then 1 else 0) + (twires p outs).countP (isKind K G.ρ p)
  eff4 : (if sentB G tRoundChange s then 1 else 0) + (twires p outs).countP (isKind tRoundChange G.ρ p) ≤
    (if sentB G tRoundChange s' then 1 else 0)
  shp : ∀ m' ∈ twires p outs, Shape d R G m' ∧ m'.core.src = p ∧ m'.core.round = G.ρ ∧ m'.core.typ = nxt

theorem Fx.to2 {d : Def} {R : List Nat} {G : Rd} {p : Nat} {s s' : NodeState} {outs : List Out} {nxt : Nat}
    (h : Fx d R G p s s' outs nxt) : Fx2 d R G p s s' outs nxt :=
  ⟨fun K hK => h.eff K (by
      rcases hK with h1 | h1 | h1
      · exact Or.inl h1
      · exact Or.inr (Or.inl h1)
      · exact Or.inr (Or.inr (Or.inl h1))),
    Nat.le_of_eq (h.eff tRoundChange (Or.inr (Or.inr (Or.inr rfl)))).symm, h.shp⟩

theorem Fx2.mono {d : Def} {R : List Nat} {G : Rd} {p : Nat} {s s' : NodeState} {outs : List Out} {nxt : Nat}
    (h : Fx2 d R G p s s' outs nxt) {K : Nat} (hK : Once K) (hs : sentB G K s = true) : sentB G K s' = true := by
  cases hs' : sentB G K s' with
  | true => rfl
  | false =>
    rcases hK with rfl | rfl | rfl | rfl
    · have := h.eff _ (Or.inl rfl); rw [hs, hs'] at this; simp at this; omega
    · have := h.eff _ (Or.inr (Or.inl rfl)); rw [hs, hs'] at this; simp at this; omega
    · have := h.eff _ (Or.inr (Or.inr rfl)); rw [hs, hs'] at this; simp at this; omega
    · have := h.eff4; rw [hs, hs'] at this; simp at this

theorem Fx2.same {d : Def} {R : List Nat} {G : Rd} {p : Nat} {s s' : NodeState} {outs : List Out} {nxt : Nat}
    (h : Fx2 d R G p s s' outs nxt) {K : Nat} (hK : Once3 K) (hne : nxt ≠ K) : sentB G K s' = sentB G K s := by
  have h0 : (twires p outs).countP (isKind K G.ρ p) = 0 := by
    rw [List.countP_eq_zero]
    intro m hm
    have := (h.shp m hm).2.2.2
    simp only [isKind, Bool.and_eq_true, beq_iff_eq, not_and]
    intro hc
    exact absurd (this.symm.trans hc.1) hne
  have := h.eff K hK
  rw [h0] at this
  cases h1 : sentB G K s' <;> cases h2 : sentB G K s <;> simp [h1, h2] at this ⊢

theorem Fx2.nsent_le {d : Def} {R : List Nat} {G : Rd} {p : Nat} {s s' : NodeState} {outs : List Out} {nxt : Nat}
    (h : Fx2 d R G p s s' outs nxt) :
    CharonV.Qbft.nsent G s + ((twires p outs).countP (isKind tRoundChange G.ρ p) +
      (twires p outs).countP (isKind tPrePrepare G.ρ p) + (twires p outs).countP (isKind tPrepare G.ρ p) +
      (twires p outs).countP (isKind tCommit G.ρ p)) ≤ CharonV.Qbft.nsent G s' := by
  unfold CharonV.Qbft.nsent
  have e1 := h.eff4
  have e2 := h.eff tPrePrepare (Or.inl rfl)
  have e3 := h.eff tPrepare (Or.inr (Or.inl rfl))
  have e4 := h.eff tCommit (Or.inr (Or.inr rfl))
  omega

/-- the state of one running member while round `G.ρ` is under way (skew-tolerant version). -/
inductive MemInv2 (P : TParams) (G : Rd) (T : Tm) (now p : Nat) (nd : TNode) : Prop where
  | pend (e : Nat) : Pend2 G P.inp p nd.st nd.rcvd → nd.timer = some e → T.E ≤ e → e ≤ T.E + T.σ →
      now ≤ e → (∀ r, G.ρ ≤ r → lookup r nd.firsts = none) → Quiet nd.outs → MemInv2 P G T now p nd
  | act (dl fd : Nat) (tR tP tC : Prop) : Act2 P.d G P.inp p nd.st nd.rcvd tR tP tC →
      (rcMsg G.ρ p ∈ nd.rcvd → tR) → (prepMsg G.ρ G.v p ∈ nd.rcvd → tP) →
      (commitMsg G.ρ G.v p ∈ nd.rcvd → tC) → Quiet nd.outs → T.E ≤ now →
      nd.timer = some dl → T.E' ≤ dl → (srcsOf tPrePrepare G.ρ nd.rcvd = [] → dl ≤ T.E' + T.σ') →
      lookup G.ρ nd.firsts = some fd → T.E' ≤ fd → (∀ r, G.ρ < r → lookup r nd.firsts = none) →
      MemInv2 P G T now p nd
  | dcd : Dcd P.d G p nd.st → nd.timer = none → decidedOnce G.v G.ρ nd.outs = true →
      noFault nd.outs = true → T.E ≤ now → MemInv2 P G T now p nd

structure RInv2 (P : TParams) (G : Rd) (T : Tm) (s : TState) : Prop where
  net_ok : ∀ pk ∈ s.net, pk.dst ∈ P.R ∧ s.now ≤ pk.sent + P.hi ∧ T.E ≤ pk.sent ∧
    pk.msg.core.round = G.ρ ∧
    (pk.msg.core.typ ≠ tDecided → pk.sent ≤ T.E + T.σ + kindIdx pk.msg.core.typ * P.hi)
  perm : ∀ p ∈ P.R, (inflight p s.net ++ (s.node p).rcvd).Perm s.log
  shape : ∀ m ∈ s.log, Shape P.d P.R G m
  counts : ∀ a ∈ P.R, ∀ K, Once3 K →
    s.log.countP (isKind K G.ρ a) = if sentB G K (s.node a).st then 1 else 0
  counts4 : ∀ a ∈ P.R, s.log.countP (isKind tRoundChange G.ρ a) ≤
    if sentB G tRoundChange (s.node a).st then 1 else 0
  /-- a member in the round has announced it, unless it jumped into it when the leader had proposed -/
  rcOrPP : ∀ a ∈ P.R, sentB G tRoundChange (s.node a).st = true →
    s.log.countP (isKind tRoundChange G.ρ a) = 1 ∨ (G.l ∈ P.R ∧ sentB G tPrePrepare (s.node G.l).st = true)
  fb : ∀ a, (s.log.filter (fun m => m.core.src == a && m.core.typ != tDecided)).length ≤
    T.B + (if a ∈ P.R then nsent G (s.node a).st else 0)
  decs : ∀ m ∈ s.log, m.core.typ = tDecided → (s.node m.core.src).st.qCommit ≠ []
  j1 : (∃ p ∈ P.R, (s.node p).st.qCommit ≠ []) →
    P.d.quorum ≤ (P.R.filter (fun a => sentB G tCommit (s.node a).st)).length
  j2 : (∃ a ∈ P.R, sentB G tCommit (s.node a).st = true) →
    P.d.quorum ≤ (P.R.filter (fun a => sentB G tPrepare (s.node a).st)).length
  j3 : (∃ a ∈ P.R, sentB G tPrepare (s.node a).st = true) →
    G.l ∈ P.R ∧ sentB G tPrePrepare (s.node G.l).st = true
  mem : ∀ p ∈ P.R, MemInv2 P G T s.now p (s.node p)
  timers : ∀ p ∈ P.R, ∀ dl, (s.node p).timer = some dl → s.now ≤ dl

/-- **One step of a running member preserves the cluster invariant**, given what the step does
locally (`Fx`, the member's new state, when it happens) and — where a flag flips or the member
decides — the quorum facts read off the log. -/
theorem rinv2_act {P : TParams} {G : Rd} {T : Tm} {s : TState} (hR : P.R.Nodup) (h : RInv2 P G T s)
    {p : Nat} (hp : p ∈ P.R) (o : Oracle) (e : Event) (net0 : List Packet) (rc : List Msg) (nxt : Nat)
    (hnet0 : ∀ pk ∈ net0, pk ∈ s.net)
    (hfl : ∀ q ∈ P.R, (inflight q net0 ++ ((s.node q).rcvd ++ if q = p then rc else [])).Perm
      (inflight q s.net ++ (s.node q).rcvd))
    (hfx : Fx2 P.d P.R G p (s.node p).st (step P.d o (s.node p).st e).1 (step P.d o (s.node p).st e).2 nxt)
    (hmem : MemInv2 P G T s.now p (updNode P s.now (s.node p) (step P.d o (s.node p).st e) rc))
    (htime : twires p (step P.d o (s.node p).st e).2 ≠ [] →
      T.E ≤ s.now ∧ (nxt ≠ tDecided → s.now ≤ T.E + T.σ + kindIdx nxt * P.hi))
    (hdec : nxt = tDecided → twires p (step P.d o (s.node p).st e).2 ≠ [] →
      (step P.d o (s.node p).st e).1.qCommit ≠ [])
    (hstay : (s.node p).st.qCommit ≠ [] → (step P.d o (s.node p).st e).1.qCommit ≠ [])
    (hj1 : (step P.d o (s.node p).st e).1.qCommit ≠ [] → (s.node p).st.qCommit = [] →
      P.d.quorum ≤ (P.R.filter (fun a => sentB G tCommit (s.node a).st)).length)
    (hj2 : sentB G tCommit (step P.d o (s.node p).st e).1 = true → sentB G tCommit (s.node p).st = false →
      P.d.quorum ≤ (P.R.filter (fun a => sentB G tPrepare (s.node a).st)).length)
    (hj3 : sentB G tPrepare (step P.d o (s.node p).st e).1 = true → sentB G tPrepare (s.node p).st = false →
      G.l ∈ P.R ∧ sentB G tPrePrepare (s.node G.l).st = true)
    (hrcp : sentB G tRoundChange (step P.d o (s.node p).st e).1 = true →
      sentB G tRoundChange (s.node p).st = false →
      (twires p (step P.d o (s.node p).st e).2).countP (isKind tRoundChange G.ρ p) = 1 ∨
      (G.l ∈ P.R ∧ sentB G tPrePrepare (s.node G.l).st = true)) :
    RInv2 P G T (actNode P s p o [e] net0 rc) := by
  rw [actNode_one]
  generalize hr : step P.d o (s.node p).st e = r at *
  have hsrc : ∀ m' ∈ twires p r.2, m'.core.src = p := fun m' hm' => (hfx.shp m' hm').2.1
  -- the new node function
  have hnode_p : (fun q => if q = p then updNode P s.now (s.node p) r rc else s.node q) p =
      updNode P s.now (s.node p) r rc := by simp
  have hnode_ne : ∀ q, q ≠ p →
      (fun q => if q = p then updNode P s.now (s.node p) r rc else s.node q) q = s.node q := by
    intro q hq; simp [hq]
  have hst_of : ∀ q, ((fun q => if q = p then updNode P s.now (s.node p) r rc else s.node q) q).st =
      if q = p then r.1 else (s.node q).st := by
    intro q; by_cases hq : q = p <;> simp [hq, updNode]
  -- flags are monotone at every member
  have hmono : ∀ K, Once K → ∀ a, sentB G K (s.node a).st = true →
      sentB G K ((fun q => if q = p then updNode P s.now (s.node p) r rc else s.node q) a).st = true := by
    intro K hK a ha
    rw [hst_of]
    by_cases hap : a = p
    · rw [if_pos hap]; subst hap; exact hfx.mono hK ha
    · rw [if_neg hap]; exact ha
  constructor
  · -- net_ok
    intro pk hpk
    simp only at hpk ⊢
    rcases List.mem_append.mp hpk with hpk | hpk
    · exact h.net_ok pk (hnet0 pk hpk)
    · obtain ⟨h1, h2, h3⟩ := mem_sendAll hpk
      have hne : twires p r.2 ≠ [] := fun hc => by rw [hc] at h2; cases h2
      obtain ⟨t1, t2⟩ := htime hne
      obtain ⟨_, _, s3, s4⟩ := hfx.shp pk.msg h2
      refine ⟨h1, by omega, by omega, s3, ?_⟩
      intro hnd
      rw [s4] at hnd ⊢
      have := t2 hnd
      omega
  · -- perm
    intro q hq
    simp only
    rw [inflight_append, inflight_sendAll hR hq]
    have hrc : ((fun q => if q = p then updNode P s.now (s.node p) r rc else s.node q) q).rcvd =
        (s.node q).rcvd ++ if q = p then rc else [] := by
      by_cases hqp : q = p
      · subst hqp; simp [updNode]
      · simp [hqp]
    rw [hrc]
    have h1 := (hfl q hq).trans (h.perm q hq)
    have h2 : (inflight q net0 ++ twires p r.2 ++ ((s.node q).rcvd ++ if q = p then rc else [])).Perm
        ((inflight q net0 ++ ((s.node q).rcvd ++ if q = p then rc else [])) ++ twires p r.2) := by
      rw [List.append_assoc, List.append_assoc]
      exact List.Perm.append_left _ List.perm_append_comm
    exact h2.trans (List.Perm.append_right _ h1)
  · -- shape
    intro m hm
    rcases List.mem_append.mp hm with hm | hm
    · exact h.shape m hm
    · exact (hfx.shp m hm).1
  · -- counts
    intro a ha K hK
    simp only
    rw [List.countP_append, h.counts a ha K hK, hst_of]
    by_cases hap : a = p
    · subst hap
      rw [if_pos rfl]
      exact (hfx.eff K hK).symm
    · rw [if_neg hap, countP_eq_zero_of_src hsrc hap]
      rfl
  · -- counts4
    intro a ha
    simp only
    rw [List.countP_append, hst_of]
    have h4 := h.counts4 a ha
    by_cases hap : a = p
    · subst hap
      rw [if_pos rfl]
      have := hfx.eff4
      omega
    · rw [if_neg hap, countP_eq_zero_of_src hsrc hap]
      simpa using h4
  · -- rcOrPP
    intro a ha hfl4
    simp only at hfl4 ⊢
    rw [hst_of] at hfl4
    rw [List.countP_append]
    have hmono1 : G.l ∈ P.R ∧ sentB G tPrePrepare (s.node G.l).st = true →
        G.l ∈ P.R ∧ sentB G tPrePrepare
          ((fun q => if q = p then updNode P s.now (s.node p) r rc else s.node q) G.l).st = true :=
      fun hh => ⟨hh.1, hmono tPrePrepare (Or.inl rfl) G.l hh.2⟩
    by_cases hap : a = p
    · subst hap
      rw [if_pos rfl] at hfl4
      cases hold : sentB G tRoundChange (s.node a).st with
      | true =>
        rcases h.rcOrPP a ha hold with h1 | h1
        · left
          have := hfx.eff4
          rw [hold, hfl4] at this
          simp at this
          omega
        · exact Or.inr (hmono1 h1)
      | false =>
        rcases hrcp hfl4 hold with h1 | h1
        · left
          have h4 := h.counts4 a ha
          rw [hold] at h4
          simp only [Bool.false_eq_true, if_false, Nat.le_zero_eq] at h4
          omega
        · exact Or.inr (hmono1 h1)
    · rw [if_neg hap] at hfl4
      rw [countP_eq_zero_of_src hsrc hap]
      rcases h.rcOrPP a ha hfl4 with h1 | h1
      · left; omega
      · exact Or.inr (hmono1 h1)
  · -- fb
    intro a
    simp only
    rw [List.filter_append, List.length_append, hst_of]
    have hb := h.fb a
    by_cases hap : a = p
    · subst hap
      rw [if_pos rfl]
      have hns := hfx.nsent_le
      rw [if_pos hp] at hb ⊢
      have := lenND_le (ms := twires a r.2) (p := a) (ρ := G.ρ) (by
        intro m' hm'
        obtain ⟨s1, s2, s3, _⟩ := hfx.shp m' hm'
        refine ⟨s2, s3, ?_⟩
        rcases s1.typ_cases with ⟨_, hlt⟩ | ⟨_, hc⟩
        · omega
        · exact hc)
      omega
    · rw [if_neg hap, lenND_zero hsrc hap]
      simpa using hb
  · -- decs
    intro m hm ht
    simp only
    rw [hst_of]
    rcases List.mem_append.mp hm with hm | hm
    · have := h.decs m hm ht
      by_cases hmp : m.core.src = p
      · rw [if_pos hmp]; rw [hmp] at this; exact hstay this
      · rw [if_neg hmp]; exact this
    · obtain ⟨_, s2, _, s4⟩ := hfx.shp m hm
      rw [if_pos s2]
      exact hdec (by rw [← s4, ht]) (fun hc => by rw [hc] at hm; cases hm)
  · -- j1
    rintro ⟨q, hq, hqd⟩
    simp only at hqd ⊢
    rw [hst_of] at hqd
    have hold : P.d.quorum ≤ (P.R.filter (fun a => sentB G tCommit (s.node a).st)).length := by
      by_cases hex : ∃ q' ∈ P.R, (s.node q').st.qCommit ≠ []
      · exact h.j1 hex
      · have hnone : ∀ q' ∈ P.R, (s.node q').st.qCommit = [] := by
          intro q' hq'
          apply Classical.byContradiction
          intro hc
          exact hex ⟨q', hq', hc⟩
        by_cases hqp : q = p
        · rw [if_pos hqp] at hqd
          exact hj1 hqd (hnone p hp)
        · rw [if_neg hqp] at hqd
          exact absurd (hnone q hq) hqd
    exact Nat.le_trans hold (filter_length_mono (fun a _ ha => hmono tCommit (Or.inr (Or.inr (Or.inl rfl))) a ha))
  · -- j2
    rintro ⟨q, hq, hqd⟩
    simp only at hqd ⊢
    rw [hst_of] at hqd
    have hold : P.d.quorum ≤ (P.R.filter (fun a => sentB G tPrepare (s.node a).st)).length := by
      by_cases hex : ∃ q' ∈ P.R, sentB G tCommit (s.node q').st = true
      · exact h.j2 hex
      · have hnone : ∀ q' ∈ P.R, sentB G tCommit (s.node q').st = false := by
          intro q' hq'
          cases hc : sentB G tCommit (s.node q').st with
          | false => rfl
          | true => exact absurd ⟨q', hq', hc⟩ hex
        by_cases hqp : q = p
        · rw [if_pos hqp] at hqd
          exact hj2 hqd (hnone p hp)
        · rw [if_neg hqp] at hqd
          rw [hnone q hq] at hqd
          cases hqd
    exact Nat.le_trans hold (filter_length_mono (fun a _ ha => hmono tPrepare (Or.inr (Or.inl rfl)) a ha))
  · -- j3
    rintro ⟨q, hq, hqd⟩
    simp only at hqd ⊢
    rw [hst_of] at hqd
    have hold : G.l ∈ P.R ∧ sentB G tPrePrepare (s.node G.l).st = true := by
      by_cases hex : ∃ q' ∈ P.R, sentB G tPrepare (s.node q').st = true
      · exact h.j3 hex
      · have hnone : ∀ q' ∈ P.R, sentB G tPrepare (s.node q').st = false := by
          intro q' hq'
          cases hc : sentB G tPrepare (s.node q').st with
          | false => rfl
          | true => exact absurd ⟨q', hq', hc⟩ hex
        by_cases hqp : q = p
        · rw [if_pos hqp] at hqd
          exact hj3 hqd (hnone p hp)
        · rw [if_neg hqp] at hqd
          rw [hnone q hq] at hqd
          cases hqd
    exact ⟨hold.1, hmono tPrePrepare (Or.inl rfl) G.l hold.2⟩
  · -- mem
    intro q hq
    simp only
    by_cases hqp : q = p
    · subst hqp; rw [if_pos rfl]; exact hmem
    · rw [if_neg hqp]; exact h.mem q hq
  · -- timers
    intro q hq dl hdl
    simp only at hdl ⊢
    by_cases hqp : q = p
    · subst hqp
      rw [if_pos rfl] at hdl
      exact armAll_ge P.arm s.now r.2 _ (fun x hx => h.timers q hq x hx) dl hdl
    · rw [if_neg hqp] at hdl
      exact h.timers q hq dl hdl

/-- the standing hypotheses of a round — `Hyp` without "skew ≤ minimal latency". -/
structure Hyp2 (P : TParams) (G : Rd) (T : Tm) : Prop where
  nodup : P.R.Nodup
  n1 : 1 ≤ P.d.nodes
  rho : 1 ≤ G.ρ
  lead : P.d.leader G.ρ = G.l
  lv : G.l ∈ P.R → P.inp G.l = G.v ∧ G.v ≠ 0
  ta : ∀ now, T.E ≤ now → now ≤ T.E + T.σ →
    T.E' ≤ P.arm none now G.ρ ∧ P.arm none now G.ρ ≤ T.E' + T.σ'
  tb : ∀ fd now, T.E' ≤ fd → T.E ≤ now → T.E' ≤ P.arm (some fd) now G.ρ
  win : T.E + T.σ ≤ T.E'
  fifo : T.B + 4 ≤ P.d.fifo

theorem mem_log_of_rcvd2 {P : TParams} {G : Rd} {T : Tm} {s : TState} (h : RInv2 P G T s) {p : Nat}
    (hp : p ∈ P.R) {x : Msg} (hx : x ∈ (s.node p).rcvd) : x ∈ s.log :=
  (h.perm p hp).mem_iff.mp (List.mem_append_right _ hx)

theorem mem_log_of_inflight2 {P : TParams} {G : Rd} {T : Tm} {s : TState} (h : RInv2 P G T s) {p : Nat}
    (hp : p ∈ P.R) {x : Msg} (hx : x ∈ inflight p s.net) : x ∈ s.log :=
  (h.perm p hp).mem_iff.mp (List.mem_append_left _ hx)

/-- a once-only message of the round in the log: its sender runs and its flag is set. -/
theorem sent_of_log2 {P : TParams} {G : Rd} {T : Tm} {s : TState} (h : RInv2 P G T s) {x : Msg}
    (hx : x ∈ s.log) (hK : Once x.core.typ) (hr : x.core.round = G.ρ) :
    x.core.src ∈ P.R ∧ sentB G x.core.typ (s.node x.core.src).st = true := by
  have hsrc := (h.shape x hx).src_mem hr
  refine ⟨hsrc, ?_⟩
  have hpos : 0 < s.log.countP (isKind x.core.typ G.ρ x.core.src) :=
    List.countP_pos_iff.mpr ⟨x, hx, by simp [isKind, hr]⟩
  cases hb : sentB G x.core.typ (s.node x.core.src).st with
  | true => rfl
  | false =>
    exfalso
    rcases hK with hK | hK | hK | hK
    · have hc := h.counts x.core.src hsrc x.core.typ (Or.inl hK)
      rw [hb] at hc; simp only [Bool.false_eq_true, if_false] at hc; omega
    · have hc := h.counts x.core.src hsrc x.core.typ (Or.inr (Or.inl hK))
      rw [hb] at hc; simp only [Bool.false_eq_true, if_false] at hc; omega
    · have hc := h.counts x.core.src hsrc x.core.typ (Or.inr (Or.inr hK))
      rw [hb] at hc; simp only [Bool.false_eq_true, if_false] at hc; omega
    · have hc := h.counts4 x.core.src hsrc
      rw [hK] at hb hpos
      rw [hb] at hc; simp only [Bool.false_eq_true, if_false] at hc; omega

/-- what was delivered to `p` plus one message still in flight to it is a sub-multiset of the log. -/
theorem countP_sub2 {P : TParams} {G : Rd} {T : Tm} {s : TState} (h : RInv2 P G T s) {p : Nat}
    (hp : p ∈ P.R) {m : Msg} (hm : m ∈ inflight p s.net) (f : Msg → Bool) :
    ((s.node p).rcvd ++ [m]).countP f ≤ s.log.countP f := by
  have h1 : ((s.node p).rcvd ++ [m]).Perm ([m] ++ (s.node p).rcvd) := List.perm_append_comm
  have h2 : ([m] ++ (s.node p).rcvd).Sublist (inflight p s.net ++ (s.node p).rcvd) :=
    List.Sublist.append_right (List.singleton_sublist.mpr hm) _
  rw [h1.countP_eq, ← (h.perm p hp).countP_eq]
  exact h2.countP_le

/-- the cluster invariant provides `LocHyp` for a non-DECIDED message in flight to an undecided member. -/
theorem locHyp_of2 {P : TParams} {G : Rd} {T : Tm} {s : TState} (hy : Hyp2 P G T) (h : RInv2 P G T s)
    {p : Nat} (hp : p ∈ P.R) (hnd : ∀ x ∈ (s.node p).rcvd, x.core.typ ≠ tDecided)
    {m : Msg} (hm : m ∈ inflight p s.net) (hmt : m.core.typ ≠ tDecided) :
    LocHyp P.d P.R G (s.node p).rcvd m := by
  have hshape : ∀ x ∈ (s.node p).rcvd ++ [m], Shape P.d P.R G x := by
    intro x hx
    rcases List.mem_append.mp hx with hx | hx
    · exact h.shape x (mem_log_of_rcvd2 h hp hx)
    · simp only [List.mem_singleton] at hx; subst hx
      exact h.shape x (mem_log_of_inflight2 h hp hm)
  refine ⟨hshape, ?_, ?_⟩
  · intro K hK
    rw [List.nodup_iff_count]
    intro a
    rw [count_srcsOf]
    have h1 := countP_sub2 h hp hm (isKind K G.ρ a)
    by_cases ha : a ∈ P.R
    · rcases hK with hK | hK | hK | hK
      · have := h.counts a ha K (Or.inl hK); split at this <;> omega
      · have := h.counts a ha K (Or.inr (Or.inl hK)); split at this <;> omega
      · have := h.counts a ha K (Or.inr (Or.inr hK)); split at this <;> omega
      · have := h.counts4 a ha; rw [hK] at h1 ⊢; split at this <;> omega
    · have : s.log.countP (isKind K G.ρ a) = 0 := by
        rw [List.countP_eq_zero]
        intro x hx
        simp only [isKind, Bool.and_eq_true, beq_iff_eq, not_and]
        intro hc hsrc
        exact ha (hsrc ▸ (h.shape x hx).src_mem hc.2)
      omega
  · have hall : ∀ x ∈ (s.node p).rcvd ++ [m], x.core.typ ≠ tDecided := by
      intro x hx
      rcases List.mem_append.mp hx with hx | hx
      · exact hnd x hx
      · simp only [List.mem_singleton] at hx; subst hx; exact hmt
    have heq : ((s.node p).rcvd ++ [m]).filter (fun x => x.core.src == m.core.src) =
        ((s.node p).rcvd ++ [m]).filter (fun x => x.core.src == m.core.src && x.core.typ != tDecided) := by
      apply List.filter_congr
      intro x hx
      have := hall x hx
      simp [this]
    rw [heq, ← List.countP_eq_length_filter]
    have h1 := countP_sub2 h hp hm (fun x => x.core.src == m.core.src && x.core.typ != tDecided)
    have h2 := h.fb m.core.src
    rw [← List.countP_eq_length_filter] at h2
    have h3 : (if m.core.src ∈ P.R then nsent G (s.node m.core.src).st else 0) ≤ 4 := by
      unfold nsent
      split
      · split <;> split <;> split <;> split <;> omega
      · omega
    have := hy.fifo
    omega

/-- a quorum of once-only messages of one type in the log: a quorum of members has the flag set. -/
theorem quorum_of_srcs2 {P : TParams} {G : Rd} {T : Tm} {s : TState} (h : RInv2 P G T s) {L : List Msg}
    (hL : ∀ x ∈ L, x ∈ s.log) {K : Nat} (hK : Once K) (hnd : (srcsOf K G.ρ L).Nodup)
    (hq : P.d.quorum ≤ (srcsOf K G.ρ L).length) :
    P.d.quorum ≤ (P.R.filter (fun a => sentB G K (s.node a).st)).length := by
  refine Nat.le_trans hq (nodup_subset_length _ _ hnd ?_)
  intro a ha
  obtain ⟨x, hx, h1, h2, h3⟩ := mem_srcsOf.mp ha
  have := sent_of_log2 h (hL x hx) (h1 ▸ hK) h2
  rw [h1, h3] at this
  exact List.mem_filter.mpr ⟨this.1, this.2⟩

/-- **Time passes.** -/
theorem rinv2_tick {P : TParams} {G : Rd} {T : Tm} {s : TState} (h : RInv2 P G T s) (dt : Nat)
    (hc : canTick P s dt = true) : RInv2 P G T { s with now := s.now + dt } := by
  unfold canTick at hc
  simp only [Bool.and_eq_true, List.all_eq_true, decide_eq_true_eq] at hc
  obtain ⟨hc1, hc2⟩ := hc
  have htm : ∀ p ∈ P.R, ∀ dl, (s.node p).timer = some dl → s.now + dt ≤ dl := by
    intro p hp dl hdl
    have := hc1 p hp
    rw [hdl] at this
    simpa using this
  refine ⟨?_, h.perm, h.shape, h.counts, h.counts4, h.rcOrPP, h.fb, h.decs, h.j1, h.j2, h.j3, ?_, htm⟩
  · intro pk hpk
    obtain ⟨a1, _, a3, a4, a5⟩ := h.net_ok pk hpk
    exact ⟨a1, hc2 pk hpk, a3, a4, a5⟩
  · intro p hp
    cases h.mem p hp with
    | pend e a1 a2 a3 a4 a5 a6 a7 => exact .pend e a1 a2 a3 a4 (htm p hp e a2) a6 a7
    | act dl fd tR tP tC a1 w1 w2 w3 a2 a3 a4 a5 a6 a7 a8 a9 =>
      exact .act dl fd tR tP tC a1 w1 w2 w3 a2 (Nat.le_trans a3 (Nat.le_add_right _ _)) a4 a5 a6 a7 a8 a9
    | dcd a1 a2 a3 a4 a5 => exact .dcd a1 a2 a3 a4 (Nat.le_trans a5 (Nat.le_add_right _ _))

/-- every running member has been called. -/
theorem started_of_mem2 {P : TParams} {G : Rd} {T : Tm} {now p : Nat} {nd : TNode}
    (h : MemInv2 P G T now p nd) : nd.st.started = true := by
  cases h with
  | pend e a1 => exact a1.mid.started
  | act dl fd tR tP tC a1 => exact a1.mid.started
  | dcd a1 => exact a1.done.started

/-! ### Effects of the steps of a member that has not entered the round -/

theorem fx2_jumped {d : Def} {R : List Nat} {G : Rd} {p : Nat} {s : NodeState} {m : Msg}
    {r : NodeState × List Out} (hρ : 2 ≤ G.ρ) (hm : Mid (G.ρ - 1) p s) (hp : p ∈ R) (h : Jumped d G s m r) :
    Fx2 d R G p s r.1 r.2 tRoundChange := by
  have hne1 : ¬ G.ρ = 1 := by omega
  have hne : (s.round == G.ρ) = false := by rw [hm.round]; simp; omega
  unfold Jumped at h
  rw [h]
  have hw : twires p [Out.rule uFPlus1RoundChanges (G.ρ - 1), Out.roundChange (G.ρ - 1) G.ρ uFPlus1RoundChanges,
      Out.stopTimer, Out.newTimer G.ρ, Out.bcast tRoundChange G.ρ 0 0 0 []] = [rcMsg G.ρ p] := rfl
  refine ⟨?_, ?_, ?_⟩
  · intro K hK
    simp only [hw]
    rcases hK with rfl | rfl | rfl <;>
      simp [sentB, isKind, rcMsg, hne, hne1, tPrePrepare, tPrepare, tCommit, tRoundChange]
  · simp only [hw]
    simp [sentB, isKind, rcMsg, hne, hne1, tRoundChange]
  · intro m' hm'
    rw [hw] at hm'
    simp only [List.mem_singleton] at hm'
    subst hm'
    exact ⟨Shape.rc p hp, rfl, rfl, rfl⟩

theorem fx2_ppjump {d : Def} {R : List Nat} {G : Rd} {p : Nat} {s : NodeState} {m : Msg} (hρ : 2 ≤ G.ρ)
    (hm : Mid (G.ρ - 1) p s) (hp : p ∈ R) :
    Fx2 d R G p s { s with buffer := bufferMsg d.fifo s.buffer m, round := G.ρ,
                           dedup := [(uJustifiedPrePrepare, G.ρ)], ppjCache := none, timerOn := true }
      [.rule uJustifiedPrePrepare (G.ρ - 1), .roundChange (G.ρ - 1) G.ρ uJustifiedPrePrepare, .stopTimer,
        .newTimer G.ρ, .bcast tPrepare G.ρ G.v 0 0 []] tPrepare := by
  have hne1 : ¬ G.ρ = 1 := by omega
  have hne : (s.round == G.ρ) = false := by rw [hm.round]; simp; omega
  have hw : twires p [Out.rule uJustifiedPrePrepare (G.ρ - 1),
      Out.roundChange (G.ρ - 1) G.ρ uJustifiedPrePrepare, Out.stopTimer, Out.newTimer G.ρ,
      Out.bcast tPrepare G.ρ G.v 0 0 []] = [prepMsg G.ρ G.v p] := rfl
  refine ⟨?_, ?_, ?_⟩
  · intro K hK
    simp only [hw]
    rcases hK with rfl | rfl | rfl <;>
      simp [sentB, isKind, prepMsg, hne, hne1, tPrePrepare, tPrepare, tCommit, tRoundChange,
        uJustifiedPrePrepare, uQuorumRoundChanges, uQuorumPrepares]
  · simp only [hw]
    simp [sentB, isKind, prepMsg, hne, hne1, tRoundChange, tPrepare]
  · intro m' hm'
    rw [hw] at hm'
    simp only [List.mem_singleton] at hm'
    subst hm'
    exact ⟨Shape.prep p hp, rfl, rfl, rfl⟩

theorem fx2_penddec {d : Def} {R : List Nat} {G : Rd} {p : Nat} {s : NodeState} {m : Msg} (hρ : 2 ≤ G.ρ)
    (hm : Mid (G.ρ - 1) p s) (nxt : Nat) :
    Fx2 d R G p s { s with buffer := bufferMsg d.fifo s.buffer m, round := G.ρ, dedup := [], ppjCache := none,
                           qCommit := m.just, qCommitValue := G.v, timerOn := false }
      [.rule uJustifiedDecided (G.ρ - 1), .roundChange (G.ρ - 1) G.ρ uJustifiedDecided, .stopTimer,
        .decide G.v G.ρ m.just] nxt := by
  have hne1 : ¬ G.ρ = 1 := by omega
  have hne : (s.round == G.ρ) = false := by rw [hm.round]; simp; omega
  have hw : twires p [Out.rule uJustifiedDecided (G.ρ - 1),
      Out.roundChange (G.ρ - 1) G.ρ uJustifiedDecided, Out.stopTimer, Out.decide G.v G.ρ m.just] = [] := rfl
  refine ⟨?_, ?_, ?_⟩
  · intro K hK
    simp only [hw]
    rcases hK with rfl | rfl | rfl <;>
      simp [sentB, hne, hne1, tPrePrepare, tPrepare, tCommit, tRoundChange]
  · simp only [hw]
    simp [sentB, hne, hne1, tRoundChange]
  · intro m' hm'; rw [hw] at hm'; cases hm'

/-- a member that is not in the round has not been delivered any message of the round of its own. -/
theorem no_own_outside {P : TParams} {G : Rd} {T : Tm} {s : TState} (h : RInv2 P G T s) {p : Nat}
    (hp : p ∈ P.R) (hr : (s.node p).st.round ≠ G.ρ) {x : Msg} (hx : x ∈ (s.node p).rcvd)
    (hK : Once x.core.typ) (hxr : x.core.round = G.ρ) : x.core.src ≠ p := by
  intro hsrc
  have := (sent_of_log2 h (mem_log_of_rcvd2 h hp hx) hK hxr).2
  rw [hsrc] at this
  simp [sentB, hr] at this

/-- **The round timer of a member that has not entered the round yet fires**: it enters. -/
theorem rinv2_fire {P : TParams} {G : Rd} {T : Tm} {s : TState} (hy : Hyp2 P G T) (h : RInv2 P G T s)
    {p : Nat} (hp : p ∈ P.R) (htm : (s.node p).timer = some s.now)
    (hnr : (s.node p).st.round ≠ G.ρ) : RInv2 P G T (actNode P s p {} [.timeout] s.net []) := by
  cases h.mem p hp with
  | act dl fd tR tP tC a1 => exact absurd a1.mid.round hnr
  | dcd a1 a2 => rw [a2] at htm; cases htm
  | pend e a1 a2 a3 a4 a5 a6 a7 =>
    have he : e = s.now := by rw [a2] at htm; exact Option.some.inj htm
    subst he
    obtain ⟨hst, hact⟩ := pend2_timeout (d := P.d) ({} : Oracle) a1
    have hfx : Fx2 P.d P.R G p (s.node p).st (step P.d {} (s.node p).st .timeout).1
        (step P.d {} (s.node p).st .timeout).2 tRoundChange := by
      rw [hst]; exact (fx_enter a1.rho a1.mid hp).to2
    have hta := hy.ta s.now a3 a4
    have hown : ∀ x ∈ (s.node p).rcvd, Once x.core.typ → x.core.round = G.ρ → x.core.src ≠ p :=
      fun x hx => no_own_outside h hp hnr hx
    apply rinv2_act hy.nodup h hp {} .timeout s.net [] tRoundChange (fun _ hpk => hpk)
      (fun q _ => by simp) hfx
    · have hl0 : lookup G.ρ (s.node p).firsts = none := a6 G.ρ (Nat.le_refl _)
      have harm : armAll P.arm s.now ((s.node p).timer, (s.node p).firsts)
          (step P.d {} (s.node p).st .timeout).2 =
          (some (max s.now (P.arm none s.now G.ρ)), (G.ρ, P.arm none s.now G.ρ) :: (s.node p).firsts) := by
        rw [hst]
        simp [armAll, armStep, hl0]
      have hrc : (updNode P s.now (s.node p) (step P.d {} (s.node p).st .timeout) []).rcvd =
          (s.node p).rcvd := by simp [updNode]
      refine .act (max s.now (P.arm none s.now G.ρ)) (P.arm none s.now G.ρ) False False False ?_ ?_ ?_ ?_ ?_
        a3 ?_ ?_ ?_ ?_ hta.1 ?_
      · rw [hrc]; exact hact
      · rw [hrc]; intro hx; exact hown _ hx (Or.inr (Or.inr (Or.inr rfl))) rfl rfl
      · rw [hrc]; intro hx; exact hown _ hx (Or.inr (Or.inl rfl)) rfl rfl
      · rw [hrc]; intro hx; exact hown _ hx (Or.inr (Or.inr (Or.inl rfl))) rfl rfl
      · show Quiet ((s.node p).outs ++ (step P.d {} (s.node p).st .timeout).2)
        rw [hst]; exact Quiet.append a7 ⟨rfl, rfl⟩
      · show (armAll P.arm s.now ((s.node p).timer, (s.node p).firsts) _).1 = _
        rw [harm]
      · have := hta.1; omega
      · intro _
        have := hta.2; have := hy.win; omega
      · show lookup G.ρ (armAll P.arm s.now ((s.node p).timer, (s.node p).firsts) _).2 = _
        rw [harm]; simp [lookup]
      · intro r hr
        show lookup r (armAll P.arm s.now ((s.node p).timer, (s.node p).firsts) _).2 = _
        rw [harm]
        simp only [lookup]
        rw [if_neg (by omega)]
        exact a6 r (by omega)
    · intro _
      exact ⟨a3, fun _ => by simp [kindIdx]; omega⟩
    · intro hc; simp [tRoundChange, tDecided] at hc
    · intro hc; exact absurd a1.mid.qc hc
    · intro hc; exact absurd hact.mid.qc hc
    · intro h1 h2; rw [hfx.same (Or.inr (Or.inr rfl)) (by decide)] at h1; rw [h1] at h2; cases h2
    · intro h1 h2; rw [hfx.same (Or.inr (Or.inl rfl)) (by decide)] at h1; rw [h1] at h2; cases h2
    · intro _ _
      left
      rw [hst]
      have hw : twires p [Out.roundChange (G.ρ - 1) G.ρ uRoundTimeout, Out.stopTimer, Out.newTimer G.ρ,
          Out.bcast tRoundChange G.ρ 0 0 0 []] = [rcMsg G.ρ p] := rfl
      simp only [hw]
      simp [isKind, rcMsg]

/-- as long as the leader has not proposed, no PRE-PREPARE of the round was delivered to anybody. -/
theorem no_pp_of_unsent2 {P : TParams} {G : Rd} {T : Tm} {s : TState} (h : RInv2 P G T s) {p : Nat}
    (hp : p ∈ P.R) (hs : sentB G tPrePrepare (s.node G.l).st = false) :
    srcsOf tPrePrepare G.ρ (s.node p).rcvd = [] := by
  cases hL : srcsOf tPrePrepare G.ρ (s.node p).rcvd with
  | nil => rfl
  | cons b bs =>
    exfalso
    have hb : b ∈ srcsOf tPrePrepare G.ρ (s.node p).rcvd := by rw [hL]; exact List.mem_cons_self
    obtain ⟨x, hx, h1, h2, _⟩ := mem_srcsOf.mp hb
    have hxl := mem_log_of_rcvd2 h hp hx
    have hsx := h.shape x hxl
    have hsrc : x.core.src = G.l := by
      cases hsx with
      | old r a hlt => simp [rcMsg, tRoundChange, tPrePrepare] at h1
      | rc a ha => simp [rcMsg, tRoundChange, tPrePrepare] at h1
      | pp m' hm' _ => rw [hm'.1]
      | prep a ha => simp [prepMsg, tPrepare, tPrePrepare] at h1
      | commit a ha => simp [commitMsg, tCommit, tPrePrepare] at h1
      | dec m' hm' _ => rw [hm'.1] at h1; simp [tDecided, tPrePrepare] at h1
    have := (sent_of_log2 h hxl (by rw [h1]; exact Or.inl rfl) h2).2
    rw [h1, hsrc, hs] at this
    cases this

theorem chain_of_decided2 {P : TParams} {G : Rd} {T : Tm} {s : TState} (hq1 : 1 ≤ P.d.quorum)
    (h : RInv2 P G T s) (hex : ∃ p ∈ P.R, (s.node p).st.qCommit ≠ []) :
    P.d.quorum ≤ (P.R.filter (fun a => sentB G tCommit (s.node a).st)).length ∧
    P.d.quorum ≤ (P.R.filter (fun a => sentB G tPrepare (s.node a).st)).length ∧
    G.l ∈ P.R ∧ sentB G tPrePrepare (s.node G.l).st = true := by
  have h1 := h.j1 hex
  have h2 := h.j2 (filter_pos_exists (Nat.le_trans hq1 h1))
  have h3 := h.j3 (filter_pos_exists (Nat.le_trans hq1 h2))
  exact ⟨h1, h2, h3⟩

/-- membership in the delivered messages after one more delivery of another type. -/
theorem mem_snoc_of_ne {L : List Msg} {m x : Msg} (h : x ∈ L ++ [m]) (hne : x.core.typ ≠ m.core.typ) : x ∈ L := by
  rcases List.mem_append.mp h with h | h
  · exact h
  · simp only [List.mem_singleton] at h; subst h; exact absurd rfl hne

theorem sentB_rc_eq {G : Rd} {s s' : NodeState} (h : s'.round = s.round) :
    sentB G tRoundChange s' = sentB G tRoundChange s := by
  simp [sentB, h]

/-- **A packet is delivered** — also to a member that has not entered the round yet. -/
theorem rinv2_deliver {P : TParams} {G : Rd} {T : Tm} {s : TState} (hy : Hyp2 P G T) (h : RInv2 P G T s)
    {k : Nat} (o : Oracle) {pk : Packet} (hk : s.net[k]? = some pk) (hlo : pk.sent + P.lo < s.now) :
    RInv2 P G T (actNode P s pk.dst o [.recv pk.msg .ok] (s.net.eraseIdx k) [pk.msg]) := by
  have hq1 := quorum_pos P.d hy.n1
  obtain ⟨hpk, hnet0, hflq⟩ := deliver_ctx hk
  obtain ⟨dst, msg, sent⟩ := pk
  simp only at hlo hflq ⊢
  obtain ⟨hdst, hnow, hE, hround, hbound⟩ := h.net_ok _ hpk
  simp only at hdst hnow hE hround hbound
  have hinfl : msg ∈ inflight dst s.net := mem_inflight.mpr ⟨_, hpk, rfl, rfl⟩
  have hlog := mem_log_of_inflight2 h hdst hinfl
  have hshape := h.shape msg hlog
  have hEnow : T.E ≤ s.now := by omega
  have hwin := hy.win
  have hLlog : ∀ x ∈ (s.node dst).rcvd ++ [msg], x ∈ s.log := by
    intro x hx
    rcases List.mem_append.mp hx with hx | hx
    · exact mem_log_of_rcvd2 h hdst hx
    · simp only [List.mem_singleton] at hx; subst hx; exact hlog
  have hrcvd : ∀ r, (updNode P s.now (s.node dst) r [msg]).rcvd = (s.node dst).rcvd ++ [msg] :=
    fun r => rfl
  cases h.mem dst hdst with
  | dcd a1 a2 a3 a4 a5 =>
    obtain ⟨hd', hdd, _, houts⟩ := dcd_recv (d := P.d) o msg a1
    have hfx := (fx_dcd (R := P.R) o msg hdst a1).to2
    have harm : armAll P.arm s.now ((s.node dst).timer, (s.node dst).firsts)
        (step P.d o (s.node dst).st (.recv msg .ok)).2 = ((s.node dst).timer, (s.node dst).firsts) := by
      rcases houts with ho | ⟨_, ho⟩ <;> rw [ho] <;> rfl
    have hquiet : Quiet (step P.d o (s.node dst).st (.recv msg .ok)).2 := by
      rcases houts with ho | ⟨_, ho⟩ <;> rw [ho] <;> exact ⟨rfl, rfl⟩
    have hf4 : sentB G tRoundChange (step P.d o (s.node dst).st (.recv msg .ok)).1 =
        sentB G tRoundChange (s.node dst).st := by
      exact sentB_rc_eq (by rw [hd'.round, a1.round])
    apply rinv2_act hy.nodup h hdst o (.recv msg .ok) (s.net.eraseIdx k) [msg] tDecided hnet0
      (fun q _ => hflq q) hfx
    · refine .dcd hd' ?_ (decidedOnce_append_quiet a3 hquiet) (noFault_append a4 hquiet.1) a5
      show (armAll P.arm s.now ((s.node dst).timer, (s.node dst).firsts) _).1 = none
      rw [harm]; exact a2
    · intro _; exact ⟨a5, fun hc => absurd rfl hc⟩
    · intro _ _; exact hd'.done.qc
    · intro _; exact hd'.done.qc
    · intro _ hc; exact absurd hc a1.done.qc
    · intro h1 h2; rw [hfx.same (Or.inr (Or.inr rfl)) (by decide)] at h1; rw [h1] at h2; cases h2
    · intro h1 h2; rw [hfx.same (Or.inr (Or.inl rfl)) (by decide)] at h1; rw [h1] at h2; cases h2
    · intro h1 h2; rw [hf4, h2] at h1; cases h1
  | pend e a1 a2 a3 a4 a5 a6 a7 =>
    have hρ := a1.rho
    have hnr : (s.node dst).st.round ≠ G.ρ := by rw [a1.mid.round]; omega
    have hf4old : sentB G tRoundChange (s.node dst).st = false := by simp [sentB, hnr]
    have hown : ∀ x ∈ (s.node dst).rcvd, Once x.core.typ → x.core.round = G.ρ → x.core.src ≠ dst :=
      fun x hx => no_own_outside h hdst hnr hx
    -- the message is not the member's own
    have hnotown : Once msg.core.typ → msg.core.src ≠ dst := by
      intro hK hsrc
      have := (sent_of_log2 h hlog hK hround).2
      rw [hsrc] at this
      simp [sentB, hnr] at this
    have hl0 : lookup G.ρ (s.node dst).firsts = none := a6 G.ρ (Nat.le_refl _)
    have hta := hy.ta s.now hEnow (by omega)
    -- entering the round at this instant: timer and table
    have hentry : ∀ (r : NodeState × List Out) (tR tP tC : Prop),
        armAll P.arm s.now ((s.node dst).timer, (s.node dst).firsts) r.2 =
          (some (max s.now (P.arm none s.now G.ρ)), (G.ρ, P.arm none s.now G.ρ) :: (s.node dst).firsts) →
        Act2 P.d G P.inp dst r.1 ((s.node dst).rcvd ++ [msg]) tR tP tC → Quiet r.2 →
        MemInv2 P G T s.now dst (updNode P s.now (s.node dst) r [msg]) := by
      intro r tR tP tC harm hact hq
      refine .act (max s.now (P.arm none s.now G.ρ)) (P.arm none s.now G.ρ) tR tP tC hact ?_ ?_ ?_
        (Quiet.append a7 hq) hEnow ?_ ?_ ?_ ?_ hta.1 ?_
      · intro hx
        exfalso
        rcases List.mem_append.mp hx with hx | hx
        · exact hown _ hx (Or.inr (Or.inr (Or.inr rfl))) rfl rfl
        · simp only [List.mem_singleton] at hx
          exact hnotown (by rw [← hx]; exact Or.inr (Or.inr (Or.inr rfl))) (by rw [← hx]; rfl)
      · intro hx
        exfalso
        rcases List.mem_append.mp hx with hx | hx
        · exact hown _ hx (Or.inr (Or.inl rfl)) rfl rfl
        · simp only [List.mem_singleton] at hx
          exact hnotown (by rw [← hx]; exact Or.inr (Or.inl rfl)) (by rw [← hx]; rfl)
      · intro hx
        exfalso
        rcases List.mem_append.mp hx with hx | hx
        · exact hown _ hx (Or.inr (Or.inr (Or.inl rfl))) rfl rfl
        · simp only [List.mem_singleton] at hx
          exact hnotown (by rw [← hx]; exact Or.inr (Or.inr (Or.inl rfl))) (by rw [← hx]; rfl)
      · show (armAll P.arm s.now ((s.node dst).timer, (s.node dst).firsts) _).1 = _
        rw [harm]
      · have := hta.1; omega
      · intro _; have := hta.2; omega
      · show lookup G.ρ (armAll P.arm s.now ((s.node dst).timer, (s.node dst).firsts) _).2 = _
        rw [harm]; simp [lookup]
      · intro r' hr'
        show lookup r' (armAll P.arm s.now ((s.node dst).timer, (s.node dst).firsts) _).2 = _
        rw [harm]
        simp only [lookup]
        rw [if_neg (by omega)]
        exact a6 r' (by omega)
    -- staying outside the round
    have hstayp : ∀ (nxt : Nat), Buffered P.d (s.node dst).st msg (step P.d o (s.node dst).st (.recv msg .ok)) →
        Pend2 G P.inp dst (step P.d o (s.node dst).st (.recv msg .ok)).1 ((s.node dst).rcvd ++ [msg]) →
        RInv2 P G T (actNode P s dst o [.recv msg .ok] (s.net.eraseIdx k) [msg]) := by
      intro nxt hb hp2
      have hfx : Fx2 P.d P.R G dst (s.node dst).st (step P.d o (s.node dst).st (.recv msg .ok)).1
          (step P.d o (s.node dst).st (.recv msg .ok)).2 nxt := (fx_buffered hb nxt).to2
      have htw : twires dst (step P.d o (s.node dst).st (.recv msg .ok)).2 = [] := by rw [hb]; rfl
      have hsame : ∀ K, sentB G K (step P.d o (s.node dst).st (.recv msg .ok)).1 = sentB G K (s.node dst).st := by
        intro K; rw [hb]; rfl
      apply rinv2_act hy.nodup h hdst o (.recv msg .ok) (s.net.eraseIdx k) [msg] nxt hnet0
        (fun q _ => hflq q) hfx
      · refine .pend e hp2 ?_ a3 a4 a5 ?_ ?_
        · show (armAll P.arm s.now ((s.node dst).timer, (s.node dst).firsts) _).1 = _
          rw [hb]; exact a2
        · intro r hr
          show lookup r (armAll P.arm s.now ((s.node dst).timer, (s.node dst).firsts) _).2 = _
          rw [hb]; exact a6 r hr
        · show Quiet ((s.node dst).outs ++ _)
          rw [hb]; simpa using a7
      · intro hc; exact absurd htw hc
      · intro _ hc; exact absurd htw hc
      · intro hc; exact absurd a1.mid.qc hc
      · intro hc; exact absurd hp2.mid.qc hc
      · intro h1 h2; rw [hsame, h2] at h1; cases h1
      · intro h1 h2; rw [hsame, h2] at h1; cases h1
      · intro h1 h2; rw [hsame, h2] at h1; cases h1
    by_cases hdt : msg.core.typ = tDecided
    · -- a DECIDED: the member decides
      have hm : IsDecm P.d G msg := by
        cases hshape with
        | old r a hlt => simp [rcMsg, tRoundChange, tDecided] at hdt
        | rc a ha => simp [rcMsg, tRoundChange, tDecided] at hdt
        | pp m' hm' _ => rw [hm'.1] at hdt; simp [tPrePrepare, tDecided] at hdt
        | prep a ha => simp [prepMsg, tPrepare, tDecided] at hdt
        | commit a ha => simp [commitMsg, tCommit, tDecided] at hdt
        | dec m' hm' _ => exact hm'
      obtain ⟨hst, hdcd⟩ := pend2_recv_decided (d := P.d) o hq1 a1 hm
      have hchain := chain_of_decided2 hq1 h ⟨msg.core.src, hshape.src_mem hround, h.decs msg hlog hdt⟩
      have hfx : Fx2 P.d P.R G dst (s.node dst).st (step P.d o (s.node dst).st (.recv msg .ok)).1
          (step P.d o (s.node dst).st (.recv msg .ok)).2 tDecided := by
        rw [hst]; exact fx2_penddec hρ a1.mid tDecided
      have htw : twires dst (step P.d o (s.node dst).st (.recv msg .ok)).2 = [] := by rw [hst]; rfl
      apply rinv2_act hy.nodup h hdst o (.recv msg .ok) (s.net.eraseIdx k) [msg] tDecided hnet0
        (fun q _ => hflq q) hfx
      · refine .dcd hdcd ?_ ?_ ?_ hEnow
        · show (armAll P.arm s.now ((s.node dst).timer, (s.node dst).firsts) _).1 = none
          rw [hst]; rfl
        · show decidedOnce G.v G.ρ ((s.node dst).outs ++ _) = true
          rw [hst]
          unfold decidedOnce
          rw [List.filter_append, a7.2]
          simp [List.filter, Out.isDecide]
        · show noFault ((s.node dst).outs ++ _) = true
          rw [hst]; exact noFault_append a7.1 rfl
      · intro hc; exact absurd htw hc
      · intro _ hc; exact absurd htw hc
      · intro _; exact hdcd.done.qc
      · intro _ _; exact hchain.1
      · intro h1 h2; rw [hfx.same (Or.inr (Or.inr rfl)) (by decide)] at h1; rw [h1] at h2; cases h2
      · intro h1 h2; rw [hfx.same (Or.inr (Or.inl rfl)) (by decide)] at h1; rw [h1] at h2; cases h2
      · intro _ _; exact Or.inr hchain.2.2
    · have hloc := locHyp_of2 hy h hdst a1.noDec hinfl hdt
      have hb := hbound hdt
      cases hshape with
      | old r a hlt => simp [rcMsg] at hround; omega
      | dec m' hm' _ => exact absurd hm'.1 hdt
      | prep a ha =>
        have hb2 := pend2_recv_buf (d := P.d) o a1 hloc (Or.inl rfl) rfl
        exact hstayp tCommit hb2.1 hb2.2
      | commit a ha =>
        have hb2 := pend2_recv_buf (d := P.d) o a1 hloc (Or.inr rfl) rfl
        exact hstayp tCommit hb2.1 hb2.2
      | rc a ha =>
        rcases pend2_recv_rc (d := P.d) o a1 hloc with ⟨hb', hp2⟩ | ⟨hj, hact⟩
        · exact hstayp tRoundChange hb' hp2
        · have hfx : Fx2 P.d P.R G dst (s.node dst).st (step P.d o (s.node dst).st (.recv (rcMsg G.ρ a) .ok)).1
              (step P.d o (s.node dst).st (.recv (rcMsg G.ρ a) .ok)).2 tRoundChange :=
            fx2_jumped hρ a1.mid hdst hj
          have hj' := hj
          unfold Jumped at hj'
          apply rinv2_act hy.nodup h hdst o (.recv (rcMsg G.ρ a) .ok) (s.net.eraseIdx k) [rcMsg G.ρ a]
            tRoundChange hnet0 (fun q _ => hflq q) hfx
          · apply hentry _ False False False ?_ hact (by rw [hj']; exact ⟨rfl, rfl⟩)
            rw [hj']
            simp [armAll, armStep, hl0]
          · intro _
            exact ⟨hEnow, fun _ => by simp [kindIdx]; omega⟩
          · intro hc; simp [tRoundChange, tDecided] at hc
          · intro hc; exact absurd a1.mid.qc hc
          · intro hc; exact absurd hact.mid.qc hc
          · intro h1 h2; rw [hfx.same (Or.inr (Or.inr rfl)) (by decide)] at h1; rw [h1] at h2; cases h2
          · intro h1 h2; rw [hfx.same (Or.inr (Or.inl rfl)) (by decide)] at h1; rw [h1] at h2; cases h2
          · intro _ _
            left
            rw [hj']
            have hw : twires dst [Out.rule uFPlus1RoundChanges (G.ρ - 1),
                Out.roundChange (G.ρ - 1) G.ρ uFPlus1RoundChanges, Out.stopTimer, Out.newTimer G.ρ,
                Out.bcast tRoundChange G.ρ 0 0 0 []] = [rcMsg G.ρ dst] := rfl
            simp only [hw]
            simp [isKind, rcMsg]
      | pp m' hm' hlR =>
        obtain ⟨hst, hact⟩ := pend2_recv_pp (d := P.d) o a1 hloc hm'
        have htyp : msg.core.typ = tPrePrepare := by rw [hm'.1]
        have hsrc : msg.core.src = G.l := by rw [hm'.1]
        have hsent := sent_of_log2 h hlog (by rw [htyp]; exact Or.inl rfl) hround
        rw [htyp, hsrc] at hsent
        have hfx : Fx2 P.d P.R G dst (s.node dst).st (step P.d o (s.node dst).st (.recv msg .ok)).1
            (step P.d o (s.node dst).st (.recv msg .ok)).2 tPrepare := by
          rw [hst]; exact fx2_ppjump hρ a1.mid hdst
        apply rinv2_act hy.nodup h hdst o (.recv msg .ok) (s.net.eraseIdx k) [msg] tPrepare hnet0
          (fun q _ => hflq q) hfx
        · apply hentry _ False False False ?_ hact (by rw [hst]; exact ⟨rfl, rfl⟩)
          rw [hst]
          simp [armAll, armStep, hl0]
        · intro _
          refine ⟨hEnow, fun _ => ?_⟩
          rw [htyp] at hb
          simp [kindIdx, tRoundChange, tPrePrepare, tPrepare] at hb ⊢; omega
        · intro hc; simp [tPrepare, tDecided] at hc
        · intro hc; exact absurd a1.mid.qc hc
        · intro hc; exact absurd hact.mid.qc hc
        · intro h1 h2; rw [hfx.same (Or.inr (Or.inr rfl)) (by decide)] at h1; rw [h1] at h2; cases h2
        · intro _ _; exact hsent
        · intro _ _; exact Or.inr hsent
  | act dl fd tR tP tC a1 w1 w2 w3 a2 a3 a4 a5 a6 a7 a8 a9 =>
    -- the member decides (on the quorum of COMMITs or on a DECIDED)
    have hdecide : ∀ (hD : Decides P.d G (s.node dst).st msg (step P.d o (s.node dst).st (.recv msg .ok)))
        (_ : Dcd P.d G dst (step P.d o (s.node dst).st (.recv msg .ok)).1)
        (_ : P.d.quorum ≤ (P.R.filter (fun a => sentB G tCommit (s.node a).st)).length),
        RInv2 P G T (actNode P s dst o [.recv msg .ok] (s.net.eraseIdx k) [msg]) := by
      intro hD hdcd hquo
      have hfx := (fx_decides (R := P.R) (p := dst) hD tDecided).to2
      obtain ⟨rule, J, hrule, hr⟩ := hD
      have htw : twires dst (step P.d o (s.node dst).st (.recv msg .ok)).2 = [] := by rw [hr]; rfl
      have hf4 : sentB G tRoundChange (step P.d o (s.node dst).st (.recv msg .ok)).1 =
          sentB G tRoundChange (s.node dst).st := by
        exact sentB_rc_eq (by rw [hdcd.round, a1.mid.round])
      apply rinv2_act hy.nodup h hdst o (.recv msg .ok) (s.net.eraseIdx k) [msg] tDecided hnet0
        (fun q _ => hflq q) hfx
      · have hdo := decidedOnce_of_quiet (v := G.v) (r := G.ρ) a2 rule J
        refine .dcd hdcd ?_ ?_ ?_ a3
        · show (armAll P.arm s.now ((s.node dst).timer, (s.node dst).firsts) _).1 = none
          rw [hr]; rfl
        · show decidedOnce G.v G.ρ ((s.node dst).outs ++ _) = true
          rw [hr]; exact hdo.1
        · show noFault ((s.node dst).outs ++ _) = true
          rw [hr]; exact hdo.2
      · intro hc; exact absurd htw hc
      · intro _ hc; exact absurd htw hc
      · intro _; exact hdcd.done.qc
      · intro _ _; exact hquo
      · intro h1 h2; rw [hfx.same (Or.inr (Or.inr rfl)) (by decide)] at h1; rw [h1] at h2; cases h2
      · intro h1 h2; rw [hfx.same (Or.inr (Or.inl rfl)) (by decide)] at h1; rw [h1] at h2; cases h2
      · intro h1 h2; rw [hf4, h2] at h1; cases h1
    -- the member stays undecided and does not touch its timer
    have hstay : ∀ (nxt : Nat) (tR' tP' tC' : Prop)
        (hact' : Act2 P.d G P.inp dst (step P.d o (s.node dst).st (.recv msg .ok)).1
          ((s.node dst).rcvd ++ [msg]) tR' tP' tC')
        (_ : rcMsg G.ρ dst ∈ (s.node dst).rcvd ++ [msg] → tR')
        (_ : prepMsg G.ρ G.v dst ∈ (s.node dst).rcvd ++ [msg] → tP')
        (_ : commitMsg G.ρ G.v dst ∈ (s.node dst).rcvd ++ [msg] → tC')
        (hfx : Fx2 P.d P.R G dst (s.node dst).st (step P.d o (s.node dst).st (.recv msg .ok)).1
          (step P.d o (s.node dst).st (.recv msg .ok)).2 nxt)
        (_ : armAll P.arm s.now ((s.node dst).timer, (s.node dst).firsts)
          (step P.d o (s.node dst).st (.recv msg .ok)).2 = ((s.node dst).timer, (s.node dst).firsts))
        (_ : Quiet (step P.d o (s.node dst).st (.recv msg .ok)).2)
        (_ : msg.core.typ ≠ tPrePrepare)
        (_ : nxt ≠ tDecided ∧ (twires dst (step P.d o (s.node dst).st (.recv msg .ok)).2 ≠ [] →
          s.now ≤ T.E + T.σ + kindIdx nxt * P.hi))
        (_ : sentB G tCommit (step P.d o (s.node dst).st (.recv msg .ok)).1 = true →
          sentB G tCommit (s.node dst).st = false →
          P.d.quorum ≤ (P.R.filter (fun a => sentB G tPrepare (s.node a).st)).length)
        (_ : sentB G tPrepare (step P.d o (s.node dst).st (.recv msg .ok)).1 = true →
          sentB G tPrepare (s.node dst).st = false → G.l ∈ P.R ∧ sentB G tPrePrepare (s.node G.l).st = true),
        RInv2 P G T (actNode P s dst o [.recv msg .ok] (s.net.eraseIdx k) [msg]) := by
      intro nxt tR' tP' tC' hact' o1 o2 o3 hfx harm hquiet hnpp hnx hj2 hj3
      have hf4 : sentB G tRoundChange (step P.d o (s.node dst).st (.recv msg .ok)).1 =
          sentB G tRoundChange (s.node dst).st := by
        exact sentB_rc_eq (by rw [hact'.mid.round, a1.mid.round])
      apply rinv2_act hy.nodup h hdst o (.recv msg .ok) (s.net.eraseIdx k) [msg] nxt hnet0
        (fun q _ => hflq q) hfx
      · refine .act dl fd tR' tP' tC' hact' o1 o2 o3 (Quiet.append a2 hquiet) a3 ?_ a5 ?_ ?_ a8 ?_
        · show (armAll P.arm s.now ((s.node dst).timer, (s.node dst).firsts) _).1 = _
          rw [harm]; exact a4
        · intro hnil
          apply a6
          have hnil' : srcsOf tPrePrepare G.ρ ((s.node dst).rcvd ++ [msg]) = [] := hnil
          rw [srcsOf_snoc, if_neg (fun hc => hnpp hc.1)] at hnil'
          simpa using hnil'
        · show lookup G.ρ (armAll P.arm s.now ((s.node dst).timer, (s.node dst).firsts) _).2 = _
          rw [harm]; exact a7
        · intro r hr
          show lookup r (armAll P.arm s.now ((s.node dst).timer, (s.node dst).firsts) _).2 = _
          rw [harm]; exact a9 r hr
      · intro hne; exact ⟨hEnow, fun _ => hnx.2 hne⟩
      · intro hc; exact absurd hc hnx.1
      · intro hc; exact absurd a1.mid.qc hc
      · intro hc; exact absurd hact'.mid.qc hc
      · exact hj2
      · exact hj3
      · intro h1 h2; rw [hf4, h2] at h1; cases h1
    by_cases hdt : msg.core.typ = tDecided
    · have hm : IsDecm P.d G msg := by
        cases hshape with
        | old r a hlt => simp [rcMsg, tRoundChange, tDecided] at hdt
        | rc a ha => simp [rcMsg, tRoundChange, tDecided] at hdt
        | pp m' hm' _ => rw [hm'.1] at hdt; simp [tPrePrepare, tDecided] at hdt
        | prep a ha => simp [prepMsg, tPrepare, tDecided] at hdt
        | commit a ha => simp [commitMsg, tCommit, tDecided] at hdt
        | dec m' hm' _ => exact hm'
      obtain ⟨hD, hdcd⟩ := act2_recv_decided (d := P.d) o hq1 a1 hm
      exact hdecide hD hdcd (h.j1 ⟨msg.core.src, hshape.src_mem hround, h.decs msg hlog hdt⟩)
    · have hloc := locHyp_of2 hy h hdst a1.noDec hinfl hdt
      have hb := hbound hdt
      cases hshape with
      | old r a hlt => simp [rcMsg] at hround; omega
      | dec m' hm' _ => exact absurd hm'.1 hdt
      | rc a ha =>
        have hρ2 : 2 ≤ G.ρ := by
          have h4 := (sent_of_log2 h hlog (Or.inr (Or.inr (Or.inr rfl))) hround).2
          have hne : G.ρ ≠ 1 := by
            intro h1
            simp [sentB, rcMsg, h1] at h4
          have := hy.rho
          omega
        have hnopp : G.l = dst → (uQuorumRoundChanges, G.ρ) ∉ (s.node dst).st.dedup →
            srcsOf tPrePrepare G.ρ (s.node dst).rcvd = [] := by
          intro hl hdd
          apply no_pp_of_unsent2 h hdst
          rw [hl]
          exact sentB_pp_false hρ2 a1.mid.round (by rw [a1.mid.proc, hl]) hdd
        obtain ⟨hact', hout⟩ := act2_recv_rc (d := P.d) o hq1 (fun hlp => hy.lv (hlp ▸ hdst)) hy.lead hρ2 a1 hloc hnopp
        have hfx : Fx2 P.d P.R G dst (s.node dst).st (step P.d o (s.node dst).st (.recv (rcMsg G.ρ a) .ok)).1
            (step P.d o (s.node dst).st (.recv (rcMsg G.ρ a) .ok)).2 tPrePrepare := by
          rcases hout with hb' | hpr
          · exact (fx_buffered hb' _).to2
          · exact (fx_proposed hρ2 a1.mid hdst hpr).to2
        have harm : armAll P.arm s.now ((s.node dst).timer, (s.node dst).firsts)
            (step P.d o (s.node dst).st (.recv (rcMsg G.ρ a) .ok)).2 =
            ((s.node dst).timer, (s.node dst).firsts) := by
          rcases hout with hb' | ⟨_, _, J, hr, _⟩
          · rw [hb']; rfl
          · rw [hr]; rfl
        have hquiet : Quiet (step P.d o (s.node dst).st (.recv (rcMsg G.ρ a) .ok)).2 := by
          rcases hout with hb' | ⟨_, _, J, hr, _⟩
          · rw [hb']; exact ⟨rfl, rfl⟩
          · rw [hr]; exact ⟨rfl, rfl⟩
        refine hstay tPrePrepare True tP tC hact' (fun _ => trivial)
          (fun hx => w2 (mem_snoc_of_ne hx (by simp [prepMsg, rcMsg, tPrepare, tRoundChange])))
          (fun hx => w3 (mem_snoc_of_ne hx (by simp [commitMsg, rcMsg, tCommit, tRoundChange])))
          hfx harm hquiet (by simp [rcMsg, tRoundChange, tPrePrepare])
          ⟨by decide, fun _ => ?_⟩ ?_ ?_
        · simp [kindIdx, rcMsg, tRoundChange, tPrePrepare] at hb ⊢; omega
        · intro h1 h2; rw [hfx.same (Or.inr (Or.inr rfl)) (by decide)] at h1; rw [h1] at h2; cases h2
        · intro h1 h2; rw [hfx.same (Or.inr (Or.inl rfl)) (by decide)] at h1; rw [h1] at h2; cases h2
      | pp m' hm' hlR =>
        obtain ⟨hact', hst, hdd⟩ := act2_recv_pp (d := P.d) o a1 hloc hm'
        have hfx : Fx2 P.d P.R G dst (s.node dst).st (step P.d o (s.node dst).st (.recv msg .ok)).1
            (step P.d o (s.node dst).st (.recv msg .ok)).2 tPrepare := by
          rw [hst]; exact (fx_pp a1.mid hdst hdd).to2
        have htyp : msg.core.typ = tPrePrepare := by rw [hm'.1]
        have hsrc : msg.core.src = G.l := by rw [hm'.1]
        have harm : armAll P.arm s.now ((s.node dst).timer, (s.node dst).firsts)
            (step P.d o (s.node dst).st (.recv msg .ok)).2 =
            (some (max s.now (P.arm (some fd) s.now G.ρ)), (s.node dst).firsts) := by
          rw [hst]
          simp [armAll, armStep, a7]
        have htb := hy.tb fd s.now a8 hEnow
        have hf4 : sentB G tRoundChange (step P.d o (s.node dst).st (.recv msg .ok)).1 =
            sentB G tRoundChange (s.node dst).st := by
          exact sentB_rc_eq (by rw [hact'.mid.round, a1.mid.round])
        apply rinv2_act hy.nodup h hdst o (.recv msg .ok) (s.net.eraseIdx k) [msg] tPrepare hnet0
          (fun q _ => hflq q) hfx
        · refine .act (max s.now (P.arm (some fd) s.now G.ρ)) fd tR tP tC hact' ?_ ?_ ?_ ?_ a3 ?_ (by omega)
            ?_ ?_ a8 ?_
          · intro hx; exact w1 (mem_snoc_of_ne hx (by rw [htyp]; simp [rcMsg, tRoundChange, tPrePrepare]))
          · intro hx; exact w2 (mem_snoc_of_ne hx (by rw [htyp]; simp [prepMsg, tPrepare, tPrePrepare]))
          · intro hx; exact w3 (mem_snoc_of_ne hx (by rw [htyp]; simp [commitMsg, tCommit, tPrePrepare]))
          · show Quiet ((s.node dst).outs ++ _)
            rw [hst]; exact Quiet.append a2 ⟨rfl, rfl⟩
          · show (armAll P.arm s.now ((s.node dst).timer, (s.node dst).firsts) _).1 = _
            rw [harm]
          · intro hnil
            exfalso
            have hnil' : srcsOf tPrePrepare G.ρ ((s.node dst).rcvd ++ [msg]) = [] := hnil
            rw [srcsOf_snoc, if_pos ⟨htyp, hround⟩] at hnil'
            simp at hnil'
          · show lookup G.ρ (armAll P.arm s.now ((s.node dst).timer, (s.node dst).firsts) _).2 = _
            rw [harm]; exact a7
          · intro r hr
            show lookup r (armAll P.arm s.now ((s.node dst).timer, (s.node dst).firsts) _).2 = _
            rw [harm]; exact a9 r hr
        · intro _
          refine ⟨hEnow, fun _ => ?_⟩
          rw [htyp] at hb
          simp [kindIdx, tRoundChange, tPrePrepare, tPrepare] at hb ⊢; omega
        · intro hc; simp [tPrepare, tDecided] at hc
        · intro hc; exact absurd a1.mid.qc hc
        · intro hc; exact absurd hact'.mid.qc hc
        · intro h1 h2; rw [hfx.same (Or.inr (Or.inr rfl)) (by decide)] at h1; rw [h1] at h2; cases h2
        · intro _ _
          have := sent_of_log2 h hlog (by rw [htyp]; exact Or.inl rfl) hround
          rw [htyp, hsrc] at this
          exact this
        · intro h1 h2; rw [hf4, h2] at h1; cases h1
      | prep a ha =>
        obtain ⟨hact', hout⟩ := act2_recv_prepare (d := P.d) o a1 hloc
        have hfx : Fx2 P.d P.R G dst (s.node dst).st (step P.d o (s.node dst).st (.recv (prepMsg G.ρ G.v a) .ok)).1
            (step P.d o (s.node dst).st (.recv (prepMsg G.ρ G.v a) .ok)).2 tCommit := by
          rcases hout with hb' | hpr
          · exact (fx_buffered hb' _).to2
          · exact (fx_prepared a1.mid hdst hpr).to2
        have harm : armAll P.arm s.now ((s.node dst).timer, (s.node dst).firsts)
            (step P.d o (s.node dst).st (.recv (prepMsg G.ρ G.v a) .ok)).2 =
            ((s.node dst).timer, (s.node dst).firsts) := by
          rcases hout with hb' | ⟨_, J, hr⟩
          · rw [hb']; rfl
          · rw [hr]; rfl
        have hquiet : Quiet (step P.d o (s.node dst).st (.recv (prepMsg G.ρ G.v a) .ok)).2 := by
          rcases hout with hb' | ⟨_, J, hr⟩
          · rw [hb']; exact ⟨rfl, rfl⟩
          · rw [hr]; exact ⟨rfl, rfl⟩
        refine hstay tCommit tR True tC hact'
          (fun hx => w1 (mem_snoc_of_ne hx (by simp [prepMsg, rcMsg, tPrepare, tRoundChange])))
          (fun _ => trivial)
          (fun hx => w3 (mem_snoc_of_ne hx (by simp [commitMsg, prepMsg, tCommit, tPrepare])))
          hfx harm hquiet (by simp [prepMsg, tPrepare, tPrePrepare])
          ⟨by decide, fun _ => ?_⟩ ?_ ?_
        · simp [kindIdx, prepMsg, tRoundChange, tPrepare, tCommit] at hb ⊢; omega
        · intro h1 _
          have hq := (hact'.qp.mp (sentB_commit h1)).1
          exact quorum_of_srcs2 h hLlog (Or.inr (Or.inl rfl)) (hloc.nodup _ (Or.inr (Or.inl rfl))) hq
        · intro h1 h2; rw [hfx.same (Or.inr (Or.inl rfl)) (by decide)] at h1; rw [h1] at h2; cases h2
      | commit a ha =>
        rcases act2_recv_commit (d := P.d) o a1 hloc with ⟨hb', hact'⟩ | ⟨hD, hdcd, hquo⟩
        · have hfx : Fx2 P.d P.R G dst (s.node dst).st
              (step P.d o (s.node dst).st (.recv (commitMsg G.ρ G.v a) .ok)).1
              (step P.d o (s.node dst).st (.recv (commitMsg G.ρ G.v a) .ok)).2 tCommit := (fx_buffered hb' _).to2
          refine hstay tCommit tR tP True hact'
            (fun hx => w1 (mem_snoc_of_ne hx (by simp [commitMsg, rcMsg, tCommit, tRoundChange])))
            (fun hx => w2 (mem_snoc_of_ne hx (by simp [commitMsg, prepMsg, tCommit, tPrepare])))
            (fun _ => trivial) hfx (by rw [hb']; rfl) (by rw [hb']; exact ⟨rfl, rfl⟩)
            (by simp [commitMsg, tCommit, tPrePrepare]) ⟨by decide, fun hne => ?_⟩ ?_ ?_
          · exfalso; apply hne; rw [hb']; rfl
          · intro h1 h2
            have : sentB G tCommit (step P.d o (s.node dst).st (.recv (commitMsg G.ρ G.v a) .ok)).1 =
                sentB G tCommit (s.node dst).st := by rw [hb']; rfl
            rw [this, h2] at h1; cases h1
          · intro h1 h2
            have : sentB G tPrepare (step P.d o (s.node dst).st (.recv (commitMsg G.ρ G.v a) .ok)).1 =
                sentB G tPrepare (s.node dst).st := by rw [hb']; rfl
            rw [this, h2] at h1; cases h1
        · exact hdecide hD hdcd
            (quorum_of_srcs2 h hLlog (Or.inr (Or.inr (Or.inl rfl))) (hloc.nodup _ (Or.inr (Or.inr (Or.inl rfl)))) hquo)

/-- **Every enabled action preserves the invariant of the round**, except a round timer firing at
a member that is already in the round (the round is over for that member: `rinv2_next`). -/
theorem rinv2_step {P : TParams} {G : Rd} {T : Tm} {s s' : TState} (hy : Hyp2 P G T) (h : RInv2 P G T s)
    (a : TAct) (hs : tstep P s a = some s')
    (hnf : ∀ p, a = .fire p → (s.node p).st.round ≠ G.ρ) : RInv2 P G T s' := by
  cases a with
  | tick dt =>
    simp only [tstep] at hs
    split at hs
    · rename_i hc
      cases hs
      exact rinv2_tick h dt hc
    · cases hs
  | deliver k o =>
    simp only [tstep] at hs
    split at hs
    · cases hs
    · rename_i pk hk
      split at hs
      · rename_i hlo
        cases hs
        exact rinv2_deliver hy h o hk hlo
      · cases hs
  | fire p =>
    simp only [tstep] at hs
    split at hs
    · rename_i hc
      cases hs
      exact rinv2_fire hy h hc.1 hc.2 (hnf p rfl)
    · cases hs
  | start p =>
    simp only [tstep] at hs
    split at hs
    · rename_i hc
      have := started_of_mem2 (h.mem p hc.1)
      rw [hc.2] at this
      cases this
    · cases hs

/-- **Liveness of a round whose leader runs.** Once more than `σ + 4·hi` have passed since the first
entry into the round, every running member has decided: all packets of the four once-only kinds have
been delivered by then, and the thresholds follow one from the other. -/
theorem live2 {P : TParams} {G : Rd} {T : Tm} {s : TState} (hy : Hyp2 P G T) (hl : G.l ∈ P.R)
    (hquo : P.d.quorum ≤ P.R.length) (h : RInv2 P G T s) (hnow : T.E + T.σ + 4 * P.hi < s.now) :
    ∀ p ∈ P.R, (s.node p).st.qCommit ≠ [] := by
  have hq1 := quorum_pos P.d hy.n1
  -- nobody is pending any more
  have hnp : ∀ p ∈ P.R, (s.node p).st.round = G.ρ := by
    intro p hp
    cases h.mem p hp with
    | pend e a1 a2 a3 a4 a5 => omega
    | act dl fd tR tP tC a1 => exact a1.mid.round
    | dcd a1 => exact a1.round
  -- everything of the four kinds has been delivered
  have hnet : ∀ pk ∈ s.net, pk.msg.core.typ = tDecided := by
    intro pk hpk
    obtain ⟨hdst, h2, h3, h4, h5⟩ := h.net_ok pk hpk
    apply Classical.byContradiction
    intro hnd
    have hb := h5 hnd
    have hsh := h.shape pk.msg (mem_log_of_inflight2 h hdst (mem_inflight.mpr ⟨pk, hpk, rfl, rfl⟩))
    have hk : kindIdx pk.msg.core.typ ≤ 3 := by
      rcases hsh.typ_cases with ⟨_, hlt⟩ | ⟨_, hc | hc | hc | hc | hc⟩
      · omega
      all_goals (first | exact absurd hc hnd | (rw [hc]; decide))
    have : kindIdx pk.msg.core.typ * P.hi ≤ 3 * P.hi := Nat.mul_le_mul_right _ hk
    omega
  have hcnt : ∀ p ∈ P.R, ∀ K, Once K → ∀ a,
      (s.node p).rcvd.countP (isKind K G.ρ a) = s.log.countP (isKind K G.ρ a) := by
    intro p hp K hK a
    rw [← (h.perm p hp).countP_eq, List.countP_append]
    have : (inflight p s.net).countP (isKind K G.ρ a) = 0 := by
      rw [List.countP_eq_zero]
      intro m hm
      obtain ⟨pk, hpk, _, rfl⟩ := mem_inflight.mp hm
      have := hnet pk hpk
      simp only [isKind, Bool.and_eq_true, beq_iff_eq, not_and]
      intro hc
      rw [this] at hc
      rcases hK with rfl | rfl | rfl | rfl <;> simp [tDecided, tPrePrepare, tPrepare, tCommit, tRoundChange] at hc
    omega
  -- an undecided member has received the message of every member whose flag is set
  have hgot : ∀ p ∈ P.R, ∀ K, Once3 K →
      (P.R.filter (fun a => sentB G K (s.node a).st)).length ≤ (srcsOf K G.ρ (s.node p).rcvd).length := by
    intro p hp K hK
    have hKo : Once K := by
      rcases hK with h1 | h1 | h1
      · exact Or.inl h1
      · exact Or.inr (Or.inl h1)
      · exact Or.inr (Or.inr (Or.inl h1))
    apply nodup_subset_length _ _ (hy.nodup.filter _)
    intro a ha
    obtain ⟨haR, hfa⟩ := List.mem_filter.mp ha
    have h1 := h.counts a haR K hK
    rw [hfa] at h1
    have h2 := hcnt p hp K hKo a
    have : 0 < (srcsOf K G.ρ (s.node p).rcvd).count a := by rw [count_srcsOf]; simp at h1; omega
    exact List.count_pos_iff.mp this
  -- a message of the round in the log has reached everybody
  have hdeliv : ∀ p ∈ P.R, ∀ K, Once K → ∀ a, 0 < s.log.countP (isKind K G.ρ a) →
      ∃ x ∈ (s.node p).rcvd, x.core.typ = K ∧ x.core.round = G.ρ ∧ x.core.src = a := by
    intro p hp K hK a hpos
    have h2 := hcnt p hp K hK a
    have : 0 < (srcsOf K G.ρ (s.node p).rcvd).count a := by rw [count_srcsOf]; omega
    exact mem_srcsOf.mp (List.count_pos_iff.mp this)
  -- if all flags of a kind are set at the undecided members, a quorum has them set
  have hflag : ∀ K,
      ((∃ p ∈ P.R, (s.node p).st.qCommit ≠ []) →
        P.d.quorum ≤ (P.R.filter (fun a => sentB G K (s.node a).st)).length) →
      (∀ p ∈ P.R, (s.node p).st.qCommit = [] → sentB G K (s.node p).st = true) →
      P.d.quorum ≤ (P.R.filter (fun a => sentB G K (s.node a).st)).length := by
    intro K hdec hall
    by_cases hex : ∃ p ∈ P.R, (s.node p).st.qCommit ≠ []
    · exact hdec hex
    · have : P.R.filter (fun a => sentB G K (s.node a).st) = P.R := by
        rw [List.filter_eq_self]
        intro a ha
        apply hall a ha
        apply Classical.byContradiction
        intro hc
        exact hex ⟨a, ha, hc⟩
      rw [this]; exact hquo
  apply Classical.byContradiction
  intro hneg
  have hex0 : ∃ p0 ∈ P.R, (s.node p0).st.qCommit = [] := by
    apply Classical.byContradiction
    intro hc
    apply hneg
    intro p hp hq
    exact hc ⟨p, hp, hq⟩
  obtain ⟨p0, hp0, hq0⟩ := hex0
  -- an undecided member is in the `act` state
  have hactOf : ∀ p ∈ P.R, (s.node p).st.qCommit = [] →
      ∃ tR tP tC : Prop, Act2 P.d G P.inp p (s.node p).st (s.node p).rcvd tR tP tC ∧
        (rcMsg G.ρ p ∈ (s.node p).rcvd → tR) ∧ (prepMsg G.ρ G.v p ∈ (s.node p).rcvd → tP) ∧
        (commitMsg G.ρ G.v p ∈ (s.node p).rcvd → tC) := by
    intro p hp hq
    cases h.mem p hp with
    | pend e a1 a2 a3 a4 a5 => omega
    | act dl fd tR tP tC a1 w1 w2 w3 => exact ⟨tR, tP, tC, a1, w1, w2, w3⟩
    | dcd a1 => exact absurd hq a1.done.qc
  -- the leader has proposed
  have hpp : sentB G tPrePrepare (s.node G.l).st = true := by
    by_cases hld : (s.node G.l).st.qCommit = []
    · obtain ⟨tR, tP, tC, ha, w1, _, _⟩ := hactOf G.l hl hld
      by_cases h1 : G.ρ = 1
      · refine (sentB_pp_iff1 h1).mpr ⟨ha.mid.round, ha.mid.proc, ?_⟩
        rw [ha.inp, (hy.lv hl).1]; exact (hy.lv hl).2
      · apply Classical.byContradiction
        intro hnot
        have hnot' : ¬ (G.l ∈ P.R ∧ sentB G tPrePrepare (s.node G.l).st = true) := fun hc => hnot hc.2
        -- everybody has announced the round
        have hall : ∀ a ∈ P.R, s.log.countP (isKind tRoundChange G.ρ a) = 1 := by
          intro a ha'
          rcases h.rcOrPP a ha' (sentB_rc_iff.mpr ⟨hnp a ha', h1⟩) with hc | hc
          · exact hc
          · exact absurd hc hnot'
        have hsub : P.R.length ≤ (srcsOf tRoundChange G.ρ (s.node G.l).rcvd).length := by
          apply nodup_subset_length _ _ hy.nodup
          intro a ha'
          obtain ⟨x, hx, e1, e2, e3⟩ := hdeliv G.l hl tRoundChange (Or.inr (Or.inr (Or.inr rfl))) a
            (by rw [hall a ha']; exact Nat.one_pos)
          exact mem_srcsOf.mpr ⟨x, hx, e1, e2, e3⟩
        have htR : tR := by
          obtain ⟨x, hx, e1, e2, e3⟩ := hdeliv G.l hl tRoundChange (Or.inr (Or.inr (Or.inr rfl))) G.l
            (by rw [hall G.l hl]; exact Nat.one_pos)
          apply w1
          have hsx := h.shape x (mem_log_of_rcvd2 h hl hx)
          have hnd : x.core.typ ≠ tDecided := by rw [e1]; decide
          have hce := hsx.core_eq e2 hnd
          have hjn := hsx.just_nil hnd (by rw [e1]; simp [tRoundChange, tPrePrepare])
          have : x = rcMsg G.ρ G.l := by
            cases x with
            | mk c j =>
              simp only at hce hjn e1 e3
              rw [hce, hjn, e1, e3]
              simp [rcMsg]
          rw [← this]; exact hx
        exact hnot ((sentB_pp_iff h1).mpr ⟨ha.mid.round, ha.mid.proc, ha.qrc.mpr ⟨rfl, by omega, htR⟩⟩)
    · exact (chain_of_decided2 hq1 h ⟨G.l, hl, hld⟩).2.2.2
  -- hence every undecided member has received the PRE-PREPARE and sent its PREPARE
  have hprepAll : ∀ p ∈ P.R, (s.node p).st.qCommit = [] → sentB G tPrepare (s.node p).st = true := by
    intro p hp hq
    obtain ⟨tR, tP, tC, ha, _, _, _⟩ := hactOf p hp hq
    have h1 := h.counts G.l hl tPrePrepare (Or.inl rfl)
    rw [hpp] at h1
    obtain ⟨x, hx, e1, e2, e3⟩ := hdeliv p hp tPrePrepare (Or.inl rfl) G.l (by simp at h1; omega)
    have hne : srcsOf tPrePrepare G.ρ (s.node p).rcvd ≠ [] := by
      intro hc
      have := mem_srcsOf.mpr ⟨x, hx, e1, e2, e3⟩
      rw [hc] at this; cases this
    exact sentB_prep_iff.mpr ⟨ha.mid.round, ha.jpp.mpr hne⟩
  have hprepQ := hflag tPrepare (fun hex => (chain_of_decided2 hq1 h hex).2.1) hprepAll
  -- hence every undecided member has a quorum of PREPAREs, its own among them: it sent its COMMIT
  have hcomAll : ∀ p ∈ P.R, (s.node p).st.qCommit = [] → sentB G tCommit (s.node p).st = true := by
    intro p hp hq
    obtain ⟨tR, tP, tC, ha, _, w2, _⟩ := hactOf p hp hq
    have := hgot p hp tPrepare (Or.inr (Or.inl rfl))
    have h1 := h.counts p hp tPrepare (Or.inr (Or.inl rfl))
    rw [hprepAll p hp hq] at h1
    obtain ⟨x, hx, e1, e2, e3⟩ := hdeliv p hp tPrepare (Or.inr (Or.inl rfl)) p (by simp at h1; omega)
    have htP : tP := by
      apply w2
      have hsx := h.shape x (mem_log_of_rcvd2 h hp hx)
      have hnd : x.core.typ ≠ tDecided := by rw [e1]; decide
      have hce := hsx.core_eq e2 hnd
      have hjn := hsx.just_nil hnd (by rw [e1]; simp [tPrepare, tPrePrepare])
      have : x = prepMsg G.ρ G.v p := by
        cases x with
        | mk c j =>
          simp only at hce hjn e1 e3
          rw [hce, hjn, e1, e3]
          simp [prepMsg, tPrepare, tRoundChange]
      rw [← this]; exact hx
    exact sentB_commit_iff.mpr ⟨ha.mid.round, ha.qp.mpr ⟨by omega, htP⟩⟩
  have hcomQ := hflag tCommit (fun hex => (chain_of_decided2 hq1 h hex).1) hcomAll
  -- hence the undecided member `p0` has a quorum of COMMITs, its own among them: contradiction
  obtain ⟨tR, tP, tC, ha0, _, _, w3⟩ := hactOf p0 hp0 hq0
  have := hgot p0 hp0 tCommit (Or.inr (Or.inr rfl))
  have h1 := h.counts p0 hp0 tCommit (Or.inr (Or.inr rfl))
  rw [hcomAll p0 hp0 hq0] at h1
  obtain ⟨x, hx, e1, e2, e3⟩ := hdeliv p0 hp0 tCommit (Or.inr (Or.inr (Or.inl rfl))) p0 (by simp at h1; omega)
  have htC : tC := by
    apply w3
    have hsx := h.shape x (mem_log_of_rcvd2 h hp0 hx)
    have hnd : x.core.typ ≠ tDecided := by rw [e1]; decide
    have hce := hsx.core_eq e2 hnd
    have hjn := hsx.just_nil hnd (by rw [e1]; simp [tCommit, tPrePrepare])
    have : x = commitMsg G.ρ G.v p0 := by
      cases x with
      | mk c j =>
        simp only at hce hjn e1 e3
        rw [hce, hjn, e1, e3]
        simp [commitMsg, tCommit, tRoundChange]
    rw [← this]; exact hx
  exact ha0.qcl ⟨by omega, htC⟩

/-! ### Start of a round: everybody is about to enter it, nothing is in flight -/

/-- All running members sit in round `G.ρ - 1` with their round timers due at instants in
`[E, E + σ]`; only null ROUND-CHANGEs of earlier rounds were ever sent, and all of them have been
delivered to every running member (`B` bounds their number per source); nobody has decided,
prepared or hit a fault; the timer objects were not asked for round `G.ρ` or later yet. -/
structure Poised2 (P : TParams) (G : Rd) (T : Tm) (s : TState) : Prop where
  net : s.net = []
  now : s.now ≤ T.E
  logR : ∀ p ∈ P.R, (s.node p).rcvd.Perm s.log
  old : ∀ m ∈ s.log, ∃ r a, r < G.ρ ∧ m = rcMsg r a
  fb : ∀ a, (s.log.filter (fun m => m.core.src == a)).length ≤ T.B
  mem : ∀ p ∈ P.R, ∃ e, Pend2 G P.inp p (s.node p).st (s.node p).rcvd ∧ (s.node p).timer = some e ∧
    T.E ≤ e ∧ e ≤ T.E + T.σ ∧ (∀ r, G.ρ ≤ r → lookup r (s.node p).firsts = none) ∧ Quiet (s.node p).outs

/-- what `Poised` says about a member, in the form the skew-tolerant invariant uses. -/
theorem pend2_of_pend {G : Rd} {I : Nat → Nat} {p : Nat} {s : NodeState} {L : List Msg} (h : Pend G I p s L)
    (hdd : ∀ e ∈ s.dedup, e.2 < G.ρ) : Pend2 G I p s L := by
  refine ⟨h.rho, h.mid, h.ton, h.buf, ?_, srcsOf_old h.old _, h.pr, h.pv, h.pj, h.inp, hdd⟩
  intro x hx
  obtain ⟨r, a, _, rfl⟩ := h.old x hx
  simp [rcMsg, tRoundChange, tDecided]

/-- `Poised` (of `Proofs/QbftTimed.lean`) plus: the members' bookkeeping (`dedup`) only has entries of
earlier rounds. -/
theorem poised2_of_poised {P : TParams} {G : Rd} {T : Tm} {s : TState} (h : Poised P G T s)
    (hdd : ∀ p ∈ P.R, ∀ e ∈ (s.node p).st.dedup, e.2 < G.ρ) : Poised2 P G T s := by
  refine ⟨h.net, h.now, h.logR, h.old, h.fb, ?_⟩
  intro p hp
  obtain ⟨e, a1, a2, a3, a4, a5, a6⟩ := h.mem p hp
  exact ⟨e, pend2_of_pend a1 (hdd p hp), a2, a3, a4, a5, a6⟩

theorem poised_rinv2 {P : TParams} {G : Rd} {T : Tm} {s : TState} (h : Poised2 P G T s) :
    RInv2 P G T s := by
  have hround : ∀ p ∈ P.R, (s.node p).st.round ≠ G.ρ := by
    intro p hp
    obtain ⟨e, a1, _⟩ := h.mem p hp
    rw [a1.mid.round]; have := a1.rho; omega
  have hund : ∀ p ∈ P.R, (s.node p).st.qCommit = [] := by
    intro p hp
    obtain ⟨e, a1, _⟩ := h.mem p hp
    exact a1.mid.qc
  refine ⟨by rw [h.net]; simp, ?_, ?_, ?_, ?_, ?_, ?_, ?_, ?_, ?_, ?_, ?_, ?_⟩
  · intro p hp; rw [h.net]; simpa [inflight] using h.logR p hp
  · intro m hm
    obtain ⟨r, a, hr, rfl⟩ := h.old m hm
    exact Shape.old r a hr
  · intro a ha K _
    rw [countP_isKind_old h.old, sentB_false_of_round (hround a ha)]
    rfl
  · intro a ha
    rw [countP_isKind_old h.old]; exact Nat.zero_le _
  · intro a ha hs; rw [sentB_false_of_round (hround a ha)] at hs; cases hs
  · intro a
    have h1 : (s.log.filter (fun m => m.core.src == a && m.core.typ != tDecided)).length ≤
        (s.log.filter (fun m => m.core.src == a)).length := by
      rw [← List.countP_eq_length_filter, ← List.countP_eq_length_filter]
      apply List.countP_mono_left
      intro m _ hm
      simp only [Bool.and_eq_true] at hm
      exact hm.1
    have := h.fb a
    omega
  · intro m hm ht
    obtain ⟨r, a, _, rfl⟩ := h.old m hm
    simp [rcMsg, tRoundChange, tDecided] at ht
  · rintro ⟨p, hp, hq⟩; exact absurd (hund p hp) hq
  · rintro ⟨a, ha, hs⟩; rw [sentB_false_of_round (hround a ha)] at hs; cases hs
  · rintro ⟨a, ha, hs⟩; rw [sentB_false_of_round (hround a ha)] at hs; cases hs
  · intro p hp
    obtain ⟨e, a1, a2, a3, a4, a5, a6⟩ := h.mem p hp
    have := h.now
    exact .pend e a1 a2 a3 a4 (by omega) a5 a6
  · intro p hp dl hdl
    obtain ⟨e, a1, a2, a3, a4, a5, a6⟩ := h.mem p hp
    rw [a2] at hdl
    have := h.now
    cases hdl; omega

/-! ### A round whose leader runs: nobody's round timer fires, everybody decides -/

theorem fire_not_act_good2 {P : TParams} {G : Rd} {T : Tm} {s : TState} (hy : Hyp2 P G T) (hl : G.l ∈ P.R)
    (hquo : P.d.quorum ≤ P.R.length) (hwin : T.E + T.σ + 4 * P.hi < T.E') (h : RInv2 P G T s)
    {p : Nat} (hp : p ∈ P.R) (htm : (s.node p).timer = some s.now) : (s.node p).st.round ≠ G.ρ := by
  cases h.mem p hp with
  | pend e a1 => rw [a1.mid.round]; have := a1.rho; omega
  | dcd a1 a2 => rw [a2] at htm; cases htm
  | act dl fd tR tP tC a1 w1 w2 w3 a2 a3 a4 a5 =>
    exfalso
    rw [a4] at htm
    cases htm
    by_cases hlate : T.E + T.σ + 4 * P.hi < s.now
    · exact live2 hy hl hquo h hlate p hp a1.mid.qc
    · omega

/-- executions of a round whose leader runs stay inside the invariant. -/
theorem good_exec2 {P : TParams} {G : Rd} {T : Tm} (hy : Hyp2 P G T) (hl : G.l ∈ P.R)
    (hquo : P.d.quorum ≤ P.R.length) (hwin : T.E + T.σ + 4 * P.hi < T.E') (acts : List TAct) :
    ∀ {s s' : TState}, RInv2 P G T s → texec P s acts = some s' → RInv2 P G T s' := by
  induction acts with
  | nil => intro s s' h hs; simp only [texec] at hs; cases hs; exact h
  | cons a as ih =>
    intro s s' h hs
    simp only [texec] at hs
    split at hs
    · cases hs
    · rename_i s1 hs1
      apply ih _ hs
      apply rinv2_step hy h a hs1
      intro p hap
      subst hap
      simp only [tstep] at hs1
      split at hs1
      · rename_i hc
        exact fire_not_act_good2 hy hl hquo hwin h hc.1 hc.2
      · cases hs1

/-- what the invariant says about one member, as the property reads. -/
theorem outcome_of_rinv2 {P : TParams} {G : Rd} {T : Tm} {s : TState} (h : RInv2 P G T s) {p : Nat}
    (hp : p ∈ P.R) :
    noFault (s.node p).outs = true ∧ (s.node p).st.dead = false ∧
    ((s.node p).st.qCommit ≠ [] → GoodOutcome G.v G.ρ ((s.node p).st, (s.node p).outs)) ∧
    ((s.node p).st.qCommit = [] → (s.node p).outs.filter Out.isDecide = []) := by
  cases h.mem p hp with
  | pend e a1 a2 a3 a4 a5 a6 a7 =>
    exact ⟨a7.1, a1.mid.dead, fun hc => absurd a1.mid.qc hc, fun _ => a7.2⟩
  | act dl fd tR tP tC a1 w1 w2 w3 a2 =>
    exact ⟨a2.1, a1.mid.dead, fun hc => absurd a1.mid.qc hc, fun _ => a2.2⟩
  | dcd a1 a2 a3 a4 =>
    exact ⟨a4, a1.done.dead, fun _ => ⟨a1.done.dead, a1.done.qc, a1.done.qcv, a3, a4⟩,
      fun hc => absurd hc a1.done.qc⟩

/-! ### A round whose leader is down -/

/-- In a round whose leader does not run nothing but ROUND-CHANGEs is ever sent and nobody decides. -/
theorem silent_facts2 {P : TParams} {G : Rd} {T : Tm} {s : TState} (hy : Hyp2 P G T) (hsil : G.l ∉ P.R)
    (h : RInv2 P G T s) :
    (∀ a ∈ P.R, sentB G tPrePrepare (s.node a).st = false ∧ sentB G tPrepare (s.node a).st = false ∧
      sentB G tCommit (s.node a).st = false ∧ (s.node a).st.qCommit = []) ∧
    (∀ m ∈ s.log, ∃ r a, r < G.ρ + 1 ∧ m = rcMsg r a) := by
  have hq1 := quorum_pos P.d hy.n1
  have f2 : ∀ a ∈ P.R, sentB G tPrepare (s.node a).st = false := by
    intro a ha
    cases hc : sentB G tPrepare (s.node a).st with
    | false => rfl
    | true => exact absurd (h.j3 ⟨a, ha, hc⟩).1 hsil
  have fnil : ∀ (f : Nat → Bool), (∀ a ∈ P.R, f a = false) → (P.R.filter f).length = 0 := by
    intro f hf
    have : P.R.filter f = [] := by
      rw [List.filter_eq_nil_iff]
      intro a ha; rw [hf a ha]; simp
    rw [this]; rfl
  have f3 : ∀ a ∈ P.R, sentB G tCommit (s.node a).st = false := by
    intro a ha
    cases hc : sentB G tCommit (s.node a).st with
    | false => rfl
    | true =>
      have := h.j2 ⟨a, ha, hc⟩
      rw [fnil _ f2] at this
      omega
  have f4 : ∀ a ∈ P.R, (s.node a).st.qCommit = [] := by
    intro a ha
    apply Classical.byContradiction
    intro hc
    have := h.j1 ⟨a, ha, hc⟩
    rw [fnil _ f3] at this
    omega
  have f1 : ∀ a ∈ P.R, sentB G tPrePrepare (s.node a).st = false := by
    intro a ha
    cases hc : sentB G tPrePrepare (s.node a).st with
    | false => rfl
    | true =>
      exfalso
      have hpl := sentB_pp_proc hc
      have hproc : (s.node a).st.proc = a := by
        cases h.mem a ha with
        | pend e a1 => exact a1.mid.proc
        | act dl fd tR tP tC a1 w1 w2 w3 => exact a1.mid.proc
        | dcd a1 => exact a1.proc
      rw [hproc] at hpl
      exact hsil (hpl ▸ ha)
  refine ⟨fun a ha => ⟨f1 a ha, f2 a ha, f3 a ha, f4 a ha⟩, ?_⟩
  intro m hm
  have hsh := h.shape m hm
  cases hsh with
  | old r a hlt => exact ⟨r, a, by omega, rfl⟩
  | rc a ha => exact ⟨G.ρ, a, by omega, rfl⟩
  | pp m' hm' hlR => exact absurd hlR hsil
  | prep a ha =>
    have := (sent_of_log2 h hm (Or.inr (Or.inl rfl)) rfl).2
    rw [show (prepMsg G.ρ G.v a).core.typ = tPrepare from rfl,
      show (prepMsg G.ρ G.v a).core.src = a from rfl, f2 a ha] at this
    cases this
  | commit a ha =>
    have := (sent_of_log2 h hm (Or.inr (Or.inr (Or.inl rfl))) rfl).2
    rw [show (commitMsg G.ρ G.v a).core.typ = tCommit from rfl,
      show (commitMsg G.ρ G.v a).core.src = a from rfl, f3 a ha] at this
    cases this
  | dec m' hm' hsrc => exact absurd (f4 _ hsrc) (h.decs m hm hm'.1)

/-- **End of a silent round.** Once more than `σ + hi` have passed since the first entry into a round
whose leader is down, the cluster is poised for the next round: all ROUND-CHANGEs have been delivered,
every running member sits in the round with its timer due in `[E', E' + σ']`. -/
theorem rinv_next2 {P : TParams} {G : Rd} {T : Tm} {s : TState} (hy : Hyp2 P G T) (hsil : G.l ∉ P.R)
    (h : RInv2 P G T s) (hnow : T.E + T.σ + P.hi < s.now)
    {G' : Rd} (hG' : G'.ρ = G.ρ + 1) {T' : Tm} (hE : T'.E = T.E') (hσ : T'.σ = T.σ')
    (hB : T'.B = T.B + 1) : RInv2 P G' T' s := by
  obtain ⟨hf, hlog⟩ := silent_facts2 hy hsil h
  have hlog' : ∀ m ∈ s.log, ∃ r a, r < G'.ρ ∧ m = rcMsg r a := by rw [hG']; exact hlog
  -- nothing is in flight any more
  have hnet : s.net = [] := by
    cases hn : s.net with
    | nil => rfl
    | cons pk rest =>
      exfalso
      have hpk : pk ∈ s.net := by rw [hn]; exact List.mem_cons_self
      obtain ⟨hdst, h2, h3, h4, h5⟩ := h.net_ok pk hpk
      obtain ⟨r, a, _, hm⟩ := hlog pk.msg (mem_log_of_inflight2 h hdst (mem_inflight.mpr ⟨pk, hpk, rfl, rfl⟩))
      have := h5 (by rw [hm]; simp [rcMsg, tRoundChange, tDecided])
      rw [hm] at this
      simp [kindIdx, rcMsg] at this
      omega
  have hround : ∀ p ∈ P.R, (s.node p).st.round ≠ G'.ρ := by
    intro p hp
    cases h.mem p hp with
    | pend e a1 a2 a3 a4 a5 => omega
    | act dl fd tR tP tC a1 w1 w2 w3 => rw [a1.mid.round, hG']; omega
    | dcd a1 => rw [a1.round, hG']; omega
  refine ⟨by rw [hnet]; simp, h.perm, ?_, ?_, ?_, ?_, ?_, ?_, ?_, ?_, ?_, ?_, h.timers⟩
  · intro m hm
    obtain ⟨r, a, hr, rfl⟩ := hlog' m hm
    exact Shape.old r a hr
  · intro a ha K _
    rw [countP_isKind_old hlog', sentB_false_of_round (hround a ha)]
    rfl
  · intro a ha
    rw [countP_isKind_old hlog']; exact Nat.zero_le _
  · intro a ha hs; rw [sentB_false_of_round (hround a ha)] at hs; cases hs
  · intro a
    have hb := h.fb a
    have : (if a ∈ P.R then nsent G (s.node a).st else 0) ≤ 1 := by
      split
      · rename_i ha
        obtain ⟨g1, g2, g3, _⟩ := hf a ha
        unfold nsent
        rw [g1, g2, g3]
        split <;> simp
      · omega
    omega
  · intro m hm ht
    obtain ⟨r, a, _, rfl⟩ := hlog m hm
    simp [rcMsg, tRoundChange, tDecided] at ht
  · rintro ⟨p, hp, hq⟩; exact absurd (hf p hp).2.2.2 hq
  · rintro ⟨a, ha, hs⟩; rw [sentB_false_of_round (hround a ha)] at hs; cases hs
  · rintro ⟨a, ha, hs⟩; rw [sentB_false_of_round (hround a ha)] at hs; cases hs
  · intro p hp
    cases h.mem p hp with
    | pend e a1 a2 a3 a4 a5 => omega
    | dcd a1 => exact absurd (hf p hp).2.2.2 a1.done.qc
    | act dl fd tR tP tC a1 w1 w2 w3 a2 a3 a4 a5 a6 a7 a8 a9 =>
      have hnoqp : (uQuorumPrepares, G.ρ) ∉ (s.node p).st.dedup := by
        intro hc
        have := sentB_commit_iff.mpr ⟨a1.mid.round, hc⟩
        rw [(hf p hp).2.2.1] at this
        cases this
      obtain ⟨u1, u2, u3⟩ := a1.unprep hnoqp
      have hold : ∀ x ∈ (s.node p).rcvd, ∃ r a, r < G'.ρ ∧ x = rcMsg r a :=
        fun x hx => hlog' x (mem_log_of_rcvd2 h hp hx)
      have hnopp : srcsOf tPrePrepare G.ρ (s.node p).rcvd = [] := by
        unfold srcsOf
        rw [List.map_eq_nil_iff, List.filter_eq_nil_iff]
        intro x hx
        obtain ⟨r, a, _, rfl⟩ := hold x hx
        simp [rcMsg, tRoundChange, tPrePrepare]
      have hnoPP' : srcsOf tPrePrepare G'.ρ (s.node p).rcvd = [] := srcsOf_old hold _
      refine .pend dl ⟨by rw [hG']; have := hy.rho; omega, by rw [hG']; exact a1.mid, a1.ton, a1.buf, a1.noDec,
          hnoPP', u1, u2, u3, a1.inp, fun e he => by rw [a1.ddr e he, hG']; omega⟩ a4
        (by rw [hE]; exact a5) (by rw [hE, hσ]; exact a6 hnopp) (h.timers p hp dl a4) ?_ a2
      intro r hr
      exact a9 r (by rw [hG'] at hr; omega)

/-- a round timer armed in the round cannot fire before `E'`. -/
theorem fire_not_act_early2 {P : TParams} {G : Rd} {T : Tm} {s : TState}
    (h : RInv2 P G T s) (hearly : s.now < T.E') {p : Nat} (hp : p ∈ P.R)
    (htm : (s.node p).timer = some s.now) : (s.node p).st.round ≠ G.ρ := by
  cases h.mem p hp with
  | pend e a1 => rw [a1.mid.round]; have := a1.rho; omega
  | dcd a1 a2 => rw [a2] at htm; cases htm
  | act dl fd tR tP tC a1 w1 w2 w3 a2 a3 a4 a5 =>
    rw [a4] at htm
    cases htm
    omega

/-- executions that end before `E'` stay inside the invariant of the round. -/
theorem early_exec2 {P : TParams} {G : Rd} {T : Tm} (hy : Hyp2 P G T) (acts : List TAct) :
    ∀ {s s' : TState}, RInv2 P G T s → texec P s acts = some s' → s'.now < T.E' → RInv2 P G T s' := by
  induction acts with
  | nil => intro s s' h hs _; simp only [texec] at hs; cases hs; exact h
  | cons a as ih =>
    intro s s' h hs hearly
    simp only [texec] at hs
    split at hs
    · cases hs
    · rename_i s1 hs1
      apply ih _ hs hearly
      apply rinv2_step hy h a hs1
      intro p hap
      subst hap
      have h1 := tstep_now_mono hs1
      have h2 := texec_now_mono as hs
      simp only [tstep] at hs1
      split at hs1
      · rename_i hc
        exact fire_not_act_early2 h (by omega) hc.1 hc.2
      · cases hs1

/-- the end of a silent round is the start of the next one. -/
theorem poised_next2 {P : TParams} {G : Rd} {T : Tm} {s : TState} (hy : Hyp2 P G T) (hsil : G.l ∉ P.R)
    (h : RInv2 P G T s) (hnow : T.E + T.σ + P.hi < s.now) (hearly : s.now ≤ T.E')
    {G' : Rd} (hG' : G'.ρ = G.ρ + 1) {T' : Tm} (hE : T'.E = T.E') (hσ : T'.σ = T.σ')
    (hB : T'.B = T.B + 1) : Poised2 P G' T' s := by
  have hn := rinv_next2 hy hsil h hnow hG' hE hσ hB
  obtain ⟨hf, hlog⟩ := silent_facts2 hy hsil h
  have hnet : s.net = [] := by
    cases hnn : s.net with
    | nil => rfl
    | cons pk rest =>
      exfalso
      have hpk : pk ∈ s.net := by rw [hnn]; exact List.mem_cons_self
      obtain ⟨_, h2, h3, _, _⟩ := hn.net_ok pk hpk
      obtain ⟨_, g2, g3, _, _⟩ := h.net_ok pk hpk
      have hw := hy.win
      -- `hn.net_ok` dates the packet after `E'`, `h.net_ok` says it is overdue
      obtain ⟨hdst, _, _, _, h5⟩ := h.net_ok pk hpk
      obtain ⟨r, a, _, hm⟩ := hlog pk.msg (mem_log_of_inflight2 h hdst (mem_inflight.mpr ⟨pk, hpk, rfl, rfl⟩))
      have := h5 (by rw [hm]; simp [rcMsg, tRoundChange, tDecided])
      rw [hm] at this
      simp [kindIdx, rcMsg] at this
      omega
  refine ⟨hnet, by rw [hE]; exact hearly, ?_, by rw [hG']; exact hlog, ?_, ?_⟩
  · intro p hp
    have := h.perm p hp
    rw [hnet] at this
    simpa [inflight] using this
  · intro a
    have hb := hn.fb a
    have hz : (if a ∈ P.R then nsent G' (s.node a).st else 0) = 0 := by
      split
      · rename_i ha
        have hr : (s.node a).st.round ≠ G'.ρ := by
          cases h.mem a ha with
          | pend e a1 a2 a3 a4 a5 => omega
          | act dl fd tR tP tC a1 w1 w2 w3 => rw [a1.mid.round, hG']; omega
          | dcd a1 => rw [a1.round, hG']; omega
        unfold nsent
        simp [sentB_false_of_round hr]
      · rfl
    rw [hz] at hb
    have heq : s.log.filter (fun m => m.core.src == a) =
        s.log.filter (fun m => m.core.src == a && m.core.typ != tDecided) := by
      apply List.filter_congr
      intro x hx
      obtain ⟨r, b, _, rfl⟩ := hlog x hx
      simp [rcMsg, tRoundChange, tDecided]
    rw [heq]; omega
  · intro p hp
    cases hn.mem p hp with
    | pend e a1 a2 a3 a4 a5 a6 a7 => exact ⟨e, a1, a2, a3, a4, a6, a7⟩
    | act dl fd tR tP tC a1 w1 w2 w3 =>
      exfalso
      have : (s.node p).st.round = G.ρ := by
        cases h.mem p hp with
        | pend e b1 b2 b3 b4 b5 => omega
        | act dl fd tR tP tC b1 => exact b1.mid.round
        | dcd b1 => exact b1.round
      rw [a1.mid.round, hG'] at this; omega
    | dcd a1 => exact absurd (hf p hp).2.2.2 a1.done.qc

/-! ### Several rounds: silent ones, then one whose leader runs -/

/-- rounds `Gs 0, …, Gs m` with their timings: consecutive round numbers, each round's timers set
the entry window of the next, the leaders of the first `m` rounds are down (a round-change exchange
fits: `σ + hi`), the leader of round `Gs m` runs (`σ + 4·hi` fit). -/
structure Rot2 (P : TParams) (Gs : Nat → Rd) (Ts : Nat → Tm) (m : Nat) : Prop where
  hyp : ∀ k, k ≤ m → Hyp2 P (Gs k) (Ts k)
  rho : ∀ k, (Gs (k + 1)).ρ = (Gs k).ρ + 1
  tmE : ∀ k, (Ts (k + 1)).E = (Ts k).E'
  tmσ : ∀ k, (Ts (k + 1)).σ = (Ts k).σ'
  tmB : ∀ k, (Ts (k + 1)).B = (Ts k).B + 1
  silent : ∀ k, k < m → (Gs k).l ∉ P.R ∧ (Ts k).E + (Ts k).σ + P.hi < (Ts k).E'
  good : (Gs m).l ∈ P.R ∧ (Ts m).E + (Ts m).σ + 4 * P.hi < (Ts m).E'
  quo : P.d.quorum ≤ P.R.length

theorem rot_step2 {P : TParams} {Gs : Nat → Rd} {Ts : Nat → Tm} {m : Nat} (hrot : Rot2 P Gs Ts m)
    {s s' : TState} (a : TAct) (hs : tstep P s a = some s')
    (h : ∃ k, k ≤ m ∧ RInv2 P (Gs k) (Ts k) s) : ∃ k, k ≤ m ∧ RInv2 P (Gs k) (Ts k) s' := by
  obtain ⟨k, hk, hinv⟩ := h
  have hy := hrot.hyp k hk
  by_cases hfire : ∃ p, a = .fire p ∧ (s.node p).st.round = (Gs k).ρ
  · obtain ⟨p, rfl, hround⟩ := hfire
    have hs0 := hs
    simp only [tstep] at hs0
    split at hs0
    · rename_i hc
      by_cases hkm : k = m
      · subst hkm
        exact absurd hround (fire_not_act_good2 hy hrot.good.1 hrot.quo hrot.good.2 hinv hc.1 hc.2)
      · have hlt : k < m := by omega
        obtain ⟨hsil, hwin⟩ := hrot.silent k hlt
        -- the firing member is in the round: its deadline is at least `E'`
        have hnow : (Ts k).E + (Ts k).σ + P.hi < s.now := by
          cases hinv.mem p hc.1 with
          | pend e a1 => rw [a1.mid.round] at hround; have := a1.rho; omega
          | dcd a1 a2 => rw [a2] at hc; cases hc.2
          | act dl fd tR tP tC a1 w1 w2 w3 a2 a3 a4 a5 =>
            rw [a4] at hc
            have := hc.2
            cases this
            omega
        have hnext := rinv_next2 hy hsil hinv hnow (hrot.rho k) (hrot.tmE k) (hrot.tmσ k) (hrot.tmB k)
        refine ⟨k + 1, by omega, rinv2_step (hrot.hyp (k + 1) (by omega)) hnext _ hs ?_⟩
        intro q hq
        cases hq
        rw [hround, hrot.rho k]; omega
    · cases hs0
  · refine ⟨k, hk, rinv2_step hy hinv a hs ?_⟩
    intro p hap hr
    exact hfire ⟨p, hap, hr⟩

theorem rot_exec2 {P : TParams} {Gs : Nat → Rd} {Ts : Nat → Tm} {m : Nat} (hrot : Rot2 P Gs Ts m)
    (acts : List TAct) : ∀ {s s' : TState}, texec P s acts = some s' →
      (∃ k, k ≤ m ∧ RInv2 P (Gs k) (Ts k) s) → ∃ k, k ≤ m ∧ RInv2 P (Gs k) (Ts k) s' := by
  induction acts with
  | nil => intro s s' hs h; simp only [texec] at hs; cases hs; exact h
  | cons a as ih =>
    intro s s' hs h
    simp only [texec] at hs
    split at hs
    · cases hs
    · rename_i s1 hs1
      exact ih hs (rot_step2 hrot a hs1 h)

theorem rot_mono2 {P : TParams} {Gs : Nat → Rd} {Ts : Nat → Tm} {m : Nat} (hrot : Rot2 P Gs Ts m) :
    ∀ j k, k + j ≤ m → (Ts k).E + (Ts k).σ ≤ (Ts (k + j)).E + (Ts (k + j)).σ := by
  intro j
  induction j with
  | zero => intro k _; exact Nat.le_refl _
  | succ j ih =>
    intro k hk
    have h1 := ih k (by omega)
    have hw := (hrot.hyp (k + j) (by omega)).win
    have e1 := hrot.tmE (k + j)
    have e2 := hrot.tmσ (k + j)
    rw [show k + (j + 1) = k + j + 1 by omega, e1, e2]
    omega

/-- in a silent round under way the clock has not passed the next round's entry window. -/
theorem silent_now_le2 {P : TParams} {G : Rd} {T : Tm} {s : TState} (hy : Hyp2 P G T) (hsil : G.l ∉ P.R)
    (h : RInv2 P G T s) {p : Nat} (hp : p ∈ P.R) : s.now ≤ T.E' + T.σ' := by
  obtain ⟨hf, hlog⟩ := silent_facts2 hy hsil h
  have hw := hy.win
  cases h.mem p hp with
  | pend e a1 a2 a3 a4 a5 => omega
  | dcd a1 => exact absurd (hf p hp).2.2.2 a1.done.qc
  | act dl fd tR tP tC a1 w1 w2 w3 a2 a3 a4 a5 a6 =>
    have hnopp : srcsOf tPrePrepare G.ρ (s.node p).rcvd = [] := by
      unfold srcsOf
      rw [List.map_eq_nil_iff, List.filter_eq_nil_iff]
      intro x hx
      obtain ⟨r, a, _, rfl⟩ := hlog x (mem_log_of_rcvd2 h hp hx)
      simp [rcMsg, tRoundChange, tPrePrepare]
    have := a6 hnopp
    have := h.timers p hp dl a4
    omega

/-- **Several silent rounds, then a round whose leader runs.** From a cluster poised for round
`Gs 0`, every execution keeps every running member free of faults, and once the clock has passed
`E_m + σ_m + 4·hi` every running member has decided the value of the leader of round `Gs m`, in that
round, exactly once. -/
theorem rot_decides_inv2 {P : TParams} {Gs : Nat → Rd} {Ts : Nat → Tm} {m : Nat} (hrot : Rot2 P Gs Ts m)
    {s s' : TState} (hp0 : RInv2 P (Gs 0) (Ts 0) s) (acts : List TAct) (hs : texec P s acts = some s') :
    (∀ p ∈ P.R, noFault (s'.node p).outs = true ∧ (s'.node p).st.dead = false) ∧
    (∀ p ∈ P.R, (s'.node p).st.qCommit ≠ [] →
      GoodOutcome (Gs m).v (Gs m).ρ ((s'.node p).st, (s'.node p).outs)) ∧
    ((Ts m).E + (Ts m).σ + 4 * P.hi < s'.now →
      ∀ p ∈ P.R, GoodOutcome (Gs m).v (Gs m).ρ ((s'.node p).st, (s'.node p).outs)) := by
  have h0 : ∃ k, k ≤ m ∧ RInv2 P (Gs k) (Ts k) s := ⟨0, Nat.zero_le _, hp0⟩
  obtain ⟨k, hk, hinv⟩ := rot_exec2 hrot acts hs h0
  have hy := hrot.hyp k hk
  have hq1 := quorum_pos P.d hy.n1
  have hdecm : ∀ p ∈ P.R, (s'.node p).st.qCommit ≠ [] → k = m := by
    intro p hp hq
    apply Classical.byContradiction
    intro hne
    have hlt : k < m := by omega
    exact hq ((silent_facts2 hy (hrot.silent k hlt).1 hinv).1 p hp).2.2.2
  refine ⟨fun p hp => ⟨(outcome_of_rinv2 hinv hp).1, (outcome_of_rinv2 hinv hp).2.1⟩, ?_, ?_⟩
  · intro p hp hq
    have := hdecm p hp hq
    subst this
    exact (outcome_of_rinv2 hinv hp).2.2.1 hq
  · intro hlate p hp
    have hkm : k = m := by
      apply Classical.byContradiction
      intro hne
      have hlt : k < m := by omega
      have h1 := silent_now_le2 hy (hrot.silent k hlt).1 hinv hp
      have h2 := rot_mono2 hrot (m - (k + 1)) (k + 1) (by omega)
      rw [show k + 1 + (m - (k + 1)) = m by omega, hrot.tmE k, hrot.tmσ k] at h2
      omega
    subst hkm
    exact (outcome_of_rinv2 hinv hp).2.2.1 (live2 hy hrot.good.1 hrot.quo hinv hlate p hp)

theorem rot_decides2 {P : TParams} {Gs : Nat → Rd} {Ts : Nat → Tm} {m : Nat} (hrot : Rot2 P Gs Ts m)
    {s s' : TState} (hp0 : Poised2 P (Gs 0) (Ts 0) s) (acts : List TAct) (hs : texec P s acts = some s') :
    (∀ p ∈ P.R, noFault (s'.node p).outs = true ∧ (s'.node p).st.dead = false) ∧
    (∀ p ∈ P.R, (s'.node p).st.qCommit ≠ [] →
      GoodOutcome (Gs m).v (Gs m).ρ ((s'.node p).st, (s'.node p).outs)) ∧
    ((Ts m).E + (Ts m).σ + 4 * P.hi < s'.now →
      ∀ p ∈ P.R, GoodOutcome (Gs m).v (Gs m).ρ ((s'.node p).st, (s'.node p).outs)) :=
  rot_decides_inv2 hrot (poised_rinv2 hp0) acts hs

/-! ### Relative timers and the production leader function -/

/-- the standing hypotheses for a relative timer (`Timer(r)` fires `timeout r` after the call). -/
theorem hyp_rel2 {P : TParams} {timeout : Nat → Nat} (harm : P.arm = relTimer timeout) {G : Rd}
    (E σ B : Nat) (hR : P.R.Nodup) (hn : 1 ≤ P.d.nodes) (hρ : 1 ≤ G.ρ) (hlead : P.d.leader G.ρ = G.l)
    (hlv : G.l ∈ P.R → P.inp G.l = G.v ∧ G.v ≠ 0) (hfifo : B + 4 ≤ P.d.fifo)
    (hfit : σ ≤ timeout G.ρ) : Hyp2 P G ⟨E, σ, E + timeout G.ρ, σ, B⟩ := by
  refine ⟨hR, hn, hρ, hlead, hlv, ?_, ?_, ?_, hfifo⟩
  · intro now h1 h2
    rw [harm]; simp only [relTimer] at *; omega
  · intro fd now _ h2
    rw [harm]; simp only [relTimer] at *; omega
  · simp only; omega

theorem rot_rel2 {slot ty n fifo : Nat} {P : TParams} (hd : P.d = rotDef slot ty n fifo)
    {timeout : Nat → Nat} (harm : P.arm = relTimer timeout) (hR : P.R.Nodup) (hn : 1 ≤ n)
    (hq : P.d.quorum ≤ P.R.length) (hinp : ∀ p ∈ P.R, P.inp p ≠ 0) {ρ0 : Nat} (hρ0 : 1 ≤ ρ0)
    (E0 σ B0 : Nat) {m : Nat} (hfifo : B0 + m + 4 ≤ fifo)
    (hfit : ∀ k, k ≤ m → σ + 4 * P.hi < timeout (ρ0 + k))
    (hm : leaderFn slot ty (ρ0 + m) n ∈ P.R) (hsil : ∀ k, k < m → leaderFn slot ty (ρ0 + k) n ∉ P.R) :
    Rot2 P (rotG slot ty n P.inp ρ0) (rotT timeout ρ0 E0 σ B0) m := by
  refine ⟨?_, fun k => by simp [rotG]; omega, ?_, fun _ => rfl, fun k => by simp [rotT]; omega, ?_, ?_, hq⟩
  · intro k hk
    have hf := hfit k hk
    exact hyp_rel2 harm (G := rotG slot ty n P.inp ρ0 k) _ σ _ hR (by rw [hd]; exact hn)
      (by simp [rotG]; omega) (by rw [hd]; rfl) (fun hl => ⟨rfl, hinp _ hl⟩)
      (by rw [hd]; simp [rotDef]; omega) (by simp [rotG]; omega)
  · intro k
    simp [rotT, sumTimeouts]; omega
  · intro k hk
    have hf := hfit k (by omega)
    exact ⟨hsil k hk, by simp [rotT]; omega⟩
  · have hf := hfit m (Nat.le_refl _)
    exact ⟨hm, by simp [rotT]; omega⟩

/-! ### The slot-aligned eager-double-linear timer -/

theorem rot_eager2 {slot ty n fifo : Nat} {P : TParams} (hd : P.d = rotDef slot ty n fifo)
    {c : RoundTimer.Cfg} {pt : Bool} (hk : c.kind = .eager) {g : Nat} (hg : c.genesis = some g)
    (hs : 0 < c.slotDur) (harm : P.arm = prodTimer c pt) (hR : P.R.Nodup) (hn : 1 ≤ n)
    (hq : P.d.quorum ≤ P.R.length) (hinp : ∀ p ∈ P.R, P.inp p ≠ 0) {ρ0 : Nat} (hρ0 : 1 ≤ ρ0)
    (E0 σ0 B0 : Nat) {m : Nat} (hfifo : B0 + m + 4 ≤ fifo)
    (hfit0 : E0 + σ0 + 4 * P.hi < eagerEnd c pt g ρ0) (hfit : 4 * P.hi < 1000000000)
    (hm : leaderFn slot ty (ρ0 + m) n ∈ P.R) (hsil : ∀ k, k < m → leaderFn slot ty (ρ0 + k) n ∉ P.R) :
    Rot2 P (rotG slot ty n P.inp ρ0) (eagerT c pt g ρ0 E0 σ0 B0) m := by
  have hsucc : ∀ k, 1 ≤ k → eagerEnd c pt g (ρ0 + k) = eagerEnd c pt g (ρ0 + k - 1) + 1000000000 := by
    intro k hk1
    rw [show ρ0 + k = (ρ0 + k - 1) + 1 by omega, eagerEnd_succ]
    rfl
  have hwin : ∀ k, (eagerT c pt g ρ0 E0 σ0 B0 k).E + (eagerT c pt g ρ0 E0 σ0 B0 k).σ + 4 * P.hi <
      (eagerT c pt g ρ0 E0 σ0 B0 k).E' := by
    intro k
    unfold eagerT
    by_cases hk0 : k = 0
    · rw [if_pos hk0]; simpa [hk0] using hfit0
    · rw [if_neg hk0]; simp only; have := hsucc k (by omega); omega
  have hE' : ∀ k, (eagerT c pt g ρ0 E0 σ0 B0 k).E' = eagerEnd c pt g (ρ0 + k) := by
    intro k; unfold eagerT; split
    · rename_i h; subst h; rfl
    · rfl
  have hσ' : ∀ k, (eagerT c pt g ρ0 E0 σ0 B0 k).σ' = 0 := by
    intro k; unfold eagerT; split <;> rfl
  have hB : ∀ k, (eagerT c pt g ρ0 E0 σ0 B0 k).B = B0 + k := by
    intro k; unfold eagerT; split
    · rename_i h; subst h; rfl
    · rfl
  refine ⟨?_, fun k => by simp [rotG]; omega, ?_, ?_, ?_, ?_, ?_, hq⟩
  · intro k hk'
    have hw := hwin k
    refine ⟨hR, by rw [hd]; exact hn, by simp [rotG]; omega, by rw [hd]; rfl,
      fun hl => ⟨rfl, hinp _ hl⟩, ?_, ?_, by omega, ?_⟩
    · intro now _ _
      rw [harm, prodTimer_eager_first c pt hk g hg hs, hE', hσ']
      exact ⟨Nat.le_refl _, Nat.le_refl _⟩
    · intro fd now h1 _
      rw [harm, prodTimer_eager_again c pt hk]
      omega
    · rw [hB, hd]; simp [rotDef]; omega
  · intro k
    rw [hE']
    unfold eagerT
    rw [if_neg (by omega)]
    simp
  · intro k
    rw [hσ']
    unfold eagerT
    rw [if_neg (by omega)]
  · intro k
    rw [hB, hB]; omega
  · intro k hk'
    have := hwin k
    exact ⟨hsil k hk', by omega⟩
  · exact ⟨hm, hwin m⟩

/-! ### Start of round 1: everybody has just been called -/

theorem act2_of_fresh1 {d : Def} {G : Rd} {I : Nat → Nat} {p : Nat} {s : NodeState}
    (hρ : G.ρ = 1) (h : Fresh 1 p (I p) s) : Act2 d G I p s [] False False False := by
  have hm : Mid G.ρ p s := by rw [hρ]; exact h.mid
  refine ⟨hm, (by rw [h.buf]; exact bufIs_nil), (by intro x hx; cases hx), ?_, ?_, ?_, ?_, ?_, ?_,
    fun hc => absurd hρ hc, h.inp, h.timer, fun _ => ⟨h.pr, h.pv, h.pj⟩, ?_⟩
  · rw [h.dd]; simp [srcsOf]
  · rw [h.dd]; simp
  · rw [h.dd]; simp
  · simp
  · rw [h.dd]; simp
  · rw [h.dd]; simp
  · rw [h.dd]; simp

theorem poised1_rinv2 {P : TParams} {G : Rd} {T : Tm} {s : TState} (hy : Hyp2 P G T) (h : Poised1 P G T s) :
    RInv2 P G T s := by
  have hq1 := quorum_pos P.d hy.n1
  have hρ := h.rho
  have hfresh : ∀ p ∈ P.R, Fresh 1 p (P.inp p) (s.node p).st := fun p hp => (h.mem p hp).1
  have hround : ∀ p ∈ P.R, (s.node p).st.round = G.ρ := by
    intro p hp; rw [(hfresh p hp).mid.round, hρ]
  have hflag23 : ∀ p ∈ P.R, sentB G tPrepare (s.node p).st = false ∧ sentB G tCommit (s.node p).st = false ∧
      sentB G tRoundChange (s.node p).st = false := by
    intro p hp
    have hdd := (hfresh p hp).dd
    refine ⟨?_, ?_, ?_⟩ <;> simp [sentB, hdd, hρ, tRoundChange, tPrePrepare, tPrepare, tCommit]
  have hund : ∀ p ∈ P.R, (s.node p).st.qCommit = [] := fun p hp => (hfresh p hp).mid.qc
  have hflag1 : ∀ p ∈ P.R, sentB G tPrePrepare (s.node p).st = decide (p = G.l) := by
    intro p hp
    have hf := hfresh p hp
    by_cases hpl : p = G.l
    · have hv := hy.lv (hpl ▸ hp)
      have hin : (s.node p).st.inputValue ≠ 0 := by rw [hf.inp, hpl, hv.1]; exact hv.2
      have h1 := hf.mid.round
      have h2 := hf.mid.proc
      rw [hpl] at h1 h2 hin
      simp [sentB, h1, h2, hρ, hpl, hin, tRoundChange, tPrePrepare]
    · simp [sentB, hf.mid.proc, hpl, tRoundChange, tPrePrepare]
  have hmem : ∀ p ∈ P.R, MemInv2 P G T s.now p (s.node p) := by
    intro p hp
    obtain ⟨hf, hrc, hqt, dl, fd, t1, t2, t3, t4, t5, t6, t7⟩ := h.mem p hp
    refine .act dl fd False False False (by rw [hrc]; exact act2_of_fresh1 hρ hf)
      (by rw [hrc]; intro hx; cases hx) (by rw [hrc]; intro hx; cases hx) (by rw [hrc]; intro hx; cases hx)
      hqt h.tE t1 t3 (fun _ => t4) (by rw [hρ]; exact t5) t6 (by rw [hρ]; exact t7)
  have htimers : ∀ p ∈ P.R, ∀ dl, (s.node p).timer = some dl → s.now ≤ dl := by
    intro p hp dl hdl
    obtain ⟨_, _, _, dl', fd, t1, t2, _⟩ := h.mem p hp
    rw [t1] at hdl; cases hdl; exact t2
  rcases h.net with ⟨hl, e, e1, e2, e3, hnet, hlog⟩ | ⟨hl, hnet, hlog⟩
  · have hv := hy.lv hl
    have hlead : P.d.leader 1 = G.l := by rw [← hρ]; exact hy.lead
    have hpp : IsPPm P.d G (ppMsg 1 G.v [] G.l) := by
      refine ⟨by simp [ppMsg, hρ], by intro c hc; simp [ppMsg] at hc, ?_⟩
      have := ppMsg_justified_1 P.d G.v hv.2
      rw [hlead] at this
      exact this
    have hcnt : ∀ K a, [ppMsg 1 G.v [] G.l].countP (isKind K G.ρ a) =
        if K = tPrePrepare ∧ a = G.l then 1 else 0 := by
      intro K a
      by_cases h1 : K = tPrePrepare ∧ a = G.l
      · rw [if_pos h1]; simp [isKind, ppMsg, hρ, h1.1, h1.2]
      · rw [if_neg h1, List.countP_eq_zero]
        intro m hm
        simp only [List.mem_singleton] at hm
        rw [hm]
        simp only [isKind, ppMsg, Bool.and_eq_true, beq_iff_eq, not_and]
        intro hh hh2
        exact h1 ⟨hh.1.symm, hh2.symm⟩
    refine ⟨?_, ?_, ?_, ?_, ?_, ?_, ?_, ?_, ?_, ?_, ?_, hmem, htimers⟩
    · intro pk hpk
      rw [hnet] at hpk
      obtain ⟨h1, h2, h3⟩ := mem_sendAll hpk
      simp only [List.mem_singleton] at h2
      rw [h2, h3]
      refine ⟨h1, e3, e1, by simp [ppMsg, hρ], fun _ => ?_⟩
      simp [ppMsg, kindIdx, tPrePrepare, tRoundChange]; omega
    · intro p hp
      rw [hnet, inflight_sendAll hy.nodup hp, (h.mem p hp).2.1, hlog]
      simp
    · intro m hm
      rw [hlog] at hm
      simp only [List.mem_singleton] at hm
      rw [hm]
      exact Shape.pp _ hpp hl
    · intro a ha K hK
      rw [hlog, hcnt]
      rcases hK with rfl | rfl | rfl
      · rw [hflag1 a ha]
        by_cases hal : a = G.l <;> simp [hal]
      · rw [(hflag23 a ha).1]; simp [tPrepare, tPrePrepare]
      · rw [(hflag23 a ha).2.1]; simp [tCommit, tPrePrepare]
    · intro a ha
      rw [hlog, hcnt]; simp [tRoundChange, tPrePrepare]
    · intro a ha hs; rw [(hflag23 a ha).2.2] at hs; cases hs
    · intro a
      rw [hlog]
      by_cases hal : a = G.l
      · subst hal
        rw [if_pos hl]
        have : 1 ≤ nsent G (s.node G.l).st := by
          unfold nsent
          rw [hflag1 G.l hl]
          simp; omega
        have hle : ([ppMsg 1 G.v [] G.l].filter
            (fun m => m.core.src == G.l && m.core.typ != tDecided)).length ≤ 1 := by
          have := List.length_filter_le (fun m : Msg => m.core.src == G.l && m.core.typ != tDecided)
            [ppMsg 1 G.v [] G.l]
          simpa using this
        omega
      · have : [ppMsg 1 G.v [] G.l].filter (fun m => m.core.src == a && m.core.typ != tDecided) = [] := by
          simp [ppMsg, Ne.symm hal]
        rw [this]; simp
    · intro m hm ht
      rw [hlog] at hm
      simp only [List.mem_singleton] at hm
      rw [hm] at ht
      simp [ppMsg, tPrePrepare, tDecided] at ht
    · rintro ⟨p, hp, hq⟩; exact absurd (hund p hp) hq
    · rintro ⟨a, ha, hs⟩; rw [(hflag23 a ha).2.1] at hs; cases hs
    · rintro ⟨a, ha, hs⟩; rw [(hflag23 a ha).1] at hs; cases hs
  · refine ⟨by rw [hnet]; simp, ?_, by rw [hlog]; simp, ?_, ?_, ?_, ?_, by rw [hlog]; simp, ?_, ?_, ?_, hmem, htimers⟩
    · intro p hp
      rw [hnet, (h.mem p hp).2.1, hlog]
      simp [inflight]
    · intro a ha K hK
      rw [hlog]
      simp only [List.countP_nil]
      rcases hK with rfl | rfl | rfl
      · rw [hflag1 a ha]
        have : a ≠ G.l := fun hc => hl (hc ▸ ha)
        simp [this]
      · rw [(hflag23 a ha).1]; simp
      · rw [(hflag23 a ha).2.1]; simp
    · intro a ha; rw [hlog]; simp
    · intro a ha hs; rw [(hflag23 a ha).2.2] at hs; cases hs
    · intro a; rw [hlog]; simp
    · rintro ⟨p, hp, hq⟩; exact absurd (hund p hp) hq
    · rintro ⟨a, ha, hs⟩; rw [(hflag23 a ha).2.1] at hs; cases hs
    · rintro ⟨a, ha, hs⟩; rw [(hflag23 a ha).1] at hs; cases hs

end CharonV.Qbft
