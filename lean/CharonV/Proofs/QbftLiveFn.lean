/-
C04 (liveness core), part 1: facts about the helper functions of the QBFT implementation model that
the producer/verifier agreement (`Proofs/QbftLive.lean`) needs:

* pigeonhole for source-unique lists,
* `filterMsgs` is the identity on a list that already matches (idempotence),
* completeness of `isJustifiedRoundChange.go` and `getSingleJustifiedPrPv`,
* structure of the quorums returned by `getPrepareQuorums` (through `foldl`/`upsert`/`permK`),
* `getJustifiedQrc` produces justifications that `containsJustifiedQrc` accepts,
* soundness/completeness of `getFPlus1RoundChanges`.
-/
import CharonV.Proofs.QbftImpl2
import CharonV.Proofs.QbftArith

namespace CharonV.Qbft

/-! ### pigeonhole -/

theorem nodup_subset_length {α : Type} [DecidableEq α] :
    ∀ (S T : List α), S.Nodup → (∀ s ∈ S, s ∈ T) → S.length ≤ T.length := by
  intro S
  induction S with
  | nil => intro T _ _; simp
  | cons a S ih =>
    intro T hnd hsub
    have hnd' := List.nodup_cons.mp hnd
    have haT : a ∈ T := hsub a List.mem_cons_self
    have h1 : S.length ≤ (T.erase a).length := by
      apply ih _ hnd'.2
      intro s hs
      have hne : s ≠ a := fun h => hnd'.1 (h ▸ hs)
      exact (List.mem_erase_of_ne hne).mpr (hsub s (List.mem_cons_of_mem _ hs))
    have h2 : (T.erase a).length = T.length - 1 := List.length_erase_of_mem haT
    have h3 : 0 < T.length := List.length_pos_of_mem haT
    simp only [List.length_cons]
    omega

/-- a list whose keys are pairwise distinct and all below `n` has at most `n` elements. -/
theorem nodup_lt_length {α : Type} (f : α → Nat) (n : Nat) (l : List α)
    (hnd : (l.map f).Nodup) (hlt : ∀ x ∈ l, f x < n) : l.length ≤ n := by
  have := nodup_subset_length (l.map f) (List.range n) hnd (by
    intro s hs
    obtain ⟨x, hx, rfl⟩ := List.mem_map.mp hs
    exact List.mem_range.mpr (hlt x hx))
  simpa using this

/-! ### filterMsgs: identity on matching lists -/

theorem optNe_of_forall {o : Option Nat} {x : Nat} (h : ∀ v, o = some v → x = v) : optNe o x = false := by
  cases o with
  | none => rfl
  | some v => simp [optNe, h v rfl]

theorem filterMsgs_go_id (typ round : Nat) (value pr pv : Option Nat) :
    ∀ (l : List Core) (seen : List Nat),
      (∀ c ∈ l, c.typ = typ ∧ c.round = round ∧ optNe value c.value = false ∧
        optNe pv c.pv = false ∧ optNe pr c.pr = false) →
      (l.map (·.src)).Nodup → (∀ c ∈ l, c.src ∉ seen) →
      filterMsgs.go typ round value pr pv seen l = l := by
  intro l
  induction l with
  | nil => intro seen _ _ _; simp [filterMsgs.go]
  | cons m ms ih =>
    intro seen hall hnd hseen
    have hm := hall m List.mem_cons_self
    simp only [List.map_cons, List.nodup_cons] at hnd
    have hs := hseen m List.mem_cons_self
    unfold filterMsgs.go
    simp only [hm.1, hm.2.1, hm.2.2.1, hm.2.2.2.1, hm.2.2.2.2, hs, ne_eq, not_true_eq_false, or_self,
      if_false, Bool.false_eq_true]
    congr 1
    apply ih
    · intro c hc; exact hall c (List.mem_cons_of_mem _ hc)
    · exact hnd.2
    · intro c hc hmem
      rcases List.mem_cons.mp hmem with h | h
      · exact hnd.1 (List.mem_map.mpr ⟨c, hc, h⟩)
      · exact hseen c (List.mem_cons_of_mem _ hc) h

/-- `filterMsgs` returns a list unchanged if all its elements match and its sources are distinct. -/
theorem filterMsgs_id {l : List Core} {typ round : Nat} {value pr pv : Option Nat}
    (hall : ∀ c ∈ l, c.typ = typ ∧ c.round = round ∧ (∀ v, value = some v → c.value = v) ∧
      (∀ v, pr = some v → c.pr = v) ∧ (∀ v, pv = some v → c.pv = v))
    (hnd : (l.map (·.src)).Nodup) : filterMsgs l typ round value pr pv = l := by
  unfold filterMsgs
  apply filterMsgs_go_id _ _ _ _ _ l [] _ hnd (by simp)
  intro c hc
  have := hall c hc
  exact ⟨this.1, this.2.1, optNe_of_forall this.2.2.1, optNe_of_forall this.2.2.2.2,
    optNe_of_forall this.2.2.2.1⟩

/-- idempotence: filtering a filtered list with the same filter is the identity. -/
theorem filterMsgs_idem (l : List Core) (typ round : Nat) (value pr pv : Option Nat) :
    filterMsgs (filterMsgs l typ round value pr pv) typ round value pr pv =
      filterMsgs l typ round value pr pv := by
  apply filterMsgs_id
  · intro c hc
    have := filterMsgs_sound hc
    exact ⟨this.2.1, this.2.2.1, this.2.2.2.1, this.2.2.2.2.1, this.2.2.2.2.2⟩
  · exact filterMsgs_nodup _ _ _ _ _ _

/-- a filtered list can be re-filtered with a weaker filter (fewer optional constraints). -/
theorem filterMsgs_weaken (l : List Core) (typ round : Nat) (value pr pv : Option Nat) :
    filterMsgs (filterMsgs l typ round value pr pv) typ round none none none =
      filterMsgs l typ round value pr pv := by
  apply filterMsgs_id
  · intro c hc
    have := filterMsgs_sound hc
    exact ⟨this.2.1, this.2.2.1, by simp, by simp, by simp⟩
  · exact filterMsgs_nodup _ _ _ _ _ _

/-- elements of another type at the end of the list are ignored. -/
theorem filterMsgs_go_append_other (typ round : Nat) (value pr pv : Option Nat) (l' : List Core)
    (hl' : ∀ c ∈ l', c.typ ≠ typ) :
    ∀ (l : List Core) (seen : List Nat),
      filterMsgs.go typ round value pr pv seen (l ++ l') = filterMsgs.go typ round value pr pv seen l := by
  intro l
  induction l with
  | nil =>
    intro seen
    simp only [List.nil_append]
    induction l' generalizing seen with
    | nil => rfl
    | cons m ms ih =>
      unfold filterMsgs.go
      have := hl' m List.mem_cons_self
      simp only [this, ne_eq, not_false_eq_true, true_or, if_true]
      rw [ih (fun c hc => hl' c (List.mem_cons_of_mem _ hc))]
      simp [filterMsgs.go]
  | cons m ms ih =>
    intro seen
    simp only [List.cons_append]
    unfold filterMsgs.go
    simp only [ih]

theorem filterMsgs_append_other {l l' : List Core} {typ round : Nat} {value pr pv : Option Nat}
    (hl' : ∀ c ∈ l', c.typ ≠ typ) :
    filterMsgs (l ++ l') typ round value pr pv = filterMsgs l typ round value pr pv :=
  filterMsgs_go_append_other typ round value pr pv l' hl' l []

theorem filterMsgs_length_le (d : Def) {l : List Core} {typ round : Nat} {value pr pv : Option Nat}
    (hsrc : ∀ c ∈ l, c.src < d.nodes) : (filterMsgs l typ round value pr pv).length ≤ d.nodes :=
  nodup_lt_length (·.src) d.nodes _ (filterMsgs_nodup _ _ _ _ _ _)
    (fun c hc => hsrc c (filterMsgs_sound hc).1)

/-! ### isJustifiedRoundChange: completeness of the scan -/

theorem isJRC_go_complete (pr pv : Nat) :
    ∀ (l : List Core) (seen : List Nat),
      (∀ c ∈ l, c.typ = tPrepare ∧ c.round = pr ∧ c.value = pv) →
      (l.map (·.src)).Nodup → (∀ c ∈ l, c.src ∉ seen) →
      isJustifiedRoundChange.go pr pv seen l = true := by
  intro l
  induction l with
  | nil => intro seen _ _ _; simp [isJustifiedRoundChange.go]
  | cons m ms ih =>
    intro seen hall hnd hseen
    have hm := hall m List.mem_cons_self
    simp only [List.map_cons, List.nodup_cons] at hnd
    have hs := hseen m List.mem_cons_self
    unfold isJustifiedRoundChange.go
    simp only [hm.1, hm.2.1, hm.2.2, hs, ne_eq, not_true_eq_false, if_false]
    apply ih
    · intro c hc; exact hall c (List.mem_cons_of_mem _ hc)
    · exact hnd.2
    · intro c hc hmem
      rcases List.mem_cons.mp hmem with h | h
      · exact hnd.1 (List.mem_map.mpr ⟨c, hc, h⟩)
      · exact hseen c (List.mem_cons_of_mem _ hc) h

/-- A ROUND-CHANGE carrying no prepared state and no attachment, or a source-unique quorum of
PREPAREs for exactly its prepared round and value, is justified. -/
theorem isJustifiedRoundChange_of (d : Def) (hq : 1 ≤ d.quorum) (m : Msg)
    (h : (m.core.pr = 0 ∧ m.core.pv = 0 ∧ m.just = []) ∨
      ((m.just.map (·.src)).Nodup ∧ d.quorum ≤ m.just.length ∧
        ∀ c ∈ m.just, c.typ = tPrepare ∧ c.round = m.core.pr ∧ c.value = m.core.pv)) :
    isJustifiedRoundChange d m = true := by
  unfold isJustifiedRoundChange
  rcases h with ⟨h1, h2, h3⟩ | ⟨h1, h2, h3⟩
  · simp [h1, h2, h3]
  · have hne : m.just.isEmpty = false := by
      cases hj : m.just with
      | nil => rw [hj] at h2; simp at h2; omega
      | cons a as => rfl
    simp only [hne, Bool.false_eq_true, if_false]
    rw [if_neg (by omega)]
    exact isJRC_go_complete _ _ _ [] h3 h1 (by simp)

/-! ### getSingleJustifiedPrPv: completeness -/

theorem getSingle_go_skip (d : Def) (l2 : List Core) :
    ∀ (l1 : List Core) (seen : List Nat) (pr pv count : Nat), (∀ c ∈ l1, c.typ ≠ tPrepare) →
      getSingleJustifiedPrPv.go d seen pr pv count (l1 ++ l2) =
        getSingleJustifiedPrPv.go d seen pr pv count l2 := by
  intro l1
  induction l1 with
  | nil => intro _ _ _ _ _; rfl
  | cons m ms ih =>
    intro seen pr pv count h
    simp only [List.cons_append]
    rw [getSingleJustifiedPrPv.go]
    simp only [h m List.mem_cons_self, ne_eq, not_false_eq_true, if_true]
    exact ih seen pr pv count (fun c hc => h c (List.mem_cons_of_mem _ hc))

theorem getSingle_go_complete (d : Def) (pr pv : Nat) :
    ∀ (l : List Core) (seen : List Nat) (count : Nat), 0 < count →
      (∀ c ∈ l, c.typ = tPrepare ∧ c.round = pr ∧ c.value = pv) →
      (l.map (·.src)).Nodup → (∀ c ∈ l, c.src ∉ seen) →
      getSingleJustifiedPrPv.go d seen pr pv count l = (pr, pv, decide (count + l.length ≥ d.quorum)) := by
  intro l
  induction l with
  | nil => intro seen count _ _ _ _; simp [getSingleJustifiedPrPv.go]
  | cons m ms ih =>
    intro seen count hc hall hnd hseen
    have hm := hall m List.mem_cons_self
    simp only [List.map_cons, List.nodup_cons] at hnd
    have hs := hseen m List.mem_cons_self
    rw [getSingleJustifiedPrPv.go]
    have hc0 : ¬ count = 0 := by omega
    simp only [hm.1, hm.2.1, hm.2.2, hs, hc0, ne_eq, not_true_eq_false, if_false, or_self]
    rw [ih (m.src :: seen) (count + 1) (by omega)
      (fun c hc => hall c (List.mem_cons_of_mem _ hc)) hnd.2]
    · simp only [List.length_cons]
      congr 3
      apply propext
      omega
    · intro c hc hmem
      rcases List.mem_cons.mp hmem with h | h
      · exact hnd.1 (List.mem_map.mpr ⟨c, hc, h⟩)
      · exact hseen c (List.mem_cons_of_mem _ hc) h

/-- non-PREPAREs followed by a non-empty source-unique list of PREPAREs for one (round,value). -/
theorem getSingle_complete (d : Def) (l1 : List Core) (p0 : Core) (ps : List Core)
    (h1 : ∀ c ∈ l1, c.typ ≠ tPrepare)
    (hall : ∀ c ∈ p0 :: ps, c.typ = tPrepare ∧ c.round = p0.round ∧ c.value = p0.value)
    (hnd : ((p0 :: ps).map (·.src)).Nodup) :
    getSingleJustifiedPrPv d (l1 ++ p0 :: ps) =
      (p0.round, p0.value, decide ((p0 :: ps).length ≥ d.quorum)) := by
  unfold getSingleJustifiedPrPv
  rw [getSingle_go_skip d _ l1 [] 0 0 0 h1]
  rw [getSingleJustifiedPrPv.go]
  have hm := hall p0 List.mem_cons_self
  simp only [List.map_cons, List.nodup_cons] at hnd
  simp only [hm.1, ne_eq, not_true_eq_false, if_false, List.not_mem_nil, if_true]
  rw [getSingle_go_complete d p0.round p0.value ps [p0.src] 1 (by omega)
    (fun c hc => hall c (List.mem_cons_of_mem _ hc)) hnd.2]
  · simp only [List.length_cons]
    congr 3
    apply propext
    omega
  · intro c hc hmem
    simp only [List.mem_singleton] at hmem
    exact hnd.1 (List.mem_map.mpr ⟨c, hc, hmem⟩)

/-- a list without PREPAREs has no single justified (pr,pv). -/
theorem getSingle_no_prepare (d : Def) (hq : 1 ≤ d.quorum) (l : List Core)
    (h : ∀ c ∈ l, c.typ ≠ tPrepare) : getSingleJustifiedPrPv d l = (0, 0, false) := by
  unfold getSingleJustifiedPrPv
  have := getSingle_go_skip d [] l [] 0 0 0 h
  rw [List.append_nil] at this
  rw [this]
  simp [getSingleJustifiedPrPv.go]
  omega

/-! ### upsert -/

theorem upsert_keys {α β : Type} [BEq α] [LawfulBEq α] (l : List (α × β)) (k : α) (v : β) :
    (upsert l k v).map (·.1) =
      if l.any (fun e => e.1 == k) then l.map (·.1) else l.map (·.1) ++ [k] := by
  unfold upsert
  split
  · rw [List.map_map]
    apply List.map_congr_left
    intro e _
    simp only [Function.comp]
    split
    · rename_i h; exact (eq_of_beq h).symm
    · rfl
  · simp

theorem any_key_iff {α β : Type} [BEq α] [LawfulBEq α] (l : List (α × β)) (k : α) :
    l.any (fun e => e.1 == k) = true ↔ k ∈ l.map (·.1) := by
  simp only [List.any_eq_true, List.mem_map]
  constructor
  · rintro ⟨e, he, hk⟩; exact ⟨e, he, eq_of_beq hk⟩
  · rintro ⟨e, he, hk⟩; exact ⟨e, he, by simp [hk]⟩

theorem upsert_keys_nodup {α β : Type} [BEq α] [LawfulBEq α] {l : List (α × β)} (k : α) (v : β)
    (h : (l.map (·.1)).Nodup) : ((upsert l k v).map (·.1)).Nodup := by
  rw [upsert_keys]
  split
  · exact h
  · rename_i hany
    have hk : k ∉ l.map (·.1) := fun hm => hany ((any_key_iff l k).mpr hm)
    rw [List.nodup_append]
    refine ⟨h, by simp, ?_⟩
    intro a ha b hb
    simp only [List.mem_singleton] at hb
    subst hb
    intro hab; subst hab; exact hk ha

theorem upsert_key_mem {α β : Type} [BEq α] [LawfulBEq α] (l : List (α × β)) (k : α) (v : β) :
    k ∈ (upsert l k v).map (·.1) := by
  rw [upsert_keys]
  split
  · rename_i h; exact (any_key_iff l k).mp h
  · simp

theorem upsert_keys_mono {α β : Type} [BEq α] [LawfulBEq α] (l : List (α × β)) (k : α) (v : β)
    {x : α} (hx : x ∈ l.map (·.1)) : x ∈ (upsert l k v).map (·.1) := by
  rw [upsert_keys]
  split
  · exact hx
  · exact List.mem_append_left _ hx

theorem upsert_length_le {α β : Type} [BEq α] (l : List (α × β)) (k : α) (v : β) :
    (upsert l k v).length ≤ l.length + 1 := by
  unfold upsert; split <;> simp

/-! ### getPrepareQuorums: structure of the returned quorums -/

/-- a per-(round,value) set of the fold: one entry per source, all PREPAREs for that key. -/
def PQEntryOk (e : (Nat × Nat) × List (Nat × Core)) : Prop :=
  (e.2.map (·.1)).Nodup ∧
    ∀ x ∈ e.2, x.2.typ = tPrepare ∧ x.2.round = e.1.1 ∧ x.2.value = e.1.2 ∧ x.2.src = x.1

theorem pq_fold_ok (all : List Core) :
    ∀ (acc : List ((Nat × Nat) × List (Nat × Core))),
      (∀ e ∈ acc, PQEntryOk e) →
      ∀ e ∈ all.foldl (fun acc m =>
          if m.typ ≠ tPrepare then acc
          else
            let key := (m.round, m.value)
            let cur := match acc.find? (fun e => e.1 == key) with
                       | some e => e.2
                       | none => []
            upsert acc key (upsert cur m.src m)) acc,
        PQEntryOk e := by
  induction all with
  | nil => intro acc hacc e he; exact hacc e he
  | cons m ms ih =>
    intro acc hacc
    simp only [List.foldl_cons]
    apply ih
    split
    · exact hacc
    · rename_i hty
      have hty' : m.typ = tPrepare := by simpa using hty
      intro e he
      rcases mem_upsert he with he | rfl
      · exact hacc e he
      · -- the new / replaced entry
        have hcur : PQEntryOk ((m.round, m.value),
            match acc.find? (fun e => e.1 == (m.round, m.value)) with
            | some e => e.2
            | none => []) := by
          split
          · rename_i e0 hfind
            have he0 := hacc e0 (List.mem_of_find?_eq_some hfind)
            have hk : e0.1 = (m.round, m.value) := by
              have := List.find?_some hfind
              exact eq_of_beq this
            refine ⟨he0.1, ?_⟩
            intro x hx
            have := he0.2 x hx
            rw [hk] at this
            exact this
          · exact ⟨by simp, by simp⟩
        refine ⟨upsert_keys_nodup _ _ hcur.1, ?_⟩
        intro x hx
        rcases mem_upsert hx with hx | rfl
        · exact hcur.2 x hx
        · exact ⟨hty', rfl, rfl, rfl⟩

/-- every candidate quorum of `getPrepareQuorums`: source-unique, at least a quorum, all PREPAREs
for one (round, value). -/
theorem getPrepareQuorums_ok {d : Def} {k : Nat} {all : List Core} {q : List Core}
    (hq : q ∈ getPrepareQuorums d k all) :
    (q.map (·.src)).Nodup ∧ d.quorum ≤ q.length ∧
      ∃ r v, ∀ c ∈ q, c.typ = tPrepare ∧ c.round = r ∧ c.value = v := by
  unfold getPrepareQuorums at hq
  have hq' := mem_permK hq
  obtain ⟨e, he, rfl⟩ := List.mem_map.mp hq'
  have hef := List.mem_filter.mp he
  have hok := pq_fold_ok all [] (by simp) e hef.1
  refine ⟨?_, ?_, e.1.1, e.1.2, ?_⟩
  · rw [List.map_map]
    have hcongr : List.map ((fun c : Core => c.src) ∘ fun x : Nat × Core => x.2) e.2 = e.2.map (·.1) := by
      apply List.map_congr_left
      intro x hx
      exact (hok.2 x hx).2.2.2
    rw [hcongr]
    exact hok.1
  · have := hef.2
    simp only [decide_eq_true_eq] at this
    simpa using this
  · intro c hc
    obtain ⟨x, hx, rfl⟩ := List.mem_map.mp hc
    have := hok.2 x hx
    exact ⟨this.1, this.2.1, this.2.2.1⟩

/-! ### getJustifiedQrc -/

theorem tryQ_some (d : Def) (rcs : List Core) :
    ∀ (qs : List (List Core)) (j : List Core), getJustifiedQrc.tryQ d rcs qs = some j →
      ∃ p0 ps, (p0 :: ps) ∈ qs ∧
        j = rcs.filter (fun rc => decide (rc.pr ≤ p0.round)) ++ (p0 :: ps) ∧
        d.quorum ≤ (rcs.filter (fun rc => decide (rc.pr ≤ p0.round))).length ∧
        (rcs.filter (fun rc => decide (rc.pr ≤ p0.round))).any
          (fun rc => rc.pr == p0.round && rc.pv == p0.value) = true := by
  intro qs
  induction qs with
  | nil => intro j h; simp [getJustifiedQrc.tryQ] at h
  | cons q rest ih =>
    intro j h
    unfold getJustifiedQrc.tryQ at h
    cases q with
    | nil =>
      simp only at h
      obtain ⟨p0, ps, hm, hh⟩ := ih j h
      exact ⟨p0, ps, List.mem_cons_of_mem _ hm, hh⟩
    | cons p0 ps =>
      simp only at h
      split at h
      · rename_i hc
        simp only [Option.some.injEq] at h
        exact ⟨p0, ps, List.mem_cons_self, h.symm, hc.1, hc.2⟩
      · obtain ⟨p0', ps', hm, hh⟩ := ih j h
        exact ⟨p0', ps', List.mem_cons_of_mem _ hm, hh⟩

/-- Shape of a justification selected by `getJustifiedQrc`. -/
theorem getJustifiedQrc_shape {d : Def} {k : Nat} {all : List Core} {round : Nat} {j : List Core}
    (h : getJustifiedQrc d k all round = some j) :
    (j = filterMsgs all tRoundChange round none (some 0) (some 0) ∧ d.quorum ≤ j.length) ∨
    (∃ p0 ps qrc, j = qrc ++ (p0 :: ps) ∧ (p0 :: ps) ∈ getPrepareQuorums d k all ∧
      qrc = (filterRoundChange all round).filter (fun rc => decide (rc.pr ≤ p0.round)) ∧
      d.quorum ≤ qrc.length ∧ qrc.any (fun rc => rc.pr == p0.round && rc.pv == p0.value) = true) := by
  unfold getJustifiedQrc at h
  simp only at h
  split at h
  · rename_i hq
    simp only [Option.some.injEq] at h
    subst h
    exact Or.inl ⟨rfl, hq⟩
  · obtain ⟨p0, ps, hm, hj, hl, hany⟩ := tryQ_some d _ _ j h
    exact Or.inr ⟨p0, ps, _, hj, hm, rfl, hl, hany⟩

theorem tRoundChange_ne_tPrepare : tRoundChange ≠ tPrepare := by decide

/-- **Producer/verifier agreement for ROUND-CHANGE quorums.** A justification selected by
`getJustifiedQrc` passes `containsJustifiedQrc` for the same round, with the null value if it is
a null-prepared quorum (and then `getSingleJustifiedPrPv` fails on it), and otherwise with the
null value or exactly the value `getSingleJustifiedPrPv` extracts from it; that value and its round
are those of a PREPARE in the scanned list. -/
theorem getJustifiedQrc_contains (d : Def) (hq : 1 ≤ d.quorum) {k : Nat} {all : List Core}
    {round : Nat} {j : List Core} (h : getJustifiedQrc d k all round = some j) :
    (containsJustifiedQrc d j round = (0, true) ∧ getSingleJustifiedPrPv d j = (0, 0, false)) ∨
    (∃ pr pv, getSingleJustifiedPrPv d j = (pr, pv, true) ∧
      (containsJustifiedQrc d j round = (pv, true) ∨ containsJustifiedQrc d j round = (0, true)) ∧
      ∃ p ∈ all, p.typ = tPrepare ∧ p.round = pr ∧ p.value = pv) := by
  rcases getJustifiedQrc_shape h with ⟨hj, hlen⟩ | ⟨p0, ps, qrc, hj, hpq, hqrc, hlen, hany⟩
  · left
    have hall : ∀ c ∈ j, c.typ = tRoundChange ∧ c.round = round ∧ c.pr = 0 ∧ c.pv = 0 := by
      intro c hc
      rw [hj] at hc
      have := filterMsgs_sound hc
      exact ⟨this.2.1, this.2.2.1, this.2.2.2.2.1 0 rfl, this.2.2.2.2.2 0 rfl⟩
    constructor
    · unfold containsJustifiedQrc filterRoundChange
      have hid : filterMsgs j tRoundChange round none none none = j := by
        rw [hj]; exact filterMsgs_weaken _ _ _ _ _ _
      simp only [hid]
      rw [if_neg (by omega)]
      rw [if_pos]
      rw [List.all_eq_true]
      intro c hc
      have := hall c hc
      simp [this.2.2.1, this.2.2.2]
    · apply getSingle_no_prepare d hq
      intro c hc
      rw [(hall c hc).1]
      exact tRoundChange_ne_tPrepare
  · right
    obtain ⟨hnd, hplen, r, v, hpall⟩ := getPrepareQuorums_ok hpq
    have hp0 := hpall p0 List.mem_cons_self
    have hpall' : ∀ c ∈ p0 :: ps, c.typ = tPrepare ∧ c.round = p0.round ∧ c.value = p0.value := by
      intro c hc
      have := hpall c hc
      exact ⟨this.1, by rw [this.2.1, hp0.2.1], by rw [this.2.2, hp0.2.2]⟩
    have hqrcall : ∀ c ∈ qrc, c.typ = tRoundChange ∧ c.round = round ∧ c.pr ≤ p0.round := by
      intro c hc
      rw [hqrc] at hc
      have hf := List.mem_filter.mp hc
      have := filterMsgs_sound hf.1
      exact ⟨this.2.1, this.2.2.1, by simpa using hf.2⟩
    have hqrcnd : (qrc.map (·.src)).Nodup := by
      rw [hqrc]
      exact List.Nodup.sublist (List.Sublist.map _ List.filter_sublist) (filterMsgs_nodup _ _ _ _ _ _)
    have hsingle : getSingleJustifiedPrPv d j = (p0.round, p0.value, true) := by
      rw [hj, getSingle_complete d qrc p0 ps _ hpall' hnd]
      · simp only [Prod.mk.injEq, decide_eq_true_eq, true_and]; exact hplen
      · intro c hc
        rw [(hqrcall c hc).1]
        exact tRoundChange_ne_tPrepare
    refine ⟨p0.round, p0.value, hsingle, ?_, p0, mem_getPrepareQuorums hpq List.mem_cons_self,
      hp0.1, rfl, rfl⟩
    have hid : filterMsgs j tRoundChange round none none none = qrc := by
      rw [hj, filterMsgs_append_other]
      · apply filterMsgs_id _ hqrcnd
        intro c hc
        have := hqrcall c hc
        exact ⟨this.1, this.2.1, by simp, by simp, by simp⟩
      · intro c hc
        rw [(hpall' c hc).1]
        exact fun h => tRoundChange_ne_tPrepare h.symm
    unfold containsJustifiedQrc filterRoundChange
    simp only [hid, hsingle]
    rw [if_neg (by omega)]
    split
    · right; rfl
    · left
      simp only [Bool.not_true, Bool.false_eq_true, if_false]
      rw [if_neg]
      · rw [hany]
      · simp only [List.any_eq_true, decide_eq_true_eq, not_exists, not_and]
        intro c hc
        have := (hqrcall c hc).2.2
        omega

/-- size of a selected justification: at most one ROUND-CHANGE and one PREPARE per member. -/
theorem getJustifiedQrc_length (d : Def) {k : Nat} {all : List Core} {round : Nat} {j : List Core}
    (hsrc : ∀ c ∈ all, c.src < d.nodes) (h : getJustifiedQrc d k all round = some j) :
    j.length ≤ 2 * d.nodes := by
  rcases getJustifiedQrc_shape h with ⟨hj, _⟩ | ⟨p0, ps, qrc, hj, hpq, hqrc, _, _⟩
  · have := filterMsgs_length_le d (typ := tRoundChange) (round := round) (value := none)
      (pr := some 0) (pv := some 0) hsrc
    rw [hj]; omega
  · have h1 : qrc.length ≤ d.nodes := by
      rw [hqrc]
      have := filterMsgs_length_le d (typ := tRoundChange) (round := round) (value := none)
        (pr := none) (pv := none) hsrc
      have h2 := List.length_filter_le (fun rc : Core => decide (rc.pr ≤ p0.round))
        (filterRoundChange all round)
      unfold filterRoundChange at h2 ⊢
      omega
    have h2 : (p0 :: ps).length ≤ d.nodes :=
      nodup_lt_length (·.src) d.nodes _ (getPrepareQuorums_ok hpq).1
        (fun c hc => hsrc c (mem_getPrepareQuorums hpq hc))
    rw [hj, List.length_append]
    omega

/-! ### getFPlus1RoundChanges: soundness and completeness -/

theorem fplus1_go_sound (d : Def) (round : Nat) :
    ∀ (l : List Core) (hi : List (Nat × Core)),
      (∀ e ∈ hi, e.2.typ = tRoundChange ∧ round < e.2.round) →
      ∀ e ∈ getFPlus1RoundChanges.go d round hi l, e.2.typ = tRoundChange ∧ round < e.2.round := by
  intro l
  induction l with
  | nil => intro hi h e he; simp only [getFPlus1RoundChanges.go] at he; exact h e he
  | cons m ms ih =>
    intro hi h
    have hup : ∀ e ∈ upsert hi m.src m, m.typ = tRoundChange → round < m.round →
        e.2.typ = tRoundChange ∧ round < e.2.round := by
      intro e he h1 h2
      rcases mem_upsert he with he | rfl
      · exact h e he
      · exact ⟨h1, h2⟩
    unfold getFPlus1RoundChanges.go
    split
    · exact ih hi h
    · rename_i hty
      split
      · exact ih hi h
      · rename_i hrd
        have h1 : m.typ = tRoundChange := by simpa using hty
        have h2 : round < m.round := by omega
        split
        · split
          · exact ih hi h
          · simp only
            split
            · intro e he; exact hup e he h1 h2
            · exact ih _ (fun e he => hup e he h1 h2)
        · simp only
          split
          · intro e he; exact hup e he h1 h2
          · exact ih _ (fun e he => hup e he h1 h2)

theorem fplus1_go_complete (d : Def) (round : Nat) :
    ∀ (l : List Core) (hi : List (Nat × Core)) (S : List Nat), S.Nodup → d.faulty + 1 ≤ S.length →
      hi.length ≤ d.faulty →
      (∀ s ∈ S, s ∈ hi.map (·.1) ∨ ∃ c ∈ l, c.typ = tRoundChange ∧ c.src = s ∧ round < c.round) →
      d.faulty + 1 ≤ (getFPlus1RoundChanges.go d round hi l).length := by
  intro l
  induction l with
  | nil =>
    intro hi S hnd hlen hhi hS
    exfalso
    have := nodup_subset_length S (hi.map (·.1)) hnd (by
      intro s hs
      rcases hS s hs with h | ⟨c, hc, _⟩
      · exact h
      · cases hc)
    simp only [List.length_map] at this
    omega
  | cons m ms ih =>
    intro hi S hnd hlen hhi hS
    -- skipping `m` is fine when it is irrelevant or its source is already recorded
    have hskip : (¬ (m.typ = tRoundChange ∧ round < m.round) ∨ m.src ∈ hi.map (·.1)) →
        d.faulty + 1 ≤ (getFPlus1RoundChanges.go d round hi ms).length := by
      intro hirr
      apply ih hi S hnd hlen hhi
      intro s hs
      rcases hS s hs with h | ⟨c, hc, h1, h2, h3⟩
      · exact Or.inl h
      · rcases List.mem_cons.mp hc with rfl | hc'
        · rcases hirr with hirr | hirr
          · exact absurd ⟨h1, h3⟩ hirr
          · exact Or.inl (h2 ▸ hirr)
        · exact Or.inr ⟨c, hc', h1, h2, h3⟩
    -- recording `m`
    have hrec : d.faulty + 1 ≤
        (if (upsert hi m.src m).length = d.faulty + 1 then upsert hi m.src m
         else getFPlus1RoundChanges.go d round (upsert hi m.src m) ms).length := by
      split
      · omega
      · rename_i hne
        have hle := upsert_length_le hi m.src m
        apply ih _ S hnd hlen (by omega)
        intro s hs
        rcases hS s hs with h | ⟨c, hc, h1, h2, h3⟩
        · exact Or.inl (upsert_keys_mono hi m.src m h)
        · rcases List.mem_cons.mp hc with rfl | hc'
          · exact Or.inl (h2 ▸ upsert_key_mem hi c.src c)
          · exact Or.inr ⟨c, hc', h1, h2, h3⟩
    unfold getFPlus1RoundChanges.go
    split
    · rename_i hty
      exact hskip (Or.inl (fun h => hty h.1))
    · split
      · rename_i hrd
        exact hskip (Or.inl (fun h => by omega))
      · split
        · rename_i e hfind
          split
          · apply hskip
            right
            have hk : e.1 = m.src := by
              have := List.find?_some hfind
              exact eq_of_beq this
            exact List.mem_map.mpr ⟨e, List.mem_of_find?_eq_some hfind, hk⟩
          · exact hrec
        · exact hrec

/-- everything `getFPlus1RoundChanges` returns is a ROUND-CHANGE above the current round, and
there are at least `f+1` of them. -/
theorem getFPlus1_sound {d : Def} {all : List Core} {round : Nat} {frc : List Core}
    (h : getFPlus1RoundChanges d all round = some frc) :
    d.faulty + 1 ≤ frc.length ∧ ∀ c ∈ frc, c.typ = tRoundChange ∧ round < c.round := by
  unfold getFPlus1RoundChanges at h
  simp only at h
  split at h
  · cases h
  · rename_i hlen
    simp only [Option.some.injEq] at h
    subst h
    refine ⟨by simp only [List.length_map]; omega, ?_⟩
    intro c hc
    obtain ⟨e, he, rfl⟩ := List.mem_map.mp hc
    exact fplus1_go_sound d round all [] (by simp) e he

/-- **Completeness of the F+1 detection**: if the scanned list (in any order) holds ROUND-CHANGEs
for rounds above the current one from at least `f+1` distinct sources, the rule fires. -/
theorem getFPlus1_complete (d : Def) (all : List Core) (round : Nat) (S : List Nat) (hS : S.Nodup)
    (hlen : d.faulty + 1 ≤ S.length)
    (h : ∀ s ∈ S, ∃ c ∈ all, c.typ = tRoundChange ∧ c.src = s ∧ round < c.round) :
    ∃ frc, getFPlus1RoundChanges d all round = some frc := by
  have := fplus1_go_complete d round all [] S hS hlen (by simp) (fun s hs => Or.inr (h s hs))
  unfold getFPlus1RoundChanges
  simp only
  rw [if_neg (by omega)]
  exact ⟨_, rfl⟩

/-- the result of the F+1 detection always lets `nextMinRound` succeed (no "bug:" panic), and
the round it yields is strictly above the current one. -/
theorem nextMinRound_of_fplus1 {d : Def} {all : List Core} {round : Nat} {frc : List Core}
    (h : getFPlus1RoundChanges d all round = some frc) :
    ∃ nr, nextMinRound d frc round = some nr ∧ round < nr := by
  obtain ⟨hlen, hall⟩ := getFPlus1_sound h
  have hex : ∃ nr, nextMinRound d frc round = some nr := by
    unfold nextMinRound
    rw [if_neg (by omega)]
    rw [if_neg]
    · cases frc with
      | nil => simp at hlen
      | cons m ms => exact ⟨_, rfl⟩
    · simp only [List.any_eq_true, not_exists, not_and]
      intro c hc
      have := hall c hc
      simp [this.1]
      omega
  obtain ⟨nr, hnr⟩ := hex
  exact ⟨nr, hnr, nextMinRound_gt hnr⟩

end CharonV.Qbft
