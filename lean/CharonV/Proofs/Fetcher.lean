/-
Helper lemmas and invariants for the fetcher model (`CharonV.Model.Fetcher`); the property theorems are in
`CharonV.Props.C18Fetch`.
-/
import CharonV.Model.Fetcher

namespace CharonV.Fetcher

/-! ### sets -/

def ukeys (s : USet) : List PK := s.map (·.1)

theorem mem_uerase {s : USet} {pk : PK} {p : PK × UVal} : p ∈ uerase s pk ↔ p ∈ s ∧ p.1 ≠ pk := by
  simp [uerase, List.mem_filter]

theorem mem_uinsert {s : USet} {pk : PK} {v : UVal} {p : PK × UVal} :
    p ∈ uinsert s pk v ↔ p = (pk, v) ∨ (p ∈ s ∧ p.1 ≠ pk) := by
  simp [uinsert, mem_uerase]

theorem mem_ukeys {s : USet} {q : PK} : q ∈ ukeys s ↔ ∃ v, (q, v) ∈ s := by
  simp [ukeys]

theorem mem_ukeys_uinsert {s : USet} {pk q : PK} {v : UVal} :
    q ∈ ukeys (uinsert s pk v) ↔ q = pk ∨ q ∈ ukeys s := by
  constructor
  · intro h
    obtain ⟨w, hw⟩ := mem_ukeys.mp h
    rcases mem_uinsert.mp hw with h1 | ⟨h1, _⟩
    · left; cases h1; rfl
    · right; exact mem_ukeys.mpr ⟨w, h1⟩
  · intro h
    by_cases hq : q = pk
    · subst hq; exact mem_ukeys.mpr ⟨v, mem_uinsert.mpr (Or.inl rfl)⟩
    · rcases h with h | h
      · exact absurd h hq
      · obtain ⟨w, hw⟩ := mem_ukeys.mp h
        exact mem_ukeys.mpr ⟨w, mem_uinsert.mpr (Or.inr ⟨hw, hq⟩)⟩

/-- a set whose keys are pairwise different (what a Go map is) -/
def UNodup (s : USet) : Prop := (ukeys s).Nodup

theorem unodup_nil : UNodup [] := List.nodup_nil

theorem ukeys_uerase_sub {s : USet} {pk q : PK} (h : q ∈ ukeys (uerase s pk)) : q ∈ ukeys s ∧ q ≠ pk := by
  obtain ⟨w, hw⟩ := mem_ukeys.mp h
  obtain ⟨h1, h2⟩ := mem_uerase.mp hw
  exact ⟨mem_ukeys.mpr ⟨w, h1⟩, h2⟩

theorem unodup_uerase {s : USet} {pk : PK} (h : UNodup s) : UNodup (uerase s pk) := by
  unfold UNodup ukeys uerase at *
  induction s with
  | nil => simp
  | cons a r ih =>
    simp only [List.map_cons, List.nodup_cons] at h
    simp only [List.filter_cons]
    split
    · simp only [List.map_cons, List.nodup_cons]
      refine ⟨fun hm => h.1 ?_, ih h.2⟩
      obtain ⟨x, hx, hxa⟩ := List.mem_map.mp hm
      exact List.mem_map.mpr ⟨x, (List.mem_filter.mp hx).1, hxa⟩
    · exact ih h.2

theorem unodup_uinsert {s : USet} {pk : PK} {v : UVal} (h : UNodup s) : UNodup (uinsert s pk v) := by
  have h1 := unodup_uerase (pk := pk) h
  unfold UNodup ukeys uinsert at *
  simp only [List.map_cons, List.nodup_cons]
  refine ⟨fun hm => ?_, h1⟩
  exact (ukeys_uerase_sub (s := s) (pk := pk) hm).2 rfl

theorem ulookup_eq_some_of_mem {s : USet} {pk : PK} {v : UVal} (hn : UNodup s) (h : (pk, v) ∈ s) :
    ulookup s pk = some v := by
  unfold ulookup
  induction s with
  | nil => cases h
  | cons a r ih =>
    simp only [UNodup, ukeys, List.map_cons, List.nodup_cons] at hn
    simp only [List.find?_cons]
    rcases List.mem_cons.mp h with h1 | h1
    · subst h1; simp
    · have hne : a.1 ≠ pk := by
        intro he
        exact hn.1 (he ▸ List.mem_map.mpr ⟨(pk, v), h1, rfl⟩)
      have : (a.1 == pk) = false := by simpa using hne
      simp only [this]
      exact ih hn.2 h1

theorem ulookup_mem {s : USet} {pk : PK} {v : UVal} (h : ulookup s pk = some v) : (pk, v) ∈ s := by
  unfold ulookup at h
  split at h
  · rename_i p hp
    cases h
    have h1 := List.find?_some hp
    have h2 := List.mem_of_find?_eq_some hp
    have : p.1 = pk := by simpa using h1
    cases p
    simp only at this
    subst this
    exact h2
  · cases h

theorem ulookup_none_of_not_mem {s : USet} {pk : PK} (h : pk ∉ ukeys s) : ulookup s pk = none := by
  cases hl : ulookup s pk with
  | none => rfl
  | some v => exact absurd (mem_ukeys.mpr ⟨v, ulookup_mem hl⟩) h

/-! ### heaps -/

theorem hset_same {h : Heap} {c : Cell} {v : Content} : hset h c v c = v := by simp [hset]

theorem hset_other {h : Heap} {c x : Cell} {v : Content} (hx : x ≠ c) : hset h c v x = h x := by simp [hset, hx]

theorem scribble_not_mem {h : Heap} {cs : List Cell} {c : Cell} (hc : c ∉ cs) : scribbleCells h cs c = h c := by
  simp [scribbleCells, hc]

theorem scribble_bad {h : Heap} {cs : List Cell} {c : Cell} : (scribbleCells h cs c).bad = (h c).bad := by
  unfold scribbleCells; split <;> rfl

theorem scribble_congr {h1 h2 : Heap} {cs : List Cell} {c : Cell} (hc : h1 c = h2 c) :
    scribbleCells h1 cs c = scribbleCells h2 cs c := by
  unfold scribbleCells; rw [hc]

/-- keys of a write list -/
def wkeys (w : List (Cell × Content)) : List Cell := w.map (·.1)

theorem applyWrites_not_mem {h : Heap} : ∀ {w : List (Cell × Content)} {c : Cell}, c ∉ wkeys w → applyWrites h w c = h c
  | [], _, _ => rfl
  | (k, v) :: r, c, hc => by
    simp only [wkeys, List.map_cons, List.mem_cons, not_or] at hc
    simp only [applyWrites]
    rw [hset_other hc.1]
    exact applyWrites_not_mem hc.2

theorem applyWrites_congr {h1 h2 : Heap} : ∀ {w : List (Cell × Content)} {c : Cell}, h1 c = h2 c →
    applyWrites h1 w c = applyWrites h2 w c
  | [], _, hc => hc
  | (k, v) :: r, c, hc => by
    simp only [applyWrites, hset]
    split
    · rfl
    · exact applyWrites_congr hc

theorem applyWrites_mem_indep {h1 h2 : Heap} : ∀ {w : List (Cell × Content)} {c : Cell}, c ∈ wkeys w →
    applyWrites h1 w c = applyWrites h2 w c
  | [], _, hc => by cases hc
  | (k, v) :: r, c, hc => by
    simp only [applyWrites, hset]
    split
    · rfl
    · rename_i hne
      simp only [wkeys, List.map_cons, List.mem_cons] at hc
      rcases hc with hc | hc
      · exact absurd hc hne
      · exact applyWrites_mem_indep hc

theorem applyWrites_of_lt {h : Heap} {w : List (Cell × Content)} {c n : Nat}
    (hw : ∀ k : Nat, k ∈ wkeys w → n ≤ k) (hc : c < n) : applyWrites h w c = h c :=
  applyWrites_not_mem (fun hm => by have := hw c hm; omega)

/-- the content a write list gives a cell (its newest write) -/
def wlookup (c : Cell) : List (Cell × Content) → Option Content
  | [] => none
  | (k, v) :: r => if k = c then some v else wlookup c r

theorem applyWrites_of_wlookup {h : Heap} : ∀ {w : List (Cell × Content)} {c : Cell} {x : Content},
    wlookup c w = some x → applyWrites h w c = x
  | [], _, _, hx => by cases hx
  | (k, v) :: r, c, x, hx => by
    simp only [wlookup] at hx
    simp only [applyWrites, hset]
    by_cases hk : k = c
    · simp only [hk, if_true] at hx
      cases hx
      simp [hk]
    · simp only [hk, if_false] at hx
      have : ¬ c = k := fun e => hk e.symm
      simp only [this, if_false]
      exact applyWrites_of_wlookup hx

theorem wlookup_mem_keys : ∀ {w : List (Cell × Content)} {c : Cell} {x : Content}, wlookup c w = some x → c ∈ wkeys w
  | [], _, _, hx => by cases hx
  | (k, v) :: r, c, x, hx => by
    simp only [wlookup] at hx
    simp only [wkeys, List.map_cons, List.mem_cons]
    by_cases hk : k = c
    · left; exact hk.symm
    · simp only [hk, if_false] at hx
      right; exact wlookup_mem_keys hx

/-! ### the per-call state only grows -/

structure Ext (a b : LSt) : Prop where
  log    : a.log <:+ b.log
  next   : a.next ≤ b.next
  bn     : a.bn <:+ b.bn
  writes : a.writes <:+ b.writes

theorem Ext.refl (a : LSt) : Ext a a := ⟨List.suffix_refl _, Nat.le_refl _, List.suffix_refl _, List.suffix_refl _⟩

theorem Ext.trans {a b c : LSt} (h1 : Ext a b) (h2 : Ext b c) : Ext a c :=
  ⟨h1.log.trans h2.log, Nat.le_trans h1.next h2.next, h1.bn.trans h2.bn, h1.writes.trans h2.writes⟩

theorem ext_call (st : LSt) (c : Call) : Ext st (st.call c) :=
  ⟨List.suffix_cons _ _, Nat.le_refl _, List.suffix_refl _, List.suffix_refl _⟩

theorem ext_alloc (st : LSt) (x : Content) : Ext st (st.alloc x) :=
  ⟨List.suffix_refl _, Nat.le_succ _, List.suffix_cons _ _, List.suffix_cons _ _⟩

theorem ext_dc (st : LSt) (dc : List (DKey × (Cell × Nat))) : Ext st { st with dc := dc } :=
  ⟨List.suffix_refl _, Nat.le_refl _, List.suffix_refl _, List.suffix_refl _⟩

/-- well-formed per-call state: everything allocated in this call lies in `[base, next)`, one write per cell -/
structure WF (base : Nat) (st : LSt) : Prop where
  base_le : base ≤ st.next
  bn_rng  : ∀ c : Nat, c ∈ st.bn → base ≤ c ∧ c < st.next
  wk_rng  : ∀ c : Nat, c ∈ wkeys st.writes → base ≤ c ∧ c < st.next
  dc_rng  : ∀ p ∈ st.dc, p.2.1 ∈ st.bn
  bn_wk   : ∀ c : Nat, c ∈ st.bn → c ∈ wkeys st.writes

theorem wf_start (n : Nat) : WF n (LSt.start n) := by
  constructor <;> simp [LSt.start, wkeys]

theorem wf_call {base : Nat} {st : LSt} (h : WF base st) (c : Call) : WF base (st.call c) :=
  ⟨h.base_le, h.bn_rng, h.wk_rng, h.dc_rng, h.bn_wk⟩

theorem wf_alloc {base : Nat} {st : LSt} (h : WF base st) (x : Content) : WF base (st.alloc x) := by
  constructor
  · show base ≤ st.next + 1
    have := h.base_le; omega
  · intro c hc
    simp only [LSt.alloc, List.mem_cons] at hc
    show base ≤ c ∧ c < st.next + 1
    rcases hc with hc | hc
    · have := h.base_le; omega
    · have := h.bn_rng c hc; omega
  · intro c hc
    simp only [LSt.alloc, wkeys, List.map_cons, List.mem_cons] at hc
    show base ≤ c ∧ c < st.next + 1
    rcases hc with hc | hc
    · have := h.base_le; omega
    · have := h.wk_rng c hc; omega
  · intro p hp
    simp only [LSt.alloc, List.mem_cons]
    exact Or.inr (h.dc_rng p hp)
  · intro c hc
    simp only [LSt.alloc, wkeys, List.map_cons, List.mem_cons] at hc ⊢
    rcases hc with hc | hc
    · exact Or.inl hc
    · exact Or.inr (h.bn_wk c hc)

/-- registering the newest response object in the de-duplication table -/
theorem wf_alloc_dc {base : Nat} {st : LSt} (h : WF base st) (x : Content) (k : DKey) (r : Nat) :
    WF base { st.alloc x with dc := (k, (st.next, r)) :: (st.alloc x).dc } := by
  have h1 := wf_alloc h x
  refine ⟨h1.base_le, h1.bn_rng, h1.wk_rng, ?_, h1.bn_wk⟩
  intro p hp
  simp only [List.mem_cons] at hp
  rcases hp with hp | hp
  · subst hp
    simp [LSt.alloc]
  · exact h1.dc_rng p hp

theorem dlookup_mem {k : DKey} : ∀ {l : List (DKey × (Cell × Nat))} {v : Cell × Nat}, dlookup k l = some v → (k, v) ∈ l
  | [], _, h => by cases h
  | (k', v') :: r, v, h => by
    simp only [dlookup] at h
    by_cases hk : k' = k
    · simp only [hk, if_true] at h
      cases h
      simp [hk]
    · simp only [hk, if_false] at h
      exact List.mem_cons_of_mem _ (dlookup_mem h)

/-! ### the loop bodies: growth, well-formedness, where the cells of a value come from -/

theorem ext_alloc_dc (st : LSt) (x : Content) (dc : List (DKey × (Cell × Nat))) : Ext st { st.alloc x with dc := dc } :=
  (ext_alloc st x).trans (ext_dc _ _)

/-- closes `Ext st st'` goals where `st'` is `st` after some calls and at most one allocation -/
macro "ext_tac" : tactic => `(tactic| first
    | exact Ext.refl _
    | exact ext_call _ _
    | exact (ext_call _ _).trans (ext_call _ _)
    | exact ((ext_call _ _).trans (ext_call _ _)).trans (ext_call _ _)
    | exact (((ext_call _ _).trans (ext_call _ _)).trans (ext_call _ _)).trans (ext_call _ _)
    | exact (ext_call _ _).trans (ext_alloc _ _)
    | exact ((ext_call _ _).trans (ext_call _ _)).trans (ext_alloc _ _)
    | exact (((ext_call _ _).trans (ext_call _ _)).trans (ext_call _ _)).trans (ext_alloc _ _)
    | exact (ext_call _ _).trans (ext_alloc_dc _ _ _)
    | exact ((((ext_call _ _).trans (ext_call _ _)).trans (ext_call _ _)).trans (ext_call _ _)).trans (ext_alloc_dc _ _ _))

theorem attOne_ext (cfg : Cfg) (env : Env) (addr slot : Nat) (pk : PK) (d : Def) (st : LSt) :
    Ext st (attOne cfg env addr slot pk d st).st := by
  unfold attOne
  repeat' (first | split | dsimp only)
  all_goals ext_tac

theorem aggOne_ext (env : Env) (slot : Nat) (pk : PK) (d : Def) (st : LSt) :
    Ext st (aggOne env slot pk d st).st := by
  unfold aggOne
  repeat' (first | split | dsimp only)
  all_goals ext_tac

theorem propOne_ext (cfg : Cfg) (env : Env) (slot : Nat) (pk : PK) (d : Def) (st : LSt) :
    Ext st (propOne cfg env slot pk d st).st := by
  unfold propOne
  repeat' (first | split | dsimp only)
  all_goals ext_tac

theorem subOne_ext (env : Env) (slot : Nat) (pk : PK) (sub : Nat) (st : LSt) :
    Ext st (subOne env slot pk sub st).st := by
  unfold subOne
  repeat' (first | split | dsimp only)
  all_goals ext_tac

macro "wf_tac" : tactic => `(tactic| (repeat (first | assumption | apply wf_alloc_dc | apply wf_alloc | apply wf_call)))

theorem attOne_wf {base : Nat} (cfg : Cfg) (env : Env) (addr slot : Nat) (pk : PK) (d : Def) (st : LSt) (h : WF base st) :
    WF base (attOne cfg env addr slot pk d st).st := by
  unfold attOne
  repeat' (first | split | dsimp only)
  all_goals (simp only [Step.st]; wf_tac)

theorem aggOne_wf {base : Nat} (env : Env) (slot : Nat) (pk : PK) (d : Def) (st : LSt) (h : WF base st) :
    WF base (aggOne env slot pk d st).st := by
  unfold aggOne
  repeat' (first | split | dsimp only)
  all_goals (simp only [Step.st]; wf_tac)

theorem propOne_wf {base : Nat} (cfg : Cfg) (env : Env) (slot : Nat) (pk : PK) (d : Def) (st : LSt) (h : WF base st) :
    WF base (propOne cfg env slot pk d st).st := by
  unfold propOne
  repeat' (first | split | dsimp only)
  all_goals (simp only [Step.st]; wf_tac)

theorem subOne_wf {base : Nat} (env : Env) (slot : Nat) (pk : PK) (sub : Nat) (st : LSt) (h : WF base st) :
    WF base (subOne env slot pk sub st).st := by
  unfold subOne
  repeat' (first | split | dsimp only)
  all_goals (simp only [SubStep.st]; wf_tac)

theorem dc_cell_mem {base : Nat} {st : LSt} (h : WF base st) {k : DKey} {c : Cell} {r : Nat}
    (hl : dlookup k st.dc = some (c, r)) : c ∈ st.bn := h.dc_rng _ (dlookup_mem hl)

theorem attOne_cells {base : Nat} (cfg : Cfg) (env : Env) (addr slot : Nat) (pk : PK) (d : Def) (st st' : LSt) (v : UVal)
    (h : WF base st) (hp : attOne cfg env addr slot pk d st = .put st' v) : ∀ c ∈ v.cells, c ∈ st'.bn := by
  unfold attOne at hp
  repeat' (first | split at hp | dsimp only at hp)
  all_goals try (cases hp)
  · intro c hc
    simp only [UVal.cells, List.mem_singleton] at hc
    subst hc
    exact dc_cell_mem h ‹_›
  · intro c hc
    simp only [UVal.cells, List.mem_singleton] at hc
    subst hc
    simp [LSt.alloc, LSt.call]

theorem aggOne_cells {base : Nat} (env : Env) (slot : Nat) (pk : PK) (d : Def) (st st' : LSt) (v : UVal)
    (h : WF base st) (hp : aggOne env slot pk d st = .put st' v) : ∀ c ∈ v.cells, c ∈ st'.bn := by
  unfold aggOne at hp
  repeat' (first | split at hp | dsimp only at hp)
  all_goals try (cases hp)
  · intro c hc
    simp only [UVal.cells, List.mem_singleton] at hc
    subst hc
    have hw : WF base ((st.call (Call.aggSig AskKind.prepAgg slot pk 0)).call Call.spec) := by wf_tac
    exact dc_cell_mem hw ‹_›
  · intro c hc
    simp only [UVal.cells, List.mem_singleton] at hc
    subst hc
    simp [LSt.alloc, LSt.call]

theorem propOne_cells (cfg : Cfg) (env : Env) (slot : Nat) (pk : PK) (d : Def) (st st' : LSt) (v : UVal)
    (hp : propOne cfg env slot pk d st = .put st' v) : ∀ c ∈ v.cells, c ∈ st'.bn := by
  unfold propOne at hp
  repeat' (first | split at hp | dsimp only at hp)
  all_goals try (cases hp)
  all_goals
    intro c hc
    simp only [UVal.cells, List.mem_singleton] at hc
    subst hc
    simp [LSt.alloc, LSt.call]

theorem subOne_cells {base : Nat} (env : Env) (slot : Nat) (pk : PK) (sub : Nat) (st st' : LSt) (c : Cell)
    (h : WF base st) (hp : subOne env slot pk sub st = .got st' c) : c ∈ st'.bn := by
  unfold subOne at hp
  repeat' (first | split at hp | dsimp only at hp)
  all_goals try (cases hp)
  · have hw : WF base (((st.call (Call.aggSig AskKind.prepSync slot pk sub)).call Call.spec).call (Call.aggSig AskKind.syncMsg slot pk 0)) := by wf_tac
    exact dc_cell_mem hw ‹_›
  · simp [LSt.alloc, LSt.call]

theorem mem_of_suffix {α : Type} {a b : List α} (h : a <:+ b) {x : α} (hx : x ∈ a) : x ∈ b := h.subset hx

theorem subLoop_good {base : Nat} (env : Env) (slot : Nat) (v2 : Bool) (pk : PK) :
    ∀ (subs : List Nat) (st : LSt) (acc : List Cell), WF base st → (∀ c ∈ acc, c ∈ st.bn) →
      Ext st (subLoop env slot v2 pk subs st acc).1 ∧ WF base (subLoop env slot v2 pk subs st acc).1 ∧
      ∀ l, (subLoop env slot v2 pk subs st acc).2 = .ok l → ∀ c ∈ l, c ∈ (subLoop env slot v2 pk subs st acc).1.bn
  | [], st, acc, hw, hacc => by
    simp only [subLoop]
    exact ⟨Ext.refl _, hw, fun l hl c hc => by cases hl; exact hacc c hc⟩
  | sub :: rest, st, acc, hw, hacc => by
    have hext := subOne_ext env slot pk sub st
    have hwf := subOne_wf env slot pk sub st hw
    simp only [subLoop]
    cases hso : subOne env slot pk sub st with
    | fail st' e =>
      rw [hso] at hext hwf
      simp only [SubStep.st] at hext hwf
      cases e with
      | err e => exact ⟨hext, hwf, fun l hl => by cases hl⟩
      | ok u => exact ⟨hext, hwf, fun l hl => by cases hl⟩
      | panic => exact ⟨hext, hwf, fun l hl => by cases hl⟩
    | notAgg st' =>
      rw [hso] at hext hwf
      simp only [SubStep.st] at hext hwf
      have ih := subLoop_good env slot v2 pk rest st' acc hwf (fun c hc => mem_of_suffix hext.bn (hacc c hc))
      exact ⟨hext.trans ih.1, ih.2.1, ih.2.2⟩
    | got st' c =>
      rw [hso] at hext hwf
      simp only [SubStep.st] at hext hwf
      have hc := subOne_cells env slot pk sub st st' c hw hso
      have hacc' : ∀ x ∈ acc ++ [c], x ∈ st'.bn := by
        intro x hx
        rcases List.mem_append.mp hx with hx | hx
        · exact mem_of_suffix hext.bn (hacc x hx)
        · simp only [List.mem_singleton] at hx; subst hx; exact hc
      cases v2 with
      | true =>
        simp only [if_true]
        have ih := subLoop_good env slot true pk rest st' (acc ++ [c]) hwf hacc'
        exact ⟨hext.trans ih.1, ih.2.1, ih.2.2⟩
      | false =>
        simp only [Bool.false_eq_true, if_false]
        exact ⟨hext, hwf, fun l hl x hx => by cases hl; exact hacc' x hx⟩

theorem syncOne_good {base : Nat} (env : Env) (slot : Nat) (v2 : Bool) (size : Nat) (pk : PK) (d : Def) (st : LSt)
    (hw : WF base st) :
    Ext st (syncOne env slot v2 size pk d st).st ∧ WF base (syncOne env slot v2 size pk d st).st ∧
    ∀ st' v, syncOne env slot v2 size pk d st = .put st' v → ∀ c ∈ v.cells, c ∈ st'.bn := by
  unfold syncOne
  split
  · rename_i vi idxs
    have hg := subLoop_good env slot v2 pk (subsOf idxs size) st [] hw (fun c hc => by cases hc)
    dsimp only
    split
    · exact ⟨hg.1, hg.2.1, fun st' v h => by cases h⟩
    · exact ⟨hg.1, hg.2.1, fun st' v h => by cases h⟩
    · exact ⟨hg.1, hg.2.1, fun st' v h => by cases h⟩
    · rename_i c cs heq
      have hc := hg.2.2 _ heq
      split
      · refine ⟨hg.1, hg.2.1, fun st' v h => ?_⟩
        cases h
        exact hc
      · refine ⟨hg.1, hg.2.1, fun st' v h => ?_⟩
        cases h
        intro x hx
        simp only [UVal.cells, List.mem_singleton] at hx
        subst hx
        exact hc _ List.mem_cons_self
  · exact ⟨Ext.refl _, hw, fun st' v h => by cases h⟩

/-- what every loop body guarantees -/
structure Good (base : Nat) (one : PK → Def → LSt → Step) : Prop where
  ext   : ∀ pk d st, WF base st → Ext st (one pk d st).st
  wf    : ∀ pk d st, WF base st → WF base (one pk d st).st
  cells : ∀ pk d st st' v, WF base st → one pk d st = .put st' v → ∀ c ∈ v.cells, c ∈ st'.bn

theorem good_att (base : Nat) (cfg : Cfg) (env : Env) (addr slot : Nat) : Good base (attOne cfg env addr slot) :=
  ⟨fun pk d st _ => attOne_ext cfg env addr slot pk d st, attOne_wf cfg env addr slot, fun pk d st st' v h hp => attOne_cells cfg env addr slot pk d st st' v h hp⟩

theorem good_agg (base : Nat) (env : Env) (slot : Nat) : Good base (aggOne env slot) :=
  ⟨fun pk d st _ => aggOne_ext env slot pk d st, aggOne_wf env slot, fun pk d st st' v h hp => aggOne_cells env slot pk d st st' v h hp⟩

theorem good_prop (base : Nat) (cfg : Cfg) (env : Env) (slot : Nat) : Good base (propOne cfg env slot) :=
  ⟨fun pk d st _ => propOne_ext cfg env slot pk d st, propOne_wf cfg env slot, fun pk d st st' v _ hp => propOne_cells cfg env slot pk d st st' v hp⟩

theorem good_sync (base : Nat) (env : Env) (slot : Nat) (v2 : Bool) (size : Nat) : Good base (syncOne env slot v2 size) :=
  ⟨fun pk d st h => (syncOne_good env slot v2 size pk d st h).1, fun pk d st h => (syncOne_good env slot v2 size pk d st h).2.1,
   fun pk d st st' v h hp => (syncOne_good env slot v2 size pk d st h).2.2 st' v hp⟩

theorem mem_setCells {s : USet} {c : Cell} : c ∈ setCells s ↔ ∃ p ∈ s, c ∈ p.2.cells := by
  simp [setCells, List.mem_flatMap]

theorem loopG_good {base : Nat} {one : PK → Def → LSt → Step} (g : Good base one) :
    ∀ (defs : DefSet) (st : LSt) (resp : USet), WF base st → (∀ c ∈ setCells resp, c ∈ st.bn) →
      Ext st (loopG one defs st resp).1 ∧ WF base (loopG one defs st resp).1 ∧
      ∀ set, (loopG one defs st resp).2 = .ok set →
        (∀ c ∈ setCells set, c ∈ (loopG one defs st resp).1.bn) ∧
        (∀ q ∈ ukeys set, q ∈ ukeys resp ∨ q ∈ defs.map (·.1))
  | [], st, resp, hw, hr => by
    simp only [loopG]
    exact ⟨Ext.refl _, hw, fun set hs => by cases hs; exact ⟨hr, fun q hq => Or.inl hq⟩⟩
  | (pk, d) :: rest, st, resp, hw, hr => by
    have hext := g.ext pk d st hw
    have hwf := g.wf pk d st hw
    simp only [loopG]
    cases ho : one pk d st with
    | fail st' e =>
      rw [ho] at hext hwf
      simp only [Step.st] at hext hwf
      cases e with
      | err e => exact ⟨hext, hwf, fun l hl => by cases hl⟩
      | ok u => exact ⟨hext, hwf, fun l hl => by cases hl⟩
      | panic => exact ⟨hext, hwf, fun l hl => by cases hl⟩
    | skip st' =>
      rw [ho] at hext hwf
      simp only [Step.st] at hext hwf
      have ih := loopG_good g rest st' resp hwf (fun c hc => mem_of_suffix hext.bn (hr c hc))
      refine ⟨hext.trans ih.1, ih.2.1, fun set hs => ?_⟩
      obtain ⟨h1, h2⟩ := ih.2.2 set hs
      refine ⟨h1, fun q hq => ?_⟩
      rcases h2 q hq with h | h
      · exact Or.inl h
      · exact Or.inr (List.mem_cons_of_mem _ h)
    | put st' v =>
      rw [ho] at hext hwf
      simp only [Step.st] at hext hwf
      have hc := g.cells pk d st st' v hw ho
      have hr' : ∀ c ∈ setCells (uinsert resp pk v), c ∈ st'.bn := by
        intro c hcm
        obtain ⟨p, hp, hcp⟩ := mem_setCells.mp hcm
        rcases mem_uinsert.mp hp with h1 | ⟨h1, _⟩
        · subst h1; exact hc c hcp
        · exact mem_of_suffix hext.bn (hr c (mem_setCells.mpr ⟨p, h1, hcp⟩))
      have ih := loopG_good g rest st' (uinsert resp pk v) hwf hr'
      refine ⟨hext.trans ih.1, ih.2.1, fun set hs => ?_⟩
      obtain ⟨h1, h2⟩ := ih.2.2 set hs
      refine ⟨h1, fun q hq => ?_⟩
      rcases h2 q hq with h | h
      · rcases mem_ukeys_uinsert.mp h with h | h
        · subst h; exact Or.inr (by simp)
        · exact Or.inl h
      · exact Or.inr (List.mem_cons_of_mem _ h)

theorem buildSet_good (cfg : Cfg) (env : Env) (ty : DutyType) (slot : Nat) (defs : DefSet) (n : Nat) :
    WF n (buildSet cfg env ty slot defs (LSt.start n)).1 ∧
    ∀ set, (buildSet cfg env ty slot defs (LSt.start n)).2 = .ok set →
      (∀ c ∈ setCells set, c ∈ (buildSet cfg env ty slot defs (LSt.start n)).1.bn) ∧
      (∀ q ∈ ukeys set, q ∈ defs.map (·.1)) := by
  have h0 : WF n (LSt.start n) := wf_start n
  have hnil : ∀ (st : LSt), ∀ c ∈ setCells ([] : USet), c ∈ st.bn := fun st c hc => by simp [setCells] at hc
  have fin : ∀ {one : PK → Def → LSt → Step} {st : LSt}, Good n one → WF n st →
      WF n (loopG one defs st []).1 ∧ ∀ set, (loopG one defs st []).2 = .ok set →
        (∀ c ∈ setCells set, c ∈ (loopG one defs st []).1.bn) ∧ (∀ q ∈ ukeys set, q ∈ defs.map (·.1)) := by
    intro one st g hw
    have := loopG_good g defs st [] hw (hnil st)
    refine ⟨this.2.1, fun set hs => ?_⟩
    obtain ⟨h1, h2⟩ := this.2.2 set hs
    refine ⟨h1, fun q hq => ?_⟩
    rcases h2 q hq with h | h
    · simp [ukeys] at h
    · exact h
  cases ty with
  | proposer => exact fin (good_prop n cfg env slot) h0
  | attester => exact fin (good_att n cfg env 0 slot) h0
  | builderProposer => exact ⟨h0, fun set hs => by simp [buildSet] at hs⟩
  | aggregator => exact fin (good_agg n env slot) h0
  | syncContribution =>
    simp only [buildSet, contribData]
    split
    · exact ⟨wf_call h0 _, fun set hs => by cases hs⟩
    · exact ⟨wf_call h0 _, fun set hs => by cases hs⟩
    · exact fin (good_sync n env slot _ _) (wf_call h0 _)
  | other c => exact ⟨h0, fun set hs => by simp [buildSet] at hs⟩

/-! ### clone -/

theorem copyCells_lt {h : Heap} {n : Nat} {srcs : List Cell} {x : Nat} (hx : x < n) : copyCells h n srcs x = h x := by
  have : ¬ n ≤ x := by omega
  simp [copyCells, this]

theorem copyCells_ge {h : Heap} {n : Nat} {srcs : List Cell} {x : Nat} (hx : n + srcs.length ≤ x) :
    copyCells h n srcs x = h x := by
  unfold copyCells
  split
  · have : srcs[x - n]? = none := by
      apply List.getElem?_eq_none
      omega
    simp [this]
  · rfl

theorem copyCells_at {h : Heap} {n : Nat} {srcs : List Cell} {i : Nat} {c : Cell} (hi : srcs[i]? = some c) :
    copyCells h n srcs (n + i) = h c := by
  unfold copyCells
  have h1 : n ≤ n + i := by omega
  have h2 : n + i - n = i := by omega
  simp [h1, h2, hi]

theorem cells_relabelVal (n : Nat) (v : UVal) : (relabelVal n v).cells = List.range' n v.cells.length := by
  cases v <;> simp [relabelVal, UVal.cells]

theorem setCells_cons (pk : PK) (v : UVal) (r : USet) : setCells ((pk, v) :: r) = v.cells ++ setCells r := by
  simp [setCells]

theorem setCells_relabel : ∀ (s : USet) (n : Nat), setCells (relabel n s) = List.range' n (setCells s).length
  | [], n => by simp [relabel, setCells]
  | (pk, v) :: r, n => by
    simp only [relabel, setCells_cons, cells_relabelVal, setCells_relabel r, List.length_append]
    have := List.range'_append (s := n) (m := v.cells.length) (n := (setCells r).length) (step := 1)
    rw [Nat.one_mul] at this
    exact this

theorem ukeys_relabel : ∀ (s : USet) (n : Nat), ukeys (relabel n s) = ukeys s
  | [], n => rfl
  | (pk, v) :: r, n => by
    simp only [relabel, ukeys, List.map_cons]
    congr 1
    exact ukeys_relabel r _

theorem mem_range'_1 {n len x : Nat} : x ∈ List.range' n len ↔ n ≤ x ∧ x < n + len := by
  simp [List.mem_range'_1]

/-- observing the relabelled value through the copied heap = observing the original -/
theorem observe_relabelVal {h : Heap} {n : Nat} (pre post : List Cell) (v : UVal) :
    observe (copyCells h n (pre ++ v.cells ++ post)) (relabelVal (n + pre.length) v) = observe h v := by
  have key : ∀ i c, v.cells[i]? = some c → copyCells h n (pre ++ v.cells ++ post) (n + pre.length + i) = h c := by
    intro i c hi
    have : (pre ++ v.cells ++ post)[pre.length + i]? = some c := by
      rw [List.append_assoc, List.getElem?_append_right (by omega)]
      have : pre.length + i - pre.length = i := by omega
      rw [this]
      have hlt : i < v.cells.length := by
        rcases Nat.lt_or_ge i v.cells.length with h | h
        · exact h
        · rw [List.getElem?_eq_none h] at hi; cases hi
      rw [List.getElem?_append_left hlt]
      exact hi
    have := copyCells_at (h := h) (n := n) this
    rwa [← Nat.add_assoc] at this
  cases v with
  | att c r d => simp only [relabelVal, observe]; rw [← key 0 c (by simp [UVal.cells])]; rfl
  | agg c => simp only [relabelVal, observe]; rw [← key 0 c (by simp [UVal.cells])]; rfl
  | prop c => simp only [relabelVal, observe]; rw [← key 0 c (by simp [UVal.cells])]; rfl
  | contrib c => simp only [relabelVal, observe]; rw [← key 0 c (by simp [UVal.cells])]; rfl
  | contribs cs =>
    simp only [relabelVal, observe]
    congr 1
    apply List.ext_getElem?
    intro i
    by_cases hi : i < cs.length
    · have hc : cs[i]? = some cs[i] := by simp [hi]
      have hr : (List.range' (n + pre.length) cs.length)[i]? = some (n + pre.length + i) := by
        simp [hi]
      rw [List.getElem?_map, List.getElem?_map, hr, hc, Option.map_some, Option.map_some]
      congr 1
      exact key i cs[i] (by simp [UVal.cells])
    · have h1 : cs[i]? = none := List.getElem?_eq_none (by omega)
      have h2 : (List.range' (n + pre.length) cs.length)[i]? = none := List.getElem?_eq_none (by simp; omega)
      rw [List.getElem?_map, List.getElem?_map, h1, h2]
      rfl

theorem observeSet_relabel {h : Heap} {n : Nat} : ∀ (pre : List Cell) (s : USet),
    observeSet (copyCells h n (pre ++ setCells s)) (relabel (n + pre.length) s) = observeSet h s
  | pre, [] => by simp [relabel, observeSet]
  | pre, (pk, v) :: r => by
    simp only [relabel, observeSet, List.map_cons, setCells_cons]
    congr 1
    · congr 1
      have := observe_relabelVal (h := h) (n := n) pre (setCells r) v
      rwa [List.append_assoc] at this
    · have := observeSet_relabel (h := h) (n := n) (pre ++ v.cells) r
      simp only [List.length_append, observeSet] at this
      rw [← List.append_assoc, Nat.add_assoc]
      exact this

/-- what a subscriber is handed reads exactly as the set that was cloned -/
theorem observeSet_clone (h : Heap) (n : Nat) (s : USet) :
    observeSet (cloneSet h n s).2.1 (cloneSet h n s).1 = observeSet h s := by
  have := observeSet_relabel (h := h) (n := n) [] s
  simpa [cloneSet] using this

/-! ### the state invariant -/

structure Inv (cfg : Cfg) (s : St) : Prop where
  bn_lt      : ∀ c : Nat, c ∈ s.bn → c < s.next
  held_lt    : ∀ c : Nat, c ∈ heldCells s → c < s.next
  cache_lt   : ∀ c : Nat, c ∈ cacheCells s → c < s.next
  held_nodup : (heldCells s).Nodup
  held_bn    : ∀ c : Nat, c ∈ heldCells s → c ∉ s.bn
  held_cache : ∀ c : Nat, c ∈ heldCells s → c ∉ cacheCells s
  cache_bn   : cfg.cloneOnCache = true → ∀ c : Nat, c ∈ cacheCells s → c ∉ s.bn

theorem inv_init (cfg : Cfg) : Inv cfg St.init := by
  constructor <;> simp [St.init, heldCells, cacheCells]

theorem heldCells_cons (i : Nat) (cs : List Cell) (s : St) (held : List (Nat × List Cell)) (hs : s.held = (i, cs) :: held) :
    heldCells s = cs ++ held.flatMap (·.2) := by
  simp [heldCells, hs]

/-- the cells a round of the fan-out hands out -/
def newCells (set : USet) (s : St) : List Cell := List.range' s.next (setCells set).length

theorem deliver_held (cfg : Cfg) (set : USet) (i : Nat) (s : St) :
    (deliver cfg set i s).1.held = (i, newCells set s) :: s.held := by
  simp [deliver, cloneSet, setCells_relabel, newCells]

theorem deliver_heldCells (cfg : Cfg) (set : USet) (i : Nat) (s : St) :
    heldCells (deliver cfg set i s).1 = newCells set s ++ heldCells s := by
  simp [heldCells, deliver_held]

theorem deliver_next (cfg : Cfg) (set : USet) (i : Nat) (s : St) :
    (deliver cfg set i s).1.next = s.next + (setCells set).length := by
  simp [deliver, cloneSet]

theorem deliver_cache (cfg : Cfg) (set : USet) (i : Nat) (s : St) : (deliver cfg set i s).1.cache = s.cache := rfl
theorem deliver_bn (cfg : Cfg) (set : USet) (i : Nat) (s : St) : (deliver cfg set i s).1.bn = s.bn := rfl

theorem mem_newCells {set : USet} {s : St} {c : Nat} : c ∈ newCells set s ↔ s.next ≤ c ∧ c < s.next + (setCells set).length := by
  simp [newCells, List.mem_range'_1]

/-- a round of the fan-out writes fresh cells only -/
theorem deliver_heap_lt (cfg : Cfg) (set : USet) (i : Nat) (s : St) {c : Nat} (hc : c < s.next) :
    (deliver cfg set i s).1.heap c = s.heap c := by
  have hn : c ∉ setCells (cloneSet s.heap s.next set).1 := by
    simp only [cloneSet, setCells_relabel]
    intro hm
    have := (List.mem_range'_1.mp hm).1
    omega
  simp only [deliver]
  split
  · rw [scribble_not_mem hn]; exact copyCells_lt hc
  · exact copyCells_lt hc

theorem deliver_heap_ge (cfg : Cfg) (set : USet) (i : Nat) (s : St) {c : Nat} (hc : s.next + (setCells set).length ≤ c) :
    (deliver cfg set i s).1.heap c = s.heap c := by
  have hn : c ∉ setCells (cloneSet s.heap s.next set).1 := by
    simp only [cloneSet, setCells_relabel]
    intro hm
    have := (List.mem_range'_1.mp hm).2
    omega
  simp only [deliver]
  split
  · rw [scribble_not_mem hn]; exact copyCells_ge hc
  · exact copyCells_ge hc

/-- what the subscriber reads is what the set reads -/
theorem deliver_obs (cfg : Cfg) (set : USet) (i : Nat) (s : St) :
    (deliver cfg set i s).2 = (i, observeSet s.heap set) := by
  simp only [deliver, observeSet_clone]

theorem cloneOk_congr {h1 h2 : Heap} {set : USet} (h : ∀ c ∈ setCells set, (h1 c).bad = (h2 c).bad) :
    cloneOk h1 set = cloneOk h2 set := by
  unfold cloneOk
  have : ∀ l : List Cell, (∀ c ∈ l, (h1 c).bad = (h2 c).bad) →
      l.all (fun c => !(h1 c).bad) = l.all (fun c => !(h2 c).bad) := by
    intro l
    induction l with
    | nil => intro _; rfl
    | cons a r ih =>
      intro hl
      simp only [List.all_cons]
      rw [hl a List.mem_cons_self, ih (fun c hc => hl c (List.mem_cons_of_mem _ hc))]
  exact this _ h

theorem inv_deliver {cfg : Cfg} {set : USet} {i : Nat} {s : St} (hi : Inv cfg s) : Inv cfg (deliver cfg set i s).1 := by
  have hnext := deliver_next cfg set i s
  constructor
  · intro c hc
    rw [deliver_bn] at hc
    have := hi.bn_lt c hc
    omega
  · intro c hc
    rw [deliver_heldCells] at hc
    rcases List.mem_append.mp hc with hc | hc
    · have := (mem_newCells.mp hc).2; omega
    · have := hi.held_lt c hc; omega
  · intro c hc
    have : c ∈ cacheCells s := hc
    have := hi.cache_lt c this
    omega
  · rw [deliver_heldCells]
    refine List.nodup_append.mpr ⟨(List.nodup_range' (s := s.next) (n := (setCells set).length) : _), hi.held_nodup, ?_⟩
    intro a ha b hb hab
    subst hab
    have h1 := (mem_newCells.mp ha).1
    have h2 := hi.held_lt a hb
    omega
  · intro c hc
    rw [deliver_heldCells] at hc
    rw [deliver_bn]
    rcases List.mem_append.mp hc with hc | hc
    · intro hb
      have h1 := (mem_newCells.mp hc).1
      have h2 := hi.bn_lt c hb
      omega
    · exact hi.held_bn c hc
  · intro c hc
    rw [deliver_heldCells] at hc
    show c ∉ cacheCells s
    rcases List.mem_append.mp hc with hc | hc
    · intro hb
      have h1 := (mem_newCells.mp hc).1
      have h2 := hi.cache_lt c hb
      omega
    · exact hi.held_cache c hc
  · intro hf c hc
    exact hi.cache_bn hf c hc

theorem observe_congr {h1 h2 : Heap} {v : UVal} (h : ∀ c ∈ v.cells, h1 c = h2 c) : observe h1 v = observe h2 v := by
  cases v with
  | att c r d => simp only [observe]; rw [h c (by simp [UVal.cells])]
  | agg c => simp only [observe]; rw [h c (by simp [UVal.cells])]
  | prop c => simp only [observe]; rw [h c (by simp [UVal.cells])]
  | contrib c => simp only [observe]; rw [h c (by simp [UVal.cells])]
  | contribs cs =>
    simp only [observe]
    congr 1
    apply List.map_congr_left
    intro c hc
    exact h c (by simpa [UVal.cells] using hc)

theorem observeSet_congr {h1 h2 : Heap} {s : USet} (h : ∀ c ∈ setCells s, h1 c = h2 c) :
    observeSet h1 s = observeSet h2 s := by
  unfold observeSet
  apply List.map_congr_left
  intro p hp
  congr 1
  exact observe_congr (fun c hc => h c (mem_setCells.mpr ⟨p, hp, hc⟩))

structure FanoutSpec (cfg : Cfg) (subErr : Nat → Option Nat) (set : USet) (i k : Nat) (s : St) (acc : List Delivery)
    (r : St × Res Unit × List Delivery) : Prop where
  inv      : Inv cfg r.1
  cache    : r.1.cache = s.cache
  bn       : r.1.bn = s.bn
  next     : s.next ≤ r.1.next
  heap_lt  : ∀ c : Nat, c < s.next → r.1.heap c = s.heap c
  heap_ge  : ∀ c : Nat, r.1.next ≤ c → r.1.heap c = s.heap c
  deliv    : ∃ m, m ≤ k ∧ r.2.2 = acc ++ (List.range' i m).map (fun j => (j, observeSet s.heap set)) ∧
              (r.2.1 = .ok () → m = k) ∧
              (∀ e, r.2.1 = .err (.sub e) → 0 < m ∧ subErr (i + m - 1) = some e) ∧
              (r.2.1 = .err .cloneFail → m = 0 ∧ cloneOk s.heap set = false) ∧
              (r.2.1 = .ok () ∨ (∃ e, r.2.1 = .err (.sub e)) ∨ r.2.1 = .err .cloneFail) ∧
              ∃ nh, r.1.held = nh ++ s.held ∧ nh.map (·.1) = (List.range' i m).reverse ∧
                ∀ c : Nat, c ∈ nh.flatMap (·.2) → s.next ≤ c

theorem fanout_spec (cfg : Cfg) (subErr : Nat → Option Nat) (set : USet) :
    ∀ (k i : Nat) (s : St) (acc : List Delivery), Inv cfg s → (∀ c : Nat, c ∈ setCells set → c < s.next) →
      FanoutSpec cfg subErr set i k s acc (fanout cfg subErr set i k s acc)
  | 0, i, s, acc, hi, _ => by
    simp only [fanout]
    exact ⟨hi, rfl, rfl, Nat.le_refl _, fun _ _ => rfl, fun _ _ => rfl,
      ⟨0, Nat.le_refl _, (by simp), fun _ => rfl, fun e h => (by cases h), fun h => (by cases h), Or.inl rfl,
       ⟨[], (by simp), (by simp), fun c hc => (by simp at hc)⟩⟩⟩
  | k + 1, i, s, acc, hi, hset => by
    simp only [fanout]
    by_cases hok : cloneOk s.heap set = true
    · simp only [hok, Bool.not_true, Bool.false_eq_true, if_false]
      have hd := deliver_obs cfg set i s
      have hinv := inv_deliver (set := set) (i := i) hi
      have hnx := deliver_next cfg set i s
      have hheld := deliver_held cfg set i s
      have hnew : ∀ c : Nat, c ∈ newCells set s → s.next ≤ c := fun c hc => (mem_newCells.mp hc).1
      cases hse : subErr i with
      | some e =>
        simp only []
        refine ⟨hinv, rfl, rfl, ?_, fun c hc => deliver_heap_lt cfg set i s hc, ?_, ?_⟩
        · show s.next ≤ (deliver cfg set i s).1.next
          omega
        · intro c hc
          have hc' : (deliver cfg set i s).1.next ≤ c := hc
          exact deliver_heap_ge cfg set i s (by omega)
        · refine ⟨1, (by omega), ?_, fun h => (by cases h), fun e' h => ?_, fun h => (by cases h),
            Or.inr (Or.inl ⟨e, rfl⟩), ⟨[(i, newCells set s)], ?_, (by simp), ?_⟩⟩
          · show acc ++ [(deliver cfg set i s).2] = _
            rw [hd]; simp
          · cases h
            exact ⟨by omega, by simpa using hse⟩
          · show (deliver cfg set i s).1.held = _
            rw [hheld]; rfl
          · intro c hc
            simp only [List.flatMap_cons, List.flatMap_nil, List.append_nil] at hc
            exact hnew c hc
      | none =>
        simp only []
        have hset' : ∀ c : Nat, c ∈ setCells set → c < (deliver cfg set i s).1.next := fun c hc => by
          have := hset c hc; omega
        have ih := fanout_spec cfg subErr set k (i + 1) (deliver cfg set i s).1 (acc ++ [(deliver cfg set i s).2]) hinv hset'
        have hobs : observeSet (deliver cfg set i s).1.heap set = observeSet s.heap set :=
          observeSet_congr (fun c hc => deliver_heap_lt cfg set i s (hset c hc))
        have hcok : cloneOk (deliver cfg set i s).1.heap set = cloneOk s.heap set :=
          cloneOk_congr (fun c hc => by rw [deliver_heap_lt cfg set i s (hset c hc)])
        obtain ⟨m, hm, hdl, h1, h2, h3, h4, nh, hnh1, hnh2, hnh3⟩ := ih.deliv
        have hnx2 := ih.next
        refine ⟨ih.inv, ih.cache.trans rfl, ih.bn.trans rfl, (by omega), ?_, ?_, ?_⟩
        · intro c hc
          rw [ih.heap_lt c (by omega)]
          exact deliver_heap_lt cfg set i s hc
        · intro c hc
          rw [ih.heap_ge c hc]
          exact deliver_heap_ge cfg set i s (by omega)
        · refine ⟨m + 1, (by omega), ?_, fun h => (by rw [h1 h]), fun e h => ?_, fun h => ?_, h4, ?_⟩
          · rw [hdl, hd, hobs, List.append_assoc]
            congr 1
          · obtain ⟨hm0, hs⟩ := h2 e h
            refine ⟨by omega, ?_⟩
            have : i + (m + 1) - 1 = i + 1 + m - 1 := by omega
            rw [this]; exact hs
          · obtain ⟨_, hf⟩ := h3 h
            rw [hcok, hok] at hf
            cases hf
          · refine ⟨nh ++ [(i, newCells set s)], (by rw [hnh1, hheld]; simp), ?_, ?_⟩
            · rw [List.map_append, hnh2]
              rw [show m + 1 = 1 + m by omega, ← List.range'_append_1]
              simp
            · intro c hc
              rw [List.flatMap_append] at hc
              rcases List.mem_append.mp hc with hc | hc
              · have := hnh3 c hc; omega
              · simp only [List.flatMap_cons, List.flatMap_nil, List.append_nil] at hc
                exact hnew c hc
    · have hok' : cloneOk s.heap set = false := by simpa using hok
      simp only [hok', Bool.not_false, if_true]
      exact ⟨hi, rfl, rfl, Nat.le_refl _, fun _ _ => rfl, fun _ _ => rfl,
        ⟨0, (by omega), (by simp), fun h => (by cases h), fun e h => (by cases h), fun _ => ⟨rfl, hok'⟩, Or.inr (Or.inr rfl),
         ⟨[], (by simp), (by simp), fun c hc => (by simp at hc)⟩⟩⟩

/-! ### operations preserve the invariant -/

theorem mem_cacheCells {s : St} {c : Cell} : c ∈ cacheCells s ↔ ∃ p ∈ s.cache, c ∈ setCells p.2 := by
  simp [cacheCells, List.mem_flatMap]

theorem clookup_mem {slot : Nat} : ∀ {l : List (Nat × USet)} {set : USet}, clookup slot l = some set → (slot, set) ∈ l
  | [], _, h => by cases h
  | (k, v) :: r, set, h => by
    simp only [clookup] at h
    by_cases hk : k = slot
    · simp only [hk, if_true] at h
      cases h
      simp [hk]
    · simp only [hk, if_false] at h
      exact List.mem_cons_of_mem _ (clookup_mem h)

/-- shrinking the cache keeps the invariant -/
theorem inv_cache_sub {cfg : Cfg} {s : St} {cache' : List (Nat × USet)} (hi : Inv cfg s)
    (hsub : ∀ p ∈ cache', p ∈ s.cache) : Inv cfg { s with cache := cache' } := by
  have hcc : ∀ c : Nat, c ∈ cacheCells { s with cache := cache' } → c ∈ cacheCells s := by
    intro c hc
    obtain ⟨p, hp, hcp⟩ := mem_cacheCells.mp hc
    exact mem_cacheCells.mpr ⟨p, hsub p hp, hcp⟩
  exact ⟨hi.bn_lt, hi.held_lt, fun c hc => hi.cache_lt c (hcc c hc), hi.held_nodup, hi.held_bn,
    fun c hc hcc' => hi.held_cache c hc (hcc c hcc'), fun hf c hc => hi.cache_bn hf c (hcc c hc)⟩

/-- changing the heap keeps the invariant (it says nothing about contents) -/
theorem inv_heap {cfg : Cfg} {s : St} (h : Heap) (hi : Inv cfg s) : Inv cfg { s with heap := h } :=
  ⟨hi.bn_lt, hi.held_lt, hi.cache_lt, hi.held_nodup, hi.held_bn, hi.held_cache, hi.cache_bn⟩

/-- taking over what a `fetch*Data` call allocated -/
theorem inv_absorb {cfg : Cfg} {s : St} {st : LSt} (hi : Inv cfg s) (hw : WF s.next st) : Inv cfg (s.absorb st) := by
  have hb := hw.base_le
  constructor
  · intro c hc
    simp only [St.absorb, List.mem_append] at hc
    show c < st.next
    rcases hc with hc | hc
    · exact (hw.bn_rng c hc).2
    · have := hi.bn_lt c hc; omega
  · intro c hc
    have : c ∈ heldCells s := hc
    have := hi.held_lt c this
    show c < st.next
    omega
  · intro c hc
    have : c ∈ cacheCells s := hc
    have := hi.cache_lt c this
    show c < st.next
    omega
  · exact hi.held_nodup
  · intro c hc hb'
    have hc' : c ∈ heldCells s := hc
    simp only [St.absorb, List.mem_append] at hb'
    rcases hb' with hb' | hb'
    · have := (hw.bn_rng c hb').1
      have := hi.held_lt c hc'
      omega
    · exact hi.held_bn c hc' hb'
  · exact hi.held_cache
  · intro hf c hc hb'
    have hc' : c ∈ cacheCells s := hc
    simp only [St.absorb, List.mem_append] at hb'
    rcases hb' with hb' | hb'
    · have := (hw.bn_rng c hb').1
      have := hi.cache_lt c hc'
      omega
    · exact hi.cache_bn hf c hc' hb'

theorem absorb_heap_lt {s : St} {st : LSt} (hw : WF s.next st) {c : Nat} (hc : c < s.next) :
    (s.absorb st).heap c = s.heap c :=
  applyWrites_of_lt (n := s.next) (fun k hk => (hw.wk_rng k hk).1) hc

structure PrepSpec (cfg : Cfg) (s : St) (r : St × List Call × Res USet) : Prop where
  inv     : Inv cfg r.1
  held    : r.1.held = s.held
  next    : s.next ≤ r.1.next
  heap_lt : ∀ c : Nat, c < s.next → r.1.heap c = s.heap c
  cells   : ∀ set, r.2.2 = .ok set → ∀ c : Nat, c ∈ setCells set → c < r.1.next

theorem prepare_spec (cfg : Cfg) (env : Env) (s : St) (ty : DutyType) (slot : Nat) (defs : DefSet) (hi : Inv cfg s) :
    PrepSpec cfg s (prepare cfg env s ty slot defs) := by
  have build : PrepSpec cfg s
      ((s.absorb (buildSet cfg env ty slot defs (LSt.start s.next)).1),
       (buildSet cfg env ty slot defs (LSt.start s.next)).1.log,
       (buildSet cfg env ty slot defs (LSt.start s.next)).2) := by
    obtain ⟨hw, hset⟩ := buildSet_good cfg env ty slot defs s.next
    refine ⟨inv_absorb hi hw, rfl, hw.base_le, fun c hc => absorb_heap_lt hw hc, fun set hs c hc => ?_⟩
    exact (hw.bn_rng c ((hset set hs).1 c hc)).2
  unfold prepare
  split
  · rename_i set hl
    have hmem := clookup_mem hl
    refine ⟨inv_cache_sub hi (fun p hp => (List.mem_filter.mp hp).1), rfl, Nat.le_refl _, fun _ _ => rfl, ?_⟩
    intro set' hs c hc
    cases hs
    exact hi.cache_lt c (mem_cacheCells.mpr ⟨(slot, set), hmem, hc⟩)
  · exact build

theorem inv_fetch {cfg : Cfg} (env : Env) (subErr : Nat → Option Nat) {s : St} (ty : DutyType) (slot : Nat) (defs : DefSet)
    (hi : Inv cfg s) : Inv cfg (fetch cfg env subErr s ty slot defs).1 := by
  have hp := prepare_spec cfg env s ty slot defs hi
  unfold fetch
  rcases hpe : prepare cfg env s ty slot defs with ⟨s1, log, r⟩
  rw [hpe] at hp
  cases r with
  | err e => exact hp.inv
  | panic => exact hp.inv
  | ok set =>
    simp only []
    split
    · exact hp.inv
    · exact (fanout_spec cfg subErr set cfg.nsubs 0 s1 [] hp.inv (hp.cells set rfl)).inv

theorem setCells_cache_mem {s : St} {slot : Nat} {set : USet} (h : (slot, set) ∈ s.cache) {c : Cell} (hc : c ∈ setCells set) :
    c ∈ cacheCells s := mem_cacheCells.mpr ⟨(slot, set), h, hc⟩

theorem inv_fetchOnly {cfg : Cfg} (env : Env) {s : St} (ty : DutyType) (slot : Nat) (defs : DefSet) (addr head : Nat)
    (hi : Inv cfg s) : Inv cfg (fetchOnly cfg env s ty slot defs addr head).1 := by
  unfold fetchOnly
  split
  · -- attester
    have hi0 : Inv cfg { s with cache := s.cache.filter (fun p => !(p.1 < slot)) } :=
      inv_cache_sub hi (fun p hp => (List.mem_filter.mp hp).1)
    generalize hs0 : ({ s with cache := s.cache.filter (fun p => !(p.1 < slot)) } : St) = s0 at hi0
    have hn0 : s0.next = s.next := by rw [← hs0]
    dsimp only
    have hg := loopG_good (good_att s0.next cfg env addr slot) defs (LSt.start s0.next) [] (wf_start _)
      (fun c hc => by simp [setCells] at hc)
    generalize hr : loopG (attOne cfg env addr slot) defs (LSt.start s0.next) [] = r at hg
    obtain ⟨_, hw, hset⟩ := hg
    have hi1 := inv_absorb hi0 hw
    cases hres : r.2 with
    | err e => exact hi1
    | panic => exact hi1
    | ok set =>
      obtain ⟨hcells, _⟩ := hset set hres
      have hlt : ∀ c : Nat, c ∈ setCells set → s0.next ≤ c ∧ c < r.1.next := fun c hc => hw.bn_rng c (hcells c hc)
      have herase : ∀ p ∈ cerase slot (s0.absorb r.1).cache, p ∈ s0.cache := fun p hp => (List.mem_filter.mp hp).1
      simp only []
      split
      · split
        · split
          · exact hi1
          · -- the repaired variant: a clone is stored
            have hnc : ∀ c : Nat, c ∈ setCells (cloneSet (s0.absorb r.1).heap (s0.absorb r.1).next set).1 →
                r.1.next ≤ c ∧ c < r.1.next + (setCells set).length := by
              intro c hc
              simp only [cloneSet, setCells_relabel] at hc
              exact List.mem_range'_1.mp hc
            constructor
            · intro c hc
              have : c ∈ (s0.absorb r.1).bn := hc
              have := hi1.bn_lt c this
              show c < r.1.next + (setCells set).length
              have h2 : (s0.absorb r.1).next = r.1.next := rfl
              omega
            · intro c hc
              have : c ∈ heldCells (s0.absorb r.1) := hc
              have := hi1.held_lt c this
              show c < r.1.next + (setCells set).length
              have h2 : (s0.absorb r.1).next = r.1.next := rfl
              omega
            · intro c hc
              show c < r.1.next + (setCells set).length
              obtain ⟨p, hp, hcp⟩ := mem_cacheCells.mp hc
              simp only [List.mem_cons] at hp
              rcases hp with hp | hp
              · subst hp; exact (hnc c hcp).2
              · have := hi1.cache_lt c (mem_cacheCells.mpr ⟨p, herase p hp, hcp⟩)
                have h2 : (s0.absorb r.1).next = r.1.next := rfl
                omega
            · exact hi1.held_nodup
            · exact hi1.held_bn
            · intro c hc hcc
              have hc' : c ∈ heldCells (s0.absorb r.1) := hc
              obtain ⟨p, hp, hcp⟩ := mem_cacheCells.mp hcc
              simp only [List.mem_cons] at hp
              rcases hp with hp | hp
              · subst hp
                have := (hnc c hcp).1
                have := hi1.held_lt c hc'
                have h2 : (s0.absorb r.1).next = r.1.next := rfl
                omega
              · exact hi1.held_cache c hc' (mem_cacheCells.mpr ⟨p, herase p hp, hcp⟩)
            · intro hf c hcc hb
              have hb' : c ∈ (s0.absorb r.1).bn := hb
              obtain ⟨p, hp, hcp⟩ := mem_cacheCells.mp hcc
              simp only [List.mem_cons] at hp
              rcases hp with hp | hp
              · subst hp
                have := (hnc c hcp).1
                have := hi1.bn_lt c hb'
                have h2 : (s0.absorb r.1).next = r.1.next := rfl
                omega
              · exact hi1.cache_bn hf c (mem_cacheCells.mpr ⟨p, herase p hp, hcp⟩) hb'
        · -- the code as it is: the set itself is stored
          rename_i hfix
          constructor
          · exact hi1.bn_lt
          · exact hi1.held_lt
          · intro c hc
            obtain ⟨p, hp, hcp⟩ := mem_cacheCells.mp hc
            simp only [List.mem_cons] at hp
            rcases hp with hp | hp
            · subst hp; exact (hlt c hcp).2
            · exact hi1.cache_lt c (mem_cacheCells.mpr ⟨p, herase p hp, hcp⟩)
          · exact hi1.held_nodup
          · exact hi1.held_bn
          · intro c hc hcc
            have hc' : c ∈ heldCells s0 := hc
            obtain ⟨p, hp, hcp⟩ := mem_cacheCells.mp hcc
            simp only [List.mem_cons] at hp
            rcases hp with hp | hp
            · subst hp
              have := (hlt c hcp).1
              have := hi0.held_lt c hc'
              omega
            · exact hi0.held_cache c hc' (mem_cacheCells.mpr ⟨p, herase p hp, hcp⟩)
          · intro hf
            exact absurd hf hfix
      · exact hi1
  · exact hi

theorem inv_step {cfg : Cfg} {s : St} (op : Op) (hi : Inv cfg s) : Inv cfg (step cfg s op).1 := by
  cases op with
  | fetch env subErr ty slot defs => exact inv_fetch env subErr ty slot defs hi
  | fetchOnly env ty slot defs addr head => exact inv_fetchOnly env ty slot defs addr head hi
  | reorg => exact inv_cache_sub hi (fun p hp => by cases hp)
  | bnScribble => exact inv_heap _ hi
  | subScribble i =>
    simp only [step]
    split
    · exact inv_heap _ hi
    · exact hi

theorem inv_run {cfg : Cfg} : ∀ (ops : List Op) {s : St}, Inv cfg s → Inv cfg (run cfg s ops)
  | [], _, hi => hi
  | o :: os, _, hi => inv_run os (inv_step o hi)

/-! ### invariants of the loops -/

theorem loopG_invariant {one : PK → Def → LSt → Step} (I : LSt → USet → Prop) (F : LSt → Prop)
    (hput : ∀ pk d st resp st' v, I st resp → one pk d st = .put st' v → I st' (uinsert resp pk v))
    (hskip : ∀ pk d st resp st', I st resp → one pk d st = .skip st' → I st' resp)
    (hfail : ∀ pk d st resp st' e, I st resp → one pk d st = .fail st' e → F st') :
    ∀ (defs : DefSet) (st : LSt) (resp : USet), I st resp →
      (∀ set, (loopG one defs st resp).2 = .ok set → I (loopG one defs st resp).1 set) ∧
      ((∀ set, (loopG one defs st resp).2 ≠ .ok set) → F (loopG one defs st resp).1)
  | [], st, resp, hi => by
    simp only [loopG]
    exact ⟨fun set hs => by cases hs; exact hi, fun h => absurd rfl (h resp)⟩
  | (pk, d) :: rest, st, resp, hi => by
    simp only [loopG]
    cases ho : one pk d st with
    | fail st' e =>
      have hf := hfail pk d st resp st' e hi ho
      cases e with
      | err e => exact ⟨fun set hs => (by cases hs), fun _ => hf⟩
      | ok u => exact ⟨fun set hs => (by cases hs), fun _ => hf⟩
      | panic => exact ⟨fun set hs => (by cases hs), fun _ => hf⟩
    | skip st' => exact loopG_invariant I F hput hskip hfail rest st' resp (hskip pk d st resp st' hi ho)
    | put st' v => exact loopG_invariant I F hput hskip hfail rest st' _ (hput pk d st resp st' v hi ho)

/-- the committee indices the beacon node was asked attestation data for, newest first -/
def attCis : List Call → List Nat
  | [] => []
  | .attData _ _ ci :: r => ci :: attCis r
  | _ :: r => attCis r

/-- the invariant of the attester loop: every value is the response object registered for its (effective)
committee; every committee asked so far is registered -/
structure AttI (cfg : Cfg) (slot : Nat) (st : LSt) (resp : USet) : Prop where
  vals  : ∀ p ∈ resp, ∃ c r d, p.2 = .att c r d ∧ dlookup (effCi cfg slot d.ci, 0) st.dc = some (c, r)
  nodup : (attCis st.log).Nodup
  asked : ∀ ci ∈ attCis st.log, dlookup (ci, 0) st.dc ≠ none
  eff   : ∀ ci ∈ attCis st.log, cfg.electraSlot ≤ slot → cfg.only0 = true → ci = 0

theorem effCi_zero {cfg : Cfg} {slot ci : Nat} (h1 : cfg.electraSlot ≤ slot) (h2 : cfg.only0 = true) : effCi cfg slot ci = 0 := by
  simp [effCi, h1, h2]

theorem attOne_put {cfg : Cfg} {env : Env} {addr slot : Nat} {pk : PK} {d : Def} {st st' : LSt} {v : UVal} {resp : USet}
    (hi : AttI cfg slot st resp) (ho : attOne cfg env addr slot pk d st = .put st' v) :
    AttI cfg slot st' (uinsert resp pk v) := by
  unfold attOne at ho
  split at ho
  · rename_i ci len vi
    split at ho
    · rename_i c r hl
      cases ho
      refine ⟨fun p hp => ?_, hi.nodup, hi.asked, hi.eff⟩
      rcases mem_uinsert.mp hp with h1 | ⟨h1, _⟩
      · subst h1; exact ⟨c, r, ⟨ci, len, vi⟩, rfl, hl⟩
      · exact hi.vals p h1
    · rename_i hl
      dsimp only at ho
      split at ho
      · cases ho
      · cases ho
      · rename_i id root hans
        cases ho
        have hlog : attCis ((st.call (.attData addr slot (effCi cfg slot ci))).alloc ⟨id, root, false, false⟩).log
            = effCi cfg slot ci :: attCis st.log := rfl
        refine ⟨fun p hp => ?_, ?_, ?_, ?_⟩
        · rcases mem_uinsert.mp hp with h1 | ⟨h1, _⟩
          · subst h1
            exact ⟨_, root, ⟨ci, len, vi⟩, rfl, by simp [dlookup]⟩
          · obtain ⟨c, r, d', hv, hd⟩ := hi.vals p h1
            refine ⟨c, r, d', hv, ?_⟩
            simp only [dlookup]
            have hne : ¬ ((effCi cfg slot ci, 0) = (effCi cfg slot d'.ci, 0)) := by
              intro he
              rw [← he, hl] at hd
              cases hd
            simp only [hne, if_false]
            exact hd
        · show (attCis _).Nodup
          rw [hlog]
          refine List.nodup_cons.mpr ⟨fun hm => hi.asked _ hm hl, hi.nodup⟩
        · intro ci' hci'
          rw [hlog] at hci'
          simp only [dlookup]
          by_cases he : (effCi cfg slot ci, 0) = (ci', 0)
          · simp [he]
          · simp only [he, if_false]
            rcases List.mem_cons.mp hci' with h | h
            · exact absurd (by rw [h]) he
            · exact hi.asked ci' h
        · intro ci' hci' h1 h2
          rw [hlog] at hci'
          rcases List.mem_cons.mp hci' with h | h
          · rw [h]; exact effCi_zero h1 h2
          · exact hi.eff ci' h h1 h2
  · cases ho

theorem attOne_noskip {cfg : Cfg} {env : Env} {addr slot : Nat} {pk : PK} {d : Def} {st st' : LSt}
    (ho : attOne cfg env addr slot pk d st = .skip st') : False := by
  unfold attOne at ho
  repeat' (first | split at ho | dsimp only at ho)
  all_goals cases ho

def AttF (cfg : Cfg) (slot : Nat) (st : LSt) : Prop :=
  (attCis st.log).Nodup ∧ ∀ ci ∈ attCis st.log, cfg.electraSlot ≤ slot → cfg.only0 = true → ci = 0

theorem attOne_fail {cfg : Cfg} {env : Env} {addr slot : Nat} {pk : PK} {d : Def} {st st' : LSt} {e : Res Unit} {resp : USet}
    (hi : AttI cfg slot st resp) (ho : attOne cfg env addr slot pk d st = .fail st' e) : AttF cfg slot st' := by
  unfold attOne at ho
  split at ho
  · rename_i ci len vi
    split at ho
    · cases ho
    · rename_i hl
      dsimp only at ho
      have key : AttF cfg slot (st.call (.attData addr slot (effCi cfg slot ci))) := by
        have hlog : attCis (st.call (.attData addr slot (effCi cfg slot ci))).log = effCi cfg slot ci :: attCis st.log := rfl
        refine ⟨?_, ?_⟩
        · rw [hlog]
          exact List.nodup_cons.mpr ⟨fun hm => hi.asked _ hm hl, hi.nodup⟩
        · intro ci' hci' h1 h2
          rw [hlog] at hci'
          rcases List.mem_cons.mp hci' with h | h
          · rw [h]; exact effCi_zero h1 h2
          · exact hi.eff ci' h h1 h2
      split at ho
      · cases ho; exact key
      · cases ho; exact key
      · cases ho
  · cases ho
    exact ⟨hi.nodup, hi.eff⟩

theorem attI_start (cfg : Cfg) (slot n : Nat) : AttI cfg slot (LSt.start n) [] :=
  ⟨fun p hp => (by cases hp), List.nodup_nil, fun ci hc => (by cases hc), fun ci hc => (by cases hc)⟩

/-- the attester loop: at most one beacon node query per (effective) committee index; on success every value is
the response object of its committee -/
theorem attLoop_spec (cfg : Cfg) (env : Env) (addr slot : Nat) (defs : DefSet) (n : Nat) :
    AttF cfg slot (loopG (attOne cfg env addr slot) defs (LSt.start n) []).1 ∧
    ∀ set, (loopG (attOne cfg env addr slot) defs (LSt.start n) []).2 = .ok set →
      AttI cfg slot (loopG (attOne cfg env addr slot) defs (LSt.start n) []).1 set := by
  have h := loopG_invariant (one := attOne cfg env addr slot) (AttI cfg slot) (AttF cfg slot)
    (fun pk d st resp st' v hi ho => attOne_put hi ho)
    (fun pk d st resp st' hi ho => (attOne_noskip ho).elim)
    (fun pk d st resp st' e hi ho => attOne_fail hi ho) defs (LSt.start n) [] (attI_start cfg slot n)
  refine ⟨?_, h.1⟩
  cases hr : (loopG (attOne cfg env addr slot) defs (LSt.start n) []).2 with
  | ok set => have := h.1 set hr; exact ⟨this.nodup, this.eff⟩
  | err e => exact h.2 (fun set hs => by rw [hr] at hs; cases hs)
  | panic => exact h.2 (fun set hs => by rw [hr] at hs; cases hs)

theorem loopG_invariant_mem {one : PK → Def → LSt → Step} (all : DefSet) (I : LSt → USet → Prop) (F : LSt → Prop)
    (hput : ∀ pk d st resp st' v, (pk, d) ∈ all → I st resp → one pk d st = .put st' v → I st' (uinsert resp pk v))
    (hskip : ∀ pk d st resp st', (pk, d) ∈ all → I st resp → one pk d st = .skip st' → I st' resp)
    (hfail : ∀ pk d st resp st' e, (pk, d) ∈ all → I st resp → one pk d st = .fail st' e → F st') :
    ∀ (defs : DefSet) (st : LSt) (resp : USet), (∀ p ∈ defs, p ∈ all) → I st resp →
      (∀ set, (loopG one defs st resp).2 = .ok set → I (loopG one defs st resp).1 set) ∧
      ((∀ set, (loopG one defs st resp).2 ≠ .ok set) → F (loopG one defs st resp).1)
  | [], st, resp, _, hi => by
    simp only [loopG]
    exact ⟨fun set hs => by cases hs; exact hi, fun h => absurd rfl (h resp)⟩
  | (pk, d) :: rest, st, resp, hsub, hi => by
    have hm : (pk, d) ∈ all := hsub _ List.mem_cons_self
    have hsub' : ∀ p ∈ rest, p ∈ all := fun p hp => hsub p (List.mem_cons_of_mem _ hp)
    simp only [loopG]
    cases ho : one pk d st with
    | fail st' e =>
      have hf := hfail pk d st resp st' e hm hi ho
      cases e with
      | err e => exact ⟨fun set hs => (by cases hs), fun _ => hf⟩
      | ok u => exact ⟨fun set hs => (by cases hs), fun _ => hf⟩
      | panic => exact ⟨fun set hs => (by cases hs), fun _ => hf⟩
    | skip st' => exact loopG_invariant_mem all I F hput hskip hfail rest st' resp hsub' (hskip pk d st resp st' hm hi ho)
    | put st' v => exact loopG_invariant_mem all I F hput hskip hfail rest st' _ hsub' (hput pk d st resp st' v hm hi ho)

/-- the committee indices the beacon node was asked an aggregate for, newest first -/
def aggCis : List Call → List Nat
  | [] => []
  | .aggAtt _ _ ci :: r => ci :: aggCis r
  | _ :: r => aggCis r

/-- every aggregate query follows the duty store query for its committee and asks for the root of the answer -/
def AggLogOK (env : Env) (log : List Call) : Prop :=
  ∀ sl r ci rest, (Call.aggAtt sl r ci :: rest) <:+ log →
    ∃ rest', rest = Call.await sl ci :: rest' ∧ env.await rest'.length sl ci = .ok r

theorem aggLogOK_cons {env : Env} {log : List Call} {c : Call} (h : AggLogOK env log)
    (hc : ∀ sl r ci, c ≠ .aggAtt sl r ci) : AggLogOK env (c :: log) := by
  intro sl r ci rest hs
  rcases List.suffix_cons_iff.mp hs with h1 | h1
  · cases h1
    exact absurd rfl (hc sl r ci)
  · exact h sl r ci rest h1

theorem aggCis_cons_other {log : List Call} {c : Call} (hc : ∀ sl r ci, c ≠ .aggAtt sl r ci) : aggCis (c :: log) = aggCis log := by
  cases c <;> first | rfl | exact absurd rfl (hc _ _ _)

structure AggF (env : Env) (st : LSt) : Prop where
  logok : AggLogOK env st.log
  nodup : (aggCis st.log).Nodup

structure AggI (env : Env) (slot : Nat) (all : DefSet) (st : LSt) (resp : USet) : Prop extends AggF env st where
  vals  : ∀ p ∈ resp, ∃ ci len vi c, (p.1, Def.att ci len vi) ∈ all ∧ p.2 = .agg c ∧ (∃ r, dlookup (ci, 0) st.dc = some (c, r)) ∧
            ∃ n sig h, env.aggSig n .prepAgg slot p.1 0 = .data .sel sig h ∧ isAttAgg env (n + 1) len h = .ok true
  asked : ∀ ci ∈ aggCis st.log, dlookup (ci, 0) st.dc ≠ none
  wk    : ∀ c : Nat, c ∈ wkeys st.writes → c < st.next
  dcw   : ∀ ci c r, dlookup (ci, 0) st.dc = some (c, r) → ∃ root id droot bad p1 p2,
            env.await p1 slot ci = .ok root ∧ env.aggAtt p2 slot root ci = .ok id droot bad ∧
            wlookup c st.writes = some ⟨id, droot, bad, false⟩

theorem aggI_call {env : Env} {slot : Nat} {all : DefSet} {st : LSt} {resp : USet} {c : Call}
    (hi : AggI env slot all st resp) (hc : ∀ sl r ci, c ≠ .aggAtt sl r ci) : AggI env slot all (st.call c) resp :=
  { logok := aggLogOK_cons hi.logok hc
    nodup := by show (aggCis (c :: st.log)).Nodup; rw [aggCis_cons_other hc]; exact hi.nodup
    vals := hi.vals
    asked := by
      intro ci hci
      have : ci ∈ aggCis (c :: st.log) := hci
      rw [aggCis_cons_other hc] at this
      exact hi.asked ci this
    wk := hi.wk
    dcw := hi.dcw }

theorem aggF_call {env : Env} {st : LSt} {c : Call} (hi : AggF env st) (hc : ∀ sl r ci, c ≠ .aggAtt sl r ci) :
    AggF env (st.call c) :=
  ⟨aggLogOK_cons hi.logok hc, by show (aggCis (c :: st.log)).Nodup; rw [aggCis_cons_other hc]; exact hi.nodup⟩

theorem wlookup_cons_ne {c k : Nat} {v : Content} {w : List (Cell × Content)} (h : k ≠ c) :
    wlookup c ((k, v) :: w) = wlookup c w := by
  simp [wlookup, h]

def AggStepOK (env : Env) (slot : Nat) (all : DefSet) (pk : PK) (resp : USet) : Step → Prop
  | .fail st' _ => AggF env st'
  | .skip st' => AggI env slot all st' resp
  | .put st' v => AggI env slot all st' (uinsert resp pk v)

theorem aggOne_step {env : Env} {slot : Nat} {all : DefSet} {pk : PK} {d : Def} {st : LSt} {resp : USet}
    (hm : (pk, d) ∈ all) (hi : AggI env slot all st resp) :
    AggStepOK env slot all pk resp (aggOne env slot pk d st) := by
  unfold aggOne
  split
  · rename_i ci len vi
    dsimp only
    have hi1 := aggI_call (c := .aggSig .prepAgg slot pk 0) hi (fun _ _ _ h => by cases h)
    split
    · exact hi1.toAggF
    · rename_i sig hh hsel
      have hi2 := aggI_call (c := .spec) hi1 (fun _ _ _ h => by cases h)
      split
      · exact hi2.toAggF
      · exact hi2.toAggF
      · exact hi2
      · rename_i hagg
        have hselected : ∃ n sig h, env.aggSig n .prepAgg slot pk 0 = .data .sel sig h ∧ isAttAgg env (n + 1) len h = .ok true :=
          ⟨st.pos, sig, hh, hsel, hagg⟩
        split
        · -- another aggregator of the committee was served before: the same response object
          rename_i c r hl
          show AggI env slot all _ (uinsert resp pk (.agg c))
          refine { hi2 with vals := fun p hp => ?_ }
          rcases mem_uinsert.mp hp with h1 | ⟨h1, _⟩
          · subst h1
            exact ⟨ci, len, vi, c, hm, rfl, ⟨r, hl⟩, hselected⟩
          · exact hi2.vals p h1
        · rename_i hl
          have hi3 := aggI_call (c := .await slot ci) hi2 (fun _ _ _ h => by cases h)
          split
          · exact hi3.toAggF
          · exact hi3.toAggF
          · rename_i root hroot
            -- the aggregate is asked for the root of what the duty store has just returned
            have hlog4 : AggLogOK env (Call.aggAtt slot root ci :: Call.await slot ci ::
                ((st.call (.aggSig .prepAgg slot pk 0)).call .spec).log) := by
              intro sl r ci' rest hs
              rcases List.suffix_cons_iff.mp hs with h1 | h1
              · cases h1
                exact ⟨_, rfl, hroot⟩
              · exact hi3.logok sl r ci' rest h1
            have hnd4 : (aggCis (Call.aggAtt slot root ci :: Call.await slot ci ::
                ((st.call (.aggSig .prepAgg slot pk 0)).call .spec).log)).Nodup := by
              show (ci :: aggCis ((st.call (.aggSig .prepAgg slot pk 0)).call .spec).log).Nodup
              exact List.nodup_cons.mpr ⟨fun hm' => hi2.asked ci hm' hl, hi2.nodup⟩
            have hf4 : AggF env (((st.call (.aggSig .prepAgg slot pk 0)).call .spec).call (.await slot ci) |>.call (.aggAtt slot root ci)) :=
              ⟨hlog4, hnd4⟩
            split
            · exact hf4
            · exact hf4
            · rename_i id droot bad hagg
              show AggI env slot all _ (uinsert resp pk (.agg _))
              have hnext : ∀ c : Nat, c ∈ wkeys st.writes → c < st.next := hi.wk
              refine { logok := hlog4, nodup := hnd4, vals := fun p hp => ?_, asked := ?_, wk := ?_, dcw := ?_ }
              · rcases mem_uinsert.mp hp with h1 | ⟨h1, _⟩
                · subst h1
                  exact ⟨ci, len, vi, _, hm, rfl, ⟨0, by simp [dlookup]⟩, hselected⟩
                · obtain ⟨ci', len', vi', c', h2, h3, ⟨r', h4⟩, h5⟩ := hi2.vals p h1
                  refine ⟨ci', len', vi', c', h2, h3, ⟨r', ?_⟩, h5⟩
                  simp only [dlookup]
                  have hne : ¬ ((ci, 0) = (ci', 0)) := by
                    intro he
                    rw [← he, hl] at h4
                    cases h4
                  simp only [hne, if_false]
                  exact h4
              · intro ci' hci'
                have hci'' : ci' ∈ ci :: aggCis ((st.call (.aggSig .prepAgg slot pk 0)).call .spec).log := hci'
                simp only [dlookup]
                by_cases he : (ci, 0) = (ci', 0)
                · simp [he]
                · simp only [he, if_false]
                  rcases List.mem_cons.mp hci'' with h | h
                  · exact absurd (by rw [h]) he
                  · exact hi2.asked ci' h
              · intro c hc
                have hc' : c ∈ st.next :: wkeys st.writes := hc
                show c < st.next + 1
                rcases List.mem_cons.mp hc' with h | h
                · omega
                · have := hnext c h; omega
              · intro ci' c r hd
                simp only [dlookup] at hd
                by_cases he : (ci, 0) = (ci', 0)
                · simp only [he, if_true] at hd
                  cases hd
                  cases he
                  exact ⟨root, id, droot, bad, _, _, hroot, hagg, by simp [wlookup, LSt.alloc, LSt.call]⟩
                · simp only [he, if_false] at hd
                  obtain ⟨root', id', droot', bad', p1, p2, h1, h2, h3⟩ := hi2.dcw ci' c r hd
                  refine ⟨root', id', droot', bad', p1, p2, h1, h2, ?_⟩
                  have hc : c ∈ wkeys st.writes := wlookup_mem_keys h3
                  have := hnext c hc
                  show wlookup c ((st.next, _) :: st.writes) = _
                  rw [wlookup_cons_ne (by omega)]
                  exact h3
    · exact hi1.toAggF
  · exact hi.toAggF

theorem aggI_start (env : Env) (slot : Nat) (all : DefSet) (n : Nat) : AggI env slot all (LSt.start n) [] :=
  { logok := fun sl r ci rest hs => by
      have := List.IsSuffix.length_le hs
      simp [LSt.start] at this
    nodup := List.nodup_nil
    vals := fun p hp => (by cases hp)
    asked := fun ci hc => (by cases hc)
    wk := fun c hc => (by cases hc)
    dcw := fun ci c r h => (by cases h) }

/-- the aggregator loop -/
theorem aggLoop_spec (env : Env) (slot : Nat) (defs : DefSet) (n : Nat) :
    AggF env (loopG (aggOne env slot) defs (LSt.start n) []).1 ∧
    ∀ set, (loopG (aggOne env slot) defs (LSt.start n) []).2 = .ok set →
      AggI env slot defs (loopG (aggOne env slot) defs (LSt.start n) []).1 set := by
  have h := loopG_invariant_mem (one := aggOne env slot) defs (AggI env slot defs) (AggF env)
    (fun pk d st resp st' v hm hi ho => by have := aggOne_step hm hi; rw [ho] at this; exact this)
    (fun pk d st resp st' hm hi ho => by have := aggOne_step hm hi; rw [ho] at this; exact this)
    (fun pk d st resp st' e hm hi ho => by have := aggOne_step hm hi; rw [ho] at this; exact this)
    defs (LSt.start n) [] (fun p hp => hp) (aggI_start env slot defs n)
  refine ⟨?_, h.1⟩
  cases hr : (loopG (aggOne env slot) defs (LSt.start n) []).2 with
  | ok set => exact (h.1 set hr).toAggF
  | err e => exact h.2 (fun set hs => by rw [hr] at hs; cases hs)
  | panic => exact h.2 (fun set hs => by rw [hr] at hs; cases hs)

/-- the (subcommittee, block root) pairs the beacon node was asked a contribution for, newest first -/
def conKeys : List Call → List (Nat × Nat)
  | [] => []
  | .contrib _ sub root :: r => (sub, root) :: conKeys r
  | _ :: r => conKeys r

theorem conKeys_cons_other {log : List Call} {c : Call} (hc : ∀ sl s r, c ≠ .contrib sl s r) : conKeys (c :: log) = conKeys log := by
  cases c <;> first | rfl | exact absurd rfl (hc _ _ _)

structure SyncI (st : LSt) : Prop where
  nodup : (conKeys st.log).Nodup
  asked : ∀ k ∈ conKeys st.log, dlookup k st.dc ≠ none

theorem syncI_call {st : LSt} {c : Call} (hi : SyncI st) (hc : ∀ sl s r, c ≠ .contrib sl s r) : SyncI (st.call c) :=
  ⟨by show (conKeys (c :: st.log)).Nodup; rw [conKeys_cons_other hc]; exact hi.nodup,
   fun k hk => by
    have : k ∈ conKeys (c :: st.log) := hk
    rw [conKeys_cons_other hc] at this
    exact hi.asked k this⟩

def SubStepOK : SubStep → Prop
  | .fail st' _ => (conKeys st'.log).Nodup
  | .notAgg st' => SyncI st'
  | .got st' _ => SyncI st'

theorem subOne_step {env : Env} {slot : Nat} {pk : PK} {sub : Nat} {st : LSt} (hi : SyncI st) :
    SubStepOK (subOne env slot pk sub st) := by
  unfold subOne
  dsimp only
  have hi1 := syncI_call (c := .aggSig .prepSync slot pk sub) hi (fun _ _ _ h => by cases h)
  split
  · exact hi1.nodup
  · have hi2 := syncI_call (c := .spec) hi1 (fun _ _ _ h => by cases h)
    split
    · exact hi2.nodup
    · exact hi2.nodup
    · exact hi2
    · have hi3 := syncI_call (c := .aggSig .syncMsg slot pk 0) hi2 (fun _ _ _ h => by cases h)
      split
      · exact hi3.nodup
      · rename_i sig root hmsg
        split
        · exact hi3
        · rename_i hl
          have hnd4 : (conKeys (Call.contrib slot sub root ::
              (((st.call (.aggSig .prepSync slot pk sub)).call .spec).call (.aggSig .syncMsg slot pk 0)).log)).Nodup := by
            show ((sub, root) :: conKeys _).Nodup
            exact List.nodup_cons.mpr ⟨fun hm' => hi3.asked _ hm' hl, hi3.nodup⟩
          split
          · exact hnd4
          · exact hnd4
          · refine ⟨hnd4, fun k hk => ?_⟩
            have hk' : k ∈ (sub, root) :: conKeys (((st.call (.aggSig .prepSync slot pk sub)).call .spec).call (.aggSig .syncMsg slot pk 0)).log := hk
            simp only [dlookup]
            by_cases he : (sub, root) = k
            · simp [he]
            · simp only [he, if_false]
              rcases List.mem_cons.mp hk' with h | h
              · exact absurd h.symm he
              · exact hi3.asked k h
      · exact hi3.nodup
  · exact hi1.nodup

theorem subLoop_step (env : Env) (slot : Nat) (v2 : Bool) (pk : PK) :
    ∀ (subs : List Nat) (st : LSt) (acc : List Cell), SyncI st →
      (conKeys (subLoop env slot v2 pk subs st acc).1.log).Nodup ∧
      ∀ l, (subLoop env slot v2 pk subs st acc).2 = .ok l → SyncI (subLoop env slot v2 pk subs st acc).1
  | [], st, acc, hi => ⟨hi.nodup, fun l _ => hi⟩
  | sub :: rest, st, acc, hi => by
    have hs := subOne_step (env := env) (slot := slot) (pk := pk) (sub := sub) hi
    simp only [subLoop]
    cases hso : subOne env slot pk sub st with
    | fail st' e =>
      rw [hso] at hs
      cases e with
      | err e => exact ⟨hs, fun l hl => (by cases hl)⟩
      | ok u => exact ⟨hs, fun l hl => (by cases hl)⟩
      | panic => exact ⟨hs, fun l hl => (by cases hl)⟩
    | notAgg st' =>
      rw [hso] at hs
      exact subLoop_step env slot v2 pk rest st' acc hs
    | got st' c =>
      rw [hso] at hs
      cases v2 with
      | true => simp only [if_true]; exact subLoop_step env slot true pk rest st' _ hs
      | false =>
        simp only [Bool.false_eq_true, if_false]
        exact ⟨hs.nodup, fun l _ => hs⟩

def SyncStepOK : Step → Prop
  | .fail st' _ => (conKeys st'.log).Nodup
  | .skip st' => SyncI st'
  | .put st' _ => SyncI st'

theorem syncOne_step {env : Env} {slot : Nat} {v2 : Bool} {size : Nat} {pk : PK} {d : Def} {st : LSt} (hi : SyncI st) :
    SyncStepOK (syncOne env slot v2 size pk d st) := by
  unfold syncOne
  split
  · rename_i vi idxs
    have hl := subLoop_step env slot v2 pk (subsOf idxs size) st [] hi
    dsimp only
    split
    · exact hl.1
    · exact hl.1
    · rename_i heq; exact hl.2 _ heq
    · rename_i c cs heq
      split
      · exact hl.2 _ heq
      · exact hl.2 _ heq
  · exact hi.nodup

/-- the contribution loop: at most one beacon node query per (subcommittee, block root) -/
theorem contribData_spec (cfg : Cfg) (env : Env) (slot : Nat) (defs : DefSet) (n : Nat) :
    (conKeys (contribData cfg env slot defs (LSt.start n)).1.log).Nodup := by
  unfold contribData
  have h0 : SyncI ((LSt.start n).call .spec) := ⟨List.nodup_nil, fun k hk => (by cases hk)⟩
  split
  · exact h0.nodup
  · exact h0.nodup
  · rename_i size _
    have h := loopG_invariant (one := syncOne env slot (v2Of cfg slot) size) (fun st _ => SyncI st)
      (fun st => (conKeys st.log).Nodup)
      (fun pk d st resp st' v hi ho => by have := syncOne_step (env := env) (slot := slot) (v2 := v2Of cfg slot) (size := size) (pk := pk) (d := d) hi; rw [ho] at this; exact this)
      (fun pk d st resp st' hi ho => by have := syncOne_step (env := env) (slot := slot) (v2 := v2Of cfg slot) (size := size) (pk := pk) (d := d) hi; rw [ho] at this; exact this)
      (fun pk d st resp st' e hi ho => by have := syncOne_step (env := env) (slot := slot) (v2 := v2Of cfg slot) (size := size) (pk := pk) (d := d) hi; rw [ho] at this; exact this)
      defs ((LSt.start n).call .spec) [] h0
    cases hr : (loopG (syncOne env slot (v2Of cfg slot) size) defs ((LSt.start n).call .spec) []).2 with
    | ok set => exact (h.1 set hr).nodup
    | err e => exact h.2 (fun set hs => by rw [hr] at hs; cases hs)
    | panic => exact h.2 (fun set hs => by rw [hr] at hs; cases hs)

/-! ### simulation: a run with and a run without hostile writers

`Sim B s1 s2`: the two states agree on everything but the content of the cells subscribers hold — and, for `B = true`,
of the cells of the beacon node's response objects. `B = false` compares a configuration with the same one without
hostile subscribers; `B = true` (only for the repaired variant, `cloneOnCache`) compares a run with the run in which
the beacon node never writes into its response objects (`stepQ`). -/

structure Sim (B : Bool) (s1 s2 : St) : Prop where
  cache : s1.cache = s2.cache
  next  : s1.next = s2.next
  bn    : s1.bn = s2.bn
  held  : s1.held = s2.held
  heap  : ∀ c : Nat, c ∉ heldCells s1 → (B = true → c ∉ s1.bn) → s1.heap c = s2.heap c

theorem Sim.refl (B : Bool) (s : St) : Sim B s s := ⟨rfl, rfl, rfl, rfl, fun _ _ _ => rfl⟩

theorem heldCells_eq {s1 s2 : St} (h : s1.held = s2.held) : heldCells s1 = heldCells s2 := by
  simp [heldCells, h]

theorem heldBy_eq {s1 s2 : St} (h : s1.held = s2.held) (i : Nat) : heldBy s1 i = heldBy s2 i := by
  simp [heldBy, h]

theorem heldBy_sub {s : St} {i : Nat} {c : Cell} (h : c ∈ heldBy s i) : c ∈ heldCells s := by
  simp only [heldBy, heldCells, List.mem_flatMap] at *
  obtain ⟨p, hp, hc⟩ := h
  exact ⟨p, (List.mem_filter.mp hp).1, hc⟩

theorem copyCells_congr {h1 h2 : Heap} {n : Nat} {srcs : List Cell} {x : Nat}
    (hs : ∀ c ∈ srcs, h1 c = h2 c) (hx : h1 x = h2 x) : copyCells h1 n srcs x = copyCells h2 n srcs x := by
  unfold copyCells
  split
  · cases hg : srcs[x - n]? with
    | none => exact hx
    | some c => exact hs c (List.mem_of_getElem? hg)
  · exact hx

theorem deliver_sim {B : Bool} {cfg1 cfg2 : Cfg} {set : USet} {i : Nat} {s1 s2 : St} (hs : Sim B s1 s2)
    (_hlt : ∀ c : Nat, c ∈ setCells set → c < s1.next) (hag : ∀ c ∈ setCells set, s1.heap c = s2.heap c) :
    (deliver cfg1 set i s1).2 = (deliver cfg2 set i s2).2 ∧ Sim B (deliver cfg1 set i s1).1 (deliver cfg2 set i s2).1 := by
  refine ⟨?_, ?_⟩
  · rw [deliver_obs, deliver_obs, observeSet_congr hag]
  · refine ⟨hs.cache, ?_, hs.bn, ?_, ?_⟩
    · rw [deliver_next, deliver_next, hs.next]
    · rw [deliver_held, deliver_held, hs.held]
      simp [newCells, hs.next]
    · intro c hc hb
      rw [deliver_heldCells] at hc
      have hc1 : c ∉ newCells set s1 := fun h => hc (List.mem_append_left _ h)
      have hc2 : c ∉ heldCells s1 := fun h => hc (List.mem_append_right _ h)
      rcases Nat.lt_or_ge c s1.next with hlt' | hge
      · rw [deliver_heap_lt cfg1 set i s1 hlt', deliver_heap_lt cfg2 set i s2 (by rw [← hs.next]; exact hlt')]
        exact hs.heap c hc2 hb
      · have hge' : s1.next + (setCells set).length ≤ c := by
          rcases Nat.lt_or_ge c (s1.next + (setCells set).length) with h | h
          · exact absurd (mem_newCells.mpr ⟨hge, h⟩) hc1
          · exact h
        rw [deliver_heap_ge cfg1 set i s1 hge', deliver_heap_ge cfg2 set i s2 (by rw [← hs.next]; exact hge')]
        exact hs.heap c hc2 hb

theorem fanout_sim {B : Bool} {cfg1 cfg2 : Cfg} (subErr : Nat → Option Nat) (set : USet) :
    ∀ (k i : Nat) (s1 s2 : St) (acc : List Delivery), Sim B s1 s2 →
      (∀ c : Nat, c ∈ setCells set → c < s1.next) → (∀ c ∈ setCells set, s1.heap c = s2.heap c) →
      (fanout cfg1 subErr set i k s1 acc).2 = (fanout cfg2 subErr set i k s2 acc).2 ∧
      Sim B (fanout cfg1 subErr set i k s1 acc).1 (fanout cfg2 subErr set i k s2 acc).1
  | 0, i, s1, s2, acc, hs, _, _ => ⟨rfl, hs⟩
  | k + 1, i, s1, s2, acc, hs, hlt, hag => by
    have hok : cloneOk s1.heap set = cloneOk s2.heap set := cloneOk_congr (fun c hc => by rw [hag c hc])
    obtain ⟨hd, hsim⟩ := deliver_sim (cfg1 := cfg1) (cfg2 := cfg2) (i := i) hs hlt hag
    simp only [fanout]
    rw [← hok]
    by_cases hc : cloneOk s1.heap set = true
    · simp only [hc, Bool.not_true, Bool.false_eq_true, if_false]
      cases subErr i with
      | some e => exact ⟨by simp only []; rw [hd], hsim⟩
      | none =>
        simp only []
        rw [hd]
        have hn := deliver_next cfg1 set i s1
        exact fanout_sim subErr set k (i + 1) _ _ _ hsim
          (fun c hc' => by have := hlt c hc'; omega)
          (fun c hc' => by
            rw [deliver_heap_lt cfg1 set i s1 (hlt c hc'), deliver_heap_lt cfg2 set i s2 (by rw [← hs.next]; exact hlt c hc')]
            exact hag c hc')
    · have hc' : cloneOk s1.heap set = false := by simpa using hc
      simp only [hc', Bool.not_false, if_true]
      exact ⟨trivial, hs⟩

/-- the same configuration with honest subscribers only -/
def calm (cfg : Cfg) : Cfg := { cfg with hostile := [] }

/-- `cfg2` is `cfg` up to who is hostile, and fewer are -/
structure Like (cfg cfg2 : Cfg) : Prop where
  build   : ∀ env ty slot defs st, buildSet cfg2 env ty slot defs st = buildSet cfg env ty slot defs st
  att     : ∀ env addr slot defs st, loopG (attOne cfg2 env addr slot) defs st [] = loopG (attOne cfg env addr slot) defs st []
  nsubs   : cfg2.nsubs = cfg.nsubs
  clone   : cfg2.cloneOnCache = cfg.cloneOnCache
  hostile : ∀ i, i ∈ cfg2.hostile → i ∈ cfg.hostile

theorem like_calm (cfg : Cfg) : Like cfg (calm cfg) :=
  ⟨fun env ty slot defs st => by cases ty <;> rfl, fun _ _ _ _ _ => rfl, rfl, rfl, fun i hi => by simp [calm] at hi⟩

theorem like_refl (cfg : Cfg) : Like cfg cfg := ⟨fun _ _ _ _ _ => rfl, fun _ _ _ _ _ => rfl, rfl, rfl, fun _ h => h⟩

theorem sim_inv {B : Bool} {cfg cfg2 : Cfg} (hl : Like cfg cfg2) {s1 s2 : St} (hs : Sim B s1 s2) (hi : Inv cfg s1) : Inv cfg2 s2 := by
  have hh := heldCells_eq hs.held
  have hcc : cacheCells s1 = cacheCells s2 := by simp [cacheCells, hs.cache]
  constructor
  · intro c hc; rw [← hs.bn] at hc; rw [← hs.next]; exact hi.bn_lt c hc
  · intro c hc; rw [← hh] at hc; rw [← hs.next]; exact hi.held_lt c hc
  · intro c hc; rw [← hcc] at hc; rw [← hs.next]; exact hi.cache_lt c hc
  · rw [← hh]; exact hi.held_nodup
  · intro c hc; rw [← hh] at hc; rw [← hs.bn]; exact hi.held_bn c hc
  · intro c hc; rw [← hh] at hc; rw [← hcc]; exact hi.held_cache c hc
  · intro hf c hc; rw [← hcc] at hc; rw [← hs.bn]; rw [hl.clone] at hf; exact hi.cache_bn hf c hc

theorem sim_absorb {B : Bool} {s1 s2 : St} (st : LSt) (hs : Sim B s1 s2) : Sim B (s1.absorb st) (s2.absorb st) :=
  ⟨hs.cache, rfl, by simp [St.absorb, hs.bn], hs.held, fun c hc hb =>
    applyWrites_congr (hs.heap c hc (fun hB hm => hb hB (by simp only [St.absorb, List.mem_append]; exact Or.inr hm)))⟩

theorem prepare_sim {B : Bool} {cfg cfg2 : Cfg} (hl : Like cfg cfg2) (hB : B = true → cfg.cloneOnCache = true)
    (env : Env) {s1 s2 : St} (ty : DutyType) (slot : Nat) (defs : DefSet) (hs : Sim B s1 s2) (hi : Inv cfg s1) :
    (prepare cfg env s1 ty slot defs).2 = (prepare cfg2 env s2 ty slot defs).2 ∧
    Sim B (prepare cfg env s1 ty slot defs).1 (prepare cfg2 env s2 ty slot defs).1 ∧
    ∀ set, (prepare cfg env s1 ty slot defs).2.2 = .ok set →
      ∀ c ∈ setCells set, (prepare cfg env s1 ty slot defs).1.heap c = (prepare cfg2 env s2 ty slot defs).1.heap c := by
  have build : ∀ (ty : DutyType),
      ((s1.absorb (buildSet cfg env ty slot defs (LSt.start s1.next)).1,
        (buildSet cfg env ty slot defs (LSt.start s1.next)).1.log,
        (buildSet cfg env ty slot defs (LSt.start s1.next)).2) : St × List Call × Res USet).2 =
      ((s2.absorb (buildSet cfg env ty slot defs (LSt.start s1.next)).1,
        (buildSet cfg env ty slot defs (LSt.start s1.next)).1.log,
        (buildSet cfg env ty slot defs (LSt.start s1.next)).2) : St × List Call × Res USet).2 ∧
      Sim B (s1.absorb (buildSet cfg env ty slot defs (LSt.start s1.next)).1)
          (s2.absorb (buildSet cfg env ty slot defs (LSt.start s1.next)).1) ∧
      ∀ set, (buildSet cfg env ty slot defs (LSt.start s1.next)).2 = .ok set → ∀ c ∈ setCells set,
        (s1.absorb (buildSet cfg env ty slot defs (LSt.start s1.next)).1).heap c =
        (s2.absorb (buildSet cfg env ty slot defs (LSt.start s1.next)).1).heap c := by
    intro ty
    refine ⟨rfl, sim_absorb _ hs, fun set hs' c hc => ?_⟩
    obtain ⟨hw, hset⟩ := buildSet_good cfg env ty slot defs s1.next
    have hb := (hset set hs').1 c hc
    exact applyWrites_mem_indep (hw.bn_wk c hb)
  unfold prepare
  rw [← hs.cache, ← hs.next, hl.build]
  cases ty with
  | attester =>
    cases hlk : clookup slot s1.cache with
    | some set =>
      refine ⟨rfl, ⟨rfl, rfl, hs.bn, hs.held, hs.heap⟩, fun set' hs' c hc => ?_⟩
      cases hs'
      have hcm := setCells_cache_mem (clookup_mem hlk) hc
      exact hs.heap c (fun hh => hi.held_cache c hh hcm) (fun hb => hi.cache_bn (hB hb) c hcm)
    | none => exact build .attester
  | proposer => exact build .proposer
  | builderProposer => exact build .builderProposer
  | aggregator => exact build .aggregator
  | syncContribution => exact build .syncContribution
  | other n => exact build (.other n)

theorem fetch_sim {B : Bool} {cfg cfg2 : Cfg} (hl : Like cfg cfg2) (hB : B = true → cfg.cloneOnCache = true)
    (env : Env) (subErr : Nat → Option Nat) {s1 s2 : St} (ty : DutyType) (slot : Nat) (defs : DefSet)
    (hs : Sim B s1 s2) (hi : Inv cfg s1) :
    (fetch cfg env subErr s1 ty slot defs).2 = (fetch cfg2 env subErr s2 ty slot defs).2 ∧
    Sim B (fetch cfg env subErr s1 ty slot defs).1 (fetch cfg2 env subErr s2 ty slot defs).1 := by
  obtain ⟨h1, h2, h3⟩ := prepare_sim hl hB env ty slot defs hs hi
  have hp := prepare_spec cfg env s1 ty slot defs hi
  unfold fetch
  rcases hpe1 : prepare cfg env s1 ty slot defs with ⟨a1, log1, r1⟩
  rcases hpe2 : prepare cfg2 env s2 ty slot defs with ⟨a2, log2, r2⟩
  rw [hpe1, hpe2] at h1 h2 h3
  rw [hpe1] at hp
  simp only [Prod.mk.injEq] at h1
  obtain ⟨hlg, hr⟩ := h1
  subst hlg hr
  cases r1 with
  | err e => exact ⟨rfl, h2⟩
  | panic => exact ⟨rfl, h2⟩
  | ok set =>
    simp only []
    split
    · exact ⟨rfl, h2⟩
    · have hf := fanout_sim (cfg1 := cfg) (cfg2 := cfg2) subErr set cfg.nsubs 0 a1 a2 [] h2 (hp.cells set rfl) (h3 set rfl)
      rw [hl.nsubs]
      refine ⟨?_, hf.2⟩
      have := hf.1
      simp only [Prod.ext_iff] at this
      rw [this.1, this.2]

theorem fetchOnly_sim {B : Bool} {cfg cfg2 : Cfg} (hl : Like cfg cfg2) (env : Env) {s1 s2 : St} (ty : DutyType) (slot : Nat)
    (defs : DefSet) (addr head : Nat) (hs : Sim B s1 s2) :
    (fetchOnly cfg env s1 ty slot defs addr head).2 = (fetchOnly cfg2 env s2 ty slot defs addr head).2 ∧
    Sim B (fetchOnly cfg env s1 ty slot defs addr head).1 (fetchOnly cfg2 env s2 ty slot defs addr head).1 := by
  unfold fetchOnly
  cases ty with
  | attester =>
    dsimp only
    rw [hl.att, ← hs.next, ← hs.cache]
    have hg := loopG_good (good_att s1.next cfg env addr slot) defs (LSt.start s1.next) [] (wf_start _)
      (fun c hc => by simp [setCells] at hc)
    generalize loopG (attOne cfg env addr slot) defs (LSt.start s1.next) [] = r at hg
    obtain ⟨_, hw, hset⟩ := hg
    have hs0 : Sim B ({ s1 with cache := s1.cache.filter (fun p => !(p.1 < slot)) } : St)
        ({ s2 with cache := s1.cache.filter (fun p => !(p.1 < slot)), next := s1.next } : St) :=
      ⟨rfl, rfl, hs.bn, hs.held, hs.heap⟩
    have hs1 := sim_absorb r.1 hs0
    cases hres : r.2 with
    | err e => exact ⟨rfl, hs1⟩
    | panic => exact ⟨rfl, hs1⟩
    | ok set =>
      have hag : ∀ c ∈ setCells set, applyWrites s1.heap r.1.writes c = applyWrites s2.heap r.1.writes c :=
        fun c hc => applyWrites_mem_indep (hw.bn_wk c ((hset set hres).1 c hc))
      simp only []
      split
      · rw [hl.clone]
        split
        · have hok : cloneOk (applyWrites s1.heap r.1.writes) set = cloneOk (applyWrites s2.heap r.1.writes) set :=
            cloneOk_congr (fun c hc => by rw [hag c hc])
          simp only [St.absorb]
          by_cases hck : cloneOk (applyWrites s1.heap r.1.writes) set = true
          · have hck2 : cloneOk (applyWrites s2.heap r.1.writes) set = true := by rw [← hok]; exact hck
            simp only [hck, hck2, Bool.not_true, Bool.false_eq_true, if_false]
            refine ⟨trivial, ⟨rfl, rfl, by simp [hs.bn], hs.held, fun c hc hb => ?_⟩⟩
            simp only [cloneSet]
            exact copyCells_congr hag (hs1.heap c hc hb)
          · have hck1 : cloneOk (applyWrites s1.heap r.1.writes) set = false := by simpa using hck
            have hck2 : cloneOk (applyWrites s2.heap r.1.writes) set = false := by rw [← hok]; exact hck1
            simp only [hck1, hck2, Bool.not_false, if_true]
            exact ⟨trivial, hs1⟩
        · exact ⟨rfl, ⟨rfl, rfl, by simp [St.absorb, hs.bn], hs.held, hs1.heap⟩⟩
      · exact ⟨rfl, hs1⟩
  | proposer => exact ⟨rfl, hs⟩
  | builderProposer => exact ⟨rfl, hs⟩
  | aggregator => exact ⟨rfl, hs⟩
  | syncContribution => exact ⟨rfl, hs⟩
  | other n => exact ⟨rfl, hs⟩

theorem stepQ_false (cfg : Cfg) (s : St) (op : Op) : stepQ false cfg s op = step cfg s op := by
  cases op <;> rfl

theorem outsQ_false (cfg : Cfg) : ∀ (ops : List Op) (s : St), outsQ false cfg s ops = outs cfg s ops
  | [], _ => rfl
  | o :: os, s => by simp only [outsQ, outs, stepQ_false]; rw [outsQ_false cfg os]

theorem step_sim {B : Bool} {cfg cfg2 : Cfg} (hl : Like cfg cfg2) (hB : B = true → cfg.cloneOnCache = true)
    {s1 s2 : St} (op : Op) (hs : Sim B s1 s2) (hi : Inv cfg s1) :
    (step cfg s1 op).2 = (stepQ B cfg2 s2 op).2 ∧ Sim B (step cfg s1 op).1 (stepQ B cfg2 s2 op).1 := by
  cases op with
  | fetch env subErr ty slot defs =>
    have : stepQ B cfg2 s2 (.fetch env subErr ty slot defs) = fetch cfg2 env subErr s2 ty slot defs := by cases B <;> rfl
    rw [this]
    exact fetch_sim hl hB env subErr ty slot defs hs hi
  | fetchOnly env ty slot defs addr head =>
    have : stepQ B cfg2 s2 (.fetchOnly env ty slot defs addr head) = fetchOnly cfg2 env s2 ty slot defs addr head := by cases B <;> rfl
    rw [this]
    exact fetchOnly_sim hl env ty slot defs addr head hs
  | reorg =>
    have : stepQ B cfg2 s2 .reorg = ({ s2 with cache := [] }, noOut) := by cases B <;> rfl
    rw [this]
    exact ⟨rfl, ⟨rfl, hs.next, hs.bn, hs.held, hs.heap⟩⟩
  | bnScribble =>
    cases B with
    | false =>
      refine ⟨rfl, ⟨hs.cache, hs.next, hs.bn, hs.held, fun c hc hb => ?_⟩⟩
      show scribbleCells s1.heap s1.bn c = scribbleCells s2.heap s2.bn c
      rw [← hs.bn]
      exact scribble_congr (hs.heap c hc hb)
    | true =>
      refine ⟨rfl, ⟨hs.cache, hs.next, hs.bn, hs.held, fun c hc hb => ?_⟩⟩
      show scribbleCells s1.heap s1.bn c = s2.heap c
      have hb' : c ∉ s1.bn := hb rfl
      rw [scribble_not_mem hb']
      exact hs.heap c hc hb
  | subScribble i =>
    have : stepQ B cfg2 s2 (.subScribble i) = step cfg2 s2 (.subScribble i) := by cases B <;> rfl
    rw [this]
    have key : ∀ (b1 b2 : Bool), Sim B
        (if b1 then { s1 with heap := scribbleCells s1.heap (heldBy s1 i) } else s1)
        (if b2 then { s2 with heap := scribbleCells s2.heap (heldBy s2 i) } else s2) := by
      intro b1 b2
      have hnm : ∀ c : Nat, c ∉ heldCells s1 → c ∉ heldBy s1 i := fun c hc h => hc (heldBy_sub h)
      have hnm2 : ∀ c : Nat, c ∉ heldCells s1 → c ∉ heldBy s2 i := fun c hc h => by
        rw [← heldBy_eq hs.held] at h; exact hc (heldBy_sub h)
      cases b1 <;> cases b2
      · exact hs
      · refine ⟨hs.cache, hs.next, hs.bn, hs.held, fun c hc hb => ?_⟩
        show s1.heap c = scribbleCells s2.heap (heldBy s2 i) c
        rw [scribble_not_mem (hnm2 c hc)]; exact hs.heap c hc hb
      · refine ⟨hs.cache, hs.next, hs.bn, hs.held, fun c hc hb => ?_⟩
        show scribbleCells s1.heap (heldBy s1 i) c = s2.heap c
        rw [scribble_not_mem (hnm c hc)]; exact hs.heap c hc hb
      · refine ⟨hs.cache, hs.next, hs.bn, hs.held, fun c hc hb => ?_⟩
        show scribbleCells s1.heap (heldBy s1 i) c = scribbleCells s2.heap (heldBy s2 i) c
        rw [scribble_not_mem (hnm c hc), scribble_not_mem (hnm2 c hc)]; exact hs.heap c hc hb
    simp only [step]
    by_cases h1 : i ∈ cfg.hostile <;> by_cases h2 : i ∈ cfg2.hostile
    · simp only [h1, h2, if_true]; exact ⟨trivial, key true true⟩
    · simp only [h1, h2, if_true, if_false]; exact ⟨trivial, key true false⟩
    · exact absurd (hl.hostile i h2) h1
    · simp only [h1, h2, if_false]; exact ⟨trivial, key false false⟩

theorem outs_simQ {B : Bool} {cfg cfg2 : Cfg} (hl : Like cfg cfg2) (hB : B = true → cfg.cloneOnCache = true) :
    ∀ (ops : List Op) {s1 s2 : St}, Sim B s1 s2 → Inv cfg s1 → outs cfg s1 ops = outsQ B cfg2 s2 ops
  | [], _, _, _, _ => rfl
  | o :: os, s1, s2, hs, hi => by
    obtain ⟨h1, h2⟩ := step_sim hl hB o hs hi
    simp only [outs, outsQ]
    rw [h1, outs_simQ hl hB os h2 (inv_step o hi)]

/-- hostile subscribers: same outputs as with honest subscribers only -/
theorem outs_sim {cfg : Cfg} (ops : List Op) {s : St} (hi : Inv cfg s) : outs cfg s ops = outs (calm cfg) s ops := by
  rw [outs_simQ (B := false) (like_calm cfg) (fun h => by cases h) ops (Sim.refl false s) hi, outsQ_false]

/-- the repaired variant: same outputs as when the beacon node never writes into its response objects -/
theorem outs_quiet {cfg : Cfg} (hc : cfg.cloneOnCache = true) (ops : List Op) {s : St} (hi : Inv cfg s) :
    outs cfg s ops = outsQ true cfg s ops :=
  outs_simQ (B := true) (like_refl cfg) (fun _ => hc) ops (Sim.refl true s) hi

/-! ### what an honest subscriber holds is never written again -/

theorem mem_heldBy {s : St} {i : Nat} {c : Cell} : c ∈ heldBy s i ↔ ∃ p ∈ s.held, p.1 = i ∧ c ∈ p.2 := by
  simp only [heldBy, List.mem_flatMap, List.mem_filter]
  constructor
  · rintro ⟨p, ⟨hp, hpi⟩, hc⟩
    exact ⟨p, hp, by simpa using hpi, hc⟩
  · rintro ⟨p, hp, hpi, hc⟩
    exact ⟨p, ⟨hp, by simpa using hpi⟩, hc⟩

theorem held_owner_unique : ∀ {held : List (Nat × List Cell)}, (held.flatMap (·.2)).Nodup →
    ∀ {p q : Nat × List Cell} {c : Cell}, p ∈ held → q ∈ held → c ∈ p.2 → c ∈ q.2 → p.1 = q.1
  | [], _, _, _, _, hp, _, _, _ => by cases hp
  | a :: r, hn, p, q, c, hp, hq, hcp, hcq => by
    simp only [List.flatMap_cons] at hn
    obtain ⟨_, hn2, hdis⟩ := List.nodup_append.mp hn
    have inr : ∀ {x : Nat × List Cell}, x ∈ r → c ∈ x.2 → c ∈ r.flatMap (·.2) :=
      fun hx hc => List.mem_flatMap.mpr ⟨_, hx, hc⟩
    rcases List.mem_cons.mp hp with h1 | h1 <;> rcases List.mem_cons.mp hq with h2 | h2
    · rw [h1, h2]
    · subst h1; exact absurd rfl (hdis c hcp c (inr h2 hcq))
    · subst h2; exact absurd rfl (hdis c hcq c (inr h1 hcp))
    · exact held_owner_unique hn2 h1 h2 hcp hcq

theorem fetch_held {cfg : Cfg} (env : Env) (subErr : Nat → Option Nat) {s : St} (ty : DutyType) (slot : Nat) (defs : DefSet)
    (hi : Inv cfg s) :
    (∃ nh, (fetch cfg env subErr s ty slot defs).1.held = nh ++ s.held) ∧
    ∀ c : Nat, c < s.next → (fetch cfg env subErr s ty slot defs).1.heap c = s.heap c := by
  have hp := prepare_spec cfg env s ty slot defs hi
  unfold fetch
  rcases hpe : prepare cfg env s ty slot defs with ⟨s1, log, r⟩
  rw [hpe] at hp
  have base : (∃ nh, s1.held = nh ++ s.held) ∧ ∀ c : Nat, c < s.next → s1.heap c = s.heap c :=
    ⟨⟨[], by rw [hp.held]; rfl⟩, hp.heap_lt⟩
  cases r with
  | err e => exact base
  | panic => exact base
  | ok set =>
    simp only []
    split
    · exact base
    · have hf := fanout_spec cfg subErr set cfg.nsubs 0 s1 [] hp.inv (hp.cells set rfl)
      obtain ⟨m, _, _, _, _, _, _, nh, hnh, _, _⟩ := hf.deliv
      refine ⟨⟨nh, by rw [hnh, hp.held]⟩, fun c hc => ?_⟩
      have hnx : s.next ≤ s1.next := hp.next
      rw [hf.heap_lt c (by omega)]
      exact hp.heap_lt c hc

theorem fetchOnly_held {cfg : Cfg} (env : Env) {s : St} (ty : DutyType) (slot : Nat) (defs : DefSet) (addr head : Nat) :
    (fetchOnly cfg env s ty slot defs addr head).1.held = s.held ∧
    ∀ c : Nat, c < s.next → (fetchOnly cfg env s ty slot defs addr head).1.heap c = s.heap c := by
  unfold fetchOnly
  cases ty with
  | attester =>
    dsimp only
    have hg := loopG_good (good_att s.next cfg env addr slot) defs (LSt.start s.next) [] (wf_start _)
      (fun c hc => by simp [setCells] at hc)
    generalize loopG (attOne cfg env addr slot) defs (LSt.start s.next) [] = r at hg
    obtain ⟨_, hw, _⟩ := hg
    have hlt : ∀ c : Nat, c < s.next → applyWrites s.heap r.1.writes c = s.heap c :=
      fun c hc => applyWrites_of_lt (n := s.next) (fun k hk => (hw.wk_rng k hk).1) hc
    have base : ∀ c : Nat, c < s.next → (St.absorb { s with cache := s.cache.filter (fun p => !(p.1 < slot)) } r.1).heap c = s.heap c := hlt
    cases hres : r.2 with
    | err e => exact ⟨rfl, base⟩
    | panic => exact ⟨rfl, base⟩
    | ok set =>
      simp only []
      split
      · split
        · split
          · exact ⟨rfl, base⟩
          · refine ⟨rfl, fun c hc => ?_⟩
            have hb := hw.base_le
            show copyCells _ r.1.next _ c = _
            rw [copyCells_lt (by omega)]
            exact hlt c hc
        · exact ⟨rfl, base⟩
      · exact ⟨rfl, base⟩
  | proposer => exact ⟨rfl, fun _ _ => rfl⟩
  | builderProposer => exact ⟨rfl, fun _ _ => rfl⟩
  | aggregator => exact ⟨rfl, fun _ _ => rfl⟩
  | syncContribution => exact ⟨rfl, fun _ _ => rfl⟩
  | other n => exact ⟨rfl, fun _ _ => rfl⟩

theorem honest_step {cfg : Cfg} {s : St} (op : Op) (hi : Inv cfg s) {i : Nat} (hh : i ∉ cfg.hostile) {c : Cell}
    (hc : c ∈ heldBy s i) : c ∈ heldBy (step cfg s op).1 i ∧ (step cfg s op).1.heap c = s.heap c := by
  have hlt : (c : Nat) < s.next := hi.held_lt c (heldBy_sub hc)
  obtain ⟨p, hp, hpi, hcp⟩ := mem_heldBy.mp hc
  cases op with
  | fetch env subErr ty slot defs =>
    obtain ⟨⟨nh, hnh⟩, hheap⟩ := fetch_held env subErr ty slot defs hi
    exact ⟨mem_heldBy.mpr ⟨p, by show p ∈ (fetch cfg env subErr s ty slot defs).1.held; rw [hnh]; exact List.mem_append_right _ hp, hpi, hcp⟩,
      hheap c hlt⟩
  | fetchOnly env ty slot defs addr head =>
    obtain ⟨hheld, hheap⟩ := fetchOnly_held (cfg := cfg) env (s := s) ty slot defs addr head
    exact ⟨mem_heldBy.mpr ⟨p, by show p ∈ (fetchOnly cfg env s ty slot defs addr head).1.held; rw [hheld]; exact hp, hpi, hcp⟩,
      hheap c hlt⟩
  | reorg => exact ⟨hc, rfl⟩
  | bnScribble =>
    exact ⟨hc, scribble_not_mem (fun hb => hi.held_bn c (heldBy_sub hc) hb)⟩
  | subScribble j =>
    simp only [step]
    split
    · rename_i hj
      refine ⟨hc, scribble_not_mem (fun hcj => ?_)⟩
      obtain ⟨q, hq, hqj, hcq⟩ := mem_heldBy.mp hcj
      have := held_owner_unique hi.held_nodup hp hq hcp hcq
      rw [hpi, hqj] at this
      exact hh (this ▸ hj)
    · exact ⟨hc, rfl⟩

theorem honest_run {cfg : Cfg} : ∀ (ops : List Op) {s : St}, Inv cfg s → ∀ {i : Nat}, i ∉ cfg.hostile → ∀ {c : Cell},
    c ∈ heldBy s i → c ∈ heldBy (run cfg s ops) i ∧ (run cfg s ops).heap c = s.heap c
  | [], _, _, _, _, _, hc => ⟨hc, rfl⟩
  | o :: os, s, hi, i, hh, c, hc => by
    obtain ⟨h1, h2⟩ := honest_step o hi hh hc
    obtain ⟨h3, h4⟩ := honest_run os (inv_step o hi) hh h1
    exact ⟨h3, h4.trans h2⟩

/-! ### determinism: what a loop computes when the environment is stateless -/

/-- reading a value through a write list -/
def observeW (w : List (Cell × Content)) : UVal → Option VObs
  | .att c r d => (wlookup c w).map (fun x => .att x r d)
  | .agg c => (wlookup c w).map .agg
  | .prop c => (wlookup c w).map .prop
  | .contrib c => (wlookup c w).map .contrib
  | .contribs cs => (cs.mapM (fun c => wlookup c w)).map .contribs

/-- existing cells keep their content -/
def Stable (a b : LSt) : Prop := ∀ c x, wlookup c a.writes = some x → wlookup c b.writes = some x

theorem Stable.refl (a : LSt) : Stable a a := fun _ _ h => h
theorem Stable.trans {a b c : LSt} (h1 : Stable a b) (h2 : Stable b c) : Stable a c := fun k x h => h2 k x (h1 k x h)

theorem mapM_wlookup_stable {w w' : List (Cell × Content)} (h : ∀ c x, wlookup c w = some x → wlookup c w' = some x) :
    ∀ {cs : List Cell} {xs : List Content}, cs.mapM (fun c => wlookup c w) = some xs → cs.mapM (fun c => wlookup c w') = some xs
  | [], xs, hm => by simpa using hm
  | c :: cs, xs, hm => by
    simp only [List.mapM_cons, Option.bind_eq_bind, Option.pure_def] at hm ⊢
    cases hc : wlookup c w with
    | none => rw [hc] at hm; cases hm
    | some x =>
      rw [hc] at hm
      simp only [Option.bind_some] at hm
      cases hr : cs.mapM (fun c => wlookup c w) with
      | none => rw [hr] at hm; cases hm
      | some ys =>
        rw [hr] at hm
        rw [h c x hc, mapM_wlookup_stable h hr]
        exact hm

theorem observeW_stable {a b : LSt} (h : Stable a b) {v : UVal} {o : VObs} (ho : observeW a.writes v = some o) :
    observeW b.writes v = some o := by
  cases v with
  | att c r d =>
    simp only [observeW, Option.map_eq_some_iff] at ho ⊢
    obtain ⟨x, hx, rfl⟩ := ho
    exact ⟨x, h c x hx, rfl⟩
  | agg c =>
    simp only [observeW, Option.map_eq_some_iff] at ho ⊢
    obtain ⟨x, hx, rfl⟩ := ho
    exact ⟨x, h c x hx, rfl⟩
  | prop c =>
    simp only [observeW, Option.map_eq_some_iff] at ho ⊢
    obtain ⟨x, hx, rfl⟩ := ho
    exact ⟨x, h c x hx, rfl⟩
  | contrib c =>
    simp only [observeW, Option.map_eq_some_iff] at ho ⊢
    obtain ⟨x, hx, rfl⟩ := ho
    exact ⟨x, h c x hx, rfl⟩
  | contribs cs =>
    simp only [observeW, Option.map_eq_some_iff] at ho ⊢
    obtain ⟨xs, hx, rfl⟩ := ho
    exact ⟨xs, mapM_wlookup_stable h hx, rfl⟩

inductive Verdict where
  | fail
  | skip
  | put (o : VObs)
  deriving DecidableEq, Repr

def StepRealises (J : LSt → Prop) (st : LSt) (verdict : Verdict) : Step → Prop
  | .fail _ _ => verdict = .fail
  | .skip st' => verdict = .skip ∧ J st' ∧ Stable st st'
  | .put st' v => ∃ o, verdict = .put o ∧ J st' ∧ Stable st st' ∧ observeW st'.writes v = some o

/-- the loop body `one` realises the verdict function `V` on every state satisfying `J` -/
def Realises (one : PK → Def → LSt → Step) (J : LSt → Prop) (V : PK → Def → Verdict) : Prop :=
  ∀ pk d st, J st → StepRealises J st (V pk d) (one pk d st)

/-- what a holder of the set reads for `pk` -/
def obsOf (w : List (Cell × Content)) (set : USet) (pk : PK) : Option VObs := (ulookup set pk).bind (observeW w)

/-- what `pk` ends up with: the value of its verdict, or what the set had before (`fb`) -/
def expect (V : PK → Def → Verdict) (defs : DefSet) (pk : PK) (fb : Option VObs) : Option VObs :=
  match defs.find? (fun p => p.1 == pk) with
  | some p => (match V p.1 p.2 with | .put o => some o | _ => fb)
  | none => fb

theorem ulookup_uinsert_same {s : USet} {pk : PK} {v : UVal} : ulookup (uinsert s pk v) pk = some v := by
  simp [ulookup, uinsert]

theorem ulookup_uinsert_ne {s : USet} {pk q : PK} {v : UVal} (h : q ≠ pk) : ulookup (uinsert s pk v) q = ulookup s q := by
  have h1 : (pk == q) = false := by simpa using fun e => h e.symm
  simp only [ulookup, uinsert, List.find?_cons, h1, uerase]
  have : ∀ l : USet, List.find? (fun p => p.1 == q) (l.filter (fun p => p.1 != pk)) = List.find? (fun p => p.1 == q) l := by
    intro l
    induction l with
    | nil => rfl
    | cons a r ih =>
      simp only [List.filter_cons]
      by_cases ha : a.1 = pk
      · have h2 : (a.1 != pk) = false := by simp [ha]
        have h3 : (a.1 == q) = false := by simpa [ha] using fun e => h e.symm
        simp only [h2, List.find?_cons, h3]
        exact ih
      · have h2 : (a.1 != pk) = true := by simpa using ha
        simp only [h2, if_true, List.find?_cons]
        rw [ih]
  rw [this]

theorem loopG_char {one : PK → Def → LSt → Step} {J : LSt → Prop} {V : PK → Def → Verdict} (hr : Realises one J V) :
    ∀ (defs : DefSet) (st : LSt) (resp : USet), J st → (defs.map (·.1)).Nodup →
      ((∃ p ∈ defs, V p.1 p.2 = .fail) → ∀ set, (loopG one defs st resp).2 ≠ .ok set) ∧
      ((∀ p ∈ defs, V p.1 p.2 ≠ .fail) → ∃ set, (loopG one defs st resp).2 = .ok set ∧
          J (loopG one defs st resp).1 ∧ Stable st (loopG one defs st resp).1 ∧
          ∀ pk, obsOf (loopG one defs st resp).1.writes set pk =
            expect V defs pk (obsOf (loopG one defs st resp).1.writes resp pk))
  | [], st, resp, hj, _ => by
    simp only [loopG]
    exact ⟨fun ⟨p, hp, _⟩ => (by cases hp), fun _ => ⟨resp, rfl, hj, Stable.refl _, fun pk => (by simp [expect])⟩⟩
  | (pk, d) :: rest, st, resp, hj, hn => by
    simp only [List.map_cons, List.nodup_cons] at hn
    have hstep := hr pk d st hj
    simp only [loopG]
    cases ho : one pk d st with
    | fail st' e =>
      rw [ho] at hstep
      simp only [StepRealises] at hstep
      refine ⟨fun _ set hs => ?_, fun hall => absurd hstep (hall (pk, d) List.mem_cons_self)⟩
      cases e <;> cases hs
    | skip st' =>
      rw [ho] at hstep
      obtain ⟨hv, hj', hst⟩ := hstep
      obtain ⟨ih1, ih2⟩ := loopG_char hr rest st' resp hj' hn.2
      refine ⟨fun ⟨p, hp, hf⟩ => ?_, fun hall => ?_⟩
      · rcases List.mem_cons.mp hp with h | h
        · subst h; rw [hv] at hf; cases hf
        · exact ih1 ⟨p, h, hf⟩
      · obtain ⟨set, hs, hjf, hstf, hobs⟩ := ih2 (fun p hp => hall p (List.mem_cons_of_mem _ hp))
        refine ⟨set, hs, hjf, hst.trans hstf, fun q => ?_⟩
        rw [hobs q]
        by_cases hq : pk = q
        · subst hq
          have hnf : rest.find? (fun p => p.1 == pk) = none := by
            apply List.find?_eq_none.mpr
            intro p hp hpe
            exact hn.1 (List.mem_map.mpr ⟨p, hp, by simpa using hpe⟩)
          simp [expect, hnf, hv]
        · have : (pk == q) = false := by simpa using hq
          simp [expect, this]
    | put st' v =>
      rw [ho] at hstep
      obtain ⟨o, hv, hj', hst, hov⟩ := hstep
      obtain ⟨ih1, ih2⟩ := loopG_char hr rest st' (uinsert resp pk v) hj' hn.2
      refine ⟨fun ⟨p, hp, hf⟩ => ?_, fun hall => ?_⟩
      · rcases List.mem_cons.mp hp with h | h
        · subst h; rw [hv] at hf; cases hf
        · exact ih1 ⟨p, h, hf⟩
      · obtain ⟨set, hs, hjf, hstf, hobs⟩ := ih2 (fun p hp => hall p (List.mem_cons_of_mem _ hp))
        refine ⟨set, hs, hjf, hst.trans hstf, fun q => ?_⟩
        rw [hobs q]
        by_cases hq : pk = q
        · subst hq
          have hnf : rest.find? (fun p => p.1 == pk) = none := by
            apply List.find?_eq_none.mpr
            intro p hp hpe
            exact hn.1 (List.mem_map.mpr ⟨p, hp, by simpa using hpe⟩)
          simp only [expect, hnf, List.find?_cons, beq_self_eq_true, hv]
          simp only [obsOf, ulookup_uinsert_same, Option.bind_some]
          exact observeW_stable hstf hov
        · have : (pk == q) = false := by simpa using hq
          simp only [expect, List.find?_cons, this]
          simp only [obsOf, ulookup_uinsert_ne (fun e => hq e.symm)]

theorem find_key_of_mem : ∀ {defs : DefSet} {p : PK × Def}, (defs.map (·.1)).Nodup → p ∈ defs →
    defs.find? (fun x => x.1 == p.1) = some p
  | [], _, _, h => by cases h
  | a :: r, p, hn, h => by
    simp only [List.map_cons, List.nodup_cons] at hn
    simp only [List.find?_cons]
    rcases List.mem_cons.mp h with h1 | h1
    · subst h1; simp
    · have hne : a.1 ≠ p.1 := fun e => hn.1 (e ▸ List.mem_map.mpr ⟨p, h1, rfl⟩)
      have : (a.1 == p.1) = false := by simpa using hne
      simp only [this]
      exact find_key_of_mem hn.2 h1

theorem expect_perm {V : PK → Def → Verdict} {defs1 defs2 : DefSet} (hp : defs1.Perm defs2)
    (hn : (defs1.map (·.1)).Nodup) (pk : PK) (fb : Option VObs) : expect V defs1 pk fb = expect V defs2 pk fb := by
  have hn2 : (defs2.map (·.1)).Nodup := (hp.map _).nodup_iff.mp hn
  unfold expect
  cases h1 : defs1.find? (fun p => p.1 == pk) with
  | some p =>
    have hm := List.mem_of_find?_eq_some h1
    have hk : p.1 = pk := by simpa using List.find?_some h1
    have := find_key_of_mem hn2 (hp.mem_iff.mp hm)
    rw [hk] at this
    rw [this]
  | none =>
    cases h2 : defs2.find? (fun p => p.1 == pk) with
    | none => rfl
    | some p =>
      have hm := List.mem_of_find?_eq_some h2
      have hk : p.1 = pk := by simpa using List.find?_some h2
      have := find_key_of_mem hn (hp.mem_iff.mpr hm)
      rw [hk, h1] at this
      cases this

/-- the set a loop builds — whether it builds one, and what every validator's value reads — does not depend on the
order in which the definition set is visited -/
theorem loopG_perm {one : PK → Def → LSt → Step} {J : LSt → Prop} {V : PK → Def → Verdict} (hr : Realises one J V)
    {defs1 defs2 : DefSet} (hp : defs1.Perm defs2) (hn : (defs1.map (·.1)).Nodup) (st : LSt) (hj : J st) :
    ((∃ set, (loopG one defs1 st []).2 = .ok set) ↔ (∃ set, (loopG one defs2 st []).2 = .ok set)) ∧
    ∀ set1 set2, (loopG one defs1 st []).2 = .ok set1 → (loopG one defs2 st []).2 = .ok set2 →
      ∀ pk, obsOf (loopG one defs1 st []).1.writes set1 pk = obsOf (loopG one defs2 st []).1.writes set2 pk := by
  have hn2 : (defs2.map (·.1)).Nodup := (hp.map _).nodup_iff.mp hn
  obtain ⟨a1, a2⟩ := loopG_char hr defs1 st [] hj hn
  obtain ⟨b1, b2⟩ := loopG_char hr defs2 st [] hj hn2
  have hiff : (∀ p ∈ defs1, V p.1 p.2 ≠ .fail) ↔ (∀ p ∈ defs2, V p.1 p.2 ≠ .fail) :=
    ⟨fun h p hp' => h p (hp.mem_iff.mpr hp'), fun h p hp' => h p (hp.mem_iff.mp hp')⟩
  have ok_iff : ∀ (defs : DefSet),
      ((∃ p ∈ defs, V p.1 p.2 = .fail) → ∀ set, (loopG one defs st []).2 ≠ .ok set) →
      ((∀ p ∈ defs, V p.1 p.2 ≠ .fail) → ∃ set, (loopG one defs st []).2 = .ok set) →
      ((∃ set, (loopG one defs st []).2 = .ok set) ↔ (∀ p ∈ defs, V p.1 p.2 ≠ .fail)) := by
    intro defs c1 c2
    constructor
    · rintro ⟨set, hs⟩ p hp' hf
      exact c1 ⟨p, hp', hf⟩ set hs
    · exact c2
  have a2' : (∀ p ∈ defs1, V p.1 p.2 ≠ .fail) → ∃ set, (loopG one defs1 st []).2 = .ok set :=
    fun h => by obtain ⟨set, hs, _⟩ := a2 h; exact ⟨set, hs⟩
  have b2' : (∀ p ∈ defs2, V p.1 p.2 ≠ .fail) → ∃ set, (loopG one defs2 st []).2 = .ok set :=
    fun h => by obtain ⟨set, hs, _⟩ := b2 h; exact ⟨set, hs⟩
  refine ⟨?_, fun set1 set2 h1 h2 pk => ?_⟩
  · rw [ok_iff defs1 a1 a2', ok_iff defs2 b1 b2']; exact hiff
  · have hall1 := (ok_iff defs1 a1 a2').mp ⟨set1, h1⟩
    obtain ⟨s1, hs1, _, _, ho1⟩ := a2 hall1
    obtain ⟨s2, hs2, _, _, ho2⟩ := b2 (hiff.mp hall1)
    rw [h1] at hs1; cases hs1
    rw [h2] at hs2; cases hs2
    rw [ho1 pk, ho2 pk]
    have e1 : obsOf (loopG one defs1 st []).1.writes [] pk = none := rfl
    have e2 : obsOf (loopG one defs2 st []).1.writes [] pk = none := rfl
    rw [e1, e2]
    exact expect_perm hp hn pk none

/-! #### attester -/

def attV (cfg : Cfg) (env : Env) (addr slot : Nat) (_pk : PK) (d : Def) : Verdict :=
  match d with
  | .att ci len vi =>
    match env.attData 0 addr slot (effCi cfg slot ci) with
    | .ok id root => .put (.att ⟨id, root, false, false⟩ root ⟨ci, len, vi⟩)
    | _ => .fail
  | _ => .fail

structure AttJ (cfg : Cfg) (env : Env) (addr slot : Nat) (st : LSt) : Prop where
  wk : ∀ c : Nat, c ∈ wkeys st.writes → c < st.next
  dc : ∀ ci c r, dlookup (ci, 0) st.dc = some (c, r) →
        ∃ id, env.attData 0 addr slot ci = .ok id r ∧ wlookup c st.writes = some ⟨id, r, false, false⟩

theorem stable_alloc {st : LSt} (hw : ∀ c : Nat, c ∈ wkeys st.writes → c < st.next) (x : Content) (l : List Call) (dc : List (DKey × (Cell × Nat))) :
    Stable st { next := st.next + 1, bn := st.next :: st.bn, writes := (st.next, x) :: st.writes, log := l, dc := dc } := by
  intro c y hy
  have := hw c (wlookup_mem_keys hy)
  show wlookup c ((st.next, x) :: st.writes) = some y
  rw [wlookup_cons_ne (by omega)]
  exact hy

theorem att_realises (cfg : Cfg) (env : Env) (addr slot : Nat) (hs : env.Stateless) :
    Realises (attOne cfg env addr slot) (AttJ cfg env addr slot) (attV cfg env addr slot) := by
  intro pk d st hj
  have h0 : env.attData st.pos = env.attData 0 := hs.2.1 _ _
  unfold attOne
  split
  · rename_i ci len vi
    split
    · rename_i c r hl
      obtain ⟨id, he, hw⟩ := hj.dc _ c r hl
      exact ⟨.att ⟨id, r, false, false⟩ r ⟨ci, len, vi⟩, by simp [attV, he], hj, Stable.refl _, by simp [observeW, hw]⟩
    · rename_i hl
      dsimp only
      rw [h0]
      split
      · rename_i e he; simp [attV, he, StepRealises]
      · rename_i he; simp [attV, he, StepRealises]
      · rename_i id root he
        refine ⟨.att ⟨id, root, false, false⟩ root ⟨ci, len, vi⟩, by simp [attV, he], ⟨?_, ?_⟩, stable_alloc hj.wk _ _ _, by simp [observeW, wlookup, LSt.alloc, LSt.call]⟩
        · intro c hc
          have hc' : c ∈ st.next :: wkeys st.writes := hc
          show c < st.next + 1
          rcases List.mem_cons.mp hc' with h | h
          · omega
          · have := hj.wk c h; omega
        · intro ci' c r hd
          simp only [dlookup] at hd
          by_cases hk : (effCi cfg slot ci, 0) = (ci', 0)
          · simp only [hk, if_true] at hd
            cases hd
            cases hk
            exact ⟨id, he, by simp [wlookup, LSt.alloc, LSt.call]⟩
          · simp only [hk, if_false] at hd
            obtain ⟨id', h1, h2⟩ := hj.dc ci' c r hd
            refine ⟨id', h1, ?_⟩
            have := hj.wk c (wlookup_mem_keys h2)
            show wlookup c ((st.next, _) :: st.writes) = _
            rw [wlookup_cons_ne (by omega)]
            exact h2
  · rename_i hd
    have : attV cfg env addr slot pk d = .fail := by
      unfold attV
      split
      · rename_i ci len vi; exact absurd rfl (hd ci len vi)
      · rfl
    simp [StepRealises, this]

theorem attJ_start (cfg : Cfg) (env : Env) (addr slot n : Nat) : AttJ cfg env addr slot (LSt.start n) :=
  ⟨fun c hc => (by cases hc), fun ci c r h => (by cases h)⟩

/-! #### proposer -/

def propV (cfg : Cfg) (env : Env) (slot : Nat) (pk : PK) (_d : Def) : Verdict :=
  match env.aggSig 0 .randao slot pk 0 with
  | .data _ sig _ =>
    match env.proposal 0 slot sig (graffitiOf cfg pk) (if cfg.builder then 1 else 0) with
    | .ok id blinded q =>
      if !blinded && q == 2 then .fail else if q != 0 then .fail else .put (.prop ⟨id, 0, false, false⟩)
    | _ => .fail
  | _ => .fail

def WkJ (st : LSt) : Prop := ∀ c : Nat, c ∈ wkeys st.writes → c < st.next

theorem wkJ_alloc {st : LSt} (hj : WkJ st) (x : Content) (l : List Call) (dc : List (DKey × (Cell × Nat))) :
    WkJ { next := st.next + 1, bn := st.next :: st.bn, writes := (st.next, x) :: st.writes, log := l, dc := dc } := by
  intro c hc
  have hc' : c ∈ st.next :: wkeys st.writes := hc
  show c < st.next + 1
  rcases List.mem_cons.mp hc' with h | h
  · omega
  · have := hj c h; omega

theorem prop_realises (cfg : Cfg) (env : Env) (slot : Nat) (hs : env.Stateless) :
    Realises (propOne cfg env slot) WkJ (propV cfg env slot) := by
  intro pk d st hj
  have h1 : ∀ n, env.aggSig n = env.aggSig 0 := fun n => hs.2.2.2.2.2.1 _ _
  have h2 : ∀ n, env.proposal n = env.proposal 0 := fun n => hs.2.2.2.1 _ _
  unfold propOne
  dsimp only
  rw [h1, h2]
  split
  · rename_i e he; simp [propV, he, StepRealises]
  · rename_i he; simp [propV, he, StepRealises]
  · rename_i k sig x he
    split
    · rename_i e hp; simp [propV, he, hp, StepRealises]
    · rename_i hp; simp [propV, he, hp, StepRealises]
    · rename_i id blinded q hp
      split
      · rename_i hc; simp [propV, he, hp, hc, StepRealises]
      · rename_i hc
        split
        · rename_i hq; simp [propV, he, hp, hc, hq, StepRealises]
        · rename_i hq
          refine ⟨.prop ⟨id, 0, false, false⟩, by simp [propV, he, hp, hc, hq], ?_, ?_, ?_⟩
          · split
            · exact wkJ_alloc hj _ _ _
            · exact wkJ_alloc hj _ _ _
          · split
            · exact stable_alloc hj _ _ _
            · exact stable_alloc hj _ _ _
          · split <;> simp [observeW, wlookup, LSt.alloc, LSt.call]

/-! #### aggregator -/

def aggV (env : Env) (slot : Nat) (pk : PK) (d : Def) : Verdict :=
  match d with
  | .att ci len _ =>
    match env.aggSig 0 .prepAgg slot pk 0 with
    | .data .sel _ h =>
      match isAttAgg env 0 len h with
      | .ok false => .skip
      | .ok true =>
        match env.await 0 slot ci with
        | .ok root =>
          match env.aggAtt 0 slot root ci with
          | .ok id droot bad => .put (.agg ⟨id, droot, bad, false⟩)
          | _ => .fail
        | _ => .fail
      | _ => .fail
    | _ => .fail
  | _ => .fail

structure AggJ (env : Env) (slot : Nat) (st : LSt) : Prop where
  wk : WkJ st
  dc : ∀ ci c r, dlookup (ci, 0) st.dc = some (c, r) → ∃ root id droot bad,
        env.await 0 slot ci = .ok root ∧ env.aggAtt 0 slot root ci = .ok id droot bad ∧
        wlookup c st.writes = some ⟨id, droot, bad, false⟩

theorem isAttAgg_stateless {env : Env} (hs : env.Stateless) (n len h : Nat) : isAttAgg env n len h = isAttAgg env 0 len h := by
  unfold isAttAgg
  rw [hs.1 n 0]

theorem aggJ_call {env : Env} {slot : Nat} {st : LSt} (hj : AggJ env slot st) (c : Call) : AggJ env slot (st.call c) :=
  ⟨hj.wk, hj.dc⟩

theorem agg_realises (env : Env) (slot : Nat) (hs : env.Stateless) :
    Realises (aggOne env slot) (AggJ env slot) (aggV env slot) := by
  intro pk d st hj
  have h1 : ∀ n, env.aggSig n = env.aggSig 0 := fun n => hs.2.2.2.2.2.1 _ _
  have h2 : ∀ n, env.await n = env.await 0 := fun n => hs.2.2.2.2.2.2 _ _
  have h3 : ∀ n, env.aggAtt n = env.aggAtt 0 := fun n => hs.2.2.1 _ _
  unfold aggOne
  split
  · rename_i ci len vi
    dsimp only
    rw [h1]
    split
    · rename_i e he; simp [aggV, he, StepRealises]
    · rename_i sig h he
      rw [isAttAgg_stateless hs]
      split
      · rename_i e ha; simp [aggV, he, ha, StepRealises]
      · rename_i ha; simp [aggV, he, ha, StepRealises]
      · rename_i ha
        exact ⟨by simp [aggV, he, ha], aggJ_call (aggJ_call hj _) _, fun _ _ h => h⟩
      · rename_i ha
        split
        · rename_i c r hl
          obtain ⟨root, id, droot, bad, e1, e2, e3⟩ := hj.dc ci c r hl
          exact ⟨.agg ⟨id, droot, bad, false⟩, by simp [aggV, he, ha, e1, e2], aggJ_call (aggJ_call hj _) _,
            fun _ _ h => h, by simp [observeW]; exact e3⟩
        · rename_i hl
          rw [h2]
          split
          · rename_i e hw; simp [aggV, he, ha, hw, StepRealises]
          · rename_i hw; simp [aggV, he, ha, hw, StepRealises]
          · rename_i root hw
            rw [h3]
            split
            · rename_i e hg; simp [aggV, he, ha, hw, hg, StepRealises]
            · rename_i hg; simp [aggV, he, ha, hw, hg, StepRealises]
            · rename_i id droot bad hg
              refine ⟨.agg ⟨id, droot, bad, false⟩, by simp [aggV, he, ha, hw, hg], ⟨wkJ_alloc hj.wk _ _ _, ?_⟩,
                stable_alloc hj.wk _ _ _, by simp [observeW, wlookup, LSt.alloc, LSt.call]⟩
              intro ci' c r hd
              simp only [dlookup] at hd
              by_cases hk : (ci, 0) = (ci', 0)
              · simp only [hk, if_true] at hd
                cases hd
                cases hk
                exact ⟨root, id, droot, bad, hw, hg, by simp [wlookup, LSt.alloc, LSt.call]⟩
              · simp only [hk, if_false] at hd
                obtain ⟨root', id', droot', bad', e1, e2, e3⟩ := hj.dc ci' c r hd
                refine ⟨root', id', droot', bad', e1, e2, ?_⟩
                have := hj.wk c (wlookup_mem_keys e3)
                show wlookup c ((st.next, _) :: st.writes) = _
                rw [wlookup_cons_ne (by omega)]
                exact e3
    · rename_i hne
      have : aggV env slot pk (.att ci len vi) = .fail := by
        unfold aggV
        dsimp only
        split
        · rename_i sig h he; exact absurd he (hne sig h)
        · rfl
      simp [StepRealises, this]
  · rename_i hd
    have : aggV env slot pk d = .fail := by
      unfold aggV
      split
      · rename_i ci len vi; exact absurd rfl (hd ci len vi)
      · rfl
    simp [StepRealises, this]

/-! #### sync contribution -/

/-- what `fetchSubcommContribution` yields: `none` an error / panic, `some none` not an aggregator, `some (some x)` the contribution -/
def subV1 (env : Env) (slot : Nat) (pk : PK) (sub : Nat) : Option (Option Content) :=
  match env.aggSig 0 .prepSync slot pk sub with
  | .data .syncSel _ h =>
    match isSyncAgg env 0 h with
    | .ok false => some none
    | .ok true =>
      match env.aggSig 0 .syncMsg slot pk 0 with
      | .data .syncMsg _ root =>
        match env.contrib 0 slot sub root with
        | .ok id bad => some (some ⟨id, 0, bad, false⟩)
        | _ => none
      | _ => none
    | _ => none
  | _ => none

def subV (env : Env) (slot : Nat) (v2 : Bool) (pk : PK) : List Nat → List Content → Option (List Content)
  | [], acc => some acc
  | sub :: rest, acc =>
    match subV1 env slot pk sub with
    | none => none
    | some none => subV env slot v2 pk rest acc
    | some (some x) => if v2 then subV env slot v2 pk rest (acc ++ [x]) else some (acc ++ [x])

def syncV (env : Env) (slot : Nat) (v2 : Bool) (size : Nat) (pk : PK) (d : Def) : Verdict :=
  match d with
  | .sync _ idxs =>
    match subV env slot v2 pk (subsOf idxs size) [] with
    | none => .fail
    | some [] => .skip
    | some (x :: xs) => if v2 then .put (.contribs (x :: xs)) else .put (.contrib x)
  | _ => .fail

structure SyncJ (env : Env) (slot : Nat) (st : LSt) : Prop where
  wk : WkJ st
  dc : ∀ sub root c r, dlookup (sub, root) st.dc = some (c, r) → ∃ id bad,
        env.contrib 0 slot sub root = .ok id bad ∧ wlookup c st.writes = some ⟨id, 0, bad, false⟩

theorem isSyncAgg_stateless {env : Env} (hs : env.Stateless) (n h : Nat) : isSyncAgg env n h = isSyncAgg env 0 h := by
  unfold isSyncAgg
  rw [hs.1 n 0]

def SubStepRealises (J : LSt → Prop) (st : LSt) (verdict : Option (Option Content)) : SubStep → Prop
  | .fail _ _ => verdict = none
  | .notAgg st' => verdict = some none ∧ J st' ∧ Stable st st'
  | .got st' c => ∃ x, verdict = some (some x) ∧ J st' ∧ Stable st st' ∧ wlookup c st'.writes = some x

theorem syncJ_call {env : Env} {slot : Nat} {st : LSt} (hj : SyncJ env slot st) (c : Call) : SyncJ env slot (st.call c) :=
  ⟨hj.wk, hj.dc⟩

theorem sub_realises (env : Env) (slot : Nat) (hs : env.Stateless) (pk : PK) (sub : Nat) (st : LSt) (hj : SyncJ env slot st) :
    SubStepRealises (SyncJ env slot) st (subV1 env slot pk sub) (subOne env slot pk sub st) := by
  have h1 : ∀ n, env.aggSig n = env.aggSig 0 := fun n => hs.2.2.2.2.2.1 _ _
  have h2 : ∀ n, env.contrib n = env.contrib 0 := fun n => hs.2.2.2.2.1 _ _
  unfold subOne
  dsimp only
  rw [h1]
  split
  · rename_i e he; simp [subV1, he, SubStepRealises]
  · rename_i sig h he
    rw [isSyncAgg_stateless hs]
    split
    · rename_i e ha; simp [subV1, he, ha, SubStepRealises]
    · rename_i ha; simp [subV1, he, ha, SubStepRealises]
    · rename_i ha
      exact ⟨by simp [subV1, he, ha], syncJ_call (syncJ_call hj _) _, fun _ _ h => h⟩
    · rename_i ha
      rw [h1]
      split
      · rename_i e hm; simp [subV1, he, ha, hm, SubStepRealises]
      · rename_i sig2 root hm
        split
        · rename_i c r hl
          obtain ⟨id, bad, e1, e2⟩ := hj.dc sub root c r hl
          exact ⟨⟨id, 0, bad, false⟩, by simp [subV1, he, ha, hm, e1], syncJ_call (syncJ_call (syncJ_call hj _) _) _,
            fun _ _ h => h, e2⟩
        · rename_i hl
          rw [h2]
          split
          · rename_i e hc; simp [subV1, he, ha, hm, hc, SubStepRealises]
          · rename_i hc; simp [subV1, he, ha, hm, hc, SubStepRealises]
          · rename_i id bad hc
            refine ⟨⟨id, 0, bad, false⟩, by simp [subV1, he, ha, hm, hc], ⟨wkJ_alloc hj.wk _ _ _, ?_⟩,
              stable_alloc hj.wk _ _ _, by simp [wlookup, LSt.alloc, LSt.call]⟩
            intro sub' root' c r hd
            simp only [dlookup] at hd
            by_cases hk : (sub, root) = (sub', root')
            · simp only [hk, if_true] at hd
              cases hd
              cases hk
              exact ⟨id, bad, hc, by simp [wlookup, LSt.alloc, LSt.call]⟩
            · simp only [hk, if_false] at hd
              obtain ⟨id', bad', e1, e2⟩ := hj.dc sub' root' c r hd
              refine ⟨id', bad', e1, ?_⟩
              have := hj.wk c (wlookup_mem_keys e2)
              show wlookup c ((st.next, _) :: st.writes) = _
              rw [wlookup_cons_ne (by omega)]
              exact e2
      · rename_i hne
        have : subV1 env slot pk sub = none := by
          unfold subV1
          simp only [he, ha]
          try (split <;> first | rfl | (rename_i sig2 root hm; exact absurd hm (hne sig2 root)))
        simp [SubStepRealises, this]
  · rename_i hne
    have : subV1 env slot pk sub = none := by
      unfold subV1
      split
      · rename_i sig h he; exact absurd he (hne sig h)
      · rfl
    simp [SubStepRealises, this]

/-- the cells `l` read `xs` -/
def ReadAs (w : List (Cell × Content)) : List Cell → List Content → Prop
  | [], [] => True
  | c :: cs, x :: xs => wlookup c w = some x ∧ ReadAs w cs xs
  | _, _ => False

theorem readAs_append {w : List (Cell × Content)} : ∀ {l : List Cell} {xs : List Content} {c : Cell} {x : Content},
    ReadAs w l xs → wlookup c w = some x → ReadAs w (l ++ [c]) (xs ++ [x])
  | [], [], _, _, _, h => ⟨h, trivial⟩
  | [], _ :: _, _, _, h, _ => h.elim
  | _ :: _, [], _, _, h, _ => h.elim
  | _ :: _, _ :: _, _, _, h, hc => ⟨h.1, readAs_append h.2 hc⟩

theorem readAs_stable {a b : LSt} (hst : Stable a b) : ∀ {l : List Cell} {xs : List Content},
    ReadAs a.writes l xs → ReadAs b.writes l xs
  | [], [], _ => trivial
  | [], _ :: _, h => h.elim
  | _ :: _, [], h => h.elim
  | _ :: _, _ :: _, h => ⟨hst _ _ h.1, readAs_stable hst h.2⟩

theorem readAs_mapM {w : List (Cell × Content)} : ∀ {l : List Cell} {xs : List Content},
    ReadAs w l xs → l.mapM (fun c => wlookup c w) = some xs
  | [], [], _ => rfl
  | [], _ :: _, h => h.elim
  | _ :: _, [], h => h.elim
  | c :: cs, x :: xs, h => by
    simp only [List.mapM_cons, Option.bind_eq_bind, Option.pure_def, h.1, Option.bind_some, readAs_mapM h.2]

theorem readAs_len {w : List (Cell × Content)} : ∀ {l : List Cell} {xs : List Content}, ReadAs w l xs → l.length = xs.length
  | [], [], _ => rfl
  | [], _ :: _, h => h.elim
  | _ :: _, [], h => h.elim
  | _ :: _, _ :: _, h => by simp [readAs_len h.2]

theorem subLoop_realises (env : Env) (slot : Nat) (v2 : Bool) (hs : env.Stateless) (pk : PK) :
    ∀ (subs : List Nat) (st : LSt) (acc : List Cell) (accO : List Content), SyncJ env slot st → ReadAs st.writes acc accO →
      (∀ l, (subLoop env slot v2 pk subs st acc).2 = .ok l → ∃ xs, subV env slot v2 pk subs accO = some xs ∧
          ReadAs (subLoop env slot v2 pk subs st acc).1.writes l xs ∧
          SyncJ env slot (subLoop env slot v2 pk subs st acc).1 ∧ Stable st (subLoop env slot v2 pk subs st acc).1) ∧
      ((∀ l, (subLoop env slot v2 pk subs st acc).2 ≠ .ok l) → subV env slot v2 pk subs accO = none)
  | [], st, acc, accO, hj, hacc => by
    simp only [subLoop, subV]
    exact ⟨fun l hl => by cases hl; exact ⟨accO, rfl, hacc, hj, Stable.refl _⟩, fun h => absurd rfl (h acc)⟩
  | sub :: rest, st, acc, accO, hj, hacc => by
    have h1 := sub_realises env slot hs pk sub st hj
    simp only [subLoop, subV]
    cases hso : subOne env slot pk sub st with
    | fail st' e =>
      rw [hso] at h1
      simp only [SubStepRealises] at h1
      rw [h1]
      cases e with
      | err e => exact ⟨fun l hl => (by cases hl), fun _ => rfl⟩
      | ok u => exact ⟨fun l hl => (by cases hl), fun _ => rfl⟩
      | panic => exact ⟨fun l hl => (by cases hl), fun _ => rfl⟩
    | notAgg st' =>
      rw [hso] at h1
      obtain ⟨hv, hj', hst⟩ := h1
      rw [hv]
      obtain ⟨ih1, ih2⟩ := subLoop_realises env slot v2 hs pk rest st' acc accO hj' (readAs_stable hst hacc)
      refine ⟨fun l hl => ?_, ih2⟩
      obtain ⟨xs, e1, e2, e3, e4⟩ := ih1 l hl
      exact ⟨xs, e1, e2, e3, hst.trans e4⟩
    | got st' c =>
      rw [hso] at h1
      obtain ⟨x, hv, hj', hst, hcx⟩ := h1
      rw [hv]
      have hacc' : ReadAs st'.writes (acc ++ [c]) (accO ++ [x]) := readAs_append (readAs_stable hst hacc) hcx
      cases v2 with
      | true =>
        simp only [if_true]
        obtain ⟨ih1, ih2⟩ := subLoop_realises env slot true hs pk rest st' (acc ++ [c]) (accO ++ [x]) hj' hacc'
        refine ⟨fun l hl => ?_, ih2⟩
        obtain ⟨xs, e1, e2, e3, e4⟩ := ih1 l hl
        exact ⟨xs, e1, e2, e3, hst.trans e4⟩
      | false =>
        simp only [Bool.false_eq_true, if_false]
        exact ⟨fun l hl => by cases hl; exact ⟨_, rfl, hacc', hj', hst⟩, fun h => absurd rfl (h _)⟩

theorem sync_realises (env : Env) (slot : Nat) (v2 : Bool) (size : Nat) (hs : env.Stateless) :
    Realises (syncOne env slot v2 size) (SyncJ env slot) (syncV env slot v2 size) := by
  intro pk d st hj
  unfold syncOne
  split
  · rename_i vi idxs
    obtain ⟨h1, h2⟩ := subLoop_realises env slot v2 hs pk (subsOf idxs size) st [] [] hj trivial
    dsimp only
    split
    · rename_i e he
      have := h2 (fun l hl => by rw [he] at hl; cases hl)
      simp [syncV, this, StepRealises]
    · rename_i he
      have := h2 (fun l hl => by rw [he] at hl; cases hl)
      simp [syncV, this, StepRealises]
    · rename_i he
      obtain ⟨xs, e1, e2, e3, e4⟩ := h1 _ he
      have : xs = [] := by
        have := readAs_len e2
        cases xs with
        | nil => rfl
        | cons _ _ => simp at this
      subst this
      exact ⟨by simp [syncV, e1], e3, e4⟩
    · rename_i c cs he
      obtain ⟨xs, e1, e2, e3, e4⟩ := h1 _ he
      cases xs with
      | nil => exact e2.elim
      | cons x xs' =>
        cases v2 with
        | true =>
          simp only [if_true]
          refine ⟨.contribs (x :: xs'), by simp [syncV, e1], e3, e4, ?_⟩
          simp only [observeW, readAs_mapM e2, Option.map_some]
        | false =>
          simp only [Bool.false_eq_true, if_false]
          refine ⟨.contrib x, by simp [syncV, e1], e3, e4, ?_⟩
          simp only [observeW, e2.1, Option.map_some]
  · rename_i hd
    have : syncV env slot v2 size pk d = .fail := by
      unfold syncV
      split
      · rename_i vi idxs; exact absurd rfl (hd vi idxs)
      · rfl
    simp [StepRealises, this]

/-! #### all duty types -/

/-- every value of the set can be read through the write list -/
def Readable (w : List (Cell × Content)) (set : USet) : Prop := ∀ p ∈ set, ∃ o, observeW w p.2 = some o

theorem loopG_readable {one : PK → Def → LSt → Step} {J : LSt → Prop} {V : PK → Def → Verdict} (hr : Realises one J V) :
    ∀ (defs : DefSet) (st : LSt) (resp : USet), J st → Readable st.writes resp →
      ∀ set, (loopG one defs st resp).2 = .ok set → Readable (loopG one defs st resp).1.writes set
  | [], st, resp, _, hrd, set, hs => by
    simp only [loopG] at hs ⊢
    cases hs
    exact hrd
  | (pk, d) :: rest, st, resp, hj, hrd, set, hs => by
    have hstep := hr pk d st hj
    simp only [loopG] at hs ⊢
    cases ho : one pk d st with
    | fail st' e =>
      rw [ho] at hs
      cases e <;> cases hs
    | skip st' =>
      rw [ho] at hstep hs
      obtain ⟨_, hj', hst⟩ := hstep
      exact loopG_readable hr rest st' resp hj'
        (fun p hp => by obtain ⟨o, h⟩ := hrd p hp; exact ⟨o, observeW_stable hst h⟩) set hs
    | put st' v =>
      rw [ho] at hstep hs
      obtain ⟨o, _, hj', hst, hov⟩ := hstep
      refine loopG_readable hr rest st' (uinsert resp pk v) hj' (fun p hp => ?_) set hs
      rcases mem_uinsert.mp hp with h | ⟨h, _⟩
      · subst h; exact ⟨o, hov⟩
      · obtain ⟨o', h'⟩ := hrd p h; exact ⟨o', observeW_stable hst h'⟩

theorem mapM_wlookup_sound {h : Heap} {w : List (Cell × Content)} : ∀ {cs : List Cell} {xs : List Content},
    cs.mapM (fun c => wlookup c w) = some xs → cs.map (applyWrites h w) = xs
  | [], xs, hm => by simp at hm; simp [hm]
  | c :: cs, xs, hm => by
    simp only [List.mapM_cons, Option.bind_eq_bind, Option.pure_def] at hm
    cases hc : wlookup c w with
    | none => rw [hc] at hm; cases hm
    | some x =>
      rw [hc] at hm
      simp only [Option.bind_some] at hm
      cases hr : cs.mapM (fun c => wlookup c w) with
      | none => rw [hr] at hm; cases hm
      | some ys =>
        rw [hr] at hm
        simp only [Option.bind_some, Option.some.injEq] at hm
        subst hm
        simp [applyWrites_of_wlookup hc, mapM_wlookup_sound hr]

/-- reading through the write list is reading through the heap the writes were applied to -/
theorem observeW_sound {h : Heap} {w : List (Cell × Content)} {v : UVal} {o : VObs} (ho : observeW w v = some o) :
    observe (applyWrites h w) v = o := by
  cases v with
  | att c r d =>
    simp only [observeW, Option.map_eq_some_iff] at ho
    obtain ⟨x, hx, rfl⟩ := ho
    simp [observe, applyWrites_of_wlookup hx]
  | agg c =>
    simp only [observeW, Option.map_eq_some_iff] at ho
    obtain ⟨x, hx, rfl⟩ := ho
    simp [observe, applyWrites_of_wlookup hx]
  | prop c =>
    simp only [observeW, Option.map_eq_some_iff] at ho
    obtain ⟨x, hx, rfl⟩ := ho
    simp [observe, applyWrites_of_wlookup hx]
  | contrib c =>
    simp only [observeW, Option.map_eq_some_iff] at ho
    obtain ⟨x, hx, rfl⟩ := ho
    simp [observe, applyWrites_of_wlookup hx]
  | contribs cs =>
    simp only [observeW, Option.map_eq_some_iff] at ho
    obtain ⟨xs, hx, rfl⟩ := ho
    simp [observe, mapM_wlookup_sound hx]

/-- what a holder of `set` reads for `pk` through heap `h` -/
def reads (h : Heap) (set : USet) (pk : PK) : Option VObs := (ulookup set pk).map (observe h)

theorem reads_of_obsOf {h : Heap} {w : List (Cell × Content)} {set : USet} (hrd : Readable w set) (pk : PK) :
    reads (applyWrites h w) set pk = obsOf w set pk := by
  unfold reads obsOf
  cases hl : ulookup set pk with
  | none => rfl
  | some v =>
    obtain ⟨o, ho⟩ := hrd (pk, v) (ulookup_mem hl)
    simp only [Option.map_some, Option.bind_some]
    rw [ho, observeW_sound ho]

/-- order independence of a loop whose body realises a verdict function -/
theorem loop_order_independent {one : PK → Def → LSt → Step} {J : LSt → Prop} {V : PK → Def → Verdict} (hr : Realises one J V)
    {defs1 defs2 : DefSet} (hp : defs1.Perm defs2) (hn : (defs1.map (·.1)).Nodup) (st : LSt) (hj : J st) (h1 h2 : Heap) :
    ((∃ set, (loopG one defs1 st []).2 = .ok set) ↔ (∃ set, (loopG one defs2 st []).2 = .ok set)) ∧
    ∀ set1 set2, (loopG one defs1 st []).2 = .ok set1 → (loopG one defs2 st []).2 = .ok set2 →
      ∀ pk, reads (applyWrites h1 (loopG one defs1 st []).1.writes) set1 pk =
            reads (applyWrites h2 (loopG one defs2 st []).1.writes) set2 pk := by
  obtain ⟨a, b⟩ := loopG_perm hr hp hn st hj
  refine ⟨a, fun set1 set2 e1 e2 pk => ?_⟩
  have r1 := loopG_readable hr defs1 st [] hj (fun p hp' => by cases hp') set1 e1
  have r2 := loopG_readable hr defs2 st [] hj (fun p hp' => by cases hp') set2 e2
  rw [reads_of_obsOf r1, reads_of_obsOf r2]
  exact b set1 set2 e1 e2 pk

theorem buildSet_order_independent (cfg : Cfg) (env : Env) (hs : env.Stateless) (ty : DutyType) (slot : Nat)
    {defs1 defs2 : DefSet} (hp : defs1.Perm defs2) (hn : (defs1.map (·.1)).Nodup) (n : Nat) (h1 h2 : Heap) :
    ((∃ set, (buildSet cfg env ty slot defs1 (LSt.start n)).2 = .ok set) ↔
     (∃ set, (buildSet cfg env ty slot defs2 (LSt.start n)).2 = .ok set)) ∧
    ∀ set1 set2, (buildSet cfg env ty slot defs1 (LSt.start n)).2 = .ok set1 →
      (buildSet cfg env ty slot defs2 (LSt.start n)).2 = .ok set2 →
      ∀ pk, reads (applyWrites h1 (buildSet cfg env ty slot defs1 (LSt.start n)).1.writes) set1 pk =
            reads (applyWrites h2 (buildSet cfg env ty slot defs2 (LSt.start n)).1.writes) set2 pk := by
  cases ty with
  | proposer =>
    exact loop_order_independent (prop_realises cfg env slot hs) hp hn _ (fun c hc => by cases hc) h1 h2
  | attester =>
    exact loop_order_independent (att_realises cfg env 0 slot hs) hp hn _ (attJ_start cfg env 0 slot n) h1 h2
  | builderProposer =>
    exact ⟨⟨fun ⟨_, h⟩ => by simp [buildSet] at h, fun ⟨_, h⟩ => by simp [buildSet] at h⟩, fun _ _ h => by simp [buildSet] at h⟩
  | aggregator =>
    exact loop_order_independent (agg_realises env slot hs) hp hn _ ⟨fun c hc => (by cases hc), fun ci c r h => (by cases h)⟩ h1 h2
  | syncContribution =>
    simp only [buildSet, contribData]
    split
    · exact ⟨⟨fun ⟨_, h⟩ => (by cases h), fun ⟨_, h⟩ => (by cases h)⟩, fun _ _ h => (by cases h)⟩
    · exact ⟨⟨fun ⟨_, h⟩ => (by cases h), fun ⟨_, h⟩ => (by cases h)⟩, fun _ _ h => (by cases h)⟩
    · exact loop_order_independent (sync_realises env slot _ _ hs) hp hn _
        ⟨fun c hc => (by cases hc), fun sub root c r h => (by cases h)⟩ h1 h2
  | other c =>
    exact ⟨⟨fun ⟨_, h⟩ => by simp [buildSet] at h, fun ⟨_, h⟩ => by simp [buildSet] at h⟩, fun _ _ h => by simp [buildSet] at h⟩

/-! ### what `Fetch` does, in one statement -/

theorem propOne_noskip {cfg : Cfg} {env : Env} {slot : Nat} {pk : PK} {d : Def} {st st' : LSt}
    (ho : propOne cfg env slot pk d st = .skip st') : False := by
  unfold propOne at ho
  repeat' (first | split at ho | dsimp only at ho)
  all_goals cases ho

/-- a loop whose body never skips puts a value for every validator of the definition set -/
theorem loopG_all_keys {one : PK → Def → LSt → Step} (hns : ∀ pk d st st', one pk d st ≠ .skip st') :
    ∀ (defs : DefSet) (st : LSt) (resp : USet) (set : USet), (loopG one defs st resp).2 = .ok set →
      (∀ q ∈ ukeys resp, q ∈ ukeys set) ∧ ∀ p ∈ defs, p.1 ∈ ukeys set
  | [], st, resp, set, hs => by
    simp only [loopG] at hs
    cases hs
    exact ⟨fun q hq => hq, fun p hp => by cases hp⟩
  | (pk, d) :: rest, st, resp, set, hs => by
    simp only [loopG] at hs
    cases ho : one pk d st with
    | fail st' e => rw [ho] at hs; cases e <;> cases hs
    | skip st' => exact absurd ho (hns pk d st st')
    | put st' v =>
      rw [ho] at hs
      obtain ⟨h1, h2⟩ := loopG_all_keys hns rest st' (uinsert resp pk v) set hs
      refine ⟨fun q hq => h1 q (mem_ukeys_uinsert.mpr (Or.inr hq)), fun p hp => ?_⟩
      rcases List.mem_cons.mp hp with h | h
      · subst h; exact h1 pk (mem_ukeys_uinsert.mpr (Or.inl rfl))
      · exact h2 p h

/-- without a pending early fetch for the slot, `Fetch` builds its set from the definitions it is given -/
theorem prepare_fresh (cfg : Cfg) (env : Env) (s : St) (ty : DutyType) (slot : Nat) (defs : DefSet)
    (h : ty ≠ .attester ∨ clookup slot s.cache = none) :
    prepare cfg env s ty slot defs =
      (s.absorb (buildSet cfg env ty slot defs (LSt.start s.next)).1,
       (buildSet cfg env ty slot defs (LSt.start s.next)).1.log,
       (buildSet cfg env ty slot defs (LSt.start s.next)).2) := by
  unfold prepare
  cases ty with
  | attester =>
    rcases h with h | h
    · exact absurd rfl h
    · rw [h]
  | proposer => rfl
  | builderProposer => rfl
  | aggregator => rfl
  | syncContribution => rfl
  | other n => rfl

structure FetchSpec (cfg : Cfg) (subErr : Nat → Option Nat) (ty : DutyType) (p : St × List Call × Res USet) (out : Out) : Prop where
  log    : out.log = p.2.1
  err    : ∀ e, p.2.2 = .err e → out.res = .err e ∧ out.deliv = []
  panic  : p.2.2 = .panic → out.res = .panic ∧ out.deliv = []
  empty  : ∀ set, p.2.2 = .ok set → emptyReturns ty = true → set = [] → out.res = .ok () ∧ out.deliv = []
  fanout : ∀ set, p.2.2 = .ok set → ¬ (emptyReturns ty = true ∧ set = []) →
            ∃ m, m ≤ cfg.nsubs ∧ out.deliv = (List.range' 0 m).map (fun j => (j, observeSet p.1.heap set)) ∧
              (out.res = .ok () → m = cfg.nsubs) ∧
              (∀ e, out.res = .err (.sub e) → 0 < m ∧ subErr (m - 1) = some e) ∧
              (out.res = .err .cloneFail → m = 0) ∧
              (out.res = .ok () ∨ (∃ e, out.res = .err (.sub e)) ∨ out.res = .err .cloneFail)

theorem fetch_spec {cfg : Cfg} (env : Env) (subErr : Nat → Option Nat) {s : St} (ty : DutyType) (slot : Nat) (defs : DefSet)
    (hi : Inv cfg s) :
    FetchSpec cfg subErr ty (prepare cfg env s ty slot defs) (fetch cfg env subErr s ty slot defs).2 := by
  have hp := prepare_spec cfg env s ty slot defs hi
  unfold fetch
  rcases hpe : prepare cfg env s ty slot defs with ⟨s1, log, r⟩
  rw [hpe] at hp
  cases r with
  | err e =>
    exact ⟨rfl, fun e' h => by cases h; exact ⟨rfl, rfl⟩, fun h => (by cases h), fun _ h => (by cases h), fun _ h => (by cases h)⟩
  | panic =>
    exact ⟨rfl, fun e' h => (by cases h), fun _ => ⟨rfl, rfl⟩, fun _ h => (by cases h), fun _ h => (by cases h)⟩
  | ok set =>
    simp only []
    by_cases hem : (emptyReturns ty && set.isEmpty) = true
    · simp only [hem, if_true]
      have hem' : emptyReturns ty = true ∧ set = [] := by
        simp only [Bool.and_eq_true, List.isEmpty_iff] at hem
        exact hem
      refine ⟨rfl, fun e' h => (by cases h), fun h => (by cases h), fun set' h _ _ => ⟨rfl, rfl⟩, fun set' h hne => ?_⟩
      cases h
      exact absurd hem' hne
    · simp only [hem]
      have hf := fanout_spec cfg subErr set cfg.nsubs 0 s1 [] hp.inv (hp.cells set rfl)
      obtain ⟨m, hm, hdl, h1, h2, h3, h4, _⟩ := hf.deliv
      refine ⟨rfl, fun e' h => (by cases h), fun h => (by cases h), fun set' h h1' h2' => ?_, fun set' h _ => ?_⟩
      · cases h
        exfalso
        apply hem
        simp [h1', h2']
      · cases h
        refine ⟨m, hm, by simpa using hdl, h1, fun e he => ?_, fun he => (h3 he).1, h4⟩
        obtain ⟨hm0, hs⟩ := h2 e he
        refine ⟨hm0, ?_⟩
        simpa using hs

/-! ### the errors of the `fetch*Data` functions are never a subscriber's -/

def NotSub (e : Err) : Prop := ∀ x, e ≠ .sub x

theorem loopG_err {one : PK → Def → LSt → Step} (P : Err → Prop)
    (h : ∀ pk d st st' e, one pk d st = .fail st' (.err e) → P e) :
    ∀ (defs : DefSet) (st : LSt) (resp : USet) (e : Err), (loopG one defs st resp).2 = .err e → P e
  | [], st, resp, e, he => by simp [loopG] at he
  | (pk, d) :: rest, st, resp, e, he => by
    simp only [loopG] at he
    cases ho : one pk d st with
    | fail st' r =>
      rw [ho] at he
      cases r with
      | err e' => cases he; exact h pk d st st' e ho
      | ok u => cases he
      | panic => cases he
    | skip st' => rw [ho] at he; exact loopG_err P h rest st' resp e he
    | put st' v => rw [ho] at he; exact loopG_err P h rest st' _ e he

theorem attOne_err {cfg : Cfg} {env : Env} {addr slot : Nat} {pk : PK} {d : Def} {st st' : LSt} {e : Err}
    (ho : attOne cfg env addr slot pk d st = .fail st' (.err e)) : NotSub e := by
  unfold attOne at ho
  repeat' (first | split at ho | dsimp only at ho)
  all_goals ((cases ho) <;> (intro x hx; cases hx))

theorem isAttAgg_err {env : Env} {n len h : Nat} {e : Err} (ho : isAttAgg env n len h = .err e) : NotSub e := by
  unfold isAttAgg at ho
  repeat' (first | split at ho | dsimp only at ho)
  all_goals ((cases ho) <;> (intro x hx; cases hx))

theorem isSyncAgg_err {env : Env} {n h : Nat} {e : Err} (ho : isSyncAgg env n h = .err e) : NotSub e := by
  unfold isSyncAgg at ho
  repeat' (first | split at ho | dsimp only at ho)
  all_goals ((cases ho) <;> (intro x hx; cases hx))

theorem syncSize_err {env : Env} {n : Nat} {e : Err} (ho : syncSize env n = .err e) : NotSub e := by
  unfold syncSize at ho
  repeat' (first | split at ho | dsimp only at ho)
  all_goals ((cases ho) <;> (intro x hx; cases hx))

theorem aggOne_err {env : Env} {slot : Nat} {pk : PK} {d : Def} {st st' : LSt} {e : Err}
    (ho : aggOne env slot pk d st = .fail st' (.err e)) : NotSub e := by
  unfold aggOne at ho
  repeat' (first | split at ho | dsimp only at ho)
  all_goals ((cases ho) <;> first | exact isAttAgg_err ‹_› | (intro x hx; cases hx))

theorem propOne_err {cfg : Cfg} {env : Env} {slot : Nat} {pk : PK} {d : Def} {st st' : LSt} {e : Err}
    (ho : propOne cfg env slot pk d st = .fail st' (.err e)) : NotSub e := by
  unfold propOne at ho
  repeat' (first | split at ho | dsimp only at ho)
  all_goals ((cases ho) <;> (intro x hx; cases hx))

theorem subOne_err {env : Env} {slot : Nat} {pk : PK} {sub : Nat} {st st' : LSt} {e : Err}
    (ho : subOne env slot pk sub st = .fail st' (.err e)) : NotSub e := by
  unfold subOne at ho
  repeat' (first | split at ho | dsimp only at ho)
  all_goals ((cases ho) <;> first | exact isSyncAgg_err ‹_› | (intro x hx; cases hx))

theorem subLoop_err (env : Env) (slot : Nat) (v2 : Bool) (pk : PK) :
    ∀ (subs : List Nat) (st : LSt) (acc : List Cell) (e : Err), (subLoop env slot v2 pk subs st acc).2 = .err e → NotSub e
  | [], st, acc, e, he => by simp [subLoop] at he
  | sub :: rest, st, acc, e, he => by
    simp only [subLoop] at he
    cases ho : subOne env slot pk sub st with
    | fail st' r =>
      rw [ho] at he
      cases r with
      | err e' => cases he; exact subOne_err ho
      | ok u => cases he
      | panic => cases he
    | notAgg st' => rw [ho] at he; exact subLoop_err env slot v2 pk rest st' acc e he
    | got st' c =>
      rw [ho] at he
      cases v2 with
      | true => simp only [if_true] at he; exact subLoop_err env slot true pk rest st' _ e he
      | false => simp at he

theorem syncOne_err {env : Env} {slot : Nat} {v2 : Bool} {size : Nat} {pk : PK} {d : Def} {st st' : LSt} {e : Err}
    (ho : syncOne env slot v2 size pk d st = .fail st' (.err e)) : NotSub e := by
  unfold syncOne at ho
  split at ho
  · dsimp only at ho
    split at ho
    · rename_i e' he
      cases ho
      exact subLoop_err env slot v2 pk _ st [] e he
    · cases ho
    · cases ho
    · split at ho <;> cases ho
  · cases ho; intro x hx; cases hx

theorem buildSet_err (cfg : Cfg) (env : Env) (ty : DutyType) (slot : Nat) (defs : DefSet) (st : LSt) (e : Err)
    (he : (buildSet cfg env ty slot defs st).2 = .err e) : NotSub e := by
  cases ty with
  | proposer => exact loopG_err NotSub (fun _ _ _ _ _ h => propOne_err h) defs st [] e he
  | attester => exact loopG_err NotSub (fun _ _ _ _ _ h => attOne_err h) defs st [] e he
  | builderProposer => simp only [buildSet] at he; cases he; intro x hx; cases hx
  | aggregator => exact loopG_err NotSub (fun _ _ _ _ _ h => aggOne_err h) defs st [] e he
  | syncContribution =>
    simp only [buildSet, contribData] at he
    split at he
    · rename_i e' hs
      cases he
      exact syncSize_err hs
    · cases he
    · exact loopG_err NotSub (fun _ _ _ _ _ h => syncOne_err h) defs _ [] e he
  | other n => simp only [buildSet] at he; cases he; intro x hx; cases hx

theorem prepare_err (cfg : Cfg) (env : Env) (s : St) (ty : DutyType) (slot : Nat) (defs : DefSet) (e : Err)
    (he : (prepare cfg env s ty slot defs).2.2 = .err e) : NotSub e := by
  unfold prepare at he
  split at he
  · cases he
  · exact buildSet_err cfg env _ slot defs _ e he

/-! ### small facts used by the property theorems -/

theorem keys_observeSet (h : Heap) (s : USet) : (observeSet h s).map (·.1) = ukeys s := by
  simp [observeSet, ukeys]

theorem mem_observeSet {h : Heap} {s : USet} {pk : PK} {o : VObs} (hm : (pk, o) ∈ observeSet h s) :
    ∃ v, (pk, v) ∈ s ∧ o = observe h v := by
  simp only [observeSet, List.mem_map] at hm
  obtain ⟨p, hp, he⟩ := hm
  cases he
  exact ⟨p.2, hp, rfl⟩

theorem def_unique {defs : DefSet} (hn : (defs.map (·.1)).Nodup) {pk : PK} {d d' : Def}
    (h1 : (pk, d) ∈ defs) (h2 : (pk, d') ∈ defs) : d = d' := by
  have e1 := find_key_of_mem hn h1
  have e2 := find_key_of_mem hn h2
  simp only at e1 e2
  rw [e1] at e2
  cases e2
  rfl


end CharonV.Fetcher
