/-
Helper lemmas for `CharonV.Model.ProxyCall`: the reader heap (allocation is append-only, reading
one reader leaves the others alone), the closed form of `handOut`, and what nodes read.
-/
import CharonV.Model.ProxyCall
import CharonV.Proofs.Provide

namespace CharonV.Provide

/-! ### heap -/

theorem readAll_length (h : Heap) (id : Nat) : (readAll h id).1.length = h.length := by
  unfold readAll
  split
  · rfl
  · split <;> simp

theorem closeReader_length (h : Heap) (id : Nat) : (closeReader h id).length = h.length := by
  unfold closeReader
  split <;> simp

theorem readAll_other (h : Heap) (id j : Nat) (hne : j ≠ id) : (readAll h id).1[j]? = h[j]? := by
  unfold readAll
  split
  · rfl
  · split <;> simp [List.getElem?_set_ne (Ne.symm hne)]

theorem closeReader_other (h : Heap) (id j : Nat) (hne : j ≠ id) : (closeReader h id)[j]? = h[j]? := by
  unfold closeReader
  split
  · rfl
  · simp [List.getElem?_set_ne (Ne.symm hne)]

/-- reading a fresh reader yields all its bytes. -/
theorem readAll_fresh (h : Heap) (id : Nat) (b : List Nat) (hf : h[id]? = some (freshReader b)) :
    (readAll h id).2 = (b, false) := by
  unfold readAll
  simp [hf, freshReader]

/-- reading the caller's reader (no failure): the rest of its bytes; the cursor is at the end. -/
theorem readAll_ok (h : Heap) (id : Nat) (r : Reader) (hr : h[id]? = some r) (hf : r.failAt = none) :
    readAll h id =
      (h.set id { r with pos := max r.pos r.data.length }, r.data.drop r.pos, false) := by
  unfold readAll
  simp [hr, hf]

theorem readAll_fail (h : Heap) (id : Nat) (r : Reader) (k : Nat) (hr : h[id]? = some r)
    (hf : r.failAt = some k) : (readAll h id).2.2 = true := by
  unfold readAll
  simp [hr, hf]

/-! ### handOut in closed form -/

/-- the requests handed out when the next free reader id is `n`. -/
def handedFrom (req : Req) (b : List Nat) : Nat → List Key → List (Key × Req)
  | _, [] => []
  | n, k :: ks =>
    (k, { req with body := some n, clen := b.length, getBody := some b }) :: handedFrom req b (n + 1) ks

theorem handOut_some (req : Req) (b : List Nat) : ∀ (ks : List Key) (h : Heap),
    handOut h req (some b) ks =
      (h ++ List.replicate ks.length (freshReader b), handedFrom req b h.length ks)
  | [], h => by simp [handOut, handedFrom]
  | k :: ks, h => by
    simp only [handOut, cloneFor, alloc, handedFrom]
    rw [handOut_some req b ks (h ++ [freshReader b])]
    simp [List.replicate_succ, List.append_assoc]

theorem handOut_none (req : Req) : ∀ (ks : List Key) (h : Heap),
    handOut h req none ks = (h, ks.map (fun k => (k, { req with body := none })))
  | [], h => by simp [handOut]
  | k :: ks, h => by
    simp only [handOut, cloneFor]
    rw [handOut_none req ks h]
    simp

theorem handedFrom_keys (req : Req) (b : List Nat) : ∀ (ks : List Key) (n : Nat),
    (handedFrom req b n ks).map (·.1) = ks
  | [], _ => rfl
  | k :: ks, n => by simp [handedFrom, handedFrom_keys req b ks (n + 1)]

theorem handedFrom_mem (req : Req) (b : List Nat) : ∀ (ks : List Key) (n : Nat) (x : Key × Req),
    x ∈ handedFrom req b n ks →
      ∃ id, n ≤ id ∧ id < n + ks.length ∧
        x.2 = { req with body := some id, clen := b.length, getBody := some b }
  | [], _, x, hx => by simp [handedFrom] at hx
  | k :: ks, n, x, hx => by
    simp only [handedFrom, List.mem_cons] at hx
    cases hx with
    | inl h => exact ⟨n, Nat.le_refl _, by simp, by rw [h]⟩
    | inr h =>
      obtain ⟨id, h1, h2, h3⟩ := handedFrom_mem req b ks (n + 1) x h
      exact ⟨id, by omega, by simp only [List.length_cons]; omega, h3⟩

theorem handedFrom_ids_ge (req : Req) (b : List Nat) (ks : List Key) (n : Nat) (x : Key × Req)
    (hx : x ∈ handedFrom req b n ks) (j : Nat) (hj : j < n) : x.2.body ≠ some j := by
  obtain ⟨id, h1, _, h3⟩ := handedFrom_mem req b ks n x hx
  rw [h3]
  simp
  omega

/-- no two consulted nodes hold the same reader. -/
theorem handedFrom_pairwise (req : Req) (b : List Nat) : ∀ (ks : List Key) (n : Nat),
    List.Pairwise (fun x y : Key × Req => x.2.body ≠ y.2.body) (handedFrom req b n ks)
  | [], _ => List.Pairwise.nil
  | k :: ks, n => by
    simp only [handedFrom]
    refine List.Pairwise.cons ?_ (handedFrom_pairwise req b ks (n + 1))
    intro y hy
    obtain ⟨id, h1, _, h3⟩ := handedFrom_mem req b ks (n + 1) y hy
    rw [h3]
    simp
    omega

/-! ### what the nodes read -/

theorem nodesRead_keys : ∀ (ord : List (Key × Req)) (H : Heap),
    (nodesRead H ord).2.map (·.1) = ord.map (·.1)
  | [], _ => rfl
  | (k, rq) :: rest, H => by
    unfold nodesRead
    cases hb : rq.body with
    | none => simp [nodesRead_keys rest H]
    | some id => simp [nodesRead_keys rest (readAll H id).1]

/-- readers that none of the reading nodes holds are not touched. -/
theorem nodesRead_other : ∀ (ord : List (Key × Req)) (H : Heap) (j : Nat),
    (∀ x ∈ ord, x.2.body ≠ some j) → (nodesRead H ord).1[j]? = H[j]?
  | [], _, _, _ => rfl
  | (k, rq) :: rest, H, j, hno => by
    unfold nodesRead
    have hrest : ∀ x ∈ rest, x.2.body ≠ some j := fun x hx => hno x (List.mem_cons_of_mem _ hx)
    cases hb : rq.body with
    | none => simp [nodesRead_other rest H j hrest]
    | some id =>
      have hne : j ≠ id := by
        intro h
        exact hno (k, rq) (List.mem_cons_self) (by rw [hb, h])
      simp [nodesRead_other rest (readAll H id).1 j hrest, readAll_other H id j hne]

/-- nodes holding pairwise different fresh readers over `b` all read `b`, in whatever order they read. -/
theorem nodesRead_fresh (b : List Nat) : ∀ (ord : List (Key × Req)) (H : Heap),
    List.Pairwise (fun x y : Key × Req => x.2.body ≠ y.2.body) ord →
    (∀ x ∈ ord, ∃ id, x.2.body = some id ∧ H[id]? = some (freshReader b)) →
    (nodesRead H ord).2 = ord.map (fun x => (x.1, some b))
  | [], _, _, _ => rfl
  | (k, rq) :: rest, H, hp, hall => by
    obtain ⟨id, hid, hfresh⟩ := hall (k, rq) List.mem_cons_self
    have hid' : rq.body = some id := hid
    rw [List.pairwise_cons] at hp
    have hrest : ∀ x ∈ rest, ∃ id', x.2.body = some id' ∧ (readAll H id).1[id']? = some (freshReader b) := by
      intro x hx
      obtain ⟨id', h1, h2⟩ := hall x (List.mem_cons_of_mem _ hx)
      refine ⟨id', h1, ?_⟩
      have hne : id' ≠ id := by
        intro h
        apply hp.1 x hx
        show rq.body = x.2.body
        rw [hid', h1, h]
      rw [readAll_other H id id' hne]
      exact h2
    have ih := nodesRead_fresh b rest (readAll H id).1 hp.2 hrest
    have hread := readAll_fresh H id b hfresh
    unfold nodesRead
    simp only [hid']
    rw [show (readAll H id) = ((readAll H id).1, (readAll H id).2.1, (readAll H id).2.2) from rfl]
    simp only [ih]
    rw [show (readAll H id).2.1 = b from by rw [hread]]
    simp

/-! ### `proxy` in closed form -/

/-- `Proxy` calls `provide` without an `isSuccessFunc`. -/
def noSf (sc : Scen) : Scen := { sc with sf := false }

/-- the caller's reader after `Proxy`: drained and closed once. -/
def drained (r : Reader) : Reader :=
  { r with pos := max r.pos r.data.length, closes := r.closes + 1 }

theorem prepare_body (h : Heap) (req : Req) (rid : Nat) (r : Reader)
    (hb : req.body = some rid) (hr : h[rid]? = some r) (hf : r.failAt = none) :
    prepare h req =
      (h.set rid (drained r) ++ [freshReader (r.data.drop r.pos)],
       some ({ req with body := some h.length, clen := (r.data.drop r.pos).length,
                        getBody := some (r.data.drop r.pos) }, some (r.data.drop r.pos))) := by
  have hlt : rid < h.length := getElem?_lt hr
  unfold prepare
  simp only [hb, readAll_ok h rid r hr hf]
  have hget : (h.set rid { r with pos := max r.pos r.data.length })[rid]? =
      some { r with pos := max r.pos r.data.length } := by
    simp [hlt]
  simp only [closeReader, hget, alloc, List.set_set, List.length_set, drained]

theorem prepare_fail (h : Heap) (req : Req) (rid : Nat) (r : Reader) (k : Nat)
    (hb : req.body = some rid) (hr : h[rid]? = some r) (hf : r.failAt = some k) :
    (prepare h req).2 = none := by
  have h2 := readAll_fail h rid r k hr hf
  unfold prepare
  simp only [hb]
  generalize readAll h rid = x at h2
  obtain ⟨h1, b, e⟩ := x
  simp at h2
  simp [h2]

theorem proxy_body_eq (sc : Scen) (evs : List Ev) (h : Heap) (req : Req) (rid : Nat) (r : Reader)
    (hb : req.body = some rid) (hr : h[rid]? = some r) (hf : r.failAt = none) :
    proxy sc evs h req =
      { res := .ret (provide (noSf sc) evs).1, consumed := (provide (noSf sc) evs).2,
        usedFb := usedFallback (noSf sc) evs,
        handed := handedFrom { req with body := some h.length, clen := (r.data.drop r.pos).length,
                                        getBody := some (r.data.drop r.pos) }
                    (r.data.drop r.pos) (h.length + 1) (consulted (noSf sc) evs),
        heap := (h.set rid (drained r) ++ [freshReader (r.data.drop r.pos)]) ++
                  List.replicate (consulted (noSf sc) evs).length (freshReader (r.data.drop r.pos)),
        req := { req with body := some h.length, clen := (r.data.drop r.pos).length,
                          getBody := some (r.data.drop r.pos) } } := by
  unfold proxy
  rw [prepare_body h req rid r hb hr hf]
  simp only [handOut_some, noSf]
  simp

theorem proxy_nil_eq (sc : Scen) (evs : List Ev) (h : Heap) (req : Req) (hb : req.body = none) :
    proxy sc evs h req =
      { res := .ret (provide (noSf sc) evs).1, consumed := (provide (noSf sc) evs).2,
        usedFb := usedFallback (noSf sc) evs,
        handed := (consulted (noSf sc) evs).map (fun k => (k, { req with body := none })),
        heap := h, req := req } := by
  unfold proxy prepare
  simp only [hb, handOut_none, noSf]

/-! ### the lazy / http path: event lists by node kind -/

theorem mem_relsOf (fb : Bool) (ks : List Kind) (k : Kind) (e : Ev) :
    e ∈ relsOf fb ks k ↔ ∃ j, e = Ev.rel fb j ∧ ks[j]? = some k := by
  unfold relsOf
  simp only [List.mem_map, List.mem_filter, List.mem_range]
  constructor
  · rintro ⟨j, ⟨_, hj⟩, rfl⟩
    exact ⟨j, rfl, by simpa using hj⟩
  · rintro ⟨j, rfl, hj⟩
    exact ⟨j, ⟨getElem?_lt hj, by simp [hj]⟩, rfl⟩

theorem relsOf_nil (fb : Bool) (ks : List Kind) (k : Kind) (h : ∀ x ∈ ks, x ≠ k) : relsOf fb ks k = [] := by
  cases hr : relsOf fb ks k with
  | nil => rfl
  | cons e tl =>
    have : e ∈ relsOf fb ks k := by rw [hr]; exact List.mem_cons_self
    obtain ⟨j, _, hj⟩ := (mem_relsOf fb ks k e).mp this
    exact absurd rfl (h k (List.mem_of_getElem? hj))

theorem cancel_not_mem_relsOf (fb : Bool) (ks : List Kind) (k : Kind) : Ev.cancel ∉ relsOf fb ks k := by
  intro h
  obtain ⟨j, hj, _⟩ := (mem_relsOf fb ks k _).mp h
  cases hj

theorem httpScen_prim_get (p f : List Kind) (j : Nat) (k : Kind) (h : p[j]? = some k) :
    (httpScen p f).prim[j]? = some k.node := by
  simp [httpScen, h]

/-- the completions of the unreachable primaries are a quiet prefix for any other node. -/
theorem quiet_dead (p f : List Kind) (i : Nat) (ki : Kind) (hi : p[i]? = some ki) (hne : ki ≠ .dead) :
    Quiet (httpScen p f) false [i] (relsOf false p .dead) := by
  refine ⟨cancel_not_mem_relsOf _ _ _, ?_⟩
  intro j m hj hm
  obtain ⟨j', hj', hk⟩ := (mem_relsOf false p .dead _).mp hj
  cases hj'
  have : (nodes (httpScen p f) false)[j]? = some Kind.dead.node := by
    simpa [nodes] using httpScen_prim_get p f j .dead hk
  rw [this] at hm
  cases hm
  refine ⟨rfl, ?_⟩
  simp only [List.mem_singleton]
  intro hji
  subst hji
  rw [hi] at hk
  cases hk
  exact hne rfl

end CharonV.Provide
